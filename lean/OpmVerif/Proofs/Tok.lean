/-
  Lemmas about the record tokeniser (`Model/Tok.lean`).

  The tokeniser looks ahead when it reads the opening quote of `digits*'`.  The proofs use a
  context-free "pessimistic" variant of the machine (`tokStepP`: always take the extended
  branch): whenever the pessimistic scan of a text ends outside a quoted part
  (`OutsideP`), every look-ahead inside that text was decided within the text, and the
  real machine produces the same tokens (`tok_prefix`).
-/
import OpmVerif.Model.Tok
import OpmVerif.Proofs.Lex

namespace OpmVerif.Tok
open OpmVerif.Lex

theorem tok_cons (st : TS) (c : UInt8) (r : Bytes) :
    tok st (c :: r) = emit st c (tok (tokStep st c r) r) := by
  cases st <;> rfl

/-- states in which a separator ends the current token (or there is none). -/
def TS.outside : TS → Bool
  | .quoted => false
  | .sq => false
  | _ => true

/-- what a separator does to the token under construction. -/
def closeTok (st : TS) (ts : List Bytes) : List Bytes :=
  match st with
  | .gap => ts
  | _ => [] :: ts

theorem tok_nil (st : TS) : tok st [] = closeTok st [] := by cases st <;> rfl

theorem tok_ne_nil_of_ne_gap : ∀ (l : Bytes) (st : TS), st ≠ .gap → tok st l ≠ [] := by
  intro l
  induction l with
  | nil => intro st h; cases st <;> simp_all [tok]
  | cons c r ih =>
    intro st h
    rw [tok_cons]
    have hch : ∀ ts, consHead c ts ≠ [] := by intro ts; cases ts <;> simp [consHead]
    cases st with
    | gap => exact absurd rfl h
    | quoted => simp only [emit]; split <;> exact hch _
    | sq => exact hch _
    | word => simp only [emit]; split; simp; exact hch _
    | digits => simp only [emit]; split; simp; exact hch _
    | star => simp only [emit]; split; simp; exact hch _

theorem consHead_append (c : UInt8) (X Y : List Bytes) (h : X ≠ []) : consHead c (X ++ Y) = consHead c X ++ Y := by
  cases X with
  | nil => exact absurd rfl h
  | cons x xs => rfl

/-- Outside quotes a non-empty run of separators has the same effect whatever its
length and whichever separators (blank, tab, comma, CR, LF, VT, FF, SOH) it is made of. -/
theorem tok_sep_run (b : Bytes) :
    ∀ (s : Bytes) (st : TS), s ≠ [] → (∀ x ∈ s, isSep x = true) → st.outside = true →
      tok st (s ++ b) = closeTok st (tok .gap b) := by
  intro s
  induction s with
  | nil => intro st h; exact absurd rfl h
  | cons c s ih =>
    intro st _ hs hst
    have hc : isSep c = true := hs c (by simp)
    have hstep : tokStep st c (s ++ b) = .gap := by
      cases st <;> simp_all [tokStep, TS.outside]
    have hrest : tok .gap (s ++ b) = tok .gap b := by
      cases s with
      | nil => rfl
      | cons d s' =>
        have := ih .gap (by simp) (fun x hx => hs x (by simp [hx])) rfl
        simpa [closeTok] using this
    rw [List.cons_append, tok_cons, hstep, hrest]
    cases st <;> simp_all [emit, closeTok, TS.outside]

/-- text that is empty or begins with a separator. -/
def SepStart (rest : Bytes) : Prop := rest = [] ∨ ∃ c r, rest = c :: r ∧ isSep c = true

/-- in an outside state, text that is empty or starts with a separator closes the token. -/
theorem tok_sepStart (st : TS) (X : Bytes) (hX : SepStart X) (hst : st.outside = true) :
    tok st X = closeTok st (tok .gap X) := by
  rcases hX with rfl | ⟨c, r, rfl, hc⟩
  · rw [tok_nil]; cases st <;> rfl
  · have h1 := tok_sep_run r [c] st (by simp) (by simpa using hc) hst
    have h2 := tok_sep_run r [c] .gap (by simp) (by simpa using hc) rfl
    simp only [List.singleton_append] at h1 h2
    rw [h1, h2]; rfl

/-! ## the pessimistic machine -/

/-- `tokStep` with the look-ahead answered "yes". -/
def tokStepP (st : TS) (c : UInt8) : TS :=
  match st with
  | .star => if isSep c then .gap else if c = 39 then .sq else .word
  | st => tokStep st c []

def tokStateP (st : TS) (a : Bytes) : TS := a.foldl tokStepP st

/-- tokens of `a` by the pessimistic machine, the last token closed at the end. -/
def tokP : TS → Bytes → List Bytes
  | st, [] => closeTok st []
  | st, c :: r => emit st c (tokP (tokStepP st c) r)

/-- **`OutsideP a`**: scanning `a` (pessimistically, hence independently of what follows)
ends outside every quoted token — also outside the quoted part of an `n*'…'` token. -/
def OutsideP (a : Bytes) : Prop := (tokStateP .gap a).outside = true

instance (a : Bytes) : Decidable (OutsideP a) := by unfold OutsideP; infer_instance

theorem tokStep_eq_P (st : TS) (c : UInt8) (rest : Bytes) (h : ¬ (st = .star ∧ c = 39 ∧ extendsQuote rest = false)) :
    tokStep st c rest = tokStepP st c := by
  cases st <;> simp only [tokStep, tokStepP]
  by_cases hc : c = 39
  · have : extendsQuote rest = true := by
      cases he : extendsQuote rest with
      | true => rfl
      | false => exact absurd ⟨rfl, hc, he⟩ h
    simp [hc, this]
  · simp [hc]

theorem tokP_ne_nil_of_ne_gap : ∀ (l : Bytes) (st : TS), st ≠ .gap → tokP st l ≠ [] := by
  intro l
  induction l with
  | nil => intro st h; cases st <;> simp_all [tokP, closeTok]
  | cons c r ih =>
    intro st h
    simp only [tokP]
    have hch : ∀ ts, consHead c ts ≠ [] := by intro ts; cases ts <;> simp [consHead]
    cases st with
    | gap => exact absurd rfl h
    | quoted => simp only [emit]; split <;> exact hch _
    | sq => exact hch _
    | word => simp only [emit]; split; simp; exact hch _
    | digits => simp only [emit]; split; simp; exact hch _
    | star => simp only [emit]; split; simp; exact hch _

/-- `emit` distributes over appending further tokens, as long as the token in progress is
already there. -/
theorem emit_append (st st' : TS) (c : UInt8) (A B : List Bytes) (hA : st' ≠ .gap → A ≠ [])
    (hgap : st' = .gap → (st = .gap ∧ isSep c = true) ∨ (st.outside = true ∧ isSep c = true) ∨
      (st = .quoted ∧ c = 39)) :
    emit st c (A ++ B) = emit st c A ++ B := by
  by_cases hg : st' = .gap
  · rcases hgap hg with ⟨rfl, hc⟩ | ⟨ho, hc⟩ | ⟨rfl, hc⟩
    · simp [emit, hc]
    · cases st <;> simp_all [emit, TS.outside]
    · simp [emit, hc, consHead]
  · have hA' := hA hg
    cases st with
    | gap => simp only [emit]; split; rfl; exact consHead_append c A B hA'
    | quoted =>
      simp only [emit]; split
      · simp [consHead]
      · exact consHead_append c A B hA'
    | sq => exact consHead_append c A B hA'
    | word => simp only [emit]; split; rfl; exact consHead_append c A B hA'
    | digits => simp only [emit]; split; rfl; exact consHead_append c A B hA'
    | star => simp only [emit]; split; rfl; exact consHead_append c A B hA'

/-- when is the next state `gap`. -/
theorem tokStepP_gap (st : TS) (c : UInt8) (h : tokStepP st c = .gap) :
    (st = .gap ∧ isSep c = true) ∨ (st.outside = true ∧ isSep c = true) ∨ (st = .quoted ∧ c = 39) := by
  cases st <;> simp only [tokStepP, tokStep] at h
  · by_cases hc : isSep c = true
    · exact Or.inl ⟨rfl, hc⟩
    · simp only [hc, Bool.false_eq_true, ↓reduceIte] at h
      split at h
      · cases h
      · split at h <;> cases h
  · by_cases hc : isSep c = true
    · exact Or.inr (Or.inl ⟨rfl, hc⟩)
    · simp [hc] at h
  · by_cases hc : c = 39
    · exact Or.inr (Or.inr ⟨rfl, hc⟩)
    · simp [hc] at h
  · by_cases hc : isSep c = true
    · exact Or.inr (Or.inl ⟨rfl, hc⟩)
    · simp only [hc, Bool.false_eq_true, ↓reduceIte] at h
      split at h
      · cases h
      · split at h <;> cases h
  · by_cases hc : isSep c = true
    · exact Or.inr (Or.inl ⟨rfl, hc⟩)
    · simp only [hc, Bool.false_eq_true, ↓reduceIte] at h
      split at h <;> cases h
  · split at h <;> cases h

/-- if the look-ahead says "no" although a quote follows, the quote comes before any
separator: the text up to it holds neither. -/
theorem extendsQuote_false_split : ∀ (r : Bytes), extendsQuote r = false → 39 ∈ r →
    ∃ w r', r = w ++ 39 :: r' ∧ (∀ x ∈ w, isSep x = false) ∧ (∀ x ∈ w, x ≠ 39) := by
  intro r
  induction r with
  | nil => intro _ h; cases h
  | cons c r ih =>
    intro he hm
    simp only [extendsQuote] at he
    by_cases hc : c = 39
    · subst hc; exact ⟨[], r, rfl, by simp, by simp⟩
    · simp only [hc, ↓reduceIte] at he
      have hm' : 39 ∈ r := by
        rcases List.mem_cons.mp hm with h | h
        · exact absurd h.symm hc
        · exact h
      by_cases hs : isSep c = true
      · simp only [hs, ↓reduceIte] at he
        have : r.contains 39 = true := by simpa using hm'
        rw [this] at he; cases he
      · simp only [hs, Bool.false_eq_true, ↓reduceIte] at he
        obtain ⟨w, r', rfl, h1, h2⟩ := ih he hm'
        refine ⟨c :: w, r', rfl, ?_, ?_⟩
        · intro x hx; rcases List.mem_cons.mp hx with rfl | hx
          · simpa using hs
          · exact h1 x hx
        · intro x hx; rcases List.mem_cons.mp hx with rfl | hx
          · exact hc
          · exact h2 x hx

theorem extendsQuote_append_false : ∀ (r X : Bytes), extendsQuote (r ++ X) = false → 39 ∈ r →
    extendsQuote r = false := by
  intro r
  induction r with
  | nil => intro X _ h; cases h
  | cons c r ih =>
    intro X he hm
    simp only [List.cons_append, extendsQuote] at he ⊢
    by_cases hc : c = 39
    · simp [hc]
    · simp only [hc, ↓reduceIte] at he ⊢
      have hm' : 39 ∈ r := by
        rcases List.mem_cons.mp hm with h | h
        · exact absurd h.symm hc
        · exact h
      by_cases hs : isSep c = true
      · simp only [hs, ↓reduceIte] at he ⊢
        have : (r ++ X).contains 39 = true := by simp [hm']
        rw [this] at he; cases he
      · simp only [hs, Bool.false_eq_true, ↓reduceIte] at he ⊢
        exact ih X he hm'

/-- a pessimistic scan that starts inside `n*'…` and ends outside has met a quote. -/
theorem mem_quote_of_sq_outside : ∀ (a : Bytes), (tokStateP .sq a).outside = true → 39 ∈ a := by
  intro a
  induction a with
  | nil => intro h; simp [tokStateP, TS.outside] at h
  | cons c a ih =>
    intro h
    by_cases hc : c = 39
    · simp [hc]
    · have : tokStateP .sq (c :: a) = tokStateP .sq a := by
        simp [tokStateP, tokStepP, tokStep, hc]
      rw [this] at h
      exact List.mem_cons_of_mem _ (ih h)

/-- before the closing quote, with no separator on the way, the real machine in state
`word` and in state `sq` do the same (and so does the pessimistic one). -/
theorem tok_word_eq_sq : ∀ (w : Bytes) (T : Bytes), (∀ x ∈ w, isSep x = false) → (∀ x ∈ w, x ≠ 39) →
    tok .word (w ++ 39 :: T) = tok .sq (w ++ 39 :: T) := by
  intro w
  induction w with
  | nil =>
    intro T _ _
    have h39 : isSep 39 = false := by decide
    simp [tok_cons, tokStep, emit, h39]
  | cons x w ih =>
    intro T h1 h2
    have hx : isSep x = false := h1 x (by simp)
    have hx' : x ≠ 39 := h2 x (by simp)
    simp only [List.cons_append, tok_cons, tokStep, hx, Bool.false_eq_true, ↓reduceIte, hx', emit]
    rw [ih T (fun y hy => h1 y (by simp [hy])) (fun y hy => h2 y (by simp [hy]))]

/-- **Main lemma.**  If the pessimistic scan of `a` from `st` ends outside quotes and `X`
is empty or starts with a separator, the real tokeniser splits `a ++ X` into the
(context-free) pessimistic tokens of `a` followed by the tokens of `X`. -/
theorem tok_prefix (X : Bytes) (hX : SepStart X) : ∀ (a : Bytes) (st : TS),
    (tokStateP st a).outside = true → tok st (a ++ X) = tokP st a ++ tok .gap X := by
  intro a
  induction a with
  | nil =>
    intro st h
    simp only [List.nil_append, tokP]
    rw [tok_sepStart st X hX (by simpa [tokStateP] using h)]
    cases st <;> simp [closeTok]
  | cons c a ih =>
    intro st h
    have hP : (tokStateP (tokStepP st c) a).outside = true := by simpa [tokStateP] using h
    have key : tok (tokStep st c (a ++ X)) (a ++ X) = tokP (tokStepP st c) a ++ tok .gap X := by
      by_cases hd : st = .star ∧ c = 39 ∧ extendsQuote (a ++ X) = false
      · obtain ⟨rfl, rfl, he⟩ := hd
        have hstepP : tokStepP .star 39 = .sq := by decide
        have hstep : tokStep .star 39 (a ++ X) = .word := by
          have h39 : isSep 39 = false := by decide
          simp [tokStep, h39, he]
        rw [hstepP] at hP ⊢
        rw [hstep]
        have hm := mem_quote_of_sq_outside a hP
        obtain ⟨w, r', rfl, h1, h2⟩ := extendsQuote_false_split a (extendsQuote_append_false a X he hm) hm
        have e : (w ++ 39 :: r') ++ X = w ++ 39 :: (r' ++ X) := by simp
        rw [e, tok_word_eq_sq w (r' ++ X) h1 h2, ← e]
        exact ih .sq hP
      · rw [tokStep_eq_P st c (a ++ X) hd]
        exact ih _ hP
    rw [List.cons_append, tok_cons, key]
    simp only [tokP]
    exact emit_append st (tokStepP st c) c _ _ (fun hne => tokP_ne_nil_of_ne_gap a _ hne)
      (fun hg => tokStepP_gap st c hg)

/-- the tokens of a text whose scan ends outside quotes are the pessimistic (context-free)
ones. -/
theorem tokenize_eq_tokP (a : Bytes) (h : OutsideP a) : tokenize a = tokP .gap a := by
  have := tok_prefix [] (Or.inl rfl) a .gap h
  simpa [tokenize, tok] using this

/-- a separator run outside quotes splits the token list. -/
theorem tok_append_sep (s rest : Bytes) (hs : s ≠ []) (hsep : ∀ x ∈ s, isSep x = true)
    (a : Bytes) (st : TS) (h : (tokStateP st a).outside = true) :
    tok st (a ++ s ++ rest) = tokP st a ++ tok .gap rest := by
  have hX : SepStart (s ++ rest) := by
    cases s with
    | nil => exact absurd rfl hs
    | cons c r => exact Or.inr ⟨c, r ++ rest, rfl, hsep c (by simp)⟩
  rw [List.append_assoc, tok_prefix (s ++ rest) hX a st h]
  have := tok_sep_run rest s .gap hs hsep rfl
  rw [this]; rfl

/-- **`split_sep_congr`** — replacing a non-empty separator run that lies outside quotes
(also outside the quoted part of an `n*'…'` token: `OutsideP a`) by any other non-empty
separator run leaves the token list unchanged.  Since `'\n'` is a separator and
`update_record_buffer` merely extends the record view over the line end, this is also the
rule "a record may be broken between items". -/
theorem split_sep_congr (a s s' b : Bytes)
    (hs : s ≠ []) (hs' : s' ≠ []) (hsep : ∀ x ∈ s, isSep x = true) (hsep' : ∀ x ∈ s', isSep x = true)
    (hout : OutsideP a) :
    tokenize (a ++ s ++ b) = tokenize (a ++ s' ++ b) := by
  unfold tokenize
  rw [tok_append_sep s b hs hsep a .gap hout, tok_append_sep s' b hs' hsep' a .gap hout]

/-- leading separators of a record are irrelevant. -/
theorem tokenize_sep_prefix (s b : Bytes) (hsep : ∀ x ∈ s, isSep x = true) :
    tokenize (s ++ b) = tokenize b := by
  unfold tokenize
  cases s with
  | nil => rfl
  | cons c s' =>
    have := tok_sep_run b (c :: s') .gap (by simp) hsep rfl
    simpa [closeTok] using this

/-! ## tokens of a separator-joined list of atomic tokens -/

/-- a bare word: non-empty, no separator, no quote. -/
def BareWord (t : Bytes) : Prop := t ≠ [] ∧ (∀ x ∈ t, isSep x = false) ∧ (∀ x ∈ t, x ≠ 39)

instance (t : Bytes) : Decidable (BareWord t) := by unfold BareWord; infer_instance

/-- a quoted token: `'…'` without a quote inside. -/
def QuotedTok (t : Bytes) : Prop := ∃ body, t = 39 :: body ++ [39] ∧ ∀ x ∈ body, x ≠ 39

/-- a token the tokeniser gives back as it stands. -/
def Atomic (t : Bytes) : Prop := BareWord t ∨ QuotedTok t

/-- inside a bare token (any of the three bare states). -/
def TS.inWord : TS → Bool
  | .word => true
  | .digits => true
  | .star => true
  | _ => false

theorem tok_word_tail (rest : Bytes) (hr : SepStart rest) :
    ∀ (t : Bytes) (st : TS), st.inWord = true → (∀ x ∈ t, isSep x = false) → (∀ x ∈ t, x ≠ 39) →
      tok st (t ++ rest) = t :: tok .gap rest := by
  intro t
  induction t with
  | nil =>
    intro st hst _ _
    rw [List.nil_append, tok_sepStart st rest hr (by cases st <;> simp_all [TS.inWord, TS.outside])]
    cases st <;> simp_all [TS.inWord, closeTok]
  | cons x t ih =>
    intro st hst h1 h2
    have hx : isSep x = false := h1 x (by simp)
    have hx' : x ≠ 39 := h2 x (by simp)
    have hnext : (tokStep st x (t ++ rest)).inWord = true := by
      cases st with
      | word => simp [tokStep, hx, TS.inWord]
      | digits =>
        simp only [tokStep, hx, Bool.false_eq_true, ↓reduceIte]
        split
        · rfl
        · split <;> rfl
      | star => simp [tokStep, hx, hx', TS.inWord]
      | gap => simp [TS.inWord] at hst
      | quoted => simp [TS.inWord] at hst
      | sq => simp [TS.inWord] at hst
    rw [List.cons_append, tok_cons, ih _ hnext (fun y hy => h1 y (by simp [hy])) (fun y hy => h2 y (by simp [hy]))]
    cases st <;> simp_all [TS.inWord, emit, consHead]

theorem tok_bare_word (t rest : Bytes) (ht : BareWord t) (hr : SepStart rest) :
    tok .gap (t ++ rest) = t :: tok .gap rest := by
  obtain ⟨hne, hsep, hq⟩ := ht
  cases t with
  | nil => exact absurd rfl hne
  | cons x t' =>
    have hx : isSep x = false := hsep x (by simp)
    have hx' : x ≠ 39 := hq x (by simp)
    have hnext : (tokStep .gap x (t' ++ rest)).inWord = true := by
      simp only [tokStep, hx, Bool.false_eq_true, ↓reduceIte, hx']
      split <;> rfl
    rw [List.cons_append, tok_cons,
      tok_word_tail rest hr t' _ hnext (fun y hy => hsep y (by simp [hy])) (fun y hy => hq y (by simp [hy]))]
    simp [emit, hx, consHead]

/-- in state `word` quotes are ordinary characters. -/
theorem tok_in_word (rest : Bytes) (hr : SepStart rest) :
    ∀ (t : Bytes), (∀ x ∈ t, isSep x = false) → tok .word (t ++ rest) = t :: tok .gap rest := by
  intro t
  induction t with
  | nil => intro _; rw [List.nil_append, tok_sepStart .word rest hr rfl]; rfl
  | cons x t ih =>
    intro h1
    have hx : isSep x = false := h1 x (by simp)
    rw [List.cons_append, tok_cons]
    simp only [tokStep, hx, Bool.false_eq_true, ↓reduceIte]
    rw [ih (fun y hy => h1 y (by simp [hy]))]
    simp [emit, hx, consHead]

theorem tok_quoted_tail (rest : Bytes) :
    ∀ (body : Bytes), (∀ x ∈ body, x ≠ 39) →
      tok .quoted (body ++ 39 :: rest) = (body ++ [39]) :: tok .gap rest := by
  intro body
  induction body with
  | nil => intro _; simp [tok_cons, tokStep, emit, consHead]
  | cons x body ih =>
    intro h
    have hx : x ≠ 39 := h x (by simp)
    rw [List.cons_append, tok_cons]
    simp only [tokStep, hx, ↓reduceIte]
    rw [ih (fun y hy => h y (by simp [hy]))]
    simp [emit, hx, consHead]

theorem tok_quoted (t rest : Bytes) (ht : QuotedTok t) :
    tok .gap (t ++ rest) = t :: tok .gap rest := by
  obtain ⟨body, rfl, hb⟩ := ht
  have h39 : isSep 39 = false := by decide
  have e : 39 :: body ++ [39] ++ rest = 39 :: (body ++ 39 :: rest) := by simp
  rw [e, tok_cons]
  simp only [tokStep, h39, Bool.false_eq_true, ↓reduceIte]
  rw [tok_quoted_tail rest body hb]
  simp [emit, h39, consHead]

theorem tok_atomic (t rest : Bytes) (ht : Atomic t) (hr : SepStart rest) :
    tok .gap (t ++ rest) = t :: tok .gap rest := by
  rcases ht with h | h
  · exact tok_bare_word t rest h hr
  · exact tok_quoted t rest h

/-- text made of tokens, each preceded by a separator run, then trailing separators. -/
def layoutToks (l : List (Bytes × Bytes)) (tr : Bytes) : Bytes :=
  (l.flatMap fun p => p.1 ++ p.2) ++ tr

theorem layoutToks_sepStart (l : List (Bytes × Bytes)) (tr : Bytes)
    (hl : ∀ p ∈ l, p.1 ≠ [] ∧ (∀ x ∈ p.1, isSep x = true))
    (htr : ∀ x ∈ tr, isSep x = true) : SepStart (layoutToks l tr) := by
  unfold layoutToks
  cases l with
  | nil =>
    cases tr with
    | nil => exact Or.inl rfl
    | cons c r => exact Or.inr ⟨c, r, rfl, htr c (by simp)⟩
  | cons p l =>
    obtain ⟨hne, hs⟩ := hl p (by simp)
    cases hp : p.1 with
    | nil => exact absurd hp hne
    | cons c r =>
      refine Or.inr ⟨c, r ++ p.2 ++ (l.flatMap fun p => p.1 ++ p.2) ++ tr, ?_, hs c (by simp [hp])⟩
      simp [hp]

/-- **Tokenising a laid-out token list gives the token list back**, whatever
separator runs (blanks, line breaks, …) were put between the tokens. -/
theorem tokenize_layout (tr : Bytes) (htr : ∀ x ∈ tr, isSep x = true) :
    ∀ (l : List (Bytes × Bytes)),
      (∀ p ∈ l, p.1 ≠ [] ∧ (∀ x ∈ p.1, isSep x = true) ∧ Atomic p.2) →
      tokenize (layoutToks l tr) = l.map (·.2) := by
  intro l
  induction l with
  | nil =>
    intro _
    have := tokenize_sep_prefix tr [] htr
    simpa [layoutToks, tokenize, tok] using this
  | cons p l ih =>
    intro h
    obtain ⟨_, hs, hat⟩ := h p (by simp)
    have hl : ∀ q ∈ l, q.1 ≠ [] ∧ (∀ x ∈ q.1, isSep x = true) ∧ Atomic q.2 :=
      fun q hq => h q (by simp [hq])
    have e : layoutToks (p :: l) tr = p.1 ++ (p.2 ++ layoutToks l tr) := by
      simp [layoutToks, List.append_assoc]
    rw [e, tokenize_sep_prefix _ _ hs]
    unfold tokenize
    rw [tok_atomic p.2 _ hat
      (layoutToks_sepStart l tr (fun q hq => ⟨(hl q hq).1, (hl q hq).2.1⟩) htr)]
    have := ih hl
    unfold tokenize at this
    rw [this]
    rfl

/-! ## `n*'quoted value with blanks'` -/

theorem extendsQuote_false_no_sep : ∀ (body rest : Bytes), (∀ x ∈ body, x ≠ 39) →
    extendsQuote (body ++ 39 :: rest) = false → ∀ x ∈ body, isSep x = false := by
  intro body
  induction body with
  | nil => intro _ _ _ x hx; cases hx
  | cons c body ih =>
    intro rest hq he x hx
    have hc : c ≠ 39 := hq c (by simp)
    simp only [List.cons_append, extendsQuote, hc, ↓reduceIte] at he
    by_cases hs : isSep c = true
    · simp only [hs, ↓reduceIte] at he
      have : (body ++ 39 :: rest).contains 39 = true := by simp
      rw [this] at he; cases he
    · simp only [hs, Bool.false_eq_true, ↓reduceIte] at he
      rcases List.mem_cons.mp hx with rfl | hx
      · simpa using hs
      · exact ih rest (fun y hy => hq y (by simp [hy])) he x hx

theorem tok_sq_tail (rest : Bytes) (hr : SepStart rest) :
    ∀ (body : Bytes), (∀ x ∈ body, x ≠ 39) →
      tok .sq (body ++ 39 :: rest) = (body ++ [39]) :: tok .gap rest := by
  intro body
  induction body with
  | nil =>
    intro _
    simp only [List.nil_append, tok_cons, tokStep, ↓reduceIte, emit]
    rw [tok_sepStart .word rest hr rfl]
    simp [closeTok, consHead]
  | cons x body ih =>
    intro h
    have hx : x ≠ 39 := h x (by simp)
    rw [List.cons_append, tok_cons]
    simp only [tokStep, hx, ↓reduceIte]
    rw [ih (fun y hy => h y (by simp [hy]))]
    simp [emit, consHead]

theorem isDigit_props (d : UInt8) (h : isDigit d = true) : isSep d = false ∧ d ≠ 39 ∧ d ≠ 42 := by
  have key : ∀ n, n < 256 → (48 ≤ n && n ≤ 57) = true → sepCode (n % 128) = false ∧ n ≠ 39 ∧ n ≠ 42 := by
    decide +kernel
  have := key d.toNat d.toNat_lt (by simpa [isDigit] using h)
  refine ⟨by simpa [isSep] using this.1, ?_, ?_⟩
  · intro e; subst e; exact this.2.1 rfl
  · intro e; subst e; exact this.2.2 rfl

/-- behind `digits*`, an opening quote, a quote-free body, the closing quote: one token,
whether or not the body holds separators. -/
theorem tok_star_body (body rest : Bytes) (hb : ∀ x ∈ body, x ≠ 39) (hr : SepStart rest) :
    tok .star (39 :: body ++ 39 :: rest) = (39 :: body ++ [39]) :: tok .gap rest := by
  have h39 : isSep 39 = false := by decide
  rw [List.cons_append, tok_cons]
  by_cases he : extendsQuote (body ++ 39 :: rest) = true
  · simp only [tokStep, h39, Bool.false_eq_true, ↓reduceIte, he, and_self, emit]
    rw [tok_sq_tail rest hr body hb]
    simp [consHead]
  · have he' : extendsQuote (body ++ 39 :: rest) = false := by simpa using he
    have hns := extendsQuote_false_no_sep body rest hb he'
    simp only [tokStep, h39, Bool.false_eq_true, ↓reduceIte, he', and_false, emit]
    have e : body ++ 39 :: rest = (body ++ [39]) ++ rest := by simp
    rw [e, tok_in_word rest hr (body ++ [39]) (by
      intro x hx; rcases List.mem_append.mp hx with h | h
      · exact hns x h
      · simp at h; subst h; exact h39)]
    simp [consHead]

theorem tok_digits_star_body (body rest : Bytes) (hb : ∀ x ∈ body, x ≠ 39) (hr : SepStart rest) :
    ∀ (ds : Bytes), (∀ d ∈ ds, isDigit d = true) →
      tok .digits (ds ++ 42 :: 39 :: body ++ 39 :: rest) = (ds ++ 42 :: 39 :: body ++ [39]) :: tok .gap rest := by
  intro ds
  induction ds with
  | nil =>
    intro _
    have h42 : isSep 42 = false := by decide
    have hd42 : isDigit 42 = false := by decide
    have e : ([] : Bytes) ++ 42 :: 39 :: body ++ 39 :: rest = 42 :: (39 :: body ++ 39 :: rest) := by simp
    rw [e, tok_cons]
    simp only [tokStep, h42, hd42, Bool.false_eq_true, ↓reduceIte, emit]
    rw [tok_star_body body rest hb hr]
    simp [consHead]
  | cons d ds ih =>
    intro h
    obtain ⟨hs, _, _⟩ := isDigit_props d (h d (by simp))
    have hd : isDigit d = true := h d (by simp)
    have e : (d :: ds) ++ 42 :: 39 :: body ++ 39 :: rest = d :: (ds ++ 42 :: 39 :: body ++ 39 :: rest) := by simp
    rw [e, tok_cons]
    simp only [tokStep, hs, hd, Bool.false_eq_true, ↓reduceIte, emit]
    rw [ih (fun x hx => h x (by simp [hx]))]
    simp [consHead]

/-- **`n*'quoted value with blanks'` is one token** (`2*'A B'`, `3*'a,b'`, …): digits, `*`, an
opening quote, any quote-free body — separators included — and the closing quote, followed
by a separator or the end of the record. -/
theorem tok_star_quoted (ds body rest : Bytes) (hne : ds ≠ []) (hd : ∀ d ∈ ds, isDigit d = true)
    (hb : ∀ x ∈ body, x ≠ 39) (hr : SepStart rest) :
    tok .gap (ds ++ 42 :: 39 :: body ++ 39 :: rest) = (ds ++ 42 :: 39 :: body ++ [39]) :: tok .gap rest := by
  cases ds with
  | nil => exact absurd rfl hne
  | cons d ds =>
    obtain ⟨hs, h39, _⟩ := isDigit_props d (hd d (by simp))
    have hdd : isDigit d = true := hd d (by simp)
    have e : (d :: ds) ++ 42 :: 39 :: body ++ 39 :: rest = d :: (ds ++ 42 :: 39 :: body ++ 39 :: rest) := by simp
    rw [e, tok_cons]
    simp only [tokStep, hs, h39, hdd, Bool.false_eq_true, ↓reduceIte, emit]
    rw [tok_digits_star_body body rest hb hr ds (fun x hx => hd x (by simp [hx]))]
    simp [consHead]

end OpmVerif.Tok
