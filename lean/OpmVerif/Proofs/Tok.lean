/-
  Lemmas about the record tokeniser (`Model/Tok.lean`).
-/
import OpmVerif.Model.Tok
import OpmVerif.Proofs.Lex

namespace OpmVerif.Tok
open OpmVerif.Lex

theorem tok_cons (next : UInt8) (st : TState) (c : UInt8) (r : Bytes) :
    tok next st (c :: r) = emit st c (tok next (tokStep st c) r) := by
  cases st with
  | none => rfl
  | some b => cases b <;> rfl

/-- state of the tokeniser after reading `a`. -/
def tokState (st : TState) (a : Bytes) : TState := a.foldl tokStep st

/-- The tokens of `a ++ X` depend on `X` only through the tokens of `X` read in the
state reached after `a`. -/
theorem tok_append_congr (next : UInt8) (X X' : Bytes) :
    ∀ (a : Bytes) (st : TState), tok next (tokState st a) X = tok next (tokState st a) X' →
      tok next st (a ++ X) = tok next st (a ++ X') := by
  intro a
  induction a with
  | nil => intro st h; simpa [tokState] using h
  | cons c a ih =>
    intro st h
    rw [List.cons_append, List.cons_append, tok_cons, tok_cons]
    congr 1
    exact ih _ (by simpa [tokState] using h)

/-- what a separator does to the token under construction. -/
def closeTok (st : TState) (ts : List Bytes) : List Bytes :=
  match st with
  | some false => [] :: ts
  | _ => ts

/-- Outside quotes a non-empty run of separators has the same effect whatever its
length and whichever separators (blank, tab, comma, CR, LF, VT, FF, SOH) it is made of. -/
theorem tok_sep_run (next : UInt8) (b : Bytes) :
    ∀ (s : Bytes) (st : TState), s ≠ [] → (∀ x ∈ s, isSep x = true) → st ≠ some true →
      tok next st (s ++ b) = closeTok st (tok next none b) := by
  intro s
  induction s with
  | nil => intro st h; exact absurd rfl h
  | cons c s ih =>
    intro st _ hs hst
    have hc : isSep c = true := hs c (by simp)
    have hstep : tokStep st c = none := by
      cases st with
      | none => simp [tokStep, hc]
      | some q => cases q with
        | false => simp [tokStep, hc]
        | true => exact absurd rfl hst
    have hrest : tok next none (s ++ b) = tok next none b := by
      cases s with
      | nil => rfl
      | cons d s' =>
        have := ih none (by simp) (fun x hx => hs x (by simp [hx])) (by simp)
        simpa [closeTok] using this
    rw [List.cons_append, tok_cons, hstep, hrest]
    cases st with
    | none => simp [emit, hc, closeTok]
    | some q => cases q with
      | false => simp [emit, hc, closeTok]
      | true => exact absurd rfl hst

/-- **`split_sep_congr`** — replacing a non-empty separator run that lies outside
quotes by any other non-empty separator run leaves the token list unchanged.  Since
`'\n'` is a separator and `update_record_buffer` merely extends the record view over
the line end, this is also the rule "a record may be broken between items". -/
theorem split_sep_congr (a s s' b : Bytes) (next : UInt8)
    (hs : s ≠ []) (hs' : s' ≠ []) (hsep : ∀ x ∈ s, isSep x = true) (hsep' : ∀ x ∈ s', isSep x = true)
    (hout : tokState none a ≠ some true) :
    tokenize (a ++ s ++ b) next = tokenize (a ++ s' ++ b) next := by
  unfold tokenize
  rw [List.append_assoc, List.append_assoc]
  apply tok_append_congr
  rw [tok_sep_run next b s _ hs hsep hout, tok_sep_run next b s' _ hs' hsep' hout]

/-- leading separators and trailing separators of a record are irrelevant. -/
theorem tokenize_sep_prefix (s b : Bytes) (next : UInt8) (hsep : ∀ x ∈ s, isSep x = true) :
    tokenize (s ++ b) next = tokenize b next := by
  unfold tokenize
  cases s with
  | nil => rfl
  | cons c s' =>
    have := tok_sep_run next b (c :: s') none (by simp) hsep (by simp)
    simpa [closeTok] using this

/-- inside a quoted token separators are ordinary characters: the state machine stays
in the quoted state until the closing quote. -/
theorem tokState_quoted (q : Bytes) (hq : ∀ x ∈ q, x ≠ 39) : tokState (some true) q = some true := by
  unfold tokState
  induction q with
  | nil => rfl
  | cons c q ih =>
    have hc : c ≠ 39 := hq c (by simp)
    simp only [List.foldl_cons, tokStep, hc, ↓reduceIte]
    exact ih (fun x hx => hq x (by simp [hx]))

/-! ## tokens of a separator-joined list of atomic tokens -/

/-- a bare word: non-empty, no separator, does not start with a quote. -/
def BareWord (t : Bytes) : Prop := t ≠ [] ∧ (∀ x ∈ t, isSep x = false) ∧ t.head? ≠ some 39

instance (t : Bytes) : Decidable (BareWord t) := by unfold BareWord; infer_instance

/-- a quoted token: `'…'` without a quote inside. -/
def QuotedTok (t : Bytes) : Prop := ∃ body, t = 39 :: body ++ [39] ∧ ∀ x ∈ body, x ≠ 39

/-- a token the tokeniser gives back as it stands. -/
def Atomic (t : Bytes) : Prop := BareWord t ∨ QuotedTok t

/-- text that is empty or begins with a separator. -/
def SepStart (rest : Bytes) : Prop := rest = [] ∨ ∃ c r, rest = c :: r ∧ isSep c = true

theorem tok_word_tail (next : UInt8) (rest : Bytes) (hr : SepStart rest) :
    ∀ (t : Bytes), (∀ x ∈ t, isSep x = false) →
      tok next (some false) (t ++ rest) = t :: tok next none rest := by
  intro t
  induction t with
  | nil =>
    intro _
    rcases hr with rfl | ⟨c, r, rfl, hc⟩
    · rfl
    · simp only [List.nil_append, tok_cons, tokStep, hc, ↓reduceIte, emit]
  | cons x t ih =>
    intro h
    have hx : isSep x = false := h x (by simp)
    rw [List.cons_append, tok_cons]
    simp only [tokStep, hx, Bool.false_eq_true, ↓reduceIte]
    rw [ih (fun y hy => h y (by simp [hy]))]
    simp [emit, hx, consHead]

theorem tok_bare_word (next : UInt8) (t rest : Bytes) (ht : BareWord t) (hr : SepStart rest) :
    tok next none (t ++ rest) = t :: tok next none rest := by
  obtain ⟨hne, hsep, hq⟩ := ht
  cases t with
  | nil => exact absurd rfl hne
  | cons x t' =>
    have hx : isSep x = false := hsep x (by simp)
    have hx' : x ≠ 39 := by intro e; subst e; simp at hq
    rw [List.cons_append, tok_cons]
    simp only [tokStep, hx, Bool.false_eq_true, ↓reduceIte, hx']
    rw [tok_word_tail next rest hr t' (fun y hy => hsep y (by simp [hy]))]
    simp [emit, hx, consHead]

theorem tok_quoted_tail (next : UInt8) (rest : Bytes) :
    ∀ (body : Bytes), (∀ x ∈ body, x ≠ 39) →
      tok next (some true) (body ++ 39 :: rest) = (body ++ [39]) :: tok next none rest := by
  intro body
  induction body with
  | nil => intro _; simp [tok_cons, tokStep, emit, consHead]
  | cons x body ih =>
    intro h
    have hx : x ≠ 39 := h x (by simp)
    rw [List.cons_append, tok_cons]
    simp only [tokStep, hx, ↓reduceIte]
    rw [ih (fun y hy => h y (by simp [hy]))]
    simp [emit, hx, consHead]

theorem tok_quoted (next : UInt8) (t rest : Bytes) (ht : QuotedTok t) :
    tok next none (t ++ rest) = t :: tok next none rest := by
  obtain ⟨body, rfl, hb⟩ := ht
  have h39 : isSep 39 = false := by decide
  have e : 39 :: body ++ [39] ++ rest = 39 :: (body ++ 39 :: rest) := by simp
  rw [e, tok_cons]
  simp only [tokStep, h39, Bool.false_eq_true, ↓reduceIte]
  rw [tok_quoted_tail next rest body hb]
  simp [emit, h39, consHead]

theorem tok_atomic (next : UInt8) (t rest : Bytes) (ht : Atomic t) (hr : SepStart rest) :
    tok next none (t ++ rest) = t :: tok next none rest := by
  rcases ht with h | h
  · exact tok_bare_word next t rest h hr
  · exact tok_quoted next t rest h

/-- text made of tokens, each preceded by a separator run, then trailing separators. -/
def layoutToks (l : List (Bytes × Bytes)) (tr : Bytes) : Bytes :=
  (l.flatMap fun p => p.1 ++ p.2) ++ tr

theorem layoutToks_sepStart (l : List (Bytes × Bytes)) (tr : Bytes)
    (hl : ∀ p ∈ l, p.1 ≠ [] ∧ (∀ x ∈ p.1, isSep x = true))
    (htr : ∀ x ∈ tr, isSep x = true) : SepStart (layoutToks l tr) := by
  unfold layoutToks
  cases l with
  | nil =>
    cases tr with
    | nil => exact Or.inl rfl
    | cons c r => exact Or.inr ⟨c, r, rfl, htr c (by simp)⟩
  | cons p l =>
    obtain ⟨hne, hs⟩ := hl p (by simp)
    cases hp : p.1 with
    | nil => exact absurd hp hne
    | cons c r =>
      refine Or.inr ⟨c, r ++ p.2 ++ (l.flatMap fun p => p.1 ++ p.2) ++ tr, ?_, hs c (by simp [hp])⟩
      simp [hp]

/-- **Tokenising a laid-out token list gives the token list back**, whatever
separator runs (blanks, line breaks, …) were put between the tokens. -/
theorem tokenize_layout (next : UInt8) (tr : Bytes) (htr : ∀ x ∈ tr, isSep x = true) :
    ∀ (l : List (Bytes × Bytes)),
      (∀ p ∈ l, p.1 ≠ [] ∧ (∀ x ∈ p.1, isSep x = true) ∧ Atomic p.2) →
      tokenize (layoutToks l tr) next = l.map (·.2) := by
  intro l
  induction l with
  | nil =>
    intro _
    have := tokenize_sep_prefix tr [] next htr
    simpa [layoutToks, tokenize, tok] using this
  | cons p l ih =>
    intro h
    obtain ⟨_, hs, hat⟩ := h p (by simp)
    have hl : ∀ q ∈ l, q.1 ≠ [] ∧ (∀ x ∈ q.1, isSep x = true) ∧ Atomic q.2 :=
      fun q hq => h q (by simp [hq])
    have e : layoutToks (p :: l) tr = p.1 ++ (p.2 ++ layoutToks l tr) := by
      simp [layoutToks, List.append_assoc]
    rw [e, tokenize_sep_prefix _ _ next hs]
    unfold tokenize
    rw [tok_atomic next p.2 _ hat
      (layoutToks_sepStart l tr (fun q hq => ⟨(hl q hq).1, (hl q hq).2.1⟩) htr)]
    have := ih hl
    unfold tokenize at this
    rw [this]
    rfl

end OpmVerif.Tok
