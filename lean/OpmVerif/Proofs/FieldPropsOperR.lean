/-
  C12 — independence of inactive cells for whole programs INCLUDING OPERATER.

  OPERATER creates its source array only when the region has an ACTIVE cell, so the set of stored
  arrays depends on the ACTNUM and the one-cell projection of `FieldPropsIndep.lean` is no longer a
  function of the program alone.  Here the projection of an accepted reference run is shown to stay
  BELOW (`VLe`) the state of a normalised one-cell run (`…1N`: OPERATER always creates its source)
  that sees neither the ACTNUM nor any other cell: every stored array has the same cell, and the
  arrays the normalised run has in addition hold the freshly initialised cell — which is what every
  reader of the store (`init_get`) sees for an absent array.  Two accepted runs under two ACTNUMs
  are below the SAME normalised state, hence show the same *view* of every keyword at every cell
  active in both.
-/
import OpmVerif.Proofs.FieldPropsIndep
import OpmVerif.Model.FieldPropsIO

set_option linter.unusedSectionVars false

namespace OpmVerif.FieldProps

/-! ## stores: lookups after put / erase, key uniqueness -/

section Store
variable {β : Type}

theorem sget_serase_ne (s : List (String × β)) (k k2 : String) (h : k2 ≠ k) :
    sget (serase s k) k2 = sget s k2 := by
  induction s with
  | nil => simp [serase, sget]
  | cons p r ih =>
    obtain ⟨k', v'⟩ := p
    simp only [serase]
    by_cases hk : k' = k
    · subst hk
      simp [sget, Ne.symm h]
    · simp only [hk, if_false, sget]
      by_cases hk2 : k' = k2
      · simp [hk2]
      · simp [hk2, ih]

/-- every key at most once -/
def Uniq (s : List (String × β)) : Prop := (s.map (·.1)).Nodup

theorem sget_none_of_not_mem (s : List (String × β)) (k : String) (h : k ∉ s.map (·.1)) : sget s k = none := by
  induction s with
  | nil => rfl
  | cons p r ih =>
    obtain ⟨k', v'⟩ := p
    simp only [List.map_cons, List.mem_cons, not_or] at h
    simp only [sget, Ne.symm h.1, if_false]
    exact ih h.2

theorem sget_serase_self (s : List (String × β)) (k : String) (hu : Uniq s) : sget (serase s k) k = none := by
  induction s with
  | nil => rfl
  | cons p r ih =>
    obtain ⟨k', v'⟩ := p
    simp only [Uniq, List.map_cons, List.nodup_cons] at hu
    simp only [serase]
    by_cases hk : k' = k
    · subst hk
      simp only [if_true]
      exact sget_none_of_not_mem r k' hu.1
    · simp only [hk, if_false, sget]
      exact ih hu.2

theorem keys_sput (s : List (String × β)) (k : String) (v : β) :
    (sput s k v).map (·.1) = if k ∈ s.map (·.1) then s.map (·.1) else s.map (·.1) ++ [k] := by
  induction s with
  | nil => simp [sput]
  | cons p r ih =>
    obtain ⟨k', v'⟩ := p
    simp only [sput]
    by_cases hk : k' = k
    · subst hk
      simp
    · simp only [hk, if_false, List.map_cons, ih, List.mem_cons]
      have : ¬ k = k' := fun h => hk h.symm
      by_cases hm : k ∈ r.map (·.1)
      · simp [hm]
      · simp [hm, this]

theorem uniq_sput (s : List (String × β)) (k : String) (v : β) (hu : Uniq s) : Uniq (sput s k v) := by
  unfold Uniq at *
  rw [keys_sput]
  split
  · exact hu
  · rename_i hm
    rw [List.nodup_append]
    refine ⟨hu, by simp, ?_⟩
    intro a ha b hb
    simp only [List.mem_singleton] at hb
    subst hb
    intro h
    subst h
    exact hm ha

theorem keys_serase_sublist (s : List (String × β)) (k : String) :
    ((serase s k).map (·.1)).Sublist (s.map (·.1)) := by
  induction s with
  | nil => simp [serase]
  | cons p r ih =>
    obtain ⟨k', v'⟩ := p
    simp only [serase]
    by_cases hk : k' = k
    · simp [hk]
    · simp only [hk, if_false, List.map_cons]
      exact List.Sublist.cons_cons _ ih

theorem uniq_serase (s : List (String × β)) (k : String) (hu : Uniq s) : Uniq (serase s k) :=
  List.Nodup.sublist (keys_serase_sublist s k) hu

/-- `x` is below `a`: every entry of `x` is an entry of `a`; what `a` has in addition is the
fresh cell `F` assigns to that key -/
def SLe (F : String → Option β) (x a : List (String × β)) : Prop :=
  ∀ k, (∀ c, sget x k = some c → sget a k = some c) ∧
       (sget x k = none → sget a k = none ∨ ∃ c, F k = some c ∧ sget a k = some c)

theorem sle_refl (F : String → Option β) (x : List (String × β)) : SLe F x x :=
  fun _ => ⟨fun _ h => h, fun h => Or.inl h⟩

theorem sle_sput (F : String → Option β) (x a : List (String × β)) (k : String) (v : β) (h : SLe F x a) :
    SLe F (sput x k v) (sput a k v) := by
  intro k2
  by_cases hk : k2 = k
  · subst hk
    rw [sget_sput_self, sget_sput_self]
    exact ⟨fun _ h => h, fun h => nomatch h⟩
  · rw [sget_sput_ne _ _ _ _ hk, sget_sput_ne _ _ _ _ hk]
    exact h k2

theorem sle_serase (F : String → Option β) (x a : List (String × β)) (k : String) (h : SLe F x a)
    (hx : Uniq x) (ha : Uniq a) : SLe F (serase x k) (serase a k) := by
  intro k2
  by_cases hk : k2 = k
  · subst hk
    rw [sget_serase_self _ _ hx, sget_serase_self _ _ ha]
    exact ⟨(fun _ h => nomatch h), fun _ => Or.inl rfl⟩
  · rw [sget_serase_ne _ _ _ hk, sget_serase_ne _ _ _ hk]
    exact h k2

/-- `init_get` on a store of cells: the stored entry, or a new one -/
def goc (s : List (String × β)) (k : String) (v : β) : List (String × β) × β :=
  match sget s k with
  | some c => (s, c)
  | none => (sput s k v, v)

theorem uniq_goc (s : List (String × β)) (k : String) (v : β) (hu : Uniq s) : Uniq (goc s k v).1 := by
  unfold goc
  split
  · exact hu
  · exact uniq_sput s k v hu

/-- both sides look an entry up (creating it when absent); `v` is what `F` prescribes, if anything -/
theorem sle_goc (F : String → Option β) (x a : List (String × β)) (k : String) (v : β) (h : SLe F x a)
    (hc : ∀ c, F k = some c → c = v) :
    (goc x k v).2 = (goc a k v).2 ∧ SLe F (goc x k v).1 (goc a k v).1 := by
  unfold goc
  cases hx : sget x k with
  | some c =>
    rw [(h k).1 c hx]
    exact ⟨rfl, h⟩
  | none =>
    rcases (h k).2 hx with ha | ⟨c, hF, ha⟩
    · rw [ha]
      exact ⟨rfl, sle_sput F x a k v h⟩
    · rw [ha]
      have := hc c hF
      subst this
      simp only []
      refine ⟨trivial, ?_⟩
      intro k2
      by_cases hk : k2 = k
      · subst hk
        rw [sget_sput_self]
        exact ⟨fun c' hc' => by rw [ha]; exact hc', fun h => nomatch h⟩
      · rw [sget_sput_ne _ _ _ _ hk]
        exact h k2

/-- only the upper side creates the entry -/
theorem sle_goc_right (F : String → Option β) (x a : List (String × β)) (k : String) (v : β) (h : SLe F x a)
    (hF : F k = some v) : SLe F x (goc a k v).1 := by
  unfold goc
  cases ha : sget a k with
  | some c => exact h
  | none =>
    intro k2
    by_cases hk : k2 = k
    · subst hk
      rw [sget_sput_self]
      refine ⟨fun c hc => ?_, fun _ => Or.inr ⟨v, hF, rfl⟩⟩
      rw [(h k2).1 c hc] at ha
      cases ha
    · rw [sget_sput_ne _ _ _ _ hk]
      exact h k2

end Store

/-! ## one-cell states: `VLe` -/

section One
variable {α : Type} [RealOps α]

/-- the cell every reader sees for an absent double / integer array -/
def fD (T : Tables α) (k : String) : Option (Cell α) := (sget T.dbl k).map fun i => fresh1 i.init
def fI (T : Tables α) (k : String) : Option (Cell Int) := (sget T.int k).map fun i => fresh1 i

/-- what the theorem needs of the keyword tables (true of the real `keyword_info` tables): no
keyword is called `__MULT__…`, and ACTNUM is an integer keyword with default 1 (the value
`FieldProps::actnum()` creates it with) -/
structure TablesOK (T : Tables α) : Prop where
  noMult : ∀ x, sget T.dbl (multName x) = none
  actnum : sget T.int "ACTNUM" = some (some 1)
  uniq : ∀ e ∈ T.dbl, sget T.dbl e.1 = some e.2

structure VLe (T : Tables α) (x a : St1 α) : Prop where
  ints : SLe (fI T) x.ints a.ints
  dbls : SLe (fD T) x.dbls a.dbls
  ux : Uniq x.dbls
  ua : Uniq a.dbls

theorem get1D_goc (s : St1 α) (k : String) (info : DInfo α) :
    get1D s k info = ({ s with dbls := (goc s.dbls k (fresh1 info.init)).1 }, (goc s.dbls k (fresh1 info.init)).2) := by
  unfold get1D goc
  cases sget s.dbls k <;> rfl

theorem get1I_goc (s : St1 α) (k : String) (init : Option Int) :
    get1I s k init = ({ s with ints := (goc s.ints k (fresh1 init)).1 }, (goc s.ints k (fresh1 init)).2) := by
  unfold get1I goc
  cases sget s.ints k <;> rfl

theorem vle_get1D (T : Tables α) (x a : St1 α) (k : String) (info : DInfo α) (h : VLe T x a)
    (hc : ∀ i, sget T.dbl k = some i → fresh1 i.init = fresh1 info.init) :
    (get1D x k info).2 = (get1D a k info).2 ∧ VLe T (get1D x k info).1 (get1D a k info).1 := by
  rw [get1D_goc, get1D_goc]
  obtain ⟨e1, e2⟩ := sle_goc (fD T) x.dbls a.dbls k (fresh1 info.init) h.dbls (by
    intro c hF
    simp only [fD] at hF
    cases hi : sget T.dbl k with
    | none => rw [hi] at hF; cases hF
    | some i =>
      rw [hi] at hF
      simp only [Option.map_some, Option.some.injEq] at hF
      rw [← hF]; exact hc i hi)
  exact ⟨e1, ⟨h.ints, e2, uniq_goc _ _ _ h.ux, uniq_goc _ _ _ h.ua⟩⟩

theorem vle_get1I (T : Tables α) (x a : St1 α) (k : String) (init : Option Int) (h : VLe T x a)
    (hc : ∀ i, sget T.int k = some i → fresh1 i = fresh1 init) :
    (get1I x k init).2 = (get1I a k init).2 ∧ VLe T (get1I x k init).1 (get1I a k init).1 := by
  rw [get1I_goc, get1I_goc]
  obtain ⟨e1, e2⟩ := sle_goc (fI T) x.ints a.ints k (fresh1 init) h.ints (by
    intro c hF
    simp only [fI] at hF
    cases hi : sget T.int k with
    | none => rw [hi] at hF; cases hF
    | some i =>
      rw [hi] at hF
      simp only [Option.map_some, Option.some.injEq] at hF
      rw [← hF]; exact hc i hi)
  exact ⟨e1, ⟨e2, h.dbls, h.ux, h.ua⟩⟩

/-- only the upper side creates a double array named in the tables -/
theorem vle_get1D_right (T : Tables α) (x a : St1 α) (k : String) (info : DInfo α) (h : VLe T x a)
    (hk : sget T.dbl k = some info) : VLe T x (get1D a k info).1 := by
  rw [get1D_goc]
  exact ⟨h.ints, sle_goc_right (fD T) x.dbls a.dbls k _ h.dbls (by simp [fD, hk]), h.ux, uniq_goc _ _ _ h.ua⟩

theorem vle_get1I_right (T : Tables α) (x a : St1 α) (k : String) (init : Option Int) (h : VLe T x a)
    (hk : sget T.int k = some init) : VLe T x (get1I a k init).1 := by
  rw [get1I_goc]
  exact ⟨sle_goc_right (fI T) x.ints a.ints k _ h.ints (by simp [fI, hk]), h.dbls, h.ux, h.ua⟩

theorem vle_put1D (T : Tables α) (x a : St1 α) (k : String) (c : Cell α) (h : VLe T x a) :
    VLe T (put1D x k c) (put1D a k c) :=
  ⟨h.ints, sle_sput _ _ _ _ _ h.dbls, uniq_sput _ _ _ h.ux, uniq_sput _ _ _ h.ua⟩

theorem vle_put1I (T : Tables α) (x a : St1 α) (k : String) (c : Cell Int) (h : VLe T x a) :
    VLe T (put1I x k c) (put1I a k c) :=
  ⟨sle_sput _ _ _ _ _ h.ints, h.dbls, h.ux, h.ua⟩

theorem vle_refl (T : Tables α) (x : St1 α) (hu : Uniq x.dbls) : VLe T x x :=
  ⟨sle_refl _ _, sle_refl _ _, hu, hu⟩

theorem isNone_of_sle {β : Type} (F : String → Option β) (x a : List (String × β)) (h : SLe F x a) (k : String)
    (ha : (sget a k).isNone = true) : (sget x k).isNone = true := by
  cases hx : sget x k with
  | none => rfl
  | some c => rw [(h k).1 c hx] at ha; cases ha

theorem compat_edit (T : Tables α) (hT : TablesOK T) (sec : Section) (kw : String) (info : DInfo α)
    (h : sget T.dbl kw = some info) :
    ∀ i, sget T.dbl (editName sec info kw) = some i → fresh1 i.init = fresh1 info.init := by
  intro i hi
  unfold editName at hi
  split at hi
  · rw [hT.noMult] at hi; cases hi
  · rw [h] at hi; cases hi; rfl

theorem compat_self (T : Tables α) (kw : String) (info : DInfo α) (h : sget T.dbl kw = some info) :
    ∀ i, sget T.dbl kw = some i → fresh1 i.init = fresh1 info.init := by
  intro i hi; rw [h] at hi; cases hi; rfl

theorem compat_selfI (T : Tables α) (kw : String) (init : Option Int) (h : sget T.int kw = some init) :
    ∀ i, sget T.int kw = some i → fresh1 i = fresh1 init := by
  intro i hi; rw [h] at hi; cases hi; rfl

/-! ## the one-cell handlers respect `VLe` -/

theorem scalarRec1_cong (T : Tables α) (hT : TablesOK T) (g : Nat) (D : Dims) (sec : Section) (op : ScalarOp)
    (x a : St1 α) (b : Box) (r : ScalarRec α) (y : St1 α × Box) (h : VLe T x a)
    (hx : scalarRec1 g D T sec op (x, b) r = some y) :
    ∃ z, scalarRec1 g D T sec op (a, b) r = some (z, y.2) ∧ VLe T y.1 z := by
  unfold scalarRec1 at hx ⊢
  simp only [] at hx ⊢
  cases hbu : Box.update D b r.box with
  | none => rw [hbu] at hx; cases hx
  | some b' =>
    rw [hbu] at hx
    simp only [] at hx ⊢
    cases hd : sget T.dbl r.kw with
    | some info =>
      rw [hd] at hx
      simp only [] at hx ⊢
      split at hx
      · cases hx
      · rename_i hc
        have hc' : ¬ (op ≠ .equal ∧ info.mult = false ∧ ¬ (sec = .edit ∧ r.kw = "PORV") ∧
            (sget a.dbls r.kw).isNone = true) := fun hh =>
          hc ⟨hh.1, hh.2.1, hh.2.2.1, isNone_of_sle _ _ _ h.dbls _ hh.2.2.2⟩
        rw [if_neg hc']
        obtain ⟨e1, e2⟩ := vle_get1D T x a (editName sec info r.kw) info h (compat_edit T hT sec r.kw info hd)
        simp only [Option.some.injEq] at hx
        subst hx
        refine ⟨_, rfl, ?_⟩
        simp only []
        rw [e1]
        exact vle_put1D T _ _ _ _ e2
    | none =>
      rw [hd] at hx
      simp only [] at hx ⊢
      cases hi : sget T.int r.kw with
      | none => rw [hi] at hx; cases hx
      | some init =>
        rw [hi] at hx
        simp only [] at hx ⊢
        split at hx
        · cases hx
        · rename_i hc
          have hc' : ¬ (op ≠ .equal ∧ (sget a.ints r.kw).isNone = true) := fun hh =>
            hc ⟨hh.1, isNone_of_sle _ _ _ h.ints _ hh.2⟩
          rw [if_neg hc']
          obtain ⟨e1, e2⟩ := vle_get1I T x a r.kw init h (compat_selfI T r.kw init hi)
          simp only [Option.some.injEq] at hx
          subst hx
          refine ⟨_, rfl, ?_⟩
          simp only []
          rw [e1]
          exact vle_put1I T _ _ _ _ e2

theorem copyRec1_cong (T : Tables α) (g : Nat) (D : Dims)
    (x a : St1 α) (b : Box) (r : CopyRec) (y : St1 α × Box) (h : VLe T x a)
    (hx : copyRec1 g D T (x, b) r = some y) :
    ∃ z, copyRec1 g D T (a, b) r = some (z, y.2) ∧ VLe T y.1 z := by
  unfold copyRec1 at hx ⊢
  simp only [] at hx ⊢
  cases hbu : Box.update D b r.box with
  | none => rw [hbu] at hx; cases hx
  | some b' =>
    rw [hbu] at hx
    simp only [] at hx ⊢
    cases hd : sget T.dbl r.src with
    | some sinfo =>
      rw [hd] at hx
      simp only [] at hx ⊢
      cases hs : sget x.dbls r.src with
      | none => rw [hs] at hx; cases hx
      | some src =>
        rw [hs] at hx
        rw [(h.dbls r.src).1 src hs]
        simp only [] at hx ⊢
        cases ht : sget T.dbl r.tgt with
        | none => rw [ht] at hx; cases hx
        | some tinfo =>
          rw [ht] at hx
          simp only [] at hx ⊢
          obtain ⟨e1, e2⟩ := vle_get1D T x a r.tgt tinfo h (compat_self T r.tgt tinfo ht)
          simp only [Option.some.injEq] at hx
          subst hx
          refine ⟨_, rfl, ?_⟩
          simp only []
          rw [e1]
          exact vle_put1D T _ _ _ _ e2
    | none =>
      rw [hd] at hx
      simp only [] at hx ⊢
      cases hi : sget T.int r.src with
      | none =>
        rw [hi] at hx
        simp only [Option.some.injEq] at hx
        subst hx
        exact ⟨_, rfl, h⟩
      | some sinit =>
        rw [hi] at hx
        simp only [] at hx ⊢
        cases hs : sget x.ints r.src with
        | none => rw [hs] at hx; cases hx
        | some src =>
          rw [hs] at hx
          rw [(h.ints r.src).1 src hs]
          simp only [] at hx ⊢
          cases ht : sget T.int r.tgt with
          | none => rw [ht] at hx; cases hx
          | some tinit =>
            rw [ht] at hx
            simp only [] at hx ⊢
            obtain ⟨e1, e2⟩ := vle_get1I T x a r.tgt tinit h (compat_selfI T r.tgt tinit ht)
            simp only [Option.some.injEq] at hx
            subst hx
            refine ⟨_, rfl, ?_⟩
            simp only []
            rw [e1]
            exact vle_put1I T _ _ _ _ e2

theorem operRec1_cong (T : Tables α) (g : Nat) (D : Dims)
    (x a : St1 α) (b : Box) (r : OperRec α) (y : St1 α × Box) (h : VLe T x a)
    (hx : operRec1 g D T (x, b) r = some y) :
    ∃ z, operRec1 g D T (a, b) r = some (z, y.2) ∧ VLe T y.1 z := by
  unfold operRec1 at hx ⊢
  simp only [] at hx ⊢
  cases hbu : Box.update D b r.box with
  | none => rw [hbu] at hx; cases hx
  | some b' =>
    rw [hbu] at hx
    simp only [] at hx ⊢
    cases ht : sget T.dbl r.tgt with
    | none => rw [ht] at hx; cases hx
    | some tinfo =>
      rw [ht] at hx
      simp only [] at hx ⊢
      obtain ⟨e1, e2⟩ := vle_get1D T x a r.tgt tinfo h (compat_self T r.tgt tinfo ht)
      cases hs : sget T.dbl r.src with
      | none => rw [hs] at hx; cases hx
      | some sinfo =>
        rw [hs] at hx
        simp only [] at hx ⊢
        obtain ⟨f1, f2⟩ := vle_get1D T _ _ r.src sinfo e2 (compat_self T r.src sinfo hs)
        cases hf : operateFn r.fn (operAlpha r.fn tinfo r.a) (operBeta r.fn tinfo r.b) with
        | none => rw [hf] at hx; cases hx
        | some f =>
          rw [hf] at hx
          simp only [Option.some.injEq] at hx ⊢
          subst hx
          refine ⟨_, rfl, ?_⟩
          simp only []
          rw [e1, f1]
          exact vle_put1D T _ _ _ _ f2

theorem regionArr1_cong (T : Tables α) (x a : St1 α) (name : String) (q : St1 α × Cell Int) (h : VLe T x a)
    (hx : regionArr1 T x name = some q) :
    ∃ z, regionArr1 T a name = some (z, q.2) ∧ VLe T q.1 z := by
  unfold regionArr1 at hx ⊢
  cases hi : sget T.int name with
  | none => rw [hi] at hx; cases hx
  | some init =>
    rw [hi] at hx
    simp only [Option.some.injEq] at hx ⊢
    subst hx
    obtain ⟨e1, e2⟩ := vle_get1I T x a name init h (compat_selfI T name init hi)
    exact ⟨_, by rw [e1], e2⟩

theorem regScalarRec1_cong (T : Tables α) (g : Nat) (op : ScalarOp)
    (x a : St1 α) (r : RegScalarRec α) (y : St1 α) (h : VLe T x a)
    (hx : regScalarRec1 g T op x r = some y) :
    ∃ z, regScalarRec1 g T op a r = some z ∧ VLe T y z := by
  unfold regScalarRec1 at hx ⊢
  cases hd : sget T.dbl r.kw with
  | none =>
    rw [hd] at hx
    simp only [Option.some.injEq] at hx
    subst hx
    exact ⟨_, rfl, h⟩
  | some info =>
    rw [hd] at hx
    simp only [] at hx ⊢
    obtain ⟨e1, e2⟩ := vle_get1D T x a r.kw info h (compat_self T r.kw info hd)
    cases hn : regionName r.rs with
    | none => rw [hn] at hx; cases hx
    | some rn =>
      rw [hn] at hx
      simp only [] at hx ⊢
      cases hq : regionArr1 T (get1D x r.kw info).1 rn with
      | none => rw [hq] at hx; cases hx
      | some q =>
        rw [hq] at hx
        obtain ⟨z, hz, hv⟩ := regionArr1_cong T _ _ rn q e2 hq
        rw [hz]
        simp only [Option.some.injEq] at hx ⊢
        subst hx
        refine ⟨_, rfl, ?_⟩
        rw [e1]
        exact vle_put1D T _ _ _ _ hv

theorem copyRegRec1_cong (T : Tables α) (g : Nat)
    (x a : St1 α) (r : CopyRegRec) (y : St1 α) (h : VLe T x a)
    (hx : copyRegRec1 g T x r = some y) :
    ∃ z, copyRegRec1 g T a r = some z ∧ VLe T y z := by
  unfold copyRegRec1 at hx ⊢
  cases hn : regionName r.rs with
  | none => rw [hn] at hx; cases hx
  | some rn =>
    rw [hn] at hx
    simp only [] at hx ⊢
    cases hq : regionArr1 T x rn with
    | none => rw [hq] at hx; cases hx
    | some q =>
      rw [hq] at hx
      obtain ⟨z, hz, hv⟩ := regionArr1_cong T _ _ rn q h hq
      rw [hz]
      simp only [] at hx ⊢
      cases hd : sget T.dbl r.src with
      | some sinfo =>
        rw [hd] at hx
        simp only [] at hx ⊢
        cases hs : sget q.1.dbls r.src with
        | none => rw [hs] at hx; cases hx
        | some src =>
          rw [hs] at hx
          rw [(hv.dbls r.src).1 src hs]
          simp only [] at hx ⊢
          cases ht : sget T.dbl r.tgt with
          | none => rw [ht] at hx; cases hx
          | some tinfo =>
            rw [ht] at hx
            simp only [] at hx ⊢
            obtain ⟨e1, e2⟩ := vle_get1D T q.1 z r.tgt tinfo hv (compat_self T r.tgt tinfo ht)
            simp only [Option.some.injEq] at hx
            subst hx
            refine ⟨_, rfl, ?_⟩
            rw [e1]
            exact vle_put1D T _ _ _ _ e2
      | none =>
        rw [hd] at hx
        simp only [] at hx ⊢
        cases hi : sget T.int r.src with
        | none =>
          rw [hi] at hx
          simp only [Option.some.injEq] at hx
          subst hx
          exact ⟨_, rfl, hv⟩
        | some sinit =>
          rw [hi] at hx
          simp only [] at hx ⊢
          cases hs : sget q.1.ints r.src with
          | none => rw [hs] at hx; cases hx
          | some src =>
            rw [hs] at hx
            rw [(hv.ints r.src).1 src hs]
            simp only [] at hx ⊢
            cases ht : sget T.int r.tgt with
            | none => rw [ht] at hx; cases hx
            | some tinit =>
              rw [ht] at hx
              simp only [] at hx ⊢
              obtain ⟨e1, e2⟩ := vle_get1I T q.1 z r.tgt tinit hv (compat_selfI T r.tgt tinit ht)
              simp only [Option.some.injEq] at hx
              subst hx
              refine ⟨_, rfl, ?_⟩
              rw [e1]
              exact vle_put1I T _ _ _ _ e2

/-! ## OPERATER on one cell -/

theorem operRegRec1_cong (T : Tables α) (g : Nat) (x a : St1 α) (r : OperRegRec α) (y : St1 α)
    (h : VLe T x a) (hx : operRegRec1 g T x r = some y) :
    ∃ z, operRegRec1 g T a r = some z ∧ VLe T y z := by
  unfold operRegRec1 at hx ⊢
  cases hd : sget T.dbl r.tgt with
  | none =>
    rw [hd] at hx
    simp only [Option.some.injEq] at hx
    subst hx
    exact ⟨_, rfl, h⟩
  | some tinfo =>
    rw [hd] at hx
    simp only [] at hx ⊢
    obtain ⟨e1, e2⟩ := vle_get1D T x a r.tgt tinfo h (compat_self T r.tgt tinfo hd)
    cases hs : sget T.dbl r.src with
    | none => rw [hs] at hx; cases hx
    | some sinfo =>
      rw [hs] at hx
      simp only [] at hx ⊢
      obtain ⟨f1, f2⟩ := vle_get1D T _ _ r.src sinfo e2 (compat_self T r.src sinfo hs)
      cases hq : regionArr1 T (get1D (get1D x r.tgt tinfo).1 r.src sinfo).1 r.rn with
      | none => rw [hq] at hx; cases hx
      | some q =>
        rw [hq] at hx
        obtain ⟨z, hz, hv⟩ := regionArr1_cong T _ _ r.rn q f2 hq
        rw [hz]
        simp only [] at hx ⊢
        cases hf : operateFn r.fn (operAlpha r.fn tinfo r.a) (operBeta r.fn tinfo r.b) with
        | none =>
          rw [hf] at hx
          simp only [Option.some.injEq] at hx
          subst hx
          exact ⟨_, rfl, hv⟩
        | some f =>
          rw [hf] at hx
          simp only [Option.some.injEq] at hx ⊢
          subst hx
          refine ⟨_, rfl, ?_⟩
          rw [e1, f1]
          exact vle_put1D T _ _ _ _ hv

/-! ## keywords -/

theorem foldRecs_sim {σ τ ρ : Type} (f : σ → ρ → Option σ) (f1 : τ → ρ → Option τ) (R : σ → τ → Prop)
    (h : ∀ s a r s', R s a → f s r = some s' → ∃ z, f1 a r = some z ∧ R s' z) :
    ∀ (rs : List ρ) (s : σ) (a : τ) (s' : σ), R s a → foldRecs f s rs = some s' →
      ∃ z, foldRecs f1 a rs = some z ∧ R s' z := by
  intro rs
  induction rs with
  | nil =>
    intro s a s' hr hq
    simp only [foldRecs, Option.some.injEq] at hq ⊢
    subst hq
    exact ⟨a, rfl, hr⟩
  | cons r rs ih =>
    intro s a s' hr hq
    simp only [foldRecs] at hq ⊢
    cases hf : f s r with
    | none => rw [hf] at hq; cases hq
    | some s1 =>
      rw [hf] at hq
      obtain ⟨z, hz, hr'⟩ := h s a r s1 hr hf
      rw [hz]
      exact ih s1 z s' hr' hq

/-- relation used for the record folds over (state, box) pairs -/
def PLe (T : Tables α) (p q : St1 α × Box) : Prop := VLe T p.1 q.1 ∧ p.2 = q.2

theorem kwStep1_cong (T : Tables α) (hT : TablesOK T) (g : Nat) (D : Dims) (sec : Section)
    (x a : St1 α) (b : Box) (k : Kw α) (y : St1 α × Box) (h : VLe T x a)
    (hx : kwStep1 g D T sec (x, b) k = some y) :
    ∃ z, kwStep1 g D T sec (a, b) k = some (z, y.2) ∧ VLe T y.1 z := by
  have lift : ∀ {ρ : Type} (f : St1 α × Box → ρ → Option (St1 α × Box))
      (_ : ∀ (x a : St1 α) (b : Box) (r : ρ) (y : St1 α × Box), VLe T x a → f (x, b) r = some y →
        ∃ z, f (a, b) r = some (z, y.2) ∧ VLe T y.1 z)
      (rs : List ρ) (y : St1 α × Box), foldRecs f (x, b) rs = some y →
        ∃ z, foldRecs f (a, b) rs = some z ∧ PLe T y z := by
    intro ρ f hf rs y hy
    exact foldRecs_sim f f (PLe T)
      (fun s a r s' hr hs => by
        obtain ⟨sx, sb⟩ := s
        obtain ⟨ax, ab⟩ := a
        obtain ⟨h1, h2⟩ := hr
        simp only at h1 h2
        subst h2
        obtain ⟨z, hz, hv⟩ := hf sx ax sb r s' h1 hs
        exact ⟨(z, s'.2), hz, hv, rfl⟩)
      rs (x, b) (a, b) y ⟨h, rfl⟩ hy
  cases k with
  | box r =>
    simp only [kwStep1] at hx ⊢
    cases hbu : Box.update D b r with
    | none => rw [hbu] at hx; cases hx
    | some b' =>
      rw [hbu] at hx
      simp only [Option.some.injEq] at hx
      subst hx
      exact ⟨_, rfl, h⟩
  | endbox =>
    simp only [kwStep1, Option.some.injEq] at hx ⊢
    subst hx
    exact ⟨_, rfl, h⟩
  | dataD kw vals =>
    simp only [kwStep1] at hx ⊢
    cases hd : sget T.dbl kw with
    | none => rw [hd] at hx; cases hx
    | some info =>
      rw [hd] at hx
      simp only [] at hx ⊢
      obtain ⟨e1, e2⟩ := vle_get1D T x a (editName sec info kw) info h (compat_edit T hT sec kw info hd)
      split at hx
      · cases hx
      · rename_i hlen
        rw [if_neg hlen]
        simp only [Option.some.injEq] at hx ⊢
        subst hx
        refine ⟨_, rfl, ?_⟩
        simp only []
        rw [e1]
        exact vle_put1D T _ _ _ _ e2
  | dataI kw vals =>
    simp only [kwStep1] at hx ⊢
    cases hd : sget T.int kw with
    | none => rw [hd] at hx; cases hx
    | some init =>
      rw [hd] at hx
      simp only [] at hx ⊢
      obtain ⟨e1, e2⟩ := vle_get1I T x a kw init h (compat_selfI T kw init hd)
      split at hx
      · cases hx
      · rename_i hlen
        rw [if_neg hlen]
        simp only [Option.some.injEq] at hx ⊢
        subst hx
        refine ⟨_, rfl, ?_⟩
        simp only []
        rw [e1]
        exact vle_put1I T _ _ _ _ e2
  | scalar op recs =>
    simp only [kwStep1] at hx ⊢
    cases hf : foldRecs (scalarRec1 g D T sec op) (x, b) recs with
    | none => rw [hf] at hx; cases hx
    | some y1 =>
      rw [hf] at hx
      simp only [Option.some.injEq] at hx
      subst hx
      obtain ⟨z, hz, hv⟩ := lift _ (fun x a b r y hv hy => scalarRec1_cong T hT g D sec op x a b r y hv hy) recs y1 hf
      rw [hz]
      exact ⟨_, rfl, hv.1⟩
  | copy recs =>
    simp only [kwStep1] at hx ⊢
    cases hf : foldRecs (copyRec1 g D T) (x, b) recs with
    | none => rw [hf] at hx; cases hx
    | some y1 =>
      rw [hf] at hx
      simp only [Option.some.injEq] at hx
      subst hx
      obtain ⟨z, hz, hv⟩ := lift _ (fun x a b r y hv hy => copyRec1_cong T g D x a b r y hv hy) recs y1 hf
      rw [hz]
      exact ⟨_, rfl, hv.1⟩
  | operate recs =>
    simp only [kwStep1] at hx ⊢
    cases hf : foldRecs (operRec1 g D T) (x, b) recs with
    | none => rw [hf] at hx; cases hx
    | some y1 =>
      rw [hf] at hx
      simp only [Option.some.injEq] at hx
      subst hx
      obtain ⟨z, hz, hv⟩ := lift _ (fun x a b r y hv hy => operRec1_cong T g D x a b r y hv hy) recs y1 hf
      rw [hz]
      exact ⟨_, rfl, hv.1⟩
  | regScalar op recs =>
    simp only [kwStep1] at hx ⊢
    cases hf : foldRecs (regScalarRec1 g T op) x recs with
    | none => rw [hf] at hx; cases hx
    | some y1 =>
      rw [hf] at hx
      simp only [Option.some.injEq] at hx
      subst hx
      obtain ⟨z, hz, hv⟩ := foldRecs_sim _ _ (VLe T)
        (fun s a r s' hr hs => regScalarRec1_cong T g op s a r s' hr hs) recs x a y1 h hf
      rw [hz]
      exact ⟨_, rfl, hv⟩
  | copyReg recs =>
    simp only [kwStep1] at hx ⊢
    cases hf : foldRecs (copyRegRec1 g T) x recs with
    | none => rw [hf] at hx; cases hx
    | some y1 =>
      rw [hf] at hx
      simp only [Option.some.injEq] at hx
      subst hx
      obtain ⟨z, hz, hv⟩ := foldRecs_sim _ _ (VLe T)
        (fun s a r s' hr hs => copyRegRec1_cong T g s a r s' hr hs) recs x a y1 h hf
      rw [hz]
      exact ⟨_, rfl, hv⟩
  | operateR recs =>
    simp only [kwStep1] at hx ⊢
    cases hf : foldRecs (operRegRec1 g T) x recs with
    | none => rw [hf] at hx; cases hx
    | some y1 =>
      rw [hf] at hx
      simp only [Option.some.injEq] at hx
      subst hx
      obtain ⟨z, hz, hv⟩ := foldRecs_sim _ _ (VLe T)
        (fun s a r s' hr hs => operRegRec1_cong T g s a r s' hr hs) recs x a y1 h hf
      rw [hz]
      exact ⟨_, rfl, hv⟩

/-- **one keyword**: the projection of an accepted reference step stays below the one-cell step -/
theorem kwStep_sim (g : Nat) (D : Dims) (hD : DPos D) (T : Tables α) (hT : TablesOK T) (sec : Section)
    (A0 : List Bool) (hact : isActive A0 g = true) (hg : g < D.size)
    (p : St α × Box) (hp : PairA D A0 p) (a : St1 α) (hv : VLe T (proj g p.1) a) (k : Kw α) (q : St α × Box)
    (h : kwStep .ref D T sec p k = some q) :
    ∃ z, kwStep1 g D T sec (a, p.2) k = some (z, q.2) ∧ VLe T (proj g q.1) z ∧ PairA D A0 q := by
  obtain ⟨e1, e2⟩ := kwStep_proj g D hD T sec A0 hact hg p hp k q h
  obtain ⟨z, hz, hvz⟩ := kwStep1_cong T hT g D sec (proj g p.1) a p.2 k (prPair g q) hv e1
  exact ⟨z, hz, hvz, e2⟩

/-! ## end of the EDIT section, ACTNUM update -/

theorem applyMult1_cong (T : Tables α) (hT : TablesOK T) (x a : St1 α) (e : String × DInfo α) (he : e ∈ T.dbl)
    (h : VLe T x a) : VLe T (applyMult1 x e) (applyMult1 a e) := by
  unfold applyMult1
  split
  · cases hm : sget x.dbls (multName e.1) with
    | none =>
      rcases (h.dbls (multName e.1)).2 hm with ha | ⟨c, hF, _⟩
      · rw [ha]; exact h
      · simp only [fD, hT.noMult, Option.map_none] at hF
        cases hF
    | some mc =>
      rw [(h.dbls (multName e.1)).1 mc hm]
      simp only []
      obtain ⟨e1, e2⟩ := vle_get1D T x a e.1 e.2 h (compat_self T e.1 e.2 (hT.uniq e he))
      rw [e1]
      exact ⟨e2.ints, sle_serase _ _ _ _ (sle_sput _ _ _ _ _ e2.dbls) (uniq_sput _ _ _ e2.ux) (uniq_sput _ _ _ e2.ua),
        uniq_serase _ _ (uniq_sput _ _ _ e2.ux), uniq_serase _ _ (uniq_sput _ _ _ e2.ua)⟩
  · exact h

theorem foldl_applyMult1_cong (T : Tables α) (hT : TablesOK T) (es : List (String × DInfo α))
    (hes : ∀ e ∈ es, e ∈ T.dbl) (x a : St1 α) (h : VLe T x a) :
    VLe T (es.foldl applyMult1 x) (es.foldl applyMult1 a) := by
  induction es generalizing x a with
  | nil => exact h
  | cons e es ih =>
    simp only [List.foldl_cons]
    exact ih (fun e' he' => hes e' (List.mem_cons_of_mem _ he')) _ _
      (applyMult1_cong T hT x a e (hes e (List.mem_cons_self ..)) h)

theorem resetActnum1_cong (T : Tables α) (hT : TablesOK T) (x a : St1 α) (h : VLe T x a) :
    VLe T (resetActnum1 x) (resetActnum1 a) := by
  unfold resetActnum1
  cases hp : sget x.dbls "PORO" with
  | some c =>
    rw [(h.dbls "PORO").1 c hp]
    exact (vle_get1I T x a "ACTNUM" (some 1) h (compat_selfI T "ACTNUM" (some 1) hT.actnum)).2
  | none =>
    rcases (h.dbls "PORO").2 hp with ha | ⟨c, _, ha⟩
    · rw [ha]; exact h
    · rw [ha]
      exact vle_get1I_right T x a "ACTNUM" (some 1) h hT.actnum

/-! ## sections and programs -/

theorem scanSection_sim (g : Nat) (D : Dims) (hD : DPos D) (T : Tables α) (hT : TablesOK T) (sec : Section)
    (hg : g < D.size) (s : St α) (hw : WF D s) (hact : isActive s.act g = true) (a : St1 α)
    (hv : VLe T (proj g s) a) (ks : List (Kw α)) (s' : St α)
    (h : scanSection .ref D T sec s ks = some s') :
    ∃ z, scanSection1 g D T sec a ks = some z ∧ VLe T (proj g s') z := by
  unfold scanSection at h
  unfold scanSection1
  cases hf : foldRecs (kwStep .ref D T sec) (s, Box.global D) ks with
  | none => rw [hf] at h; cases h
  | some r =>
    rw [hf] at h
    simp only [Option.some.injEq] at h
    obtain ⟨z, hz, hr⟩ := foldRecs_sim (kwStep .ref D T sec) (kwStep1 g D T sec)
      (fun p q => PairA D s.act p ∧ VLe T (proj g p.1) q.1 ∧ p.2 = q.2)
      (fun p q k p' hr hs => by
        obtain ⟨qa, qb⟩ := q
        obtain ⟨h1, h2, h3⟩ := hr
        simp only at h2 h3
        subst h3
        obtain ⟨z, hz, hvz, hpa⟩ := kwStep_sim g D hD T hT sec s.act hact hg p h1 qa h2 k p' hs
        exact ⟨(z, p'.2), hz, hpa, hvz, rfl⟩)
      ks (s, Box.global D) (a, Box.global D) r ⟨⟨⟨hw, global_valid D hD⟩, rfl⟩, hv, rfl⟩ hf
    rw [hz]
    subst h
    by_cases he : sec = .edit
    · simp only [he, if_true, applyMultipliers]
      obtain ⟨m1, _⟩ := foldl_applyMult_proj g D hg T.dbl r.1 hr.1.1.1
      rw [m1]
      exact ⟨_, rfl, foldl_applyMult1_cong T hT T.dbl (fun e he => he) _ _ hr.2.1⟩
    · simp only [he, if_false]
      exact ⟨_, rfl, hr.2.1⟩

theorem runProg_sim (g : Nat) (D : Dims) (hD : DPos D) (T : Tables α) (hT : TablesOK T) (hg : g < D.size)
    (s0 : St α) (hw : WF D s0) (a0 : St1 α) (hv : VLe T (proj g s0) a0) (P : Prog α) (s : St α)
    (h : runProg .ref D T s0 P = some s) (hact : isActive s.act g = true) :
    ∃ z, runProg1 g D T a0 P = some z ∧ VLe T (proj g s) z := by
  unfold runProg at h
  unfold runProg1
  cases h1 : scanSection .ref D T .grid s0 P.grid with
  | none => rw [h1] at h; cases h
  | some s1 =>
    rw [h1] at h
    simp only [] at h
    cases h2 : scanSection .ref D T .edit s1 P.edit with
    | none => rw [h2] at h; cases h
    | some s2 =>
      rw [h2] at h
      simp only [] at h
      cases h3 : scanSection .ref D T .regions (resetActnum .ref D s2) P.regions with
      | none => rw [h3] at h; cases h
      | some s3 =>
        rw [h3] at h
        simp only [] at h
        cases h4 : scanSection .ref D T .props s3 P.props with
        | none => rw [h4] at h; cases h
        | some s4 =>
          rw [h4] at h
          simp only [] at h
          have w1 := (scanSection_refines D hD T .grid s0 hw P.grid).2 s1 h1
          have w2 := (scanSection_refines D hD T .edit s1 w1 P.edit).2 s2 h2
          have wr := (resetActnum_refines D s2 w2).2
          have w3 := (scanSection_refines D hD T .regions _ wr P.regions).2 s3 h3
          have w4 := (scanSection_refines D hD T .props s3 w3 P.props).2 s4 h4
          have c5 := scanSection_act .ref D T .solution s4 P.solution s h
          have c4 := scanSection_act .ref D T .props s3 P.props s4 h4
          have c3 := scanSection_act .ref D T .regions _ P.regions s3 h3
          have c2 := scanSection_act .ref D T .edit s1 P.edit s2 h2
          have c1 := scanSection_act .ref D T .grid s0 P.grid s1 h1
          have hr := resetActnum_proj g D s2 hg
          have act4 : isActive s4.act g = true := by rw [← c5]; exact hact
          have act3 : isActive s3.act g = true := by rw [← c4]; exact act4
          have actr : isActive (resetActnum .ref D s2).act g = true := by rw [← c3]; exact act3
          have act2 : isActive s2.act g = true := hr.2 actr
          have act1 : isActive s1.act g = true := by rw [← c2]; exact act2
          have act0 : isActive s0.act g = true := by rw [← c1]; exact act1
          obtain ⟨z1, e1, v1⟩ := scanSection_sim g D hD T hT .grid hg s0 hw act0 a0 hv P.grid s1 h1
          rw [e1]
          simp only []
          obtain ⟨z2, e2, v2⟩ := scanSection_sim g D hD T hT .edit hg s1 w1 act1 z1 v1 P.edit s2 h2
          rw [e2]
          simp only []
          have vr : VLe T (proj g (resetActnum .ref D s2)) (resetActnum1 z2) := by
            rw [hr.1]; exact resetActnum1_cong T hT _ _ v2
          obtain ⟨z3, e3, v3⟩ := scanSection_sim g D hD T hT .regions hg _ wr actr _ vr P.regions s3 h3
          rw [e3]
          simp only []
          obtain ⟨z4, e4, v4⟩ := scanSection_sim g D hD T hT .props hg s3 w3 act3 z3 v3 P.props s4 h4
          rw [e4]
          simp only []
          exact scanSection_sim g D hD T hT .solution hg s4 w4 act4 z4 v4 P.solution s h

/-- **Independence of inactive cells, whole programs with OPERATER (reference semantics).**  Two
accepted runs of the same program under two ACTNUMs show the same VIEW (stored array, or the freshly
initialised one when absent — what `init_get` hands to every reader) of every double and integer
keyword at every cell that is active at the end of both runs. -/
theorem runProg_indep_ref_views (D : Dims) (hD : DPos D) (T : Tables α) (hT : TablesOK T) (P : Prog α)
    (A A' : List Bool) (hA : A.length = D.size) (hA' : A'.length = D.size) (s s' : St α)
    (h : runProg .ref D T (initSt A) P = some s) (h' : runProg .ref D T (initSt A') P = some s')
    (g : Nat) (hg : g < D.size) (hact : isActive s.act g = true) (hact' : isActive s'.act g = true) :
    (∀ kw info, sget T.dbl kw = some info →
      cellAt (getD .ref D s kw info).2 g = cellAt (getD .ref D s' kw info).2 g) ∧
    (∀ kw init, sget T.int kw = some init →
      cellAt (getI .ref D s kw init).2 g = cellAt (getI .ref D s' kw init).2 g) := by
  have w : WF D (initSt A : St α) := ⟨hA, (fun p hp => by simp [initSt] at hp), (fun p hp => by simp [initSt] at hp)⟩
  have w' : WF D (initSt A' : St α) := ⟨hA', (fun p hp => by simp [initSt] at hp), (fun p hp => by simp [initSt] at hp)⟩
  have u0 : Uniq (proj g (initSt A : St α)).dbls := by simp [proj, initSt, smap, Uniq]
  have h0 : proj g (initSt A' : St α) = proj g (initSt A : St α) := rfl
  obtain ⟨z, e, v⟩ := runProg_sim g D hD T hT hg _ w _ (vle_refl T _ u0) P s h hact
  obtain ⟨z', e', v'⟩ := runProg_sim g D hD T hT hg _ w' _ (h0 ▸ vle_refl T _ u0) P s' h' hact'
  rw [e] at e'
  simp only [Option.some.injEq] at e'
  subst e'
  constructor
  · intro kw info hk
    have a1 := (vle_get1D T _ _ kw info v (compat_self T kw info hk)).1
    have a2 := (vle_get1D T _ _ kw info v' (compat_self T kw info hk)).1
    rw [proj_getD D s kw info g hg] at a1
    rw [proj_getD D s' kw info g hg] at a2
    simp only at a1 a2
    rw [a1, a2]
  · intro kw init hk
    have a1 := (vle_get1I T _ _ kw init v (compat_selfI T kw init hk)).1
    have a2 := (vle_get1I T _ _ kw init v' (compat_selfI T kw init hk)).1
    rw [proj_getI D s kw init g hg] at a1
    rw [proj_getI D s' kw init g hg] at a2
    simp only at a1 a2
    rw [a1, a2]

/-- … and for the implementation (active-only arrays): what `init_get<double>(kw)` / `init_get<int>(kw)`
returns has the same cell for global index `g` (at `rank t.act g` resp. `rank t'.act g`). -/
theorem runProg_indep_impl_views (D : Dims) (hD : DPos D) (T : Tables α) (hT : TablesOK T) (P : Prog α)
    (A A' : List Bool) (hA : A.length = D.size) (hA' : A'.length = D.size) (t t' : St α)
    (h : runProg .impl D T (initSt A) P = some t) (h' : runProg .impl D T (initSt A') P = some t')
    (g : Nat) (hg : g < D.size) (hact : isActive t.act g = true) (hact' : isActive t'.act g = true) :
    (∀ kw info, sget T.dbl kw = some info →
      cellAt (getD .impl D t kw info).2 (rank t.act g) = cellAt (getD .impl D t' kw info).2 (rank t'.act g)) ∧
    (∀ kw init, sget T.int kw = some init →
      cellAt (getI .impl D t kw init).2 (rank t.act g) = cellAt (getI .impl D t' kw init).2 (rank t'.act g)) := by
  have w : WF D (initSt A : St α) := ⟨hA, (fun p hp => by simp [initSt] at hp), (fun p hp => by simp [initSt] at hp)⟩
  have w' : WF D (initSt A' : St α) := ⟨hA', (fun p hp => by simp [initSt] at hp), (fun p hp => by simp [initSt] at hp)⟩
  obtain ⟨r1, r2⟩ := runProg_refines D hD T (initSt A) w P
  obtain ⟨r1', r2'⟩ := runProg_refines D hD T (initSt A') w' P
  have hc : cSt (initSt A : St α) = initSt A := rfl
  have hc' : cSt (initSt A' : St α) = initSt A' := rfl
  rw [hc, h] at r1
  rw [hc', h'] at r1'
  cases hs : runProg .ref D T (initSt A) P with
  | none => rw [hs] at r1; cases r1
  | some s =>
    cases hs' : runProg .ref D T (initSt A') P with
    | none => rw [hs'] at r1'; cases r1'
    | some s' =>
      rw [hs] at r1
      rw [hs'] at r1'
      simp only [Option.map_some, Option.some.injEq] at r1 r1'
      subst r1
      subst r1'
      have ws := r2 s hs
      have ws' := r2' s' hs'
      have hact0 : isActive s.act g = true := hact
      have hact0' : isActive s'.act g = true := hact'
      obtain ⟨vd, vi⟩ := runProg_indep_ref_views D hD T hT P A A' hA hA' s s' hs hs' g hg hact0 hact0'
      have ea : (cSt s).act = s.act := rfl
      have ea' : (cSt s').act = s'.act := rfl
      constructor
      · intro kw info hk
        rw [getD_impl D s kw info ws, getD_impl D s' kw info ws', ea, ea']
        simp only []
        rw [cellAt_compress_rank s.act _ g (by rw [(getD_wf D s kw info ws).2, ws.act]) hact0,
          cellAt_compress_rank s'.act _ g (by rw [(getD_wf D s' kw info ws').2, ws'.act]) hact0']
        exact vd kw info hk
      · intro kw init hk
        rw [getI_impl D s kw init ws, getI_impl D s' kw init ws', ea, ea']
        simp only []
        rw [cellAt_compress_rank s.act _ g (by rw [(getI_wf D s kw init ws).2, ws.act]) hact0,
          cellAt_compress_rank s'.act _ g (by rw [(getI_wf D s' kw init ws').2, ws'.act]) hact0']
        exact vi kw init hk

/-! ## the hypothesis on the tables is decidable; the driver evaluates it on the tables read from the
real `keyword_info` on every correspondence case (`tablesOkB`, `bad-tables`) -/

theorem take8_multName (x : String) : (multName x).toList.take 8 = "__MULT__".toList := by
  simp [multName, String.toList_append]

theorem sget_of_nodup {β : Type} (s : List (String × β)) (hu : (s.map (·.1)).Nodup) :
    ∀ e ∈ s, sget s e.1 = some e.2 := by
  induction s with
  | nil => intro e he; cases he
  | cons p r ih =>
    obtain ⟨k, v⟩ := p
    simp only [List.map_cons, List.nodup_cons] at hu
    intro e he
    simp only [List.mem_cons] at he
    rcases he with he | he
    · subst he; simp [sget]
    · have hne : k ≠ e.1 := fun h => hu.1 (by rw [h]; exact List.mem_map_of_mem he)
      simp only [sget, hne, if_false]
      exact ih hu.2 e he

theorem tablesOK_of_check (T : Tables α) (h : tablesOkB T = true) : TablesOK T := by
  simp only [tablesOkB, Bool.and_eq_true, List.all_eq_true, decide_eq_true_eq, bne_iff_ne, ne_eq] at h
  obtain ⟨⟨h1, h2⟩, h3⟩ := h
  refine ⟨fun x => ?_, h3, sget_of_nodup T.dbl h2⟩
  apply sget_none_of_not_mem
  intro hm
  obtain ⟨e, he, hk⟩ := List.mem_map.mp hm
  apply h1 e he
  rw [hk]
  exact take8_multName x

end One

end OpmVerif.FieldProps
