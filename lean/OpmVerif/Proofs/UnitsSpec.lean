/-
  C02 — hand-written specification tables.  Nothing in this file is generated and nothing in it
  refers to `Units.hpp`: it says what the units ARE (SI definitions as decimal numbers) and what
  each `UnitSystem::measure` is DOCUMENTED to be (a product/quotient of named dimensions).
  The theorems of `Props/C02.lean` state that the tables generated from the C++ sources meet
  these tables.  Definitions only — no proofs here.
-/
import OpmVerif.Model.Units

namespace OpmVerif.Units.Spec

/-- `m / 10^k` -/
def dec (m : Int) (k : Nat) : Rat := (m : Rat) / ((10 ^ k : Nat) : Rat)

/-! ### SI definitions of the constants of `Units.hpp` (C++ qualified name ↦ value in SI) -/

def inch : Rat := dec 254 4                    -- 0.0254 m (international inch, 1959)
def foot : Rat := 12 * inch                    -- 0.3048 m
def pound : Rat := dec 45359237 8              -- 0.45359237 kg (international avoirdupois pound)
def g0 : Rat := dec 980665 5                   -- 9.80665 m/s² (standard gravity, CGPM 1901)
def atm : Rat := 101325                        -- Pa (standard atmosphere)
def bar : Rat := 100000                        -- Pa
def psi : Rat := pound * g0 / (inch * inch)    -- lbf / in²
def usGallon : Rat := 231 * inch * inch * inch -- 231 in³
def stb : Rat := 42 * usGallon                 -- oil barrel = 42 US gallons
def mscf : Rat := 1000 * foot * foot * foot
def day : Rat := 86400
def hour : Rat := 3600
def cP : Rat := dec 1 3                        -- 1 mPa·s
/-- 1 darcy: 1 cm³/s of a 1 cP fluid through 1 cm² under 1 atm/cm  =  1e-7/101325 m² -/
def darcy : Rat := dec 1 7 / 101325
def mD : Rat := dec 1 3 * darcy
def btu : Rat := dec 10543503 4                -- thermochemical BTU, 1054.3503 J
def degF : Rat := 5 / 9                        -- K per °F (and per °R)
def degFOffset : Rat := dec 45967 2 * 5 / 9    -- 0 °F = 459.67 °R = 255.372… K
def degCOffset : Rat := dec 27315 2            -- 0 °C = 273.15 K

def constSpec : List (String × Rat) := [
  ("prefix::micro", dec 1 6), ("prefix::milli", dec 1 3), ("prefix::centi", dec 1 2), ("prefix::deci", dec 1 1),
  ("prefix::kilo", 1000), ("prefix::mega", 1000000), ("prefix::giga", 1000000000),
  ("unit::meter", 1), ("unit::inch", inch), ("unit::feet", foot),
  ("unit::second", 1), ("unit::minute", 60), ("unit::hour", hour), ("unit::day", day),
  ("unit::year", 365 * day), ("unit::ecl_year", dec 36525 2 * day),
  ("unit::gallon", usGallon), ("unit::stb", stb), ("unit::liter", dec 1 3),
  ("unit::kilogram", 1), ("unit::gram", dec 1 3), ("unit::pound", pound),
  ("unit::joule", 1), ("unit::btu", btu), ("unit::gravity", g0), ("unit::mol", 1),
  ("unit::Newton", 1), ("unit::dyne", dec 1 5), ("unit::lbf", pound * g0),
  ("unit::Pascal", 1), ("unit::barsa", bar), ("unit::atm", atm), ("unit::psia", psi),
  ("unit::degCelsius", 1), ("unit::degCelsiusOffset", degCOffset),
  ("unit::degFahrenheit", degF), ("unit::degFahrenheitOffset", degFOffset),
  ("unit::Pas", 1), ("unit::Poise", dec 1 1), ("unit::ppm", dec 1 6), ("unit::darcy", darcy)]

/-! ### what the named dimensions of each deck unit system are, in SI (scale, offset) -/

structure DimSpec where
  deck : String        -- deck name of the unit system
  dim : String
  scale : Rat
  offset : Rat := 0

def m3 : Rat := 1
def cm : Rat := dec 1 2
def cm3 : Rat := cm * cm * cm
def ft3 : Rat := foot * foot * foot

def dimSpec : List DimSpec := [
  -- METRIC: bar, °C, m, day, kg, mD, sm³, rm³, kg/m³, cP, kJ, kg-mol
  ⟨"METRIC", "1", 1, 0⟩, ⟨"METRIC", "Unit", 1, 0⟩, ⟨"METRIC", "Pressure", bar, 0⟩, ⟨"METRIC", "Temperature", 1, degCOffset⟩,
  ⟨"METRIC", "AbsoluteTemperature", 1, 0⟩, ⟨"METRIC", "Length", 1, 0⟩, ⟨"METRIC", "Time", day, 0⟩,
  ⟨"METRIC", "RunTime", 1, 0⟩, ⟨"METRIC", "Mass", 1, 0⟩, ⟨"METRIC", "Permeability", mD, 0⟩, ⟨"METRIC", "Area", 1, 0⟩,
  ⟨"METRIC", "Transmissibility", cP * m3 / (day * bar), 0⟩, ⟨"METRIC", "GasDissolutionFactor", 1, 0⟩,
  ⟨"METRIC", "OilDissolutionFactor", 1, 0⟩, ⟨"METRIC", "LiquidSurfaceVolume", 1, 0⟩, ⟨"METRIC", "GasSurfaceVolume", 1, 0⟩,
  ⟨"METRIC", "ReservoirVolume", 1, 0⟩, ⟨"METRIC", "GeometricVolume", 1, 0⟩, ⟨"METRIC", "Density", 1, 0⟩,
  ⟨"METRIC", "PolymerDensity", 1, 0⟩, ⟨"METRIC", "FoamDensity", 1, 0⟩, ⟨"METRIC", "FoamSurfactantConcentration", 1, 0⟩,
  ⟨"METRIC", "Salinity", 1, 0⟩, ⟨"METRIC", "Viscosity", cP, 0⟩, ⟨"METRIC", "Timestep", day, 0⟩,
  ⟨"METRIC", "SurfaceTension", dec 1 3, 0⟩, ⟨"METRIC", "Energy", 1000, 0⟩, ⟨"METRIC", "PPM", dec 1 6, 0⟩,
  ⟨"METRIC", "Moles", 1000, 0⟩, ⟨"METRIC", "Ymodule", 1000000000, 0⟩,
  -- FIELD: psi, °F, ft, day, lb, mD, stb, Mscf, rb, lb/ft³, cP, BTU, lb-mol
  ⟨"FIELD", "1", 1, 0⟩, ⟨"FIELD", "Unit", 1, 0⟩, ⟨"FIELD", "Pressure", psi, 0⟩, ⟨"FIELD", "Temperature", degF, degFOffset⟩,
  ⟨"FIELD", "AbsoluteTemperature", degF, 0⟩, ⟨"FIELD", "Length", foot, 0⟩, ⟨"FIELD", "Time", day, 0⟩,
  ⟨"FIELD", "RunTime", 1, 0⟩, ⟨"FIELD", "Mass", pound, 0⟩, ⟨"FIELD", "Permeability", mD, 0⟩, ⟨"FIELD", "Area", foot * foot, 0⟩,
  ⟨"FIELD", "Transmissibility", cP * stb / (day * psi), 0⟩, ⟨"FIELD", "GasDissolutionFactor", mscf / stb, 0⟩,
  ⟨"FIELD", "OilDissolutionFactor", stb / mscf, 0⟩, ⟨"FIELD", "LiquidSurfaceVolume", stb, 0⟩, ⟨"FIELD", "GasSurfaceVolume", mscf, 0⟩,
  ⟨"FIELD", "ReservoirVolume", stb, 0⟩, ⟨"FIELD", "GeometricVolume", ft3, 0⟩, ⟨"FIELD", "Density", pound / ft3, 0⟩,
  ⟨"FIELD", "PolymerDensity", pound / stb, 0⟩, ⟨"FIELD", "FoamDensity", pound / mscf, 0⟩,
  ⟨"FIELD", "FoamSurfactantConcentration", pound / stb, 0⟩, ⟨"FIELD", "Salinity", pound / stb, 0⟩,
  ⟨"FIELD", "Viscosity", cP, 0⟩, ⟨"FIELD", "Timestep", day, 0⟩, ⟨"FIELD", "SurfaceTension", dec 1 3, 0⟩,
  ⟨"FIELD", "Energy", btu, 0⟩, ⟨"FIELD", "PPM", dec 1 6, 0⟩, ⟨"FIELD", "Moles", 1000 * pound, 0⟩,
  ⟨"FIELD", "Ymodule", 1000000000, 0⟩,
  -- LAB: atm, °C, cm, hour, g, mD, scc, rcc, g/cc, cP, J, g-mol
  ⟨"LAB", "1", 1, 0⟩, ⟨"LAB", "Unit", 1, 0⟩, ⟨"LAB", "Pressure", atm, 0⟩, ⟨"LAB", "Temperature", 1, degCOffset⟩, ⟨"LAB", "AbsoluteTemperature", 1, 0⟩,
  ⟨"LAB", "Length", cm, 0⟩, ⟨"LAB", "Time", hour, 0⟩, ⟨"LAB", "RunTime", 1, 0⟩, ⟨"LAB", "Mass", dec 1 3, 0⟩,
  ⟨"LAB", "Permeability", mD, 0⟩, ⟨"LAB", "Area", cm * cm, 0⟩, ⟨"LAB", "Transmissibility", cP * cm3 / (hour * atm), 0⟩,
  ⟨"LAB", "GasDissolutionFactor", 1, 0⟩, ⟨"LAB", "OilDissolutionFactor", 1, 0⟩, ⟨"LAB", "LiquidSurfaceVolume", cm3, 0⟩,
  ⟨"LAB", "GasSurfaceVolume", cm3, 0⟩, ⟨"LAB", "ReservoirVolume", cm3, 0⟩, ⟨"LAB", "GeometricVolume", cm3, 0⟩,
  ⟨"LAB", "Density", 1000, 0⟩, ⟨"LAB", "PolymerDensity", 1000, 0⟩, ⟨"LAB", "FoamDensity", 1000, 0⟩,
  ⟨"LAB", "FoamSurfactantConcentration", 1000, 0⟩, ⟨"LAB", "Salinity", 1000, 0⟩, ⟨"LAB", "Viscosity", cP, 0⟩,
  ⟨"LAB", "Timestep", hour, 0⟩, ⟨"LAB", "SurfaceTension", dec 1 3, 0⟩, ⟨"LAB", "Energy", 1, 0⟩, ⟨"LAB", "PPM", dec 1 6, 0⟩,
  ⟨"LAB", "Moles", 1, 0⟩, ⟨"LAB", "Ymodule", 1000000000, 0⟩,
  -- PVT-M: as METRIC but pressure in atm
  ⟨"PVT-M", "1", 1, 0⟩, ⟨"PVT-M", "Unit", 1, 0⟩, ⟨"PVT-M", "Pressure", atm, 0⟩, ⟨"PVT-M", "Temperature", 1, degCOffset⟩,
  ⟨"PVT-M", "AbsoluteTemperature", 1, 0⟩, ⟨"PVT-M", "Length", 1, 0⟩, ⟨"PVT-M", "Time", day, 0⟩, ⟨"PVT-M", "RunTime", 1, 0⟩,
  ⟨"PVT-M", "Mass", 1, 0⟩, ⟨"PVT-M", "Permeability", mD, 0⟩, ⟨"PVT-M", "Area", 1, 0⟩,
  ⟨"PVT-M", "Transmissibility", cP * m3 / (day * atm), 0⟩, ⟨"PVT-M", "GasDissolutionFactor", 1, 0⟩,
  ⟨"PVT-M", "OilDissolutionFactor", 1, 0⟩, ⟨"PVT-M", "LiquidSurfaceVolume", 1, 0⟩, ⟨"PVT-M", "GasSurfaceVolume", 1, 0⟩,
  ⟨"PVT-M", "ReservoirVolume", 1, 0⟩, ⟨"PVT-M", "GeometricVolume", 1, 0⟩, ⟨"PVT-M", "Density", 1, 0⟩,
  ⟨"PVT-M", "PolymerDensity", 1, 0⟩, ⟨"PVT-M", "FoamDensity", 1, 0⟩, ⟨"PVT-M", "FoamSurfactantConcentration", 1, 0⟩,
  ⟨"PVT-M", "Salinity", 1, 0⟩, ⟨"PVT-M", "Viscosity", cP, 0⟩, ⟨"PVT-M", "Timestep", day, 0⟩,
  ⟨"PVT-M", "SurfaceTension", dec 1 3, 0⟩, ⟨"PVT-M", "Energy", 1000, 0⟩, ⟨"PVT-M", "PPM", dec 1 6, 0⟩,
  ⟨"PVT-M", "Moles", 1000, 0⟩, ⟨"PVT-M", "Ymodule", 1000000000, 0⟩]

/-! ### what each measure is documented to be: numerator and denominator lists of named
dimensions (keyed by the enumerator NAME, so a reordering of the enum does not matter) -/

structure MeasureSpec where
  measure : String
  num : List String
  den : List String := []

def measureSpec : List MeasureSpec := [
  ⟨"identity", [], []⟩,
  ⟨"length", ["Length"], []⟩,
  ⟨"time", ["Time"], []⟩,
  ⟨"runtime", ["RunTime"], []⟩,
  ⟨"density", ["Density"], []⟩,
  ⟨"pressure", ["Pressure"], []⟩,
  ⟨"temperature_absolute", ["AbsoluteTemperature"], []⟩,
  ⟨"temperature", ["Temperature"], []⟩,            -- the only measure with an offset
  ⟨"viscosity", ["Viscosity"], []⟩,
  ⟨"permeability", ["Permeability"], []⟩,
  ⟨"area", ["Length", "Length"], []⟩,
  ⟨"liquid_surface_volume", ["LiquidSurfaceVolume"], []⟩,
  ⟨"gas_surface_volume", ["GasSurfaceVolume"], []⟩,
  ⟨"volume", ["ReservoirVolume"], []⟩,
  ⟨"geometric_volume", ["GeometricVolume"], []⟩,
  ⟨"liquid_surface_rate", ["LiquidSurfaceVolume"], ["Time"]⟩,
  ⟨"gas_surface_rate", ["GasSurfaceVolume"], ["Time"]⟩,
  ⟨"rate", ["ReservoirVolume"], ["Time"]⟩,
  ⟨"geometric_volume_rate", ["GeometricVolume"], ["Time"]⟩,
  ⟨"pipeflow_velocity", ["Length"], ["RunTime"]⟩,                 -- M/SEC, FT/SEC, CM/SEC
  ⟨"transmissibility", ["Viscosity", "ReservoirVolume"], ["Time", "Pressure"]⟩,   -- cP·rm³/day/bar
  ⟨"effective_Kh", ["Permeability", "Length"], []⟩,
  ⟨"mass", ["Mass"], []⟩,
  ⟨"mass_rate", ["Mass"], ["Time"]⟩,
  ⟨"gas_oil_ratio", ["GasSurfaceVolume"], ["LiquidSurfaceVolume"]⟩,
  ⟨"oil_gas_ratio", ["LiquidSurfaceVolume"], ["GasSurfaceVolume"]⟩,
  ⟨"water_cut", [], []⟩,
  ⟨"gas_formation_volume_factor", ["ReservoirVolume"], ["GasSurfaceVolume"]⟩,
  ⟨"oil_formation_volume_factor", ["ReservoirVolume"], ["LiquidSurfaceVolume"]⟩,
  ⟨"water_formation_volume_factor", ["ReservoirVolume"], ["LiquidSurfaceVolume"]⟩,
  ⟨"gas_inverse_formation_volume_factor", ["GasSurfaceVolume"], ["ReservoirVolume"]⟩,
  ⟨"oil_inverse_formation_volume_factor", ["LiquidSurfaceVolume"], ["ReservoirVolume"]⟩,
  ⟨"water_inverse_formation_volume_factor", ["LiquidSurfaceVolume"], ["ReservoirVolume"]⟩,
  ⟨"liquid_productivity_index", ["LiquidSurfaceVolume"], ["Time", "Pressure"]⟩,
  ⟨"gas_productivity_index", ["GasSurfaceVolume"], ["Time", "Pressure"]⟩,
  ⟨"energy", ["Energy"], []⟩,
  ⟨"energy_rate", ["Energy"], ["Time"]⟩,
  ⟨"icd_strength", ["Pressure", "Time", "Time"], ["GeometricVolume", "GeometricVolume"]⟩,
  ⟨"aicd_strength", ["Pressure", "Time", "Time"], ["Density", "GeometricVolume", "GeometricVolume"]⟩,
  ⟨"polymer_density", ["PolymerDensity"], []⟩,
  ⟨"salinity", ["Salinity"], []⟩,
  ⟨"gas_oil_ratio_rate", ["GasSurfaceVolume"], ["LiquidSurfaceVolume", "Time"]⟩,
  ⟨"moles", ["Moles"], []⟩,
  ⟨"ppm", ["PPM"], []⟩,
  ⟨"ymodule", ["Ymodule"], []⟩,
  ⟨"dfactor", ["Time"], ["GasSurfaceVolume"]⟩]

/-! ### evaluation of the specification against generated tables (decidable checks) -/

/-- product of the scale factors of named dimensions; `none` if one is unknown / NaN / has an offset -/
def dimProd (s : SysDef Rat) : List String → Option Rat
  | [] => some 1
  | n :: ns =>
    match getDimension s n, dimProd s ns with
    | some ⟨some f, o⟩, some p => if o = 0 then some (f * p) else none
    | _, _ => none

/-- does the measure-table entry of `s` equal the documented composite? -/
def measureOk (s : SysDef Rat) (e : MeasureSpec) : Bool :=
  let m := Gen.Units.measureNames.idxOf e.measure
  match e.num, e.den with
  | [n], [] =>       -- a single named dimension: scale and offset must both agree
    match getDimension s n with
    | some ⟨some f, o⟩ => decide (s.toSI.getD m zero = f ∧ s.toSIOffset.getD m zero = o)
    | _ => false
  | _, _ =>
    match dimProd s e.num, dimProd s e.den with
    | some p, some q => decide (s.toSI.getD m zero = p / q ∧ s.toSIOffset.getD m zero = 0)
    | _, _ => false

/-- the dimension string that denotes the documented composite (`a*b/c*d`; `1` for an empty
numerator) -/
def MeasureSpec.chars (e : MeasureSpec) : List Char :=
  let f (ns : List String) : List Char := List.intercalate ['*'] (ns.map String.toList)
  let num := if e.num.isEmpty then ['1'] else f e.num
  if e.den.isEmpty then num else num ++ '/' :: f e.den

/-- does `UnitSystem::parse` of that string give the measure-table entry (scale and offset)? -/
def measureParseOk (s : SysDef Rat) (e : MeasureSpec) : Bool :=
  let m := Gen.Units.measureNames.idxOf e.measure
  match parseChars s e.chars with
  | some d => decide (d.scale = some (s.toSI.getD m zero) ∧ d.offset = s.toSIOffset.getD m zero)
  | none => false

def sysByDeckName (n : String) : Option (SysDef Rat) :=
  (Gen.Units.systems Rat).find? (fun s => s.deckName == some n)

def dimOk (e : DimSpec) : Bool :=
  match sysByDeckName e.deck with
  | some s => decide (getDimension s e.dim = some ⟨some e.scale, e.offset⟩)
  | none => false

def constOk (e : String × Rat) : Bool :=
  match (Gen.Units.constTable Rat).find? (·.1 == e.1) with
  | some (_, v) => decide (v = e.2)
  | none => false

/-- the four deck unit systems (everything that has a deck name) -/
def deckSystems : List (SysDef Rat) := (Gen.Units.systems Rat).filter (·.deckName.isSome)

end OpmVerif.Units.Spec
