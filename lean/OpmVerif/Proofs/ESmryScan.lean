/-
  The time-step scan of the `ESmry` constructor and the PARAMS block reader of `ESmry::loadData()`:
  with the guards present no access leaves its container, the scan terminates, and every time step it
  returns points at a MINISTEP array directly followed by a PARAMS array of the list.
-/
import OpmVerif.Model.ESmryScan

namespace OpmVerif.ESmryScan

theorem start_some (g : Guards) (hg : g.emptyList = true) (names : List String) :
    ∃ i, start g names = some i ∧ i ≤ 1 := by
  unfold start
  cases names with
  | nil => simp [hg]
  | cons a t =>
    simp
    split <;> simp

/-- what one pass through the body can do -/
theorem body_cases (g : Guards) (hg : g.trailing = true) (names : List String) (limit i step report : Nat)
    (steps : List (Nat × Nat)) (seq : List Nat) (hi : i < names.length) :
    (∃ c, body g names limit i step report steps seq = .stop (.err c)) ∨
    (∃ i' step' report' seq',
        body g names limit i step report steps seq = .next i' step' report' (steps ++ [(i, i + 1)]) seq' ∧
        (i + 2 ≤ i' ∨ i' = names.length) ∧
        i + 1 < names.length ∧ names[i]? = some "MINISTEP" ∧ names[i + 1]? = some "PARAMS") := by
  unfold body
  have h0 : names[i]? = some names[i] := List.getElem?_eq_getElem hi
  rw [h0]
  simp only []
  by_cases ha : (names[i] != "MINISTEP") = true
  · left; exact ⟨1, by simp [ha]⟩
  · have ha' : names[i] = "MINISTEP" := by simpa using ha
    simp only [ha, hg, Bool.true_and]
    by_cases ht : i + 1 ≥ names.length
    · left; exact ⟨2, by simp [ht]⟩
    · have hlt : i + 1 < names.length := by omega
      have h1 : names[i + 1]? = some names[i + 1] := List.getElem?_eq_getElem hlt
      simp only [ht, decide_false, Bool.false_eq_true, if_false, h1]
      by_cases hb : (names[i + 1] != "PARAMS") = true
      · left; exact ⟨3, by simp [hb]⟩
      · have hb' : names[i + 1] = "PARAMS" := by simpa using hb
        right
        simp only [hb, Bool.false_eq_true, if_false]
        split
        · split
          · refine ⟨_, _, _, _, rfl, ?_, hlt, by simp [ha'], by simp [hb']⟩
            split <;> omega
          · refine ⟨_, _, _, _, rfl, ?_, hlt, by simp [ha'], by simp [hb']⟩
            split <;> omega
        · refine ⟨_, _, _, _, rfl, ?_, hlt, by simp [ha'], by simp [hb']⟩
          split <;> omega

/-- invariant of the returned time steps -/
def StepsOK (names : List String) (steps : List (Nat × Nat)) : Prop :=
  ∀ s ∈ steps, s.2 = s.1 + 1 ∧ names[s.1]? = some "MINISTEP" ∧ names[s.2]? = some "PARAMS"

theorem loop_spec (g : Guards) (hg : g.trailing = true) (names : List String) (limit : Nat) :
    ∀ (fuel i step report : Nat) (steps : List (Nat × Nat)) (seq : List Nat),
      0 < fuel → names.length + 1 ≤ fuel + i → StepsOK names steps →
      (∃ c, loop g names limit fuel i step report steps seq = .err c) ∨
      (∃ st sq, loop g names limit fuel i step report steps seq = .ok st sq ∧ StepsOK names st) := by
  intro fuel
  induction fuel with
  | zero => intro i step report steps seq h; omega
  | succ f ih =>
    intro i step report steps seq _ hfi hst
    unfold loop
    by_cases hi : i < names.length
    · simp only [hi, if_true]
      rcases body_cases g hg names limit i step report steps seq hi with ⟨c, hc⟩ | ⟨i', step', report', seq', hb, hprog, hlt, hm, hp⟩
      · rw [hc]; left; exact ⟨c, rfl⟩
      · rw [hb]
        simp only []
        apply ih
        · omega
        · rcases hprog with h | h <;> omega
        · intro s hs
          rcases List.mem_append.mp hs with h | h
          · exact hst s h
          · have : s = (i, i + 1) := by simpa using h
            subst this
            exact ⟨rfl, hm, hp⟩
    · simp only [hi, if_false]
      right; exact ⟨steps, seq, rfl, hst⟩

/-- the scan with both guards: an error or a list of time steps, each a MINISTEP array directly followed
by a PARAMS array of the list; never an access outside the list, never the model's loop bound -/
theorem scan_spec (g : Guards) (he : g.emptyList = true) (ht : g.trailing = true)
    (names : List String) (from_ limit : Nat) :
    (∃ c, scan g names from_ limit = .err c) ∨
    (∃ st sq, scan g names from_ limit = .ok st sq ∧ StepsOK names st) := by
  unfold scan
  obtain ⟨i, hs, hi⟩ := start_some g he names
  rw [hs]
  simp only []
  apply loop_spec g ht
  · omega
  · omega
  · intro s hs; cases hs

theorem scan_no_ub (g : Guards) (he : g.emptyList = true) (ht : g.trailing = true)
    (names : List String) (from_ limit : Nat) :
    scan g names from_ limit ≠ .ub ∧ scan g names from_ limit ≠ .fuel := by
  rcases scan_spec g he ht names from_ limit with ⟨c, h⟩ | ⟨st, sq, h, _⟩ <;> rw [h] <;> exact ⟨nofun, nofun⟩

/-- the guards are needed: without them an access leaves the list -/
example : scan { emptyList := true, trailing := false } ["MINISTEP"] 0 100 = .ub := by decide
example : scan { emptyList := false, trailing := true } [] 0 100 = .ub := by decide
/-- a non-trivial accepted list -/
example : scan { emptyList := true, trailing := true } ["SEQHDR", "MINISTEP", "PARAMS", "MINISTEP", "PARAMS", "SEQHDR", "MINISTEP", "PARAMS"] 0 100
    = .ok [(1, 2), (3, 4), (6, 7)] [1, 2] := by decide

/-! ### PARAMS block reader -/

theorem blocks_no_ub (maxEl nParams : Nat) :
    ∀ (heads : List Int) (rest : Int) (p : Nat), 0 ≤ rest → (p : Int) + rest = nParams →
      ∀ k, blocks true maxEl nParams heads rest p ≠ .ub k := by
  intro heads
  induction heads with
  | nil => intro rest p _ _ k; unfold blocks; split <;> (intro h; cases h)
  | cons num hs ih =>
    intro rest p h0 hsum k
    unfold blocks
    by_cases hr : rest > 0
    · simp only [hr, if_true, Bool.true_and]
      by_cases h1 : num > (maxEl : Int)
      · simp [h1]
      · by_cases h2 : num < 0
        · simp [h2]
        · by_cases h3 : num > rest
          · simp [h3]
          · have hnn : (num.toNat : Int) = num := Int.toNat_of_nonneg (by omega)
            have hfit : ¬ (p + num.toNat > nParams) := by omega
            simp only [h1, h2, h3, decide_false, Bool.or_false, Bool.false_eq_true, if_false, hfit, Bool.and_false]
            split
            · intro h; cases h
            · apply ih
              · omega
              · omega
    · simp only [hr, if_false]; intro h; cases h

/-- with the `num > rest` test no length word makes the element loop index `keywpos` outside its
`nParams` entries -/
theorem readParams_no_ub (maxEl nParams : Nat) (heads : List Int) (k : Nat) :
    readParams true maxEl nParams heads ≠ .ub k := by
  unfold readParams
  exact blocks_no_ub maxEl nParams heads nParams 0 (by omega) (by omega) k

/-- without it a single oversized length word does -/
example : readParams false 1000 5 [1000] = .ub 5 := by decide
example : readParams true 1000 5 [1000] = .err := by decide
example : readParams true 1000 1001 [1000, 1] = .ok 1001 := by decide

end OpmVerif.ESmryScan
