/-
  Index lemmas shared by C13 (grid coherence) and C12 (cell property arrays):

    * `(i,j,k) ↔ global` index bijection of `GridDims`;
    * the active maps built by `resetACTNUM` are mutually inverse, strictly monotone, total on
      the active cells, and `m_nactive` = number of positive ACTNUM entries = length of
      `m_active_to_global`.

  Core Lean only (no Mathlib), so any family may import it cheaply.
-/
import OpmVerif.Model.Grid

namespace OpmVerif.Grid

/-! ## GridDims -/

theorem div_mod_decode {a m b : Nat} (h : a < m) : (a + m * b) / m = b ∧ (a + m * b) % m = a := by
  have hm : 0 < m := by omega
  constructor
  · rw [Nat.add_mul_div_left _ _ hm, Nat.div_eq_of_lt h]; omega
  · rw [Nat.add_mul_mod_self_left, Nat.mod_eq_of_lt h]

/-- `getGlobalIndex (getIJK g) = g` for every `g` (only `nx, ny > 0` is needed). -/
theorem getGlobalIndex_getIJK (d : Dims) (g : Nat) :
    getGlobalIndex d (getIJK d g).1 (getIJK d g).2.1 (getIJK d g).2.2 = g := by
  simp only [getGlobalIndex, getIJK]
  have h1 := Nat.div_add_mod g d.nx
  have h2 := Nat.div_add_mod (g / d.nx) d.ny
  have h2' : g / d.nx % d.ny + g / d.nx / d.ny * d.ny = g / d.nx := by
    rw [Nat.mul_comm]; omega
  rw [h2']; omega

/-- `getIJK (getGlobalIndex i j k) = (i,j,k)` whenever `i < nx`, `j < ny`. -/
theorem getIJK_getGlobalIndex (d : Dims) {i j k : Nat} (hi : i < d.nx) (hj : j < d.ny) :
    getIJK d (getGlobalIndex d i j k) = (i, j, k) := by
  simp only [getGlobalIndex, getIJK]
  obtain ⟨h1, h2⟩ := div_mod_decode (b := j + k * d.ny) hi
  have h3 : j + k * d.ny = j + d.ny * k := by rw [Nat.mul_comm]
  obtain ⟨h4, h5⟩ := div_mod_decode (b := k) hj
  rw [h1, h2, h3, h4, h5]

/-- The components returned by `getIJK` are in range when `g` is. -/
theorem getIJK_lt (d : Dims) {g : Nat} (hg : g < d.size) :
    (getIJK d g).1 < d.nx ∧ (getIJK d g).2.1 < d.ny ∧ (getIJK d g).2.2 < d.nz := by
  simp only [getIJK, Dims.size] at *
  have hx : 0 < d.nx := by
    rcases Nat.eq_zero_or_pos d.nx with h | h
    · rw [h] at hg; simp at hg
    · exact h
  have hy : 0 < d.ny := by
    rcases Nat.eq_zero_or_pos d.ny with h | h
    · rw [h] at hg; simp at hg
    · exact h
  refine ⟨Nat.mod_lt _ hx, Nat.mod_lt _ hy, ?_⟩
  rw [Nat.div_div_eq_div_mul]
  exact (Nat.div_lt_iff_lt_mul (Nat.mul_pos hx hy)).2 (by rw [Nat.mul_comm]; exact hg)

/-- `getGlobalIndex` of in-range indices is in range. -/
theorem getGlobalIndex_lt (d : Dims) {i j k : Nat} (hi : i < d.nx) (hj : j < d.ny) (hk : k < d.nz) :
    getGlobalIndex d i j k < d.size := by
  simp only [getGlobalIndex, Dims.size]
  have h1 : j + k * d.ny + 1 ≤ d.nz * d.ny := by
    have : (k + 1) * d.ny ≤ d.nz * d.ny := Nat.mul_le_mul_right _ hk
    rw [Nat.succ_mul] at this; omega
  have h2 : d.nx * (j + k * d.ny + 1) ≤ d.nx * (d.nz * d.ny) := Nat.mul_le_mul_left _ h1
  rw [Nat.mul_add, Nat.mul_one] at h2
  have h3 : d.nx * (d.nz * d.ny) = d.nx * d.ny * d.nz := by
    rw [Nat.mul_comm d.nz, Nat.mul_assoc]
  omega

/-- `getGlobalIndex` is injective on the index box. -/
theorem getGlobalIndex_inj (d : Dims) {i j k i' j' k' : Nat} (hi : i < d.nx) (hj : j < d.ny)
    (hi' : i' < d.nx) (hj' : j' < d.ny)
    (h : getGlobalIndex d i j k = getGlobalIndex d i' j' k') : (i, j, k) = (i', j', k') := by
  rw [← getIJK_getGlobalIndex d hi hj, ← getIJK_getGlobalIndex d hi' hj', h]

/-! ## Active maps -/

theorem globalToActive_length (act : List Int) (n : Nat) : (globalToActive act n).length = act.length := by
  induction act generalizing n with
  | nil => rfl
  | cons a as ih => simp only [globalToActive]; split <;> simp [ih]

theorem activeToGlobal_length (act : List Int) (g : Nat) : (activeToGlobal act g).length = numActive act := by
  induction act generalizing g with
  | nil => rfl
  | cons a as ih => simp only [activeToGlobal, numActive]; split <;> simp [ih]

/-- `m_nactive` counts the positive ACTNUM entries. -/
theorem numActive_eq_countP (act : List Int) : numActive act = act.countP (fun a => a > 0) := by
  induction act with
  | nil => rfl
  | cons a as ih =>
    simp only [numActive, List.countP_cons, ih]
    split <;> simp [*]

theorem numActive_le (act : List Int) : numActive act ≤ act.length := by
  rw [numActive_eq_countP]; exact List.countP_le_length

/-- Every entry of `m_active_to_global` is a valid global index at or after the offset. -/
theorem activeToGlobal_bounds (act : List Int) (g0 a : Nat) (g : Nat)
    (h : (activeToGlobal act g0)[a]? = some g) : g0 ≤ g ∧ g < g0 + act.length := by
  induction act generalizing g0 a with
  | nil => simp [activeToGlobal] at h
  | cons x xs ih =>
    simp only [activeToGlobal] at h
    split at h
    · cases a with
      | zero => simp at h; simp; omega
      | succ a => simp at h; have := ih _ _ h; simp; omega
    · have := ih _ _ h; simp; omega

/-- Active → global → active: for every active index `a < nactive` the global cell
`m_active_to_global[a]` has ACTNUM > 0 and `m_global_to_active` maps it back to `a`. -/
theorem active_roundtrip_aux (act : List Int) (n0 g0 a : Nat) (ha : a < numActive act) :
    ∃ idx, (activeToGlobal act g0)[a]? = some (g0 + idx) ∧
      (globalToActive act n0)[idx]? = some (some (n0 + a)) ∧
      ∃ v, act[idx]? = some v ∧ v > 0 := by
  induction act generalizing n0 g0 a with
  | nil => simp [numActive] at ha
  | cons x xs ih =>
    simp only [activeToGlobal, globalToActive, numActive] at ha ⊢
    by_cases hx : x > 0
    · simp only [hx, if_true] at ha ⊢
      cases a with
      | zero => exact ⟨0, by simp, by simp, x, by simp, hx⟩
      | succ a =>
        obtain ⟨idx, h1, h2, v, h3, h4⟩ := ih (n0 + 1) (g0 + 1) a (by omega)
        refine ⟨idx + 1, ?_, ?_, v, by simpa using h3, h4⟩
        · simp only [List.getElem?_cons_succ, h1]; congr 1; omega
        · simp only [List.getElem?_cons_succ, h2]; congr 2; omega
    · simp only [hx, if_false] at ha ⊢
      obtain ⟨idx, h1, h2, v, h3, h4⟩ := ih n0 (g0 + 1) a ha
      refine ⟨idx + 1, ?_, ?_, v, by simpa using h3, h4⟩
      · rw [h1]; congr 1; omega
      · simpa using h2

/-- Global → active → global: for every cell with ACTNUM > 0 there is an active index `a`
with `m_global_to_active[g] = a`, `a < nactive` and `m_active_to_global[a] = g`. -/
theorem global_roundtrip_aux (act : List Int) (n0 g0 idx : Nat) (v : Int)
    (hv : act[idx]? = some v) (hpos : v > 0) :
    ∃ a, a < numActive act ∧ (globalToActive act n0)[idx]? = some (some (n0 + a)) ∧
      (activeToGlobal act g0)[a]? = some (g0 + idx) := by
  induction act generalizing n0 g0 idx with
  | nil => simp at hv
  | cons x xs ih =>
    simp only [activeToGlobal, globalToActive, numActive]
    cases idx with
    | zero =>
      simp only [List.getElem?_cons_zero, Option.some.injEq] at hv
      subst hv
      simp only [hpos, if_true]
      exact ⟨0, by omega, by simp, by simp⟩
    | succ idx =>
      simp only [List.getElem?_cons_succ] at hv
      by_cases hx : x > 0
      · simp only [hx, if_true]
        obtain ⟨a, h0, h1, h2⟩ := ih (n0 + 1) (g0 + 1) idx hv
        refine ⟨a + 1, by omega, ?_, ?_⟩
        · simp only [List.getElem?_cons_succ, h1]; congr 2; omega
        · simp only [List.getElem?_cons_succ, h2]; congr 1; omega
      · simp only [hx, if_false]
        obtain ⟨a, h0, h1, h2⟩ := ih n0 (g0 + 1) idx hv
        refine ⟨a, h0, ?_, ?_⟩
        · simpa using h1
        · rw [h2]; congr 1; omega

/-- Inactive cells map to `-1` (`none`). -/
theorem globalToActive_inactive (act : List Int) (n0 idx : Nat) (v : Int)
    (hv : act[idx]? = some v) (hneg : ¬ v > 0) :
    (globalToActive act n0)[idx]? = some none := by
  induction act generalizing n0 idx with
  | nil => simp at hv
  | cons x xs ih =>
    simp only [globalToActive]
    cases idx with
    | zero =>
      simp only [List.getElem?_cons_zero, Option.some.injEq] at hv
      subst hv; simp [hneg]
    | succ idx =>
      simp only [List.getElem?_cons_succ] at hv
      split
      · simpa using ih _ _ hv
      · simpa using ih _ _ hv

/-- `m_active_to_global` is strictly increasing. -/
theorem activeToGlobal_sorted (act : List Int) (g0 : Nat) :
    (activeToGlobal act g0).Pairwise (· < ·) := by
  induction act generalizing g0 with
  | nil => simp [activeToGlobal]
  | cons x xs ih =>
    simp only [activeToGlobal]
    split
    · refine List.pairwise_cons.2 ⟨?_, ih _⟩
      intro b hb
      obtain ⟨a, ha⟩ := List.getElem?_of_mem hb
      have := activeToGlobal_bounds xs (g0 + 1) a b ha
      omega
    · exact ih _

/-! ### Statements for the grid object (`resetACTNUM act`, offsets 0) -/

theorem resetACTNUM_lengths (act : List Int) :
    (resetACTNUM act).g2a.length = act.length ∧
    (resetACTNUM act).a2g.length = (resetACTNUM act).nactive ∧
    (resetACTNUM act).nactive = act.countP (fun a => a > 0) ∧
    (resetACTNUM act).nactive ≤ act.length :=
  ⟨globalToActive_length _ _, activeToGlobal_length _ _, numActive_eq_countP _, numActive_le _⟩

/-- `activeIndex (getGlobalIndex(a)) = a` for every `a < nactive`, and that global cell is an
active, in-range cell. -/
theorem activeIndex_globalOfActive (act : List Int) {a : Nat} (ha : a < (resetACTNUM act).nactive) :
    ∃ g, globalOfActive (resetACTNUM act) a = some g ∧ g < act.length ∧
      activeIndex (resetACTNUM act) g = some a ∧ ∃ v, act[g]? = some v ∧ v > 0 := by
  obtain ⟨idx, h1, h2, v, h3, h4⟩ := active_roundtrip_aux act 0 0 a ha
  refine ⟨idx, by simpa [globalOfActive, resetACTNUM] using h1, ?_, ?_, v, h3, h4⟩
  · have := activeToGlobal_bounds act 0 a _ h1; omega
  · simp only [activeIndex, resetACTNUM, List.getD_eq_getElem?_getD]
    have : (globalToActive act 0)[idx]? = some (some a) := by simpa using h2
    rw [this]; rfl

/-- `getGlobalIndex(activeIndex(g)) = g` for every cell with ACTNUM > 0. -/
theorem globalOfActive_activeIndex (act : List Int) {g : Nat} {v : Int}
    (hv : act[g]? = some v) (hpos : v > 0) :
    ∃ a, activeIndex (resetACTNUM act) g = some a ∧ a < (resetACTNUM act).nactive ∧
      globalOfActive (resetACTNUM act) a = some g := by
  obtain ⟨a, h0, h1, h2⟩ := global_roundtrip_aux act 0 0 g v hv hpos
  refine ⟨a, ?_, h0, by simpa [globalOfActive, resetACTNUM] using h2⟩
  simp only [activeIndex, resetACTNUM, List.getD_eq_getElem?_getD]
  have : (globalToActive act 0)[g]? = some (some a) := by simpa using h1
  rw [this]; rfl

/-- `activeIndex` throws exactly on the cells with ACTNUM ≤ 0. -/
theorem activeIndex_inactive (act : List Int) {g : Nat} {v : Int}
    (hv : act[g]? = some v) (hneg : ¬ v > 0) : activeIndex (resetACTNUM act) g = none := by
  simp only [activeIndex, resetACTNUM, List.getD_eq_getElem?_getD]
  rw [globalToActive_inactive act 0 g v hv hneg]; rfl

/-- Active numbering is monotone: `a < b → global(a) < global(b)`. -/
theorem globalOfActive_strictMono (act : List Int) {a b ga gb : Nat} (hab : a < b)
    (ha : globalOfActive (resetACTNUM act) a = some ga)
    (hb : globalOfActive (resetACTNUM act) b = some gb) : ga < gb := by
  simp only [globalOfActive, resetACTNUM] at ha hb
  have hs := activeToGlobal_sorted act 0
  have hbl : b < (activeToGlobal act 0).length := by
    rcases Nat.lt_or_ge b (activeToGlobal act 0).length with h | h
    · exact h
    · rw [List.getElem?_eq_none h] at hb; cases hb
  have hal : a < (activeToGlobal act 0).length := by omega
  rw [List.getElem?_eq_getElem hal] at ha
  rw [List.getElem?_eq_getElem hbl] at hb
  cases ha; cases hb
  exact List.pairwise_iff_getElem.1 hs a b hal hbl hab

end OpmVerif.Grid
