import OpmVerif.Proofs.ActionSim

namespace OpmVerif.Act

/-- a plain bracket member: none of the characters with a special meaning inside brackets -/
def PlainMember (c : Char) : Prop := c ≠ ']' ∧ c ≠ '\\' ∧ c ≠ '-' ∧ c ≠ '['

def PlainSet (cs : List Char) : Prop :=
  cs ≠ [] ∧ (∀ c ∈ cs, PlainMember c) ∧ cs.head? ≠ some '!' ∧ cs.head? ≠ some '^'

/-- one round of the scanner on an ordinary member that is not followed by `-` -/
theorem brScan_cons (fn c : Char) (fuel : Nat) (p : List Char) (hc : c ≠ '\\')
    (hp : p.head? ≠ some '-') :
    brScan fn (fuel + 1) (c :: p) =
      if c = fn then .matched p
      else match p with
        | [] => .unterminated
        | c1 :: p1 => if c1 = ']' then .unmatched p1 else brScan fn fuel (c1 :: p1) := by
  rw [brScan]
  simp only [unescape, hc, if_false]
  cases p with
  | nil => simp
  | cons c1 p1 =>
    have h1 : c1 ≠ '-' := by
      intro h; apply hp; simp [h]
    cases p1 with
    | nil => simp [h1]
    | cons x p2 =>
      simp [h1]

theorem PlainMember.tail {c : Char} {cs : List Char} (h : ∀ x ∈ c :: cs, PlainMember x) :
    ∀ x ∈ cs, PlainMember x := fun x hx => h x (List.mem_cons_of_mem _ hx)

theorem plain_head_ne_minus (cs q : List Char) (h : ∀ x ∈ cs, PlainMember x) :
    (cs ++ ']' :: q).head? ≠ some '-' := by
  cases cs with
  | nil => simp
  | cons c cs =>
    have := (h c List.mem_cons_self).2.2.1
    simp [this]

/-- 1. the scanner over a non-empty run of plain members closed by `]` -/
theorem brScan_plain (fn : Char) (q : List Char) :
    ∀ (cs : List Char) (c : Char) (fuel : Nat), (∀ x ∈ c :: cs, PlainMember x) →
      cs.length + 1 ≤ fuel →
      (fn ∈ c :: cs → ∃ tl, (∀ x ∈ tl, PlainMember x) ∧
          brScan fn fuel (c :: cs ++ ']' :: q) = .matched (tl ++ ']' :: q)) ∧
      (fn ∉ c :: cs → brScan fn fuel (c :: cs ++ ']' :: q) = .unmatched q)
  | cs, c, 0, _, hf => by omega
  | cs, c, fuel + 1, h, hf => by
    have hc := h c List.mem_cons_self
    have htl := PlainMember.tail h
    rw [List.cons_append, brScan_cons fn c fuel _ hc.2.1 (plain_head_ne_minus cs q htl)]
    by_cases hcf : c = fn
    · subst hcf
      simp only [if_true]
      exact ⟨fun _ => ⟨cs, htl, rfl⟩, fun hn => absurd List.mem_cons_self hn⟩
    · simp only [hcf, if_false]
      cases cs with
      | nil =>
        simp only [List.nil_append, if_true]
        constructor
        · intro hm; simp at hm; exact absurd hm.symm hcf
        · intro _; trivial
      | cons c1 cs1 =>
        have hc1 := htl c1 List.mem_cons_self
        simp only [List.cons_append, hc1.1, if_false]
        have ih := brScan_plain fn q cs1 c1 fuel htl (by simp at hf; omega)
        rw [List.cons_append] at ih
        constructor
        · intro hm
          rcases List.mem_cons.1 hm with rfl | hm
          · exact absurd rfl hcf
          · exact ih.1 hm
        · intro hn
          exact ih.2 (fun hm => hn (List.mem_cons_of_mem _ hm))

/-- 2. skipping the rest of a bracket made of plain members -/
theorem skipBracket_plain (q : List Char) :
    ∀ (cs : List Char), (∀ x ∈ cs, PlainMember x) → skipBracket (cs ++ ']' :: q) = some q
  | [], _ => by rw [List.nil_append, skipBracket.eq_def]; simp
  | c :: cs, h => by
    have hc := h c List.mem_cons_self
    rw [List.cons_append, skipBracket.eq_def]
    simp only [hc.1, hc.2.1, if_false]
    exact skipBracket_plain q cs (PlainMember.tail h)

theorem bracket_len (cs q : List Char) :
    (cs ++ ']' :: q).length - q.length = cs.length + 1 := by
  simp only [List.length_append, List.length_cons]; omega

/-- `bracket` on a body that does not start with `!` / `^` -/
theorem bracket_pos (d c : Char) (p : List Char) (h1 : c ≠ '!') (h2 : c ≠ '^') :
    bracket d (c :: p) =
      (match brScan d ((c :: p).length + 1) (c :: p) with
       | .nomatch => .fail
       | .unterminated => .literal
       | .matched rest =>
         (match skipBracket rest with
          | none => .literal
          | some p' => .consumed ((c :: p).length - p'.length))
       | .unmatched _ => .fail) := by
  unfold bracket
  simp [h1, h2]
  generalize brScan d _ _ = r
  cases r with
  | matched rest => cases skipBracket rest <;> rfl
  | _ => rfl

/-- `bracket` on a negated body -/
theorem bracket_neg (d c : Char) (p : List Char) (h : c = '!' ∨ c = '^') :
    bracket d (c :: p) =
      (match brScan d (p.length + 1) p with
       | .nomatch => .fail
       | .unterminated => .literal
       | .matched rest =>
         (match skipBracket rest with
          | none => .literal
          | some _ => .fail)
       | .unmatched p' => .consumed ((c :: p).length - p'.length)) := by
  unfold bracket
  rcases h with rfl | rfl <;> simp
  all_goals
    generalize brScan d _ _ = r
    cases r with
    | matched rest => cases skipBracket rest <;> rfl
    | _ => rfl

/-- 3. a bracket expression of plain members accepts exactly its members -/
theorem bracket_plain (d : Char) (cs q : List Char) (h : PlainSet cs) :
    bracket d (cs ++ ']' :: q) = if d ∈ cs then .consumed (cs.length + 1) else .fail := by
  obtain ⟨hne, hall, hb, hc⟩ := h
  cases cs with
  | nil => exact absurd rfl hne
  | cons c cs =>
    have hb' : c ≠ '!' := by intro e; apply hb; simp [e]
    have hc' : c ≠ '^' := by intro e; apply hc; simp [e]
    have hs := brScan_plain d q cs c ((c :: cs ++ ']' :: q).length + 1) hall
      (by simp only [List.length_append, List.length_cons]; omega)
    rw [List.cons_append] at hs ⊢
    rw [bracket_pos d c _ hb' hc']
    by_cases hm : d ∈ c :: cs
    · obtain ⟨tl, htl, e⟩ := hs.1 hm
      rw [e]
      simp only [skipBracket_plain q tl htl, hm, if_true]
      rw [← List.cons_append, bracket_len]
    · rw [hs.2 hm]
      simp only [hm, if_false]

/-- 3'. the negated bracket expression -/
theorem bracket_plain_neg (d n : Char) (cs q : List Char) (hn : n = '!' ∨ n = '^') (hne : cs ≠ [])
    (hall : ∀ c ∈ cs, PlainMember c) :
    bracket d (n :: (cs ++ ']' :: q)) = if d ∈ cs then .fail else .consumed (cs.length + 2) := by
  cases cs with
  | nil => exact absurd rfl hne
  | cons c cs =>
    have hs := brScan_plain d q cs c ((c :: cs ++ ']' :: q).length + 1) hall
      (by simp only [List.length_append, List.length_cons]; omega)
    rw [bracket_neg d n _ hn]
    by_cases hm : d ∈ c :: cs
    · obtain ⟨tl, htl, e⟩ := hs.1 hm
      rw [e]
      simp only [skipBracket_plain q tl htl, hm, if_true]
    · rw [hs.2 hm]
      simp only [hm, if_false]
      congr 1
      simp only [List.length_append, List.length_cons]; omega

/-- 4. the skipping argument of `globK` -/
theorem globK_skip : ∀ (a p s : List Char) (k : Nat), a.length = k → globK k (a ++ p) s = globK 0 p s
  | [], p, s, k, h => by subst h; rfl
  | x :: a, p, s, 0, h => by simp at h
  | x :: a, p, s, k + 1, h => by
    rw [List.cons_append, globK]
    exact globK_skip a p s k (by simpa using h)

theorem globK_bracket (p : List Char) (d : Char) (t : List Char) :
    globK 0 ('[' :: p) (d :: t) =
      (match bracket d p with
       | .fail => false
       | .literal => d = '[' && globK 0 p t
       | .consumed k => globK k p t) := by
  rw [globK.eq_def]
  simp
  cases bracket d p <;> rfl

/-- 5. MAIN: `[abc]q` against `d :: t` -/
theorem glob_bracket_set (cs q : List Char) (d : Char) (t : List Char) (h : PlainSet cs) :
    globMatch ('[' :: (cs ++ ']' :: q)) (d :: t) = (decide (d ∈ cs) && globMatch q t) := by
  unfold globMatch
  rw [globK_bracket, bracket_plain d cs q h]
  by_cases hm : d ∈ cs
  · simp only [hm, if_true, decide_true, Bool.true_and]
    have : cs ++ ']' :: q = (cs ++ [']']) ++ q := by simp
    rw [this]
    exact globK_skip (cs ++ [']']) q t _ (by simp)
  · simp only [hm, if_false, decide_false, Bool.false_and]

theorem glob_bracket_set_nil (cs q : List Char) :
    globMatch ('[' :: (cs ++ ']' :: q)) [] = false := by
  unfold globMatch
  rw [globK.eq_def]
  simp

/-- 6. the negated form `[!abc]q` / `[^abc]q` -/
theorem glob_bracket_negset' (n : Char) (hn : n = '!' ∨ n = '^') (cs q : List Char) (d : Char)
    (t : List Char) (hne : cs ≠ []) (hall : ∀ c ∈ cs, PlainMember c) :
    globMatch ('[' :: n :: (cs ++ ']' :: q)) (d :: t) = (decide (d ∉ cs) && globMatch q t) := by
  unfold globMatch
  rw [globK_bracket, bracket_plain_neg d n cs q hn hne hall]
  by_cases hm : d ∈ cs
  · simp [hm]
  · simp only [hm, if_false, not_false_eq_true, decide_true, Bool.true_and]
    have : n :: (cs ++ ']' :: q) = (n :: (cs ++ [']'])) ++ q := by simp
    rw [this]
    exact globK_skip (n :: (cs ++ [']'])) q t _ (by simp)

theorem glob_bracket_negset (cs q : List Char) (d : Char) (t : List Char) (hne : cs ≠ [])
    (hall : ∀ c ∈ cs, PlainMember c) :
    globMatch ('[' :: '!' :: (cs ++ ']' :: q)) (d :: t) = (decide (d ∉ cs) && globMatch q t) :=
  glob_bracket_negset' '!' (Or.inl rfl) cs q d t hne hall

theorem glob_bracket_negset_caret (cs q : List Char) (d : Char) (t : List Char) (hne : cs ≠ [])
    (hall : ∀ c ∈ cs, PlainMember c) :
    globMatch ('[' :: '^' :: (cs ++ ']' :: q)) (d :: t) = (decide (d ∉ cs) && globMatch q t) :=
  glob_bracket_negset' '^' (Or.inr rfl) cs q d t hne hall

instance (c : Char) : Decidable (PlainMember c) := by unfold PlainMember; infer_instance
instance (cs : List Char) : Decidable (PlainSet cs) := by unfold PlainSet; infer_instance

example : PlainSet "12".toList := by decide +kernel
example : globMatch "P[12]*".toList "P2A".toList = true := by decide +kernel
example : globMatch "P[12]*".toList "P3".toList = false := by decide +kernel
example : globMatch "P[!12]*".toList "P3".toList = true := by decide +kernel

end OpmVerif.Act
