/-
  The ACTIONX condition parser (`Model/Action.lean`) inverts the printer of the documented grammar
  (AND binds tighter than OR, parentheses), is monotone in its fuel and total on every token list
  with the fuel `Parser::parse` of the model uses (`4 * length + 4`).

  Technique as for the UDQ parser (`Proofs/UdqParse.lean`, `Proofs/UdqFuel.lean`): an "eventually"
  judgement with one rule per branch of each C++ function, induction over the (nested) tree with
  the rank/rest invariant, then fuel monotonicity + sufficiency to replace "from some fuel on" by
  the model's own fuel.
-/
import OpmVerif.Model.Action

namespace OpmVerif.Act

/-- result of the AND loop: `inr ()` = out of fuel, `inl none` = error -/
abbrev LRes := Option (List Cond × List Tok) ⊕ Unit

/-! ### one-step unfoldings -/

theorem parseCmp_succ (n : Nat) (ts : List Tok) : parseCmp (n+1) ts = (match ts with
    | [] => .err
    | t :: r =>
      if t.ty = .lp then
        match parseOr n r with
        | .fuel => .fuel
        | .err => .err
        | .ok inner rest =>
          match rest with
          | c :: r2 => if c.ty = .rp then .ok inner r2 else .err
          | [] => .err
      else
        match parseLeft ts with
        | none => .err
        | some (l, rest) =>
          match rest with
          | [] => .err
          | o :: r2 =>
            match o.ty with
            | .cmp op =>
              match parseRight r2 with
              | none => .err
              | some (rt, rest2) => .ok (.cmp op l rt) rest2
            | _ => .err) := rfl

theorem parseAndLoop_succ (n : Nat) (acc : List Cond) (ts : List Tok) : parseAndLoop (n+1) acc ts = (match ts with
    | t :: r =>
      if t.ty = .and then
        match parseCmp n r with
        | .fuel => .inr ()
        | .err => .inl none
        | .ok c rest => parseAndLoop n (acc ++ [c]) rest
      else .inl (some (acc, ts))
    | [] => .inl (some (acc, []))) := rfl

theorem parseAnd_succ (n : Nat) (ts : List Tok) : parseAnd (n+1) ts = (match parseCmp n ts with
    | .fuel => .fuel
    | .err => .err
    | .ok left rest =>
      match rest with
      | t :: _ =>
        if t.ty = .and then
          match parseAndLoop n [] rest with
          | .inr _ => .fuel
          | .inl none => .err
          | .inl (some (cs, rest2)) =>
            match cs with
            | c2 :: more => .ok (.and left c2 more) rest2
            | [] => .err
        else .ok left rest
      | [] => .ok left []) := rfl

theorem parseOr_succ (n : Nat) (ts : List Tok) : parseOr (n+1) ts = (match parseAnd n ts with
    | .fuel => .fuel
    | .err => .err
    | .ok left rest =>
      match rest with
      | t :: r =>
        if t.ty = .or then
          match parseOr n r with
          | .fuel => .fuel
          | .err => .err
          | .ok right rest2 => .ok (.or left right) rest2
        else .ok left rest
      | [] => .ok left []) := rfl

/-! ### fuel monotonicity -/

structure MonoAt (n : Nat) : Prop where
  cmp : ∀ ts, parseCmp n ts ≠ .fuel → parseCmp (n+1) ts = parseCmp n ts
  andLoop : ∀ acc ts, parseAndLoop n acc ts ≠ .inr () → parseAndLoop (n+1) acc ts = parseAndLoop n acc ts
  and : ∀ ts, parseAnd n ts ≠ .fuel → parseAnd (n+1) ts = parseAnd n ts
  or : ∀ ts, parseOr n ts ≠ .fuel → parseOr (n+1) ts = parseOr n ts

theorem monoAt_zero : MonoAt 0 :=
  ⟨fun _ h => absurd rfl h, fun _ _ h => absurd rfl h, fun _ h => absurd rfl h, fun _ h => absurd rfl h⟩

theorem ok_ne_fuel {c : Cond} {r : List Tok} : PRes.ok c r ≠ PRes.fuel := by intro h; cases h
theorem err_ne_fuel : PRes.err ≠ PRes.fuel := by intro h; cases h

theorem mono_cmp {n : Nat} (ih : MonoAt n) (ts : List Tok) (h : parseCmp (n+1) ts ≠ .fuel) :
    parseCmp (n+1+1) ts = parseCmp (n+1) ts := by
  rw [parseCmp_succ (n+1), parseCmp_succ n]
  rw [parseCmp_succ n] at h
  cases ts with
  | nil => rfl
  | cons t r =>
    simp only [] at h ⊢
    by_cases h1 : t.ty = .lp
    · simp only [h1, if_true] at h ⊢
      cases hs : parseOr n r with
      | fuel => rw [hs] at h; exact absurd rfl h
      | err => rw [ih.or r (by rw [hs]; exact err_ne_fuel), hs]
      | ok inner rest => rw [ih.or r (by rw [hs]; exact ok_ne_fuel), hs]
    · simp only [h1, if_false]

theorem mono_andLoop {n : Nat} (ih : MonoAt n) (acc : List Cond) (ts : List Tok)
    (h : parseAndLoop (n+1) acc ts ≠ .inr ()) : parseAndLoop (n+1+1) acc ts = parseAndLoop (n+1) acc ts := by
  rw [parseAndLoop_succ (n+1), parseAndLoop_succ n]
  rw [parseAndLoop_succ n] at h
  cases ts with
  | nil => rfl
  | cons t r =>
    simp only [] at h ⊢
    by_cases h1 : t.ty = .and
    · simp only [h1, if_true] at h ⊢
      cases hs : parseCmp n r with
      | fuel => rw [hs] at h; exact absurd rfl h
      | err => rw [ih.cmp r (by rw [hs]; exact err_ne_fuel), hs]
      | ok c rest =>
        rw [ih.cmp r (by rw [hs]; exact ok_ne_fuel), hs]
        rw [hs] at h
        exact ih.andLoop _ _ h
    · simp only [h1, if_false]

theorem mono_and {n : Nat} (ih : MonoAt n) (ts : List Tok) (h : parseAnd (n+1) ts ≠ .fuel) :
    parseAnd (n+1+1) ts = parseAnd (n+1) ts := by
  rw [parseAnd_succ (n+1), parseAnd_succ n]
  rw [parseAnd_succ n] at h
  cases hs : parseCmp n ts with
  | fuel => rw [hs] at h; exact absurd rfl h
  | err => rw [ih.cmp ts (by rw [hs]; exact err_ne_fuel), hs]
  | ok left rest =>
    rw [ih.cmp ts (by rw [hs]; exact ok_ne_fuel), hs]
    rw [hs] at h
    simp only [] at h ⊢
    cases rest with
    | nil => rfl
    | cons t r =>
      simp only [] at h ⊢
      by_cases h1 : t.ty = .and
      · simp only [h1, if_true] at h ⊢
        cases hl : parseAndLoop n [] (t :: r) with
        | inr u => rw [hl] at h; exact absurd rfl h
        | inl o => rw [ih.andLoop [] (t :: r) (by rw [hl]; intro hh; cases hh), hl]
      · simp only [h1, if_false]

theorem mono_or {n : Nat} (ih : MonoAt n) (ts : List Tok) (h : parseOr (n+1) ts ≠ .fuel) :
    parseOr (n+1+1) ts = parseOr (n+1) ts := by
  rw [parseOr_succ (n+1), parseOr_succ n]
  rw [parseOr_succ n] at h
  cases hs : parseAnd n ts with
  | fuel => rw [hs] at h; exact absurd rfl h
  | err => rw [ih.and ts (by rw [hs]; exact err_ne_fuel), hs]
  | ok left rest =>
    rw [ih.and ts (by rw [hs]; exact ok_ne_fuel), hs]
    rw [hs] at h
    simp only [] at h ⊢
    cases rest with
    | nil => rfl
    | cons t r =>
      simp only [] at h ⊢
      by_cases h1 : t.ty = .or
      · simp only [h1, if_true] at h ⊢
        cases hr : parseOr n r with
        | fuel => rw [hr] at h; exact absurd rfl h
        | err => rw [ih.or r (by rw [hr]; exact err_ne_fuel), hr]
        | ok right rest2 => rw [ih.or r (by rw [hr]; exact ok_ne_fuel), hr]
      · simp only [h1, if_false]

theorem monoAt : ∀ n, MonoAt n
  | 0 => monoAt_zero
  | n + 1 =>
    have ih := monoAt n
    ⟨mono_cmp ih, mono_andLoop ih, mono_and ih, mono_or ih⟩

/-- more fuel never changes an answer of `parse_or` -/
theorem parseOr_mono {n m : Nat} {ts : List Tok} {r : PRes} (h : parseOr n ts = r) (hr : r ≠ .fuel)
    (hnm : n ≤ m) : parseOr m ts = r := by
  induction hnm with
  | refl => exact h
  | step _ ih => rw [(monoAt _).or ts (by rw [ih]; exact hr), ih]

/-! ### sufficiency: `4 * length + k` units are enough, on every token list -/

def NFp (r : PRes) (len : Nat) : Prop := r = .err ∨ ∃ c rest, r = .ok c rest ∧ rest.length ≤ len
def NFl (r : LRes) (len : Nat) : Prop := r = .inl none ∨ ∃ cs rest, r = .inl (some (cs, rest)) ∧ rest.length ≤ len

theorem NFp.mono {r : PRes} {a b : Nat} (h : NFp r a) (hab : a ≤ b) : NFp r b := by
  rcases h with h | ⟨c, rest, h1, h2⟩
  · exact Or.inl h
  · exact Or.inr ⟨c, rest, h1, by omega⟩

theorem NFl.mono {r : LRes} {a b : Nat} (h : NFl r a) (hab : a ≤ b) : NFl r b := by
  rcases h with h | ⟨c, rest, h1, h2⟩
  · exact Or.inl h
  · exact Or.inr ⟨c, rest, h1, by omega⟩

theorem takeArgs_cons (t : Tok) (r : List Tok) : takeArgs (t :: r) =
    if t.ty = .expr ∨ t.ty = .number then (t.text :: (takeArgs r).1, (takeArgs r).2) else ([], t :: r) := by
  show (if t.ty = .expr ∨ t.ty = .number then
      (match takeArgs r with | (as, rest) => (t.text :: as, rest)) else ([], t :: r)) = _
  cases takeArgs r; rfl

theorem parseLeft_cons (t : Tok) (r : List Tok) : parseLeft (t :: r) =
    if t.ty = .expr then some (.expr t.text t.func ((takeArgs r).1.map stripQuotes), (takeArgs r).2) else none := by
  show (if t.ty = .expr then
      (match takeArgs r with | (as, rest) => some (Leaf.expr t.text t.func (as.map stripQuotes), rest)) else none) = _
  cases takeArgs r; rfl

theorem parseRight_cons (t : Tok) (r : List Tok) : parseRight (t :: r) =
    if t.ty = .number then some (.num t.bits, r)
    else if t.ty = .expr then some (.expr t.text 0 ((takeArgs r).1.map stripQuotes), (takeArgs r).2) else none := by
  show (if t.ty = .number then some (Leaf.num t.bits, r)
    else if t.ty = .expr then
      (match takeArgs r with | (as, rest) => some (Leaf.expr t.text 0 (as.map stripQuotes), rest)) else none) = _
  cases takeArgs r; rfl

theorem takeArgs_length : ∀ ts : List Tok, (takeArgs ts).2.length ≤ ts.length
  | [] => by simp [takeArgs]
  | t :: r => by
    have ih := takeArgs_length r
    rw [takeArgs_cons]
    split
    · simp only [List.length_cons]; omega
    · simp

theorem parseLeft_length {ts : List Tok} {l : Leaf} {rest : List Tok} (h : parseLeft ts = some (l, rest)) :
    rest.length + 1 ≤ ts.length := by
  cases ts with
  | nil => cases h
  | cons t r =>
    rw [parseLeft_cons] at h
    by_cases ht : t.ty = .expr
    · simp only [ht, if_true, Option.some.injEq, Prod.mk.injEq] at h
      have := takeArgs_length r
      rw [h.2] at this
      simp only [List.length_cons]; omega
    · simp only [ht, if_false] at h; cases h

theorem parseRight_length {ts : List Tok} {l : Leaf} {rest : List Tok} (h : parseRight ts = some (l, rest)) :
    rest.length + 1 ≤ ts.length := by
  cases ts with
  | nil => cases h
  | cons t r =>
    rw [parseRight_cons] at h
    by_cases hn : t.ty = .number
    · simp only [hn, if_true, Option.some.injEq, Prod.mk.injEq] at h
      rw [← h.2]; simp
    · simp only [hn, if_false] at h
      by_cases ht : t.ty = .expr
      · simp only [ht, if_true, Option.some.injEq, Prod.mk.injEq] at h
        have := takeArgs_length r
        rw [h.2] at this
        simp only [List.length_cons]; omega
      · simp only [ht, if_false] at h; cases h

structure TotalAt (n : Nat) : Prop where
  cmp : ∀ ts, 4 * ts.length + 1 ≤ n → NFp (parseCmp n ts) ts.length
  andLoop : ∀ acc ts, 4 * ts.length + 1 ≤ n → NFl (parseAndLoop n acc ts) ts.length
  and : ∀ ts, 4 * ts.length + 2 ≤ n → NFp (parseAnd n ts) ts.length
  or : ∀ ts, 4 * ts.length + 3 ≤ n → NFp (parseOr n ts) ts.length

theorem totalAt_zero : TotalAt 0 :=
  ⟨fun _ h => by omega, fun _ _ h => by omega, fun _ h => by omega, fun _ h => by omega⟩

/-- the comparison branch of `parse_cmp` (no recursion) -/
theorem nf_cmpLeaf (ts : List Tok) :
    NFp (match parseLeft ts with
      | none => PRes.err
      | some (l, rest) =>
        match rest with
        | [] => .err
        | o :: r2 =>
          match o.ty with
          | .cmp op =>
            match parseRight r2 with
            | none => .err
            | some (rt, rest2) => .ok (.cmp op l rt) rest2
          | _ => .err) ts.length := by
  cases hl : parseLeft ts with
  | none => exact Or.inl rfl
  | some p =>
    obtain ⟨l, rest⟩ := p
    have h1 := parseLeft_length hl
    simp only []
    cases rest with
    | nil => exact Or.inl rfl
    | cons o r2 =>
      simp only [List.length_cons] at h1 ⊢
      split
      · cases hr : parseRight r2 with
        | none => exact Or.inl rfl
        | some q =>
          obtain ⟨rt, rest2⟩ := q
          have h2 := parseRight_length hr
          exact Or.inr ⟨_, _, rfl, by omega⟩
      · exact Or.inl rfl

theorem total_cmp {n : Nat} (ih : TotalAt n) (ts : List Tok) (h : 4 * ts.length + 1 ≤ n + 1) :
    NFp (parseCmp (n+1) ts) ts.length := by
  rw [parseCmp_succ]
  cases ts with
  | nil => exact Or.inl rfl
  | cons t r =>
    simp only []
    by_cases h1 : t.ty = .lp
    · simp only [h1, if_true]
      simp only [List.length_cons] at h ⊢
      rcases ih.or r (by omega) with e | ⟨c, rest, e, hl⟩
      · rw [e]; exact Or.inl rfl
      · rw [e]
        simp only []
        cases rest with
        | nil => exact Or.inl rfl
        | cons c2 r2 =>
          simp only []
          split
          · exact Or.inr ⟨_, _, rfl, by simp only [List.length_cons] at hl; omega⟩
          · exact Or.inl rfl
    · simp only [h1, if_false]
      exact nf_cmpLeaf (t :: r)

theorem total_andLoop {n : Nat} (ih : TotalAt n) (acc : List Cond) (ts : List Tok)
    (h : 4 * ts.length + 1 ≤ n + 1) : NFl (parseAndLoop (n+1) acc ts) ts.length := by
  rw [parseAndLoop_succ]
  cases ts with
  | nil => exact Or.inr ⟨_, _, rfl, by simp⟩
  | cons t r =>
    simp only []
    by_cases h1 : t.ty = .and
    · simp only [h1, if_true]
      simp only [List.length_cons] at h ⊢
      rcases ih.cmp r (by omega) with e | ⟨c, rest, e, hl⟩
      · rw [e]; exact Or.inl rfl
      · rw [e]
        exact (ih.andLoop _ rest (by omega)).mono (by omega)
    · simp only [h1, if_false]
      exact Or.inr ⟨_, _, rfl, by simp⟩

theorem total_and {n : Nat} (ih : TotalAt n) (ts : List Tok) (h : 4 * ts.length + 2 ≤ n + 1) :
    NFp (parseAnd (n+1) ts) ts.length := by
  rw [parseAnd_succ]
  rcases ih.cmp ts (by omega) with e | ⟨left, rest, e, hl⟩
  · rw [e]; exact Or.inl rfl
  · rw [e]
    simp only []
    cases rest with
    | nil => exact Or.inr ⟨_, _, rfl, by simp⟩
    | cons t r =>
      simp only []
      by_cases h1 : t.ty = .and
      · simp only [h1, if_true]
        rcases ih.andLoop [] (t :: r) (by omega) with e2 | ⟨cs, rest2, e2, hl2⟩
        · rw [e2]; exact Or.inl rfl
        · rw [e2]
          simp only []
          cases cs with
          | nil => exact Or.inl rfl
          | cons c2 more => exact Or.inr ⟨_, _, rfl, by omega⟩
      · simp only [h1, if_false]
        exact Or.inr ⟨_, _, rfl, hl⟩

theorem total_or {n : Nat} (ih : TotalAt n) (ts : List Tok) (h : 4 * ts.length + 3 ≤ n + 1) :
    NFp (parseOr (n+1) ts) ts.length := by
  rw [parseOr_succ]
  rcases ih.and ts (by omega) with e | ⟨left, rest, e, hl⟩
  · rw [e]; exact Or.inl rfl
  · rw [e]
    simp only []
    cases rest with
    | nil => exact Or.inr ⟨_, _, rfl, by simp⟩
    | cons t r =>
      simp only []
      by_cases h1 : t.ty = .or
      · simp only [h1, if_true]
        simp only [List.length_cons] at hl
        rcases ih.or r (by omega) with e2 | ⟨right, rest2, e2, hl2⟩
        · rw [e2]; exact Or.inl rfl
        · rw [e2]; exact Or.inr ⟨_, _, rfl, by omega⟩
      · simp only [h1, if_false]
        exact Or.inr ⟨_, _, rfl, hl⟩

theorem totalAt : ∀ n, TotalAt n
  | 0 => totalAt_zero
  | n + 1 =>
    have ih := totalAt n
    ⟨total_cmp ih, total_andLoop ih, total_and ih, total_or ih⟩

/-- with the fuel of `parse`, `parse_or` answers on EVERY token list: an error or a tree and a
remainder — never the out-of-fuel outcome -/
theorem parseOr_total (ts : List Tok) : NFp (parseOr (4 * ts.length + 4) ts) ts.length :=
  (totalAt _).or ts (by omega)

theorem parse_ne_fuel (ts : List Tok) : (match parse ts with | .fuel => true | _ => false) = false := by
  unfold parse
  cases ts with
  | nil => rfl
  | cons t r =>
    simp only []
    rcases parseOr_total (t :: r) with e | ⟨c, rest, e, _⟩
    · rw [e]
    · rw [e]; cases rest <;> rfl

/-! ### "eventually" judgement -/

def Ev {ρ : Type} (g : Nat → ρ) (r : ρ) : Prop := ∃ f0, ∀ f, f0 ≤ f → g f = r

theorem Ev.step0 {ρ : Type} {g : Nat → ρ} {r : ρ} (h : ∀ n, g (n+1) = r) : Ev g r :=
  ⟨1, fun f hf => by obtain ⟨k, rfl⟩ : ∃ k, f = k + 1 := ⟨f - 1, by omega⟩; exact h k⟩

theorem Ev.step1 {ρ σ : Type} {g : Nat → ρ} {g1 : Nat → σ} {r1 : σ} {r : ρ} (e1 : Ev g1 r1)
    (h : ∀ n, g1 n = r1 → g (n+1) = r) : Ev g r := by
  obtain ⟨f1, h1⟩ := e1
  refine ⟨f1 + 1, fun f hf => ?_⟩
  obtain ⟨k, rfl⟩ : ∃ k, f = k + 1 := ⟨f - 1, by omega⟩
  exact h k (h1 k (by omega))

theorem Ev.step2 {ρ σ τ : Type} {g : Nat → ρ} {g1 : Nat → σ} {g2 : Nat → τ} {r1 : σ} {r2 : τ} {r : ρ}
    (e1 : Ev g1 r1) (e2 : Ev g2 r2) (h : ∀ n, g1 n = r1 → g2 n = r2 → g (n+1) = r) : Ev g r := by
  obtain ⟨f1, h1⟩ := e1
  obtain ⟨f2, h2⟩ := e2
  refine ⟨max f1 f2 + 1, fun f hf => ?_⟩
  obtain ⟨k, rfl⟩ : ∃ k, f = k + 1 := ⟨f - 1, by omega⟩
  exact h k (h1 k (by omega)) (h2 k (by omega))

/-- `g (n+1)` continues as `g2 n` once `g1 n` has its final answer -/
theorem Ev.stepTo {ρ σ : Type} {g g2 : Nat → ρ} {g1 : Nat → σ} {r1 : σ} {r : ρ}
    (e1 : Ev g1 r1) (h : ∀ n, g1 n = r1 → g (n+1) = g2 n) (e2 : Ev g2 r) : Ev g r := by
  obtain ⟨f1, h1⟩ := e1
  obtain ⟨f2, h2⟩ := e2
  refine ⟨max f1 f2 + 1, fun f hf => ?_⟩
  obtain ⟨k, rfl⟩ : ∃ k, f = k + 1 := ⟨f - 1, by omega⟩
  rw [h k (h1 k (by omega))]
  exact h2 k (by omega)

/-! ### leaves -/

/-- the next token does not continue an argument list -/
def notArg : List Tok → Prop
  | [] => True
  | t :: _ => t.ty ≠ .expr ∧ t.ty ≠ .number

theorem takeArgs_args (args : List String) (rest : List Tok) (h : notArg rest) :
    takeArgs (args.map argTok ++ rest) = (args, rest) := by
  induction args with
  | nil =>
    cases rest with
    | nil => rfl
    | cons t r =>
      have h' : t.ty ≠ .expr ∧ t.ty ≠ .number := h
      simp [takeArgs_cons, h'.1, h'.2]
  | cons a as ih =>
    simp only [List.map_cons, List.cons_append]
    rw [takeArgs_cons, ih]
    simp [argTok]

theorem map_strip {args : List String} (h : plainArgs args) : args.map stripQuotes = args := by
  induction args with
  | nil => rfl
  | cons a as ih =>
    simp only [List.map_cons]
    rw [h a List.mem_cons_self, ih (fun b hb => h b (List.mem_cons_of_mem _ hb))]

theorem parseLeft_render (f : String) (ft : Nat) (args : List String) (rest : List Tok)
    (hp : plainArgs args) (hr : notArg rest) :
    parseLeft ((Leaf.expr f ft args).render ++ rest) = some (.expr f ft args, rest) := by
  simp only [Leaf.render, List.cons_append, parseLeft_cons, if_true, takeArgs_args args rest hr, map_strip hp]

theorem parseRight_render_num (b : UInt64) (rest : List Tok) :
    parseRight ((Leaf.num b).render ++ rest) = some (.num b, rest) := by
  simp [Leaf.render, parseRight_cons]

theorem parseRight_render_expr (f : String) (args : List String) (rest : List Tok)
    (hp : plainArgs args) (hr : notArg rest) :
    parseRight ((Leaf.expr f 0 args).render ++ rest) = some (.expr f 0 args, rest) := by
  simp [Leaf.render, parseRight_cons, takeArgs_args args rest hr, map_strip hp]

/-! ### what may follow a condition printed at rank `lvl` -/

def allowed (lvl : Nat) (t : TT) : Prop :=
  t = .rp ∨ (1 ≤ lvl ∧ t = .or) ∨ (2 ≤ lvl ∧ t = .and)

def okRest (lvl : Nat) : List Tok → Prop
  | [] => True
  | t :: _ => allowed lvl t.ty

theorem okRest_mono {a b : Nat} (h : a ≤ b) {rest : List Tok} (o : okRest a rest) : okRest b rest := by
  cases rest with
  | nil => trivial
  | cons t r =>
    simp only [okRest, allowed] at o ⊢
    rcases o with o | ⟨h1, o⟩ | ⟨h1, o⟩
    · exact Or.inl o
    · exact Or.inr (Or.inl ⟨by omega, o⟩)
    · exact Or.inr (Or.inr ⟨by omega, o⟩)

theorem okRest_notArg {lvl : Nat} {rest : List Tok} (o : okRest lvl rest) : notArg rest := by
  cases rest with
  | nil => trivial
  | cons t r =>
    simp only [okRest, allowed] at o
    simp only [notArg]
    rcases o with o | ⟨_, o⟩ | ⟨_, o⟩ <;> rw [o] <;> exact ⟨(by intro h; cases h), (by intro h; cases h)⟩

/-- the first remaining token is not of class `k` -/
def headNot (k : TT) : List Tok → Prop
  | [] => True
  | t :: _ => t.ty ≠ k

theorem okRest_headNot {lvl : Nat} {rest : List Tok} (o : okRest lvl rest) {k : TT} (hk : ¬ allowed lvl k) :
    headNot k rest := by
  cases rest with
  | nil => trivial
  | cons t r => exact fun h => hk (h ▸ o)

def parseAt (lvl : Nat) : Nat → List Tok → PRes :=
  match lvl with
  | 0 => parseOr
  | 1 => parseAnd
  | _ => parseCmp

/-! ### big-step rules -/

theorem ev_and_none {ts rest : List Tok} {c : Cond} (e : Ev (fun f => parseCmp f ts) (.ok c rest))
    (h : headNot .and rest) : Ev (fun f => parseAnd f ts) (.ok c rest) :=
  Ev.step1 e (fun n hn => by
    rw [parseAnd_succ, hn]
    cases rest with
    | nil => rfl
    | cons t r =>
      have : t.ty ≠ .and := h
      simp only [this, if_false])

theorem ev_or_none {ts rest : List Tok} {c : Cond} (e : Ev (fun f => parseAnd f ts) (.ok c rest))
    (h : headNot .or rest) : Ev (fun f => parseOr f ts) (.ok c rest) :=
  Ev.step1 e (fun n hn => by
    rw [parseOr_succ, hn]
    cases rest with
    | nil => rfl
    | cons t r =>
      have : t.ty ≠ .or := h
      simp only [this, if_false])

theorem ev_or_op {ts r rest2 : List Tok} {t : Tok} {a b : Cond}
    (e1 : Ev (fun f => parseAnd f ts) (.ok a (t :: r))) (ht : t.ty = .or)
    (e2 : Ev (fun f => parseOr f r) (.ok b rest2)) :
    Ev (fun f => parseOr f ts) (.ok (.or a b) rest2) :=
  Ev.step2 e1 e2 (fun n h1 h2 => by
    rw [parseOr_succ, h1]
    simp only [ht, if_true, h2])

theorem ev_paren {t c2 : Tok} {r r2 : List Tok} {inner : Cond} (h1 : t.ty = .lp) (h2 : c2.ty = .rp)
    (e : Ev (fun f => parseOr f r) (.ok inner (c2 :: r2))) :
    Ev (fun f => parseCmp f (t :: r)) (.ok inner r2) :=
  Ev.step1 e (fun n hn => by
    rw [parseCmp_succ]
    simp only [h1, if_true, hn, h2])

theorem ev_and_op {ts rest rest2 : List Tok} {t : Tok} {a c2 : Cond} {more : List Cond}
    (e1 : Ev (fun f => parseCmp f ts) (.ok a (t :: rest))) (ht : t.ty = .and)
    (e2 : Ev (fun f => parseAndLoop f [] (t :: rest)) (.inl (some (c2 :: more, rest2)))) :
    Ev (fun f => parseAnd f ts) (.ok (.and a c2 more) rest2) :=
  Ev.step2 e1 e2 (fun n h1 h2 => by
    rw [parseAnd_succ, h1]
    simp only [ht, if_true, h2])

theorem ev_loop_exit (acc : List Cond) {rest : List Tok} (h : headNot .and rest) :
    Ev (fun f => parseAndLoop f acc rest) (.inl (some (acc, rest))) :=
  Ev.step0 (fun n => by
    rw [parseAndLoop_succ]
    cases rest with
    | nil => rfl
    | cons t r =>
      have : t.ty ≠ .and := h
      simp only [this, if_false])

theorem ev_loop_step {acc : List Cond} {t : Tok} {r rest : List Tok} {c : Cond} {res : LRes}
    (ht : t.ty = .and) (e1 : Ev (fun f => parseCmp f r) (.ok c rest))
    (e2 : Ev (fun f => parseAndLoop f (acc ++ [c]) rest) res) :
    Ev (fun f => parseAndLoop f acc (t :: r)) res :=
  Ev.stepTo e1 (fun n hn => by
    rw [parseAndLoop_succ]
    simp only [ht, if_true, hn]) e2

/-! ### facts about the printer -/

theorem lp_ty : lpT.ty = .lp := rfl
theorem rp_ty : rpT.ty = .rp := rfl
theorem and_ty : andT.ty = .and := rfl
theorem or_ty : orT.ty = .or := rfl

theorem allowed_rp (lvl : Nat) : allowed lvl .rp := Or.inl rfl

theorem level_le (c : Cond) : c.level ≤ 2 := by cases c <;> simp [Cond.level]

/-! ### the parser inverts the printer -/

/-- rank-`lvl` parser on the rank-`lvl` print-out of `c` returns `c` and stops in front of anything
that may follow a rank-`lvl` condition -/
def P (c : Cond) : Prop := ∀ lvl rest, lvl ≤ 2 → okRest lvl rest →
  Ev (fun f => parseAt lvl f (renderAt lvl c ++ rest)) (.ok c rest)

/-- the AND loop on the printed further operands appends exactly these operands -/
def PL (cs : List Cond) : Prop := ∀ acc rest, okRest 1 rest →
  Ev (fun f => parseAndLoop f acc (renderBody.renderTail cs ++ rest)) (.inl (some (acc ++ cs, rest)))

/-- the body (no outer parentheses) parsed at the tree's own rank -/
def Body (c : Cond) : Prop := ∀ rest, okRest c.level rest →
  Ev (fun f => parseAt c.level f (renderBody c ++ rest)) (.ok c rest)

theorem lift_one {ts rest : List Tok} {c : Cond} : ∀ (j : Nat), j < 2 →
    Ev (fun f => parseAt (j+1) f ts) (.ok c rest) → okRest j rest →
    Ev (fun f => parseAt j f ts) (.ok c rest)
  | 0, _, e, o => ev_or_none e (okRest_headNot o (by simp [allowed]))
  | 1, _, e, o => ev_and_none e (okRest_headNot o (by simp [allowed]))
  | n + 2, h, _, _ => by omega

theorem lift {ts rest : List Tok} {c : Cond} : ∀ (d j : Nat), j + d ≤ 2 →
    Ev (fun f => parseAt (j + d) f ts) (.ok c rest) → okRest j rest →
    Ev (fun f => parseAt j f ts) (.ok c rest)
  | 0, _, _, e, _ => e
  | d + 1, j, h, e, o => by
    have e' : Ev (fun f => parseAt (j + 1 + d) f ts) (.ok c rest) := by
      have : j + 1 + d = j + (d + 1) := by omega
      rw [this]; exact e
    exact lift_one j (by omega) (lift d (j + 1) (by omega) e' (okRest_mono (by omega) o)) o

theorem lift_to {ts rest : List Tok} {c : Cond} {k lvl : Nat} (hk : k ≤ 2) (hl : lvl ≤ k)
    (e : Ev (fun f => parseAt k f ts) (.ok c rest)) (o : okRest lvl rest) :
    Ev (fun f => parseAt lvl f ts) (.ok c rest) := by
  obtain ⟨d, rfl⟩ : ∃ d, k = lvl + d := ⟨k - lvl, by omega⟩
  exact lift d lvl hk e o

theorem P_of_body {c : Cond} (hb : Body c) : P c := by
  intro lvl rest hl o
  by_cases hlv : lvl ≤ c.level
  · have hw : renderAt lvl c = renderBody c := by simp [renderAt, wrapC, hlv]
    rw [hw]
    exact lift_to (level_le c) hlv (hb rest (okRest_mono hlv o)) o
  · have hw : renderAt lvl c ++ rest = lpT :: (renderBody c ++ rpT :: rest) := by
      simp [renderAt, wrapC, hlv]
    rw [hw]
    have e0 : Ev (fun f => parseAt 0 f (renderBody c ++ rpT :: rest)) (.ok c (rpT :: rest)) :=
      lift_to (level_le c) (Nat.zero_le _) (hb (rpT :: rest) (allowed_rp _)) (allowed_rp _)
    have e2 : Ev (fun f => parseAt 2 f (lpT :: (renderBody c ++ rpT :: rest))) (.ok c rest) :=
      ev_paren lp_ty rp_ty e0
    exact lift_to (Nat.le_refl 2) hl e2 o

theorem body_cmp (o : CmpOp) (l r : Leaf) (hw : WFC (.cmp o l r)) : Body (.cmp o l r) := by
  intro rest ho
  have hna := okRest_notArg ho
  obtain ⟨hl, hr⟩ := hw
  cases l with
  | num b => exact absurd hl (by simp)
  | expr f ft args =>
    have hl' : plainArgs args := hl
    show Ev (fun fu => parseCmp fu (renderBody (.cmp o (.expr f ft args) r) ++ rest)) _
    have hts : renderBody (.cmp o (.expr f ft args) r) ++ rest
        = (Leaf.expr f ft args).render ++ (o.tok :: (r.render ++ rest)) := by
      simp [renderBody]
    rw [hts]
    have hop : notArg (o.tok :: (r.render ++ rest)) :=
      ⟨by simp [CmpOp.tok], by simp [CmpOp.tok]⟩
    have hpl := parseLeft_render f ft args _ hl' hop
    have hpr : parseRight (r.render ++ rest) = some (r, rest) := by
      cases r with
      | num b => exact parseRight_render_num b rest
      | expr g gt gargs =>
        have h0 : gt = 0 ∧ plainArgs gargs := hr
        rw [h0.1]
        exact parseRight_render_expr g gargs rest h0.2 hna
    refine Ev.step0 (fun n => ?_)
    rw [parseCmp_succ]
    have hne : (Leaf.expr f ft args).render ++ (o.tok :: (r.render ++ rest))
        = { ty := .expr, text := f, func := ft } :: (args.map argTok ++ (o.tok :: (r.render ++ rest))) := by
      simp [Leaf.render]
    rw [hne] at hpl ⊢
    simp only []
    have hnlp : ¬ ((TT.expr : TT) = .lp) := by intro h; cases h
    simp only [hnlp, if_false]
    rw [hpl]
    simp only [CmpOp.tok, hpr]

theorem P_cmp (o : CmpOp) (l r : Leaf) (hw : WFC (.cmp o l r)) : P (.cmp o l r) :=
  P_of_body (body_cmp o l r hw)

theorem body_or {l r : Cond} (pl : P l) (pr : P r) : Body (.or l r) := by
  intro rest o
  show Ev (fun f => parseOr f (renderBody (.or l r) ++ rest)) _
  have hts : renderBody (.or l r) ++ rest = renderAt 1 l ++ orT :: (renderAt 0 r ++ rest) := by
    simp [renderBody, renderAt]
  rw [hts]
  have e1 := pl 1 (orT :: (renderAt 0 r ++ rest)) (by omega) (Or.inr (Or.inl ⟨Nat.le_refl 1, rfl⟩))
  have e2 := pr 0 rest (by omega) o
  exact ev_or_op e1 or_ty e2

theorem okRest2_tail (cs : List Cond) {rest : List Tok} (o : okRest 1 rest) :
    okRest 2 (renderBody.renderTail cs ++ rest) := by
  cases cs with
  | nil => simpa [renderBody.renderTail] using okRest_mono (by omega : 1 ≤ 2) o
  | cons c cs => exact Or.inr (Or.inr ⟨Nat.le_refl 2, rfl⟩)

theorem body_and {c1 c2 : Cond} {more : List Cond} (p1 : P c1) (p2 : P c2) (pm : PL more) :
    Body (.and c1 c2 more) := by
  intro rest o
  show Ev (fun f => parseAnd f (renderBody (.and c1 c2 more) ++ rest)) _
  have hts : renderBody (.and c1 c2 more) ++ rest
      = renderAt 2 c1 ++ andT :: (renderAt 2 c2 ++ (renderBody.renderTail more ++ rest)) := by
    simp [renderBody, renderAt]
  rw [hts]
  have e1 := p1 2 (andT :: (renderAt 2 c2 ++ (renderBody.renderTail more ++ rest))) (by omega)
    (Or.inr (Or.inr ⟨Nat.le_refl 2, rfl⟩))
  have ec2 := p2 2 (renderBody.renderTail more ++ rest) (by omega) (okRest2_tail more o)
  have el := pm ([] ++ [c2]) rest o
  have e2 : Ev (fun f => parseAndLoop f [] (andT :: (renderAt 2 c2 ++ (renderBody.renderTail more ++ rest))))
      (.inl (some (c2 :: more, rest))) := ev_loop_step and_ty ec2 (by simpa using el)
  exact ev_and_op e1 and_ty e2

theorem PL_nil : PL [] := by
  intro acc rest o
  have : renderBody.renderTail [] ++ rest = rest := by simp [renderBody.renderTail]
  rw [this, List.append_nil]
  exact ev_loop_exit acc (okRest_headNot o (by simp [allowed]))

theorem PL_cons {c : Cond} {cs : List Cond} (pc : P c) (pcs : PL cs) : PL (c :: cs) := by
  intro acc rest o
  have hts : renderBody.renderTail (c :: cs) ++ rest = andT :: (renderAt 2 c ++ (renderBody.renderTail cs ++ rest)) := by
    simp [renderBody.renderTail, renderAt]
  rw [hts]
  have ec := pc 2 (renderBody.renderTail cs ++ rest) (by omega) (okRest2_tail cs o)
  have el := pcs (acc ++ [c]) rest o
  have : acc ++ [c] ++ cs = acc ++ c :: cs := by simp
  rw [this] at el
  exact ev_loop_step and_ty ec el

theorem main_inv : (∀ c : Cond, WFC c → P c) ∧ (∀ cs : List Cond, WFC.WFCs cs → PL cs) := by
  let m1 : Cond → Prop := fun c => WFC c → P c
  let m2 : List Cond → Prop := fun cs => WFC.WFCs cs → PL cs
  have hcmp : ∀ o l r, m1 (.cmp o l r) := fun o l r hw => P_cmp o l r hw
  have hand : ∀ c1 c2 rest, m1 c1 → m1 c2 → m2 rest → m1 (.and c1 c2 rest) := by
    intro c1 c2 rest ih1 ih2 ih3 hw
    have hw' : WFC c1 ∧ WFC c2 ∧ WFC.WFCs rest := by simpa [WFC] using hw
    exact P_of_body (body_and (ih1 hw'.1) (ih2 hw'.2.1) (ih3 hw'.2.2))
  have hor : ∀ l r, m1 l → m1 r → m1 (.or l r) := by
    intro l r ihl ihr hw
    have hw' : WFC l ∧ WFC r := by simpa [WFC] using hw
    exact P_of_body (body_or (ihl hw'.1) (ihr hw'.2))
  have hnil : m2 [] := fun _ => PL_nil
  have hcons : ∀ c cs, m1 c → m2 cs → m2 (c :: cs) := by
    intro c cs ih1 ih2 hw
    have hw' : WFC c ∧ WFC.WFCs cs := by simpa [WFC.WFCs] using hw
    exact PL_cons (ih1 hw'.1) (ih2 hw'.2)
  exact ⟨fun c => Cond.rec (motive_1 := m1) (motive_2 := m2) hcmp hand hor hnil hcons c,
         fun cs => Cond.rec_1 (motive_1 := m1) (motive_2 := m2) hcmp hand hor hnil hcons cs⟩

theorem render_ne_nil (c : Cond) : render c ≠ [] := by
  unfold render renderAt wrapC
  split
  · cases c with
    | cmp o l r => cases l <;> simp [renderBody, Leaf.render]
    | and c1 c2 rest => simp [renderBody]
    | or l r => simp [renderBody]
  · simp

/-- `parse (render c) = c` with the model's own fuel, for every condition tree of the documented
grammar -/
theorem parse_render (c : Cond) (hw : WFC c) :
    parseOr (4 * (render c).length + 4) (render c) = .ok c [] ∧
    (match parse (render c) with | .tree c' => c' = c | _ => False) := by
  have e : Ev (fun f => parseOr f (render c)) (.ok c []) := by
    have := main_inv.1 c hw 0 [] (by omega) trivial
    simpa [render, parseAt] using this
  obtain ⟨f0, h0⟩ := e
  have h1 : parseOr (max f0 (4 * (render c).length + 4)) (render c) = .ok c [] := h0 _ (Nat.le_max_left _ _)
  have hfix : parseOr (4 * (render c).length + 4) (render c) = .ok c [] := by
    rcases parseOr_total (render c) with e' | ⟨c', rest', e', _⟩
    · have := parseOr_mono e' err_ne_fuel (Nat.le_max_right f0 _)
      rw [h1] at this; cases this
    · have := parseOr_mono e' ok_ne_fuel (Nat.le_max_right f0 _)
      rw [h1] at this
      rw [e', ← this]
  refine ⟨hfix, ?_⟩
  unfold parse
  cases hr : render c with
  | nil => exact absurd hr (render_ne_nil c)
  | cons t r =>
    simp only []
    rw [← hr, hfix]

end OpmVerif.Act
