/-
  Fifth round: the VALUE of signed decimal literals with fraction and exponent (any number of digits).
-/
import OpmVerif.Proofs.ActionNum
import OpmVerif.Proofs.ActionGrammar

namespace OpmVerif.Act
open OpmVerif

/-- the text of a decimal literal: sign, integer digits, optional `.digits`, optional exponent -/
def decLit (sg ip : List Char) (frac : Option (List Char)) (ex : Option (Char × List Char × List Char)) :
    List Char :=
  sg ++ (ip ++ ((match frac with | none => [] | some fp => '.' :: fp) ++
                (match ex with | none => [] | some (mk, es, ed) => mk :: (es ++ ed))))

def fracDigits : Option (List Char) → List Char
  | none => []
  | some fp => fp

/-- what `Strtod.expOf` returns on the exponent part -/
def expVal : Option (Char × List Char × List Char) → Int
  | none => 0
  | some (_, es, ed) =>
    let v := Strtod.dval (ed.dropWhile (· = '0'))
    let v' := if (ed.dropWhile (· = '0')).length > 6 then 1000000 else v
    if es = ['-'] then -(v' : Int) else (v' : Int)

def fracStr : Option (List Char) → List Char
  | none => []
  | some fp => '.' :: fp

def expStr : Option (Char × List Char × List Char) → List Char
  | none => []
  | some (mk, es, ed) => mk :: (es ++ ed)

/-- well-formed exponent part: `e`/`E`, optional sign, at least one digit -/
def ExpOk : Option (Char × List Char × List Char) → Prop
  | none => True
  | some (mk, es, ed) => (mk = 'e' ∨ mk = 'E') ∧ SignG es ∧ ed ≠ [] ∧ Digits ed

theorem decLit_eq (sg ip : List Char) (frac : Option (List Char)) (ex : Option (Char × List Char × List Char)) :
    decLit sg ip frac ex = sg ++ (ip ++ (fracStr frac ++ expStr ex)) := by
  cases frac <;> cases ex <;> rfl

theorem takeWhile_nodig (t : List Char) (ht : ∀ c ∈ t.head?, isDig c = false) :
    t.takeWhile Strtod.isDig = [] := by
  cases t with
  | nil => rfl
  | cons c r =>
    rw [List.takeWhile_cons, strtod_isDig_eq, ht c (by simp)]; simp

theorem dropWhile_nodig (t : List Char) (ht : ∀ c ∈ t.head?, isDig c = false) :
    t.dropWhile Strtod.isDig = t := by
  cases t with
  | nil => rfl
  | cons c r =>
    rw [List.dropWhile_cons, strtod_isDig_eq, ht c (by simp)]; simp

theorem takeWhile_digits_append : ∀ ds : List Char, Digits ds → ∀ t : List Char,
    (∀ c ∈ t.head?, isDig c = false) → (ds ++ t).takeWhile Strtod.isDig = ds
  | [], _, t, ht => by rw [List.nil_append]; exact takeWhile_nodig t ht
  | c :: r, h, t, ht => by
    rw [List.cons_append, List.takeWhile_cons, strtod_isDig_eq, h c List.mem_cons_self]
    simp only [if_true]
    rw [takeWhile_digits_append r (fun d hd => h d (List.mem_cons_of_mem _ hd)) t ht]

theorem dropWhile_digits_append : ∀ ds : List Char, Digits ds → ∀ t : List Char,
    (∀ c ∈ t.head?, isDig c = false) → (ds ++ t).dropWhile Strtod.isDig = t
  | [], _, t, ht => by rw [List.nil_append]; exact dropWhile_nodig t ht
  | c :: r, h, t, ht => by
    rw [List.cons_append, List.dropWhile_cons, strtod_isDig_eq, h c List.mem_cons_self]
    simp only [if_true]
    exact dropWhile_digits_append r (fun d hd => h d (List.mem_cons_of_mem _ hd)) t ht

theorem head_facts (c : Char) (h : isDig c = true ∨ c = '.') :
    isSpaceC c = false ∧ c ≠ '+' ∧ c ≠ '-' := by
  rcases h with h | h
  · have := digit_facts c h; exact ⟨this.1, this.2.1, this.2.2.1⟩
  · subst h; decide

theorem sign_strip (sg : List Char) (hs : SignG sg) (c : Char) (r : List Char)
    (hsp : isSpaceC c = false) (hp : c ≠ '+') (hm : c ≠ '-') :
    (sg ++ c :: r).dropWhile Strtod.isSp = sg ++ c :: r ∧ Strtod.afterSign (sg ++ c :: r) = c :: r ∧
      Strtod.signOf (sg ++ c :: r) = decide (sg = ['-']) := by
  cases hs with
  | none =>
    refine ⟨?_, ?_, ?_⟩
    · rw [List.nil_append, List.dropWhile_cons, strtod_isSp_eq, hsp]; simp
    · simp [Strtod.afterSign, hp, hm]
    · simp [Strtod.signOf, hm]
  | plus =>
    have e : Strtod.isSp '+' = false := by decide
    refine ⟨?_, ?_, ?_⟩
    · simp [e]
    · simp [Strtod.afterSign]
    · simp [Strtod.signOf]
  | minus =>
    have e : Strtod.isSp '-' = false := by decide
    refine ⟨?_, ?_, ?_⟩
    · simp [e]
    · simp [Strtod.afterSign]
    · simp [Strtod.signOf]

theorem expStr_head (ex : Option (Char × List Char × List Char)) (h : ExpOk ex) :
    ∀ c ∈ (expStr ex).head?, c = 'e' ∨ c = 'E' := by
  cases ex with
  | none => intro c hc; simp [expStr] at hc
  | some p =>
    obtain ⟨mk, es, ed⟩ := p
    intro c hc
    simp [expStr] at hc
    rw [← hc]; exact h.1

theorem expStr_head_nodig (ex : Option (Char × List Char × List Char)) (h : ExpOk ex) :
    ∀ c ∈ (expStr ex).head?, isDig c = false := by
  intro c hc
  rcases expStr_head ex h c hc with e | e <;> subst e <;> decide

/-- the exponent part: `Strtod.expOf` returns `expVal` -/
theorem expOf_expStr (ex : Option (Char × List Char × List Char)) (h : ExpOk ex) :
    Strtod.expOf (expStr ex) = expVal ex := by
  cases ex with
  | none => rfl
  | some p =>
    obtain ⟨mk, es, ed⟩ := p
    obtain ⟨hmk, hes, hne, hd⟩ := h
    cases ed with
    | nil => exact absurd rfl hne
    | cons c r =>
      obtain ⟨hsp, hp, hm⟩ := head_facts c (Or.inl (hd c List.mem_cons_self))
      obtain ⟨_, h2, h3⟩ := sign_strip es hes c r hsp hp hm
      simp only [expStr, Strtod.expOf, hmk, if_true, h2, h3, takeWhile_digits _ hd, expVal]
      simp

theorem tail_facts (frac : Option (List Char)) (ex : Option (Char × List Char × List Char))
    (hfd : Digits (fracDigits frac)) (hex : ExpOk ex) :
    (∀ c ∈ (fracStr frac ++ expStr ex).head?, isDig c = false) ∧
      Strtod.fracPart (fracStr frac ++ expStr ex) = fracDigits frac ∧
      Strtod.afterFrac (fracStr frac ++ expStr ex) = expStr ex ∧
      (fracStr frac ++ expStr ex).head? ≠ some 'x' ∧ (fracStr frac ++ expStr ex).head? ≠ some 'X' := by
  have hh := expStr_head ex hex
  have hn := expStr_head_nodig ex hex
  cases frac with
  | some fp =>
    simp only [fracStr, fracDigits, List.cons_append, Strtod.fracPart, Strtod.afterFrac, List.head?_cons] at hfd ⊢
    refine ⟨?_, takeWhile_digits_append fp hfd _ hn, dropWhile_digits_append fp hfd _ hn, by decide, by decide⟩
    intro c hc
    simp at hc
    subst hc; decide
  | none =>
    simp only [fracStr, fracDigits, List.nil_append]
    refine ⟨hn, ?_, ?_, ?_, ?_⟩
    · cases hE : expStr ex with
      | nil => rfl
      | cons c r =>
        rw [hE] at hh
        rcases hh c (by simp) with e | e <;> subst e <;> rfl
    · cases hE : expStr ex with
      | nil => rfl
      | cons c r =>
        rw [hE] at hh
        rcases hh c (by simp) with e | e <;> subst e <;> rfl
    · intro e
      rcases hh 'x' (by rw [e]; simp) with e | e <;> exact absurd e (by decide)
    · intro e
      rcases hh 'X' (by rw [e]; simp) with e | e <;> exact absurd e (by decide)

theorem body_head (ip : List Char) (frac : Option (List Char)) (ex : Option (Char × List Char × List Char))
    (hip : Digits ip) (hne : ip ++ fracDigits frac ≠ []) :
    ∃ c r, ip ++ (fracStr frac ++ expStr ex) = c :: r ∧ (isDig c = true ∨ c = '.') := by
  cases ip with
  | cons c r => exact ⟨c, _, rfl, Or.inl (hip c List.mem_cons_self)⟩
  | nil =>
    cases frac with
    | none => exact absurd rfl hne
    | some fp => exact ⟨'.', _, rfl, Or.inr rfl⟩

/-- **the decimal reading of a signed literal with fraction and exponent** -/
theorem parseDec_decLit (sg ip : List Char) (frac : Option (List Char))
    (ex : Option (Char × List Char × List Char))
    (hsg : SignG sg) (hip : Digits ip) (hfp : Digits (fracDigits frac))
    (hne : ip ++ fracDigits frac ≠ []) (hex : ExpOk ex) :
    Strtod.parseDec (decLit sg ip frac ex) =
      .num (decide (sg = ['-'])) (Strtod.dval (ip ++ fracDigits frac))
        (expVal ex - (fracDigits frac).length)
        (((ip ++ fracDigits frac).dropWhile (· = '0')).length) := by
  obtain ⟨hT, hfrac, hafter, hx1, hx2⟩ := tail_facts frac ex hfp hex
  obtain ⟨c, r, hB, hc⟩ := body_head ip frac ex hip hne
  obtain ⟨hsp, hp, hm⟩ := head_facts c hc
  obtain ⟨h1, h2, h3⟩ := sign_strip sg hsg c r hsp hp hm
  rw [← hB] at h1 h2 h3
  have hexp := expOf_expStr ex hex
  have hn1 : ¬ (ip = [] ∧ fracDigits frac = []) := by
    intro ⟨a, b⟩; apply hne; rw [a, b]; rfl
  have hn2 : ¬ (ip = ['0'] ∧ ((fracStr frac ++ expStr ex).head? = some 'x' ∨
      (fracStr frac ++ expStr ex).head? = some 'X')) := by
    intro ⟨_, b⟩; rcases b with b | b
    · exact hx1 b
    · exact hx2 b
  rw [decLit_eq]
  unfold Strtod.parseDec
  simp only [h1, h2, h3, takeWhile_digits_append ip hip _ hT, dropWhile_digits_append ip hip _ hT,
    hfrac, hafter, hexp]
  rw [if_neg hn1, if_neg hn2]

/-- **the value of a signed decimal literal**: the correctly rounded binary64 (`Strtod.ofDec`) of
`± dval(all digits) · 10^(exponent − number of fraction digits)` -/
theorem numBits_decLit (sg ip : List Char) (frac : Option (List Char))
    (ex : Option (Char × List Char × List Char))
    (hsg : SignG sg) (hip : Digits ip) (hfp : Digits (fracDigits frac))
    (hne : ip ++ fracDigits frac ≠ []) (hex : ExpOk ex) :
    numBits (decLit sg ip frac ex) =
      resBits (Strtod.ofDec (decide (sg = ['-'])) (Strtod.dval (ip ++ fracDigits frac))
        (expVal ex - (fracDigits frac).length)
        (((ip ++ fracDigits frac).dropWhile (· = '0')).length)) := by
  unfold numBits Strtod.strtod
  rw [parseDec_decLit sg ip frac ex hsg hip hfp hne hex]
  simp only []
  have hs := ofDec_supported (decide (sg = ['-'])) (Strtod.dval (ip ++ fracDigits frac))
    (expVal ex - (fracDigits frac).length) (((ip ++ fracDigits frac).dropWhile (· = '0')).length)
  generalize Strtod.ofDec (decide (sg = ['-'])) (Strtod.dval (ip ++ fracDigits frac))
    (expVal ex - (fracDigits frac).length) (((ip ++ fracDigits frac).dropWhile (· = '0')).length) = res at hs
  cases res with
  | unsupported => exact absurd rfl hs
  | _ => rfl

/-! ### `ofDec` and the proved rounding -/

theorem roundRatio_encodes (num den : Nat) (b : Nat) (er : Bool)
    (h : Strtod.roundRatio num den = some (b, er)) :
    let q := (Strtod.roundCore num den).1
    let eo := (Strtod.roundCore num den).2
    (q < 2 ^ 52 ∧ b = q) ∨ (2 ^ 52 ≤ q ∧ eo + 1 ≤ 2046 ∧ b = (eo + 1) * 2 ^ 52 + (q - 2 ^ 52)) := by
  unfold Strtod.roundRatio at h
  generalize hp : Strtod.roundCore num den = p at h ⊢
  obtain ⟨q2, eo2⟩ := p
  simp only [] at h ⊢
  split at h
  · rename_i hq
    simp only [Option.some.injEq, Prod.mk.injEq] at h
    exact Or.inl ⟨hq, h.1.symm⟩
  · rename_i hq
    split at h
    · cases h
    · rename_i he
      simp only [Option.some.injEq, Prod.mk.injEq] at h
      exact Or.inr ⟨by omega, by omega, h.1.symm⟩

theorem roundRatio_none (num den : Nat) (h : Strtod.roundRatio num den = none) :
    2 ^ 52 ≤ (Strtod.roundCore num den).1 ∧ 2046 < (Strtod.roundCore num den).2 + 1 := by
  unfold Strtod.roundRatio at h
  generalize hp : Strtod.roundCore num den = p at h ⊢
  obtain ⟨q2, eo2⟩ := p
  simp only [] at h ⊢
  split at h
  · cases h
  · rename_i hq
    split at h
    · rename_i he
      exact ⟨by omega, by omega⟩
    · cases h

theorem ofDec_in_range (neg : Bool) (m : Nat) (e10 : Int) (nd : Nat) (hm : m ≠ 0)
    (h1 : ¬ e10 + nd > 400) (h2 : ¬ e10 + nd < -400) :
    Strtod.ofDec neg m e10 nd =
      (match (if 0 ≤ e10 then Strtod.roundRatio (m * 10 ^ e10.toNat) 1
              else Strtod.roundRatio m (10 ^ (-e10).toNat)) with
       | none => .overflow neg
       | some (b, er) => .bits ((if neg then 2 ^ 63 else 0) + b) er) := by
  unfold Strtod.ofDec
  simp only [hm, h1, h2, if_false]
  generalize (if 0 ≤ e10 then Strtod.roundRatio (m * 10 ^ e10.toNat) 1
    else Strtod.roundRatio m (10 ^ (-e10).toNat)) = rr
  cases rr with
  | none => rfl
  | some p => rfl


/-- the bit pattern that encodes sign `neg`, significand `q` (`< 2^53`) and exponent offset `eo`
(value `q · 2^(eo − 1074)`): exponent field `eo + 1` and the low 52 bits of `q` for a normal number,
`q` itself for a subnormal one or zero, `±inf` when the exponent field would exceed 2046 -/
def encBits (neg : Bool) (q eo : Nat) : Nat :=
  if 2 ^ 52 ≤ q ∧ 2046 < eo + 1 then infBits neg
  else (if neg then 2 ^ 63 else 0) + (if q < 2 ^ 52 then q else (eo + 1) * 2 ^ 52 + (q - 2 ^ 52))

theorem resBits_roundRatio (neg : Bool) (num den : Nat) :
    resBits (match Strtod.roundRatio num den with
       | none => .overflow neg
       | some (b, er) => .bits ((if neg then 2 ^ 63 else 0) + b) er) =
      some (encBits neg (Strtod.roundCore num den).1 (Strtod.roundCore num den).2) := by
  cases h : Strtod.roundRatio num den with
  | none =>
    obtain ⟨a, b⟩ := roundRatio_none num den h
    simp only [resBits, encBits]
    rw [if_pos ⟨a, b⟩]
  | some p =>
    obtain ⟨b, er⟩ := p
    have := roundRatio_encodes num den b er h
    simp only [] at this
    simp only [resBits, encBits]
    rcases this with ⟨a, e⟩ | ⟨a, c, e⟩
    · have n1 : ¬ (2 ^ 52 ≤ (Strtod.roundCore num den).1 ∧ 2046 < (Strtod.roundCore num den).2 + 1) := by omega
      rw [if_neg n1, if_pos a, e]
    · have n1 : ¬ (2 ^ 52 ≤ (Strtod.roundCore num den).1 ∧ 2046 < (Strtod.roundCore num den).2 + 1) := by omega
      have n2 : ¬ ((Strtod.roundCore num den).1 < 2 ^ 52) := by omega
      rw [if_neg n1, if_neg n2, e]

/-- the numerator / denominator of `m · 10^e10` as naturals -/
def decNum (m : Nat) (e10 : Int) : Nat := if 0 ≤ e10 then m * 10 ^ e10.toNat else m
def decDen (e10 : Int) : Nat := if 0 ≤ e10 then 1 else 10 ^ (-e10).toNat

theorem decNum_pos (m : Nat) (e10 : Int) (hm : m ≠ 0) : 0 < decNum m e10 := by
  unfold decNum
  split
  · exact Nat.mul_pos (Nat.pos_of_ne_zero hm) (Nat.pow_pos (by decide))
  · exact Nat.pos_of_ne_zero hm

theorem decDen_pos (e10 : Int) : 0 < decDen e10 := by
  unfold decDen
  split
  · decide
  · exact Nat.pow_pos (by decide)

/-- in the range where `ofDec` rounds: the bits are the encoding of `roundCore` of `m · 10^e10` -/
theorem ofDec_value (neg : Bool) (m : Nat) (e10 : Int) (nd : Nat) (hm : m ≠ 0)
    (h1 : ¬ e10 + nd > 400) (h2 : ¬ e10 + nd < -400) :
    resBits (Strtod.ofDec neg m e10 nd) =
      some (encBits neg (Strtod.roundCore (decNum m e10) (decDen e10)).1
        (Strtod.roundCore (decNum m e10) (decDen e10)).2) := by
  rw [ofDec_in_range neg m e10 nd hm h1 h2]
  unfold decNum decDen
  by_cases h : 0 ≤ e10
  · simp only [h, if_true]; exact resBits_roundRatio neg _ _
  · simp only [h, if_false]; exact resBits_roundRatio neg _ _

/-- **the value of a decimal literal is correctly rounded.**  For a literal `sign ip [. fp] [(e|E) sign ed]`
with `m = dval (ip ++ fp) ≠ 0`, `e10 = exponent − |fp|` and `e10 + (significant digits)` within ±400
(outside, `ofDec` answers ±inf / ±0 directly): with `num/den = m · 10^e10`
(`num = m · 10^e10, den = 1` for `0 ≤ e10`; `num = m, den = 10^(−e10)` for `e10 < 0`) and
`(q, eo) = roundCore num den`, the stored bits are `encBits`: the sign bit, the exponent field `eo + 1`
and the low 52 bits of `q` (or the subnormal `q`; `±inf` if `eo + 1 > 2046`), where `q < 2^53` is
normalised (`2^52 ≤ q` unless `eo = 0`) and `q · 2^(eo − 1074)` is within half a unit in the last place
of `m · 10^e10`: `2 · |num · 2^1074 − q · den · 2^eo| ≤ den · 2^eo`.  Ties go to the even `q`
(`Strtod.roundCore_tie_even`). -/
theorem decLit_value_correctly_rounded (sg ip : List Char) (frac : Option (List Char))
    (ex : Option (Char × List Char × List Char))
    (hsg : SignG sg) (hip : Digits ip) (hfp : Digits (fracDigits frac))
    (hne : ip ++ fracDigits frac ≠ []) (hex : ExpOk ex)
    (hm : Strtod.dval (ip ++ fracDigits frac) ≠ 0)
    (h1 : ¬ (expVal ex - (fracDigits frac).length) +
      ((((ip ++ fracDigits frac).dropWhile (· = '0')).length : Nat) : Int) > 400)
    (h2 : ¬ (expVal ex - (fracDigits frac).length) +
      ((((ip ++ fracDigits frac).dropWhile (· = '0')).length : Nat) : Int) < -400) :
    let m := Strtod.dval (ip ++ fracDigits frac)
    let e10 : Int := expVal ex - (fracDigits frac).length
    let num := decNum m e10
    let den := decDen e10
    let q := (Strtod.roundCore num den).1
    let eo := (Strtod.roundCore num den).2
    numBits (decLit sg ip frac ex) = some (encBits (decide (sg = ['-'])) q eo) ∧
      q < 2 ^ 53 ∧ (eo = 0 ∨ 2 ^ 52 ≤ q) ∧
      2 * (num * 2 ^ 1074 - q * (den * 2 ^ eo)) ≤ den * 2 ^ eo ∧
      2 * (q * (den * 2 ^ eo) - num * 2 ^ 1074) ≤ den * 2 ^ eo := by
  intro m e10 num den q eo
  refine ⟨?_, Strtod.roundCore_correct num den (decNum_pos m e10 hm) (decDen_pos e10)⟩
  rw [numBits_decLit sg ip frac ex hsg hip hfp hne hex]
  exact ofDec_value _ m e10 _ hm h1 h2

/-! ### the hypotheses are satisfiable, the numbers are right -/

example : decLit ['-'] ['1'] (some ['5']) (some ('e', [], ['0'])) = "-1.5e0".toList := by decide
example : decLit ['+'] [] (some ['5']) (some ('E', ['+'], ['1'])) = "+.5E+1".toList := by decide
example : decLit [] ['0'] (some ['1']) none = "0.1".toList := by decide
example : expVal (some ('E', ['-'], ['0', '1', '2'])) = -12 := by decide
example : numBits "-1.5e0".toList = some 0xBFF8000000000000 := by decide +kernel
example : numBits "+.5E+1".toList = some 0x4014000000000000 := by decide +kernel
example : numBits "0.1".toList = some 0x3FB999999999999A := by decide +kernel
example : numBits "12.5e-1".toList = some 0x3FF4000000000000 := by decide +kernel

end OpmVerif.Act
