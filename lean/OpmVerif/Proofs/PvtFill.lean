/-
  Index bookkeeping of the 2-D table construction of LiveOilPvt (`Pvt.fillTable`: per record
  `appendXPos(key)` then `appendSamplePoint` for each row, ascending y): which sample ends up
  in which column/row — so that the theorems about `Tab2D.eval` (node honouring, the line
  between two rows) can be stated about the deck's records, the extended ones included.
  Over a linearly ordered field.
-/
import OpmVerif.Proofs.PvtExtend

namespace OpmVerif.Pvt
open OpmVerif.Tab1D OpmVerif.Tab2D

set_option linter.unusedSectionVars false
set_option linter.unusedSimpArgs false

variable {K : Type} [Field K] [LinearOrder K] [IsStrictOrderedRing K]

theorem col_snoc (base : List (List K)) (pre : List K) : col (base ++ [pre]) base.length = pre := by
  simp [col, List.getD_eq_getElem?_getD]

theorem setAt_snoc (base : List (List K)) (pre x : List K) :
    setAt (base ++ [pre]) base.length x = base ++ [x] := by
  simp [setAt]

theorem nth_append_left (a b : List K) (i : Nat) (h : i < a.length) : nth (a ++ b) i = nth a i := by
  simp [nth, List.getD_eq_getElem?_getD, List.getElem?_append_left h]

theorem nth_append_cons (a : List K) (y : K) (b : List K) : nth (a ++ y :: b) a.length = y := by
  simp [nth, List.getD_eq_getElem?_getD]

/-- In a strictly increasing list `pre ++ y :: rest`, `y` is above the last element of `pre`:
the *append* branch of `appendSamplePoint` is the one taken. -/
theorem strictInc_append_step (pre : List K) (y : K) (rest : List K) (h : StrictInc (pre ++ y :: rest)) :
    (pre.isEmpty = true) ∨ nth pre (pre.length - 1) < y := by
  cases hp : pre with
  | nil => left; rfl
  | cons a p =>
    right
    rw [← hp]
    have hl : 0 < pre.length := by rw [hp]; simp
    have := h (pre.length - 1) pre.length (by omega) (by simp)
    rwa [nth_append_left _ _ _ (by omega), nth_append_cons] at this

/-- One `appendSamplePoint` on the last column, above its last sample. -/
theorem appendSamplePoint_last_col (fix : Bool) (t : Table K) (bY bV : List (List K)) (pY pV : List K)
    (y v : K) (hY : t.colY = bY ++ [pY]) (hV : t.colV = bV ++ [pV]) (hl : bV.length = bY.length)
    (h : pY.isEmpty = true ∨ nth pY (pY.length - 1) < y) :
    ∃ t', appendSamplePoint fix t bY.length y v = some t' ∧ t'.xPos = t.xPos ∧ t'.guide = t.guide ∧
      t'.colY = bY ++ [pY ++ [y]] ∧ t'.colV = bV ++ [pV ++ [v]] := by
  unfold appendSamplePoint
  have c1 : col t.colY bY.length = pY := by rw [hY]; exact col_snoc bY pY
  have c2 : col t.colV bY.length = pV := by rw [hV, ← hl]; exact col_snoc bV pV
  rw [c1, c2]
  rw [if_pos h]
  refine ⟨_, rfl, rfl, rfl, ?_, ?_⟩
  · show setAt t.colY bY.length (pY ++ [y]) = _
    rw [hY]; exact setAt_snoc bY pY _
  · show setAt t.colV bY.length (pV ++ [v]) = _
    rw [hV, ← hl]; exact setAt_snoc bV pV _

/-- All rows of one record, handed over in ascending order of y. -/
theorem appendAll_last_col (fix : Bool) : ∀ (pts : List (K × K)) (t : Table K) (bY bV : List (List K))
    (pY pV : List K), t.colY = bY ++ [pY] → t.colV = bV ++ [pV] → bV.length = bY.length →
    StrictInc (pY ++ pts.map Prod.fst) →
    ∃ t', appendAll fix t bY.length pts = some t' ∧ t'.xPos = t.xPos ∧ t'.guide = t.guide ∧
      t'.colY = bY ++ [pY ++ pts.map Prod.fst] ∧ t'.colV = bV ++ [pV ++ pts.map Prod.snd]
  | [], t, bY, bV, pY, pV, hY, hV, _, _ => ⟨t, rfl, rfl, rfl, by simpa using hY, by simpa using hV⟩
  | (y, v) :: r, t, bY, bV, pY, pV, hY, hV, hl, hs => by
    have hs' : StrictInc (pY ++ y :: r.map Prod.fst) := by simpa using hs
    obtain ⟨t1, e1, x1, g1, y1, v1⟩ :=
      appendSamplePoint_last_col fix t bY bV pY pV y v hY hV hl (strictInc_append_step pY y _ hs')
    have hs1 : StrictInc ((pY ++ [y]) ++ r.map Prod.fst) := by simpa using hs'
    obtain ⟨t2, e2, x2, g2, y2, v2⟩ := appendAll_last_col fix r t1 bY bV (pY ++ [y]) (pV ++ [v]) y1 v1 hl hs1
    refine ⟨t2, ?_, by rw [x2, x1], by rw [g2, g1], by simpa using y2, by simpa using v2⟩
    show (match appendSamplePoint fix t bY.length y v with
      | none => none
      | some t' => appendAll fix t' bY.length r) = some t2
    rw [e1]; exact e2

/-- **`fillTable` bookkeeping.**  Starting from a table with `i` columns, the records are laid
down one column each: `xPos` gets the keys, column `i+k` gets the `y` values and the `val`
values of record `k`'s rows, in the deck's order (rows ascending in `y`).  Any number of
records, any numbers of rows. -/
theorem fillTable_spec (fix : Bool) (c : Consts K) (val : K × K × K → K) :
    ∀ (recs : List (Rec K)) (t : Table K), t.colV.length = t.colY.length →
    (∀ r ∈ recs, StrictInc (r.rows.map (fun row => row.1))) →
    ∃ t', fillTable fix c val t t.colY.length recs = some t' ∧ t'.guide = t.guide ∧
      t'.xPos = t.xPos ++ recs.map (fun r => r.key) ∧
      t'.colY = t.colY ++ recs.map (fun r => r.rows.map (fun row => row.1)) ∧
      t'.colV = t.colV ++ recs.map (fun r => r.rows.map val)
  | [], t, _, _ => ⟨t, rfl, rfl, by simp, by simp, by simp⟩
  | r :: rest, t, hl, hs => by
    have hr := hs r (by simp)
    obtain ⟨t1, e1, x1, g1, y1, v1⟩ := appendAll_last_col fix (r.rows.map fun row => (row.1, val row))
      (appendXPos t r.key c.low) t.colY t.colV [] [] rfl rfl hl
      (by simpa [List.map_map, Function.comp_def] using hr)
    have hl1 : t1.colV.length = t1.colY.length := by rw [y1, v1]; simp [hl]
    have hlen : t1.colY.length = t.colY.length + 1 := by rw [y1]; simp
    obtain ⟨t2, e2, g2, x2, y2, v2⟩ := fillTable_spec fix c val rest t1 hl1
      (fun r' hr' => hs r' (List.mem_cons_of_mem _ hr'))
    refine ⟨t2, ?_, by rw [g2, g1]; rfl, ?_, ?_, ?_⟩
    · show (match appendAll fix (appendXPos t r.key c.low) t.colY.length
          (r.rows.map fun row => (row.1, val row)) with
        | none => none
        | some t' => fillTable fix c val t' (t.colY.length + 1) rest) = some t2
      rw [e1, ← hlen]; exact e2
    · rw [x2, x1]; simp [appendXPos]
    · rw [y2, y1]; simp [List.map_map, Function.comp_def]
    · rw [v2, v1]; simp [List.map_map, Function.comp_def]

/-- What `liveOil` puts into its `1/B` and `mu` tables: the extended records, through
`fillTable` from the empty table. -/
theorem liveOil_tables (fix g : Bool) (c : Consts K) (recs : List (Rec K)) (L : Live K)
    (h : liveOil fix g c recs = some L) :
    ∃ ext, extendAll c recs = some ext ∧
      fillTable fix c (fun row => 1 / row.2.1) (emptyTable .leftExtreme) 0 ext = some L.invB ∧
      fillTable fix c (fun row => row.2.2) (emptyTable .leftExtreme) 0 ext = some L.muT := by
  unfold liveOil at h
  cases he : extendAll c recs with
  | none => rw [he] at h; simp at h
  | some ext =>
    rw [he] at h
    simp only [] at h
    cases h1 : fillTable fix c (fun row => 1 / row.2.1) (emptyTable .leftExtreme) 0 ext with
    | none => rw [h1] at h; simp at h
    | some invB =>
      cases h2 : fillTable fix c (fun row => row.2.2) (emptyTable .leftExtreme) 0 ext with
      | none => rw [h1, h2] at h; simp at h
      | some mu =>
        rw [h1, h2] at h
        simp only [] at h
        cases h3 : fillBMu fix c invB mu (emptyTable .leftExtreme) 0 mu.xPos.length with
        | none => rw [h3] at h; simp at h
        | some bm =>
          rw [h3] at h
          simp only [] at h
          have := Option.some.inj h
          subst this
          exact ⟨ext, rfl, h1, h2⟩

/-- **Node honouring of the live-oil tables, extended branches included.**  Let `ext` be the
records after the master-table extension (`extendAll`), with strictly increasing keys (Rs), at
least two records, every branch with at least two rows strictly increasing in pressure (for an
extended branch this is the master's spacing, `extended_branch_same_compressibility`).  Then
at every row `j` of every record `i` the model's `1/B(p, Rs)` and `mu`-table value are the
row's `1/B` and `mu`: the deck's numbers at the deck's rows, the closed form
`extended_branch_closed_form` at the added ones. -/
theorem liveOil_node_honour (fix g : Bool) (c : Consts K) (recs ext : List (Rec K)) (L : Live K)
    (h : liveOil fix g c recs = some L) (he : extendAll c recs = some ext)
    (hk : StrictInc (ext.map fun r => r.key)) (hn : 2 ≤ ext.length)
    (hrows : ∀ r ∈ ext, StrictInc (r.rows.map fun row => row.1) ∧ 2 ≤ r.rows.length)
    (i : Nat) (r : Rec K) (hi : ext[i]? = some r) (j : Nat) (row : K × K × K) (hj : r.rows[j]? = some row) :
    L.invBAt r.key row.1 = 1 / row.2.1 ∧ Tab2D.eval L.muT r.key row.1 = row.2.2 := by
  obtain ⟨ext', he', hB, hM⟩ := liveOil_tables fix g c recs L h
  rw [he] at he'
  have : ext' = ext := (Option.some.inj he').symm
  subst this
  have hi' : i < ext'.length := by
    rcases Nat.lt_or_ge i ext'.length with h | h
    · exact h
    · rw [List.getElem?_eq_none h] at hi; simp at hi
  have hj' : j < r.rows.length := by
    rcases Nat.lt_or_ge j r.rows.length with h | h
    · exact h
    · rw [List.getElem?_eq_none h] at hj; simp at hj
  have hr := hrows r (List.mem_of_getElem? hi)
  have key : ∀ (val : K × K × K → K) (T : Table K),
      fillTable fix c val (emptyTable .leftExtreme) 0 ext' = some T →
      Tab2D.eval T r.key row.1 = val row := by
    intro val T hT
    obtain ⟨t', e, _, x, y, v⟩ := fillTable_spec fix c val ext' (emptyTable .leftExtreme) rfl
      (fun r' hr' => (hrows r' hr').1)
    have e' : fillTable fix c val (emptyTable .leftExtreme) 0 ext' = some t' := e
    rw [hT] at e'
    have : T = t' := Option.some.inj e'
    subst this
    have hx : T.xPos = ext'.map fun r => r.key := by rw [x]; simp [emptyTable]
    have hy : T.colY = ext'.map fun r => r.rows.map fun row => row.1 := by rw [y]; simp [emptyTable]
    have hv : T.colV = ext'.map fun r => r.rows.map val := by rw [v]; simp [emptyTable]
    have kx : nth T.xPos i = r.key := by
      rw [hx]; simp [nth, List.getD_eq_getElem?_getD, hi]
    have cy : col T.colY i = r.rows.map fun row => row.1 := by
      rw [hy]; simp [col, List.getD_eq_getElem?_getD, hi]
    have cv : col T.colV i = r.rows.map val := by
      rw [hv]; simp [col, List.getD_eq_getElem?_getD, hi]
    have ny : nth (col T.colY i) j = row.1 := by
      rw [cy]; simp [nth, List.getD_eq_getElem?_getD, hj]
    have nv : nth (col T.colV i) j = val row := by
      rw [cv]; simp [nth, List.getD_eq_getElem?_getD, hj]
    have := Tab2D.eval_node T (by rw [hx]; exact hk) (by rw [hx]; simpa using hn) i (by rw [hx]; simpa using hi')
      (by rw [cy]; exact hr.1) (by rw [cy]; simpa using hr.2) j (by rw [cy]; simpa using hj')
    rw [kx, ny, nv] at this
    exact this
  exact ⟨key _ _ hB, key _ _ hM⟩

end OpmVerif.Pvt
