/-
  C06 — `WellConnections::order()` (TRACK / DEPTH / INPUT): it is a permutation, it is
  idempotent, and it looks only at cell and depth.  Consequence: on a well that is in its
  COMPORD order (true after every keyword, each `updateConnections` ends with `order()`),
  WPIMULT / WELOPEN act position by position under *any* COMPORD.

  TRACK is analysed through a generic "first strict minimum" scan over the lexicographic key
  (ij-distance², |Δdepth|), over an arbitrary linearly ordered scalar type.
-/
import OpmVerif.Proofs.Connections
import Mathlib.Data.Prod.Lex

set_option linter.unusedSectionVars false
namespace OpmVerif.Conns
open OpmVerif.Peaceman
variable {α : Type}

theorem set_perm {β : Type} (c x : β) (cs : List β) (n : Nat) (h : cs[n]? = some x) :
    (x :: cs.set n c).Perm (c :: cs) := by
  induction cs generalizing n with
  | nil => simp at h
  | cons y ys ih =>
    cases n with
    | zero =>
      simp at h; subst h
      simp only [List.set_cons_zero]
      exact List.Perm.swap _ _ _
    | succ n =>
      simp at h
      simp only [List.set_cons_succ]
      exact ((List.Perm.swap y x _).trans ((ih n h).cons y)).trans (List.Perm.swap c y ys)

theorem swapToFront_perm {β : Type} (c : β) (cs : List β) (idx : Nat) :
    ((swapToFront c cs idx).1 :: (swapToFront c cs idx).2).Perm (c :: cs) := by
  unfold swapToFront
  cases idx with
  | zero => exact List.Perm.refl _
  | succ n =>
    simp only
    cases h : cs[n]? with
    | none => exact List.Perm.refl _
    | some x => exact set_perm c x cs n h

section
variable [Sub α] [LT α] [DecidableLT α]

theorem trackFrom_perm (F : Fns α) (fuel : Nat) (oi oj : Int) (oz : α) (cs : List (Conn α)) :
    (trackFrom F fuel oi oj oz cs).Perm cs := by
  induction fuel generalizing oi oj oz cs with
  | zero => unfold trackFrom; exact List.Perm.refl _
  | succ fuel ih =>
    cases cs with
    | nil => unfold trackFrom; exact List.Perm.refl _
    | cons c cs =>
      unfold trackFrom
      have hp := swapToFront_perm c cs (findClosest F oi oj oz (c :: cs))
      rcases hs : swapToFront c cs (findClosest F oi oj oz (c :: cs)) with ⟨h, t⟩
      rw [hs] at hp
      simp only
      exact ((ih h.i h.j h.depth t).cons h).trans hp

theorem insertByDepth_perm (c : Conn α) (l : List (Conn α)) : (insertByDepth c l).Perm (c :: l) := by
  induction l with
  | nil => exact List.Perm.refl _
  | cons d ds ih =>
    unfold insertByDepth
    split
    · exact List.Perm.refl _
    · exact (ih.cons d).trans (List.Perm.swap c d ds)

theorem orderDEPTH_perm (cs : List (Conn α)) : (orderDEPTH cs).Perm cs := by
  unfold orderDEPTH
  have : ∀ (l acc : List (Conn α)), (l.foldl (fun acc c => insertByDepth c acc) acc).Perm (acc ++ l) := by
    intro l
    induction l with
    | nil => intro acc; simp
    | cons c l ih =>
      intro acc
      simp only [List.foldl_cons]
      refine (ih _).trans ?_
      have h1 := insertByDepth_perm c acc
      refine (h1.append_right l).trans ?_
      simp only [List.cons_append]
      exact List.perm_middle.symm
  simpa using this cs []

/-- `WellConnections::order()` only permutes the connections. -/
theorem reorder_perm (F : Fns α) (ord : Order) (headI headJ : Int) (cs : List (Conn α)) :
    (reorder F ord headI headJ cs).Perm cs := by
  cases ord with
  | INPUT => exact List.Perm.refl _
  | TRACK => exact trackFrom_perm F _ _ _ _ cs
  | DEPTH => exact orderDEPTH_perm cs

end

section track
variable [LinearOrder α] [Sub α]

/-- sort key of `findClosestConnection` relative to (oi, oj, oz), in the lexicographic order -/
def tkey (F : Fns α) (oi oj : Int) (oz : α) (c : Conn α) : Int ×ₗ α :=
  toLex ((c.i - oi) * (c.i - oi) + (c.j - oj) * (c.j - oj), F.abs (c.depth - oz))

/-- generic "first strict minimum" scan -/
def scan {β K : Type} [LinearOrder K] (k : β → K) : Nat → List β → Nat × K → Nat × K
  | _, [], best => best
  | pos, c :: cs, best => scan k (pos + 1) cs (if k c < best.2 then (pos, k c) else best)

theorem closestLoop_eq_scan (F : Fns α) (oi oj : Int) (oz : α) (pos : Nat) (cs : List (Conn α))
    (b : Nat) (md : Int) (mz : α) :
    closestLoop F oi oj oz pos cs (some (b, md, mz)) =
      some ((scan (tkey F oi oj oz) pos cs (b, toLex (md, mz))).1,
            (ofLex (scan (tkey F oi oj oz) pos cs (b, toLex (md, mz))).2).1,
            (ofLex (scan (tkey F oi oj oz) pos cs (b, toLex (md, mz))).2).2) := by
  induction cs generalizing pos b md mz with
  | nil => simp [closestLoop, scan]
  | cons c cs ih =>
    unfold closestLoop scan
    have hstep : closestStep F oi oj oz pos c (some (b, md, mz)) =
        some ((if tkey F oi oj oz c < toLex (md, mz) then (pos, tkey F oi oj oz c) else (b, toLex (md, mz))).1,
              (ofLex (if tkey F oi oj oz c < toLex (md, mz) then (pos, tkey F oi oj oz c) else (b, toLex (md, mz))).2).1,
              (ofLex (if tkey F oi oj oz c < toLex (md, mz) then (pos, tkey F oi oj oz c) else (b, toLex (md, mz))).2).2) := by
      unfold closestStep tkey
      simp only [Prod.Lex.toLex_lt_toLex]
      by_cases h1 : (c.i - oi) * (c.i - oi) + (c.j - oj) * (c.j - oj) < md
      · simp [h1]
      · by_cases h2 : (c.i - oi) * (c.i - oi) + (c.j - oj) * (c.j - oj) = md
        · by_cases h3 : F.abs (c.depth - oz) < mz
          · simp [h2, h3]
          · simp [h2, h3]
        · simp [h1, h2]
    rw [hstep]
    split
    · rename_i hlt
      exact ih (pos + 1) pos _ _
    · rename_i hlt
      exact ih (pos + 1) b md mz


/-! generic facts about `scan` -/
section scanfacts
variable {β K : Type} [LinearOrder K] (k : β → K)

theorem scan_le (pos : Nat) (cs : List β) (best : Nat × K) :
    (scan k pos cs best).2 ≤ best.2 ∧ ∀ c ∈ cs, (scan k pos cs best).2 ≤ k c := by
  induction cs generalizing pos best with
  | nil => simp [scan]
  | cons c cs ih =>
    unfold scan
    obtain ⟨h1, h2⟩ := ih (pos + 1) (if k c < best.2 then (pos, k c) else best)
    by_cases hlt : k c < best.2
    · simp only [hlt, if_true] at h1 h2 ⊢
      refine ⟨h1.trans hlt.le, ?_⟩
      intro d hd
      rcases List.mem_cons.mp hd with rfl | hd
      · exact h1
      · exact h2 d hd
    · simp only [hlt, if_false] at h1 h2 ⊢
      refine ⟨h1, ?_⟩
      intro d hd
      rcases List.mem_cons.mp hd with rfl | hd
      · exact h1.trans (not_lt.mp hlt)
      · exact h2 d hd

theorem scan_eq_of_no_lt (pos : Nat) (cs : List β) (best : Nat × K) (h : ∀ c ∈ cs, ¬ k c < best.2) :
    scan k pos cs best = best := by
  induction cs generalizing pos with
  | nil => rfl
  | cons c cs ih =>
    unfold scan
    rw [if_neg (h c List.mem_cons_self)]
    exact ih (pos + 1) (fun d hd => h d (List.mem_cons_of_mem _ hd))

/-- the reported index carries the reported key -/
theorem scan_index (pos : Nat) (cs : List β) (best : Nat × K) :
    (scan k pos cs best = best) ∨
    (∃ j c, (scan k pos cs best).1 = pos + j ∧ cs[j]? = some c ∧ k c = (scan k pos cs best).2) := by
  induction cs generalizing pos best with
  | nil => left; rfl
  | cons c cs ih =>
    unfold scan
    by_cases hlt : k c < best.2
    · simp only [hlt, if_true]
      rcases ih (pos + 1) (pos, k c) with h | ⟨j, d, h1, h2, h3⟩
      · right
        refine ⟨0, c, ?_, by simp, ?_⟩
        · rw [h]; rfl
        · rw [h]
      · right
        exact ⟨j + 1, d, by rw [h1]; omega, by simpa using h2, h3⟩
    · simp only [hlt, if_false]
      rcases ih (pos + 1) best with h | ⟨j, d, h1, h2, h3⟩
      · left; exact h
      · right
        exact ⟨j + 1, d, by rw [h1]; omega, by simpa using h2, h3⟩

end scanfacts

/-- `findClosest` on a non-empty list, through `scan`. -/
theorem findClosest_cons (F : Fns α) (oi oj : Int) (oz : α) (c : Conn α) (cs : List (Conn α)) :
    findClosest F oi oj oz (c :: cs) =
      (scan (tkey F oi oj oz) 1 cs (0, tkey F oi oj oz c)).1 := by
  unfold findClosest closestLoop
  have : closestStep F oi oj oz 0 c none =
      some (0, (c.i - oi) * (c.i - oi) + (c.j - oj) * (c.j - oj), F.abs (c.depth - oz)) := rfl
  rw [this, closestLoop_eq_scan]
  rfl

/-- The connection swapped to the front has the least key, and the swap is a permutation. -/
theorem swap_min (F : Fns α) (oi oj : Int) (oz : α) (c : Conn α) (cs : List (Conn α)) :
    ∀ d ∈ c :: cs,
      tkey F oi oj oz (swapToFront c cs (findClosest F oi oj oz (c :: cs))).1 ≤ tkey F oi oj oz d := by
  rw [findClosest_cons]
  have hle := scan_le (tkey F oi oj oz) 1 cs (0, tkey F oi oj oz c)
  have hmin : ∀ d ∈ c :: cs, (scan (tkey F oi oj oz) 1 cs (0, tkey F oi oj oz c)).2 ≤ tkey F oi oj oz d := by
    intro d hd
    rcases List.mem_cons.mp hd with rfl | hd
    · exact hle.1
    · exact hle.2 d hd
  rcases scan_index (tkey F oi oj oz) 1 cs (0, tkey F oi oj oz c) with h | ⟨j, e, h1, h2, h3⟩
  · rw [h] at hmin ⊢
    simpa [swapToFront] using hmin
  · have hidx : (scan (tkey F oi oj oz) 1 cs (0, tkey F oi oj oz c)).1 = j + 1 := by rw [h1]; omega
    rw [hidx]
    simp only [swapToFront, h2]
    rw [h3]
    exact hmin

/-- If the head already has the least key, nothing is swapped. -/
theorem findClosest_zero (F : Fns α) (oi oj : Int) (oz : α) (c : Conn α) (cs : List (Conn α))
    (h : ∀ d ∈ cs, tkey F oi oj oz c ≤ tkey F oi oj oz d) : findClosest F oi oj oz (c :: cs) = 0 := by
  rw [findClosest_cons, scan_eq_of_no_lt]
  intro d hd
  exact not_lt.mpr (h d hd)

/-- A list that `orderTRACK` leaves alone: every element is the closest among those after it. -/
def Tracked (F : Fns α) : Int → Int → α → List (Conn α) → Prop
  | _, _, _, [] => True
  | oi, oj, oz, c :: cs =>
    (∀ d ∈ cs, tkey F oi oj oz c ≤ tkey F oi oj oz d) ∧ Tracked F c.i c.j c.depth cs

theorem trackFrom_of_tracked (F : Fns α) (fuel : Nat) (oi oj : Int) (oz : α) (cs : List (Conn α))
    (h : Tracked F oi oj oz cs) : trackFrom F fuel oi oj oz cs = cs := by
  induction fuel generalizing oi oj oz cs with
  | zero => unfold trackFrom; rfl
  | succ fuel ih =>
    cases cs with
    | nil => unfold trackFrom; rfl
    | cons c cs =>
      unfold trackFrom
      rw [findClosest_zero F oi oj oz c cs h.1]
      simp only [swapToFront]
      rw [ih c.i c.j c.depth cs h.2]

theorem tracked_trackFrom (F : Fns α) (fuel : Nat) (oi oj : Int) (oz : α) (cs : List (Conn α))
    (hf : cs.length ≤ fuel) : Tracked F oi oj oz (trackFrom F fuel oi oj oz cs) := by
  induction fuel generalizing oi oj oz cs with
  | zero =>
    have : cs = [] := List.eq_nil_of_length_eq_zero (by omega)
    subst this
    unfold trackFrom; trivial
  | succ fuel ih =>
    cases cs with
    | nil => unfold trackFrom; trivial
    | cons c cs =>
      unfold trackFrom
      have hmin := swap_min F oi oj oz c cs
      have hperm := swapToFront_perm c cs (findClosest F oi oj oz (c :: cs))
      rcases hs : swapToFront c cs (findClosest F oi oj oz (c :: cs)) with ⟨h, t⟩
      rw [hs] at hmin hperm
      simp only at hmin hperm ⊢
      have hlen : t.length ≤ fuel := by
        have := hperm.length_eq
        simp at this hf
        omega
      refine ⟨?_, ih h.i h.j h.depth t hlen⟩
      intro d hd
      have hd' : d ∈ t := (trackFrom_perm F fuel h.i h.j h.depth t).mem_iff.mp hd
      have : d ∈ c :: cs := hperm.mem_iff.mp (List.mem_cons_of_mem _ hd')
      exact hmin d this

/-- **`orderTRACK` is idempotent**: ordering an ordered well again changes nothing. -/
theorem orderTRACK_idem (F : Fns α) (headI headJ : Int) (cs : List (Conn α)) :
    orderTRACK F headI headJ (orderTRACK F headI headJ cs) = orderTRACK F headI headJ cs := by
  have ht := tracked_trackFrom F cs.length headI headJ F.zero cs (Nat.le_refl _)
  unfold orderTRACK
  exact trackFrom_of_tracked F _ headI headJ F.zero _ ht


/-! ### The order depends only on cell and depth -/

/-- `f` leaves alone what the ordering looks at. -/
def KeepsPlace (f : Conn α → Conn α) : Prop := ∀ c, (f c).i = c.i ∧ (f c).j = c.j ∧ (f c).depth = c.depth

theorem closestLoop_map (F : Fns α) (oi oj : Int) (oz : α) (f : Conn α → Conn α) (hf : KeepsPlace f)
    (pos : Nat) (cs : List (Conn α)) (best : Option (Nat × Int × α)) :
    closestLoop F oi oj oz pos (cs.map f) best = closestLoop F oi oj oz pos cs best := by
  induction cs generalizing pos best with
  | nil => rfl
  | cons c cs ih =>
    simp only [List.map_cons, closestLoop]
    have : closestStep F oi oj oz pos (f c) best = closestStep F oi oj oz pos c best := by
      unfold closestStep
      rw [(hf c).1, (hf c).2.1, (hf c).2.2]
    rw [this]
    exact ih _ _

theorem swapToFront_map {β : Type} (f : β → β) (c : β) (cs : List β) (idx : Nat) :
    swapToFront (f c) (cs.map f) idx =
      (f (swapToFront c cs idx).1, (swapToFront c cs idx).2.map f) := by
  unfold swapToFront
  cases idx with
  | zero => rfl
  | succ n =>
    simp only [List.getElem?_map]
    cases h : cs[n]? with
    | none => simp
    | some x => simp [List.map_set]

theorem trackFrom_map (F : Fns α) (f : Conn α → Conn α) (hf : KeepsPlace f) (fuel : Nat) (oi oj : Int) (oz : α)
    (cs : List (Conn α)) :
    trackFrom F fuel oi oj oz (cs.map f) = (trackFrom F fuel oi oj oz cs).map f := by
  induction fuel generalizing oi oj oz cs with
  | zero => unfold trackFrom; rfl
  | succ fuel ih =>
    cases cs with
    | nil => unfold trackFrom; rfl
    | cons c cs =>
      simp only [List.map_cons]
      unfold trackFrom
      have hfc : findClosest F oi oj oz (f c :: cs.map f) = findClosest F oi oj oz (c :: cs) := by
        unfold findClosest
        rw [← List.map_cons, closestLoop_map F oi oj oz f hf]
      rw [hfc, swapToFront_map]
      rcases hs : swapToFront c cs (findClosest F oi oj oz (c :: cs)) with ⟨h, t⟩
      simp only [List.map_cons]
      rw [(hf h).1, (hf h).2.1, (hf h).2.2, ih]

theorem orderTRACK_map (F : Fns α) (f : Conn α → Conn α) (hf : KeepsPlace f) (headI headJ : Int)
    (cs : List (Conn α)) :
    orderTRACK F headI headJ (cs.map f) = (orderTRACK F headI headJ cs).map f := by
  unfold orderTRACK
  rw [List.length_map]
  exact trackFrom_map F f hf _ _ _ _ cs

/-! ### DEPTH ordering -/

/-- non-decreasing depth -/
def DepthSorted (l : List (Conn α)) : Prop := l.Pairwise fun a b => ¬ b.depth < a.depth

theorem insertByDepth_append (c : Conn α) (l : List (Conn α)) (h : ∀ d ∈ l, ¬ c.depth < d.depth) :
    insertByDepth c l = l ++ [c] := by
  induction l with
  | nil => rfl
  | cons d ds ih =>
    unfold insertByDepth
    rw [if_neg (h d List.mem_cons_self), ih (fun e he => h e (List.mem_cons_of_mem _ he))]
    rfl

theorem insertByDepth_sorted (c : Conn α) (l : List (Conn α)) (h : DepthSorted l) :
    DepthSorted (insertByDepth c l) := by
  induction l with
  | nil => simp [insertByDepth, DepthSorted]
  | cons d ds ih =>
    unfold insertByDepth
    have hd := List.pairwise_cons.mp h
    split
    · rename_i hlt
      refine List.pairwise_cons.mpr ⟨?_, h⟩
      intro e he
      rcases List.mem_cons.mp he with rfl | he
      · exact not_lt.mpr hlt.le
      · have := hd.1 e he
        exact not_lt.mpr (hlt.le.trans (not_lt.mp this))
    · rename_i hlt
      refine List.pairwise_cons.mpr ⟨?_, ih hd.2⟩
      intro e he
      have he' : e ∈ c :: ds := (insertByDepth_perm c ds).mem_iff.mp he
      rcases List.mem_cons.mp he' with rfl | he'
      · exact not_lt.mpr (not_lt.mp hlt)
      · exact hd.1 e he'

theorem foldl_insert_sorted (l acc : List (Conn α)) (h : DepthSorted acc) :
    DepthSorted (l.foldl (fun acc c => insertByDepth c acc) acc) := by
  induction l generalizing acc with
  | nil => exact h
  | cons c l ih => exact ih _ (insertByDepth_sorted c acc h)

theorem orderDEPTH_sorted (cs : List (Conn α)) : DepthSorted (orderDEPTH cs) :=
  foldl_insert_sorted cs [] List.Pairwise.nil

theorem foldl_insert_of_sorted (l acc : List (Conn α)) (h : DepthSorted (acc ++ l)) :
    l.foldl (fun acc c => insertByDepth c acc) acc = acc ++ l := by
  induction l generalizing acc with
  | nil => simp
  | cons c l ih =>
    simp only [List.foldl_cons]
    have hc : ∀ d ∈ acc, ¬ c.depth < d.depth := by
      intro d hd
      have := List.pairwise_append.mp h
      exact this.2.2 d hd c List.mem_cons_self
    rw [insertByDepth_append c acc hc]
    have h' : DepthSorted ((acc ++ [c]) ++ l) := by simpa using h
    rw [ih _ h']
    simp

/-- **`orderDEPTH` is idempotent.** -/
theorem orderDEPTH_idem (cs : List (Conn α)) : orderDEPTH (orderDEPTH cs) = orderDEPTH cs := by
  have h := orderDEPTH_sorted cs
  generalize orderDEPTH cs = l at h
  unfold orderDEPTH
  simpa using foldl_insert_of_sorted l [] (by simpa using h)

theorem insertByDepth_map (f : Conn α → Conn α) (hf : KeepsPlace f) (c : Conn α) (l : List (Conn α)) :
    insertByDepth (f c) (l.map f) = (insertByDepth c l).map f := by
  induction l with
  | nil => rfl
  | cons d ds ih =>
    simp only [List.map_cons]
    unfold insertByDepth
    rw [(hf c).2.2, (hf d).2.2]
    split
    · rfl
    · simp [ih]

theorem orderDEPTH_map (f : Conn α → Conn α) (hf : KeepsPlace f) (cs : List (Conn α)) :
    orderDEPTH (cs.map f) = (orderDEPTH cs).map f := by
  unfold orderDEPTH
  have : ∀ (l acc : List (Conn α)),
      (l.map f).foldl (fun acc c => insertByDepth c acc) (acc.map f) =
        (l.foldl (fun acc c => insertByDepth c acc) acc).map f := by
    intro l
    induction l with
    | nil => intro acc; rfl
    | cons c l ih =>
      intro acc
      simp only [List.map_cons, List.foldl_cons]
      rw [insertByDepth_map f hf, ih]
  simpa using this cs []

/-! ### `order()` as a whole -/

theorem reorder_idem (F : Fns α) (ord : Order) (headI headJ : Int) (cs : List (Conn α)) :
    reorder F ord headI headJ (reorder F ord headI headJ cs) = reorder F ord headI headJ cs := by
  cases ord with
  | INPUT => rfl
  | TRACK => exact orderTRACK_idem F headI headJ cs
  | DEPTH => exact orderDEPTH_idem cs

theorem reorder_map (F : Fns α) (ord : Order) (headI headJ : Int) (f : Conn α → Conn α) (hf : KeepsPlace f)
    (cs : List (Conn α)) :
    reorder F ord headI headJ (cs.map f) = (reorder F ord headI headJ cs).map f := by
  cases ord with
  | INPUT => rfl
  | TRACK => exact orderTRACK_map F f hf headI headJ cs
  | DEPTH => exact orderDEPTH_map f hf cs

/-- A well whose connections are in the order `order()` produces (true after every keyword,
since every `updateConnections` ends with `order()`): an operation that rewrites connections
in place without touching cell or depth leaves every connection at its position. -/
theorem reorder_map_of_fixed (F : Fns α) (ord : Order) (headI headJ : Int) (f : Conn α → Conn α)
    (hf : KeepsPlace f) (cs : List (Conn α)) (hfix : reorder F ord headI headJ cs = cs) :
    reorder F ord headI headJ (cs.map f) = cs.map f := by
  rw [reorder_map F ord headI headJ f hf, hfix]


/-! ### Histories under any COMPORD -/

section anyorder
variable [Add α] [Mul α] [Div α]

/-- The connections are in the order `order()` gives them. -/
def Ordered (E : Env α) (cs : List (Conn α)) : Prop := reorder E.F E.ord E.headI E.headJ cs = cs

theorem ordered_nil (E : Env α) : Ordered E [] := by
  unfold Ordered reorder
  cases E.ord <;> rfl

theorem keepsPlace_wpimultSel (f : α) (s : Sel) :
    KeepsPlace (fun c : Conn α => if s.matches c then scaleWellPi f c else c) := by
  intro c; dsimp only; split <;> exact ⟨rfl, rfl, rfl⟩

theorem keepsPlace_scale (f : α) : KeepsPlace (scaleWellPi f : Conn α → Conn α) := fun _ => ⟨rfl, rfl, rfl⟩

theorem keepsPlace_welopenSel (st : State) (s : Sel) :
    KeepsPlace (fun c : Conn α => if s.matches c then setState st c else c) := by
  intro c; dsimp only; split <;> exact ⟨rfl, rfl, rfl⟩

theorem keepsPlace_complump (n : Int) (s : LumpSel) :
    KeepsPlace (fun c : Conn α => if s.matchesIdent c.ident then { c with complnum := n } else c) := by
  intro c; dsimp only; split <;> exact ⟨rfl, rfl, rfl⟩

/-- Every keyword leaves the well ordered (each `updateConnections` ends with `order()`, which
is idempotent). -/
theorem step_ordered (E : Env α) (w : WellConns α) (h : Ordered E w.conns) (op : Op α) :
    Ordered E (step E w op).conns := by
  unfold Ordered
  cases op with
  | compdat r => simp only [step]; exact reorder_idem _ _ _ _ _
  | wpimult f s =>
    simp only [step]; split
    · exact h
    · exact reorder_idem _ _ _ _ _
  | welopen st s =>
    simp only [step]; split
    · exact h
    · exact reorder_idem _ _ _ _ _
  | complump n s => simp only [step]; exact reorder_idem _ _ _ _ _
  | endStep =>
    simp only [step]; split
    · exact h
    · exact reorder_idem _ _ _ _ _

theorem run_ordered (E : Env α) (ops : List (Op α)) (w : WellConns α) (h : Ordered E w.conns) :
    Ordered E (run E ops w).conns := by
  induction ops generalizing w with
  | nil => exact h
  | cons op ops ih => unfold run; exact ih _ (step_ordered E w h op)

/-- Records other than COMPDAT act position by position on an ordered well, whatever COMPORD
says: the reordering that follows them is the identity. -/
theorem step_wpimult_conns (E : Env α) (w : WellConns α) (h : Ordered E w.conns) (f : α) (s : Sel) :
    (step E w (.wpimult f s)).conns = if s.wpimultGlobal then w.conns else wpimultSel f s w.conns := by
  simp only [step]; split
  · rfl
  · exact reorder_map_of_fixed _ _ _ _ _ (keepsPlace_wpimultSel f s) _ h

theorem step_welopen_conns (E : Env α) (w : WellConns α) (h : Ordered E w.conns) (st : State) (s : Sel) :
    (step E w (.welopen st s)).conns = if s.welopenWellOnly then w.conns else welopenSel st s w.conns := by
  simp only [step]; split
  · rfl
  · exact reorder_map_of_fixed _ _ _ _ _ (keepsPlace_welopenSel st s) _ h

theorem step_complump_conns (E : Env α) (w : WellConns α) (h : Ordered E w.conns) (n : Int) (s : LumpSel) :
    (step E w (.complump n s)).conns = complumpSel n s w.conns := by
  simp only [step]
  exact reorder_map_of_fixed _ _ _ _ _ (keepsPlace_complump n s) _ h

theorem step_endStep_conns (E : Env α) (w : WellConns α) (h : Ordered E w.conns) :
    (step E w .endStep).conns = match w.pending with
                                | none => w.conns
                                | some f => wpimultAll f w.conns := by
  simp only [step]
  cases hp : w.pending with
  | none => rfl
  | some f => exact reorder_map_of_fixed _ _ _ _ _ (keepsPlace_scale f) _ h

/-- `op` is not a COMPDAT record. -/
def Op.isCompdat : Op α → Bool
  | .compdat _ => true
  | _ => false

/-- **Frame for WPIMULT / WELOPEN histories under any COMPORD** (TRACK, DEPTH, INPUT): on an
ordered well a connection no record addresses stays at its position with every field
unchanged. -/
theorem run_frame_anyorder (E : Env α) (ops : List (Op α)) (w : WellConns α) (ho : Ordered E w.conns)
    (hp : w.pending = none) (hnc : ∀ op ∈ ops, op.isCompdat = false)
    (m : Nat) (c : Conn α) (h : w.conns[m]? = some c)
    (ht : ∀ op ∈ ops, op.touches E c.ident = false) :
    (run E ops w).conns[m]? = some c := by
  induction ops generalizing w with
  | nil => exact h
  | cons op ops ih =>
    unfold run
    have hto := ht op List.mem_cons_self
    have hc := hnc op List.mem_cons_self
    have key : (step E w op).conns[m]? = some c ∧ (step E w op).pending = none := by
      cases op with
      | compdat r => simp [Op.isCompdat] at hc
      | wpimult f s =>
        simp only [Op.touches, Bool.or_eq_false_iff] at hto
        rw [step_wpimult_conns E w ho]
        simp only [hto.1, Bool.false_eq_true, if_false]
        refine ⟨wpimultSel_frame f s _ m c h hto.2, ?_⟩
        simp only [step, hto.1, Bool.false_eq_true, if_false]
        exact hp
      | welopen st s =>
        rw [step_welopen_conns E w ho]
        simp only [Op.touches] at hto
        refine ⟨?_, ?_⟩
        · by_cases hw : s.welopenWellOnly = true
          · rw [if_pos hw]; exact h
          · rw [if_neg hw]
            have : s.matchesIdent c.ident = false := by
              cases hm : s.matchesIdent c.ident
              · rfl
              · simp [hm] at hto; exact absurd hto hw
            exact welopenSel_frame st s _ m c h this
        · simp only [step]; split <;> exact hp
      | complump n s =>
        rw [step_complump_conns E w ho]
        exact ⟨complumpSel_frame n s _ m c h hto, hp⟩
      | endStep =>
        rw [step_endStep_conns E w ho]
        simp only [step, hp]
        exact ⟨h, trivial⟩
    exact ih _ (step_ordered E w ho op) key.2 (fun op' h' => hnc op' (List.mem_cons_of_mem _ h')) key.1
      (fun op' h' => ht op' (List.mem_cons_of_mem _ h'))

/-- … and such histories keep cells, completion numbers, sort values and the *order* of all
connections exactly (no COMPLUMP), under any COMPORD. -/
theorem run_idents_anyorder (E : Env α) (ops : List (Op α)) (w : WellConns α) (ho : Ordered E w.conns)
    (hnc : ∀ op ∈ ops, op.isCompdat = false) (hl : ∀ op ∈ ops, op.isLump = false) :
    (run E ops w).conns.map Conn.ident = w.conns.map Conn.ident := by
  induction ops generalizing w with
  | nil => rfl
  | cons op ops ih =>
    unfold run
    rw [ih _ (step_ordered E w ho op) (fun op' h' => hnc op' (List.mem_cons_of_mem _ h'))
      (fun op' h' => hl op' (List.mem_cons_of_mem _ h'))]
    have hc := hnc op List.mem_cons_self
    have hlu := hl op List.mem_cons_self
    cases op with
    | compdat r => simp [Op.isCompdat] at hc
    | wpimult f s =>
      rw [step_wpimult_conns E w ho]
      split
      · rfl
      · exact wpimultSel_map_ident f s _
    | welopen st s =>
      rw [step_welopen_conns E w ho]
      split
      · rfl
      · exact welopenSel_map_ident st s _
    | complump n s => simp [Op.isLump] at hlu
    | endStep =>
      rw [step_endStep_conns E w ho]
      cases w.pending with
      | none => rfl
      | some f => exact wpimultAll_map_ident f _

/-- **Frame for arbitrary histories under any COMPORD**, without positions: a connection no
record addresses is still there, unchanged in every field. -/
theorem run_frame_mem (E : Env α) (ops : List (Op α)) (w : WellConns α) (hp : w.pending = none)
    (c : Conn α) (h : c ∈ w.conns) (ht : ∀ op ∈ ops, op.touches E c.ident = false) :
    c ∈ (run E ops w).conns := by
  induction ops generalizing w with
  | nil => exact h
  | cons op ops ih =>
    unfold run
    obtain ⟨m, hm⟩ := List.mem_iff_getElem?.mp h
    have hto := ht op List.mem_cons_self
    have key : c ∈ (step E w op).conns ∧ (step E w op).pending = none := by
      cases op with
      | compdat r =>
        simp only [step]
        exact ⟨(reorder_perm _ _ _ _ _).mem_iff.mpr
          (List.mem_of_getElem? (loadCompdat_frame _ _ _ _ _ _ _ m c hm hto)), hp⟩
      | wpimult f s =>
        simp only [Op.touches, Bool.or_eq_false_iff] at hto
        simp only [step, hto.1, Bool.false_eq_true, if_false]
        exact ⟨(reorder_perm _ _ _ _ _).mem_iff.mpr
          (List.mem_of_getElem? (wpimultSel_frame f s _ m c hm hto.2)), hp⟩
      | welopen st s =>
        simp only [Op.touches] at hto
        simp only [step]
        by_cases hw : s.welopenWellOnly = true
        · rw [if_pos hw]; exact ⟨h, hp⟩
        · rw [if_neg hw]
          have : s.matchesIdent c.ident = false := by
            cases hmm : s.matchesIdent c.ident
            · rfl
            · simp [hmm] at hto; exact absurd hto hw
          exact ⟨(reorder_perm _ _ _ _ _).mem_iff.mpr
            (List.mem_of_getElem? (welopenSel_frame st s _ m c hm this)), hp⟩
      | complump n s =>
        simp only [Op.touches] at hto
        simp only [step]
        exact ⟨(reorder_perm _ _ _ _ _).mem_iff.mpr
          (List.mem_of_getElem? (complumpSel_frame n s _ m c hm hto)), hp⟩
      | endStep =>
        simp only [step, hp]
        exact ⟨h, trivial⟩
    exact ih _ key.2 key.1 (fun op' h' => ht op' (List.mem_cons_of_mem _ h'))

end anyorder

end track
/-- what `order()` looks at -/
def Conn.place (c : Conn α) : Int × Int × α := (c.i, c.j, c.depth)

section
variable [LinearOrder α] [Sub α]

theorem tkey_of_place (F : Fns α) (oi oj : Int) (oz : α) (c d : Conn α) (h : c.place = d.place) :
    tkey F oi oj oz c = tkey F oi oj oz d := by
  unfold Conn.place at h
  injection h with h1 h2
  injection h2 with h2 h3
  unfold tkey
  rw [h1, h2, h3]

theorem tracked_of_same_place (F : Fns α) (oi oj : Int) (oz : α) (l1 l2 : List (Conn α))
    (h : l1.map Conn.place = l2.map Conn.place) (ht : Tracked F oi oj oz l1) : Tracked F oi oj oz l2 := by
  induction l1 generalizing l2 oi oj oz with
  | nil =>
    cases l2 with
    | nil => trivial
    | cons d ds => simp at h
  | cons c cs ih =>
    cases l2 with
    | nil => simp at h
    | cons d ds =>
      simp only [List.map_cons, List.cons.injEq] at h
      obtain ⟨hcd, hrest⟩ := h
      obtain ⟨hmin, htail⟩ := ht
      have hpl : c.i = d.i ∧ c.j = d.j ∧ c.depth = d.depth := by
        unfold Conn.place at hcd
        injection hcd with h1 h2
        injection h2 with h2 h3
        exact ⟨h1, h2, h3⟩
      refine ⟨?_, ?_⟩
      · intro e he
        -- e corresponds to some element of cs with the same place
        obtain ⟨n, hn⟩ := List.mem_iff_getElem?.mp he
        have hlen : (cs.map Conn.place)[n]? = (ds.map Conn.place)[n]? := by rw [hrest]
        simp only [List.getElem?_map, hn, Option.map_some] at hlen
        cases hc : cs[n]? with
        | none => rw [hc] at hlen; simp at hlen
        | some e' =>
          rw [hc] at hlen
          simp only [Option.map_some, Option.some.injEq] at hlen
          rw [← tkey_of_place F oi oj oz c d hcd, ← tkey_of_place F oi oj oz e' e hlen]
          exact hmin e' (List.mem_of_getElem? hc)
      · rw [← hpl.1, ← hpl.2.1, ← hpl.2.2]
        exact ih _ _ _ ds hrest htail

theorem depthSorted_of_same_place (l1 l2 : List (Conn α)) (h : l1.map Conn.place = l2.map Conn.place)
    (hs : DepthSorted l1) : DepthSorted l2 := by
  unfold DepthSorted at *
  have h1 : l1.map (·.depth) = l2.map (·.depth) := by
    have := congrArg (List.map (fun p : Int × Int × α => p.2.2)) h
    rw [List.map_map, List.map_map] at this
    exact this
  have e1 : List.Pairwise (fun a b : α => ¬ b < a) (l1.map (·.depth)) := by
    rw [List.pairwise_map]; exact hs
  rw [h1, List.pairwise_map] at e1
  exact e1

/-- Being in COMPORD order depends only on the cells and depths along the list. -/
theorem ordered_of_same_place (F : Fns α) (ord : Order) (headI headJ : Int) (l1 l2 : List (Conn α))
    (h : l1.map Conn.place = l2.map Conn.place) (ho : reorder F ord headI headJ l1 = l1) :
    reorder F ord headI headJ l2 = l2 := by
  cases ord with
  | INPUT => rfl
  | TRACK =>
    have ht : Tracked F headI headJ F.zero l1 := by
      have := tracked_trackFrom F l1.length headI headJ F.zero l1 (Nat.le_refl _)
      have ho' : trackFrom F l1.length headI headJ F.zero l1 = l1 := ho
      rw [ho'] at this
      exact this
    exact trackFrom_of_tracked F _ _ _ _ _ (tracked_of_same_place F _ _ _ l1 l2 h ht)
  | DEPTH =>
    have hs : DepthSorted l1 := by
      have := orderDEPTH_sorted l1
      have ho' : orderDEPTH l1 = l1 := ho
      rw [ho'] at this
      exact this
    have hs2 := depthSorted_of_same_place l1 l2 h hs
    unfold reorder orderDEPTH
    simpa using foldl_insert_of_sorted l2 [] (by simpa using hs2)


/-! ### COMPDAT re-entry under any COMPORD -/

/-- Every connection's depth is the depth the grid reports for its cell (true of every
connection `loadCOMPDAT` creates or replaces). -/
def DepthOfGrid (grid : Grid α) (cs : List (Conn α)) : Prop :=
  ∀ c ∈ cs, ∃ cell, grid c.i c.j c.k = some (cell, c.depth)

theorem upsert_length_ge (one : α) (cs : List (Conn α)) (n : NewConn α) :
    cs.length ≤ (upsert one cs n).length := (upsert_idPrefix one cs n).length_le

theorem mem_replaceFirst' {β : Type} (p : β → Bool) (f : β → β) (l : List β) (x : β)
    (h : x ∈ replaceFirst p f l) : x ∈ l ∨ ∃ y ∈ l, p y = true ∧ x = f y := by
  induction l with
  | nil => simp [replaceFirst] at h
  | cons c cs ih =>
    unfold replaceFirst at h
    split at h
    · rename_i hp
      rcases List.mem_cons.mp h with rfl | h
      · right; exact ⟨c, List.mem_cons_self, hp, rfl⟩
      · left; exact List.mem_cons_of_mem _ h
    · rcases List.mem_cons.mp h with rfl | h
      · left; exact List.mem_cons_self
      · rcases ih h with h | ⟨y, hy, hpy, rfl⟩
        · left; exact List.mem_cons_of_mem _ h
        · right; exact ⟨y, List.mem_cons_of_mem _ hy, hpy, rfl⟩

theorem upsert_depthOfGrid (grid : Grid α) (one : α) (cs : List (Conn α)) (n : NewConn α)
    (hn : ∃ cell, grid n.i n.j n.k = some (cell, n.depth)) (h : DepthOfGrid grid cs) :
    DepthOfGrid grid (upsert one cs n) := by
  intro c hc
  unfold upsert at hc
  split at hc
  · rcases mem_replaceFirst' _ _ _ _ hc with hc | ⟨y, _, _, rfl⟩
    · exact h c hc
    · exact hn
  · rcases List.mem_append.mp hc with hc | hc
    · exact h c hc
    · rw [List.mem_singleton.mp hc]; exact hn

/-- A replacement (no connection added) leaves cells and depths along the list as they were. -/
theorem upsert_place (grid : Grid α) (one : α) (cs : List (Conn α)) (n : NewConn α)
    (hn : ∃ cell, grid n.i n.j n.k = some (cell, n.depth)) (h : DepthOfGrid grid cs)
    (hlen : (upsert one cs n).length = cs.length) :
    (upsert one cs n).map Conn.place = cs.map Conn.place := by
  unfold upsert at hlen ⊢
  split
  · rename_i hany
    -- replace in place: the replaced connection sits in cell (n.i, n.j, n.k), whose depth is n.depth
    have key : ∀ l : List (Conn α), (∀ c ∈ l, ∃ cell, grid c.i c.j c.k = some (cell, c.depth)) →
        (replaceFirst (fun c => c.at n.i n.j n.k) (replaceWith one n) l).map Conn.place = l.map Conn.place := by
      intro l
      induction l with
      | nil => intro _; rfl
      | cons c cs ih =>
        intro hl
        unfold replaceFirst
        split
        · rename_i hat
          obtain ⟨h1, h2, h3⟩ := at_eq_true hat
          obtain ⟨cell, hcell⟩ := hl c List.mem_cons_self
          obtain ⟨cell', hcell'⟩ := hn
          rw [h1, h2, h3, hcell'] at hcell
          have hd : n.depth = c.depth := by
            injection hcell with hcell; injection hcell
          simp only [List.map_cons, List.cons.injEq, and_true]
          unfold Conn.place replaceWith
          simp [h1, h2, hd]
        · simp only [List.map_cons, List.cons.injEq, true_and]
          exact ih (fun d hd => hl d (List.mem_cons_of_mem _ hd))
    exact key cs h
  · rename_i hany
    rw [if_neg hany] at hlen
    simp at hlen

end

section
variable [LinearOrder α] [Sub α] [Add α] [Mul α] [Div α]

theorem compdatLoop_length_ge (F : Fns α) (one : α) (grid : Grid α) (I J : Int) (st : State) (inp : Input α)
    (ks : List Int) (cs : List (Conn α)) : cs.length ≤ (compdatLoop F one grid I J st inp ks cs).length :=
  (compdatLoop_idPrefix F one grid I J st inp ks cs).length_le

theorem compdatLoop_depthOfGrid (F : Fns α) (one : α) (grid : Grid α) (I J : Int) (st : State) (inp : Input α)
    (ks : List Int) (cs : List (Conn α)) (h : DepthOfGrid grid cs) :
    DepthOfGrid grid (compdatLoop F one grid I J st inp ks cs) := by
  induction ks generalizing cs with
  | nil => exact h
  | cons k ks ih =>
    unfold compdatLoop
    split
    · exact ih cs h
    · rename_i cell depth hg
      exact ih _ (upsert_depthOfGrid grid one cs _ ⟨cell, hg⟩ h)

theorem compdatLoop_place (F : Fns α) (one : α) (grid : Grid α) (I J : Int) (st : State) (inp : Input α)
    (ks : List Int) (cs : List (Conn α)) (h : DepthOfGrid grid cs)
    (hlen : (compdatLoop F one grid I J st inp ks cs).length = cs.length) :
    (compdatLoop F one grid I J st inp ks cs).map Conn.place = cs.map Conn.place := by
  induction ks generalizing cs with
  | nil => rfl
  | cons k ks ih =>
    cases hg : grid I J k with
    | none =>
      simp only [compdatLoop, hg] at hlen ⊢
      exact ih cs h hlen
    | some p =>
      obtain ⟨cell, depth⟩ := p
      simp only [compdatLoop, hg] at hlen ⊢
      generalize hn : ({ i := I, j := J, k := k, state := st, dir := inp.dir, ctf := ctfOf F inp cell, fromDeck := ctfFromDeck F inp, depth := depth } : NewConn α) = n at hlen ⊢
      have hgn : ∃ cell, grid n.i n.j n.k = some (cell, n.depth) := by
        subst hn; exact ⟨cell, hg⟩
      have h1 := upsert_length_ge one cs n
      have h2 := compdatLoop_length_ge F one grid I J st inp ks (upsert one cs n)
      have hl1 : (upsert one cs n).length = cs.length := by omega
      rw [ih _ (upsert_depthOfGrid grid one cs n hgn h) (by omega)]
      exact upsert_place grid one cs n hgn h hl1

/-- **COMPDAT re-entry under any COMPORD**: when the record adds no connection (every cell it
addresses is inactive or already connected) on a well that is in its COMPORD order, the
`order()` that follows is the identity — so `compdat_frame` and `compdat_keeps_identities`
hold position by position for TRACK and DEPTH too. -/
theorem step_compdat_reentry (E : Env α) (w : WellConns α) (ho : Ordered E w.conns)
    (hd : DepthOfGrid E.grid w.conns) (r : CompdatRec α)
    (hlen : (loadCompdat E.F E.one E.grid E.headI E.headJ r w.conns).length = w.conns.length) :
    (step E w (.compdat r)).conns = loadCompdat E.F E.one E.grid E.headI E.headJ r w.conns := by
  simp only [step]
  apply ordered_of_same_place E.F E.ord E.headI E.headJ w.conns _ _ ho
  unfold loadCompdat at hlen ⊢
  exact (compdatLoop_place _ _ _ _ _ _ _ _ _ hd hlen).symm

/-- The depth invariant holds along every history. -/
theorem step_depthOfGrid (E : Env α) (w : WellConns α) (hd : DepthOfGrid E.grid w.conns) (op : Op α) :
    DepthOfGrid E.grid (step E w op).conns := by
  have perm_inv : ∀ l : List (Conn α), DepthOfGrid E.grid l →
      DepthOfGrid E.grid (reorder E.F E.ord E.headI E.headJ l) := by
    intro l hl c hc
    exact hl c ((reorder_perm _ _ _ _ _).mem_iff.mp hc)
  have map_inv : ∀ (f : Conn α → Conn α), (∀ c, (f c).i = c.i ∧ (f c).j = c.j ∧ (f c).k = c.k ∧ (f c).depth = c.depth) →
      ∀ l, DepthOfGrid E.grid l → DepthOfGrid E.grid (l.map f) := by
    intro f hf l hl c hc
    obtain ⟨d, hd', rfl⟩ := List.mem_map.mp hc
    obtain ⟨h1, h2, h3, h4⟩ := hf d
    rw [h1, h2, h3, h4]
    exact hl d hd'
  cases op with
  | compdat r =>
    simp only [step]
    apply perm_inv
    unfold loadCompdat
    exact compdatLoop_depthOfGrid _ _ _ _ _ _ _ _ _ hd
  | wpimult f s =>
    simp only [step]; split
    · exact hd
    · apply perm_inv
      unfold wpimultSel
      exact map_inv _ (by intro c; split <;> exact ⟨rfl, rfl, rfl, rfl⟩) _ hd
  | welopen st s =>
    simp only [step]; split
    · exact hd
    · apply perm_inv
      unfold welopenSel
      exact map_inv _ (by intro c; split <;> exact ⟨rfl, rfl, rfl, rfl⟩) _ hd
  | complump n s =>
    simp only [step]
    apply perm_inv
    unfold complumpSel
    exact map_inv _ (by intro c; split <;> exact ⟨rfl, rfl, rfl, rfl⟩) _ hd
  | endStep =>
    simp only [step]; split
    · exact hd
    · apply perm_inv
      unfold wpimultAll
      exact map_inv (scaleWellPi _) (fun c => ⟨rfl, rfl, rfl, rfl⟩) _ hd

theorem run_depthOfGrid (E : Env α) (ops : List (Op α)) (w : WellConns α) (hd : DepthOfGrid E.grid w.conns) :
    DepthOfGrid E.grid (run E ops w).conns := by
  induction ops generalizing w with
  | nil => exact hd
  | cons op ops ih => unfold run; exact ih _ (step_depthOfGrid E w hd op)

end

end OpmVerif.Conns
