/-
  The connection ordering of a well (COMPORD: TRACK / DEPTH / INPUT) is fixed when WELSPECS
  creates the well — from the COMPORD keyword of that very report step — and no later input,
  further COMPORD keywords included, changes it.
-/
import OpmVerif.Proofs.SchedCommute

namespace OpmVerif.Sched

/-- The ordering of well `w` in a well list (none: no such well). -/
def ordIn (ws : List (String × WellP)) (w : String) : Option Nat := (lookup ws w).map (·.order)

/-- The ordering of well `w` in a state. -/
def ordOf (s : State) (w : String) : Option Nat := ordIn s.p.wells w

theorem ordIn_modify (ws : List (String × WellP)) (n w : String) (f : WellP → WellP) (hf : ∀ x, (f x).order = x.order) :
    ordIn (modify ws n f) w = ordIn ws w := by
  unfold ordIn
  rw [lookup_modify]
  by_cases hw : w = n
  · subst hw
    simp only [if_true, Option.map_map]
    cases lookup ws w with
    | none => rfl
    | some x => simp [hf x]
  · simp [hw]

theorem ordIn_modify_const (ws : List (String × WellP)) (n w : String) (x x' : WellP) (hl : lookup ws n = some x)
    (ho : x'.order = x.order) : ordIn (modify ws n fun _ => x') w = ordIn ws w := by
  unfold ordIn
  rw [lookup_modify]
  by_cases hw : w = n
  · subst hw; simp [hl, ho]
  · simp [hw]

theorem forWells_ord (ws : List (String × WellP)) (f : String → WellP → Except Err WellP) (ns : List String)
    (ws' : List (String × WellP)) (hf : ∀ n x x', f n x = .ok x' → x'.order = x.order)
    (h : forWells ws f ns = .ok ws') (w : String) : ordIn ws' w = ordIn ws w := by
  induction ns generalizing ws with
  | nil => simp only [forWells, Except.ok.injEq] at h; subst h; rfl
  | cons n r ih =>
    simp only [forWells] at h
    cases hl : lookup ws n with
    | none => rw [hl] at h; cases h
    | some x =>
      rw [hl] at h; simp only [] at h
      cases hx : f n x with
      | error e => rw [hx] at h; cases h
      | ok x' =>
        rw [hx] at h; simp only [] at h
        rw [ih _ h, ordIn_modify_const ws n w x x' hl (hf n x x' hx)]

theorem regroup_ord (e : String → Bool) (group : String) (i j : Option Nat) (wl : List (String × WellP))
    (gs : List (String × GroupP)) (ns : List String) (wl' : List (String × WellP)) (gs' : List (String × GroupP))
    (h : regroup e group i j wl gs ns = .ok (wl', gs')) (w : String) : ordIn wl' w = ordIn wl w := by
  induction ns generalizing wl gs with
  | nil => simp only [regroup, Except.ok.injEq, Prod.mk.injEq] at h; rw [← h.1]
  | cons n r ih =>
    simp only [regroup] at h
    cases hl : lookup wl n with
    | none => rw [hl] at h; cases h
    | some x =>
      rw [hl] at h; simp only [] at h
      split at h
      · cases h
      · cases ha : addWellToGroup gs x.group group n with
        | error y => rw [ha] at h; cases h
        | ok g2 =>
          rw [ha] at h; simp only [] at h
          rw [ih _ _ h]; exact ordIn_modify _ _ _ _ (fun _ => rfl)

theorem ordIn_append_new (ws : List (String × WellP)) (name w : String) (x : WellP) (o : Nat)
    (h : ordIn ws w = some o) : ordIn (ws ++ [(name, x)]) w = some o := by
  unfold ordIn at h ⊢
  induction ws with
  | nil => simp [lookup] at h
  | cons y r ih =>
    obtain ⟨k', v'⟩ := y
    simp only [List.cons_append, lookup] at h ⊢
    by_cases hk : k' = w
    · simp only [hk, if_true] at h ⊢; exact h
    · simp only [hk, if_false] at h ⊢; exact ih h

/-- No property record changes the ordering of an existing well. -/
theorem stepP_ord (k : Consts) (m : List String) (e : String → Bool) (p : Props) (r : ROp) (p' : Props)
    (ws : List (String × Status)) (h : stepP k m e p r = .ok (p', ws)) (w : String) (o : Nat)
    (hw : ordIn p.wells w = some o) : ordIn p'.wells w = some o := by
  cases r with
  | welspecs name group i j =>
    simp only [stepP] at h
    split at h
    · cases h
    · split at h
      · cases h
      · split at h
        · split at h
          · split at h
            · cases h
            · simp only [Except.ok.injEq, Prod.mk.injEq] at h
              rw [← h.1]; exact ordIn_append_new _ _ _ _ _ hw
          · cases h
        · split at h
          · cases h
          · rename_i wl gs' hr
            simp only [Except.ok.injEq, Prod.mk.injEq] at h
            rw [← h.1]; simp only []
            rw [regroup_ord (h := hr)]; exact hw
  | wconprod r =>
    simp only [stepP] at h
    split at h
    · cases h
    · split at h
      · cases h
      · rename_i wl hf
        simp only [Except.ok.injEq, Prod.mk.injEq] at h
        rw [← h.1]; simp only []
        rw [forWells_ord _ _ _ _ ?_ hf]; exact hw
        intro n x x' hx
        split at hx
        · cases hx
        · split at hx <;> (simp only [Except.ok.injEq] at hx; rw [← hx])
  | wconinje r =>
    simp only [stepP] at h
    split at h
    · cases h
    · split at h
      · cases h
      · rename_i wl hf
        simp only [Except.ok.injEq, Prod.mk.injEq] at h
        rw [← h.1]; simp only []
        rw [forWells_ord _ _ _ _ ?_ hf]; exact hw
        intro n x x' hx
        split at hx
        · cases hx
        · simp only [Except.ok.injEq] at hx; rw [← hx]
  | wconhist r =>
    simp only [stepP] at h
    split at h
    · cases h
    · split at h
      · cases h
      · rename_i wl hf
        simp only [Except.ok.injEq, Prod.mk.injEq] at h
        rw [← h.1]; simp only []
        rw [forWells_ord _ _ _ _ ?_ hf]; exact hw
        intro n x x' hx
        split at hx
        · cases hx
        · split at hx <;> (simp only [Except.ok.injEq] at hx; rw [← hx])
  | wconinjh r =>
    simp only [stepP] at h
    split at h
    · cases h
    · split at h
      · cases h
      · rename_i wl hf
        simp only [Except.ok.injEq, Prod.mk.injEq] at h
        rw [← h.1]; simp only []
        rw [forWells_ord _ _ _ _ ?_ hf]; exact hw
        intro n x x' hx
        split at hx
        · cases hx
        · simp only [Except.ok.injEq] at hx; rw [← hx]
  | weltarg pat mode v =>
    simp only [stepP] at h
    split at h
    · cases h
    · split at h
      · cases h
      · rename_i wl hf
        simp only [Except.ok.injEq, Prod.mk.injEq] at h
        rw [← h.1]; simp only []
        rw [forWells_ord _ _ _ _ ?_ hf]; exact hw
        intro n x x' hx
        split at hx
        · split at hx
          · cases hx
          · simp only [Except.ok.injEq] at hx; rw [← hx]
        · split at hx
          · cases hx
          · simp only [Except.ok.injEq] at hx; rw [← hx]
  | wefac pat v =>
    simp only [stepP] at h
    split at h
    · cases h
    · split at h
      · cases h
      · rename_i wl hf
        simp only [Except.ok.injEq, Prod.mk.injEq] at h
        rw [← h.1]; simp only []
        rw [forWells_ord _ _ _ _ ?_ hf]; exact hw
        intro n x x' hx
        simp only [Except.ok.injEq] at hx; rw [← hx]
  | wecon pat o' c wo =>
    simp only [stepP] at h
    split at h
    · cases h
    · split at h
      · cases h
      · rename_i wl hf
        simp only [Except.ok.injEq, Prod.mk.injEq] at h
        rw [← h.1]; simp only []
        rw [forWells_ord _ _ _ _ ?_ hf]; exact hw
        intro n x x' hx
        simp only [Except.ok.injEq] at hx; rw [← hx]
  | welopenW pat st =>
    simp only [stepP] at h
    split at h
    · cases h
    · simp only [Except.ok.injEq, Prod.mk.injEq] at h
      rw [← h.1]; exact hw
  | wtest pat i rs n su =>
    simp only [stepP] at h
    split at h
    · cases h
    · simp only [Except.ok.injEq, Prod.mk.injEq] at h
      rw [← h.1]; exact hw
  | gefac pat v =>
    simp only [stepP] at h
    split at h
    · cases h
    · simp only [Except.ok.injEq, Prod.mk.injEq] at h
      rw [← h.1]; exact hw
  | gconprod r =>
    simp only [stepP] at h
    split at h
    · cases h
    · simp only [Except.ok.injEq, Prod.mk.injEq] at h
      rw [← h.1]; exact hw
  | gconinje r =>
    simp only [stepP] at h
    split at h
    · cases h
    · simp only [Except.ok.injEq, Prod.mk.injEq] at h
      rw [← h.1]; exact hw
  | whistctl mode =>
    simp only [stepP, Except.ok.injEq, Prod.mk.injEq] at h
    rw [← h.1]
    simp only []
    unfold ordIn at hw ⊢
    generalize p.wells = wl at hw ⊢
    induction wl with
    | nil => simp [lookup] at hw
    | cons y r ih =>
      obtain ⟨k', v'⟩ := y
      simp only [List.map_cons, lookup] at hw ⊢
      by_cases hk : k' = w
      · split
        · simp only [hk, if_true] at hw ⊢; exact hw
        · split
          · simp only [hk, if_true] at hw ⊢; exact hw
          · simp only [hk, if_true] at hw ⊢; exact hw
      · split
        · simp only [hk, if_false] at hw ⊢; exact ih hw
        · split
          · simp only [hk, if_false] at hw ⊢; exact ih hw
          · simp only [hk, if_false] at hw ⊢; exact ih hw
  | wlist name action wells =>
    simp only [stepP] at h
    split at h
    · cases h
    · split at h
      · cases h
      · simp only [Except.ok.injEq, Prod.mk.injEq] at h
        rw [← h.1]; exact hw
  | gruptree c pa =>
    simp only [stepP] at h
    split at h
    · cases h
    · split at h
      · cases h
      · split at h
        · cases h
        · simp only [Except.ok.injEq, Prod.mk.injEq] at h
          rw [← h.1]; exact hw
  | nextstep v a =>
    simp only [stepP, Except.ok.injEq, Prod.mk.injEq] at h
    rw [← h.1]; exact hw
  | udq act q d =>
    simp only [stepP] at h
    split at h
    · split at h
      · split at h
        · simp only [Except.ok.injEq, Prod.mk.injEq] at h
          rw [← h.1]; exact hw
        · cases h
      · simp only [Except.ok.injEq, Prod.mk.injEq] at h
        rw [← h.1]; exact hw
    · simp only [Except.ok.injEq, Prod.mk.injEq] at h
      rw [← h.1]; exact hw
    · simp only [Except.ok.injEq, Prod.mk.injEq] at h
      rw [← h.1]; exact hw
  | compdat pat i j k1 k2 st => simp [stepP] at h
  | welopenC pat cs i j kk c1 c2 => simp [stepP] at h
  | complump pat i j k1 k2 n => simp [stepP] at h
  | wpimultC pat f i j kk c1 c2 => simp [stepP] at h
  | wpimultG pat f => simp [stepP] at h

theorem stepR_ord (k : Consts) (m : List String) (s s' : State) (r : ROp) (h : stepR k m s r = .ok s') (w : String) (o : Nat)
    (hw : ordOf s w = some o) : ordOf s' w = some o := by
  unfold stepR at h
  split at h
  · cases hc : stepC k m s.p s.c r with
    | error e => rw [hc] at h; cases h
    | ok c' => rw [hc] at h; simp only [Except.ok.injEq] at h; rw [← h]; exact hw
  · cases hp : stepP k m (emp s.c) s.p r with
    | error e => rw [hp] at h; cases h
    | ok v =>
      obtain ⟨p', ws⟩ := v
      rw [hp] at h; simp only [Except.ok.injEq] at h; rw [← h]
      exact stepP_ord k m _ s.p r p' ws hp w o hw

theorem runOps_ord (k : Consts) (m : List String) (rs : List ROp) (s s' : State) (h : runOps k m s rs = .ok s') (w : String) (o : Nat)
    (hw : ordOf s w = some o) : ordOf s' w = some o := by
  induction rs generalizing s with
  | nil => simp only [runOps, Except.ok.injEq] at h; rw [← h]; exact hw
  | cons r rs ih =>
    simp only [runOps] at h
    cases h1 : stepR k m s r with
    | error e => rw [h1] at h; cases h
    | ok s1 => rw [h1] at h; exact ih s1 h (stepR_ord k m s s1 r h1 w o hw)

theorem handle_ord (k : Consts) (m : List String) (kw : CKw) (s s' : State) (h : handle k m s kw = .ok s') (w : String) (o : Nat)
    (hw : ordOf s w = some o) : ordOf s' w = some o := by
  cases kw with
  | ops n rs => exact runOps_ord k m rs s s' h w o hw
  | actionx a => simp only [handle, Except.ok.injEq] at h; rw [← h]; exact hw
  | endactio => simp only [handle, Except.ok.injEq] at h; rw [← h]; exact hw
  | compord c => simp only [handle, Except.ok.injEq] at h; rw [← h]; exact hw
  | msw op =>
    simp only [handle] at h
    cases hs : segStep s.p op with
    | error e => rw [hs] at h; cases h
    | ok sm => rw [hs] at h; simp only [Except.ok.injEq] at h; rw [← h]; exact hw

theorem runKws_ord (k : Consts) (kws : List CKw) (acc : Option (String × List CKw)) (s s' : State)
    (h : runKws k acc s kws = .ok s') (w : String) (o : Nat) (hw : ordOf s w = some o) : ordOf s' w = some o := by
  induction kws generalizing acc s with
  | nil =>
    cases acc with
    | none => simp only [runKws, Except.ok.injEq] at h; rw [← h]; exact hw
    | some x => simp [runKws] at h
  | cons kw r ih =>
    cases acc with
    | none =>
      cases kw with
      | actionx n => simp only [runKws] at h; exact ih _ _ h hw
      | ops n rs =>
        simp only [runKws] at h
        cases hh : handle k [] s (.ops n rs) with
        | error e => rw [hh] at h; cases h
        | ok u => rw [hh] at h; exact ih _ u h (handle_ord k [] _ s u hh w o hw)
      | endactio => simp only [runKws, handle] at h; exact ih _ _ h hw
      | compord c => simp only [runKws, handle] at h; exact ih _ _ h hw
      | msw op =>
        simp only [runKws] at h
        cases hh : handle k [] s (.msw op) with
        | error e => rw [hh] at h; cases h
        | ok u => rw [hh] at h; exact ih _ u h (handle_ord k [] _ s u hh w o hw)
    | some x =>
      obtain ⟨n, ac⟩ := x
      cases kw with
      | endactio => simp only [runKws] at h; exact ih _ _ h hw
      | ops n' rs => simp only [runKws] at h; exact ih _ _ h hw
      | actionx n' => simp only [runKws] at h; exact ih _ _ h hw
      | compord c => simp only [runKws] at h; cases h
      | msw op => simp only [runKws] at h; exact ih _ _ h hw

/-- A whole report step — its COMPORD keyword included — leaves the ordering of every well that
existed before the step as it was. -/
theorem stepBlock_ord (k : Consts) (s s' : State) (b : List CKw) (h : stepBlock k s b = .ok s') (w : String) (o : Nat)
    (hw : ordOf s w = some o) : ordOf s' w = some o := by
  unfold stepBlock at h
  cases hk : runKws k none (beginBlock s b) b with
  | error e => rw [hk] at h; cases h
  | ok t =>
    rw [hk] at h; simp only [Except.ok.injEq] at h
    rw [← h]
    exact runKws_ord k b none _ t hk w o hw

theorem runFrom_ord (k : Consts) (bs : List (List CKw)) (s : State) (ss : List State) (h : runFrom k s bs = .ok ss)
    (w : String) (o : Nat) (hw : ordOf s w = some o) : ∀ x ∈ ss, ordOf x w = some o := by
  induction bs generalizing s ss with
  | nil => simp only [runFrom, Except.ok.injEq] at h; subst h; simp
  | cons b r ih =>
    simp only [runFrom] at h
    cases h1 : stepBlock k s b with
    | error e => rw [h1] at h; cases h
    | ok s1 =>
      rw [h1] at h; simp only [] at h
      cases h2 : runFrom k s1 r with
      | error e => rw [h2] at h; cases h
      | ok t =>
        rw [h2] at h; simp only [Except.ok.injEq] at h; subst h
        have h1o := stepBlock_ord k s s1 b h1 w o hw
        intro x hx
        simp only [List.mem_cons] at hx
        rcases hx with hx | hx
        · rw [hx]; exact h1o
        · exact ih s1 t h2 h1o x hx

/-- Snapshot `i` knows the well with ordering `o` ⇒ every later snapshot of the same run does,
whatever the blocks after `i` contain. -/
theorem run_order_fixed (k : Consts) (a b : List (List CKw)) (ss : List State) (h : run k (a ++ b) = .ok ss)
    (w : String) (o : Nat) (si : State) (hi : (ss.take a.length).getLast? = some si) (hw : ordOf si w = some o) :
    ∀ x ∈ ss.drop a.length, ordOf x w = some o := by
  unfold run at h
  have ha := runFrom_prefix h
  rw [runFrom_append ha] at h
  cases hb : runFrom k ((ss.take a.length).getLastD (init k)) b with
  | error e => rw [hb] at h; cases h
  | ok sb =>
    rw [hb] at h
    simp only [Except.ok.injEq] at h
    have hlast : (ss.take a.length).getLastD (init k) = si := by
      cases hl : ss.take a.length with
      | nil => rw [hl] at hi; simp at hi
      | cons y r =>
        rw [hl] at hi
        rw [List.getLastD_eq_getLast?, hi]; rfl
    rw [hlast] at hb
    have hlen : (ss.take a.length).length = a.length := runFrom_length ha
    have e : ss.drop a.length = sb := by
      have h' : ss = ss.take a.length ++ sb := h.symm
      conv => lhs; rw [h']
      rw [List.drop_append_of_le_length (by omega), List.drop_of_length_le (by omega)]
      simp
    rw [e]
    exact runFrom_ord k b si sb hb w o hw

end OpmVerif.Sched
