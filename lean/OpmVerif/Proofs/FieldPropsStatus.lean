/-
  C12 — the `value_status` state machine of `FieldData` and the box carry-over rules.

  * A: cell level.  `StatusStep a b` ("a cell that has a value never loses it; `empty_default`
    is never produced") holds for every element kernel of the model; a `deck_value` is sticky
    under everything except OPERATE; where a `valid_default` can come from.
  * B: array level (`refApply`, `implApply`, "distribute top layer", `mulInto`).
  * C: whole programs: no `empty_default` is ever stored (`NoEmpty`), in both semantics, hence
    `FieldData::valid()` ⇔ "no uninitialised cell".
  * D: box carry-over rules (`Box::update`, record boxes, BOX/ENDBOX, fresh box per section).
  * E: no keyword un-defines a cell.

  Core Lean only.
-/
import OpmVerif.Proofs.FieldProps

namespace OpmVerif.FieldProps

/-! ## A. status transitions at cell level -/

/-- integer stand-in for the real operations, for the examples only -/
local instance statusRealOpsInt : RealOps Int where
  one := 1
  ten := 10
  div := (· / ·)
  pow := fun a b => a ^ b.toNat
  log10 := id
  log := id
  abs := fun a => (a.natAbs : Int)
  trunc := id
  isZero := fun a => decide (a = 0)

/-- one step of the status of a cell: a value is never lost, `empty_default` never appears -/
def StatusStep (a b : Status) : Prop :=
  (a.hasValue = true → b.hasValue = true) ∧ (b = .emptyDefault → a = .emptyDefault)

instance (a b : Status) : Decidable (StatusStep a b) := by
  unfold StatusStep; exact inferInstance

theorem StatusStep.refl (a : Status) : StatusStep a a := ⟨id, id⟩

theorem StatusStep.trans {a b c : Status} (h1 : StatusStep a b) (h2 : StatusStep b c) : StatusStep a c :=
  ⟨fun h => h2.1 (h1.1 h), fun h => h1.2 (h2.2 h)⟩

/-- all four edges out of `uninit`/into values are allowed, none into `emptyDefault` -/
theorem statusStep_iff (a b : Status) :
    StatusStep a b ↔ (b = .emptyDefault → a = .emptyDefault) ∧ (b = .uninit → a = .uninit ∨ a = .emptyDefault) := by
  cases a <;> cases b <;> simp [StatusStep, Status.hasValue]

example : StatusStep .uninit .validDefault ∧ StatusStep .validDefault .deckValue ∧
    StatusStep .deckValue .validDefault ∧ ¬ StatusStep .deckValue .uninit ∧
    ¬ StatusStep .uninit .emptyDefault := by
  simp [StatusStep, Status.hasValue]

/-- a kernel whose update obeys the transition system, whatever the source cell -/
def Kernel.StatusOK {α : Type} (K : Kernel α) : Prop := ∀ d s t, StatusStep t.st (K.upd d s t).st

section CellLevel
variable {α : Type}

theorem scalarKernel_statusOK [Scalar α] (op : ScalarOp) (x : α) : (scalarKernel op x).StatusOK := by
  intro d s t
  obtain ⟨st, v⟩ := t
  cases op <;> cases st <;> simp [scalarKernel, StatusStep, Status.hasValue]

theorem assignKernel_statusOK [Scalar α] (deck : Arr α) : (assignKernel deck).StatusOK := by
  intro d s t
  obtain ⟨st, v⟩ := t
  simp only [assignKernel]
  generalize cellAt deck d = c
  obtain ⟨cs, cv⟩ := c
  cases cs <;> cases st <;> simp [StatusStep, Status.hasValue]

theorem copyKernel_statusOK : (copyKernel : Kernel α).StatusOK := by
  intro d s t
  obtain ⟨st, v⟩ := t
  obtain ⟨ss, sv⟩ := s
  cases ss <;> cases st <;> simp [copyKernel, StatusStep, Status.hasValue]

theorem operateKernel_statusOK (fn : α → α → α) (chk : Bool) : (operateKernel fn chk).StatusOK := by
  intro d s t
  obtain ⟨st, v⟩ := t
  obtain ⟨ss, sv⟩ := s
  cases chk <;> cases ss <;> cases st <;> simp [operateKernel, StatusStep, Status.hasValue]

/-- **A1** every element kernel of the model obeys the transition system -/
theorem kernel_status_step [Scalar α] (d : Nat) (s t : Cell α) :
    (∀ op x, StatusStep t.st ((scalarKernel op x).upd d s t).st) ∧
    (∀ deck, StatusStep t.st ((assignKernel deck).upd d s t).st) ∧
    StatusStep t.st ((copyKernel : Kernel α).upd d s t).st ∧
    (∀ fn chk, StatusStep t.st ((operateKernel fn chk).upd d s t).st) :=
  ⟨fun op x => scalarKernel_statusOK op x d s t, fun deck => assignKernel_statusOK deck d s t,
   copyKernel_statusOK d s t, fun fn chk => operateKernel_statusOK fn chk d s t⟩

example : StatusStep (⟨.uninit, 0⟩ : Cell Int).st
    ((assignKernel [⟨.validDefault, (7 : Int)⟩]).upd 0 ⟨.uninit, 0⟩ ⟨.uninit, 0⟩).st ∧
    ((assignKernel [⟨.validDefault, (7 : Int)⟩]).upd 0 ⟨.uninit, 0⟩ ⟨.uninit, 0⟩) = ⟨.validDefault, 7⟩ := by
  decide

/-- **A2** a `deck_value` cell stays a `deck_value` cell under the scalar operations … -/
theorem deck_value_sticky_scalar [Scalar α] (op : ScalarOp) (x : α) (d : Nat) (s t : Cell α)
    (h : t.st = .deckValue) : ((scalarKernel op x).upd d s t).st = .deckValue := by
  obtain ⟨st, v⟩ := t
  simp only at h
  subst h
  cases op <;> simp [scalarKernel, Status.hasValue]

/-- … under deck assignment (a defaulted deck item never overwrites it) … -/
theorem deck_value_sticky_assign [Scalar α] (deck : Arr α) (d : Nat) (s t : Cell α)
    (h : t.st = .deckValue) : ((assignKernel deck).upd d s t).st = .deckValue := by
  obtain ⟨st, v⟩ := t
  simp only at h
  subst h
  simp only [assignKernel]
  generalize cellAt deck d = c
  obtain ⟨cs, cv⟩ := c
  cases cs <;> simp [Status.hasValue]

/-- … and under COPY. -/
theorem deck_value_sticky_copy (d : Nat) (s t : Cell α)
    (h : t.st = .deckValue) : ((copyKernel : Kernel α).upd d s t).st = .deckValue := by
  obtain ⟨st, v⟩ := t
  obtain ⟨ss, sv⟩ := s
  simp only at h
  subst h
  cases ss <;> simp [copyKernel]

theorem deck_value_sticky [Scalar α] (d : Nat) (s t : Cell α) (h : t.st = .deckValue) :
    (∀ op x, ((scalarKernel op x).upd d s t).st = .deckValue) ∧
    (∀ deck, ((assignKernel deck).upd d s t).st = .deckValue) ∧
    ((copyKernel : Kernel α).upd d s t).st = .deckValue :=
  ⟨fun op x => deck_value_sticky_scalar op x d s t h, fun deck => deck_value_sticky_assign deck d s t h,
   deck_value_sticky_copy d s t h⟩

/-- OPERATE copies the status of the SOURCE cell … -/
theorem operate_status_of_source (fn : α → α → α) (chk : Bool) (d : Nat) (s t : Cell α)
    (hs : s.st.hasValue = true) (ht : t.st.hasValue = true) :
    ((operateKernel fn chk).upd d s t).st = s.st := by
  cases chk <;> simp [operateKernel, hs, ht]

/-- … so it is the one operation that turns a deck value into a default. -/
example : ((operateKernel (fun _ x => x) false).upd 0 (⟨.validDefault, 3⟩ : Cell Int) ⟨.deckValue, 5⟩)
    = ⟨.validDefault, 3⟩ := by decide

/-- **A3** the scalar operations never create a `valid_default` (EQUALS gives `deck_value`,
the others keep the status) … -/
theorem valid_default_origin_scalar [Scalar α] (op : ScalarOp) (x : α) (d : Nat) (s t : Cell α)
    (h : ((scalarKernel op x).upd d s t).st = .validDefault) : op ≠ .equal ∧ t.st = .validDefault := by
  obtain ⟨st, v⟩ := t
  cases op <;> cases st <;> simp [scalarKernel, Status.hasValue] at h ⊢

/-- … COPY neither (it writes `deck_value` cells or nothing) … -/
theorem valid_default_origin_copy (d : Nat) (s t : Cell α)
    (h : ((copyKernel : Kernel α).upd d s t).st = .validDefault) : t.st = .validDefault := by
  obtain ⟨st, v⟩ := t
  obtain ⟨ss, sv⟩ := s
  cases ss <;> cases st <;> simp [copyKernel] at h ⊢

/-- … a deck assignment only by a defaulted deck item landing on an uninitialised cell. -/
theorem valid_default_origin_assign [Scalar α] (deck : Arr α) (d : Nat) (s t : Cell α)
    (h : ((assignKernel deck).upd d s t).st = .validDefault) :
    t.st = .validDefault ∨ (t.st = .uninit ∧ (cellAt deck d).st = .validDefault) := by
  obtain ⟨st, v⟩ := t
  simp only [assignKernel] at h ⊢
  generalize cellAt deck d = c at h ⊢
  obtain ⟨cs, cv⟩ := c
  cases cs <;> cases st <;> simp [Status.hasValue] at h ⊢

example : ((assignKernel [⟨.validDefault, (7 : Int)⟩]).upd 0 ⟨.uninit, 0⟩ ⟨.uninit, 0⟩).st = .validDefault ∧
    (⟨.uninit, 0⟩ : Cell Int).st = .uninit ∧ (cellAt [⟨.validDefault, (7 : Int)⟩] 0).st = .validDefault := by
  decide

/-- **A4** "distribute top layer" on one cell -/
theorem topCell_of_init (tv : Option α) (c : Cell α) (h : c.st ≠ .uninit) : topCell tv c = c := by
  simp [topCell, h]

theorem topCell_of_uninit (v : α) (c : Cell α) (h : c.st = .uninit) :
    topCell (some v) c = ⟨.validDefault, v⟩ := by
  simp [topCell, h]

theorem topCell_none (c : Cell α) : topCell (none : Option α) c = c := by
  unfold topCell; split <;> rfl

theorem topCell_statusStep (tv : Option α) (c : Cell α) : StatusStep c.st (topCell tv c).st := by
  obtain ⟨st, v⟩ := c
  cases tv <;> cases st <;> simp [topCell, StatusStep, Status.hasValue]

theorem topCell_spec (tv : Option α) (v : α) (c : Cell α) :
    (c.st ≠ .uninit → topCell tv c = c) ∧
    (c.st = .uninit → topCell (some v) c = ⟨.validDefault, v⟩) ∧
    topCell (none : Option α) c = c ∧
    StatusStep c.st (topCell tv c).st :=
  ⟨topCell_of_init tv c, topCell_of_uninit v c, topCell_none c, topCell_statusStep tv c⟩

example : topCell (some (4 : Int)) ⟨.uninit, 0⟩ = ⟨.validDefault, 4⟩ ∧
    topCell (some (4 : Int)) ⟨.deckValue, 9⟩ = ⟨.deckValue, 9⟩ := by decide

end CellLevel

/-! ## B. array level -/

section ArrayLevel
variable {α : Type}

theorem cellAt_eq [Scalar α] (x : Arr α) (g : Nat) : cellAt x g = (x[g]?).getD blank := by
  simp [cellAt, List.getD_eq_getElem?_getD]

/-- **B** a reference operation with a well-behaved kernel moves the status of EVERY global
cell along the transition system (cells outside the selection and outside the array stay). -/
theorem refApply_statusStep [Scalar α] (K : Kernel α) (hK : K.StatusOK) (A : List Bool)
    (sel : Nat → Option Nat) (src tgt y : Arr α) (h : refApply K A sel src tgt = some y) (g : Nat) :
    StatusStep (cellAt tgt g).st (cellAt y g).st := by
  rw [refApply_value K A sel src tgt y h]
  simp only [cellAt_eq, List.getElem?_mapIdx]
  cases tgt[g]? with
  | none => exact StatusStep.refl _
  | some c =>
    simp only [Option.map_some, Option.getD_some, refUpd]
    split
    · exact hK _ _ _
    · exact StatusStep.refl _

example : refApply (scalarKernel .equal (5 : Int)) [true, false] (fun g => if g = 1 then some 0 else none)
    [] [⟨.uninit, 0⟩, ⟨.validDefault, 2⟩] = some [⟨.uninit, 0⟩, ⟨.deckValue, 5⟩] := by decide

theorem boxApply_ref_statusStep [Scalar α] (K : Kernel α) (hK : K.StatusOK) (D : Dims) (A : List Bool)
    (b : Box) (src tgt y : Arr α) (h : boxApply .ref D A K b src tgt = some y) (g : Nat) :
    StatusStep (cellAt tgt g).st (cellAt y g).st :=
  refApply_statusStep K hK A _ src tgt y h g

theorem regApply_ref_statusStep [Scalar α] (K : Kernel α) (hK : K.StatusOK) (A : List Bool)
    (reg : Arr Int) (r : Int) (src tgt y : Arr α) (h : regApply .ref A K reg r src tgt = some y) (g : Nat) :
    StatusStep (cellAt tgt g).st (cellAt y g).st :=
  refApply_statusStep K hK A _ src tgt y h g

theorem getElem?_mapFrom_st {β γ : Type} (f : Nat → β → γ) (s : Nat) (x : List β) (i : Nat) :
    (mapFrom f s x)[i]? = (x[i]?).map (f (s + i)) := by
  induction x generalizing s i with
  | nil => simp [mapFrom]
  | cons a xs ih =>
    cases i with
    | zero => simp [mapFrom]
    | succ i =>
      simp only [mapFrom, List.getElem?_cons_succ]
      rw [ih]
      congr 2
      omega

/-- "distribute top layer" (reference form) only moves cells along the transition system -/
theorem topApply_ref_statusStep [Scalar α] (D : Dims) (A : List Bool) (b : Box) (deck x : Arr α) (g : Nat) :
    StatusStep (cellAt x g).st (cellAt (topApply .ref D A b deck x) g).st := by
  simp only [topApply, cellAt_eq, getElem?_mapFrom_st]
  cases x[g]? with
  | none => exact StatusStep.refl _
  | some c => exact topCell_statusStep _ c

/-- … more precisely: a cell that is not `uninit` is not touched at all -/
theorem topApply_ref_init [Scalar α] (D : Dims) (A : List Bool) (b : Box) (deck x : Arr α) (g : Nat)
    (h : (cellAt x g).st ≠ .uninit) : cellAt (topApply .ref D A b deck x) g = cellAt x g := by
  simp only [topApply, cellAt_eq, getElem?_mapFrom_st] at h ⊢
  cases hx : x[g]? with
  | none => rfl
  | some c =>
    rw [hx] at h
    exact topCell_of_init _ c h

/-- **A4** the top-layer step is the identity outside (GRID section, `top` keyword) … -/
theorem topStep_noop [RealOps α] (m : Mode) (D : Dims) (A : List Bool) (sec : Section) (info : DInfo α)
    (b : Box) (deck y : Arr α) (h : ¬ (sec = .grid ∧ info.top = true)) :
    topStep m D A sec info b deck y = y := by
  unfold topStep
  rw [if_neg]
  intro hc
  exact h ⟨hc.1, hc.2.1⟩

/-- … and on an array that is already fully defined -/
theorem topStep_valid [RealOps α] (m : Mode) (D : Dims) (A : List Bool) (sec : Section) (info : DInfo α)
    (b : Box) (deck y : Arr α) (h : validArr m A y = true) :
    topStep m D A sec info b deck y = y := by
  unfold topStep
  rw [if_neg]
  intro hc
  rw [h] at hc
  exact absurd hc.2.2 (by decide)

theorem topStep_ref_statusStep [RealOps α] (D : Dims) (A : List Bool) (sec : Section) (info : DInfo α)
    (b : Box) (deck y : Arr α) (g : Nat) :
    StatusStep (cellAt y g).st (cellAt (topStep .ref D A sec info b deck y) g).st := by
  unfold topStep
  split
  · exact topApply_ref_statusStep D A b deck y g
  · exact StatusStep.refl _

example : topStep .ref ⟨1, 1, 2⟩ [true, true] .grid
      (⟨none, false, true, false, (1 : Int), 0, false⟩ : DInfo Int) (Box.global ⟨1, 1, 2⟩)
      [⟨.deckValue, 3⟩, ⟨.validDefault, 8⟩] [⟨.deckValue, 3⟩, ⟨.uninit, 0⟩]
    = [⟨.deckValue, 3⟩, ⟨.validDefault, 3⟩] := by decide

/-- `apply_multipliers` leaves every status alone -/
theorem mulInto_status [RealOps α] (x m : Arr α) (hl : x.length ≤ m.length) (g : Nat) :
    (cellAt (mulInto x m) g).st = (cellAt x g).st := by
  induction x generalizing m g with
  | nil => simp [mulInto, cellAt]
  | cons c cs ih =>
    cases m with
    | nil => simp at hl
    | cons d ds =>
      cases g with
      | zero => simp [mulInto, cellAt]
      | succ g =>
        have := ih ds (by simpa using hl) g
        simpa [mulInto, cellAt] using this

theorem mulInto_statusStep [RealOps α] (x m : Arr α) (hl : x.length ≤ m.length) (g : Nat) :
    StatusStep (cellAt x g).st (cellAt (mulInto x m) g).st := by
  rw [mulInto_status x m hl g]; exact StatusStep.refl _

example : mulInto [⟨.deckValue, (3 : Int)⟩, ⟨.validDefault, 2⟩] [⟨.deckValue, 5⟩, ⟨.deckValue, 7⟩]
    = [⟨.deckValue, 15⟩, ⟨.validDefault, 14⟩] := by decide

end ArrayLevel

/-! ## C. no `empty_default` is ever stored -/

/-- no cell of the array is an `empty_default` -/
def ArrOK {β : Type} (x : Arr β) : Prop := ∀ c ∈ x, c.st ≠ .emptyDefault

def NoEmpty {α : Type} (s : St α) : Prop :=
  (∀ p ∈ s.dbls, ∀ c ∈ p.2, c.st ≠ .emptyDefault) ∧ (∀ p ∈ s.ints, ∀ c ∈ p.2, c.st ≠ .emptyDefault)

section ArrOKLemmas
variable {β : Type}

theorem arrOK_iff_cellAt [Scalar β] (x : Arr β) : ArrOK x ↔ ∀ g, (cellAt x g).st ≠ .emptyDefault := by
  constructor
  · intro h g
    rw [cellAt_eq]
    cases hx : x[g]? with
    | none => simp [blank]
    | some c => exact h c (List.mem_of_getElem? hx)
  · intro h c hc
    obtain ⟨i, hi⟩ := List.mem_iff_getElem?.mp hc
    have := h i
    rw [cellAt_eq, hi] at this
    exact this

theorem arrOK_of_statusStep [Scalar β] (x y : Arr β) (hx : ArrOK x)
    (h : ∀ g, StatusStep (cellAt x g).st (cellAt y g).st) : ArrOK y := by
  rw [arrOK_iff_cellAt] at hx ⊢
  intro g he
  exact hx g ((h g).2 he)

theorem fresh_arrOK [Scalar β] (m : Mode) (D : Dims) (A : List Bool) (init : Option β) :
    ArrOK (fresh m D A init) := by
  intro c hc
  simp only [fresh] at hc
  have := (List.mem_replicate.mp hc).2
  subst this
  cases init <;> simp [blank]

theorem refApply_arrOK [Scalar β] (K : Kernel β) (hK : K.StatusOK) (A : List Bool) (sel : Nat → Option Nat)
    (src tgt y : Arr β) (ht : ArrOK tgt) (h : refApply K A sel src tgt = some y) : ArrOK y :=
  arrOK_of_statusStep tgt y ht (refApply_statusStep K hK A sel src tgt y h)

theorem set_arrOK (t : Arr β) (i : Nat) (v : Cell β) (ht : ArrOK t) (hv : v.st ≠ .emptyDefault) :
    ArrOK (t.set i v) := by
  intro c hc
  rcases List.mem_or_eq_of_mem_set hc with h | h
  · exact ht c h
  · rw [h]; exact hv

theorem foldl_set_arrOK [Scalar β] (K : Kernel β) (hK : K.StatusOK) (src : Arr β) (L : List Idx)
    (tgt : Arr β) (ht : ArrOK tgt) :
    ArrOK (L.foldl (fun t e => t.set e.a (K.upd e.d (cellAt src e.a) (cellAt t e.a))) tgt) := by
  induction L generalizing tgt with
  | nil => exact ht
  | cons e es ih =>
    simp only [List.foldl_cons]
    apply ih
    apply set_arrOK _ _ _ ht
    intro he
    exact (arrOK_iff_cellAt tgt).mp ht e.a ((hK e.d (cellAt src e.a) (cellAt tgt e.a)).2 he)

/-- the implementation loop with a well-behaved kernel never stores an `empty_default` -/
theorem implApply_arrOK [Scalar β] (K : Kernel β) (hK : K.StatusOK) (L : List Idx)
    (src tgt y : Arr β) (ht : ArrOK tgt) (h : implApply K L src tgt = some y) : ArrOK y := by
  unfold implApply at h
  split at h
  · cases h
  · simp only [Option.some.injEq] at h
    subst h
    exact foldl_set_arrOK K hK src L tgt ht

theorem boxApply_arrOK [Scalar β] (m : Mode) (D : Dims) (A : List Bool) (K : Kernel β) (hK : K.StatusOK)
    (b : Box) (src tgt y : Arr β) (ht : ArrOK tgt) (h : boxApply m D A K b src tgt = some y) : ArrOK y := by
  cases m with
  | ref => exact refApply_arrOK K hK A _ src tgt y ht h
  | impl => exact implApply_arrOK K hK _ src tgt y ht h

theorem regApply_arrOK [Scalar β] (m : Mode) (A : List Bool) (K : Kernel β) (hK : K.StatusOK)
    (reg : Arr Int) (r : Int) (src tgt y : Arr β) (ht : ArrOK tgt)
    (h : regApply m A K reg r src tgt = some y) : ArrOK y := by
  cases m with
  | ref => exact refApply_arrOK K hK A _ src tgt y ht h
  | impl => exact implApply_arrOK K hK _ src tgt y ht h

theorem mapFrom_arrOK (f : Nat → Cell β → Cell β) (hf : ∀ g c, c.st ≠ .emptyDefault → (f g c).st ≠ .emptyDefault)
    (s : Nat) (x : Arr β) (hx : ArrOK x) : ArrOK (mapFrom f s x) := by
  induction x generalizing s with
  | nil => intro c hc; simp [mapFrom] at hc
  | cons a xs ih =>
    intro c hc
    simp only [mapFrom, List.mem_cons] at hc
    rcases hc with h | h
    · rw [h]; exact hf _ _ (hx a (by simp))
    · exact ih (s + 1) (fun c hc => hx c (List.mem_cons_of_mem _ hc)) c h

theorem walkActive_arrOK (f : Nat → Cell β → Cell β)
    (hf : ∀ g c, c.st ≠ .emptyDefault → (f g c).st ≠ .emptyDefault)
    (A : List Bool) (s : Nat) (x : Arr β) (hx : ArrOK x) : ArrOK (walkActive f A s x) := by
  induction A generalizing s x with
  | nil => exact hx
  | cons b bs ih =>
    cases b with
    | false => exact ih (s + 1) x hx
    | true =>
      cases x with
      | nil => intro c hc; simp [walkActive] at hc
      | cons a xs =>
        intro c hc
        simp only [walkActive, List.mem_cons] at hc
        rcases hc with h | h
        · rw [h]; exact hf _ _ (hx a (by simp))
        · exact ih (s + 1) xs (fun c hc => hx c (List.mem_cons_of_mem _ hc)) c h

theorem topCell_ne_empty (tv : Option β) (c : Cell β) (h : c.st ≠ .emptyDefault) :
    (topCell tv c).st ≠ .emptyDefault :=
  fun he => h ((topCell_statusStep tv c).2 he)

theorem topApply_arrOK [Scalar β] (m : Mode) (D : Dims) (A : List Bool) (b : Box) (deck x : Arr β)
    (hx : ArrOK x) : ArrOK (topApply m D A b deck x) := by
  cases m with
  | ref => exact mapFrom_arrOK _ (fun _ c h => topCell_ne_empty _ c h) 0 x hx
  | impl => exact walkActive_arrOK _ (fun _ c h => topCell_ne_empty _ c h) A 0 x hx

theorem topStep_arrOK [RealOps β] (m : Mode) (D : Dims) (A : List Bool) (sec : Section) (info : DInfo β)
    (b : Box) (deck y : Arr β) (hy : ArrOK y) : ArrOK (topStep m D A sec info b deck y) := by
  unfold topStep
  split
  · exact topApply_arrOK m D A b deck y hy
  · exact hy

theorem mulInto_arrOK [RealOps β] (x m : Arr β) (hx : ArrOK x) : ArrOK (mulInto x m) := by
  induction x generalizing m with
  | nil => intro c hc; simp [mulInto] at hc
  | cons a xs ih =>
    cases m with
    | nil => intro c hc; simp [mulInto] at hc
    | cons d ds =>
      intro c hc
      simp only [mulInto, List.zipWith_cons_cons, List.mem_cons] at hc
      rcases hc with h | h
      · rw [h]; exact hx a (by simp)
      · exact ih ds (fun c hc => hx c (List.mem_cons_of_mem _ hc)) c h

theorem mem_compress {γ : Type} (A : List Bool) (x : List γ) (c : γ) (h : c ∈ compress A x) : c ∈ x := by
  induction A generalizing x with
  | nil => simp [compress] at h
  | cons b bs ih =>
    cases x with
    | nil => simp [compress] at h
    | cons a xs =>
      cases b with
      | true =>
        simp only [compress, List.mem_cons] at h
        rcases h with h | h
        · simp [h]
        · exact List.mem_cons_of_mem _ (ih xs h)
      | false =>
        simp only [compress] at h
        exact List.mem_cons_of_mem _ (ih xs h)

theorem compress_arrOK (A : List Bool) (x : Arr β) (hx : ArrOK x) : ArrOK (compress A x) :=
  fun c hc => hx c (mem_compress A x c hc)

theorem shrink_arrOK (m : Mode) (keep : List Bool) (x : Arr β) (hx : ArrOK x) : ArrOK (shrink m keep x) := by
  cases m with
  | ref => exact hx
  | impl => exact compress_arrOK keep x hx

end ArrOKLemmas

section States
variable {α : Type}

theorem noEmpty_initSt (A : List Bool) : NoEmpty (initSt A : St α) :=
  ⟨fun p hp => (by cases hp), fun p hp => (by cases hp)⟩

theorem noEmpty_dbl {s : St α} (hs : NoEmpty s) {k : String} {x : Arr α} (h : sget s.dbls k = some x) :
    ArrOK x := hs.1 _ (mem_of_sget _ _ _ h)

theorem noEmpty_int {s : St α} (hs : NoEmpty s) {k : String} {x : Arr Int} (h : sget s.ints k = some x) :
    ArrOK x := hs.2 _ (mem_of_sget _ _ _ h)

theorem noEmpty_putD (s : St α) (k : String) (y : Arr α) (hs : NoEmpty s) (hy : ArrOK y) :
    NoEmpty (putD s k y) := by
  refine ⟨fun p hp => ?_, hs.2⟩
  rcases mem_sput _ _ _ p hp with h | h
  · exact hs.1 p h
  · rw [h]; exact hy

theorem noEmpty_putI (s : St α) (k : String) (y : Arr Int) (hs : NoEmpty s) (hy : ArrOK y) :
    NoEmpty (putI s k y) := by
  refine ⟨hs.1, fun p hp => ?_⟩
  rcases mem_sput _ _ _ p hp with h | h
  · exact hs.2 p h
  · rw [h]; exact hy

theorem getD_noEmpty [Scalar α] (m : Mode) (D : Dims) (s : St α) (kw : String) (info : DInfo α) (hs : NoEmpty s) :
    NoEmpty (getD m D s kw info).1 := by
  unfold getD
  cases h : sget s.dbls kw with
  | some x => exact hs
  | none => exact noEmpty_putD s kw _ hs (fresh_arrOK _ _ _ _)

theorem getD_arrOK [Scalar α] (m : Mode) (D : Dims) (s : St α) (kw : String) (info : DInfo α) (hs : NoEmpty s) :
    ArrOK (getD m D s kw info).2 := by
  unfold getD
  cases h : sget s.dbls kw with
  | some x => exact noEmpty_dbl hs h
  | none => exact fresh_arrOK _ _ _ _

theorem getI_noEmpty (m : Mode) (D : Dims) (s : St α) (kw : String) (init : Option Int) (hs : NoEmpty s) :
    NoEmpty (getI m D s kw init).1 := by
  unfold getI
  cases h : sget s.ints kw with
  | some x => exact hs
  | none => exact noEmpty_putI s kw _ hs (fresh_arrOK _ _ _ _)

theorem getI_arrOK (m : Mode) (D : Dims) (s : St α) (kw : String) (init : Option Int) (hs : NoEmpty s) :
    ArrOK (getI m D s kw init).2 := by
  unfold getI
  cases h : sget s.ints kw with
  | some x => exact noEmpty_int hs h
  | none => exact fresh_arrOK _ _ _ _

theorem map_pair_inv {β σ : Type} (P : σ → Prop) (o : Option β) (f : β → σ) (b : Box) (q : σ × Box)
    (h : o.map (fun y => (f y, b)) = some q) (hf : ∀ y, o = some y → P (f y)) : P q.1 := by
  cases o with
  | none => cases h
  | some y => simp only [Option.map_some, Option.some.injEq] at h; subst h; exact hf y rfl

theorem map_inv {β σ : Type} (P : σ → Prop) (o : Option β) (f : β → σ) (q : σ)
    (h : o.map f = some q) (hf : ∀ y, o = some y → P (f y)) : P q := by
  cases o with
  | none => cases h
  | some y => simp only [Option.map_some, Option.some.injEq] at h; subst h; exact hf y rfl

theorem scalarRec_noEmpty [RealOps α] (m : Mode) (D : Dims) (T : Tables α) (sec : Section) (op : ScalarOp)
    (sb : St α × Box) (r : ScalarRec α) (q : St α × Box) (hs : NoEmpty sb.1)
    (h : scalarRec m D T sec op sb r = some q) : NoEmpty q.1 := by
  unfold scalarRec at h
  try simp only [] at h
  repeat' (split at h <;> try simp only [] at h)
  all_goals first
    | (cases h; done)
    | (refine map_pair_inv NoEmpty _ _ _ q h (fun y hy => ?_)
       first
        | exact noEmpty_putD _ _ _ (getD_noEmpty _ _ _ _ _ hs)
            (boxApply_arrOK _ _ _ _ (scalarKernel_statusOK _ _) _ _ _ _ (getD_arrOK _ _ _ _ _ hs) hy)
        | exact noEmpty_putI _ _ _ (getI_noEmpty _ _ _ _ _ hs)
            (boxApply_arrOK _ _ _ _ (scalarKernel_statusOK _ _) _ _ _ _ (getI_arrOK _ _ _ _ _ hs) hy))

theorem copyRec_noEmpty [RealOps α] (m : Mode) (D : Dims) (T : Tables α)
    (sb : St α × Box) (r : CopyRec) (q : St α × Box) (hs : NoEmpty sb.1)
    (h : copyRec m D T sb r = some q) : NoEmpty q.1 := by
  unfold copyRec at h
  try simp only [] at h
  repeat' (split at h <;> try simp only [] at h)
  all_goals first
    | (cases h; done)
    | (cases h; exact hs)
    | (refine map_pair_inv NoEmpty _ _ _ q h (fun y hy => ?_)
       first
        | exact noEmpty_putD _ _ _ (getD_noEmpty _ _ _ _ _ hs)
            (boxApply_arrOK _ _ _ _ copyKernel_statusOK _ _ _ _ (getD_arrOK _ _ _ _ _ hs) hy)
        | exact noEmpty_putI _ _ _ (getI_noEmpty _ _ _ _ _ hs)
            (boxApply_arrOK _ _ _ _ copyKernel_statusOK _ _ _ _ (getI_arrOK _ _ _ _ _ hs) hy))

theorem operRec_noEmpty [RealOps α] (m : Mode) (D : Dims) (T : Tables α)
    (sb : St α × Box) (r : OperRec α) (q : St α × Box) (hs : NoEmpty sb.1)
    (h : operRec m D T sb r = some q) : NoEmpty q.1 := by
  unfold operRec at h
  try simp only [] at h
  repeat' (split at h <;> try simp only [] at h)
  all_goals first
    | (cases h; done)
    | (refine map_pair_inv NoEmpty _ _ _ q h (fun y hy => ?_)
       exact noEmpty_putD _ _ _ (getD_noEmpty _ _ _ _ _ (getD_noEmpty _ _ _ _ _ hs))
            (boxApply_arrOK _ _ _ _ (operateKernel_statusOK _ _) _ _ _ _ (getD_arrOK _ _ _ _ _ hs) hy))

theorem regionArr_noEmpty [RealOps α] {m : Mode} {D : Dims} {T : Tables α} {s : St α} {name : String}
    {q : St α × Arr Int} (h : regionArr m D T s name = some q) (hs : NoEmpty s) : NoEmpty q.1 := by
  unfold regionArr at h
  try simp only [] at h
  repeat' (split at h <;> try simp only [] at h)
  all_goals first
    | (cases h; done)
    | (cases h; exact getI_noEmpty _ _ _ _ _ hs)

theorem regionArr_arrOK [RealOps α] {m : Mode} {D : Dims} {T : Tables α} {s : St α} {name : String}
    {q : St α × Arr Int} (h : regionArr m D T s name = some q) (hs : NoEmpty s) : ArrOK q.2 := by
  unfold regionArr at h
  try simp only [] at h
  repeat' (split at h <;> try simp only [] at h)
  all_goals first
    | (cases h; done)
    | (cases h; exact getI_arrOK _ _ _ _ _ hs)

theorem regScalarRec_noEmpty [RealOps α] (m : Mode) (D : Dims) (T : Tables α) (op : ScalarOp) (s : St α)
    (r : RegScalarRec α) (q : St α) (hs : NoEmpty s)
    (h : regScalarRec m D T op s r = some q) : NoEmpty q := by
  unfold regScalarRec at h
  try simp only [] at h
  repeat' (split at h <;> try simp only [] at h)
  all_goals first
    | (cases h; done)
    | (cases h; exact hs)
    | (have hra := regionArr_noEmpty (by assumption) (getD_noEmpty _ _ _ _ _ hs)
       first
         | (cases h; exact hra)
         | (refine map_inv NoEmpty _ _ q h (fun y hy => ?_)
            exact noEmpty_putD _ _ _ hra
              (regApply_arrOK _ _ _ (scalarKernel_statusOK _ _) _ _ _ _ _ (getD_arrOK _ _ _ _ _ hs) hy)))

theorem copyRegRec_noEmpty [RealOps α] (m : Mode) (D : Dims) (T : Tables α) (s : St α)
    (r : CopyRegRec) (q : St α) (hs : NoEmpty s)
    (h : copyRegRec m D T s r = some q) : NoEmpty q := by
  unfold copyRegRec at h
  try simp only [] at h
  repeat' (split at h <;> try simp only [] at h)
  all_goals first
    | (cases h; done)
    | (have hra := regionArr_noEmpty (by assumption) hs
       first
         | (cases h; exact hra)
         | (refine map_inv NoEmpty _ _ q h (fun y hy => ?_)
            first
             | exact noEmpty_putD _ _ _ (getD_noEmpty _ _ _ _ _ hra)
                (regApply_arrOK _ _ _ copyKernel_statusOK _ _ _ _ _ (getD_arrOK _ _ _ _ _ hra) hy)
             | exact noEmpty_putI _ _ _ (getI_noEmpty _ _ _ _ _ hra)
                (regApply_arrOK _ _ _ copyKernel_statusOK _ _ _ _ _ (getI_arrOK _ _ _ _ _ hra) hy)))

theorem operRegRec_noEmpty [RealOps α] (m : Mode) (D : Dims) (T : Tables α) (s : St α)
    (r : OperRegRec α) (q : St α) (hs : NoEmpty s)
    (h : operRegRec m D T s r = some q) : NoEmpty q := by
  unfold operRegRec at h
  try simp only [] at h
  repeat' (split at h <;> try simp only [] at h)
  all_goals first
    | (cases h; done)
    | (cases h; exact hs)
    | (have hra := regionArr_noEmpty (by assumption) (getD_noEmpty _ _ _ _ _ (getD_noEmpty _ _ _ _ _ hs))
       first
         | (cases h; exact hra)
         | (refine map_inv NoEmpty _ _ q h (fun y hy => ?_)
            exact noEmpty_putD _ _ _ hra
              (regApply_arrOK _ _ _ (operateKernel_statusOK _ _) _ _ _ _ _ (getD_arrOK _ _ _ _ _ hs) hy)))

/-- an invariant of every step is an invariant of the fold -/
theorem foldRecs_pres {σ ρ : Type} (f : σ → ρ → Option σ) (I : σ → Prop)
    (h : ∀ s r q, I s → f s r = some q → I q) :
    ∀ (rs : List ρ) (s q : σ), I s → foldRecs f s rs = some q → I q := by
  intro rs
  induction rs with
  | nil => intro s q hs hq; simp only [foldRecs, Option.some.injEq] at hq; subst hq; exact hs
  | cons r rs ih =>
    intro s q hs hq
    simp only [foldRecs] at hq
    cases hf : f s r with
    | none => rw [hf] at hq; cases hq
    | some s' => rw [hf] at hq; exact ih s' q (h s r s' hs hf) hq

theorem kwStep_noEmpty [RealOps α] (m : Mode) (D : Dims) (T : Tables α) (sec : Section) (p : St α × Box)
    (k : Kw α) (q : St α × Box) (hs : NoEmpty p.1) (h : kwStep m D T sec p k = some q) : NoEmpty q.1 := by
  cases k with
  | box r =>
    simp only [kwStep] at h
    split at h
    · cases h
    · cases h; exact hs
  | endbox => simp only [kwStep, Option.some.injEq] at h; subst h; exact hs
  | dataD kw vals =>
    simp only [kwStep] at h
    repeat' (split at h <;> try simp only [] at h)
    all_goals first
      | (cases h; done)
      | (refine map_pair_inv NoEmpty _ _ _ q h (fun y hy => ?_)
         exact noEmpty_putD _ _ _ (getD_noEmpty _ _ _ _ _ hs)
           (topStep_arrOK _ _ _ _ _ _ _ _
             (boxApply_arrOK _ _ _ _ (assignKernel_statusOK _) _ _ _ _ (getD_arrOK _ _ _ _ _ hs) hy)))
  | dataI kw vals =>
    simp only [kwStep] at h
    repeat' (split at h <;> try simp only [] at h)
    all_goals first
      | (cases h; done)
      | (refine map_pair_inv NoEmpty _ _ _ q h (fun y hy => ?_)
         exact noEmpty_putI _ _ _ (getI_noEmpty _ _ _ _ _ hs)
           (boxApply_arrOK _ _ _ _ (assignKernel_statusOK _) _ _ _ _ (getI_arrOK _ _ _ _ _ hs) hy))
  | scalar op recs =>
    simp only [kwStep] at h
    split at h
    · cases h
    · rename_i r hr
      cases h
      exact foldRecs_pres _ (fun p => NoEmpty p.1)
        (fun s r q hs h => scalarRec_noEmpty m D T sec op s r q hs h) recs _ _ hs hr
  | copy recs =>
    simp only [kwStep] at h
    split at h
    · cases h
    · rename_i r hr
      cases h
      exact foldRecs_pres _ (fun p => NoEmpty p.1)
        (fun s r q hs h => copyRec_noEmpty m D T s r q hs h) recs _ _ hs hr
  | operate recs =>
    simp only [kwStep] at h
    split at h
    · cases h
    · rename_i r hr
      cases h
      exact foldRecs_pres _ (fun p => NoEmpty p.1)
        (fun s r q hs h => operRec_noEmpty m D T s r q hs h) recs _ _ hs hr
  | regScalar op recs =>
    simp only [kwStep] at h
    split at h
    · cases h
    · rename_i r hr
      cases h
      exact foldRecs_pres _ NoEmpty
        (fun s r q hs h => regScalarRec_noEmpty m D T op s r q hs h) recs _ _ hs hr
  | copyReg recs =>
    simp only [kwStep] at h
    split at h
    · cases h
    · rename_i r hr
      cases h
      exact foldRecs_pres _ NoEmpty
        (fun s r q hs h => copyRegRec_noEmpty m D T s r q hs h) recs _ _ hs hr
  | operateR recs =>
    simp only [kwStep] at h
    split at h
    · cases h
    · rename_i r hr
      cases h
      exact foldRecs_pres _ NoEmpty
        (fun s r q hs h => operRegRec_noEmpty m D T s r q hs h) recs _ _ hs hr

theorem applyMult_noEmpty [RealOps α] (m : Mode) (D : Dims) (s : St α) (e : String × DInfo α)
    (hs : NoEmpty s) : NoEmpty (applyMult m D s e) := by
  unfold applyMult
  split
  · split
    · exact hs
    · refine ⟨fun p hp => ?_, (getD_noEmpty m D s e.1 e.2 hs).2⟩
      rcases mem_sput _ _ _ p (mem_serase _ _ p hp) with h | h
      · exact (getD_noEmpty m D s e.1 e.2 hs).1 p h
      · rw [h]; exact mulInto_arrOK _ _ (getD_arrOK m D s e.1 e.2 hs)
  · exact hs

theorem applyMultipliers_noEmpty [RealOps α] (m : Mode) (D : Dims) (T : Tables α) (s : St α)
    (hs : NoEmpty s) : NoEmpty (applyMultipliers m D T s) := by
  unfold applyMultipliers
  generalize T.dbl = es
  induction es generalizing s with
  | nil => exact hs
  | cons e es ih => exact ih _ (applyMult_noEmpty m D s e hs)

theorem scanSection_noEmpty [RealOps α] (m : Mode) (D : Dims) (T : Tables α) (sec : Section) (s : St α)
    (ks : List (Kw α)) (q : St α) (hs : NoEmpty s) (h : scanSection m D T sec s ks = some q) :
    NoEmpty q := by
  unfold scanSection at h
  split at h
  · cases h
  · rename_i r hr
    have hr' : NoEmpty r.1 := foldRecs_pres _ (fun p => NoEmpty p.1)
      (fun p k q hp h => kwStep_noEmpty m D T sec p k q hp h) ks _ _ hs hr
    simp only [Option.some.injEq] at h
    subst h
    split
    · exact applyMultipliers_noEmpty m D T _ hr'
    · exact hr'

theorem mem_smap {β γ : Type} (f : β → γ) (st : List (String × β)) (p : String × γ) (h : p ∈ smap f st) :
    ∃ p' ∈ st, p = (p'.1, f p'.2) := by
  simp only [smap, List.mem_map] at h
  obtain ⟨p', hp', e⟩ := h
  exact ⟨p', hp', e.symm⟩

theorem resetActnum_noEmpty [RealOps α] (m : Mode) (D : Dims) (s : St α) (hs : NoEmpty s) :
    NoEmpty (resetActnum m D s) := by
  unfold resetActnum
  split
  · exact hs
  · have hp := getI_noEmpty m D s "ACTNUM" (some 1) hs
    refine ⟨fun p hp' => ?_, fun p hp' => ?_⟩
    · obtain ⟨p', h1, h2⟩ := mem_smap _ _ p hp'
      rw [h2]
      exact shrink_arrOK m _ _ (hp.1 p' h1)
    · obtain ⟨p', h1, h2⟩ := mem_smap _ _ p hp'
      rw [h2]
      exact shrink_arrOK m _ _ (hp.2 p' h1)

/-- **C1** (both semantics): whatever the deck, no stored array ever contains an
`empty_default` cell. -/
theorem runProg_noEmpty_from [RealOps α] (m : Mode) (D : Dims) (T : Tables α) (s0 : St α) (P : Prog α)
    (s : St α) (h0 : NoEmpty s0) (h : runProg m D T s0 P = some s) : NoEmpty s := by
  unfold runProg at h
  split at h
  · cases h
  · rename_i s1 h1
    have n1 := scanSection_noEmpty m D T _ _ _ _ h0 h1
    split at h
    · cases h
    · rename_i s2 h2
      have n2 := scanSection_noEmpty m D T _ _ _ _ n1 h2
      split at h
      · cases h
      · rename_i s3 h3
        have n3 := scanSection_noEmpty m D T _ _ _ _ (resetActnum_noEmpty m D s2 n2) h3
        split at h
        · cases h
        · rename_i s4 h4
          have n4 := scanSection_noEmpty m D T _ _ _ _ n3 h4
          exact scanSection_noEmpty m D T _ _ _ _ n4 h

theorem runProg_noEmpty [RealOps α] (D : Dims) (T : Tables α) (A : List Bool) (P : Prog α) (s : St α)
    (h : runProg .ref D T (initSt A) P = some s) : NoEmpty s :=
  runProg_noEmpty_from .ref D T _ P s (noEmpty_initSt A) h

/-- a one-column, two-layer deck: PORO on the top cell only (a `top` keyword, so the value is
copied down), a defaulted NTG entry, MULTIPLY, COPY — accepted, so the theorem applies to it -/
def statusT : Tables Int :=
  ⟨[("PORO", ⟨none, false, true, false, 1, 0, false⟩), ("NTG", ⟨some 1, false, false, false, 1, 0, false⟩)],
   [("ACTNUM", some 1), ("FLUXNUM", none)]⟩

def statusP : Prog Int :=
  { grid := [.box ⟨some 1, some 1, some 1, some 1, some 1, some 1⟩, .dataD "PORO" [⟨.deckValue, 3⟩], .endbox,
             .dataD "NTG" [⟨.validDefault, 1⟩, ⟨.deckValue, 2⟩],
             .scalar .mul [⟨"PORO", 2, ⟨none, none, none, none, none, none⟩⟩],
             .copy [⟨"PORO", "NTG", ⟨none, none, none, none, some 1, some 1⟩⟩]],
    edit := [], props := [], regions := [.scalar .equal [⟨"FLUXNUM", 1, ⟨none, none, none, none, none, none⟩⟩]],
    solution := [] }

example : (runProg .ref ⟨1, 1, 2⟩ statusT (initSt [true, true]) statusP).map (fun t => sget t.dbls "PORO")
    = some (some [⟨.deckValue, 6⟩, ⟨.validDefault, 6⟩]) := by decide +kernel

/-- compressing a state keeps the invariant -/
theorem cSt_noEmpty (s : St α) (hs : NoEmpty s) : NoEmpty (cSt s) := by
  refine ⟨fun p hp => ?_, fun p hp => ?_⟩
  · obtain ⟨p', h1, h2⟩ := mem_smap _ _ p hp
    rw [h2]
    exact compress_arrOK _ _ (hs.1 p' h1)
  · obtain ⟨p', h1, h2⟩ := mem_smap _ _ p hp
    rw [h2]
    exact compress_arrOK _ _ (hs.2 p' h1)

/-- **C2** transfer to the implementation semantics through the refinement theorem -/
theorem runProg_noEmpty_impl [RealOps α] (D : Dims) (hD : DPos D) (T : Tables α) (A : List Bool)
    (hA : A.length = D.size) (P : Prog α) (t : St α)
    (h : runProg .impl D T (initSt A) P = some t) : NoEmpty t := by
  have hw : WF D (initSt A : St α) := ⟨hA, fun p hp => (by cases hp), fun p hp => (by cases hp)⟩
  have href := (runProg_refines D hD T (initSt A) hw P).1
  change _ = runProg .impl D T (initSt A) P at href
  rw [h] at href
  cases hr : runProg .ref D T (initSt A) P with
  | none => rw [hr] at href; cases href
  | some s =>
    rw [hr] at href
    simp only [Option.map_some, Option.some.injEq] at href
    rw [← href]
    exact cSt_noEmpty s (runProg_noEmpty D T A P s hr)

/-- the same, proved directly on the implementation loops: no hypothesis on the grid needed -/
theorem runProg_noEmpty_any [RealOps α] (m : Mode) (D : Dims) (T : Tables α) (A : List Bool) (P : Prog α)
    (t : St α) (h : runProg m D T (initSt A) P = some t) : NoEmpty t :=
  runProg_noEmpty_from m D T _ P t (noEmpty_initSt A) h

example : DPos ⟨1, 1, 2⟩ ∧ [true, false].length = (⟨1, 1, 2⟩ : Dims).size ∧
    (runProg .impl ⟨1, 1, 2⟩ statusT (initSt [true, false]) statusP).map (fun t => sget t.dbls "NTG")
      = some (some [⟨.deckValue, 6⟩]) :=
  ⟨by simp [DPos], by decide, by decide +kernel⟩

/-- **C3** on an array without `empty_default` cells `FieldData::valid()` is exactly "no
uninitialised cell" -/
theorem valid_iff_no_uninit {β : Type} (A : List Bool) (x : Arr β) (hx : ∀ c ∈ x, c.st ≠ .emptyDefault) :
    validArr .impl A x = x.all (fun c => decide (c.st ≠ .uninit)) := by
  simp only [validArr]
  induction x with
  | nil => rfl
  | cons c cs ih =>
    simp only [List.all_cons]
    rw [ih (fun c hc => hx c (List.mem_cons_of_mem _ hc))]
    have := hx c (by simp)
    congr 1
    revert this
    cases c.st <;> simp [Status.okSt]

/-- … and so for every array a run of the implementation semantics leaves in its stores -/
theorem valid_iff_no_uninit_run [RealOps α] (m : Mode) (D : Dims) (T : Tables α) (A : List Bool) (P : Prog α)
    (t : St α) (h : runProg m D T (initSt A) P = some t) (kw : String) (x : Arr α)
    (hx : sget t.dbls kw = some x) :
    validArr .impl t.act x = x.all (fun c => decide (c.st ≠ .uninit)) :=
  valid_iff_no_uninit t.act x (noEmpty_dbl (runProg_noEmpty_any m D T A P t h) hx)

example : validArr .impl [true, true] ([⟨.deckValue, 1⟩, ⟨.uninit, 0⟩] : Arr Int) = false ∧
    validArr .impl [true] ([⟨.emptyDefault, 1⟩] : Arr Int) = false ∧
    ([⟨.emptyDefault, 1⟩] : Arr Int).all (fun c => decide (c.st ≠ .uninit)) = true := by decide

end States

/-! ## D. box carry-over rules -/

section Boxes
variable {α : Type}

/-- **D1** an all-defaulted record reuses the box it is given (the previous record's box) -/
theorem update_allDefault (D : Dims) (b : Box) (r : BoxItems) (h : r.allDefault = true) :
    Box.update D b r = some b := by
  simp [Box.update, h]

/-- **D2** otherwise the current box is irrelevant: defaulted items mean the full grid -/
theorem update_indep_of_current (D : Dims) (b b' : Box) (r : BoxItems) (h : r.allDefault = false) :
    Box.update D b r = Box.update D b' r := by
  simp [Box.update, h]

example : Box.update ⟨4, 4, 4⟩ ⟨1, 1, 1, 2, 2, 2⟩ ⟨some 2, none, none, none, none, none⟩
    = some ⟨1, 0, 0, 3, 4, 4⟩ ∧
    Box.update ⟨4, 4, 4⟩ ⟨1, 1, 1, 2, 2, 2⟩ ⟨none, none, none, none, none, none⟩
    = some ⟨1, 1, 1, 2, 2, 2⟩ := by decide

theorem map_pair_snd {β σ : Type} (o : Option β) (f : β → σ) (b : Box) (q : σ × Box)
    (h : o.map (fun y => (f y, b)) = some q) : q.2 = b := by
  cases o with
  | none => cases h
  | some y => simp only [Option.map_some, Option.some.injEq] at h; subst h; rfl

/-- **D3** the box of a record is handed on to the next record of the keyword -/
theorem scalarRec_box [RealOps α] (m : Mode) (D : Dims) (T : Tables α) (sec : Section) (op : ScalarOp)
    (sb : St α × Box) (r : ScalarRec α) (q : St α × Box)
    (h : scalarRec m D T sec op sb r = some q) : Box.update D sb.2 r.box = some q.2 := by
  unfold scalarRec at h
  try simp only [] at h
  repeat' (split at h <;> try simp only [] at h)
  all_goals first
    | (cases h; done)
    | (rw [map_pair_snd _ _ _ q h]; assumption)

theorem copyRec_box [RealOps α] (m : Mode) (D : Dims) (T : Tables α)
    (sb : St α × Box) (r : CopyRec) (q : St α × Box)
    (h : copyRec m D T sb r = some q) : Box.update D sb.2 r.box = some q.2 := by
  unfold copyRec at h
  try simp only [] at h
  repeat' (split at h <;> try simp only [] at h)
  all_goals first
    | (cases h; done)
    | (cases h; assumption)
    | (rw [map_pair_snd _ _ _ q h]; assumption)

theorem operRec_box [RealOps α] (m : Mode) (D : Dims) (T : Tables α)
    (sb : St α × Box) (r : OperRec α) (q : St α × Box)
    (h : operRec m D T sb r = some q) : Box.update D sb.2 r.box = some q.2 := by
  unfold operRec at h
  try simp only [] at h
  repeat' (split at h <;> try simp only [] at h)
  all_goals first
    | (cases h; done)
    | (rw [map_pair_snd _ _ _ q h]; assumption)

/-- the section box after one keyword: only BOX and ENDBOX move it -/
def Kw.nextBox (D : Dims) (b : Box) : Kw α → Box
  | .box r => (Box.update D b r).getD b
  | .endbox => Box.global D
  | _ => b

/-- **D4** record boxes never leak out of a keyword; only BOX / ENDBOX move the section box -/
theorem kwStep_box [RealOps α] (m : Mode) (D : Dims) (T : Tables α) (sec : Section) (p : St α × Box)
    (k : Kw α) (q : St α × Box) (h : kwStep m D T sec p k = some q) :
    q.2 = match k with
      | .box r => (Box.update D p.2 r).getD p.2
      | .endbox => Box.global D
      | _ => p.2 := by
  cases k with
  | box r =>
    simp only [kwStep] at h
    split at h
    · cases h
    · rename_i b' hb
      cases h
      simp only [hb, Option.getD_some]
  | endbox => simp only [kwStep, Option.some.injEq] at h; subst h; rfl
  | dataD kw vals =>
    simp only [kwStep] at h
    repeat' (split at h <;> try simp only [] at h)
    all_goals first
      | (cases h; done)
      | exact map_pair_snd _ _ _ q h
  | dataI kw vals =>
    simp only [kwStep] at h
    repeat' (split at h <;> try simp only [] at h)
    all_goals first
      | (cases h; done)
      | exact map_pair_snd _ _ _ q h
  | scalar op recs => simp only [kwStep] at h; split at h <;> cases h; rfl
  | copy recs => simp only [kwStep] at h; split at h <;> cases h; rfl
  | operate recs => simp only [kwStep] at h; split at h <;> cases h; rfl
  | regScalar op recs => simp only [kwStep] at h; split at h <;> cases h; rfl
  | copyReg recs => simp only [kwStep] at h; split at h <;> cases h; rfl
  | operateR recs => simp only [kwStep] at h; split at h <;> cases h; rfl

theorem kwStep_nextBox [RealOps α] (m : Mode) (D : Dims) (T : Tables α) (sec : Section) (p : St α × Box)
    (k : Kw α) (q : St α × Box) (h : kwStep m D T sec p k = some q) : q.2 = Kw.nextBox D p.2 k := by
  rw [kwStep_box m D T sec p k q h]
  cases k <;> rfl

/-- BOX: the new section box is `Box::update` of the old one -/
theorem kwStep_box_kw [RealOps α] (m : Mode) (D : Dims) (T : Tables α) (sec : Section) (p : St α × Box)
    (r : BoxItems) (q : St α × Box) (h : kwStep m D T sec p (.box r) = some q) :
    Box.update D p.2 r = some q.2 ∧ q.1 = p.1 := by
  simp only [kwStep] at h
  split at h
  · cases h
  · rename_i b' hb
    cases h
    exact ⟨hb, rfl⟩

/-- the section box after a list of keywords depends on the BOX / ENDBOX keywords only -/
def boxTrack (D : Dims) : Box → List (Kw α) → Box
  | b, [] => b
  | b, k :: ks => boxTrack D (Kw.nextBox D b k) ks

theorem foldRecs_kwStep_box [RealOps α] (m : Mode) (D : Dims) (T : Tables α) (sec : Section) (ks : List (Kw α))
    (p q : St α × Box) (h : foldRecs (kwStep m D T sec) p ks = some q) : q.2 = boxTrack D p.2 ks := by
  induction ks generalizing p with
  | nil => simp only [foldRecs, Option.some.injEq] at h; subst h; rfl
  | cons k ks ih =>
    simp only [foldRecs] at h
    cases hk : kwStep m D T sec p k with
    | none => rw [hk] at h; cases h
    | some p' =>
      rw [hk] at h
      rw [ih p' h, kwStep_nextBox m D T sec p k p' hk]
      rfl

/-- **D5** every section starts from the global box -/
theorem scanSection_fresh_box [RealOps α] (m : Mode) (D : Dims) (T : Tables α) (sec : Section) (s : St α)
    (ks : List (Kw α)) :
    scanSection m D T sec s ks =
      (foldRecs (kwStep m D T sec) (s, Box.global D) ks).map
        (fun r => if sec = .edit then applyMultipliers m D T r.1 else r.1) := by
  unfold scanSection
  cases foldRecs (kwStep m D T sec) (s, Box.global D) ks <;> rfl

example : (kwStep .ref ⟨2, 1, 2⟩ statusT .grid (initSt [true, true, true, true], Box.global ⟨2, 1, 2⟩)
      (.scalar .equal [⟨"PORO", 3, ⟨some 1, some 1, none, none, none, none⟩⟩])).map (·.2)
    = some (Box.global ⟨2, 1, 2⟩) ∧
    (scalarRec .ref ⟨2, 1, 2⟩ statusT .grid .equal (initSt [true, true, true, true], Box.global ⟨2, 1, 2⟩)
      ⟨"PORO", 3, ⟨some 1, some 1, none, none, none, none⟩⟩).map (·.2)
    = some ⟨0, 0, 0, 1, 1, 2⟩ := by decide +kernel

end Boxes

/-! ## E. no keyword un-defines a cell (reference semantics) -/

section Mono
variable {α : Type}

/-- every cell of `y` is a transition-system successor of the same cell of `x` -/
def ArrMono {β : Type} [Scalar β] (x y : Arr β) : Prop := ∀ g, StatusStep (cellAt x g).st (cellAt y g).st

/-- no key is lost and every array only moves along the transition system -/
def StoreMono {β : Type} [Scalar β] (a b : List (String × Arr β)) : Prop :=
  ∀ name x, sget a name = some x → ∃ y, sget b name = some y ∧ ArrMono x y

def StMono [Scalar α] (s q : St α) : Prop := StoreMono s.dbls q.dbls ∧ StoreMono s.ints q.ints

theorem ArrMono.refl {β : Type} [Scalar β] (x : Arr β) : ArrMono x x := fun _ => StatusStep.refl _

theorem ArrMono.trans {β : Type} [Scalar β] {x y z : Arr β} (h1 : ArrMono x y) (h2 : ArrMono y z) :
    ArrMono x z := fun g => (h1 g).trans (h2 g)

theorem StoreMono.refl {β : Type} [Scalar β] (a : List (String × Arr β)) : StoreMono a a :=
  fun _ x hx => ⟨x, hx, ArrMono.refl x⟩

theorem StoreMono.trans {β : Type} [Scalar β] {a b c : List (String × Arr β)}
    (h1 : StoreMono a b) (h2 : StoreMono b c) : StoreMono a c := by
  intro name x hx
  obtain ⟨y, hy, m1⟩ := h1 name x hx
  obtain ⟨z, hz, m2⟩ := h2 name y hy
  exact ⟨z, hz, m1.trans m2⟩

theorem StMono.refl [Scalar α] (s : St α) : StMono s s := ⟨StoreMono.refl _, StoreMono.refl _⟩

theorem StMono.trans [Scalar α] {a b c : St α} (h1 : StMono a b) (h2 : StMono b c) : StMono a c :=
  ⟨h1.1.trans h2.1, h1.2.trans h2.2⟩

theorem sget_sput_eq_st {β : Type} (s : List (String × β)) (k : String) (v : β) :
    sget (sput s k v) k = some v := by
  induction s with
  | nil => simp [sput, sget]
  | cons p r ih =>
    obtain ⟨k', v'⟩ := p
    simp only [sput]
    by_cases h : k' = k
    · simp [h, sget]
    · simp [h, sget, ih]

theorem sget_sput_ne_st {β : Type} (s : List (String × β)) (k k2 : String) (v : β) (hne : k2 ≠ k) :
    sget (sput s k v) k2 = sget s k2 := by
  induction s with
  | nil =>
    simp only [sput, sget]
    rw [if_neg (fun e => hne e.symm)]
  | cons p r ih =>
    obtain ⟨k', v'⟩ := p
    simp only [sput]
    by_cases h : k' = k
    · subst h
      simp only [if_true, sget]
      rw [if_neg (fun e => hne e.symm), if_neg (fun e => hne e.symm)]
    · simp only [h, if_false, sget]
      rw [ih]

/-- overwriting (or creating) one key with a successor of its old content -/
theorem storeMono_sput {β : Type} [Scalar β] (a : List (String × Arr β)) (k : String) (y : Arr β)
    (h : ∀ t, sget a k = some t → ArrMono t y) : StoreMono a (sput a k y) := by
  intro name x hx
  by_cases hn : name = k
  · subst hn
    exact ⟨y, sget_sput_eq_st a name y, h x hx⟩
  · exact ⟨x, by rw [sget_sput_ne_st a k name y hn]; exact hx, ArrMono.refl x⟩

theorem getD_mono [Scalar α] (m : Mode) (D : Dims) (s : St α) (kw : String) (info : DInfo α) :
    StMono s (getD m D s kw info).1 := by
  unfold getD
  cases h : sget s.dbls kw with
  | some x => exact StMono.refl s
  | none =>
    refine ⟨storeMono_sput _ _ _ (fun t ht => ?_), StoreMono.refl _⟩
    rw [h] at ht
    cases ht

theorem getI_mono [Scalar α] (m : Mode) (D : Dims) (s : St α) (kw : String) (init : Option Int) :
    StMono s (getI m D s kw init).1 := by
  unfold getI
  cases h : sget s.ints kw with
  | some x => exact StMono.refl s
  | none =>
    refine ⟨StoreMono.refl _, storeMono_sput _ _ _ (fun t ht => ?_)⟩
    rw [h] at ht
    cases ht

theorem getD_sget_self [Scalar α] (m : Mode) (D : Dims) (s : St α) (kw : String) (info : DInfo α) :
    sget (getD m D s kw info).1.dbls kw = some (getD m D s kw info).2 := by
  unfold getD
  cases h : sget s.dbls kw with
  | some x => exact h
  | none => exact sget_sput_eq_st _ _ _

theorem getI_sget_self (m : Mode) (D : Dims) (s : St α) (kw : String) (init : Option Int) :
    sget (getI m D s kw init).1.ints kw = some (getI m D s kw init).2 := by
  unfold getI
  cases h : sget s.ints kw with
  | some x => exact h
  | none => exact sget_sput_eq_st _ _ _

theorem getD_sget_pres [Scalar α] (m : Mode) (D : Dims) (s : St α) (kw : String) (info : DInfo α)
    (k : String) (t : Arr α) (ht : sget s.dbls k = some t) :
    sget (getD m D s kw info).1.dbls k = some t := by
  unfold getD
  cases h : sget s.dbls kw with
  | some x => exact ht
  | none =>
    have hne : k ≠ kw := by
      intro e; subst e; rw [h] at ht; cases ht
    simp only []
    rw [sget_sput_ne_st _ _ _ _ hne]
    exact ht

theorem getI_dbls_st (m : Mode) (D : Dims) (s : St α) (kw : String) (init : Option Int) :
    (getI m D s kw init).1.dbls = s.dbls := by
  unfold getI; split <;> rfl

theorem putD_mono [Scalar α] (s : St α) (k : String) (t y : Arr α) (ht : sget s.dbls k = some t)
    (hy : ArrMono t y) : StMono s (putD s k y) := by
  refine ⟨storeMono_sput _ _ _ (fun t' ht' => ?_), StoreMono.refl _⟩
  rw [ht] at ht'
  cases ht'
  exact hy

theorem putI_mono [Scalar α] (s : St α) (k : String) (t y : Arr Int) (ht : sget s.ints k = some t)
    (hy : ArrMono t y) : StMono s (putI s k y) := by
  refine ⟨StoreMono.refl _, storeMono_sput _ _ _ (fun t' ht' => ?_)⟩
  rw [ht] at ht'
  cases ht'
  exact hy

theorem scalarRec_mono [RealOps α] (D : Dims) (T : Tables α) (sec : Section) (op : ScalarOp)
    (sb : St α × Box) (r : ScalarRec α) (q : St α × Box)
    (h : scalarRec .ref D T sec op sb r = some q) : StMono sb.1 q.1 := by
  unfold scalarRec at h
  try simp only [] at h
  repeat' (split at h <;> try simp only [] at h)
  all_goals first
    | (cases h; done)
    | (refine map_pair_inv (StMono sb.1) _ _ _ q h (fun y hy => ?_)
       first
        | exact (getD_mono _ _ _ _ _).trans (putD_mono _ _ _ _ (getD_sget_self _ _ _ _ _)
            (boxApply_ref_statusStep _ (scalarKernel_statusOK _ _) _ _ _ _ _ _ hy))
        | exact (getI_mono _ _ _ _ _).trans (putI_mono _ _ _ _ (getI_sget_self _ _ _ _ _)
            (boxApply_ref_statusStep _ (scalarKernel_statusOK _ _) _ _ _ _ _ _ hy)))

theorem copyRec_mono [RealOps α] (D : Dims) (T : Tables α)
    (sb : St α × Box) (r : CopyRec) (q : St α × Box)
    (h : copyRec .ref D T sb r = some q) : StMono sb.1 q.1 := by
  unfold copyRec at h
  try simp only [] at h
  repeat' (split at h <;> try simp only [] at h)
  all_goals first
    | (cases h; done)
    | (cases h; exact StMono.refl _)
    | (refine map_pair_inv (StMono sb.1) _ _ _ q h (fun y hy => ?_)
       first
        | exact (getD_mono _ _ _ _ _).trans (putD_mono _ _ _ _ (getD_sget_self _ _ _ _ _)
            (boxApply_ref_statusStep _ copyKernel_statusOK _ _ _ _ _ _ hy))
        | exact (getI_mono _ _ _ _ _).trans (putI_mono _ _ _ _ (getI_sget_self _ _ _ _ _)
            (boxApply_ref_statusStep _ copyKernel_statusOK _ _ _ _ _ _ hy)))

theorem operRec_mono [RealOps α] (D : Dims) (T : Tables α)
    (sb : St α × Box) (r : OperRec α) (q : St α × Box)
    (h : operRec .ref D T sb r = some q) : StMono sb.1 q.1 := by
  unfold operRec at h
  try simp only [] at h
  repeat' (split at h <;> try simp only [] at h)
  all_goals first
    | (cases h; done)
    | (refine map_pair_inv (StMono sb.1) _ _ _ q h (fun y hy => ?_)
       exact ((getD_mono _ _ _ _ _).trans (getD_mono _ _ _ _ _)).trans
          (putD_mono _ _ _ _ (getD_sget_pres _ _ _ _ _ _ _ (getD_sget_self _ _ _ _ _))
            (boxApply_ref_statusStep _ (operateKernel_statusOK _ _) _ _ _ _ _ _ hy)))

theorem regionArr_eq [RealOps α] {m : Mode} {D : Dims} {T : Tables α} {s : St α} {name : String}
    {q : St α × Arr Int} (h : regionArr m D T s name = some q) : ∃ init, q = getI m D s name init := by
  unfold regionArr at h
  try simp only [] at h
  repeat' (split at h <;> try simp only [] at h)
  all_goals first
    | (cases h; done)
    | (cases h; exact ⟨_, rfl⟩)

theorem regionArr_mono [RealOps α] {m : Mode} {D : Dims} {T : Tables α} {s : St α} {name : String}
    {q : St α × Arr Int} (h : regionArr m D T s name = some q) : StMono s q.1 := by
  obtain ⟨init, e⟩ := regionArr_eq h
  rw [e]; exact getI_mono _ _ _ _ _

theorem regionArr_sget [RealOps α] {m : Mode} {D : Dims} {T : Tables α} {s : St α} {name : String}
    {q : St α × Arr Int} (h : regionArr m D T s name = some q) {k : String} {t : Arr α}
    (ht : sget s.dbls k = some t) : sget q.1.dbls k = some t := by
  obtain ⟨init, e⟩ := regionArr_eq h
  rw [e, getI_dbls_st]; exact ht

theorem regScalarRec_mono [RealOps α] (D : Dims) (T : Tables α) (op : ScalarOp) (s : St α)
    (r : RegScalarRec α) (q : St α) (h : regScalarRec .ref D T op s r = some q) : StMono s q := by
  unfold regScalarRec at h
  try simp only [] at h
  repeat' (split at h <;> try simp only [] at h)
  all_goals first
    | (cases h; done)
    | (cases h; exact StMono.refl _)
    | (have hra := regionArr_mono (by assumption)
       have hrs := fun k t => @regionArr_sget _ _ _ _ _ _ _ _ (by assumption) k t
       first
         | (cases h; exact (getD_mono _ _ _ _ _).trans hra)
         | (refine map_inv (StMono s) _ _ q h (fun y hy => ?_)
            exact ((getD_mono _ _ _ _ _).trans hra).trans
              (putD_mono _ _ _ _ (hrs _ _ (getD_sget_self _ _ _ _ _))
                (regApply_ref_statusStep _ (scalarKernel_statusOK _ _) _ _ _ _ _ _ hy))))

theorem copyRegRec_mono [RealOps α] (D : Dims) (T : Tables α) (s : St α)
    (r : CopyRegRec) (q : St α) (h : copyRegRec .ref D T s r = some q) : StMono s q := by
  unfold copyRegRec at h
  try simp only [] at h
  repeat' (split at h <;> try simp only [] at h)
  all_goals first
    | (cases h; done)
    | (have hra := regionArr_mono (by assumption)
       first
         | (cases h; exact hra)
         | (refine map_inv (StMono s) _ _ q h (fun y hy => ?_)
            first
             | exact (hra.trans (getD_mono _ _ _ _ _)).trans
                (putD_mono _ _ _ _ (getD_sget_self _ _ _ _ _)
                  (regApply_ref_statusStep _ copyKernel_statusOK _ _ _ _ _ _ hy))
             | exact (hra.trans (getI_mono _ _ _ _ _)).trans
                (putI_mono _ _ _ _ (getI_sget_self _ _ _ _ _)
                  (regApply_ref_statusStep _ copyKernel_statusOK _ _ _ _ _ _ hy))))

theorem operRegRec_mono [RealOps α] (D : Dims) (T : Tables α) (s : St α)
    (r : OperRegRec α) (q : St α) (h : operRegRec .ref D T s r = some q) : StMono s q := by
  unfold operRegRec at h
  try simp only [] at h
  repeat' (split at h <;> try simp only [] at h)
  all_goals first
    | (cases h; done)
    | (cases h; exact StMono.refl _)
    | (have hra := regionArr_mono (by assumption)
       have hrs := fun k t => @regionArr_sget _ _ _ _ _ _ _ _ (by assumption) k t
       first
         | (cases h; exact ((getD_mono _ _ _ _ _).trans (getD_mono _ _ _ _ _)).trans hra)
         | (refine map_inv (StMono s) _ _ q h (fun y hy => ?_)
            exact (((getD_mono _ _ _ _ _).trans (getD_mono _ _ _ _ _)).trans hra).trans
              (putD_mono _ _ _ _ (hrs _ _ (getD_sget_pres _ _ _ _ _ _ _ (getD_sget_self _ _ _ _ _)))
                (regApply_ref_statusStep _ (operateKernel_statusOK _ _) _ _ _ _ _ _ hy))))

/-- a reflexive-transitive relation that every step respects is respected by the fold -/
theorem foldRecs_rel {σ ρ : Type} (f : σ → ρ → Option σ) (I : σ → σ → Prop) (hrefl : ∀ s, I s s)
    (htrans : ∀ a b c, I a b → I b c → I a c) (h : ∀ s r q, f s r = some q → I s q) :
    ∀ (rs : List ρ) (s q : σ), foldRecs f s rs = some q → I s q := by
  intro rs
  induction rs with
  | nil => intro s q hq; simp only [foldRecs, Option.some.injEq] at hq; subst hq; exact hrefl s
  | cons r rs ih =>
    intro s q hq
    simp only [foldRecs] at hq
    cases hf : f s r with
    | none => rw [hf] at hq; cases hq
    | some s' => rw [hf] at hq; exact htrans _ _ _ (h s r s' hf) (ih s' q hq)

theorem kwStep_mono [RealOps α] (D : Dims) (T : Tables α) (sec : Section) (p : St α × Box)
    (k : Kw α) (q : St α × Box) (h : kwStep .ref D T sec p k = some q) : StMono p.1 q.1 := by
  have fp : ∀ {ρ : Type} (f : St α × Box → ρ → Option (St α × Box))
      (_ : ∀ s r q, f s r = some q → StMono s.1 q.1)
      (rs : List ρ) (s q : St α × Box), foldRecs f s rs = some q → StMono s.1 q.1 :=
    fun f hf rs s q hq => foldRecs_rel f (fun a b => StMono a.1 b.1) (fun _ => StMono.refl _)
      (fun _ _ _ h1 h2 => h1.trans h2) hf rs s q hq
  have fs : ∀ {ρ : Type} (f : St α → ρ → Option (St α))
      (_ : ∀ s r q, f s r = some q → StMono s q)
      (rs : List ρ) (s q : St α), foldRecs f s rs = some q → StMono s q :=
    fun f hf rs s q hq => foldRecs_rel f StMono (fun _ => StMono.refl _)
      (fun _ _ _ h1 h2 => h1.trans h2) hf rs s q hq
  cases k with
  | box r =>
    simp only [kwStep] at h
    split at h
    · cases h
    · cases h; exact StMono.refl _
  | endbox => simp only [kwStep, Option.some.injEq] at h; subst h; exact StMono.refl _
  | dataD kw vals =>
    simp only [kwStep] at h
    repeat' (split at h <;> try simp only [] at h)
    all_goals first
      | (cases h; done)
      | (refine map_pair_inv (StMono p.1) _ _ _ q h (fun y hy => ?_)
         exact (getD_mono _ _ _ _ _).trans (putD_mono _ _ _ _ (getD_sget_self _ _ _ _ _)
           (ArrMono.trans (boxApply_ref_statusStep _ (assignKernel_statusOK _) _ _ _ _ _ _ hy)
             (topStep_ref_statusStep _ _ _ _ _ _ _))))
  | dataI kw vals =>
    simp only [kwStep] at h
    repeat' (split at h <;> try simp only [] at h)
    all_goals first
      | (cases h; done)
      | (refine map_pair_inv (StMono p.1) _ _ _ q h (fun y hy => ?_)
         exact (getI_mono _ _ _ _ _).trans (putI_mono _ _ _ _ (getI_sget_self _ _ _ _ _)
           (boxApply_ref_statusStep _ (assignKernel_statusOK _) _ _ _ _ _ _ hy)))
  | scalar op recs =>
    simp only [kwStep] at h
    split at h
    · cases h
    · rename_i r hr
      cases h
      have hm := fp _ (fun s r q h => scalarRec_mono D T sec op s r q h) recs _ _ hr
      exact hm
  | copy recs =>
    simp only [kwStep] at h
    split at h
    · cases h
    · rename_i r hr
      cases h
      have hm := fp _ (fun s r q h => copyRec_mono D T s r q h) recs _ _ hr
      exact hm
  | operate recs =>
    simp only [kwStep] at h
    split at h
    · cases h
    · rename_i r hr
      cases h
      have hm := fp _ (fun s r q h => operRec_mono D T s r q h) recs _ _ hr
      exact hm
  | regScalar op recs =>
    simp only [kwStep] at h
    split at h
    · cases h
    · rename_i r hr
      cases h
      exact fs _ (fun s r q h => regScalarRec_mono D T op s r q h) recs _ _ hr
  | copyReg recs =>
    simp only [kwStep] at h
    split at h
    · cases h
    · rename_i r hr
      cases h
      exact fs _ (fun s r q h => copyRegRec_mono D T s r q h) recs _ _ hr
  | operateR recs =>
    simp only [kwStep] at h
    split at h
    · cases h
    · rename_i r hr
      cases h
      exact fs _ (fun s r q h => operRegRec_mono D T s r q h) recs _ _ hr

/-- **E** no keyword removes an array or un-defines a cell: a cell of a double array that has a
value before the keyword has one after it -/
theorem kwStep_hasValue_mono [RealOps α] (D : Dims) (T : Tables α) (sec : Section) (p : St α × Box)
    (k : Kw α) (q : St α × Box) (h : kwStep .ref D T sec p k = some q)
    (name : String) (x : Arr α) (hx : sget p.1.dbls name = some x) :
    ∃ y, sget q.1.dbls name = some y ∧
      ∀ g, (cellAt x g).st.hasValue = true → (cellAt y g).st.hasValue = true := by
  obtain ⟨y, hy, hm⟩ := (kwStep_mono D T sec p k q h).1 name x hx
  exact ⟨y, hy, fun g => (hm g).1⟩

/-- the same for the integer arrays -/
theorem kwStep_hasValue_mono_int [RealOps α] (D : Dims) (T : Tables α) (sec : Section) (p : St α × Box)
    (k : Kw α) (q : St α × Box) (h : kwStep .ref D T sec p k = some q)
    (name : String) (x : Arr Int) (hx : sget p.1.ints name = some x) :
    ∃ y, sget q.1.ints name = some y ∧
      ∀ g, (cellAt x g).st.hasValue = true → (cellAt y g).st.hasValue = true := by
  obtain ⟨y, hy, hm⟩ := (kwStep_mono D T sec p k q h).2 name x hx
  exact ⟨y, hy, fun g => (hm g).1⟩

/-- … and through any list of keywords (a whole section before `apply_multipliers`) -/
theorem foldRecs_kwStep_mono [RealOps α] (D : Dims) (T : Tables α) (sec : Section) (ks : List (Kw α))
    (p q : St α × Box) (h : foldRecs (kwStep .ref D T sec) p ks = some q) : StMono p.1 q.1 :=
  foldRecs_rel (kwStep .ref D T sec) (fun a b => StMono a.1 b.1) (fun _ => StMono.refl _)
    (fun _ _ _ h1 h2 => StMono.trans h1 h2) (fun s k q h => kwStep_mono D T sec s k q h) ks p q h

theorem scanSection_mono [RealOps α] (D : Dims) (T : Tables α) (sec : Section) (hsec : sec ≠ .edit)
    (s : St α) (ks : List (Kw α)) (q : St α) (h : scanSection .ref D T sec s ks = some q) : StMono s q := by
  unfold scanSection at h
  split at h
  · cases h
  · rename_i r hr
    simp only [hsec, if_false, Option.some.injEq] at h
    subst h
    exact foldRecs_kwStep_mono D T sec ks _ _ hr

example : (kwStep .ref ⟨1, 1, 2⟩ statusT .grid (initSt [true, true], Box.global ⟨1, 1, 2⟩)
      (.dataD "NTG" [⟨.validDefault, 1⟩, ⟨.deckValue, 2⟩])).map (fun q => sget q.1.dbls "NTG")
    = some (some [⟨.validDefault, 1⟩, ⟨.deckValue, 2⟩]) := by decide +kernel

end Mono

end OpmVerif.FieldProps
