/-
  C01 at deck level (second round): whole-text statements about `parseDeckText`.

  * `Parses` — the keyword loop ends with a deck, for some number of rounds (more rounds never
    change a result: `parseLoop_fuel_le`).
  * `AtBoundary` — a prefix text that the keyword loop consumes as whole keywords, whatever
    follows (the written text of any conforming deck is one: `atBoundary_written`).
  * `include_splice_text` — behind any such prefix, `INCLUDE / 'path' /` is the cleaned text of
    the file, followed by the end-of-file marker, spliced in front of the text that follows.
  * `RelayoutDeck` — the closure (reflexive, symmetric, transitive, in any context) of the
    deck-level rewrite rules; `relayout_deck`: every derivation preserves the parsed deck.
-/
import OpmVerif.Proofs.DeckRoundTrip
import OpmVerif.Proofs.LexSafe

namespace OpmVerif.RawKw
open OpmVerif.Lex OpmVerif.Tok OpmVerif.Scan OpmVerif.DeckWrite

/-! ### two raw keywords that differ only in the spelling of their records -/

/-- the raw keyword with its records replaced. -/
def Kw.setRecs (k : Kw) (r : List (List Bytes)) : Kw := { k with records := r }

theorem setRecs_self (k : Kw) : k.setRecs k.records = k := rfl

theorem terminate_setRecs (k : Kw) (r : List (List Bytes)) (h : r.length = k.records.length) :
    (k.setRecs r).terminate = k.terminate.setRecs r := by
  obtain ⟨st, raw, recs, ms, fs, nt, ct, tf, fin⟩ := k
  simp only at h
  unfold Kw.terminate Kw.setRecs
  cases st <;> simp only [h] <;> (try rfl) <;> split <;> rfl

theorem terminate_records_eq (k : Kw) : k.terminate.records = k.records := terminate_records k

theorem addRecord_setRecs (k : Kw) (r : List (List Bytes)) (t t' : List Bytes) (h : r.length = k.records.length)
    (ht : (t.length > 0) ↔ (t'.length > 0)) :
    (k.setRecs r).addRecord t' = (k.addRecord t).setRecs (r ++ [t']) := by
  unfold Kw.addRecord Kw.setRecs
  by_cases h1 : t.length > 0
  · have h2 : t'.length > 0 := ht.mp h1
    simp only [h1, h2, ↓reduceIte, List.length_append, List.length_cons, List.length_nil, h]
    split <;> rfl
  · have h2 : ¬ t'.length > 0 := fun x => h1 (ht.mpr x)
    simp only [h1, h2, ↓reduceIte, List.length_append, List.length_cons, List.length_nil, h]
    split <;> rfl

theorem canComplete_setRecs (k : Kw) (r : List (List Bytes)) (h : r.length = k.records.length) :
    (k.setRecs r).canComplete = k.canComplete := by
  unfold Kw.canComplete Kw.setRecs
  simp only [h]

theorem setRecs_fields (k : Kw) (r : List (List Bytes)) :
    (k.setRecs r).finished = k.finished ∧ (k.setRecs r).raw = k.raw ∧ (k.setRecs r).records = r := ⟨rfl, rfl, rfl⟩

theorem setRecs_setRecs (k : Kw) (r r' : List (List Bytes)) : (k.setRecs r).setRecs r' = k.setRecs r' := rfl

/-- the outcome of one step on a keyword whose records were replaced, in terms of the outcome
on the original: same control flow, the records carried along. -/
def Step.mapRecs (f : Kw → Kw) : Step → Step
  | .cont k b g => .cont (f k) b g
  | .done k u => .done (f k) u
  | .err => .err

theorem afterExtend_setRecs (k : Kw) (r : List (List Bytes)) (h : r.length = k.records.length) (buf : Bytes) :
    afterExtend (k.setRecs r) buf =
      (afterExtend k buf).mapRecs (fun kf => kf.setRecs (r ++ kf.records.drop k.records.length)) := by
  have hdrop0 : ∀ (x : Kw), x.records = k.records → x.setRecs (r ++ x.records.drop k.records.length) = x.setRecs r := by
    intro x hx; rw [hx]; simp
  unfold afterExtend
  simp only
  by_cases ht : isTerminator buf = true
  · simp only [ht, ↓reduceIte, true_and, terminate_setRecs k r h]
    have hfin : (k.terminate.setRecs r).finished = k.terminate.finished := rfl
    rw [hfin]
    by_cases hf : k.terminate.finished = true
    · simp only [hf, ↓reduceIte, Step.mapRecs]
      rw [hdrop0 k.terminate (terminate_records k)]
    · simp only [hf, Bool.false_eq_true, ↓reduceIte]
      by_cases hr : isTerminatedRecordString buf = true
      · simp only [hr, ↓reduceIte]
        cases hraw : rawRecord buf.dropLast with
        | none => simp only [Step.mapRecs]
        | some toks =>
          simp only
          have hl : r.length = k.terminate.records.length := by rw [terminate_records]; exact h
          rw [addRecord_setRecs k.terminate r toks toks hl Iff.rfl]
          have hfin2 : ((k.terminate.addRecord toks).setRecs (r ++ [toks])).finished = (k.terminate.addRecord toks).finished := rfl
          rw [hfin2]
          have hrec : (k.terminate.addRecord toks).records.drop k.records.length = [toks] := by
            rw [addRecord_records, terminate_records]; simp
          by_cases hf2 : (k.terminate.addRecord toks).finished = true
          · simp only [hf2, ↓reduceIte, Step.mapRecs, hrec]
          · simp only [hf2, Bool.false_eq_true, ↓reduceIte, Step.mapRecs, hrec]
      · simp only [hr, Bool.false_eq_true, ↓reduceIte, Step.mapRecs]
        rw [hdrop0 k.terminate (terminate_records k)]
  · simp only [ht, Bool.false_eq_true, ↓reduceIte, false_and]
    by_cases hr : isTerminatedRecordString buf = true
    · simp only [hr, ↓reduceIte]
      cases hraw : rawRecord buf.dropLast with
      | none => simp only [Step.mapRecs]
      | some toks =>
        simp only
        rw [addRecord_setRecs k r toks toks h Iff.rfl]
        have hfin2 : ((k.addRecord toks).setRecs (r ++ [toks])).finished = (k.addRecord toks).finished := rfl
        rw [hfin2]
        have hrec : (k.addRecord toks).records.drop k.records.length = [toks] := by
          rw [addRecord_records]; simp
        by_cases hf2 : (k.addRecord toks).finished = true
        · simp only [hf2, ↓reduceIte, Step.mapRecs, hrec]
        · simp only [hf2, Bool.false_eq_true, ↓reduceIte, Step.mapRecs, hrec]
    · simp only [hr, Bool.false_eq_true, ↓reduceIte, Step.mapRecs]
      rw [hdrop0 k rfl]

theorem terminate_recs_ext (k : Kw) : ∃ add, k.terminate.records = k.records ++ add := ⟨[], by rw [terminate_records]; simp⟩

/-- a step only appends records. -/
def StepExt (k : Kw) : Step → Prop
  | .cont k2 _ _ => ∃ add, k2.records = k.records ++ add
  | .done k2 _ => ∃ add, k2.records = k.records ++ add
  | .err => True

theorem afterExtend_ext (k : Kw) (buf : Bytes) : StepExt k (afterExtend k buf) := by
  unfold afterExtend
  simp only
  by_cases ht : isTerminator buf = true
  · simp only [ht, ↓reduceIte, true_and]
    by_cases hf : k.terminate.finished = true
    · simp only [hf, ↓reduceIte, StepExt]; exact terminate_recs_ext k
    · simp only [hf, Bool.false_eq_true, ↓reduceIte]
      by_cases hr : isTerminatedRecordString buf = true
      · simp only [hr, ↓reduceIte]
        cases rawRecord buf.dropLast with
        | none => trivial
        | some toks =>
          simp only
          by_cases hf2 : (k.terminate.addRecord toks).finished = true
          · simp only [hf2, ↓reduceIte, StepExt]; exact ⟨[toks], by rw [addRecord_records, terminate_records]⟩
          · simp only [hf2, Bool.false_eq_true, ↓reduceIte, StepExt]; exact ⟨[toks], by rw [addRecord_records, terminate_records]⟩
      · simp only [hr, Bool.false_eq_true, ↓reduceIte, StepExt]; exact terminate_recs_ext k
  · simp only [ht, Bool.false_eq_true, ↓reduceIte, false_and]
    by_cases hr : isTerminatedRecordString buf = true
    · simp only [hr, ↓reduceIte]
      cases rawRecord buf.dropLast with
      | none => trivial
      | some toks =>
        simp only
        by_cases hf2 : (k.addRecord toks).finished = true
        · simp only [hf2, ↓reduceIte, StepExt]; exact ⟨[toks], by rw [addRecord_records]⟩
        · simp only [hf2, Bool.false_eq_true, ↓reduceIte, StepExt]; exact ⟨[toks], by rw [addRecord_records]⟩
    · simp only [hr, Bool.false_eq_true, ↓reduceIte, StepExt]; exact ⟨[], by simp⟩

theorem feedLine_ext (recog : Bytes → Bool) (k : Kw) (buf gap line : Bytes) : StepExt k (feedLine recog k buf gap line) := by
  unfold feedLine
  by_cases h1 : line.isEmpty = true
  · simp only [h1, ↓reduceIte, StepExt]; exact ⟨[], by simp⟩
  · simp only [h1, Bool.false_eq_true, ↓reduceIte]
    by_cases h2 : (k.canComplete && recog (makeDeckName line)) = true
    · simp only [h2, ↓reduceIte, StepExt]; exact terminate_recs_ext k
    · simp only [h2, Bool.false_eq_true, ↓reduceIte]; exact afterExtend_ext k _

theorem feedLine_recs_ext (recog : Bytes → Bool) (k : Kw) (buf gap line : Bytes) :
    (∀ k2 b g, feedLine recog k buf gap line = .cont k2 b g → ∃ add, k2.records = k.records ++ add) ∧
    (∀ k2 u, feedLine recog k buf gap line = .done k2 u → ∃ add, k2.records = k.records ++ add) := by
  have h := feedLine_ext recog k buf gap line
  refine ⟨fun k2 b g e => by rw [e] at h; exact h, fun k2 u e => by rw [e] at h; exact h⟩

theorem feedLine_setRecs (recog : Bytes → Bool) (k : Kw) (r : List (List Bytes)) (h : r.length = k.records.length)
    (buf gap line : Bytes) :
    feedLine recog (k.setRecs r) buf gap line =
      (feedLine recog k buf gap line).mapRecs (fun kf => kf.setRecs (r ++ kf.records.drop k.records.length)) := by
  unfold feedLine
  rw [canComplete_setRecs k r h]
  by_cases h1 : line.isEmpty = true
  · simp only [h1, ↓reduceIte, Step.mapRecs]
    congr 1
    simp [Kw.setRecs]
  · simp only [h1, Bool.false_eq_true, ↓reduceIte]
    by_cases h2 : (k.canComplete && recog (makeDeckName line)) = true
    · simp only [h2, ↓reduceIte, Step.mapRecs, terminate_setRecs k r h]
      congr 1
      rw [terminate_records]; simp [Kw.setRecs]
    · simp only [h2, Bool.false_eq_true, ↓reduceIte]
      have : (k.setRecs r).raw = k.raw := rfl
      rw [this]
      exact afterExtend_setRecs k r h _

/-- **bisimulation**: the line loop on a raw keyword whose records were replaced (same
number of them) runs exactly like the loop on the original — same lines consumed, same
termination — and the records it adds are the same. -/
theorem feedLines_setRecs (recog : Bytes → Bool) : ∀ (lines : List Bytes) (k : Kw) (r : List (List Bytes))
    (buf gap : Bytes), r.length = k.records.length →
    feedLines recog (k.setRecs r) buf gap lines =
      (feedLines recog k buf gap lines).map (fun p => (p.1.setRecs (r ++ p.1.records.drop k.records.length), p.2)) ∧
    (∀ kf rest, feedLines recog k buf gap lines = some (kf, rest) → ∃ add, kf.records = k.records ++ add) := by
  intro lines
  induction lines with
  | nil =>
    intro k r buf gap h
    simp only [feedLines, canComplete_setRecs k r h]
    by_cases hc : k.canComplete = true
    · simp only [hc, ↓reduceIte, terminate_setRecs k r h]
      have hf : (k.terminate.setRecs r).finished = k.terminate.finished := rfl
      rw [hf]
      by_cases hfin : k.terminate.finished = true
      · simp only [hfin, ↓reduceIte, Option.map_some]
        refine ⟨?_, ?_⟩
        · rw [terminate_records]; simp
        · intro kf rest e
          injection e with e
          injection e with e1 _
          subst e1
          exact terminate_recs_ext k
      · simp only [hfin, Bool.false_eq_true, ↓reduceIte, Option.map_none]
        exact ⟨trivial, fun kf rest e => by cases e⟩
    · simp only [hc, Bool.false_eq_true, ↓reduceIte]
      have hf : (k.setRecs r).finished = k.finished := rfl
      rw [hf]
      by_cases hfin : k.finished = true
      · simp only [hfin, ↓reduceIte, Option.map_some]
        refine ⟨by simp [Kw.setRecs], ?_⟩
        intro kf rest e
        injection e with e
        injection e with e1 _
        subst e1
        exact ⟨[], by simp⟩
      · simp only [hfin, Bool.false_eq_true, ↓reduceIte, Option.map_none]
        exact ⟨trivial, fun kf rest e => by cases e⟩
  | cons line rest ih =>
    intro k r buf gap h
    by_cases hm : line = eofMark
    · subst hm
      simp only [feedLines_cons_mark]
      by_cases hb : buf.isEmpty = true
      · simp only [hb, ↓reduceIte]; exact ih k r buf gap h
      · simp only [hb, Bool.false_eq_true, ↓reduceIte, Option.map_none]
        exact ⟨trivial, fun kf rest e => by cases e⟩
    · rw [feedLines_cons recog (k.setRecs r) buf gap line rest hm, feedLines_cons recog k buf gap line rest hm,
        feedLine_setRecs recog k r h buf gap line]
      obtain ⟨hext1, hext2⟩ := feedLine_recs_ext recog k buf gap line
      cases hs : feedLine recog k buf gap line with
      | cont k2 b g =>
        obtain ⟨add, hadd⟩ := hext1 k2 b g hs
        simp only [Step.mapRecs]
        have hlen : (r ++ k2.records.drop k.records.length).length = k2.records.length := by
          rw [hadd]; simp [h]
        obtain ⟨ih1, ih2⟩ := ih k2 (r ++ k2.records.drop k.records.length) b g hlen
        refine ⟨?_, ?_⟩
        · rw [ih1]
          cases hfl : feedLines recog k2 b g rest with
          | none => rfl
          | some p =>
            obtain ⟨kf, rs⟩ := p
            obtain ⟨add2, hadd2⟩ := ih2 kf rs hfl
            simp only [Option.map_some, Option.some.injEq, Prod.mk.injEq, and_true]
            congr 1
            rw [hadd2, hadd]
            simp [List.append_assoc]
        · intro kf rs e
          obtain ⟨add2, hadd2⟩ := ih2 kf rs e
          exact ⟨add ++ add2, by rw [hadd2, hadd, List.append_assoc]⟩
      | done k2 u =>
        obtain ⟨add, hadd⟩ := hext2 k2 u hs
        simp only [Step.mapRecs, Option.map_some]
        exact ⟨trivial, fun kf rs e => by
          injection e with e; injection e with e1 _; subst e1; exact ⟨add, hadd⟩⟩
      | err =>
        simp only [Step.mapRecs, Option.map_none]
        exact ⟨trivial, fun kf rs e => by cases e⟩

/-! ### a record of a keyword replaced by another spelling -/

/-- the lines `X` are one record of the raw keyword `k`, with tokens `t`: fed to the line
loop they add exactly that record, whatever follows. -/
def OneRec (recog : Bytes → Bool) (k : Kw) (X : List Bytes) (t : List Bytes) : Prop :=
  ∀ rest, feedLines recog k [] [] (X ++ rest) =
    if (k.addRecord t).finished then some (k.addRecord t, rest) else feedLines recog (k.addRecord t) [] [] rest

theorem parseRecords_congr_at (cv : Conv) (schemas : List (List Item)) (alt : Bool) (t t' : List Bytes) (post : List (List Bytes)) :
    ∀ (pre : List (List Bytes)) (i : Nat),
      (∀ items, schemaOf schemas alt (i + pre.length) = some items → parseItems cv items t = parseItems cv items t') →
      parseRecords cv schemas alt i (pre ++ t :: post) = parseRecords cv schemas alt i (pre ++ t' :: post) := by
  intro pre
  induction pre with
  | nil =>
    intro i h
    simp only [List.nil_append, parseRecords]
    cases hs : schemaOf schemas alt i with
    | none => rfl
    | some items =>
      simp only
      rw [h items (by simpa using hs)]
  | cons p pre ih =>
    intro i h
    simp only [List.cons_append, parseRecords]
    cases hs : schemaOf schemas alt i with
    | none => rfl
    | some items =>
      simp only
      cases parseItems cv items p with
      | none => rfl
      | some r =>
        simp only
        rw [ih (i + 1) (by
          intro items' h'
          apply h items'
          have e : i + (p :: pre).length = i + 1 + pre.length := by simp; omega
          rw [e]; exact h')]

/-- the two raw keywords a record in two spellings leads to, after the same following lines. -/
theorem feedLines_two_spellings (recog : Bytes → Bool) (k : Kw) (X X' : List Bytes) (t t' : List Bytes)
    (hX : OneRec recog k X t) (hX' : OneRec recog k X' t') (ht : (t.length > 0) ↔ (t'.length > 0)) (rest : List Bytes) :
    (feedLines recog k [] [] (X ++ rest) = none ∧ feedLines recog k [] [] (X' ++ rest) = none) ∨
    ∃ kf rs add, feedLines recog k [] [] (X ++ rest) = some (kf, rs) ∧
      feedLines recog k [] [] (X' ++ rest) = some (kf.setRecs (k.records ++ t' :: add), rs) ∧
      kf.records = k.records ++ t :: add := by
  have hadd : k.addRecord t' = (k.addRecord t).setRecs (k.records ++ [t']) := by
    have := addRecord_setRecs k k.records t t' rfl ht
    rw [setRecs_self] at this
    exact this
  have hfin : (k.addRecord t').finished = (k.addRecord t).finished := by rw [hadd]; rfl
  rw [hX rest, hX' rest, hfin]
  by_cases hf : (k.addRecord t).finished = true
  · right
    simp only [hf, ↓reduceIte]
    refine ⟨k.addRecord t, rest, [], rfl, ?_, by rw [addRecord_records]⟩
    rw [hadd]
  · simp only [hf, Bool.false_eq_true, ↓reduceIte]
    have hlen : (k.records ++ [t']).length = (k.addRecord t).records.length := by rw [addRecord_records]; simp
    obtain ⟨h1, h2⟩ := feedLines_setRecs recog rest (k.addRecord t) (k.records ++ [t']) [] [] hlen
    rw [hadd, h1]
    cases hfl : feedLines recog (k.addRecord t) [] [] rest with
    | none => left; exact ⟨rfl, rfl⟩
    | some p =>
      obtain ⟨kf, rs⟩ := p
      obtain ⟨add, hadd2⟩ := h2 kf rs hfl
      right
      refine ⟨kf, rs, add, rfl, ?_, by rw [hadd2, addRecord_records]; simp⟩
      simp only [Option.map_some, Option.some.injEq, Prod.mk.injEq, and_true]
      congr 1
      rw [hadd2, addRecord_records]
      simp


end OpmVerif.RawKw

namespace OpmVerif.Deck
open OpmVerif.Lex OpmVerif.Tok OpmVerif.Scan OpmVerif.RawKw OpmVerif.DeckWrite

/-- cleaned lines of a text. -/
def linesOf (t : Bytes) : List Bytes := splitLines (fastClean t)

section
variable (cv : Conv) (tbl : Table) (recog : Bytes → Bool) (files : List (Bytes × Bytes) → Bytes → Option Bytes)

/-! ### rounds -/

theorem parseLoop_fuel_succ : ∀ (fuel : Nat) (al : List (Bytes × Bytes)) (deck : DeckT) (lines : List Bytes) (r : DeckT),
    parseLoop cv tbl recog files fuel al deck lines = some r →
    parseLoop cv tbl recog files (fuel + 1) al deck lines = some r := by
  intro fuel
  induction fuel with
  | zero => intro al deck lines r h; simp [parseLoop] at h
  | succ f ih =>
    intro al deck lines r h
    rw [parseLoop] at h ⊢
    cases hs : parseStep cv tbl recog files al deck lines with
    | done x => rw [hs] at h; exact h
    | goto a d l => rw [hs] at h; exact ih a d l r h

theorem parseLoop_fuel_le (f g : Nat) (hfg : f ≤ g) (al : List (Bytes × Bytes)) (deck : DeckT) (lines : List Bytes)
    (r : DeckT) (h : parseLoop cv tbl recog files f al deck lines = some r) :
    parseLoop cv tbl recog files g al deck lines = some r := by
  obtain ⟨k, rfl⟩ := Nat.exists_eq_add_of_le hfg
  induction k with
  | zero => exact h
  | succ k ih => exact parseLoop_fuel_succ cv tbl recog files (f + k) al deck lines r (ih (by omega))

/-- the keyword loop, started at a keyword boundary with aliases `al` and the deck `deck`
parsed so far, ends with the deck `r`. -/
def Parses (al : List (Bytes × Bytes)) (deck : DeckT) (lines : List Bytes) (r : DeckT) : Prop :=
  ∃ fuel, parseLoop cv tbl recog files fuel al deck lines = some r

/-- `Parser::parseString(text)` returns the deck `r`. -/
def ParsesText (text : Bytes) (r : DeckT) : Prop := Parses cv tbl recog files [] [] (linesOf (text ++ [10])) r

theorem parsesText_iff (text : Bytes) (r : DeckT) :
    ParsesText cv tbl recog files text r ↔ ∃ fuel, parseDeckText cv tbl recog files fuel text = some r := Iff.rfl

/-- a result does not depend on the number of rounds. -/
theorem parses_unique {al : List (Bytes × Bytes)} {deck : DeckT} {lines : List Bytes} {r r' : DeckT}
    (h : Parses cv tbl recog files al deck lines r) (h' : Parses cv tbl recog files al deck lines r') : r = r' := by
  obtain ⟨f, hf⟩ := h
  obtain ⟨g, hg⟩ := h'
  have h1 := parseLoop_fuel_le cv tbl recog files f (max f g) (Nat.le_max_left f g) al deck lines r hf
  have h2 := parseLoop_fuel_le cv tbl recog files g (max f g) (Nat.le_max_right f g) al deck lines r' hg
  rw [h1] at h2
  exact Option.some.inj h2

/-! ### prefixes that end at a keyword boundary -/

/-- the text `P` is consumed by the keyword loop as `n` whole rounds whatever text follows:
from the state `(al, deck)` it leads to `(al', deck')`. -/
def AtBoundary (n : Nat) (al : List (Bytes × Bytes)) (deck : DeckT) (P : Bytes)
    (al' : List (Bytes × Bytes)) (deck' : DeckT) : Prop :=
  ∀ (fuel : Nat) (R : Bytes), parseLoop cv tbl recog files (fuel + n) al deck (linesOf (P ++ R)) =
    parseLoop cv tbl recog files fuel al' deck' (linesOf R)

theorem atBoundary_nil (al : List (Bytes × Bytes)) (deck : DeckT) : AtBoundary cv tbl recog files 0 al deck [] al deck := by
  intro fuel R; simp

theorem atBoundary_append {n m : Nat} {al al' al'' : List (Bytes × Bytes)} {deck deck' deck'' : DeckT} {P Q : Bytes}
    (h1 : AtBoundary cv tbl recog files n al deck P al' deck')
    (h2 : AtBoundary cv tbl recog files m al' deck' Q al'' deck'') :
    AtBoundary cv tbl recog files (m + n) al deck (P ++ Q) al'' deck'' := by
  intro fuel R
  have e : fuel + (m + n) = (fuel + m) + n := by omega
  rw [e, List.append_assoc, h1 (fuel + m) (Q ++ R), h2 fuel R]

/-- the written text of a conforming deck ends at a keyword boundary. -/
theorem atBoundary_written (fmt : Bytes → Bytes) (fl : List Vals → Bool) (al : List (Bytes × Bytes)) (deck : DeckT) (ks : List DK)
    (h : Conforms cv fmt fl tbl recog deck ks) :
    AtBoundary cv tbl recog files ks.length al deck (deckText fmt fl ks) al (deck ++ ks.map (DK.result fmt)) := by
  intro fuel R
  exact parseLoop_written_deck cv fmt fl tbl recog files al R ks fuel deck h

/-- a blank, whitespace-only or comment-only line at a keyword boundary. -/
theorem atBoundary_blank (al : List (Bytes × Bytes)) (deck : DeckT) (l : Bytes) (hl : ∀ b ∈ l, b ≠ 10)
    (hc : cleanLine l = []) : AtBoundary cv tbl recog files 1 al deck (l ++ [10]) al deck := by
  intro fuel R
  have e : linesOf (l ++ [10] ++ R) = [] :: linesOf R := by
    unfold linesOf
    have : l ++ [10] ++ R = l ++ 10 :: R := by simp
    rw [this, fastClean_line l R hl, hc]
    simp [splitLines]
  rw [e]
  simp [parseLoop, parseStep]

/-! ### INCLUDE behind an arbitrary prefix -/

/-- the text of an INCLUDE keyword as `Deck::write` and users write it. -/
def includeText (path : Bytes) : Bytes := nameINCLUDE ++ [10] ++ recordText false [quoted path]

theorem linesOf_includeText (path : Bytes) (hsafe : LineSafe (quoted path)) (hnl : NoNL (quoted path)) (R : Bytes) :
    linesOf (includeText path ++ R) = nameINCLUDE :: recordLine [quoted path] :: linesOf R := by
  unfold linesOf includeText
  have e : nameINCLUDE ++ [10] ++ recordText false [quoted path] ++ R =
      nameINCLUDE ++ 10 :: (recordText false [quoted path] ++ R) := by simp [List.append_assoc]
  rw [e, lines_word nameINCLUDE (by decide) (by decide),
    lines_recordText false [quoted path] (by
      intro t ht
      simp only [List.mem_cons, List.mem_nil_iff, or_false] at ht
      subst ht
      exact ⟨⟨hsafe.1, hsafe.2.2.2⟩, hnl⟩) R]
  simp [chunksOf, recLines]

/-- **`include_splice_text`** — behind ANY prefix that ends at a keyword boundary (for instance
the written text of any conforming deck, or any such text with blank and comment lines
added), in front of ANY text: `INCLUDE` / `'path' /` is equivalent to the cleaned lines of the
named file, followed by the end-of-file marker, spliced in front of the lines of the text that
follows.  (The marker makes a record that runs past the end of the file an error — fix
d37f2f297 — and is where ENDINC stops; otherwise it is transparent: `marker_transparent`.) -/
theorem include_splice_text (htbl : lookup tbl nameINCLUDE = some includeDef)
    (n : Nat) (al al' : List (Bytes × Bytes)) (deck deck' : DeckT) (P : Bytes)
    (hP : AtBoundary cv tbl recog files n al deck P al' deck')
    (path content : Bytes) (hfile : files al' path = some content)
    (hq : ∀ c ∈ path, c ≠ 39) (hsafe : LineSafe (quoted path)) (hnl : NoNL (quoted path))
    (fuel : Nat) (R : Bytes) :
    parseLoop cv tbl recog files (fuel + 1 + n) al deck (linesOf (P ++ (includeText path ++ R))) =
      parseLoop cv tbl recog files fuel al' deck' (linesOf (content ++ [10]) ++ eofMark :: linesOf R) := by
  rw [hP (fuel + 1) (includeText path ++ R), linesOf_includeText path hsafe hnl R]
  exact include_splice cv tbl recog files htbl al' path content hfile hq hsafe fuel deck' (linesOf R)

end


/-! ### the end-of-file marker is transparent unless a record runs into it -/

theorem dropSkip_marker (B : List Bytes) : ∀ (A : List Bytes),
    (∃ A', dropSkip (A ++ eofMark :: B) = A' ++ eofMark :: B ∧ dropSkip (A ++ B) = A' ++ B) ∨
    (dropSkip (A ++ eofMark :: B) = dropSkip (A ++ B)) := by
  intro A
  induction A with
  | nil =>
    right
    have : (makeDeckName eofMark == nameENDSKIP) = false := by decide
    simp [dropSkip, this]
  | cons l A ih =>
    simp only [List.cons_append, dropSkip]
    by_cases h : (makeDeckName l == nameENDSKIP) = true
    · left; exact ⟨A, by simp [h], by simp [h]⟩
    · simp only [h, Bool.false_eq_true, ↓reduceIte]
      exact ih

theorem titleNext_marker (B : List Bytes) : ∀ (A : List Bytes) (skip : Bool) (l : Bytes) (rest : List Bytes),
    titleNext skip (A ++ eofMark :: B) = some (l, rest) →
    (∃ A', rest = A' ++ eofMark :: B ∧ titleNext skip (A ++ B) = some (l, A' ++ B)) ∨
    (titleNext skip (A ++ B) = some (l, rest)) := by
  intro A
  induction A with
  | nil =>
    intro skip l rest h
    right
    simpa [titleNext] using h
  | cons x A ih =>
    intro skip l rest h
    simp only [List.cons_append, titleNext] at h ⊢
    by_cases h1 : x = eofMark
    · simp only [h1, ↓reduceIte] at h ⊢; exact ih skip l rest h
    · simp only [h1, ↓reduceIte] at h ⊢
      by_cases h2 : isSkipName (makeDeckName x) = true
      · simp only [h2, ↓reduceIte] at h ⊢; exact ih true l rest h
      · simp only [h2, Bool.false_eq_true, ↓reduceIte] at h ⊢
        by_cases h3 : (makeDeckName x == nameENDSKIP) = true
        · simp only [h3, ↓reduceIte] at h ⊢; exact ih false l rest h
        · simp only [h3, Bool.false_eq_true, ↓reduceIte] at h ⊢
          by_cases h4 : skip = true
          · simp only [h4, ↓reduceIte] at h ⊢; exact ih true l rest h
          · simp only [h4, Bool.false_eq_true, ↓reduceIte, Option.some.injEq, Prod.mk.injEq] at h ⊢
            left
            exact ⟨A, h.2.symm, ⟨h.1, rfl⟩⟩

theorem feedLines_marker (recog : Bytes → Bool) (B : List Bytes) : ∀ (A : List Bytes) (k : Kw) (buf gap : Bytes)
    (k' : Kw) (rest : List Bytes),
    feedLines recog k buf gap (A ++ eofMark :: B) = some (k', rest) →
    (∃ A', rest = A' ++ eofMark :: B ∧ feedLines recog k buf gap (A ++ B) = some (k', A' ++ B)) ∨
    (feedLines recog k buf gap (A ++ B) = some (k', rest)) := by
  intro A
  induction A with
  | nil =>
    intro k buf gap k' rest h
    right
    simp only [List.nil_append, feedLines_cons_mark] at h ⊢
    by_cases hb : buf.isEmpty = true
    · simpa [hb] using h
    · simp [hb] at h
  | cons l A ih =>
    intro k buf gap k' rest h
    simp only [List.cons_append] at h ⊢
    by_cases hm : l = eofMark
    · subst hm
      rw [feedLines_cons_mark] at h ⊢
      by_cases hb : buf.isEmpty = true
      · simp only [hb, ↓reduceIte] at h ⊢; exact ih k buf gap k' rest h
      · simp [hb] at h
    · rw [feedLines_cons recog k buf gap l _ hm] at h ⊢
      cases hs : feedLine recog k buf gap l with
      | cont k2 buf2 gap2 => rw [hs] at h; simp only at h ⊢; exact ih k2 buf2 gap2 k' rest h
      | done k2 unget =>
        rw [hs] at h
        simp only [Option.some.injEq, Prod.mk.injEq] at h ⊢
        left
        cases unget with
        | true => exact ⟨l :: A, by simpa using h.2.symm, ⟨h.1, by simp⟩⟩
        | false => exact ⟨A, by simpa using h.2.symm, ⟨h.1, by simp⟩⟩
      | err => rw [hs] at h; cases h

theorem findKw_lookup (tbl : Table) (dn name : Bytes) (d : KwDef) (h : findKw tbl dn = some (name, d)) :
    lookup tbl name = some d := by
  unfold findKw at h
  split at h
  · cases h1 : lookup tbl (dn.take 8) with
    | some d1 => rw [h1] at h; simp at h; rw [← h.1, ← h.2]; exact h1
    | none =>
      rw [h1] at h
      cases h2 : lookup tbl dn with
      | some d2 => rw [h2] at h; simp at h; rw [← h.1, ← h.2]; exact h2
      | none => rw [h2] at h; cases h
  · cases h2 : lookup tbl dn with
    | some d2 => rw [h2] at h; simp at h; rw [← h.1, ← h.2]; exact h2
    | none => rw [h2] at h; cases h


section
variable (cv : Conv) (tbl : Table) (recog : Bytes → Bool) (files : List (Bytes × Bytes) → Bytes → Option Bytes)

/-- two remainders of the input that differ at most by the marker in front of `B`. -/
def SameUpToMarker (B : List Bytes) (L1 L2 : List Bytes) : Prop :=
  (∃ A, L1 = A ++ eofMark :: B ∧ L2 = A ++ B) ∨ L1 = L2

/-- how the outcome of a round on `A ++ marker :: B` relates to the one on `A ++ B`. -/
def NextRel (B : List Bytes) : Next → Next → Prop
  | .done none, _ => True
  | .done (some r), n2 => n2 = .done (some r)
  | .goto a d L1, n2 => ∃ L2, n2 = .goto a d L2 ∧ SameUpToMarker B L1 L2

theorem keywordRes_marker (B : List Bytes) (dn : Bytes) (k0 : Kw) (A : List Bytes) (k : Kw) (rest1 : List Bytes)
    (h : keywordRes recog dn k0 (A ++ eofMark :: B) = some (k, rest1)) :
    ∃ rest2, keywordRes recog dn k0 (A ++ B) = some (k, rest2) ∧ SameUpToMarker B rest1 rest2 := by
  unfold keywordRes at h ⊢
  by_cases hf : k0.finished = true
  · simp only [hf, ↓reduceIte, Option.some.injEq, Prod.mk.injEq] at h ⊢
    exact ⟨A ++ B, ⟨h.1, rfl⟩, Or.inl ⟨A, h.2.symm, rfl⟩⟩
  · simp only [hf, Bool.false_eq_true, ↓reduceIte] at h ⊢
    by_cases ht : (dn == nameTITLE) = true
    · simp only [ht, ↓reduceIte] at h ⊢
      cases htn : titleNext false (A ++ eofMark :: B) with
      | none => rw [htn] at h; cases h
      | some p =>
        obtain ⟨l, rest'⟩ := p
        rw [htn] at h
        simp only at h
        cases htr : titleRecord l with
        | none => rw [htr] at h; cases h
        | some toks =>
          rw [htr] at h
          simp only [Option.some.injEq, Prod.mk.injEq] at h
          rcases titleNext_marker B A false l rest' htn with ⟨A', hr, h2⟩ | h2
          · rw [h2]
            simp only [htr]
            exact ⟨A' ++ B, by rw [h.1], Or.inl ⟨A', by rw [← h.2, hr], rfl⟩⟩
          · rw [h2]
            simp only [htr]
            exact ⟨rest', by rw [h.1], Or.inr h.2.symm⟩
    · simp only [ht, Bool.false_eq_true, ↓reduceIte] at h ⊢
      rcases feedLines_marker recog B A k0 [] [] k rest1 h with ⟨A', hr, h2⟩ | h2
      · exact ⟨A' ++ B, h2, Or.inl ⟨A', hr, rfl⟩⟩
      · exact ⟨rest1, h2, Or.inr rfl⟩

theorem dispatch_marker (hnoendinc : lookup tbl nameENDINC = none) (B : List Bytes) (al : List (Bytes × Bytes))
    (deck : DeckT) (name : Bytes) (d : KwDef) (hlook : lookup tbl name = some d) (k : Kw) (rest1 rest2 : List Bytes)
    (hs : SameUpToMarker B rest1 rest2) :
    NextRel B (dispatch cv files al deck name d k rest1) (dispatch cv files al deck name d k rest2) := by
  have hne : (name == nameENDINC) = false := by
    cases hb : (name == nameENDINC) with
    | false => rfl
    | true =>
      have : name = nameENDINC := by simpa using hb
      rw [this, hnoendinc] at hlook
      cases hlook
  unfold dispatch
  by_cases h1 : (!k.finished) = true
  · simp only [h1, ↓reduceIte, NextRel]
  · simp only [h1, Bool.false_eq_true, ↓reduceIte]
    by_cases h2 : (name == nameEND) = true
    · simp only [h2, ↓reduceIte, NextRel]
    · simp only [h2, Bool.false_eq_true, ↓reduceIte, hne]
      by_cases h3 : (name == namePATHS) = true
      · simp only [h3, ↓reduceIte]
        cases pathAliases k.records with
        | none => simp only [NextRel]
        | some more => exact ⟨rest2, rfl, hs⟩
      · simp only [h3, Bool.false_eq_true, ↓reduceIte]
        by_cases h4 : (name == nameINCLUDE) = true
        · simp only [h4, ↓reduceIte]
          cases hk : k.records with
          | nil => simp only [NextRel]
          | cons r rs =>
            cases r with
            | nil => simp only [NextRel]
            | cons tok toks =>
              simp only
              cases readString tok with
              | none => simp only [NextRel]
              | some path =>
                simp only
                cases files al path with
                | none => simp only [NextRel]
                | some content =>
                  simp only
                  refine ⟨_, rfl, ?_⟩
                  rcases hs with ⟨A, e1, e2⟩ | e
                  · left
                    exact ⟨splitLines (fastClean (content ++ [10])) ++ eofMark :: A, by rw [e1]; simp, by rw [e2]; simp⟩
                  · right; rw [e]
        · simp only [h4, Bool.false_eq_true, ↓reduceIte]
          cases (if d.dbl then parseRecordsDouble cv d.schemas d.alt 0 k.records
                 else parseRecords cv d.schemas d.alt 0 k.records) with
          | none => simp only [NextRel]
          | some rs => exact ⟨rest2, rfl, hs⟩

theorem nextRel_goto (B : List Bytes) (a : List (Bytes × Bytes)) (d : DeckT) (L1 L2 : List Bytes)
    (h : SameUpToMarker B L1 L2) : NextRel B (.goto a d L1) (.goto a d L2) := ⟨L2, rfl, h⟩

/-- one round on `A ++ marker :: B` against the same round on `A ++ B` (`A` not empty). -/
theorem parseStep_marker (hnoendinc : lookup tbl nameENDINC = none) (B : List Bytes) (al : List (Bytes × Bytes))
    (deck : DeckT) (line : Bytes) (A : List Bytes) :
    NextRel B (parseStep cv tbl recog files al deck (line :: (A ++ eofMark :: B)))
      (parseStep cv tbl recog files al deck (line :: (A ++ B))) := by
  have hleft : SameUpToMarker B (A ++ eofMark :: B) (A ++ B) := Or.inl ⟨A, rfl, rfl⟩
  simp only [parseStep]
  by_cases h1 : line.isEmpty = true
  · simp only [h1, ↓reduceIte]; exact nextRel_goto B _ _ _ _ hleft
  · simp only [h1, Bool.false_eq_true, ↓reduceIte]
    by_cases h2 : line = eofMark
    · simp only [h2, ↓reduceIte]; exact nextRel_goto B _ _ _ _ hleft
    · simp only [h2, ↓reduceIte]
      by_cases h3 : isSkipName (makeDeckName line) = true
      · simp only [h3, ↓reduceIte]
        apply nextRel_goto
        rcases dropSkip_marker B A with ⟨A', e1, e2⟩ | e
        · exact Or.inl ⟨A', e1, e2⟩
        · exact Or.inr e
      · simp only [h3, Bool.false_eq_true, ↓reduceIte]
        by_cases h4 : (makeDeckName line == nameENDSKIP) = true
        · simp only [h4, ↓reduceIte]; exact nextRel_goto B _ _ _ _ hleft
        · simp only [h4, Bool.false_eq_true, ↓reduceIte]
          by_cases h5 : (!validDeckName (makeDeckName line)) = true
          · simp only [h5, ↓reduceIte, NextRel]
          · simp only [h5, Bool.false_eq_true, ↓reduceIte]
            cases hfk : findKw tbl (makeDeckName line) with
            | none => simp only [NextRel]
            | some p =>
              obtain ⟨name, d⟩ := p
              simp only
              cases hnr : newRaw d deck with
              | none => simp only [NextRel]
              | some k0 =>
                simp only
                cases hkr : keywordRes recog (makeDeckName line) k0 (A ++ eofMark :: B) with
                | none => simp only [NextRel]
                | some q =>
                  obtain ⟨k, rest1⟩ := q
                  obtain ⟨rest2, hk2, hs⟩ := keywordRes_marker recog B _ k0 A k rest1 hkr
                  rw [hk2]
                  simp only
                  exact dispatch_marker cv tbl files hnoendinc B al deck name d (findKw_lookup tbl _ name d hfk) k rest1 rest2 hs

/-- **the end-of-file marker is transparent**: if the keyword loop ends with a deck on
`A ++ marker :: B`, it ends with the same deck on `A ++ B` — provided ENDINC is not among the
keywords (ENDINC stops at the marker).  What the marker adds is only the error for a record that
runs past the end of an included file. -/
theorem marker_transparent (hnoendinc : lookup tbl nameENDINC = none) (B : List Bytes) :
    ∀ (fuel : Nat) (A : List Bytes) (al : List (Bytes × Bytes)) (deck r : DeckT),
      parseLoop cv tbl recog files fuel al deck (A ++ eofMark :: B) = some r →
      parseLoop cv tbl recog files fuel al deck (A ++ B) = some r := by
  intro fuel
  induction fuel with
  | zero => intro A al deck r h; simp [parseLoop] at h
  | succ f ih =>
    intro A al deck r h
    cases A with
    | nil =>
      have hstep : parseStep cv tbl recog files al deck (eofMark :: B) = .goto al deck B := by
        simp [parseStep, eofMark]
      simp only [List.nil_append] at h ⊢
      rw [parseLoop, hstep] at h
      exact parseLoop_fuel_succ cv tbl recog files f al deck B r h
    | cons line A =>
      have hrel := parseStep_marker cv tbl recog files hnoendinc B al deck line A
      simp only [List.cons_append] at h ⊢
      rw [parseLoop] at h ⊢
      cases hs1 : parseStep cv tbl recog files al deck (line :: (A ++ eofMark :: B)) with
      | done x =>
        rw [hs1] at h hrel
        simp only at h
        subst h
        simp only [NextRel] at hrel
        rw [hrel]
      | goto a d L1 =>
        rw [hs1] at h hrel
        simp only at h
        obtain ⟨L2, hs2, hsame⟩ := hrel
        rw [hs2]
        simp only
        rcases hsame with ⟨A', e1, e2⟩ | e
        · rw [e2]; rw [e1] at h; exact ih A' a d r h
        · rw [← e]; exact h

end

/-! ### the deck-level closure -/

theorem fastClean_append_endsNL (a b : Bytes) (ha : a = [] ∨ a.getLast? = some 10) :
    fastClean (a ++ b) = fastClean a ++ fastClean b := by
  rcases ha with rfl | ha
  · simp [fastClean, splitLines]
  · unfold fastClean
    rw [splitLines_append_of_endsNL a b ha, List.flatMap_append]

theorem linesOf_append_endsNL (a b : Bytes) (ha : a = [] ∨ a.getLast? = some 10) :
    linesOf (a ++ b) = linesOf a ++ linesOf b := by
  unfold linesOf
  rw [fastClean_append_endsNL a b ha]
  rcases ha with rfl | ha
  · simp [fastClean, splitLines]
  · have hfc := fastClean_endsNL a
    rcases hfc with h0 | hnl
    · rw [h0]; simp [splitLines]
    · exact splitLines_append_of_endsNL _ _ hnl

section
variable (cv : Conv) (tbl : Table) (recog : Bytes → Bool) (files : List (Bytes × Bytes) → Bytes → Option Bytes)

/-- lines-level version of `AtBoundary` (the lines may be followed by the end-of-file marker). -/
def AtBoundaryL (n : Nat) (al : List (Bytes × Bytes)) (deck : DeckT) (L : List Bytes)
    (al' : List (Bytes × Bytes)) (deck' : DeckT) : Prop :=
  ∀ (fuel : Nat) (rest : List Bytes), parseLoop cv tbl recog files (fuel + n) al deck (L ++ rest) =
    parseLoop cv tbl recog files fuel al' deck' rest

theorem atBoundaryL_written (fmt : Bytes → Bytes) (fl : List Vals → Bool) (al : List (Bytes × Bytes)) (deck : DeckT) (ks : List DK)
    (h : Conforms cv fmt fl tbl recog deck ks) :
    AtBoundaryL cv tbl recog files ks.length al deck (deckLines fmt fl ks) al (deck ++ ks.map (DK.result fmt)) := by
  intro fuel rest
  exact parseLoop_written_deck_lines cv fmt fl tbl recog files al rest ks fuel deck h

/-- the lines of a file holding the written text of a conforming deck (the file is cleaned
with a '\n' appended, which gives one empty line more). -/
theorem atBoundaryL_written_file (fmt : Bytes → Bytes) (fl : List Vals → Bool) (al : List (Bytes × Bytes)) (deck : DeckT) (ks : List DK)
    (h : Conforms cv fmt fl tbl recog deck ks) :
    AtBoundaryL cv tbl recog files (ks.length + 1) al deck (linesOf (deckText fmt fl ks ++ [10])) al
      (deck ++ ks.map (DK.result fmt)) := by
  intro fuel rest
  have hl : linesOf (deckText fmt fl ks ++ [10]) = deckLines fmt fl ks ++ [[]] := by
    unfold linesOf
    rw [linesOf_deckText cv fmt fl tbl recog [10] ks deck h]
    have : splitLines (fastClean [10]) = [[]] := by decide
    rw [this]
  have e : fuel + (ks.length + 1) = (fuel + 1) + ks.length := by omega
  rw [hl, e, List.append_assoc, atBoundaryL_written cv tbl recog files fmt fl al deck ks h (fuel + 1) ([[]] ++ rest)]
  simp [parseLoop, parseStep]

/-- behind a prefix that ends at a keyword boundary, parsing the whole text is parsing the
rest from the state the prefix leads to. -/
theorem parsesText_prefix {n : Nat} {al' : List (Bytes × Bytes)} {deck' : DeckT} {P : Bytes}
    (hP : AtBoundary cv tbl recog files n [] [] P al' deck') (X : Bytes) (r : DeckT) :
    ParsesText cv tbl recog files (P ++ X) r ↔ Parses cv tbl recog files al' deck' (linesOf (X ++ [10])) r := by
  unfold ParsesText Parses
  constructor
  · rintro ⟨f, hf⟩
    have h1 := parseLoop_fuel_le cv tbl recog files f (f + n) (by omega) _ _ _ r hf
    rw [List.append_assoc, hP f (X ++ [10])] at h1
    exact ⟨f, h1⟩
  · rintro ⟨f, hf⟩
    refine ⟨f + n, ?_⟩
    rw [List.append_assoc, hP f (X ++ [10])]
    exact hf


/-- a record written by `DeckRecord::write` (any chunking) is one record of the keyword. -/
theorem oneRec_written (k : Kw) (cs : List (List Bytes)) (hne : cs ≠ []) (hok : RecOk recog k.raw cs) :
    OneRec recog k (recLines cs) cs.flatten := by
  intro rest
  have h := feedLines_record recog k cs rest hok
  have hfl : cs.flatten ≠ [] := by
    cases cs with
    | nil => exact absurd rfl hne
    | cons c cs' =>
      have := hok.ne c (by simp)
      cases c with
      | nil => exact absurd rfl this
      | cons _ _ => simp
  rw [stepRec_nonempty k _ hfl] at h
  exact h

/-- any single cleaned line `x /…` of an ordinary keyword — `x` in whatever layout, whatever
text behind the slash — is one record with the tokens of `x`. -/
theorem oneRec_line (k : Kw) (hraw : k.raw = false) (x junk : Bytes) (t : List Bytes) (hx : x ≠ [])
    (hbal : BalancedNoSlash x) (htok : rawRecord x = some t) (hnl : ∀ b ∈ x ++ 47 :: junk, b ≠ 10)
    (hnk : (k.canComplete && recog (makeDeckName (x ++ 47 :: junk))) = false) :
    OneRec recog k [x ++ 47 :: junk] t := by
  intro rest
  have hm : x ++ 47 :: junk ≠ eofMark := by
    intro e
    exact hnl 10 (by rw [e]; simp [eofMark]) rfl
  have hne : (x ++ 47 :: junk).isEmpty = false := by cases x <;> simp
  have hcut : delAfterFirstSlash (x ++ 47 :: junk) = x ++ [47] := delAfterFirstSlash_append x junk hbal
  have hnt : isTerminator (x ++ [47]) = false := by
    unfold isTerminator
    cases x with
    | nil => exact absurd rfl hx
    | cons c r => cases r <;> simp
  have hrec : isTerminatedRecordString (x ++ [47]) = true := by
    unfold isTerminatedRecordString
    rw [List.getLast?_append]; simp
  have hdl : (x ++ [47]).dropLast = x := List.dropLast_concat
  simp only [List.cons_append, List.nil_append]
  rw [feedLines_cons recog k [] [] _ rest hm]
  simp only [feedLine, hne, Bool.false_eq_true, ↓reduceIte, hnk, delAfterSlash, hraw, hcut, extendBuf, List.isEmpty_nil]
  rw [afterExtend_rec_some k _ t hnt hrec (by rw [hdl]; exact htok)]
  by_cases hf : (k.addRecord t).finished = true
  · simp [hf]
  · simp [hf]


/-- a one-line record broken in two at a separator run outside quotes (the conditions of
`assemble_linebreak`) is still that record. -/
theorem oneRec_linebreak (k : Kw) (hraw : k.raw = false) (a sp b : Bytes) (t : List Bytes)
    (hane : a ≠ []) (hbne : b ≠ []) (hs : sp ≠ []) (hsep : ∀ c ∈ sp, isSep c = true)
    (ha : BalancedNoSlash a) (hout : OutsideP (extendBuf [] [] a))
    (hra : (k.canComplete && recog (makeDeckName a)) = false)
    (hrb : (k.canComplete && recog (makeDeckName b)) = false)
    (hma : a ≠ eofMark) (hmb : b ≠ eofMark)
    (h : OneRec recog k [a ++ sp ++ b] t) : OneRec recog k [a, b] t := by
  intro rest
  have := assemble_linebreak recog k hraw [] [] a sp b rest hane hbne hs hsep ha hout hra hrb hma hmb
  simp only [List.cons_append, List.nil_append] at this ⊢
  rw [← this]
  exact h rest

/-- one round of the keyword loop on a keyword one of whose records is written in two ways. -/
theorem parseStep_record_spelling (al : List (Bytes × Bytes)) (deck : DeckT) (nm : Bytes) (name : Bytes) (d : KwDef)
    (k0 k1 : Kw) (L0 X X' : List Bytes) (t t' : List Bytes) (rest : List Bytes)
    (hne : nm.isEmpty = false) (hm : nm ≠ eofMark) (hns : isSkipName (makeDeckName nm) = false)
    (hnes : (makeDeckName nm == nameENDSKIP) = false) (hvalid : validDeckName (makeDeckName nm) = true)
    (hnt : (makeDeckName nm == nameTITLE) = false)
    (hfind : findKw tbl (makeDeckName nm) = some (name, d)) (hraw : newRaw d deck = some k0) (hk0 : k0.finished = false)
    (hnp : (name == namePATHS) = false) (hni : (name == nameINCLUDE) = false) (hdbl : d.dbl = false)
    (hL0 : ∀ rest, feedLines recog k0 [] [] (L0 ++ rest) = feedLines recog k1 [] [] rest)
    (hX : OneRec recog k1 X t) (hX' : OneRec recog k1 X' t') (ht : (t.length > 0) ↔ (t'.length > 0))
    (hparse : ∀ items, schemaOf d.schemas d.alt k1.records.length = some items →
      parseItems cv items t = parseItems cv items t') :
    parseStep cv tbl recog files al deck (nm :: (L0 ++ (X ++ rest))) =
      parseStep cv tbl recog files al deck (nm :: (L0 ++ (X' ++ rest))) := by
  simp only [parseStep, hne, Bool.false_eq_true, ↓reduceIte, hm, hns, hnes, hvalid, Bool.not_true, hfind, hraw,
    keywordRes, hk0, hnt, hL0]
  rcases feedLines_two_spellings recog k1 X X' t t' hX hX' ht rest with ⟨h1, h2⟩ | ⟨kf, rs, add, h1, h2, h3⟩
  · rw [h1, h2]
  · rw [h1, h2]
    simp only [dispatch]
    have hf : (kf.setRecs (k1.records ++ t' :: add)).finished = kf.finished := rfl
    have hr : (kf.setRecs (k1.records ++ t' :: add)).records = k1.records ++ t' :: add := rfl
    rw [hf, hr, h3]
    simp only [hnp, hni, hdbl, Bool.false_eq_true, ↓reduceIte]
    rw [parseRecords_congr_at cv d.schemas d.alt t t' add k1.records 0 (by simpa using hparse)]

/-- **`RelayoutDeck`**: the closure — reflexive, symmetric, transitive, in any context — of
deck-level rewrites of a text:

* `line`   any line may be replaced by a line with the same cleaned content: comments added or
           removed, blanks / tabs / commas / CR at either end, a blank line turned into a
           comment-only line (anywhere: inside records, too);
* `blank`  a blank, whitespace-only or comment-only line may be inserted at a keyword boundary;
* `kwname` the keyword line may be written in any case and followed by any text
           (same `make_deck_name`);
* `incl`   a run of whole keywords — text whose lines the loop consumes as whole rounds —
           may be moved into an INCLUDE file;
* `record` inside a keyword (ordinary, not double-record; any size class), behind any number of
           earlier records: the text of ONE record may be replaced by any other text that is
           one record (`OneRec`) whose tokens parse to the same items under the schema of that
           position — separator runs, text after the slash, star contraction/expansion, early
           record end (via `relayout_compose`), the writer's line split (`oneRec_written`); the
           keyword assembly after it is unaffected (bisimulation `feedLines_setRecs`). -/
inductive RelayoutDeck : Bytes → Bytes → Prop where
  | refl (t : Bytes) : RelayoutDeck t t
  | symm {t u : Bytes} : RelayoutDeck t u → RelayoutDeck u t
  | trans {t u v : Bytes} : RelayoutDeck t u → RelayoutDeck u v → RelayoutDeck t v
  | line (P l l' R : Bytes) : (P = [] ∨ P.getLast? = some 10) → (∀ b ∈ l, b ≠ 10) → (∀ b ∈ l', b ≠ 10) →
      cleanLine l = cleanLine l' → RelayoutDeck (P ++ (l ++ 10 :: R)) (P ++ (l' ++ 10 :: R))
  | blank (n : Nat) (al' : List (Bytes × Bytes)) (deck' : DeckT) (P l R : Bytes) :
      AtBoundary cv tbl recog files n [] [] P al' deck' → (∀ b ∈ l, b ≠ 10) → cleanLine l = [] →
      RelayoutDeck (P ++ R) (P ++ (l ++ 10 :: R))
  | kwname (n : Nat) (al' : List (Bytes × Bytes)) (deck' : DeckT) (P l l' R : Bytes) :
      AtBoundary cv tbl recog files n [] [] P al' deck' → (∀ b ∈ l, b ≠ 10) → (∀ b ∈ l', b ≠ 10) →
      cleanLine l ≠ [] → cleanLine l' ≠ [] → makeDeckName (cleanLine l) = makeDeckName (cleanLine l') →
      RelayoutDeck (P ++ (l ++ 10 :: R)) (P ++ (l' ++ 10 :: R))
  | record (n : Nat) (al' : List (Bytes × Bytes)) (deck' : DeckT) (P l T0 TX TX' R : Bytes) (name : Bytes) (d : KwDef)
      (k0 k1 : Kw) (t t' : List Bytes) :
      AtBoundary cv tbl recog files n [] [] P al' deck' → (∀ b ∈ l, b ≠ 10) → cleanLine l ≠ [] →
      isSkipName (makeDeckName (cleanLine l)) = false → (makeDeckName (cleanLine l) == nameENDSKIP) = false →
      validDeckName (makeDeckName (cleanLine l)) = true → (makeDeckName (cleanLine l) == nameTITLE) = false →
      findKw tbl (makeDeckName (cleanLine l)) = some (name, d) → newRaw d deck' = some k0 → k0.finished = false →
      (name == namePATHS) = false → (name == nameINCLUDE) = false → d.dbl = false →
      (T0 = [] ∨ T0.getLast? = some 10) → TX.getLast? = some 10 → TX'.getLast? = some 10 →
      (∀ rest, feedLines recog k0 [] [] (linesOf T0 ++ rest) = feedLines recog k1 [] [] rest) →
      OneRec recog k1 (linesOf TX) t → OneRec recog k1 (linesOf TX') t' → ((t.length > 0) ↔ (t'.length > 0)) →
      (∀ items, schemaOf d.schemas d.alt k1.records.length = some items →
        parseItems cv items t = parseItems cv items t') →
      RelayoutDeck (P ++ (l ++ 10 :: (T0 ++ (TX ++ R)))) (P ++ (l ++ 10 :: (T0 ++ (TX' ++ R))))
  | incl (n m : Nat) (al' al'' : List (Bytes × Bytes)) (deck' deck'' : DeckT) (P path content R : Bytes) :
      AtBoundary cv tbl recog files n [] [] P al' deck' → lookup tbl nameINCLUDE = some includeDef →
      files al' path = some content → (∀ c ∈ path, c ≠ 39) → LineSafe (quoted path) → NoNL (quoted path) →
      AtBoundaryL cv tbl recog files m al' deck' (linesOf (content ++ [10])) al'' deck'' →
      RelayoutDeck (P ++ (includeText path ++ R)) (P ++ (content ++ 10 :: R))

theorem cleanLine_noNL (l : Bytes) (h : ∀ b ∈ l, b ≠ 10) : ∀ b ∈ cleanLine l, b ≠ 10 := by
  intro b hb
  have h1 : cleanLine l <:+: l :=
    List.IsInfix.trans (trim_infix _) (stripComments_prefix l).isInfix
  exact h b (h1.subset hb)

theorem parseStep_kwname (al : List (Bytes × Bytes)) (deck : DeckT) (c c' : Bytes) (rest : List Bytes)
    (hc : c ≠ []) (hc' : c' ≠ []) (hm : c ≠ eofMark) (hm' : c' ≠ eofMark) (hdn : makeDeckName c = makeDeckName c') :
    parseStep cv tbl recog files al deck (c :: rest) = parseStep cv tbl recog files al deck (c' :: rest) := by
  have he : c.isEmpty = false := by cases c <;> simp_all
  have he' : c'.isEmpty = false := by cases c' <;> simp_all
  simp only [parseStep, he, he', hm, hm', hdn, Bool.false_eq_true, ↓reduceIte]

/-- **`relayout_deck`** (partial) — every derivation of `RelayoutDeck`, i.e. every composition
of the deck-level rewrites, forwards or backwards, in any context, preserves what
`Parser::parseString` returns: the same Deck — keyword sequence, records, values and default
flags — or no Deck on either side.

Full shape, not proved: the rule `record` for double-record keywords and for the line of
TITLE, and rewrites of several records at once (they are reached by `trans`). -/
theorem relayout_deck_partial {t u : Bytes} (h : RelayoutDeck cv tbl recog files t u) (r : DeckT) :
    ParsesText cv tbl recog files t r ↔ ParsesText cv tbl recog files u r := by
  induction h with
  | refl t => exact Iff.rfl
  | symm _ ih => exact ih.symm
  | trans _ _ ih1 ih2 => exact ih1.trans ih2
  | line P l l' R hP hl hl' hc =>
    unfold ParsesText
    have e1 : linesOf (P ++ (l ++ 10 :: R) ++ [10]) = linesOf (P ++ (l' ++ 10 :: R) ++ [10]) := by
      simp only [List.append_assoc]
      rw [linesOf_append_endsNL P _ hP, linesOf_append_endsNL P _ hP]
      congr 1
      unfold linesOf
      have := fastClean_line_congr l l' (R ++ [10]) hl hl' hc
      simpa [List.append_assoc] using congrArg splitLines this
    rw [e1]
  | blank n al' deck' P l R hP hl hc =>
    rw [parsesText_prefix cv tbl recog files hP, parsesText_prefix cv tbl recog files hP]
    have e : linesOf (l ++ 10 :: R ++ [10]) = [] :: linesOf (R ++ [10]) := by
      unfold linesOf
      have : l ++ 10 :: R ++ [10] = l ++ 10 :: (R ++ [10]) := by simp
      rw [this, fastClean_line l _ hl, hc]
      simp [splitLines]
    rw [e]
    unfold Parses
    constructor
    · rintro ⟨f, hf⟩
      exact ⟨f + 1, by simpa [parseLoop, parseStep] using hf⟩
    · rintro ⟨f, hf⟩
      cases f with
      | zero => simp [parseLoop] at hf
      | succ f => exact ⟨f, by simpa [parseLoop, parseStep] using hf⟩
  | kwname n al' deck' P l l' R hP hl hl' hne hne' hdn =>
    rw [parsesText_prefix cv tbl recog files hP, parsesText_prefix cv tbl recog files hP]
    have e1 : linesOf (l ++ 10 :: R ++ [10]) = cleanLine l :: linesOf (R ++ [10]) := by
      unfold linesOf
      have : l ++ 10 :: R ++ [10] = l ++ 10 :: (R ++ [10]) := by simp
      rw [this, fastClean_line l _ hl, splitLines_line _ _ (cleanLine_noNL l hl)]
    have e2 : linesOf (l' ++ 10 :: R ++ [10]) = cleanLine l' :: linesOf (R ++ [10]) := by
      unfold linesOf
      have : l' ++ 10 :: R ++ [10] = l' ++ 10 :: (R ++ [10]) := by simp
      rw [this, fastClean_line l' _ hl', splitLines_line _ _ (cleanLine_noNL l' hl')]
    have hm : cleanLine l ≠ eofMark := by
      intro e; exact cleanLine_noNL l hl 10 (by rw [e]; simp [eofMark]) rfl
    have hm' : cleanLine l' ≠ eofMark := by
      intro e; exact cleanLine_noNL l' hl' 10 (by rw [e]; simp [eofMark]) rfl
    have hstep := parseStep_kwname cv tbl recog files al' deck' (cleanLine l) (cleanLine l') (linesOf (R ++ [10]))
      hne hne' hm hm' hdn
    rw [e1, e2]
    unfold Parses
    constructor
    · rintro ⟨f, hf⟩
      cases f with
      | zero => simp [parseLoop] at hf
      | succ f => exact ⟨f + 1, by rw [parseLoop, ← hstep]; rw [parseLoop] at hf; exact hf⟩
    · rintro ⟨f, hf⟩
      cases f with
      | zero => simp [parseLoop] at hf
      | succ f => exact ⟨f + 1, by rw [parseLoop, hstep]; rw [parseLoop] at hf; exact hf⟩
  | record n al' deck' P l T0 TX TX' R name d k0 k1 t t' hP hl hne hns hnes hvalid hnt hfind hraw hk0 hnp hni hdbl
      hT0 hTX hTX' hL0 hX hX' ht hparse =>
    rw [parsesText_prefix cv tbl recog files hP, parsesText_prefix cv tbl recog files hP]
    have hlines : ∀ (T : Bytes), T.getLast? = some 10 →
        linesOf (l ++ 10 :: (T0 ++ (T ++ R)) ++ [10]) = cleanLine l :: (linesOf T0 ++ (linesOf T ++ linesOf (R ++ [10]))) := by
      intro T hT
      unfold linesOf
      have e : l ++ 10 :: (T0 ++ (T ++ R)) ++ [10] = l ++ 10 :: (T0 ++ (T ++ (R ++ [10]))) := by simp [List.append_assoc]
      rw [e, fastClean_line l _ hl, splitLines_line _ _ (cleanLine_noNL l hl)]
      congr 1
      have h1 := linesOf_append_endsNL T0 (T ++ (R ++ [10])) hT0
      have h2 := linesOf_append_endsNL T (R ++ [10]) (Or.inr hT)
      unfold linesOf at h1 h2
      rw [h1, h2]
    have hm : cleanLine l ≠ eofMark := by
      intro e; exact cleanLine_noNL l hl 10 (by rw [e]; simp [eofMark]) rfl
    have hempty : (cleanLine l).isEmpty = false := by cases h : cleanLine l <;> simp_all
    have hstep := parseStep_record_spelling cv tbl recog files al' deck' (cleanLine l) name d k0 k1 (linesOf T0)
      (linesOf TX) (linesOf TX') t t' (linesOf (R ++ [10])) hempty hm hns hnes hvalid hnt hfind hraw hk0 hnp hni hdbl
      hL0 hX hX' ht hparse
    rw [hlines TX hTX, hlines TX' hTX']
    unfold Parses
    constructor
    · rintro ⟨f, hf⟩
      cases f with
      | zero => simp [parseLoop] at hf
      | succ f => exact ⟨f + 1, by rw [parseLoop, ← hstep]; rw [parseLoop] at hf; exact hf⟩
    · rintro ⟨f, hf⟩
      cases f with
      | zero => simp [parseLoop] at hf
      | succ f => exact ⟨f + 1, by rw [parseLoop, hstep]; rw [parseLoop] at hf; exact hf⟩
  | incl n m al' al'' deck' deck'' P path content R hP htbl hfile hq hsafe hnl hC =>
    rw [parsesText_prefix cv tbl recog files hP, parsesText_prefix cv tbl recog files hP]
    have e1 : linesOf (includeText path ++ R ++ [10]) =
        nameINCLUDE :: recordLine [quoted path] :: linesOf (R ++ [10]) := by
      rw [List.append_assoc]; exact linesOf_includeText path hsafe hnl (R ++ [10])
    have e2 : linesOf (content ++ 10 :: R ++ [10]) = linesOf (content ++ [10]) ++ linesOf (R ++ [10]) := by
      have : content ++ 10 :: R ++ [10] = (content ++ [10]) ++ (R ++ [10]) := by simp
      rw [this]
      exact linesOf_append_endsNL _ _ (Or.inr (by simp))
    rw [e1, e2]
    unfold Parses
    constructor
    · rintro ⟨f, hf⟩
      cases f with
      | zero => simp [parseLoop] at hf
      | succ f =>
        rw [include_splice cv tbl recog files htbl al' path content hfile hq hsafe f deck' _] at hf
        -- enough rounds for the file, the marker, and the rest
        have hf' := parseLoop_fuel_le cv tbl recog files f (f + m) (by omega) _ _ _ r hf
        rw [show splitLines (fastClean (content ++ [10])) = linesOf (content ++ [10]) from rfl,
          hC f (eofMark :: linesOf (R ++ [10]))] at hf'
        cases f with
        | zero => simp [parseLoop] at hf'
        | succ g =>
          have hmark : parseStep cv tbl recog files al'' deck'' (eofMark :: linesOf (R ++ [10])) =
              .goto al'' deck'' (linesOf (R ++ [10])) := by simp [parseStep, eofMark]
          rw [parseLoop, hmark] at hf'
          exact ⟨g + m, by rw [hC g (linesOf (R ++ [10]))]; exact hf'⟩
    · rintro ⟨f, hf⟩
      have hf' := parseLoop_fuel_le cv tbl recog files f (f + m) (by omega) _ _ _ r hf
      rw [hC f (linesOf (R ++ [10]))] at hf'
      refine ⟨(f + 1 + m) + 1, ?_⟩
      rw [include_splice cv tbl recog files htbl al' path content hfile hq hsafe (f + 1 + m) deck' _,
        show splitLines (fastClean (content ++ [10])) = linesOf (content ++ [10]) from rfl,
        hC (f + 1) (eofMark :: linesOf (R ++ [10]))]
      have hmark : parseStep cv tbl recog files al'' deck'' (eofMark :: linesOf (R ++ [10])) =
          .goto al'' deck'' (linesOf (R ++ [10])) := by simp [parseStep, eofMark]
      rw [parseLoop, hmark]
      exact hf'

/-- **`include_inline`** — the general direction, for ANY file content (not only whole
keywords): if the text with `INCLUDE 'path' /` behind a keyword-boundary prefix parses to a
deck, the text with the file's content written in place parses to the same deck (ENDINC not
among the keywords).  The converse fails exactly when a record runs past the end of the
file: the INCLUDE form is then an error (fix d37f2f297). -/
theorem include_inline (hnoendinc : lookup tbl nameENDINC = none) (htbl : lookup tbl nameINCLUDE = some includeDef)
    (n : Nat) (al' : List (Bytes × Bytes)) (deck' : DeckT) (P : Bytes)
    (hP : AtBoundary cv tbl recog files n [] [] P al' deck')
    (path content : Bytes) (hfile : files al' path = some content)
    (hq : ∀ c ∈ path, c ≠ 39) (hsafe : LineSafe (quoted path)) (hnl : NoNL (quoted path)) (R : Bytes) (r : DeckT)
    (h : ParsesText cv tbl recog files (P ++ (includeText path ++ R)) r) :
    ParsesText cv tbl recog files (P ++ (content ++ 10 :: R)) r := by
  rw [parsesText_prefix cv tbl recog files hP] at h ⊢
  have e1 : linesOf (includeText path ++ R ++ [10]) =
      nameINCLUDE :: recordLine [quoted path] :: linesOf (R ++ [10]) := by
    rw [List.append_assoc]; exact linesOf_includeText path hsafe hnl (R ++ [10])
  have e2 : linesOf (content ++ 10 :: R ++ [10]) = linesOf (content ++ [10]) ++ linesOf (R ++ [10]) := by
    have : content ++ 10 :: R ++ [10] = (content ++ [10]) ++ (R ++ [10]) := by simp
    rw [this]
    exact linesOf_append_endsNL _ _ (Or.inr (by simp))
  rw [e1] at h
  rw [e2]
  obtain ⟨f, hf⟩ := h
  cases f with
  | zero => simp [parseLoop] at hf
  | succ f =>
    rw [include_splice cv tbl recog files htbl al' path content hfile hq hsafe f deck' _] at hf
    exact ⟨f, marker_transparent cv tbl recog files hnoendinc _ f _ al' deck' r hf⟩

end

end OpmVerif.Deck
