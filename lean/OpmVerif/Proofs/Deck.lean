/-
  INCLUDE splicing: at a keyword boundary, `INCLUDE 'f' /` is the same as the cleaned text
  of `f` spliced in front of the remaining input.
-/
import OpmVerif.Model.Deck
import OpmVerif.Proofs.KwRoundTrip

namespace OpmVerif.Deck
open OpmVerif.Lex OpmVerif.Tok OpmVerif.Scan OpmVerif.RawKw OpmVerif.DeckWrite

/-- the INCLUDE keyword as the parser defines it: one record, one string item. -/
def includeDef : KwDef :=
  { size := .fixed 1, raw := false, minSize := none, schemas := [[⟨.string, false, none⟩]], alt := false, dbl := false }

def includeKw : Kw := { sizeType := .fixed, raw := false, records := [], minSize := 1, fixedSize := 1,
                        numTables := 0, curTables := 0, tempFinished := false, finished := false }

theorem newRaw_include (deck : DeckT) : newRaw includeDef deck = some includeKw := by
  simp [newRaw, includeDef, mkKw, includeKw]

/-- the record line `'path' /` of an INCLUDE keyword is taken as its one record. -/
theorem feedLines_include (recog : Bytes → Bool) (path : Bytes) (hq : ∀ c ∈ path, c ≠ 39)
    (hsafe : LineSafe (quoted path)) (rest : List Bytes) :
    feedLines recog includeKw [] [] (recordLine [quoted path] :: rest) =
      some (includeKw.addRecord [quoted path], rest) := by
  have hcc : includeKw.canComplete = false := by decide
  have hne : (recordLine [quoted path]).isEmpty = false := by simp [recordLine, joinBlank, quoted]
  have hcut : delAfterFirstSlash (recordLine [quoted path]) = recordLine [quoted path] := by
    rw [recordLine_eq]
    exact delAfterFirstSlash_append _ [] (noSlash_prefix [quoted path] (by intro t ht; simp at ht; subst ht; exact hsafe))
  have hnt : isTerminator (recordLine [quoted path]) = false := by
    simp [recordLine, joinBlank, quoted, isTerminator]
  have hrec : isTerminatedRecordString (recordLine [quoted path]) = true := by
    unfold isTerminatedRecordString
    rw [recordLine_eq, List.getLast?_append]; simp
  have hdl : (recordLine [quoted path]).dropLast = joinBlank [quoted path] ++ [32] := by
    rw [recordLine_eq, List.dropLast_concat]
  have hraw : rawRecord (joinBlank [quoted path] ++ [32]) = some [quoted path] := by
    unfold rawRecord
    have he : evenQuotes (joinBlank [quoted path] ++ [32]) = true :=
      evenQuotes_append _ _ (by simpa [joinBlank] using hsafe.2.1) (by decide)
    have ht := tok_joinBlank [quoted path] [32] (by intro t ht; simp at ht; subst ht; exact hsafe.1)
      (Or.inr ⟨32, [], rfl, by decide⟩) (by simp)
    have h32 : tok .gap [32] = [] := by decide
    simp only [he, ↓reduceIte, tokenize, ht, h32, List.append_nil]
  have hfin : (includeKw.addRecord [quoted path]).finished = true := by
    simp [Kw.addRecord, includeKw]
  rw [feedLines_cons recog includeKw [] [] _ rest (recordLine_ne_eofMark _)]
  simp only [feedLine, hne, Bool.false_eq_true, ↓reduceIte, hcc, Bool.false_and, delAfterSlash,
    show includeKw.raw = false from rfl, hcut, extendBuf, List.isEmpty_nil]
  rw [afterExtend_rec_some includeKw _ [quoted path] hnt hrec (by rw [hdl]; exact hraw)]
  simp [hfin]

/-- **`include_splice`** (step form) — wherever the keyword loop stands at a keyword boundary
(any deck parsed so far, any path aliases, any remaining input), the two cleaned lines
`INCLUDE` and `'path' /` are equivalent to the cleaned lines of the file, followed by the
end-of-file marker, spliced in front of the remaining input.  Nesting works by iterating
the statement. -/
theorem include_splice (cv : Conv) (tbl : Table) (recog : Bytes → Bool)
    (files : List (Bytes × Bytes) → Bytes → Option Bytes)
    (htbl : lookup tbl nameINCLUDE = some includeDef)
    (al : List (Bytes × Bytes)) (path content : Bytes) (hfile : files al path = some content)
    (hq : ∀ c ∈ path, c ≠ 39) (hsafe : LineSafe (quoted path))
    (fuel : Nat) (deck : DeckT) (rest : List Bytes) :
    parseLoop cv tbl recog files (fuel + 1) al deck (nameINCLUDE :: recordLine [quoted path] :: rest) =
      parseLoop cv tbl recog files fuel al deck (splitLines (fastClean (content ++ [10])) ++ eofMark :: rest) := by
  have hdn : makeDeckName nameINCLUDE = nameINCLUDE := by decide
  have hvalid : validDeckName nameINCLUDE = true := by decide
  have hfind : findKw tbl nameINCLUDE = some (nameINCLUDE, includeDef) := by
    unfold findKw
    have : ¬ (nameINCLUDE.length > 8) := by decide
    simp only [this, ↓reduceIte, htbl]
  have hrs : readString (quoted path) = some path := readString_quoted path
  have hrecs : (includeKw.addRecord [quoted path]).records = [[quoted path]] := by
    simp [Kw.addRecord, includeKw]
  have hfin : (includeKw.addRecord [quoted path]).finished = true := by
    simp [Kw.addRecord, includeKw]
  have hne : nameINCLUDE.isEmpty = false := by decide
  have hnm : (nameINCLUDE = eofMark) = False := by decide
  have hns : isSkipName nameINCLUDE = false := by decide
  have h1 : (nameINCLUDE == nameENDSKIP) = false := by decide
  have h2 : (nameINCLUDE == nameTITLE) = false := by decide
  have h3 : (nameINCLUDE == nameEND) = false := by decide
  have h4 : (nameINCLUDE == nameENDINC) = false := by decide
  have h5 : (nameINCLUDE == namePATHS) = false := by decide
  simp only [parseLoop, parseStep, keywordRes, dispatch, hne, Bool.false_eq_true, ↓reduceIte, hnm, hdn, hns, h1, h2, h3, h4, h5, hvalid, Bool.not_true,
    hfind, newRaw_include, show includeKw.finished = false from rfl,
    feedLines_include recog path hq hsafe rest, hfin, beq_self_eq_true, hrecs, hrs, hfile]

end OpmVerif.Deck
