/-
  Keyword-level print → parse round trip for every size class (second round): the bytes
  `DeckKeyword::write` puts after the keyword line — the records, with or without the
  7-column line split, and the closing `/` when the keyword is written with one — go
  through cleaning, line splitting, the keyword assembly state machine, the tokeniser and
  `ParserKeyword::parse` and come back as exactly the records written; the text behind the
  keyword is left for the next keyword.
-/
import OpmVerif.Proofs.KwClasses

namespace OpmVerif.RawKw
open OpmVerif.Lex OpmVerif.Tok OpmVerif.Scan OpmVerif.DeckWrite

/-- bytes after the keyword line: `write_data` and `end_keyword(closing)`. -/
def bodyText (fmt : Bytes → Bytes) (fl : List Vals → Bool) (split closing : Bool) (rs : List (List Vals)) : Bytes :=
  (rs.flatMap fun r => writeRecord fmt (fl r) split r) ++ (if closing then [47, 10] else [])

/-- the cleaned lines of that text. -/
def bodyLines (split closing : Bool) (tss : List (List Bytes)) : List Bytes :=
  ((tss ++ if closing then [[]] else []).map (chunksOf split)).flatMap recLines

theorem writeRecord_eq_recordText (fmt : Bytes → Bytes) (fl : List Vals → Bool) (split : Bool) (r : List Vals) :
    writeRecord fmt (fl r) split r = recordText split (emitToks fmt (fl r) false 0 r.flatten) := by
  simp [writeRecord, writtenRecordText, recordText, List.append_assoc]

theorem bodyLines_closing (split : Bool) (tss : List (List Bytes)) :
    bodyLines split true tss = bodyLines split false tss ++ [[47]] := by
  simp [bodyLines, chunksOf, recLines]

/-- **cleaning the written keyword body** in front of any text `R`. -/
theorem lines_body (fmt : Bytes → Bytes) (fl : List Vals → Bool) (split closing : Bool) (rs : List (List Vals))
    (h : ∀ r ∈ rs, ∀ t ∈ emitToks fmt (fl r) false 0 r.flatten, CleanSafe t ∧ NoNL t) (R : Bytes) :
    splitLines (fastClean (bodyText fmt fl split closing rs ++ R)) =
      bodyLines split closing (rs.map fun r => emitToks fmt (fl r) false 0 r.flatten) ++ splitLines (fastClean R) := by
  have e1 : (rs.flatMap fun r => writeRecord fmt (fl r) split r) =
      (rs.map fun r => emitToks fmt (fl r) false 0 r.flatten).flatMap (recordText split) := by
    rw [List.flatMap_map]
    congr 1
    funext r
    exact writeRecord_eq_recordText fmt fl split r
  have hl := lines_records split (rs.map fun r => emitToks fmt (fl r) false 0 r.flatten) (by
    intro ts hts
    obtain ⟨r, hr, rfl⟩ := List.mem_map.mp hts
    exact h r hr)
  unfold bodyText
  rw [e1]
  cases closing with
  | false =>
    simp only [Bool.false_eq_true, ↓reduceIte, List.append_nil]
    rw [hl R]
    simp [bodyLines]
  | true =>
    simp only [↓reduceIte, List.append_assoc]
    rw [hl ([47, 10] ++ R), bodyLines_closing]
    have := lines_word [47] (by decide) (by decide) R
    simp only [List.singleton_append, List.cons_append, List.nil_append] at this ⊢
    rw [this]
    simp [bodyLines]

/-- hypotheses on the tokens of the written records of one keyword. -/
structure BodyOk (recog : Bytes → Bool) (raw split closing : Bool) (tss : List (List Bytes)) : Prop where
  safe : ∀ ts ∈ tss, ∀ t ∈ ts, TokSafe raw t ∧ NoNL t
  splitRaw : split = true → raw = false
  notKw : ∀ ts ∈ tss, ∀ l ∈ recLines (chunksOf split ts), recog (makeDeckName l) = false
  slash : closing = true → recog [47] = false

theorem recOk_of_bodyOk {recog : Bytes → Bool} {raw split closing : Bool} {tss : List (List Bytes)}
    (h : BodyOk recog raw split closing tss) : ∀ ts ∈ tss, RecOk recog raw (chunksOf split ts) := by
  intro ts hts
  refine ⟨chunksOf_ne split ts, ?_, ?_, h.notKw ts hts⟩
  · intro c hc t ht
    exact h.safe ts hts t (chunksOf_mem split ts c hc t ht)
  · cases split with
    | false => exact Or.inl (chunksOf_length ts)
    | true => exact Or.inr (h.splitRaw rfl)

/-- **keyword assembly of a written keyword, line level**: for every size class with a
`RunOk` run, in front of any following text `R`: the lines of the body are consumed, the
raw keyword is finished and holds the emitted token lists, the lines of `R` remain. -/
theorem assemble_written (fmt : Bytes → Bytes) (fl : List Vals → Bool) (split closing : Bool) (recog : Bytes → Bool) (k0 : Kw)
    (rs : List (List Vals)) (R : Bytes)
    (hne : rs ≠ [] ∨ closing = true)
    (hrun : RunOk k0 (rs.map fun r => emitToks fmt (fl r) false 0 r.flatten) closing)
    (hbody : BodyOk recog k0.raw split closing (rs.map fun r => emitToks fmt (fl r) false 0 r.flatten)) :
    ∃ kf, feedLines recog k0 [] [] (splitLines (fastClean (bodyText fmt fl split closing rs ++ R))) =
        some (kf, splitLines (fastClean R)) ∧ kf.finished = true ∧
      kf.records = k0.records ++ rs.map fun r => emitToks fmt (fl r) false 0 r.flatten := by
  rw [lines_body fmt fl split closing rs (by
    intro r hr t ht
    have := hbody.safe _ (List.mem_map.mpr ⟨r, hr, rfl⟩) t ht
    exact ⟨cleanSafe_of_tokSafe this.1, this.2⟩) R]
  exact feedLines_written_kw recog k0 split closing _ _ (by
      rcases hne with h | h
      · left; simpa using h
      · right; exact h) hrun (recOk_of_bodyOk hbody) hbody.slash

/-- **`parse_write_keyword`, every size class** (not double-record keywords): the text
`DeckKeyword::write` produces for the records parses back to the records, values and default
flags, and the text that follows is untouched.  `RunOk` is the size-class condition on the
written records (all records emit a token for slash-terminated and fixed-size keywords; the
records without tokens are exactly the table separators of a table collection …); `BodyOk`
the condition on the tokens. -/
theorem parse_write_keyword_lines (cv : Conv) (fmt : Bytes → Bytes) (fl : List Vals → Bool) (split closing : Bool) (recog : Bytes → Bool)
    (k0 : Kw) (hk0 : k0.records = []) (schemas : List (List Item)) (alt : Bool) (rs : List (List Vals)) (R : Bytes)
    (hne : rs ≠ [] ∨ closing = true)
    (hrun : RunOk k0 (rs.map fun r => emitToks fmt (fl r) false 0 r.flatten) closing)
    (hbody : BodyOk recog k0.raw split closing (rs.map fun r => emitToks fmt (fl r) false 0 r.flatten))
    (hrec : ∀ j r, rs[j]? = some r → ∃ items, schemaOf schemas alt j = some items ∧
      Conf cv fmt items r ∧ r.flatten.length ≤ 2147483647 ∧
      (pend (fl r) false 0 r.flatten = 0 ∨ r.flatten.length ≤ singlePrefix items)) :
    ∃ kf, feedLines recog k0 [] [] (splitLines (fastClean (bodyText fmt fl split closing rs ++ R))) =
        some (kf, splitLines (fastClean R)) ∧ kf.finished = true ∧
      parseRecords cv schemas alt 0 kf.records = some (rs.map (·.map (·.map (normP fmt)))) := by
  obtain ⟨kf, h1, h2, h3⟩ := assemble_written fmt fl split closing recog k0 rs R hne hrun hbody
  refine ⟨kf, h1, h2, ?_⟩
  rw [h3, hk0, List.nil_append]
  exact parseRecords_written cv schemas alt (fun r => emitToks fmt (fl r) false 0 r.flatten)
    (fun r => r.map (·.map (normP fmt))) rs 0 (by
      intro j r hj
      obtain ⟨items, hs, hc, hl, ht⟩ := hrec j r hj
      exact ⟨items, by simpa using hs, parse_write_tokens cv fmt (fl r) items r hc hl ht⟩)

/-- line level, in front of any lines `rest` (also the end-of-file marker of an include). -/
theorem parse_write_keyword_linesL (cv : Conv) (fmt : Bytes → Bytes) (fl : List Vals → Bool) (split closing : Bool) (recog : Bytes → Bool)
    (k0 : Kw) (hk0 : k0.records = []) (schemas : List (List Item)) (alt : Bool) (rs : List (List Vals)) (rest : List Bytes)
    (hne : rs ≠ [] ∨ closing = true)
    (hrun : RunOk k0 (rs.map fun r => emitToks fmt (fl r) false 0 r.flatten) closing)
    (hbody : BodyOk recog k0.raw split closing (rs.map fun r => emitToks fmt (fl r) false 0 r.flatten))
    (hrec : ∀ j r, rs[j]? = some r → ∃ items, schemaOf schemas alt j = some items ∧
      Conf cv fmt items r ∧ r.flatten.length ≤ 2147483647 ∧
      (pend (fl r) false 0 r.flatten = 0 ∨ r.flatten.length ≤ singlePrefix items)) :
    ∃ kf, feedLines recog k0 [] [] (bodyLines split closing (rs.map fun r => emitToks fmt (fl r) false 0 r.flatten) ++ rest) =
        some (kf, rest) ∧ kf.finished = true ∧
      parseRecords cv schemas alt 0 kf.records = some (rs.map (·.map (·.map (normP fmt)))) := by
  obtain ⟨kf, h1, h2, h3⟩ := feedLines_written_kw recog k0 split closing _ rest (by
      rcases hne with h | h
      · left; simpa using h
      · right; exact h) hrun (recOk_of_bodyOk hbody) hbody.slash
  refine ⟨kf, h1, h2, ?_⟩
  rw [h3, hk0, List.nil_append]
  exact parseRecords_written cv schemas alt (fun r => emitToks fmt (fl r) false 0 r.flatten)
    (fun r => r.map (·.map (normP fmt))) rs 0 (by
      intro j r hj
      obtain ⟨items, hs, hc, hl, ht⟩ := hrec j r hj
      exact ⟨items, by simpa using hs, parse_write_tokens cv fmt (fl r) items r hc hl ht⟩)

/-- the same as a statement about `parseKeywordText` (the keyword alone in its text). -/
theorem parse_write_keyword_text (cv : Conv) (fmt : Bytes → Bytes) (fl : List Vals → Bool) (split closing : Bool) (recog : Bytes → Bool)
    (k0 : Kw) (hk0 : k0.records = []) (hnf : k0.finished = false) (schemas : List (List Item)) (alt : Bool)
    (rs : List (List Vals))
    (hne : rs ≠ [] ∨ closing = true)
    (hrun : RunOk k0 (rs.map fun r => emitToks fmt (fl r) false 0 r.flatten) closing)
    (hbody : BodyOk recog k0.raw split closing (rs.map fun r => emitToks fmt (fl r) false 0 r.flatten))
    (hrec : ∀ j r, rs[j]? = some r → ∃ items, schemaOf schemas alt j = some items ∧
      Conf cv fmt items r ∧ r.flatten.length ≤ 2147483647 ∧
      (pend (fl r) false 0 r.flatten = 0 ∨ r.flatten.length ≤ singlePrefix items)) :
    parseKeywordText cv recog k0 schemas alt false (bodyText fmt fl split closing rs) =
      some (rs.map (·.map (·.map (normP fmt))), []) := by
  obtain ⟨kf, h1, h2, h3⟩ := parse_write_keyword_lines cv fmt fl split closing recog k0 hk0 schemas alt rs [] hne
    hrun hbody hrec
  unfold parseKeywordText
  simp only [List.append_nil] at h1
  have hsl : splitLines (fastClean []) = [] := by decide
  rw [hsl] at h1
  simp only [hnf, Bool.false_eq_true, ↓reduceIte, h1, h2, Bool.not_true, h3]

/-! ### double-record keywords -/

/-- conformance of the records of a double-record keyword: a record that emits no token is
the empty `DeckRecord` that closes a block (and restarts the record numbering), every other
record conforms to the schema of its position inside its block. -/
def DblConf (E : List Vals → List Bytes) (P : Nat → List Vals → Prop) : Nat → List (List Vals) → Prop
  | _, [] => True
  | i, r :: rs => if (E r).isEmpty then r = [] ∧ DblConf E P 0 rs else P i r ∧ DblConf E P (i + 1) rs

theorem parseRecordsDouble_written (cv : Conv) (schemas : List (List Item)) (alt : Bool)
    (E : List Vals → List Bytes) (N : List Vals → List Vals) (hN : N [] = []) :
    ∀ (rs : List (List Vals)) (i : Nat),
      DblConf E (fun j r => ∃ items, schemaOf schemas alt j = some items ∧ parseItems cv items (E r) = some (N r)) i rs →
      parseRecordsDouble cv schemas alt i (rs.map E) = some (rs.map N) := by
  intro rs
  induction rs with
  | nil => intro i _; rfl
  | cons r rs ih =>
    intro i h
    simp only [DblConf] at h
    by_cases he : (E r).isEmpty = true
    · simp only [he, ↓reduceIte] at h
      obtain ⟨hr, hrest⟩ := h
      subst hr
      simp only [List.map_cons, parseRecordsDouble, he, ↓reduceIte, ih 0 hrest, hN]
    · simp only [he, Bool.false_eq_true, ↓reduceIte] at h
      obtain ⟨⟨items, hs, hp⟩, hrest⟩ := h
      simp only [List.map_cons, parseRecordsDouble, he, Bool.false_eq_true, ↓reduceIte, hs, hp, ih (i + 1) hrest]

/-- **double-record keywords**: blocks of records, each block closed by an empty record. -/
theorem parse_write_keyword_double (cv : Conv) (fmt : Bytes → Bytes) (fl : List Vals → Bool) (split : Bool) (recog : Bytes → Bool)
    (k0 : Kw) (hk0 : k0.records = []) (schemas : List (List Item)) (alt : Bool) (rs : List (List Vals)) (R : Bytes)
    (hrun : RunOk k0 (rs.map fun r => emitToks fmt (fl r) false 0 r.flatten) true)
    (hbody : BodyOk recog k0.raw split true (rs.map fun r => emitToks fmt (fl r) false 0 r.flatten))
    (hrec : DblConf (fun r => emitToks fmt (fl r) false 0 r.flatten)
      (fun j r => ∃ items, schemaOf schemas alt j = some items ∧ Conf cv fmt items r ∧ r.flatten.length ≤ 2147483647 ∧
        (pend (fl r) false 0 r.flatten = 0 ∨ r.flatten.length ≤ singlePrefix items)) 0 rs) :
    ∃ kf, feedLines recog k0 [] [] (splitLines (fastClean (bodyText fmt fl split true rs ++ R))) =
        some (kf, splitLines (fastClean R)) ∧ kf.finished = true ∧
      parseRecordsDouble cv schemas alt 0 kf.records = some (rs.map (·.map (·.map (normP fmt)))) := by
  obtain ⟨kf, h1, h2, h3⟩ := assemble_written fmt fl split true recog k0 rs R (Or.inr rfl) hrun hbody
  refine ⟨kf, h1, h2, ?_⟩
  rw [h3, hk0, List.nil_append]
  apply parseRecordsDouble_written cv schemas alt (fun r => emitToks fmt (fl r) false 0 r.flatten)
    (fun r => r.map (·.map (normP fmt))) rfl rs 0
  -- transport the conformance predicate
  have key : ∀ (rs : List (List Vals)) (i : Nat),
      DblConf (fun r => emitToks fmt (fl r) false 0 r.flatten)
        (fun j r => ∃ items, schemaOf schemas alt j = some items ∧ Conf cv fmt items r ∧ r.flatten.length ≤ 2147483647 ∧
          (pend (fl r) false 0 r.flatten = 0 ∨ r.flatten.length ≤ singlePrefix items)) i rs →
      DblConf (fun r => emitToks fmt (fl r) false 0 r.flatten)
        (fun j r => ∃ items, schemaOf schemas alt j = some items ∧
          parseItems cv items (emitToks fmt (fl r) false 0 r.flatten) = some (r.map (·.map (normP fmt)))) i rs := by
    intro rs
    induction rs with
    | nil => intro i _; trivial
    | cons r rs ih =>
      intro i h
      simp only [DblConf] at h ⊢
      by_cases he : (emitToks fmt (fl r) false 0 r.flatten).isEmpty = true
      · simp only [he, ↓reduceIte] at h ⊢
        exact ⟨h.1, ih 0 h.2⟩
      · simp only [he, Bool.false_eq_true, ↓reduceIte] at h ⊢
        obtain ⟨⟨items, hs, hc, hl, ht⟩, hrest⟩ := h
        exact ⟨⟨items, hs, parse_write_tokens cv fmt (fl r) items r hc hl ht⟩, ih (i + 1) hrest⟩
  exact key rs 0 hrec

end OpmVerif.RawKw
