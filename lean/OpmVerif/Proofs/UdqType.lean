/-
  The typed UDQ parser (`Model/UdqType.lean`) builds the same trees as the parser of
  `Model/UdqParse.lean` (refinement, function by function), never runs out of the model's fuel, and
  the `var_type` it computes for a `* /` or `+ -` chain depends on the last two operands only —
  the observation behind the order-dependent static type check (finding `chain-type-check`).
-/
import OpmVerif.Model.UdqType
import OpmVerif.Proofs.UdqFuel

namespace OpmVerif.Udq
open OpmVerif.Gen.UdqEnums

/-- the typed answer refines the untyped one: same tree, same remaining tokens; an exception of
the typed parser (`stop`) says nothing -/
def Ref (t : TRes) (r : Res) : Prop :=
  match t with
  | .fuel => r = .fuel
  | .stop _ => True
  | .ok a _ rest => r = .ok a rest

structure RefAt (n : Nat) : Prop where
  atom : ∀ neg ts, Ref (tAtom n neg ts) (parseAtom n neg ts)
  factor : ∀ ts, Ref (tFactor n ts) (parseFactor n ts)
  pow : ∀ ts, Ref (tPow n ts) (parsePow n ts)
  mulLoop : ∀ n0 t0 acc ts, Ref (tMulLoop n n0 t0 acc ts) (parseMulLoop n n0 (eraseAcc acc) ts)
  mul : ∀ ts, Ref (tMul n ts) (parseMul n ts)
  addLoop : ∀ n0 t0 acc ts, Ref (tAddLoop n n0 t0 acc ts) (parseAddLoop n n0 (eraseAcc acc) ts)
  add : ∀ ts, Ref (tAdd n ts) (parseAdd n ts)
  cmp : ∀ ts, Ref (tCmp n ts) (parseCmp n ts)
  set : ∀ ts, Ref (tSet n ts) (parseSet n ts)

theorem refAt_zero : RefAt 0 :=
  ⟨fun _ _ => rfl, fun _ => rfl, fun _ => rfl, fun _ _ _ _ => rfl, fun _ => rfl, fun _ _ _ _ => rfl,
   fun _ => rfl, fun _ => rfl, fun _ => rfl⟩

theorem ref_ok (a : Ast) (vt : VarT) (rest : List Tok) : Ref (.ok a vt rest) (.ok a rest) := rfl

theorem ref_closeParen (neg : Bool) (mk : Ast → Ast) (vt : VarT) (inner : Ast) (rest : List Tok) :
    Ref (closeParenT neg mk vt inner rest) (closeParen neg mk inner rest) := by
  unfold closeParenT closeParen
  cases rest with
  | nil => rfl
  | cons c r => simp only []; split <;> rfl

theorem ref_finish (n0 : Ast) (t0 : VarT) (acc : TAcc) (rest : List Tok) :
    Ref (finishChain n0 t0 acc rest) (.ok (build n0 (eraseAcc acc)) rest) := by
  unfold finishChain
  cases buildT t0 acc with
  | none => trivial
  | some v => rfl

theorem ref_binNode (c : Tok) (l : Ast) (lt : VarT) (r : Ast) (rt : VarT) (rest : List Tok) :
    Ref (binNode c l lt r rt rest) (.ok (.bin (opHead c) l r) rest) := by
  unfold binNode
  cases updateType lt rt with
  | none => trivial
  | some v => rfl

theorem ref_atom {n : Nat} (ih : RefAt n) (neg : Bool) (ts : List Tok) :
    Ref (tAtom (n+1) neg ts) (parseAtom (n+1) neg ts) := by
  rw [parseAtom_succ]
  simp only [tAtom]
  cases ts with
  | nil => rfl
  | cons c r =>
    simp only []
    by_cases h1 : cls c.ty = .lp
    · simp only [h1, if_true]
      have h := ih.set r
      cases ht : tSet n r with
      | fuel => rw [ht] at h; rw [show parseSet n r = .fuel from h]; rfl
      | stop s => trivial
      | ok inner vt rest =>
        rw [ht] at h; rw [show parseSet n r = .ok inner rest from h]
        exact ref_closeParen _ _ _ _ _
    · simp only [h1, if_false]
      by_cases h2 : cls c.ty = .func
      · simp only [h2, if_true]
        cases r with
        | nil => rfl
        | cons c2 r2 =>
          simp only []
          by_cases h3 : cls c2.ty = .lp
          · simp only [h3, if_true]
            have h := ih.set r2
            cases ht : tSet n r2 with
            | fuel => rw [ht] at h; rw [show parseSet n r2 = .fuel from h]; rfl
            | stop s => trivial
            | ok inner vt rest =>
              rw [ht] at h; rw [show parseSet n r2 = .ok inner rest from h]
              exact ref_closeParen _ _ _ _ _
          · simp only [h3, if_false]; rfl
      · simp only [h2, if_false]
        split
        · cases leafType c with
          | error s => trivial
          | ok vt => rfl
        · rfl

theorem ref_factor {n : Nat} (ih : RefAt n) (ts : List Tok) :
    Ref (tFactor (n+1) ts) (parseFactor (n+1) ts) := by
  rw [parseFactor_succ]
  simp only [tFactor]
  cases ts with
  | nil => rfl
  | cons t r =>
    simp only []
    by_cases h1 : cls t.ty = .add
    · simp only [h1, if_true]; exact ih.atom _ _
    · simp only [h1, if_false]
      by_cases h2 : cls t.ty = .sub
      · simp only [h2, if_true]; exact ih.atom _ _
      · simp only [h2, if_false]; exact ih.atom _ _

/-- common shape of `parse_pow`, `parse_cmp`, `parse_set` -/
theorem ref_rightrec (k : Cls) (g1 g2 : List Tok → Res) (t1 t2 : List Tok → TRes) (ts : List Tok)
    (h1 : ∀ ts, Ref (t1 ts) (g1 ts)) (h2 : ∀ ts, Ref (t2 ts) (g2 ts)) :
    Ref (match t1 ts with
      | .fuel => TRes.fuel
      | .stop s => .stop s
      | .ok left lvt rest =>
        match rest with
        | [] => .ok left lvt []
        | c :: r =>
          if cls c.ty = k then
            match r with
            | [] => .ok errNode .none []
            | _ :: _ =>
              match t2 r with
              | .fuel => .fuel
              | .stop s => .stop s
              | .ok right rvt rest2 => binNode c left lvt right rvt rest2
          else .ok left lvt rest)
      (match g1 ts with
      | .fuel => Res.fuel
      | .ok left rest =>
        match rest with
        | [] => .ok left []
        | c :: r =>
          if cls c.ty = k then
            match r with
            | [] => .ok errNode []
            | _ :: _ =>
              match g2 r with
              | .fuel => .fuel
              | .ok right rest2 => .ok (.bin (opHead c) left right) rest2
          else .ok left rest) := by
  have h := h1 ts
  cases ht : t1 ts with
  | fuel => rw [ht] at h; rw [show g1 ts = .fuel from h]; rfl
  | stop s => trivial
  | ok left lvt rest =>
    rw [ht] at h; rw [show g1 ts = .ok left rest from h]
    simp only []
    cases rest with
    | nil => rfl
    | cons c r =>
      simp only []
      by_cases hk : cls c.ty = k
      · simp only [hk, if_true]
        cases r with
        | nil => rfl
        | cons x xs =>
          simp only []
          have h' := h2 (x :: xs)
          cases ht2 : t2 (x :: xs) with
          | fuel => rw [ht2] at h'; rw [show g2 (x :: xs) = .fuel from h']; rfl
          | stop s => trivial
          | ok right rvt rest2 =>
            rw [ht2] at h'; rw [show g2 (x :: xs) = .ok right rest2 from h']
            exact ref_binNode _ _ _ _ _ _
      · simp only [hk, if_false]; rfl

theorem ref_pow {n : Nat} (ih : RefAt n) (ts : List Tok) : Ref (tPow (n+1) ts) (parsePow (n+1) ts) := by
  rw [parsePow_succ]
  simp only [tPow]
  exact ref_rightrec .pow (parseFactor n) (parsePow n) (tFactor n) (tPow n) ts ih.factor ih.pow

theorem ref_cmp {n : Nat} (ih : RefAt n) (ts : List Tok) : Ref (tCmp (n+1) ts) (parseCmp (n+1) ts) := by
  rw [parseCmp_succ]
  simp only [tCmp]
  exact ref_rightrec .cmp (parseAdd n) (parseCmp n) (tAdd n) (tCmp n) ts ih.add ih.cmp

theorem ref_set {n : Nat} (ih : RefAt n) (ts : List Tok) : Ref (tSet (n+1) ts) (parseSet (n+1) ts) := by
  rw [parseSet_succ]
  simp only [tSet]
  exact ref_rightrec .set (parseCmp n) (parseSet n) (tCmp n) (tSet n) ts ih.cmp ih.set

theorem ref_mulLoop {n : Nat} (ih : RefAt n) (n0 : Ast) (t0 : VarT) (acc : TAcc) (ts : List Tok) :
    Ref (tMulLoop (n+1) n0 t0 acc ts) (parseMulLoop (n+1) n0 (eraseAcc acc) ts) := by
  rw [parseMulLoop_succ]
  simp only [tMulLoop]
  cases ts with
  | nil => exact ref_finish _ _ _ _
  | cons c r =>
    simp only []
    by_cases hk : cls c.ty = .mul ∨ cls c.ty = .div
    · simp only [hk, if_true]
      cases r with
      | nil => rfl
      | cons x xs =>
        simp only []
        have h := ih.pow (x :: xs)
        cases ht : tPow n (x :: xs) with
        | fuel => rw [ht] at h; rw [show parsePow n (x :: xs) = .fuel from h]; rfl
        | stop s => trivial
        | ok b bt rest2 =>
          rw [ht] at h; rw [show parsePow n (x :: xs) = .ok b rest2 from h]
          exact ih.mulLoop n0 t0 ((opHead c, b, bt) :: acc) rest2
    · simp only [hk, if_false]
      exact ref_finish _ _ _ _

theorem ref_mul {n : Nat} (ih : RefAt n) (ts : List Tok) : Ref (tMul (n+1) ts) (parseMul (n+1) ts) := by
  rw [parseMul_succ]
  simp only [tMul]
  have h := ih.pow ts
  cases ht : tPow n ts with
  | fuel => rw [ht] at h; rw [show parsePow n ts = .fuel from h]; rfl
  | stop s => trivial
  | ok a vt rest =>
    rw [ht] at h; rw [show parsePow n ts = .ok a rest from h]
    exact ih.mulLoop a vt [] rest

theorem ref_addLoop {n : Nat} (ih : RefAt n) (n0 : Ast) (t0 : VarT) (acc : TAcc) (ts : List Tok) :
    Ref (tAddLoop (n+1) n0 t0 acc ts) (parseAddLoop (n+1) n0 (eraseAcc acc) ts) := by
  rw [parseAddLoop_succ]
  simp only [tAddLoop]
  cases ts with
  | nil => exact ref_finish _ _ _ _
  | cons c r =>
    simp only []
    by_cases hk : cls c.ty = .add ∨ cls c.ty = .sub
    · simp only [hk, if_true]
      cases r with
      | nil => rfl
      | cons x xs =>
        simp only []
        have h := ih.mul (x :: xs)
        cases ht : tMul n (x :: xs) with
        | fuel => rw [ht] at h; rw [show parseMul n (x :: xs) = .fuel from h]; rfl
        | stop s => trivial
        | ok b bt rest2 =>
          rw [ht] at h; rw [show parseMul n (x :: xs) = .ok b rest2 from h]
          exact ih.addLoop n0 t0 ((opHead c, b, bt) :: acc) rest2
    · simp only [hk, if_false]
      split
      · exact ref_finish _ _ _ _
      · rfl

theorem ref_add {n : Nat} (ih : RefAt n) (ts : List Tok) : Ref (tAdd (n+1) ts) (parseAdd (n+1) ts) := by
  rw [parseAdd_succ]
  simp only [tAdd]
  have h := ih.mul ts
  cases ht : tMul n ts with
  | fuel => rw [ht] at h; rw [show parseMul n ts = .fuel from h]; rfl
  | stop s => trivial
  | ok a vt rest =>
    rw [ht] at h; rw [show parseMul n ts = .ok a rest from h]
    exact ih.addLoop a vt [] rest

theorem refAt : ∀ n, RefAt n
  | 0 => refAt_zero
  | n + 1 =>
    have ih := refAt n
    ⟨ref_atom ih, ref_factor ih, ref_pow ih, ref_mulLoop ih, ref_mul ih, ref_addLoop ih, ref_add ih,
     ref_cmp ih, ref_set ih⟩

/-- The typed parser never runs out of the model's fuel. -/
theorem tSet_ne_fuel (ts : List Tok) : ∀ h : tSet (fuelFor ts) ts = .fuel, False := by
  intro h
  have r := (refAt (fuelFor ts)).set ts
  rw [h] at r
  obtain ⟨a, rest, e, _⟩ := parseTokens_total ts
  have r' : parseSet (fuelFor ts) ts = .fuel := r
  rw [show parseSet (fuelFor ts) ts = .ok a rest from e] at r'
  cases r'

/-- Whenever the typed parser accepts a DEFINE it has built exactly the tree of the untyped
parser: the type computation has no influence on the tree. -/
theorem parseTyped_tree (target : VarT) (ts : List Tok) (a : Ast) (vt : VarT)
    (h : parseTyped target ts = .ast a vt) : parse ts = .ast a := by
  unfold parseTyped at h
  have r := (refAt (fuelFor ts)).set ts
  cases ht : tSet (fuelFor ts) ts with
  | fuel => rw [ht] at h; cases h
  | stop s => rw [ht] at h; cases h
  | ok a' vt' rest =>
    rw [ht] at h r
    have r' : parseSet (fuelFor ts) ts = .ok a' rest := r
    cases rest with
    | cons c r0 => cases h
    | nil =>
      simp only [] at h
      cases hv : a'.valid with
      | false => simp [hv] at h
      | true =>
        simp only [hv, Bool.not_true, Bool.false_eq_true, if_false] at h
        split at h
        · cases h
        · split at h
          · cases h
          · simp only [TParsed.ast.injEq] at h
            unfold parse parseTokens
            rw [r']
            rw [← h.1]
            simp [hv]

theorem parseTyped_ne_fuel (target : VarT) (ts : List Tok) : parseTyped target ts ≠ .fuel := by
  unfold parseTyped
  cases ht : tSet (fuelFor ts) ts with
  | fuel => exact absurd ht (fun h => tSet_ne_fuel ts h)
  | stop s => exact fun h => TParsed.noConfusion h
  | ok a vt rest =>
    cases rest with
    | cons c r => exact fun h => TParsed.noConfusion h
    | nil =>
      simp only []
      split
      · exact fun h => TParsed.noConfusion h
      · split
        · exact fun h => TParsed.noConfusion h
        · split <;> exact fun h => TParsed.noConfusion h

/-! ### the type of a chain: a restricted (well, group, segment, …) operand anywhere decides -/

def coerceTable : Bool :=
  VarT.all.all fun a => VarT.all.all fun b =>
    (match coerce a b with
     | some v => (!isNoMix b || v == b) && (!isNoMix a || v == a)
     | none => isNoMix a && isNoMix b && a != b) && (isNoMix VarT.none == false)

theorem coerceTable_true : coerceTable = true := by decide +kernel

theorem mem_all (a : VarT) : a ∈ VarT.all := by cases a <;> decide

theorem coerce_spec (a b : VarT) :
    (match coerce a b with
     | some v => (isNoMix b = true → v = b) ∧ (isNoMix a = true → v = a)
     | none => isNoMix a = true ∧ isNoMix b = true ∧ a ≠ b) ∧ isNoMix VarT.none = false := by
  have h := coerceTable_true
  unfold coerceTable at h
  rw [List.all_eq_true] at h
  have h1 := h a (mem_all a)
  rw [List.all_eq_true] at h1
  have h2 := h1 b (mem_all b)
  cases hc : coerce a b with
  | some v => simp [hc] at h2 ⊢; exact ⟨⟨fun hb => by have := h2.1.1; simp [hb] at this; exact this,
                                        fun ha => by have := h2.1.2; simp [ha] at this; exact this⟩, h2.2⟩
  | none => simp [hc] at h2 ⊢; exact ⟨⟨h2.1.1.1, h2.1.1.2, h2.1.2⟩, h2.2⟩

theorem updateType_restricted (cur arg v : VarT) (h : updateType cur arg = some v) :
    (isNoMix arg = true → v = arg) ∧ (isNoMix cur = true → v = cur) := by
  unfold updateType at h
  have hs := coerce_spec cur arg
  by_cases hc : cur = VarT.none
  · simp only [hc, if_true, Option.some.injEq] at h
    subst h
    refine ⟨fun _ => rfl, fun hn => ?_⟩
    rw [hc] at hn; rw [hs.2] at hn; cases hn
  · simp only [hc, if_false] at h
    rw [h] at hs
    exact hs.1

/-- With the chain folded from the left (`buildT`, the candidate patch) the top type of a chain
is the type of ANY restricted operand in it — in particular `WOPR + 1 + 2` is a well quantity
whatever the position of `WOPR`. -/
theorem buildT_restricted_wins (t0 : VarT) : ∀ (acc : TAcc) (v : VarT), buildT t0 acc = some v →
    ∀ t, (t = t0 ∨ t ∈ acc.map (·.2.2)) → isNoMix t = true → v = t := by
  intro acc
  induction acc with
  | nil =>
    intro v h t ht _
    simp only [buildT, Option.some.injEq] at h
    rcases ht with ht | ht
    · rw [ht, h]
    · cases ht
  | cons x prev ih =>
    intro v h t ht hn
    obtain ⟨hx, ax, tx⟩ := x
    simp only [buildT] at h
    cases hb : buildT t0 prev with
    | none => rw [hb] at h; cases h
    | some below =>
      rw [hb] at h
      simp only [] at h
      have hu := updateType_restricted tx below v h
      have inPrev : (t = t0 ∨ t ∈ prev.map (·.2.2)) → v = t := by
        intro hp
        have hbt := ih below hb t hp hn
        rw [hbt] at hu
        exact hu.1 hn
      rcases ht with ht | ht
      · exact inPrev (Or.inl ht)
      · simp only [List.map_cons, List.mem_cons] at ht
        rcases ht with ht | ht
        · rw [ht]; rw [ht] at hn; exact hu.2 hn
        · exact inPrev (Or.inr ht)

end OpmVerif.Udq
