/-
  Family I versus family II, the two end-points `family_equiv_endpoints` leaves out:
  `Krorw` / `Krorg`, the oil relative permeability at the displacing critical saturation
  (`TableColumn::lookup` + `eval` on the oil column — `lookupEval`).

  * `argMax_strictInc`, `argMin_strictInc`: `std::max_element` / `std::min_element` of a strictly
    increasing column are the last / first index.
  * `lookupEval_node`: at a table node the lookup returns the tabulated value.
  * `family_equiv_krorw`, `family_equiv_krorg`: both families give the same `Krorw`, `Krorg`.
-/
import OpmVerif.Proofs.SatDeck

set_option linter.unusedSectionVars false
set_option linter.unusedSimpArgs false
set_option linter.unusedVariables false

namespace OpmVerif.SatDeck
open OpmVerif.Tab1D OpmVerif.Eps

variable {K : Type} [Field K] [LinearOrder K] [IsStrictOrderedRing K]

/-! ### `std::max_element` / `std::min_element` on a strictly increasing column -/

theorem nth_eq_getElem (l : List K) (i : Nat) (hi : i < l.length) : nth l i = l[i] := by
  unfold nth
  rw [List.getD_eq_getElem?_getD, List.getElem?_eq_getElem hi]
  rfl

theorem strictInc_pairwise {l : List K} (h : StrictInc l) : l.Pairwise (· < ·) := by
  rw [List.pairwise_iff_getElem]
  intro i j hi hj hij
  have := h i j hij hj
  rwa [nth_eq_getElem l i hi, nth_eq_getElem l j hj] at this

theorem strictInc_of_pairwise {l : List K} (h : l.Pairwise (· < ·)) : StrictInc l := by
  rw [List.pairwise_iff_getElem] at h
  intro i j hij hj
  have := h i j (by omega) hj hij
  rwa [nth_eq_getElem l i (by omega), nth_eq_getElem l j hj]

/-- generalised invariant of the `max_element` loop: on a strictly increasing remainder whose
elements all exceed the running maximum, the loop ends on the last index. -/
theorem argMaxFrom_sorted : ∀ (l : List K) (i best : Nat) (bv : K), (∀ x ∈ l, bv < x) →
    l.Pairwise (· < ·) → l ≠ [] → argMaxFrom l i best bv = i + l.length - 1 := by
  intro l
  induction l with
  | nil => intro i best bv _ _ h; exact absurd rfl h
  | cons x r ih =>
    intro i best bv hb hp _
    unfold argMaxFrom
    rw [if_pos (hb x (List.mem_cons_self))]
    by_cases hr : r = []
    · subst hr
      unfold argMaxFrom
      simp
    · rw [List.pairwise_cons] at hp
      rw [ih (i + 1) i x hp.1 hp.2 hr]
      simp only [List.length_cons]
      have : 0 < r.length := List.length_pos_iff.mpr hr
      omega

/-- generalised invariant of the `min_element` loop: if no element of the remainder is below the
running minimum, the best index is kept. -/
theorem argMinFrom_keep : ∀ (l : List K) (i best : Nat) (bv : K), (∀ x ∈ l, ¬ x < bv) →
    argMinFrom l i best bv = best := by
  intro l
  induction l with
  | nil => intro i best bv _; unfold argMinFrom; rfl
  | cons x r ih =>
    intro i best bv hb
    unfold argMinFrom
    rw [if_neg (hb x (List.mem_cons_self))]
    exact ih (i + 1) best bv (fun y hy => hb y (List.mem_cons_of_mem _ hy))

theorem argMax_strictInc {sat : List K} (hs : StrictInc sat) (hn : 0 < sat.length) :
    argMax sat = sat.length - 1 := by
  have hp := strictInc_pairwise hs
  cases sat with
  | nil => simp at hn
  | cons x r =>
    unfold argMax
    have h0 : nth (x :: r) 0 = x := by simp [nth]
    rw [h0]
    unfold argMaxFrom
    rw [if_neg (lt_irrefl x)]
    by_cases hr : r = []
    · subst hr
      unfold argMaxFrom
      simp
    · rw [List.pairwise_cons] at hp
      rw [argMaxFrom_sorted r 1 0 x hp.1 hp.2 hr]
      simp only [List.length_cons]
      omega

theorem argMin_strictInc {sat : List K} (hs : StrictInc sat) (hn : 0 < sat.length) :
    argMin sat = 0 := by
  unfold argMin
  apply argMinFrom_keep
  intro x hx
  obtain ⟨i, hi, e⟩ := List.mem_iff_getElem.mp hx
  rw [← e, ← nth_eq_getElem sat i hi]
  exact not_lt.mpr (hs.le (Nat.zero_le i) hi)

/-! ### `lookup` + `eval` at a table node -/

/-- **Table honouring**: at a node of a strictly increasing saturation column the
`TableColumn::lookup` / `eval` pair returns the tabulated value (first node, last node — the two
end shortcuts — and interior nodes, where the bisection ends on the segment to the left of the
node and the first weight is `0`). No hypothesis on the length of `kr` is needed: `nth` is total. -/
theorem lookupEval_node {sat : List K} (kr : List K) (hs : StrictInc sat) {j : Nat}
    (hj : j < sat.length) : lookupEval sat kr (nth sat j) = nth kr j := by
  have hn : 0 < sat.length := by omega
  unfold lookupEval
  rw [argMax_strictInc hs hn, argMin_strictInc hs hn]
  by_cases h1 : j = sat.length - 1
  · rw [← h1, if_pos (le_refl _), mul_one]
  · have hlt : nth sat j < nth sat (sat.length - 1) := hs _ _ (by omega) (by omega)
    rw [if_neg (not_le.mpr hlt)]
    by_cases h0 : j = 0
    · subst h0; rw [if_pos (le_refl _), mul_one]
    · have hgt : nth sat 0 < nth sat j := hs _ _ (by omega) hj
      rw [if_neg (not_le.mpr hgt)]
      have sp := bisectAsc_spec sat (nth sat j) sat.length 0 (sat.length - 1) (by omega) (by omega)
        hgt (le_of_lt hlt)
      generalize bisectAsc sat (nth sat j) sat.length 0 (sat.length - 1) = i at sp ⊢
      obtain ⟨_, hi, a, b⟩ := sp
      have hij : i < j := (hs.lt_iff (by omega) hj).mp a
      have hji : j ≤ i + 1 := by
        by_contra hcon
        exact absurd (hs _ _ (by omega : i + 1 < j) hj) (not_lt.mpr b)
      have e : j = i + 1 := by omega
      subst e
      have hne : nth sat (i + 1) - nth sat i ≠ 0 := sub_ne_zero.mpr (ne_of_gt a)
      simp only [div_self hne, sub_self, zero_lt_one, if_true, mul_zero, zero_add, sub_zero, one_mul]

/-- The same on the reversed, re-parametrised column (`So = f(S)` ascending): the node `j` of the
original table is the node `n - 1 - j` of the reversed one. -/
theorem lookupEval_reverse_node {sat kr : List K} (f : K → K) (hd : StrictDec (sat.map f))
    (hl : kr.length = sat.length) {j : Nat} (hj : j < sat.length) :
    lookupEval (sat.map f).reverse kr.reverse (f (nth sat j)) = nth kr j := by
  have e : f (nth sat j) = nth (sat.map f).reverse (sat.length - 1 - j) := by
    rw [nth_reverse' (sat.map f) (sat.length - 1 - j) j (by simp; omega), nth_map f sat j hj]
  rw [e, lookupEval_node _ (strictInc_reverse hd) (by simp; omega),
    nth_reverse' kr (sat.length - 1 - j) j (by omega)]

/-! ### The scanners return a table node -/

/-- `std::lower_bound` stays inside `[first, first + len]` (no partitioning needed). -/
theorem lowerBound_le (p : K → Bool) (xs : List K) :
    ∀ fuel first len, lowerBound p xs fuel first len ≤ first + len := by
  intro fuel
  induction fuel with
  | zero => intro first len; unfold lowerBound; omega
  | succ f ih =>
    intro first len
    unfold lowerBound
    by_cases hl : 0 < len
    · rw [if_pos hl]
      by_cases hm : p (nth xs (first + len / 2)) = true
      · rw [if_pos hm]
        have := ih (first + len / 2 + 1) (len - len / 2 - 1)
        omega
      · rw [if_neg hm]
        have := ih first (len / 2)
        omega
    · rw [if_neg hl]; omega

theorem critIndex_le (p : K → Bool) (kr : List K) : critIndex p kr ≤ kr.length := by
  unfold critIndex
  have := lowerBound_le p kr (kr.length + 1) 0 kr.length
  omega

/-- `crit_sat_increasing_KR` returns a node of the saturation column (whatever the relperm
column looks like), as soon as the two columns have the same non-zero length. -/
theorem critInc_node (sat kr : List K) (tol : K) (hl : kr.length = sat.length) (hn : 0 < sat.length) :
    ∃ j, j < sat.length ∧ critInc sat kr tol = nth sat j := by
  refine ⟨critIndex (fun k => decide (¬ (tol < k))) kr - 1, ?_, rfl⟩
  have := critIndex_le (fun k => decide (¬ (tol < k))) kr
  omega

/-! ### Family I versus family II: `Krorw`, `Krorg` -/

/-- **family_equiv, `KRORW`**: the oil relperm at the critical water saturation. Family I looks
`Swcr + Sgl` up in the SWOF `Sw` column, family II looks `1 - Swcr - Sgl` up in the SOF3 `So`
column. With `Sgl = 0` (SGOF tables start at `Sg = 0`) both arguments are table nodes and both
lookups return the same sample of the oil column. -/
theorem family_equiv_krorw (a : Fam1 K) (tol : K) (hsg0 : front a.sg = 0) (hs : StrictInc a.sw)
    (hlw : a.krow.length = a.sw.length) (hlk : a.krw.length = a.sw.length) (hn : 0 < a.sw.length) :
    (unscaledInfo2 (toFam2 a) tol).Krorw = (unscaledInfo1 a tol).Krorw := by
  obtain ⟨j, hj, ej⟩ := critInc_node a.sw a.krw tol hlk hn
  have h1 : (unscaledInfo1 a tol).Krorw = nth a.krow j := by
    show lookupEval a.sw a.krow (critInc a.sw a.krw tol + front a.sg) = _
    rw [hsg0, add_zero, ej]
    exact lookupEval_node _ hs hj
  have h2 : (unscaledInfo2 (toFam2 a) tol).Krorw = nth a.krow j := by
    show lookupEval (a.sw.map (fun s => 1 - s)).reverse a.krow.reverse
      (1 - critInc a.sw a.krw tol - front a.sg) = _
    rw [hsg0, sub_zero, ej]
    exact lookupEval_reverse_node (fun s => 1 - s) (strictDec_map_sub 1 hs) hlw hj
  rw [h1, h2]

/-- **family_equiv, `KRORG`**: the oil relperm at the critical gas saturation. Family I looks
`Sgcr` up in the SGOF `Sg` column, family II looks `1 - Sgcr - Swl` up in the SOF3 `So` column,
which under `Shared` is the reversed `(1 - Swl) - Sg` column. -/
theorem family_equiv_krorg (a : Fam1 K) (tol : K) (hsh : Shared a) (hsg : StrictInc a.sg)
    (hlg : a.krog.length = a.sg.length) (hlk : a.krg.length = a.sg.length) (hn : 0 < a.sg.length) :
    (unscaledInfo2 (toFam2 a) tol).Krorg = (unscaledInfo1 a tol).Krorg := by
  obtain ⟨j, hj, ej⟩ := critInc_node a.sg a.krg tol hlk hn
  have h1 : (unscaledInfo1 a tol).Krorg = nth a.krog j := by
    show lookupEval a.sg a.krog (critInc a.sg a.krg tol) = _
    rw [ej]
    exact lookupEval_node _ hsg hj
  have h2 : (unscaledInfo2 (toFam2 a) tol).Krorg = nth a.krog j := by
    show lookupEval (a.sw.map (fun s => 1 - s)).reverse a.krog.reverse
      (1 - critInc a.sg a.krg tol - front a.sw) = _
    have hsh' : a.sw.map (fun s => 1 - s) = a.sg.map (fun g => (1 - nth a.sw 0) - g) := hsh.symm
    have e : 1 - nth a.sg j - front a.sw = (1 - nth a.sw 0) - nth a.sg j := by
      show 1 - nth a.sg j - nth a.sw 0 = (1 - nth a.sw 0) - nth a.sg j
      ring
    rw [hsh', ej, e]
    exact lookupEval_reverse_node (fun g => (1 - nth a.sw 0) - g) (strictDec_map_sub _ hsg) hlg hj
  rw [h1, h2]

/-! ### Non-vacuity examples over ℚ -/

/-- interior node, first node, last node of a four-node table -/
example : lookupEval ([1 / 4, 1 / 2, 3 / 4, 1] : List ℚ) [1, 1 / 2, 1 / 4, 0] (3 / 4) = 1 / 4 := by
  have h := lookupEval_node (sat := ([1 / 4, 1 / 2, 3 / 4, 1] : List ℚ)) [1, 1 / 2, 1 / 4, 0]
    (strictInc_of_pairwise (by norm_num)) (j := 2) (by simp)
  simpa [nth] using h

example : argMax ([1 / 4, 1 / 2, 3 / 4, 1] : List ℚ) = 3 :=
  argMax_strictInc (strictInc_of_pairwise (by norm_num)) (by simp)

example : argMin ([1 / 4, 1 / 2, 3 / 4, 1] : List ℚ) = 0 :=
  argMin_strictInc (strictInc_of_pairwise (by norm_num)) (by simp)

/-- a small SWOF + SGOF pair with shared nodes: `Swl = 1/4`, `Sg = 3/4 - (Sw - 1/4)` reversed -/
def exTab : Fam1 ℚ :=
  { sw := [1 / 4, 1 / 2, 3 / 4, 1], krw := [0, 0, 1 / 3, 1], krow := [1, 1 / 2, 1 / 4, 0], pcow := [0, 0, 0, 0],
    sg := [0, 1 / 4, 1 / 2, 3 / 4], krg := [0, 0, 1 / 2, 1], krog := [1, 1 / 3, 1 / 5, 0], pcog := [0, 0, 0, 0] }

example : (unscaledInfo2 (toFam2 exTab) 0).Krorw = (unscaledInfo1 exTab 0).Krorw :=
  family_equiv_krorw exTab 0 (by simp [exTab, front, nth])
    (strictInc_of_pairwise (by norm_num [exTab])) rfl rfl (by simp [exTab])

example : (unscaledInfo2 (toFam2 exTab) 0).Krorg = (unscaledInfo1 exTab 0).Krorg :=
  family_equiv_krorg exTab 0 (by norm_num [Shared, exTab, nth])
    (strictInc_of_pairwise (by norm_num [exTab])) rfl rfl (by simp [exTab])

end OpmVerif.SatDeck
