/-
  C12 — independence of inactive cells for whole programs.

  The content of one ACTIVE global cell `g` evolves by a one-cell semantics (`…1` functions
  below) that never looks at the ACTNUM or at any other cell: every accepted reference run
  projects onto it.  Two accepted runs of the same program under two ACTNUMs therefore agree
  on every cell that is active at the end of both.
-/
import OpmVerif.Proofs.FieldProps

namespace OpmVerif.FieldProps

/-! ## one-cell states -/

structure St1 (α : Type) where
  ints : List (String × Cell Int)
  dbls : List (String × Cell α)

section One
variable {α : Type} [RealOps α]

/-- the cell `g` of every array -/
def proj (g : Nat) (s : St α) : St1 α :=
  ⟨smap (fun x => cellAt x g) s.ints, smap (fun x => cellAt x g) s.dbls⟩

def fresh1 {β : Type} [Scalar β] (init : Option β) : Cell β :=
  match init with
  | some v => ⟨.validDefault, v⟩
  | none => blank

def get1D (s : St1 α) (kw : String) (info : DInfo α) : St1 α × Cell α :=
  match sget s.dbls kw with
  | some c => (s, c)
  | none => ({ s with dbls := sput s.dbls kw (fresh1 info.init) }, fresh1 info.init)

def get1I (s : St1 α) (kw : String) (init : Option Int) : St1 α × Cell Int :=
  match sget s.ints kw with
  | some c => (s, c)
  | none => ({ s with ints := sput s.ints kw (fresh1 init) }, fresh1 init)

def put1D (s : St1 α) (kw : String) (c : Cell α) : St1 α := { s with dbls := sput s.dbls kw c }
def put1I (s : St1 α) (kw : String) (c : Cell Int) : St1 α := { s with ints := sput s.ints kw c }

def apply1 {β : Type} (K : Kernel β) (sel : Option Nat) (src tgt : Cell β) : Cell β :=
  match sel with
  | some d => K.upd d src tgt
  | none => tgt

def sel1 (c : Cell Int) (r : Int) (g : Nat) : Option Nat := if c.v = r then some g else none

/-! ### primitives project -/

theorem cellAt_fresh {β : Type} [Scalar β] (D : Dims) (A : List Bool) (init : Option β) (g : Nat)
    (hg : g < D.size) : cellAt (fresh .ref D A init) g = fresh1 init := by
  simp only [cellAt, fresh, arrSize, fresh1, List.getD_eq_getElem?_getD]
  rw [List.getElem?_replicate]
  simp only [hg, if_true, Option.getD_some]
  cases init <;> rfl

theorem proj_getD (D : Dims) (s : St α) (kw : String) (info : DInfo α) (g : Nat) (hg : g < D.size) :
    get1D (proj g s) kw info = (proj g (getD .ref D s kw info).1, cellAt (getD .ref D s kw info).2 g) := by
  unfold get1D getD
  simp only [proj, sget_smap]
  cases h : sget s.dbls kw with
  | some x => rfl
  | none => simp only [Option.map_none, smap_sput, cellAt_fresh D s.act info.init g hg]

theorem proj_getI (D : Dims) (s : St α) (kw : String) (init : Option Int) (g : Nat) (hg : g < D.size) :
    get1I (proj g s) kw init = (proj g (getI .ref D s kw init).1, cellAt (getI .ref D s kw init).2 g) := by
  unfold get1I getI
  simp only [proj, sget_smap]
  cases h : sget s.ints kw with
  | some x => rfl
  | none => simp only [Option.map_none, smap_sput, cellAt_fresh D s.act init g hg]

theorem proj_putD (s : St α) (kw : String) (y : Arr α) (g : Nat) :
    proj g (putD s kw y) = put1D (proj g s) kw (cellAt y g) := by
  simp [proj, putD, put1D, smap_sput]

theorem proj_putI (s : St α) (kw : String) (y : Arr Int) (g : Nat) :
    proj g (putI s kw y) = put1I (proj g s) kw (cellAt y g) := by
  simp [proj, putI, put1I, smap_sput]

theorem cellAt_refApply {β : Type} [Scalar β] (K : Kernel β) (A : List Bool) (sel : Nat → Option Nat)
    (src tgt y : Arr β) (h : refApply K A sel src tgt = some y) (g : Nat) (hg : g < tgt.length) :
    cellAt y g = apply1 K (sel g) (cellAt src g) (cellAt tgt g) := by
  rw [refApply_value K A sel src tgt y h]
  simp only [cellAt, List.getD_eq_getElem?_getD, List.getElem?_mapIdx, List.getElem?_eq_getElem hg,
    Option.map_some, Option.getD_some, refUpd, apply1]
  cases sel g <;> rfl

theorem cellAt_boxApply {β : Type} [Scalar β] (D : Dims) (A : List Bool) (K : Kernel β) (b : Box)
    (src tgt y : Arr β) (h : boxApply .ref D A K b src tgt = some y) (g : Nat) (hg : g < tgt.length) :
    cellAt y g = apply1 K (boxSel D b g) (cellAt src g) (cellAt tgt g) :=
  cellAt_refApply K A _ src tgt y h g hg

theorem cellAt_regApply {β : Type} [Scalar β] (A : List Bool) (K : Kernel β) (reg : Arr Int) (r : Int)
    (src tgt y : Arr β) (h : regApply .ref A K reg r src tgt = some y) (g : Nat) (hg : g < tgt.length) :
    cellAt y g = apply1 K (sel1 (cellAt reg g) r g) (cellAt src g) (cellAt tgt g) :=
  cellAt_refApply K A _ src tgt y h g hg

theorem sput_same {β : Type} (s : List (String × β)) (k : String) (v : β) (h : sget s k = some v) :
    sput s k v = s := by
  induction s with
  | nil => cases h
  | cons p r ih =>
    obtain ⟨k', v'⟩ := p
    simp only [sget] at h
    simp only [sput]
    by_cases hk : k' = k
    · simp only [hk, if_true, Option.some.injEq] at h ⊢
      rw [h]
    · simp only [hk, if_false] at h ⊢
      rw [ih h]

theorem getD_sget (m : Mode) (D : Dims) (s : St α) (kw : String) (info : DInfo α) :
    sget (getD m D s kw info).1.dbls kw = some (getD m D s kw info).2 := by
  unfold getD
  cases h : sget s.dbls kw with
  | some x => simp [h]
  | none =>
    simp only
    generalize fresh m D s.act info.init = x
    generalize s.dbls = st
    induction st with
    | nil => simp [sput, sget]
    | cons p r ih =>
      obtain ⟨k', v'⟩ := p
      simp only [sput]
      by_cases hk : k' = kw
      · simp [hk, sget]
      · simp [hk, sget, ih]

theorem getI_dbls (m : Mode) (D : Dims) (s : St α) (kw : String) (init : Option Int) :
    (getI m D s kw init).1.dbls = s.dbls := by
  unfold getI; split <;> rfl

theorem getD_ints (m : Mode) (D : Dims) (s : St α) (kw : String) (info : DInfo α) :
    (getD m D s kw info).1.ints = s.ints := by
  unfold getD; split <;> rfl

theorem getI_sget (m : Mode) (D : Dims) (s : St α) (kw : String) (init : Option Int) :
    sget (getI m D s kw init).1.ints kw = some (getI m D s kw init).2 := by
  unfold getI
  cases h : sget s.ints kw with
  | some x => simp [h]
  | none =>
    simp only
    generalize fresh m D s.act init = x
    generalize s.ints = st
    induction st with
    | nil => simp [sput, sget]
    | cons p r ih =>
      obtain ⟨k', v'⟩ := p
      simp only [sput]
      by_cases hk : k' = kw
      · simp [hk, sget]
      · simp [hk, sget, ih]

/-- an empty region (among the active cells) does not contain an active cell -/
theorem regEmpty_active (A : List Bool) (reg : Arr Int) (r : Int) (hl : reg.length = A.length)
    (he : regEmpty .ref A reg r = true) (g : Nat) (hg : isActive A g = true) : (cellAt reg g).v ≠ r := by
  simp only [regEmpty] at he
  rw [allActive_compress A _ reg hl, List.all_eq_true] at he
  have hc := cellAt_compress_rank A reg g hl hg
  have hlt : rank A g < (compress A reg).length := by
    rw [compress_length A reg hl]; exact rank_lt_nactive A g hg
  have hm : cellAt (compress A reg) (rank A g) ∈ compress A reg := by
    simp only [cellAt, List.getD_eq_getElem?_getD, List.getElem?_eq_getElem hlt, Option.getD_some]
    exact List.getElem_mem hlt
  have := he _ hm
  rw [hc] at this
  simpa using this

/-- a fully defined array has a value in every ACTIVE cell -/
theorem validArr_active {β : Type} [Scalar β] (A : List Bool) (y : Arr β) (hl : y.length = A.length)
    (hv : validArr .ref A y = true) (g : Nat) (hg : isActive A g = true) : (cellAt y g).st.okSt = true := by
  simp only [validArr] at hv
  rw [allActive_compress A _ y hl, List.all_eq_true] at hv
  have hc := cellAt_compress_rank A y g hl hg
  have hlt : rank A g < (compress A y).length := by
    rw [compress_length A y hl]; exact rank_lt_nactive A g hg
  have hm : cellAt (compress A y) (rank A g) ∈ compress A y := by
    simp only [cellAt, List.getD_eq_getElem?_getD, List.getElem?_eq_getElem hlt, Option.getD_some]
    exact List.getElem_mem hlt
  have := hv _ hm
  rw [hc] at this
  exact this

theorem getElem?_mapFrom {β γ : Type} (f : Nat → β → γ) (s : Nat) (x : List β) (g : Nat) :
    (mapFrom f s x)[g]? = x[g]?.map (f (s + g)) := by
  induction x generalizing s g with
  | nil => simp [mapFrom]
  | cons y ys ih =>
    cases g with
    | zero => simp [mapFrom]
    | succ g => simp only [mapFrom, List.getElem?_cons_succ, ih]; congr 2; omega

/-- "distribute top layer" as one cell sees it: no ACTNUM, no other cell of the ARRAY (only the
deck entry of the column's top cell) -/
def top1 (D : Dims) (sec : Section) (info : DInfo α) (b : Box) (deck : Arr α) (g : Nat) (c : Cell α) : Cell α :=
  if sec = .grid ∧ info.top = true then topCell (topValueRef D b deck (g % (D.nx * D.ny))) c else c

theorem cellAt_topStep (D : Dims) (A : List Bool) (sec : Section) (info : DInfo α) (b : Box) (deck y : Arr α)
    (hl : y.length = A.length) (g : Nat) (hg : g < y.length) (hact : isActive A g = true) :
    cellAt (topStep .ref D A sec info b deck y) g = top1 D sec info b deck g (cellAt y g) := by
  unfold topStep top1
  by_cases hc : sec = .grid ∧ info.top = true
  · by_cases hv : validArr .ref A y = false
    · rw [if_pos ⟨hc.1, hc.2, hv⟩, if_pos hc]
      simp only [topApply, cellAt, List.getD_eq_getElem?_getD, getElem?_mapFrom, List.getElem?_eq_getElem hg,
        Option.map_some, Option.getD_some, Nat.zero_add]
    · rw [if_neg (fun h => hv h.2.2), if_pos hc]
      have hv' : validArr .ref A y = true := by
        cases h : validArr .ref A y
        · exact absurd h hv
        · rfl
      have hok := validArr_active A y hl hv' g hact
      have hne : (cellAt y g).st ≠ .uninit := by
        intro h; rw [h] at hok; simp [Status.okSt] at hok
      simp [topCell, hne]
  · rw [if_neg (fun h => hc ⟨h.1, h.2.1⟩), if_neg hc]

/-! ## no handler touches the ACTNUM -/

theorem map_put_act {β : Type} (o : Option β) (f : β → St α × Box) (A : List Bool) (hf : ∀ y, (f y).1.act = A)
    (q : St α × Box) (h : o.map f = some q) : q.1.act = A := by
  cases o with
  | none => cases h
  | some y => simp only [Option.map_some, Option.some.injEq] at h; subst h; exact hf y

theorem map_put_act' {β : Type} (o : Option β) (f : β → St α) (A : List Bool) (hf : ∀ y, (f y).act = A)
    (q : St α) (h : o.map f = some q) : q.act = A := by
  cases o with
  | none => cases h
  | some y => simp only [Option.map_some, Option.some.injEq] at h; subst h; exact hf y

theorem scalarRec_act (m : Mode) (D : Dims) (T : Tables α) (sec : Section) (op : ScalarOp) (sb : St α × Box)
    (r : ScalarRec α) (q : St α × Box) (h : scalarRec m D T sec op sb r = some q) : q.1.act = sb.1.act := by
  unfold scalarRec at h
  try simp only [] at h
  repeat' (split at h <;> try simp only [] at h)
  all_goals first
    | exact map_put_act _ _ _ (fun y => by simp [putD, putI, getD_act, getI_act]) q h
    | (cases h; done)

theorem copyRec_act (m : Mode) (D : Dims) (T : Tables α) (sb : St α × Box)
    (r : CopyRec) (q : St α × Box) (h : copyRec m D T sb r = some q) : q.1.act = sb.1.act := by
  unfold copyRec at h
  try simp only [] at h
  repeat' (split at h <;> try simp only [] at h)
  all_goals first
    | exact map_put_act _ _ _ (fun y => by simp [putD, putI, getD_act, getI_act]) q h
    | (cases h; done)
    | (cases h; rfl)

theorem operRec_act (m : Mode) (D : Dims) (T : Tables α) (sb : St α × Box)
    (r : OperRec α) (q : St α × Box) (h : operRec m D T sb r = some q) : q.1.act = sb.1.act := by
  unfold operRec at h
  try simp only [] at h
  repeat' (split at h <;> try simp only [] at h)
  all_goals first
    | exact map_put_act _ _ _ (fun y => by simp [putD, putI, getD_act, getI_act]) q h
    | (cases h; done)

theorem regionArr_act (m : Mode) (D : Dims) (T : Tables α) (s : St α) (name : String) (q : St α × Arr Int)
    (h : regionArr m D T s name = some q) : q.1.act = s.act := by
  unfold regionArr at h
  try simp only [] at h
  repeat' (split at h <;> try simp only [] at h)
  all_goals first
    | (cases h; done)
    | (cases h; exact getI_act ..)

theorem regScalarRec_act (m : Mode) (D : Dims) (T : Tables α) (op : ScalarOp) (s : St α)
    (r : RegScalarRec α) (q : St α) (h : regScalarRec m D T op s r = some q) : q.act = s.act := by
  unfold regScalarRec at h
  try simp only [] at h
  repeat' (split at h <;> try simp only [] at h)
  all_goals first
    | (cases h; done)
    | (cases h; rfl)
    | (have hra := regionArr_act _ _ _ _ _ _ (by assumption)
       first
         | (cases h; rw [hra]; exact getD_act ..)
         | (exact map_put_act' _ _ _ (fun y => by simp only [putD]; rw [hra]; exact getD_act ..) q h))

theorem copyRegRec_act (m : Mode) (D : Dims) (T : Tables α) (s : St α)
    (r : CopyRegRec) (q : St α) (h : copyRegRec m D T s r = some q) : q.act = s.act := by
  unfold copyRegRec at h
  try simp only [] at h
  repeat' (split at h <;> try simp only [] at h)
  all_goals first
    | (cases h; done)
    | (have hra := regionArr_act _ _ _ _ _ _ (by assumption)
       first
         | (cases h; exact hra)
         | (exact map_put_act' _ _ _ (fun y => by simp only [putD, putI, getD_act, getI_act]; exact hra) q h))

theorem operRegRec_act (m : Mode) (D : Dims) (T : Tables α) (s : St α)
    (r : OperRegRec α) (q : St α) (h : operRegRec m D T s r = some q) : q.act = s.act := by
  unfold operRegRec at h
  try simp only [] at h
  repeat' (split at h <;> try simp only [] at h)
  all_goals first
    | (cases h; done)
    | (cases h; rfl)
    | (have hra := regionArr_act _ _ _ _ _ _ (by assumption)
       first
         | (cases h; rw [hra, getD_act, getD_act])
         | (exact map_put_act' _ _ _ (fun y => by simp only [putD]; rw [hra, getD_act, getD_act]) q h))

theorem foldRecs_inv {σ ρ : Type} (f : σ → ρ → Option σ) (I : σ → σ → Prop) (hrefl : ∀ s, I s s)
    (htrans : ∀ a b c, I a b → I b c → I a c) (h : ∀ s r q, f s r = some q → I s q) :
    ∀ (rs : List ρ) (s q : σ), foldRecs f s rs = some q → I s q := by
  intro rs
  induction rs with
  | nil => intro s q hq; simp only [foldRecs, Option.some.injEq] at hq; subst hq; exact hrefl s
  | cons r rs ih =>
    intro s q hq
    simp only [foldRecs] at hq
    cases hf : f s r with
    | none => rw [hf] at hq; cases hq
    | some s' => rw [hf] at hq; exact htrans _ _ _ (h s r s' hf) (ih s' q hq)

theorem kwStep_act (m : Mode) (D : Dims) (T : Tables α) (sec : Section) (p : St α × Box) (k : Kw α)
    (q : St α × Box) (h : kwStep m D T sec p k = some q) : q.1.act = p.1.act := by
  have fp : ∀ {ρ : Type} (f : St α × Box → ρ → Option (St α × Box))
      (_ : ∀ s r q, f s r = some q → q.1.act = s.1.act)
      (rs : List ρ) (s q : St α × Box), foldRecs f s rs = some q → q.1.act = s.1.act :=
    fun f hf rs s q hq => (foldRecs_inv f (fun a b => b.1.act = a.1.act) (fun _ => rfl)
      (fun a b c h1 h2 => by rw [h2, h1]) hf rs s q hq)
  cases k with
  | box r =>
    simp only [kwStep] at h
    split at h
    · cases h
    · cases h; rfl
  | endbox => simp only [kwStep, Option.some.injEq] at h; subst h; rfl
  | dataD kw vals =>
    simp only [kwStep] at h
    repeat' (split at h <;> try simp only [] at h)
    all_goals first
      | exact map_put_act _ _ _ (fun y => by simp [putD, getD_act]) q h
      | (cases h; done)
  | dataI kw vals =>
    simp only [kwStep] at h
    repeat' (split at h <;> try simp only [] at h)
    all_goals first
      | exact map_put_act _ _ _ (fun y => by simp [putI, getI_act]) q h
      | (cases h; done)
  | scalar op recs =>
    simp only [kwStep] at h
    split at h
    · cases h
    · rename_i r hr
      cases h
      exact fp _ (fun s r q => scalarRec_act m D T sec op s r q) recs (p.1, p.2) r hr
  | copy recs =>
    simp only [kwStep] at h
    split at h
    · cases h
    · rename_i r hr
      cases h
      exact fp _ (fun s r q => copyRec_act m D T s r q) recs (p.1, p.2) r hr
  | operate recs =>
    simp only [kwStep] at h
    split at h
    · cases h
    · rename_i r hr
      cases h
      exact fp _ (fun s r q => operRec_act m D T s r q) recs (p.1, p.2) r hr
  | regScalar op recs =>
    simp only [kwStep] at h
    split at h
    · cases h
    · rename_i r hr
      cases h
      exact foldRecs_inv _ (fun a b => b.act = a.act) (fun _ => rfl) (fun a b c h1 h2 => by rw [h2, h1])
        (fun s r q => regScalarRec_act m D T op s r q) recs _ _ hr
  | copyReg recs =>
    simp only [kwStep] at h
    split at h
    · cases h
    · rename_i r hr
      cases h
      exact foldRecs_inv _ (fun a b => b.act = a.act) (fun _ => rfl) (fun a b c h1 h2 => by rw [h2, h1])
        (fun s r q => copyRegRec_act m D T s r q) recs _ _ hr
  | operateR recs =>
    simp only [kwStep] at h
    split at h
    · cases h
    · rename_i r hr
      cases h
      exact foldRecs_inv _ (fun a b => b.act = a.act) (fun _ => rfl) (fun a b c h1 h2 => by rw [h2, h1])
        (fun s r q => operRegRec_act m D T s r q) recs _ _ hr

theorem applyMult_act (m : Mode) (D : Dims) (s : St α) (e : String × DInfo α) : (applyMult m D s e).act = s.act := by
  unfold applyMult
  repeat' split
  all_goals first
    | rfl
    | exact getD_act ..

theorem scanSection_act (m : Mode) (D : Dims) (T : Tables α) (sec : Section) (s : St α) (ks : List (Kw α))
    (q : St α) (h : scanSection m D T sec s ks = some q) : q.act = s.act := by
  unfold scanSection at h
  split at h
  · cases h
  · rename_i r hr
    cases h
    have h1 : r.1.act = s.act := foldRecs_inv _ (fun a b => b.1.act = a.1.act) (fun _ => rfl)
      (fun a b c h1 h2 => by rw [h2, h1]) (fun p k q => kwStep_act m D T sec p k q) ks _ _ hr
    split
    · simp only [applyMultipliers]
      have : ∀ (es : List (String × DInfo α)) (x : St α), (es.foldl (applyMult m D) x).act = x.act := by
        intro es
        induction es with
        | nil => intro x; rfl
        | cons e es ih => intro x; simp only [List.foldl_cons]; rw [ih, applyMult_act]
      rw [this, h1]
    · exact h1


/-! ## one-cell record handlers -/

def scalarRec1 (g : Nat) (D : Dims) (T : Tables α) (sec : Section) (op : ScalarOp)
    (sb : St1 α × Box) (r : ScalarRec α) : Option (St1 α × Box) :=
  match Box.update D sb.2 r.box with
  | none => none
  | some b =>
    let s := sb.1
    match sget T.dbl r.kw with
    | some info =>
      if op ≠ .equal ∧ info.mult = false ∧ ¬ (sec = .edit ∧ r.kw = "PORV") ∧ (sget s.dbls r.kw).isNone then none
      else
        let x := if op = .mul then r.raw else info.si r.raw
        let name := editName sec info r.kw
        let p := get1D s name info
        some (put1D p.1 name (apply1 (scalarKernel op x) (boxSel D b g) p.2 p.2), b)
    | none =>
      match sget T.int r.kw with
      | some init =>
        if op ≠ .equal ∧ (sget s.ints r.kw).isNone then none
        else
          let x : Int := RealOps.trunc r.raw
          let p := get1I s r.kw init
          some (put1I p.1 r.kw (apply1 (scalarKernel op x) (boxSel D b g) p.2 p.2), b)
      | none => none

theorem proj_dbls_get (g : Nat) (s : St α) (k : String) :
    sget (proj g s).dbls k = (sget s.dbls k).map (fun x => cellAt x g) := by simp [proj, sget_smap]
theorem proj_ints_get (g : Nat) (s : St α) (k : String) :
    sget (proj g s).ints k = (sget s.ints k).map (fun x => cellAt x g) := by simp [proj, sget_smap]

theorem scalarRec_proj (g : Nat) (D : Dims) (T : Tables α) (sec : Section) (op : ScalarOp) (s : St α) (b : Box)
    (hw : WF D s) (hg : g < D.size) (r : ScalarRec α) (q : St α × Box)
    (h : scalarRec .ref D T sec op (s, b) r = some q) :
    scalarRec1 g D T sec op (proj g s, b) r = some (proj g q.1, q.2) ∧ q.1.act = s.act := by
  unfold scalarRec at h
  unfold scalarRec1
  simp only [] at h ⊢
  cases hbu : Box.update D b r.box with
  | none => rw [hbu] at h; cases h
  | some b' =>
    rw [hbu] at h
    simp only [] at h ⊢
    cases hd : sget T.dbl r.kw with
    | some info =>
      rw [hd] at h
      simp only [] at h ⊢
      have e1 : (sget (proj g s).dbls r.kw).isNone = (sget s.dbls r.kw).isNone := by
        simp [proj_dbls_get]
      rw [e1]
      split at h
      · cases h
      · rename_i hc
        rw [if_neg hc]
        obtain ⟨hw1, hl1⟩ := getD_wf D s (editName sec info r.kw) info hw
        have ha1 := getD_act .ref D s (editName sec info r.kw) info
        rw [proj_getD D s _ info g hg]
        generalize getD .ref D s (editName sec info r.kw) info = p at *
        cases hap : boxApply .ref D p.1.act (scalarKernel op (if op = .mul then r.raw else info.si r.raw)) b' p.2 p.2 with
        | none => rw [hap] at h; cases h
        | some y =>
          rw [hap] at h
          simp only [Option.map_some, Option.some.injEq] at h
          subst h
          simp only [proj_putD, cellAt_boxApply D _ _ b' _ _ y hap g (by rw [hl1]; exact hg)]
          exact ⟨by first | trivial | rfl, ha1⟩
    | none =>
      rw [hd] at h
      simp only [] at h ⊢
      cases hi : sget T.int r.kw with
      | none => rw [hi] at h; cases h
      | some init =>
        rw [hi] at h
        simp only [] at h ⊢
        have e1 : (sget (proj g s).ints r.kw).isNone = (sget s.ints r.kw).isNone := by
          simp [proj_ints_get]
        rw [e1]
        split at h
        · cases h
        · rename_i hc
          rw [if_neg hc]
          obtain ⟨hw1, hl1⟩ := getI_wf D s r.kw init hw
          have ha1 := getI_act .ref D s r.kw init
          rw [proj_getI D s _ init g hg]
          generalize getI .ref D s r.kw init = p at *
          cases hap : boxApply .ref D p.1.act (scalarKernel op (RealOps.trunc r.raw : Int)) b' p.2 p.2 with
          | none => rw [hap] at h; cases h
          | some y =>
            rw [hap] at h
            simp only [Option.map_some, Option.some.injEq] at h
            subst h
            simp only [proj_putI, cellAt_boxApply D _ _ b' _ _ y hap g (by rw [hl1]; exact hg)]
            exact ⟨by first | trivial | rfl, ha1⟩


def copyRec1 (g : Nat) (D : Dims) (T : Tables α) (sb : St1 α × Box) (r : CopyRec) : Option (St1 α × Box) :=
  match Box.update D sb.2 r.box with
  | none => none
  | some b =>
    let s := sb.1
    match sget T.dbl r.src with
    | some _ =>
      match sget s.dbls r.src with
      | none => none
      | some src =>
        match sget T.dbl r.tgt with
        | none => none
        | some tinfo =>
          let p := get1D s r.tgt tinfo
          some (put1D p.1 r.tgt (apply1 copyKernel (boxSel D b g) src p.2), b)
    | none =>
      match sget T.int r.src with
      | some _ =>
        match sget s.ints r.src with
        | none => none
        | some src =>
          match sget T.int r.tgt with
          | none => none
          | some tinit =>
            let p := get1I s r.tgt tinit
            some (put1I p.1 r.tgt (apply1 copyKernel (boxSel D b g) src p.2), b)
      | none => some (s, b)

theorem copyRec_proj (g : Nat) (D : Dims) (T : Tables α) (s : St α) (b : Box)
    (hw : WF D s) (hg : g < D.size) (r : CopyRec) (q : St α × Box)
    (h : copyRec .ref D T (s, b) r = some q) :
    copyRec1 g D T (proj g s, b) r = some (proj g q.1, q.2) ∧ q.1.act = s.act := by
  unfold copyRec at h
  unfold copyRec1
  simp only [] at h ⊢
  cases hbu : Box.update D b r.box with
  | none => rw [hbu] at h; cases h
  | some b' =>
    rw [hbu] at h
    simp only [] at h ⊢
    cases hd : sget T.dbl r.src with
    | some _ =>
      rw [hd] at h
      simp only [] at h ⊢
      rw [proj_dbls_get]
      cases hsrc : sget s.dbls r.src with
      | none => rw [hsrc] at h; cases h
      | some src =>
        rw [hsrc] at h
        simp only [Option.map_some] at h ⊢
        split at h
        · cases h
        · cases ht : sget T.dbl r.tgt with
          | none => rw [ht] at h; cases h
          | some tinfo =>
            rw [ht] at h
            simp only [] at h ⊢
            obtain ⟨hw1, hl1⟩ := getD_wf D s r.tgt tinfo hw
            have ha1 := getD_act .ref D s r.tgt tinfo
            rw [proj_getD D s _ tinfo g hg]
            generalize getD .ref D s r.tgt tinfo = p at *
            cases hap : boxApply .ref D p.1.act copyKernel b' src p.2 with
            | none => rw [hap] at h; cases h
            | some y =>
              rw [hap] at h
              simp only [Option.map_some, Option.some.injEq] at h
              subst h
              simp only [proj_putD, cellAt_boxApply D _ _ b' _ _ y hap g (by rw [hl1]; exact hg)]
              exact ⟨by first | trivial | rfl, ha1⟩
    | none =>
      rw [hd] at h
      simp only [] at h ⊢
      cases hi : sget T.int r.src with
      | some _ =>
        rw [hi] at h
        simp only [] at h ⊢
        rw [proj_ints_get]
        cases hsrc : sget s.ints r.src with
        | none => rw [hsrc] at h; cases h
        | some src =>
          rw [hsrc] at h
          simp only [Option.map_some] at h ⊢
          split at h
          · cases h
          · cases ht : sget T.int r.tgt with
            | none => rw [ht] at h; cases h
            | some tinit =>
              rw [ht] at h
              simp only [] at h ⊢
              obtain ⟨hw1, hl1⟩ := getI_wf D s r.tgt tinit hw
              have ha1 := getI_act .ref D s r.tgt tinit
              rw [proj_getI D s _ tinit g hg]
              generalize getI .ref D s r.tgt tinit = p at *
              cases hap : boxApply .ref D p.1.act copyKernel b' src p.2 with
              | none => rw [hap] at h; cases h
              | some y =>
                rw [hap] at h
                simp only [Option.map_some, Option.some.injEq] at h
                subst h
                simp only [proj_putI, cellAt_boxApply D _ _ b' _ _ y hap g (by rw [hl1]; exact hg)]
                exact ⟨by first | trivial | rfl, ha1⟩
      | none =>
        rw [hi] at h
        simp only [Option.some.injEq] at h
        subst h
        exact ⟨rfl, rfl⟩

def operRec1 (g : Nat) (D : Dims) (T : Tables α) (sb : St1 α × Box) (r : OperRec α) : Option (St1 α × Box) :=
  match Box.update D sb.2 r.box with
  | none => none
  | some b =>
    match sget T.dbl r.tgt with
    | none => none
    | some tinfo =>
      let p := get1D sb.1 r.tgt tinfo
      match sget T.dbl r.src with
      | none => none
      | some sinfo =>
        let q := get1D p.1 r.src sinfo
        match operateFn r.fn (operAlpha r.fn tinfo r.a) (operBeta r.fn tinfo r.b) with
        | none => none
        | some f =>
          some (put1D q.1 r.tgt (apply1 (operateKernel f (r.fn = "MULTIPLY" ∨ r.fn = "POLY")) (boxSel D b g) q.2 p.2), b)

theorem operRec_proj (g : Nat) (D : Dims) (T : Tables α) (s : St α) (b : Box)
    (hw : WF D s) (hg : g < D.size) (r : OperRec α) (q : St α × Box)
    (h : operRec .ref D T (s, b) r = some q) :
    operRec1 g D T (proj g s, b) r = some (proj g q.1, q.2) ∧ q.1.act = s.act := by
  unfold operRec at h
  unfold operRec1
  simp only [] at h ⊢
  cases hbu : Box.update D b r.box with
  | none => rw [hbu] at h; cases h
  | some b' =>
    rw [hbu] at h
    simp only [] at h ⊢
    cases ht : sget T.dbl r.tgt with
    | none => rw [ht] at h; cases h
    | some tinfo =>
      rw [ht] at h
      simp only [] at h ⊢
      obtain ⟨hw1, hl1⟩ := getD_wf D s r.tgt tinfo hw
      have ha1 := getD_act .ref D s r.tgt tinfo
      rw [proj_getD D s _ tinfo g hg]
      generalize getD .ref D s r.tgt tinfo = p at *
      simp only [] at h ⊢
      cases hs : sget T.dbl r.src with
      | none => rw [hs] at h; cases h
      | some sinfo =>
        rw [hs] at h
        simp only [] at h ⊢
        obtain ⟨hw2, hl2⟩ := getD_wf D p.1 r.src sinfo hw1
        have ha2 := getD_act .ref D p.1 r.src sinfo
        rw [proj_getD D p.1 _ sinfo g hg]
        generalize getD .ref D p.1 r.src sinfo = u at *
        simp only [] at h ⊢
        cases hf : operateFn r.fn (operAlpha r.fn tinfo r.a) (operBeta r.fn tinfo r.b) with
        | none => rw [hf] at h; cases h
        | some f =>
          rw [hf] at h
          simp only [] at h ⊢
          cases hap : boxApply .ref D u.1.act (operateKernel f (r.fn = "MULTIPLY" ∨ r.fn = "POLY")) b' u.2 p.2 with
          | none => rw [hap] at h; cases h
          | some y =>
            rw [hap] at h
            simp only [Option.map_some, Option.some.injEq] at h
            subst h
            simp only [proj_putD, cellAt_boxApply D _ _ b' _ _ y hap g (by rw [hl1]; exact hg)]
            exact ⟨by first | trivial | rfl, by simp only [putD]; rw [ha2, ha1]⟩

def regionArr1 (T : Tables α) (s : St1 α) (name : String) : Option (St1 α × Cell Int) :=
  match sget T.int name with
  | none => none
  | some init => some (get1I s name init)

theorem regionArr_proj (g : Nat) (D : Dims) (T : Tables α) (s : St α) (hw : WF D s) (hg : g < D.size)
    (name : String) (q : St α × Arr Int) (h : regionArr .ref D T s name = some q) :
    regionArr1 T (proj g s) name = some (proj g q.1, cellAt q.2 g) ∧ q.1.act = s.act ∧ WF D q.1 ∧
      q.2.length = D.size ∧ q.1.dbls = s.dbls := by
  unfold regionArr at h
  unfold regionArr1
  cases hi : sget T.int name with
  | none => rw [hi] at h; cases h
  | some init =>
    rw [hi] at h
    simp only [] at h ⊢
    obtain ⟨hw1, hl1⟩ := getI_wf D s name init hw
    have ha1 := getI_act .ref D s name init
    have hd1 := getI_dbls .ref D s name init
    rw [proj_getI D s _ init g hg]
    generalize getI .ref D s name init = p at *
    split at h
    · simp only [Option.some.injEq] at h
      subst h
      exact ⟨rfl, ha1, hw1, hl1, hd1⟩
    · cases h

def regScalarRec1 (g : Nat) (T : Tables α) (op : ScalarOp) (s : St1 α) (r : RegScalarRec α) : Option (St1 α) :=
  match sget T.dbl r.kw with
  | none => some s
  | some info =>
    let p := get1D s r.kw info
    match regionName r.rs with
    | none => none
    | some rn =>
      match regionArr1 T p.1 rn with
      | none => none
      | some q =>
        let x := if op = .mul then r.raw else info.si r.raw
        some (put1D q.1 r.kw (apply1 (scalarKernel op x) (sel1 q.2 r.rv g) p.2 p.2))

theorem put1D_same (s : St1 α) (kw : String) (c : Cell α) (h : sget s.dbls kw = some c) : put1D s kw c = s := by
  simp [put1D, sput_same _ _ _ h]

theorem regScalarRec_proj (g : Nat) (D : Dims) (T : Tables α) (op : ScalarOp) (s : St α)
    (hw : WF D s) (hg : g < D.size) (hact : isActive s.act g = true) (r : RegScalarRec α) (s' : St α)
    (h : regScalarRec .ref D T op s r = some s') :
    regScalarRec1 g T op (proj g s) r = some (proj g s') ∧ s'.act = s.act := by
  unfold regScalarRec at h
  unfold regScalarRec1
  cases hd : sget T.dbl r.kw with
  | none =>
    rw [hd] at h
    simp only [Option.some.injEq] at h
    subst h
    exact ⟨rfl, rfl⟩
  | some info =>
    rw [hd] at h
    simp only [] at h ⊢
    obtain ⟨hw1, hl1⟩ := getD_wf D s r.kw info hw
    have ha1 := getD_act .ref D s r.kw info
    have hsg := getD_sget .ref D s r.kw info
    rw [proj_getD D s _ info g hg]
    generalize getD .ref D s r.kw info = p at *
    simp only [] at h ⊢
    cases hn : regionName r.rs with
    | none => rw [hn] at h; cases h
    | some rn =>
      rw [hn] at h
      simp only [] at h ⊢
      cases hq : regionArr .ref D T p.1 rn with
      | none => rw [hq] at h; cases h
      | some q =>
        rw [hq] at h
        obtain ⟨hr1, ha2, hw2, hl2, hdb⟩ := regionArr_proj g D T p.1 hw1 hg rn q hq
        rw [hr1]
        simp only [] at h ⊢
        split at h
        · rename_i hemp
          simp only [Option.some.injEq] at h
          subst h
          have hne := regEmpty_active q.1.act q.2 r.rv (by rw [hl2, hw2.act]) hemp g (by rw [ha2, ha1]; exact hact)
          simp only [sel1, hne, if_false, apply1]
          rw [put1D_same]
          · exact ⟨rfl, by rw [ha2, ha1]⟩
          · rw [proj_dbls_get, hdb, hsg]; rfl
        · cases hap : regApply .ref q.1.act (scalarKernel op (if op = .mul then r.raw else info.si r.raw)) q.2 r.rv p.2 p.2 with
          | none => rw [hap] at h; cases h
          | some y =>
            rw [hap] at h
            simp only [Option.map_some, Option.some.injEq] at h
            subst h
            simp only [proj_putD, cellAt_regApply _ _ q.2 r.rv _ _ y hap g (by rw [hl1]; exact hg)]
            exact ⟨by first | trivial | rfl, by simp only [putD]; rw [ha2, ha1]⟩


def copyRegRec1 (g : Nat) (T : Tables α) (s : St1 α) (r : CopyRegRec) : Option (St1 α) :=
  match regionName r.rs with
  | none => none
  | some rn =>
    match regionArr1 T s rn with
    | none => none
    | some q =>
      let s := q.1
      match sget T.dbl r.src with
      | some _ =>
        match sget s.dbls r.src with
        | none => none
        | some src =>
          match sget T.dbl r.tgt with
          | none => none
          | some tinfo =>
            let p := get1D s r.tgt tinfo
            some (put1D p.1 r.tgt (apply1 copyKernel (sel1 q.2 r.rv g) src p.2))
      | none =>
        match sget T.int r.src with
        | some _ =>
          match sget s.ints r.src with
          | none => none
          | some src =>
            match sget T.int r.tgt with
            | none => none
            | some tinit =>
              let p := get1I s r.tgt tinit
              some (put1I p.1 r.tgt (apply1 copyKernel (sel1 q.2 r.rv g) src p.2))
        | none => some s

theorem copyRegRec_proj (g : Nat) (D : Dims) (T : Tables α) (s : St α)
    (hw : WF D s) (hg : g < D.size) (r : CopyRegRec) (s' : St α)
    (h : copyRegRec .ref D T s r = some s') :
    copyRegRec1 g T (proj g s) r = some (proj g s') ∧ s'.act = s.act := by
  unfold copyRegRec at h
  unfold copyRegRec1
  cases hn : regionName r.rs with
  | none => rw [hn] at h; cases h
  | some rn =>
    rw [hn] at h
    simp only [] at h ⊢
    cases hq : regionArr .ref D T s rn with
    | none => rw [hq] at h; cases h
    | some q =>
      rw [hq] at h
      obtain ⟨hr1, ha2, hw2, hl2, _⟩ := regionArr_proj g D T s hw hg rn q hq
      rw [hr1]
      simp only [] at h ⊢
      cases hd : sget T.dbl r.src with
      | some _ =>
        rw [hd] at h
        simp only [] at h ⊢
        rw [proj_dbls_get]
        cases hsrc : sget q.1.dbls r.src with
        | none => rw [hsrc] at h; cases h
        | some src =>
          rw [hsrc] at h
          simp only [Option.map_some] at h ⊢
          split at h
          · cases h
          · cases ht : sget T.dbl r.tgt with
            | none => rw [ht] at h; cases h
            | some tinfo =>
              rw [ht] at h
              simp only [] at h ⊢
              obtain ⟨hw1, hl1⟩ := getD_wf D q.1 r.tgt tinfo hw2
              have ha1 := getD_act .ref D q.1 r.tgt tinfo
              rw [proj_getD D q.1 _ tinfo g hg]
              generalize getD .ref D q.1 r.tgt tinfo = p at *
              cases hap : regApply .ref p.1.act copyKernel q.2 r.rv src p.2 with
              | none => rw [hap] at h; cases h
              | some y =>
                rw [hap] at h
                simp only [Option.map_some, Option.some.injEq] at h
                subst h
                simp only [proj_putD, cellAt_regApply _ _ q.2 r.rv _ _ y hap g (by rw [hl1]; exact hg)]
                exact ⟨by first | trivial | rfl, by simp only [putD]; rw [ha1, ha2]⟩
      | none =>
        rw [hd] at h
        simp only [] at h ⊢
        cases hi : sget T.int r.src with
        | some _ =>
          rw [hi] at h
          simp only [] at h ⊢
          rw [proj_ints_get]
          cases hsrc : sget q.1.ints r.src with
          | none => rw [hsrc] at h; cases h
          | some src =>
            rw [hsrc] at h
            simp only [Option.map_some] at h ⊢
            split at h
            · cases h
            · cases ht : sget T.int r.tgt with
              | none => rw [ht] at h; cases h
              | some tinit =>
                rw [ht] at h
                simp only [] at h ⊢
                obtain ⟨hw1, hl1⟩ := getI_wf D q.1 r.tgt tinit hw2
                have ha1 := getI_act .ref D q.1 r.tgt tinit
                rw [proj_getI D q.1 _ tinit g hg]
                generalize getI .ref D q.1 r.tgt tinit = p at *
                cases hap : regApply .ref p.1.act copyKernel q.2 r.rv src p.2 with
                | none => rw [hap] at h; cases h
                | some y =>
                  rw [hap] at h
                  simp only [Option.map_some, Option.some.injEq] at h
                  subst h
                  simp only [proj_putI, cellAt_regApply _ _ q.2 r.rv _ _ y hap g (by rw [hl1]; exact hg)]
                  exact ⟨by first | trivial | rfl, by simp only [putI]; rw [ha1, ha2]⟩
        | none =>
          rw [hi] at h
          simp only [Option.some.injEq] at h
          subst h
          exact ⟨rfl, ha2⟩

/-! ## OPERATER on one cell (code as fixed by bf5bceae1: the source array is fetched before the region test) -/

theorem sget_sput_self {β : Type} (s : List (String × β)) (k : String) (v : β) : sget (sput s k v) k = some v := by
  induction s with
  | nil => simp [sput, sget]
  | cons p r ih =>
    obtain ⟨k', v'⟩ := p
    simp only [sput]
    by_cases hk : k' = k
    · simp [hk, sget]
    · simp [hk, sget, ih]

theorem sget_sput_ne {β : Type} (s : List (String × β)) (k k2 : String) (v : β) (h : k2 ≠ k) :
    sget (sput s k v) k2 = sget s k2 := by
  induction s with
  | nil => simp [sput, sget, Ne.symm h]
  | cons p r ih =>
    obtain ⟨k', v'⟩ := p
    simp only [sput]
    by_cases hk : k' = k
    · subst hk
      simp [sget, Ne.symm h]
    · simp only [hk, if_false, sget]
      by_cases hk2 : k' = k2
      · simp [hk2]
      · simp [hk2, ih]

theorem getD_keeps (m : Mode) (D : Dims) (s : St α) (k k2 : String) (info : DInfo α) (x : Arr α)
    (h : sget s.dbls k2 = some x) : sget (getD m D s k info).1.dbls k2 = some x := by
  unfold getD
  cases hk : sget s.dbls k with
  | some c => simpa using h
  | none =>
    simp only []
    have : k2 ≠ k := fun e => by rw [e, hk] at h; cases h
    rw [sget_sput_ne _ _ _ _ this]; exact h

/-- one record of OPERATER as one cell sees it: no ACTNUM, no other cell.  (An unknown function name is
rejected by the code only when the region has an active cell; an accepted run with an unknown name has
skipped the record, which is what the one-cell function does.) -/
def operRegRec1 (g : Nat) (T : Tables α) (s : St1 α) (r : OperRegRec α) : Option (St1 α) :=
  match sget T.dbl r.tgt with
  | none => some s
  | some tinfo =>
    let p := get1D s r.tgt tinfo
    match sget T.dbl r.src with
    | none => none
    | some sinfo =>
      let u := get1D p.1 r.src sinfo
      match regionArr1 T u.1 r.rn with
      | none => none
      | some q =>
        match operateFn r.fn (operAlpha r.fn tinfo r.a) (operBeta r.fn tinfo r.b) with
        | none => some q.1
        | some f =>
          some (put1D q.1 r.tgt (apply1 (operateKernel f (r.fn = "MULTIPLY" ∨ r.fn = "POLY")) (sel1 q.2 r.rv g) u.2 p.2))

theorem operRegRec_proj (g : Nat) (D : Dims) (T : Tables α) (s : St α)
    (hw : WF D s) (hg : g < D.size) (hact : isActive s.act g = true) (r : OperRegRec α) (s' : St α)
    (h : operRegRec .ref D T s r = some s') :
    operRegRec1 g T (proj g s) r = some (proj g s') ∧ s'.act = s.act := by
  have hact0 := operRegRec_act .ref D T s r s' h
  refine ⟨?_, hact0⟩
  unfold operRegRec at h
  unfold operRegRec1
  cases hd : sget T.dbl r.tgt with
  | none =>
    rw [hd] at h
    simp only [Option.some.injEq] at h
    subst h
    rfl
  | some tinfo =>
    rw [hd] at h
    simp only [] at h ⊢
    obtain ⟨hw1, hl1⟩ := getD_wf D s r.tgt tinfo hw
    have ha1 := getD_act .ref D s r.tgt tinfo
    have hsg := getD_sget .ref D s r.tgt tinfo
    rw [proj_getD D s _ tinfo g hg]
    generalize getD .ref D s r.tgt tinfo = p at *
    simp only [] at h ⊢
    cases hs : sget T.dbl r.src with
    | none => rw [hs] at h; cases h
    | some sinfo =>
      rw [hs] at h
      simp only [] at h ⊢
      obtain ⟨hw3, hl3⟩ := getD_wf D p.1 r.src sinfo hw1
      have ha3 := getD_act .ref D p.1 r.src sinfo
      have hk3 := getD_keeps .ref D p.1 r.src r.tgt sinfo p.2 hsg
      rw [proj_getD D p.1 _ sinfo g hg]
      generalize getD .ref D p.1 r.src sinfo = u at *
      simp only [] at h ⊢
      cases hq : regionArr .ref D T u.1 r.rn with
      | none => rw [hq] at h; cases h
      | some q =>
        rw [hq] at h
        obtain ⟨hr1, ha2, hw2, hl2, hdb⟩ := regionArr_proj g D T u.1 hw3 hg r.rn q hq
        rw [hr1]
        simp only [] at h ⊢
        split at h
        · rename_i hemp
          simp only [Option.some.injEq] at h
          subst h
          have hne := regEmpty_active q.1.act q.2 r.rv (by rw [hl2, hw2.act]) hemp g
            (by rw [ha2, ha3, ha1]; exact hact)
          cases hf : operateFn r.fn (operAlpha r.fn tinfo r.a) (operBeta r.fn tinfo r.b) with
          | none => rfl
          | some f =>
            simp only [sel1, hne, if_false, apply1]
            rw [put1D_same]
            rw [proj_dbls_get, hdb, hk3]; rfl
        · cases hf : operateFn r.fn (operAlpha r.fn tinfo r.a) (operBeta r.fn tinfo r.b) with
          | none => rw [hf] at h; cases h
          | some f =>
            rw [hf] at h
            simp only [] at h ⊢
            cases hap : regApply .ref q.1.act (operateKernel f (r.fn = "MULTIPLY" ∨ r.fn = "POLY")) q.2 r.rv u.2 p.2 with
            | none => rw [hap] at h; cases h
            | some y =>
              rw [hap] at h
              simp only [Option.map_some, Option.some.injEq] at h
              subst h
              simp only [proj_putD, cellAt_regApply _ _ q.2 r.rv _ _ y hap g (by rw [hl1]; exact hg)]

/-! ## keywords, sections, programs on one cell -/

theorem foldRecs_proj {σ τ ρ : Type} (f : σ → ρ → Option σ) (f1 : τ → ρ → Option τ) (pr : σ → τ) (I : σ → Prop)
    (h : ∀ s r q, I s → f s r = some q → f1 (pr s) r = some (pr q) ∧ I q) :
    ∀ (rs : List ρ) (s q : σ), I s → foldRecs f s rs = some q → foldRecs f1 (pr s) rs = some (pr q) ∧ I q := by
  intro rs
  induction rs with
  | nil =>
    intro s q hs hq
    simp only [foldRecs, Option.some.injEq] at hq ⊢
    subst hq
    exact ⟨rfl, hs⟩
  | cons r rs ih =>
    intro s q hs hq
    simp only [foldRecs] at hq ⊢
    cases hf : f s r with
    | none => rw [hf] at hq; cases hq
    | some s' =>
      rw [hf] at hq
      obtain ⟨h1, h2⟩ := h s r s' hs hf
      rw [h1]
      exact ih s' q h2 hq

/-- (historic, kept for the statement of `inactive_independence_partial`; since bf5bceae1 the one-cell
semantics covers OPERATER too) keywords other than OPERATER (which before the fix created its source
array only when the region has an ACTIVE cell, so the set of existing arrays would depend on
the ACTNUM) -/
def Kw.noOperR : Kw α → Bool
  | .operateR _ => false
  | _ => true

def kwStep1 (g : Nat) (D : Dims) (T : Tables α) (sec : Section) (sb : St1 α × Box) (k : Kw α) :
    Option (St1 α × Box) :=
  let s := sb.1
  let b := sb.2
  match k with
  | .box r =>
    match Box.update D b r with
    | none => none
    | some b' => some (s, b')
  | .endbox => some (s, Box.global D)
  | .dataD kw vals =>
    match sget T.dbl kw with
    | none => none
    | some info =>
      let name := editName sec info kw
      let p := get1D s name info
      if vals.length ≠ b.size then none
      else some (put1D p.1 name (top1 D sec info b (siData info vals) g
        (apply1 (assignKernel (siData info vals)) (boxSel D b g) p.2 p.2)), b)
  | .dataI kw vals =>
    match sget T.int kw with
    | none => none
    | some init =>
      let p := get1I s kw init
      if vals.length ≠ b.size then none
      else some (put1I p.1 kw (apply1 (assignKernel vals) (boxSel D b g) p.2 p.2), b)
  | .scalar op recs =>
    match foldRecs (scalarRec1 g D T sec op) (s, b) recs with
    | none => none
    | some r => some (r.1, b)
  | .copy recs =>
    match foldRecs (copyRec1 g D T) (s, b) recs with
    | none => none
    | some r => some (r.1, b)
  | .operate recs =>
    match foldRecs (operRec1 g D T) (s, b) recs with
    | none => none
    | some r => some (r.1, b)
  | .regScalar op recs =>
    match foldRecs (regScalarRec1 g T op) s recs with
    | none => none
    | some s' => some (s', b)
  | .copyReg recs =>
    match foldRecs (copyRegRec1 g T) s recs with
    | none => none
    | some s' => some (s', b)
  | .operateR recs =>
    match foldRecs (operRegRec1 g T) s recs with
    | none => none
    | some s' => some (s', b)

/-- invariant carried through a section: well-formed, valid box, ACTNUM unchanged -/
def PairA (D : Dims) (A0 : List Bool) (p : St α × Box) : Prop := PairOK D p ∧ p.1.act = A0

def prPair (g : Nat) (p : St α × Box) : St1 α × Box := (proj g p.1, p.2)

theorem kwStep_proj (g : Nat) (D : Dims) (hD : DPos D) (T : Tables α) (sec : Section)
    (A0 : List Bool) (hact : isActive A0 g = true) (hg : g < D.size)
    (p : St α × Box) (hp : PairA D A0 p) (k : Kw α) (q : St α × Box)
    (h : kwStep .ref D T sec p k = some q) :
    kwStep1 g D T sec (prPair g p) k = some (prPair g q) ∧ PairA D A0 q := by
  have hok := (kwStep_refines D hD T sec p hp.1 k).2 q h
  obtain ⟨s, b⟩ := p
  obtain ⟨⟨hw, hb⟩, hA⟩ := hp
  simp only at hw hb hA
  show kwStep1 g D T sec (proj g s, b) k = some (proj g q.1, q.2) ∧ _
  refine ⟨?_, hok, ?_⟩
  all_goals
  cases k with
  | box r =>
    simp only [kwStep, kwStep1] at h ⊢
    cases hbu : Box.update D b r with
    | none => rw [hbu] at h; cases h
    | some b' =>
      rw [hbu] at h
      simp only [Option.some.injEq] at h
      subst h
      first | rfl | exact hA
  | endbox =>
    simp only [kwStep, kwStep1, Option.some.injEq] at h ⊢
    subst h
    first | rfl | exact hA
  | dataD kw vals =>
    simp only [kwStep, kwStep1] at h ⊢
    cases hd : sget T.dbl kw with
    | none => rw [hd] at h; cases h
    | some info =>
      rw [hd] at h
      simp only [] at h ⊢
      obtain ⟨hw1, hl1⟩ := getD_wf D s (editName sec info kw) info hw
      have ha1 := getD_act .ref D s (editName sec info kw) info
      try rw [proj_getD D s _ info g hg]
      generalize getD .ref D s (editName sec info kw) info = p at *
      try simp only [] at h
      try simp only []
      by_cases hlen : vals.length ≠ b.size
      · rw [if_pos hlen] at h; cases h
      · rw [if_neg hlen] at h
        try rw [if_neg hlen]
        cases hap : boxApply .ref D p.1.act (assignKernel (siData info vals)) b p.2 p.2 with
        | none => rw [hap] at h; cases h
        | some y =>
          rw [hap] at h
          simp only [Option.map_some, Option.some.injEq] at h
          subst h
          have hy := boxApply_ref_length _ _ _ _ _ _ _ hap
          have htop := cellAt_topStep D p.1.act sec info b (siData info vals) y (by rw [hy, hl1, hw1.act]) g
            (by rw [hy, hl1]; exact hg) (by rw [ha1, hA]; exact hact)
          first
            | (simp only [putD]; rw [ha1]; exact hA)
            | (simp only [proj_putD, htop, cellAt_boxApply D _ _ b _ _ y hap g (by rw [hl1]; exact hg)])
  | dataI kw vals =>
    simp only [kwStep, kwStep1] at h ⊢
    cases hd : sget T.int kw with
    | none => rw [hd] at h; cases h
    | some init =>
      rw [hd] at h
      simp only [] at h ⊢
      obtain ⟨hw1, hl1⟩ := getI_wf D s kw init hw
      have ha1 := getI_act .ref D s kw init
      try rw [proj_getI D s _ init g hg]
      generalize getI .ref D s kw init = p at *
      try simp only [] at h
      try simp only []
      by_cases hlen : vals.length ≠ b.size
      · rw [if_pos hlen] at h; cases h
      · rw [if_neg hlen] at h
        try rw [if_neg hlen]
        cases hap : boxApply .ref D p.1.act (assignKernel vals) b p.2 p.2 with
        | none => rw [hap] at h; cases h
        | some y =>
          rw [hap] at h
          simp only [Option.map_some, Option.some.injEq] at h
          subst h
          first
            | (simp only [putI]; rw [ha1]; exact hA)
            | (simp only [proj_putI, cellAt_boxApply D _ _ b _ _ y hap g (by rw [hl1]; exact hg)])
  | scalar op recs =>
    simp only [kwStep, kwStep1] at h ⊢
    cases hf : foldRecs (scalarRec .ref D T sec op) (s, b) recs with
    | none => rw [hf] at h; cases h
    | some r =>
      rw [hf] at h
      simp only [Option.some.injEq] at h
      subst h
      obtain ⟨f1, f2⟩ := foldRecs_proj (scalarRec .ref D T sec op) (scalarRec1 g D T sec op) (prPair g) (PairA D A0)
        (fun p r q hp hq => by
          obtain ⟨e1, e2⟩ := scalarRec_proj g D T sec op p.1 p.2 hp.1.1 hg r q hq
          exact ⟨e1, (scalarRec_refines D T sec op p.1 p.2 hp.1.1 hp.1.2 r).2 q hq, by rw [e2]; exact hp.2⟩)
        recs (s, b) r ⟨⟨hw, hb⟩, hA⟩ hf
      first
        | (change foldRecs _ (proj g s, b) recs = _ at f1; rw [f1]; rfl)
        | exact f2.2
  | copy recs =>
    simp only [kwStep, kwStep1] at h ⊢
    cases hf : foldRecs (copyRec .ref D T) (s, b) recs with
    | none => rw [hf] at h; cases h
    | some r =>
      rw [hf] at h
      simp only [Option.some.injEq] at h
      subst h
      obtain ⟨f1, f2⟩ := foldRecs_proj (copyRec .ref D T) (copyRec1 g D T) (prPair g) (PairA D A0)
        (fun p r q hp hq => by
          obtain ⟨e1, e2⟩ := copyRec_proj g D T p.1 p.2 hp.1.1 hg r q hq
          exact ⟨e1, (copyRec_refines D T p.1 p.2 hp.1.1 hp.1.2 r).2 q hq, by rw [e2]; exact hp.2⟩)
        recs (s, b) r ⟨⟨hw, hb⟩, hA⟩ hf
      first
        | (change foldRecs _ (proj g s, b) recs = _ at f1; rw [f1]; rfl)
        | exact f2.2
  | operate recs =>
    simp only [kwStep, kwStep1] at h ⊢
    cases hf : foldRecs (operRec .ref D T) (s, b) recs with
    | none => rw [hf] at h; cases h
    | some r =>
      rw [hf] at h
      simp only [Option.some.injEq] at h
      subst h
      obtain ⟨f1, f2⟩ := foldRecs_proj (operRec .ref D T) (operRec1 g D T) (prPair g) (PairA D A0)
        (fun p r q hp hq => by
          obtain ⟨e1, e2⟩ := operRec_proj g D T p.1 p.2 hp.1.1 hg r q hq
          exact ⟨e1, (operRec_refines D T p.1 p.2 hp.1.1 hp.1.2 r).2 q hq, by rw [e2]; exact hp.2⟩)
        recs (s, b) r ⟨⟨hw, hb⟩, hA⟩ hf
      first
        | (change foldRecs _ (proj g s, b) recs = _ at f1; rw [f1]; rfl)
        | exact f2.2
  | regScalar op recs =>
    simp only [kwStep, kwStep1] at h ⊢
    cases hf : foldRecs (regScalarRec .ref D T op) s recs with
    | none => rw [hf] at h; cases h
    | some r =>
      rw [hf] at h
      simp only [Option.some.injEq] at h
      subst h
      obtain ⟨f1, f2⟩ := foldRecs_proj (regScalarRec .ref D T op) (regScalarRec1 g T op) (proj g)
        (fun s => WF D s ∧ s.act = A0)
        (fun s r q hs hq => by
          obtain ⟨e1, e2⟩ := regScalarRec_proj g D T op s hs.1 hg (by rw [hs.2]; exact hact) r q hq
          exact ⟨e1, (regScalarRec_refines D T op s hs.1 r).2 q hq, by rw [e2]; exact hs.2⟩)
        recs s r ⟨hw, hA⟩ hf
      first
        | (rw [f1])
        | exact f2.2
  | copyReg recs =>
    simp only [kwStep, kwStep1] at h ⊢
    cases hf : foldRecs (copyRegRec .ref D T) s recs with
    | none => rw [hf] at h; cases h
    | some r =>
      rw [hf] at h
      simp only [Option.some.injEq] at h
      subst h
      obtain ⟨f1, f2⟩ := foldRecs_proj (copyRegRec .ref D T) (copyRegRec1 g T) (proj g)
        (fun s => WF D s ∧ s.act = A0)
        (fun s r q hs hq => by
          obtain ⟨e1, e2⟩ := copyRegRec_proj g D T s hs.1 hg r q hq
          exact ⟨e1, (copyRegRec_refines D T s hs.1 r).2 q hq, by rw [e2]; exact hs.2⟩)
        recs s r ⟨hw, hA⟩ hf
      first
        | (rw [f1])
        | exact f2.2
  | operateR recs =>
    simp only [kwStep, kwStep1] at h ⊢
    cases hf : foldRecs (operRegRec .ref D T) s recs with
    | none => rw [hf] at h; cases h
    | some r =>
      rw [hf] at h
      simp only [Option.some.injEq] at h
      subst h
      obtain ⟨f1, f2⟩ := foldRecs_proj (operRegRec .ref D T) (operRegRec1 g T) (proj g)
        (fun s => WF D s ∧ s.act = A0)
        (fun s r q hs hq => by
          obtain ⟨e1, e2⟩ := operRegRec_proj g D T s hs.1 hg (by rw [hs.2]; exact hact) r q hq
          exact ⟨e1, (operRegRec_refines D T s hs.1 r).2 q hq, by rw [e2]; exact hs.2⟩)
        recs s r ⟨hw, hA⟩ hf
      first
        | (rw [f1])
        | exact f2.2


def applyMult1 (s : St1 α) (e : String × DInfo α) : St1 α :=
  if e.2.mult then
    match sget s.dbls (multName e.1) with
    | none => s
    | some mc =>
      let p := get1D s e.1 e.2
      { p.1 with dbls := serase (sput p.1.dbls e.1 ⟨p.2.st, Scalar.mul p.2.v mc.v⟩) (multName e.1) }
  else s

theorem cellAt_mulInto (x m : Arr α) (g : Nat) (hx : g < x.length) (hm : g < m.length) :
    cellAt (mulInto x m) g = ⟨(cellAt x g).st, Scalar.mul (cellAt x g).v (cellAt m g).v⟩ := by
  simp only [cellAt, mulInto, List.getD_eq_getElem?_getD, List.getElem?_zipWith,
    List.getElem?_eq_getElem hx, List.getElem?_eq_getElem hm, Option.map_some, Option.getD_some,
    Option.bind_some]

theorem applyMult_proj (g : Nat) (D : Dims) (s : St α) (hw : WF D s) (hg : g < D.size) (e : String × DInfo α) :
    proj g (applyMult .ref D s e) = applyMult1 (proj g s) e ∧ (applyMult .ref D s e).act = s.act := by
  unfold applyMult applyMult1
  split
  · rw [proj_dbls_get]
    cases hm : sget s.dbls (multName e.1) with
    | none => exact ⟨rfl, rfl⟩
    | some marr =>
      have hlm := wfstore_sget hw.dbls hm
      simp only [Option.map_some]
      obtain ⟨hw1, hl1⟩ := getD_wf D s e.1 e.2 hw
      have ha1 := getD_act .ref D s e.1 e.2
      rw [proj_getD D s _ e.2 g hg]
      generalize getD .ref D s e.1 e.2 = p at *
      refine ⟨?_, ha1⟩
      simp only [proj, smap_serase, smap_sput, cellAt_mulInto p.2 marr g (by rw [hl1]; exact hg) (by rw [hlm]; exact hg)]
  · exact ⟨rfl, rfl⟩

theorem foldl_applyMult_proj (g : Nat) (D : Dims) (hg : g < D.size) (es : List (String × DInfo α)) (s : St α)
    (hw : WF D s) :
    proj g (es.foldl (applyMult .ref D) s) = es.foldl applyMult1 (proj g s) ∧
    (es.foldl (applyMult .ref D) s).act = s.act := by
  induction es generalizing s with
  | nil => exact ⟨rfl, rfl⟩
  | cons e es ih =>
    simp only [List.foldl_cons]
    obtain ⟨h1, h2⟩ := applyMult_proj g D s hw hg e
    obtain ⟨i1, i2⟩ := ih _ (applyMult_refines D s hw e).2
    rw [i1, h1, i2, h2]
    exact ⟨rfl, rfl⟩

def scanSection1 (g : Nat) (D : Dims) (T : Tables α) (sec : Section) (s : St1 α) (ks : List (Kw α)) :
    Option (St1 α) :=
  match foldRecs (kwStep1 g D T sec) (s, Box.global D) ks with
  | none => none
  | some r => some (if sec = .edit then T.dbl.foldl applyMult1 r.1 else r.1)

theorem scanSection_proj (g : Nat) (D : Dims) (hD : DPos D) (T : Tables α) (sec : Section)
    (hg : g < D.size) (s : St α) (hw : WF D s) (hact : isActive s.act g = true)
    (ks : List (Kw α)) (s' : St α)
    (h : scanSection .ref D T sec s ks = some s') :
    scanSection1 g D T sec (proj g s) ks = some (proj g s') ∧ WF D s' ∧ s'.act = s.act := by
  unfold scanSection at h
  unfold scanSection1
  cases hf : foldRecs (kwStep .ref D T sec) (s, Box.global D) ks with
  | none => rw [hf] at h; cases h
  | some r =>
    rw [hf] at h
    simp only [Option.some.injEq] at h
    -- fold with the side condition on the keywords: carry the remaining list in the invariant
    have key : ∀ (ks : List (Kw α)) (p q : St α × Box), PairA D s.act p →
        foldRecs (kwStep .ref D T sec) p ks = some q →
        foldRecs (kwStep1 g D T sec) (prPair g p) ks = some (prPair g q) ∧ PairA D s.act q := by
      intro ks
      induction ks with
      | nil =>
        intro p q hp hq
        simp only [foldRecs, Option.some.injEq] at hq ⊢
        subst hq
        exact ⟨rfl, hp⟩
      | cons k ks ih =>
        intro p q hp hq
        simp only [foldRecs] at hq ⊢
        cases hs : kwStep .ref D T sec p k with
        | none => rw [hs] at hq; cases hq
        | some p' =>
          rw [hs] at hq
          obtain ⟨e1, e2⟩ := kwStep_proj g D hD T sec s.act hact hg p hp k p' hs
          rw [e1]
          exact ih p' q e2 hq
    obtain ⟨f1, f2⟩ := key ks (s, Box.global D) r ⟨⟨hw, global_valid D hD⟩, rfl⟩ hf
    change foldRecs _ (proj g s, Box.global D) ks = _ at f1
    rw [f1]
    simp only [prPair]
    subst h
    by_cases he : sec = .edit
    · simp only [he, if_true, applyMultipliers]
      obtain ⟨m1, m2⟩ := foldl_applyMult_proj g D hg T.dbl r.1 f2.1.1
      rw [m1]
      exact ⟨rfl, (foldl_applyMult_refines D T.dbl r.1 f2.1.1).2, by rw [m2]; exact f2.2⟩
    · simp only [he, if_false]
      exact ⟨by first | trivial | rfl, f2.1.1, f2.2⟩

def resetActnum1 (s : St1 α) : St1 α :=
  match sget s.dbls "PORO" with
  | none => s
  | some _ => (get1I s "ACTNUM" (some 1)).1

theorem isActive_andMask (A k : List Bool) (g : Nat) (h : isActive (andMask A k) g = true) : isActive A g = true := by
  induction A generalizing k g with
  | nil => simp [andMask, isActive] at h
  | cons a as ih =>
    cases k with
    | nil => simp [andMask, isActive] at h
    | cons k0 ks =>
      cases g with
      | zero =>
        simp only [andMask, isActive_cons_zero, Bool.and_eq_true] at h
        simp [isActive_cons_zero, h.1]
      | succ g =>
        simp only [andMask, isActive_cons_succ] at h
        rw [isActive_cons_succ]
        exact ih ks g h

theorem resetActnum_proj (g : Nat) (D : Dims) (s : St α) (hg : g < D.size) :
    proj g (resetActnum .ref D s) = resetActnum1 (proj g s) ∧
    (isActive (resetActnum .ref D s).act g = true → isActive s.act g = true) := by
  unfold resetActnum resetActnum1
  rw [proj_dbls_get]
  cases hp : sget s.dbls "PORO" with
  | none => exact ⟨rfl, fun h => h⟩
  | some poro =>
    simp only [Option.map_some]
    rw [proj_getI D s _ (some 1) g hg]
    refine ⟨?_, ?_⟩
    · simp only [proj]
      rw [shrink_ref, shrink_ref, smap_id', smap_id']
    · intro h
      simp only [newAct] at h
      exact isActive_andMask _ _ g h

/-- no OPERATER keyword anywhere in the program -/
def Prog.NoOperR (P : Prog α) : Prop :=
  (∀ k ∈ P.grid, k.noOperR = true) ∧ (∀ k ∈ P.edit, k.noOperR = true) ∧ (∀ k ∈ P.props, k.noOperR = true) ∧
  (∀ k ∈ P.regions, k.noOperR = true) ∧ (∀ k ∈ P.solution, k.noOperR = true)

/-- the whole program as seen from one cell; no ACTNUM, no other cell -/
def runProg1 (g : Nat) (D : Dims) (T : Tables α) (s0 : St1 α) (P : Prog α) : Option (St1 α) :=
  match scanSection1 g D T .grid s0 P.grid with
  | none => none
  | some s1 =>
    match scanSection1 g D T .edit s1 P.edit with
    | none => none
    | some s2 =>
      match scanSection1 g D T .regions (resetActnum1 s2) P.regions with
      | none => none
      | some s3 =>
        match scanSection1 g D T .props s3 P.props with
        | none => none
        | some s4 => scanSection1 g D T .solution s4 P.solution

theorem runProg_proj (g : Nat) (D : Dims) (hD : DPos D) (T : Tables α) (hg : g < D.size)
    (s0 : St α) (hw : WF D s0) (P : Prog α) (s : St α)
    (h : runProg .ref D T s0 P = some s) (hact : isActive s.act g = true) :
    runProg1 g D T (proj g s0) P = some (proj g s) := by
  unfold runProg at h
  unfold runProg1
  cases h1 : scanSection .ref D T .grid s0 P.grid with
  | none => rw [h1] at h; cases h
  | some s1 =>
    rw [h1] at h
    simp only [] at h
    cases h2 : scanSection .ref D T .edit s1 P.edit with
    | none => rw [h2] at h; cases h
    | some s2 =>
      rw [h2] at h
      simp only [] at h
      cases h3 : scanSection .ref D T .regions (resetActnum .ref D s2) P.regions with
      | none => rw [h3] at h; cases h
      | some s3 =>
        rw [h3] at h
        simp only [] at h
        cases h4 : scanSection .ref D T .props s3 P.props with
        | none => rw [h4] at h; cases h
        | some s4 =>
          rw [h4] at h
          simp only [] at h
          -- well-formedness forwards
          have w1 := (scanSection_refines D hD T .grid s0 hw P.grid).2 s1 h1
          have w2 := (scanSection_refines D hD T .edit s1 w1 P.edit).2 s2 h2
          have wr := (resetActnum_refines D s2 w2).2
          have w3 := (scanSection_refines D hD T .regions _ wr P.regions).2 s3 h3
          have w4 := (scanSection_refines D hD T .props s3 w3 P.props).2 s4 h4
          -- the ACTNUM only changes between EDIT and REGIONS, and only shrinks: activity backwards
          have c5 := scanSection_act .ref D T .solution s4 P.solution s h
          have c4 := scanSection_act .ref D T .props s3 P.props s4 h4
          have c3 := scanSection_act .ref D T .regions _ P.regions s3 h3
          have c2 := scanSection_act .ref D T .edit s1 P.edit s2 h2
          have c1 := scanSection_act .ref D T .grid s0 P.grid s1 h1
          have hr := resetActnum_proj g D s2 hg
          have act4 : isActive s4.act g = true := by rw [← c5]; exact hact
          have act3 : isActive s3.act g = true := by rw [← c4]; exact act4
          have actr : isActive (resetActnum .ref D s2).act g = true := by rw [← c3]; exact act3
          have act2 : isActive s2.act g = true := hr.2 actr
          have act1 : isActive s1.act g = true := by rw [← c2]; exact act2
          have act0 : isActive s0.act g = true := by rw [← c1]; exact act1
          rw [(scanSection_proj g D hD T .grid hg s0 hw act0 P.grid s1 h1).1]
          simp only []
          rw [(scanSection_proj g D hD T .edit hg s1 w1 act1 P.edit s2 h2).1]
          simp only []
          rw [← hr.1, (scanSection_proj g D hD T .regions hg _ wr actr P.regions s3 h3).1]
          simp only []
          rw [(scanSection_proj g D hD T .props hg s3 w3 act3 P.props s4 h4).1]
          simp only []
          exact (scanSection_proj g D hD T .solution hg s4 w4 act4 P.solution s h).1

/-- **Independence of inactive cells, whole programs (reference semantics).**  Two accepted
runs of the same program under two ACTNUMs leave the same content (value and status) in
every array at every cell that is active at the end of both runs. -/
theorem runProg_indep_ref (D : Dims) (hD : DPos D) (T : Tables α) (P : Prog α)
    (A A' : List Bool) (hA : A.length = D.size) (hA' : A'.length = D.size) (s s' : St α)
    (h : runProg .ref D T (initSt A) P = some s) (h' : runProg .ref D T (initSt A') P = some s')
    (g : Nat) (hg : g < D.size) (hact : isActive s.act g = true) (hact' : isActive s'.act g = true) :
    proj g s = proj g s' := by
  have w : WF D (initSt A : St α) := ⟨hA, (fun p hp => by simp [initSt] at hp), (fun p hp => by simp [initSt] at hp)⟩
  have w' : WF D (initSt A' : St α) := ⟨hA', (fun p hp => by simp [initSt] at hp), (fun p hp => by simp [initSt] at hp)⟩
  have e := runProg_proj g D hD T hg _ w P s h hact
  have e' := runProg_proj g D hD T hg _ w' P s' h' hact'
  have h0 : proj g (initSt A : St α) = proj g (initSt A' : St α) := rfl
  rw [h0, e'] at e
  exact (Option.some.inj e).symm

/-- … and for the implementation (active-only arrays): the cell of global index `g` sits at
`rank t.act g` in one run and at `rank t'.act g` in the other; the contents agree for every
array present in both final states. -/
theorem runProg_indep_impl (D : Dims) (hD : DPos D) (T : Tables α) (P : Prog α)
    (A A' : List Bool) (hA : A.length = D.size) (hA' : A'.length = D.size) (t t' : St α)
    (h : runProg .impl D T (initSt A) P = some t) (h' : runProg .impl D T (initSt A') P = some t')
    (g : Nat) (hg : g < D.size) (hact : isActive t.act g = true) (hact' : isActive t'.act g = true) :
    smap (fun x => cellAt x (rank t.act g)) t.dbls = smap (fun x => cellAt x (rank t'.act g)) t'.dbls ∧
    smap (fun x => cellAt x (rank t.act g)) t.ints = smap (fun x => cellAt x (rank t'.act g)) t'.ints := by
  have w : WF D (initSt A : St α) := ⟨hA, (fun p hp => by simp [initSt] at hp), (fun p hp => by simp [initSt] at hp)⟩
  have w' : WF D (initSt A' : St α) := ⟨hA', (fun p hp => by simp [initSt] at hp), (fun p hp => by simp [initSt] at hp)⟩
  obtain ⟨r1, r2⟩ := runProg_refines D hD T (initSt A) w P
  obtain ⟨r1', r2'⟩ := runProg_refines D hD T (initSt A') w' P
  have hc : cSt (initSt A : St α) = initSt A := rfl
  have hc' : cSt (initSt A' : St α) = initSt A' := rfl
  rw [hc, h] at r1
  rw [hc', h'] at r1'
  cases hs : runProg .ref D T (initSt A) P with
  | none => rw [hs] at r1; cases r1
  | some s =>
    cases hs' : runProg .ref D T (initSt A') P with
    | none => rw [hs'] at r1'; cases r1'
    | some s' =>
      rw [hs] at r1
      rw [hs'] at r1'
      simp only [Option.map_some, Option.some.injEq] at r1 r1'
      subst r1
      subst r1'
      have ws := r2 s hs
      have ws' := r2' s' hs'
      have hact0 : isActive s.act g = true := hact
      have hact0' : isActive s'.act g = true := hact'
      have e := runProg_indep_ref D hD T P A A' hA hA' s s' hs hs' g hg hact0 hact0'
      have key : ∀ (u : St α) (_ : WF D u) (_ : isActive u.act g = true),
          smap (fun x => cellAt x (rank u.act g)) (cSt u).dbls = (proj g u).dbls ∧
          smap (fun x => cellAt x (rank u.act g)) (cSt u).ints = (proj g u).ints := by
        intro u wu au
        simp only [cSt, proj, smap_smap]
        constructor
        · apply smap_congr
          intro p hp
          exact cellAt_compress_rank u.act p.2 g (by rw [wu.dbls p hp, wu.act]) au
        · apply smap_congr
          intro p hp
          exact cellAt_compress_rank u.act p.2 g (by rw [wu.ints p hp, wu.act]) au
      obtain ⟨k1, k2⟩ := key s ws hact0
      obtain ⟨k1', k2'⟩ := key s' ws' hact0'
      have ea : (cSt s).act = s.act := rfl
      have ea' : (cSt s').act = s'.act := rfl
      rw [ea, ea', k1, k2, k1', k2', e]
      exact ⟨rfl, rfl⟩


end One
/-! ## the ACTNUM-only pre-pass -/

section PreP
variable {α : Type} [RealOps α]

theorem nactive_replicate_true (n : Nat) : nactive (List.replicate n true) = n := by
  induction n with
  | zero => rfl
  | succ n ih => simp [nactive, List.replicate_succ] at ih ⊢

/-- the ACTNUM delivered by the pre-pass covers the grid -/
theorem prepassAct_length (D : Dims) (hD : DPos D) (T : Tables α) (grid : List (Kw α)) (A : List Bool)
    (h : prepassAct D T grid = some A) : A.length = D.size := by
  unfold prepassAct at h
  try simp only [] at h
  have hw : WF D (initSt (List.replicate D.size true) : St α) :=
    ⟨by simp [initSt], (fun p hp => by simp [initSt] at hp), (fun p hp => by simp [initSt] at hp)⟩
  obtain ⟨r1, r2⟩ := scanSection_refines D hD T .grid (initSt (List.replicate D.size true)) hw (grid.filter Kw.inPrepass)
  have hc : cSt (initSt (List.replicate D.size true) : St α) = initSt (List.replicate D.size true) := rfl
  rw [hc] at r1
  rw [← r1] at h
  cases hs : scanSection .ref D T .grid (initSt (List.replicate D.size true)) (grid.filter Kw.inPrepass) with
  | none => rw [hs] at h; cases h
  | some s =>
    rw [hs] at h
    simp only [Option.map_some, cSt_ints_get] at h
    have ws := r2 s hs
    have ha := scanSection_act .ref D T .grid _ _ s hs
    cases hg : sget s.ints "ACTNUM" with
    | none =>
      rw [hg] at h
      simp only [Option.map_none, Option.some.injEq] at h
      subst h
      simp
    | some a =>
      rw [hg] at h
      simp only [Option.map_some, Option.some.injEq] at h
      subst h
      have hl := wfstore_sget ws.ints hg
      simp only [List.length_map]
      rw [compress_length s.act a (by rw [hl, ws.act]), ha]
      exact nactive_replicate_true D.size

/-- **`EclipseState(deck)` as a whole (pre-pass + constructor + observation) under both semantics** -/
theorem runDeck_refines (D : Dims) (hD : DPos D) (T : Tables α) (P : Prog α) :
    runDeck .ref D T P = runDeck .impl D T P := by
  unfold runDeck
  cases h : prepassAct D T P.grid with
  | none => rfl
  | some A => exact runObserveG_refines D hD T A (prepassAct_length D hD T P.grid A h) P


end PreP

end OpmVerif.FieldProps
