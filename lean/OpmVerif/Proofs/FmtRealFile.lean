/-
  End to end for DOUB arrays inside a formatted file: index, buffer of size+1 characters,
  tokenizer, the DOUB lambda's normalisation and the decimal front end of `strtod`.
-/
import OpmVerif.Proofs.EclFmtFile
import OpmVerif.Proofs.FmtReal

namespace OpmVerif.FmtReal
open OpmVerif.EclFmt OpmVerif.Strtod

theorem padTo_take_eq (b r : List Char) :
    padTo (b.length + 1) ((b ++ r).take (b.length + 1)) =
      b ++ (r.take 1 ++ List.replicate (1 - (r.take 1).length) (Char.ofNat 0)) := by
  have : (b ++ r).take (b.length + 1) = b ++ r.take 1 := by
    simp [List.take_append, List.take_of_length_le]
  rw [this, EclFmt.padTo, List.append_assoc]
  congr 2
  rw [List.length_append]
  generalize (List.take 1 r).length = k
  generalize b.length = n
  congr 1; omega

theorem encode_head (a : FArr) (rest : List Char) : ∃ x, a.encode ++ rest = ' ' :: x := by
  unfold FArr.encode fmtHeader Unrst.fmtHeader
  simp only [List.cons_append, List.append_assoc, List.nil_append]
  exact ⟨_, rfl⟩

/-- what follows an array in a file of arrays is plain for the tokenizer. -/
theorem file_tail_plain (rest : List FArr) :
    PlainExtra ('\n' :: tokOf ((encodeFmtFile rest).take 1 ++
      List.replicate (1 - ((encodeFmtFile rest).take 1).length) (Char.ofNat 0))) := by
  cases rest with
  | nil => exact plain_tail_eof
  | cons a as =>
    obtain ⟨x, hx⟩ := encode_head a (encodeFmtFile as)
    have : encodeFmtFile (a :: as) = ' ' :: x := by
      simp only [encodeFmtFile, List.flatMap_cons] at hx ⊢; exact hx
    rw [this]
    exact plain_tail_header []

/-- **DOUB array inside a file**: whatever arrays follow (or none), the numbers recognised are
the printed ones. -/
theorem doub_entry_numbers (a : FArr) (scis : List Sci) (hs : ∀ s ∈ scis, SciOk 13 s)
    (ht : a.t = .doub) (hf : a.fields = scis.map fun s => doubField (eclDoub s)) (rest : List FArr) (pos : Nat) :
    ∃ toks, loadEntry ⟨a.name, (a.size : Int), a.t,
        padTo (a.body.length + 1) ((a.body ++ encodeFmtFile rest).take (a.body.length + 1)), pos⟩ =
          some (.toks toks) ∧
      toks.map tokenNumber = scis.map sciNumber := by
  rw [padTo_take_eq]
  have hb : a.body = numericBody .doub (scis.map fun s => doubField (eclDoub s)) := by
    unfold FArr.body; rw [ht, hf]
  have hsz : a.size = scis.length := by unfold FArr.size; rw [ht, hf, List.length_map]
  obtain ⟨toks, hp, hn⟩ := doub_array_numbers scis hs _ (file_tail_plain rest)
  refine ⟨toks, ?_, hn⟩
  unfold EclFmt.loadEntry
  have hnn : ¬ ((a.size : Int) < 0) := by omega
  simp only [ht, reduceCtorEq, if_false, hnn, Int.toNat_natCast, hsz, hb]
  exact hp


/-- **REAL array inside a file** (ECL flavour). -/
theorem real_entry_numbers (a : FArr) (scis : List Sci) (hs : ∀ s ∈ scis, SciOk 7 s ∧ s.exp.natAbs < 98)
    (ht : a.t = .real) (hf : a.fields = scis.map fun s => realField (eclReal s)) (rest : List FArr) (pos : Nat) :
    ∃ toks, loadEntry ⟨a.name, (a.size : Int), a.t,
        padTo (a.body.length + 1) ((a.body ++ encodeFmtFile rest).take (a.body.length + 1)), pos⟩ =
          some (.toks toks) ∧
      toks.map tokenNumber = scis.map sciNumberReal := by
  rw [padTo_take_eq]
  have hb : a.body = numericBody .real (scis.map fun s => realField (eclReal s)) := by
    unfold FArr.body; rw [ht, hf]
  have hsz : a.size = scis.length := by unfold FArr.size; rw [ht, hf, List.length_map]
  obtain ⟨toks, hp, hn⟩ := real_array_numbers scis hs _ (file_tail_plain rest)
  refine ⟨toks, ?_, hn⟩
  unfold EclFmt.loadEntry
  have hnn : ¬ ((a.size : Int) < 0) := by omega
  simp only [ht, reduceCtorEq, if_false, hnn, Int.toNat_natCast, hsz, hb]
  exact hp

end OpmVerif.FmtReal
