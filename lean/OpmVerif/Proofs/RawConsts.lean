/-
  Translator tie: the predicates the models use are exactly the tables and constants of
  RawConsts.hpp / DeckOutput.hpp as they are in the source tree now (`Gen/RawConsts.lean`
  is regenerated on every run).
-/
import OpmVerif.Gen.RawConsts
import OpmVerif.Model.DeckWrite

namespace OpmVerif.Lex
open OpmVerif.Gen

theorem sepTable_length : RawConsts.sepTable.length = 128 := by decide +kernel
theorem qTable_length : RawConsts.qTable.length = 128 := by decide +kernel

/-- `is_separator` of the code (`sep_table[ch & 0x7f]`) is the model's `isSep`. -/
theorem isSep_eq_table (b : UInt8) :
    RawConsts.sepTable[b.toNat % 128]? = some (isSep b) := by
  unfold isSep
  have key : ∀ n, n < 256 → RawConsts.sepTable[n % 128]? = some (sepCode (n % 128)) := by decide +kernel
  exact key _ b.toNat_lt

/-- `is_quote` of the code (`q_table[ch & 0x7f]`) is the model's `isQuote`. -/
theorem isQuote_eq_table (b : UInt8) :
    RawConsts.qTable[b.toNat % 128]? = some (isQuote b) := by
  unfold isQuote
  have key : ∀ n, n < 256 → RawConsts.qTable[n % 128]? = some (quoteCode (n % 128)) := by decide +kernel
  exact key _ b.toNat_lt

theorem consts_eq : RawConsts.slash = cSlash.toNat ∧ RawConsts.quote = cQuote.toNat ∧
    RawConsts.maxKeywordLength = 8 := by decide

/-- DeckOutput::format as the writer model assumes it. -/
theorem output_format_eq : RawConsts.outItemSep = [32] ∧ RawConsts.outRecordIndent = [32] ∧
    RawConsts.outKeywordSep = [] ∧ RawConsts.outColumns = OpmVerif.DeckWrite.columns := by decide

/-- every code keyword of the source tree has a non-empty end string without a newline —
the hypothesis of `cleanSlow_length_le` (the destination buffer of `clean` is not overrun). -/
theorem codeKeywords_ok : ∀ kw ∈ RawConsts.codeKeywords, kw.2 ≠ [] ∧ ∀ b ∈ kw.2, b ≠ 10 := by decide

/-- no code keyword has an empty name (a round of `clean` that copies a block consumes input). -/
theorem codeKeywords_names : ∀ kw ∈ RawConsts.codeKeywords, kw.1 ≠ [] := by decide

end OpmVerif.Lex
