/-
  The size classes of raw keywords on written records (second round): what the fold of
  `stepRec` over the token lists of the written records does to the `RawKeyword` state —
  pure state-machine facts — and, combined with `feedLines_records`, the line-level round
  trip of keyword assembly for

    slash terminated (WELSPECS, COMPDAT; raw strings: UDQ, ACTIONX)   records, then `/`
    fixed size (EQUIL with EQLDIMS, PORO = 1 record, INCLUDE)          exactly n records
    table collection (PVTO, PVTG)                                      tables separated by the
                                                                       empty record, then `/`
    double slash (double-record keywords)                              blocks ended by an empty
                                                                       record, then `/`
    unknown size (VFPPROD, …)                                          records up to the next
                                                                       keyword / end of input
-/
import OpmVerif.Proofs.KwWritten

namespace OpmVerif.RawKw
open OpmVerif.Lex OpmVerif.Tok OpmVerif.Scan OpmVerif.DeckWrite

theorem addRecord_records (k : Kw) (t : List Bytes) : (k.addRecord t).records = k.records ++ [t] := by
  unfold Kw.addRecord
  by_cases ht : t.length > 0 <;> simp only [ht, ↓reduceIte] <;> split <;> simp

theorem stepRec_nonempty (k : Kw) (t : List Bytes) (h : t ≠ []) : stepRec k t = k.addRecord t := by
  unfold stepRec
  cases t with
  | nil => exact absurd rfl h
  | cons _ _ => simp

theorem noEarly_cons (k : Kw) (t : List Bytes) (ts : List (List Bytes)) (hts : ts ≠ [])
    (h1 : (stepRec k t).finished = false) (h2 : NoEarly (stepRec k t) ts) : NoEarly k (t :: ts) := by
  cases ts with
  | nil => exact absurd rfl hts
  | cons u us => exact ⟨h1, h2⟩

/-- result of a run: the final state is finished, holds the records that were fed (without
the closing `/`), and no earlier record finished the keyword. -/
structure RunOk (k : Kw) (tss : List (List Bytes)) (closing : Bool) : Prop where
  noEarly : NoEarly k (tss ++ if closing then [[]] else [])
  fin : ((tss ++ if closing then [[]] else []).foldl stepRec k).finished = true
  recs : ((tss ++ if closing then [[]] else []).foldl stepRec k).records = k.records ++ tss

/-! ### slash terminated -/

structure IsSlash (k : Kw) : Prop where
  st : k.sizeType = .slashTerminated
  fs : k.fixedSize = 0
  fin : k.finished = false

theorem isSlash_addRecord {k : Kw} (h : IsSlash k) (t : List Bytes) : IsSlash (k.addRecord t) := by
  obtain ⟨hst, hfs, hfin⟩ := h
  unfold Kw.addRecord
  by_cases ht : t.length > 0
  · simp only [ht, ↓reduceIte, hst]; constructor <;> simp [hst, hfs, hfin]
  · simp only [ht, ↓reduceIte, hst]; constructor <;> simp [hst, hfs, hfin]

theorem runOk_slash : ∀ (tss : List (List Bytes)) (k : Kw), IsSlash k → (∀ t ∈ tss, t ≠ []) → RunOk k tss true := by
  intro tss
  induction tss with
  | nil =>
    intro k hk _
    have hfin : (stepRec k []).finished = true := by
      unfold stepRec Kw.terminate; simp [hk.st]
    have hrec : (stepRec k []).records = k.records := by
      unfold stepRec Kw.terminate; simp [hk.st]
    exact ⟨by simp [NoEarly], by simpa using hfin, by simpa using hrec⟩
  | cons t ts ih =>
    intro k hk h
    have ht : t ≠ [] := h t (by simp)
    have hk' := isSlash_addRecord hk t
    obtain ⟨h1, h2, h3⟩ := ih (k.addRecord t) hk' (fun x hx => h x (by simp [hx]))
    refine ⟨?_, ?_, ?_⟩
    · simp only [List.cons_append, ↓reduceIte] at h1 ⊢
      exact noEarly_cons k t _ (by simp) (by rw [stepRec_nonempty k t ht]; exact hk'.fin)
        (by rw [stepRec_nonempty k t ht]; exact h1)
    · simpa [stepRec_nonempty k t ht] using h2
    · simp only [List.cons_append, List.foldl_cons, stepRec_nonempty k t ht] at h3 ⊢
      rw [h3, addRecord_records]; simp

/-! ### fixed size -/

structure IsFixed (k : Kw) (n : Nat) : Prop where
  st : k.sizeType = .fixed
  fs : k.fixedSize = n
  fin : k.finished = false

theorem runOk_fixed : ∀ (tss : List (List Bytes)) (k : Kw) (n : Nat), IsFixed k n → tss ≠ [] →
    (∀ t ∈ tss, t ≠ []) → k.records.length + tss.length = n → RunOk k tss false := by
  intro tss
  induction tss with
  | nil => intro k n _ h; exact absurd rfl h
  | cons t ts ih =>
    intro k n hk _ h hlen
    have ht : t ≠ [] := h t (by simp)
    have hrecs := addRecord_records k t
    cases ts with
    | nil =>
      have hfin : (k.addRecord t).finished = true := by
        have hl : k.records.length + 1 = n := by simpa using hlen
        unfold Kw.addRecord
        by_cases htl : t.length > 0
        · simp only [htl, ↓reduceIte]; simp [hk.st, hk.fs, hl]
        · simp only [htl, ↓reduceIte]; simp [hk.st, hk.fs, hl]
      exact ⟨by simp [NoEarly], by simpa [stepRec_nonempty k t ht] using hfin,
        by simpa [stepRec_nonempty k t ht] using hrecs⟩
    | cons u us =>
      have hnf : (k.addRecord t).finished = false := by
        have hl : k.records.length + 1 ≠ n := by simp at hlen; omega
        unfold Kw.addRecord
        by_cases htl : t.length > 0
        · simp only [htl, ↓reduceIte]; simp [hk.st, hk.fs, hk.fin, hl]
        · simp only [htl, ↓reduceIte]; simp [hk.st, hk.fs, hk.fin, hl]
      have hk' : IsFixed (k.addRecord t) n := by
        refine ⟨?_, ?_, hnf⟩
        · unfold Kw.addRecord; by_cases htl : t.length > 0 <;> simp only [htl, ↓reduceIte] <;> split <;> simp [hk.st]
        · unfold Kw.addRecord; by_cases htl : t.length > 0 <;> simp only [htl, ↓reduceIte] <;> split <;> simp [hk.fs]
      obtain ⟨h1, h2, h3⟩ := ih (k.addRecord t) n hk' (by simp) (fun x hx => h x (by simp [hx]))
        (by rw [hrecs]; simp at hlen ⊢; omega)
      refine ⟨?_, ?_, ?_⟩
      · simp only [Bool.false_eq_true, ↓reduceIte, List.append_nil] at h1 ⊢
        exact noEarly_cons k t _ (by simp) (by rw [stepRec_nonempty k t ht]; exact hnf)
          (by rw [stepRec_nonempty k t ht]; exact h1)
      · simpa [stepRec_nonempty k t ht] using h2
      · simp only [Bool.false_eq_true, ↓reduceIte, List.append_nil, List.foldl_cons, stepRec_nonempty k t ht] at h3 ⊢
        rw [h3, hrecs]; simp

/-- a fixed-size keyword without a smaller minimum size (`min_size` absent: EQUIL, PVTW, …) is
not terminated by a bare `/`: `terminateKeyword` does nothing below the minimum size, and the
`/` is then read as an empty record.  So records of defaults only come back as such — the
finding `C19.alldefault_record` does not concern these keywords. -/
theorem stepRec_fixed_below_min (k : Kw) (n : Nat) (hk : IsFixed k n) (hmin : k.minSize = n)
    (hlt : k.records.length < n) (t : List Bytes) : stepRec k t = k.addRecord t := by
  by_cases ht : t = []
  · subst ht
    have hterm : k.terminate = k := by
      unfold Kw.terminate
      have : ¬ (k.records.length ≥ k.minSize) := by rw [hmin]; omega
      simp [hk.st, this]
    unfold stepRec
    simp [hterm, hk.fin]
  · exact stepRec_nonempty k t ht

theorem runOk_fixed_min : ∀ (tss : List (List Bytes)) (k : Kw) (n : Nat), IsFixed k n → k.minSize = n → tss ≠ [] →
    k.records.length + tss.length = n → RunOk k tss false := by
  intro tss
  induction tss with
  | nil => intro k n _ _ h; exact absurd rfl h
  | cons t ts ih =>
    intro k n hk hmin _ hlen
    have hlt : k.records.length < n := by simp at hlen; omega
    have hs := stepRec_fixed_below_min k n hk hmin hlt t
    have hrecs := addRecord_records k t
    have hmin' : (k.addRecord t).minSize = n := by
      rw [← hmin]; unfold Kw.addRecord
      by_cases htl : t.length > 0 <;> simp only [htl, ↓reduceIte] <;> split <;> rfl
    cases ts with
    | nil =>
      have hfin : (k.addRecord t).finished = true := by
        have hl : k.records.length + 1 = n := by simpa using hlen
        unfold Kw.addRecord
        by_cases htl : t.length > 0
        · simp only [htl, ↓reduceIte]; simp [hk.st, hk.fs, hl]
        · simp only [htl, ↓reduceIte]; simp [hk.st, hk.fs, hl]
      exact ⟨by simp [NoEarly], by simpa [hs] using hfin, by simpa [hs] using hrecs⟩
    | cons u us =>
      have hnf : (k.addRecord t).finished = false := by
        have hl : k.records.length + 1 ≠ n := by simp at hlen; omega
        unfold Kw.addRecord
        by_cases htl : t.length > 0
        · simp only [htl, ↓reduceIte]; simp [hk.st, hk.fs, hk.fin, hl]
        · simp only [htl, ↓reduceIte]; simp [hk.st, hk.fs, hk.fin, hl]
      have hk' : IsFixed (k.addRecord t) n := by
        refine ⟨?_, ?_, hnf⟩
        · unfold Kw.addRecord; by_cases htl : t.length > 0 <;> simp only [htl, ↓reduceIte] <;> split <;> simp [hk.st]
        · unfold Kw.addRecord; by_cases htl : t.length > 0 <;> simp only [htl, ↓reduceIte] <;> split <;> simp [hk.fs]
      obtain ⟨h1, h2, h3⟩ := ih (k.addRecord t) n hk' hmin' (by simp) (by rw [hrecs]; simp at hlen ⊢; omega)
      refine ⟨?_, ?_, ?_⟩
      · simp only [Bool.false_eq_true, ↓reduceIte, List.append_nil] at h1 ⊢
        exact noEarly_cons k t _ (by simp) (by rw [hs]; exact hnf) (by rw [hs]; exact h1)
      · simpa [hs] using h2
      · simp only [Bool.false_eq_true, ↓reduceIte, List.append_nil, List.foldl_cons, hs] at h3 ⊢
        rw [h3, hrecs]; simp

/-! ### table collection -/

structure IsTable (k : Kw) : Prop where
  st : k.sizeType = .tableCollection
  fs : k.fixedSize = 0
  fin : k.finished = false

def emptyCount (tss : List (List Bytes)) : Nat := (tss.filter (·.isEmpty)).length

theorem isTable_addRecord {k : Kw} (h : IsTable k) (t : List Bytes) :
    IsTable (k.addRecord t) ∧ (k.addRecord t).curTables = k.curTables ∧ (k.addRecord t).numTables = k.numTables := by
  obtain ⟨hst, hfs, hfin⟩ := h
  unfold Kw.addRecord
  by_cases ht : t.length > 0
  · simp only [ht, ↓reduceIte, hst]; refine ⟨⟨?_, ?_, ?_⟩, ?_, ?_⟩ <;> simp [hst, hfs, hfin]
  · simp only [ht, ↓reduceIte, hst]; refine ⟨⟨?_, ?_, ?_⟩, ?_, ?_⟩ <;> simp [hst, hfs, hfin]

theorem table_terminate {k : Kw} (h : IsTable k) :
    k.terminate.curTables = k.curTables + 1 ∧ k.terminate.numTables = k.numTables ∧
    k.terminate.records = k.records ∧ k.terminate.sizeType = .tableCollection ∧ k.terminate.fixedSize = 0 ∧
    k.terminate.finished = (k.curTables + 1 == k.numTables) := by
  unfold Kw.terminate
  simp [h.st, h.fs, h.fin]

theorem runOk_table : ∀ (tss : List (List Bytes)) (k : Kw), IsTable k →
    k.curTables + emptyCount tss + 1 = k.numTables → RunOk k tss true := by
  intro tss
  induction tss with
  | nil =>
    intro k hk hc
    obtain ⟨h1, _, h3, _, _, h6⟩ := table_terminate hk
    have hfin : k.terminate.finished = true := by
      rw [h6]; simp [emptyCount] at hc; simp [hc]
    have hs : stepRec k [] = k.terminate := by unfold stepRec; simp [hfin]
    exact ⟨by simp [NoEarly], by simpa [hs] using hfin, by simpa [hs] using h3⟩
  | cons t ts ih =>
    intro k hk hc
    by_cases ht : t = []
    · subst ht
      obtain ⟨h1, h2, h3, h4, h5, h6⟩ := table_terminate hk
      have hec : emptyCount ([] :: ts) = emptyCount ts + 1 := by simp [emptyCount]
      have hnf : k.terminate.finished = false := by
        rw [h6]; rw [hec] at hc
        have : k.curTables + 1 ≠ k.numTables := by omega
        simp [this]
      have hkt : IsTable k.terminate := ⟨h4, h5, hnf⟩
      have hs : stepRec k [] = k.terminate.addRecord [] := by unfold stepRec; simp [hnf]
      obtain ⟨hk', hc', hn'⟩ := isTable_addRecord hkt []
      obtain ⟨g1, g2, g3⟩ := ih (k.terminate.addRecord []) hk' (by rw [hc', hn', h1, h2]; rw [hec] at hc; omega)
      refine ⟨?_, ?_, ?_⟩
      · simp only [List.cons_append, ↓reduceIte] at g1 ⊢
        exact noEarly_cons k [] _ (by simp) (by rw [hs]; exact hk'.fin) (by rw [hs]; exact g1)
      · simpa [hs] using g2
      · simp only [List.cons_append, List.foldl_cons, hs] at g3 ⊢
        rw [g3, addRecord_records, h3]; simp
    · obtain ⟨hk', hc', hn'⟩ := isTable_addRecord hk t
      have hec : emptyCount (t :: ts) = emptyCount ts := by
        cases t with
        | nil => exact absurd rfl ht
        | cons _ _ => simp [emptyCount]
      obtain ⟨g1, g2, g3⟩ := ih (k.addRecord t) hk' (by rw [hc', hn']; rw [hec] at hc; exact hc)
      refine ⟨?_, ?_, ?_⟩
      · simp only [List.cons_append, ↓reduceIte] at g1 ⊢
        exact noEarly_cons k t _ (by simp) (by rw [stepRec_nonempty k t ht]; exact hk'.fin)
          (by rw [stepRec_nonempty k t ht]; exact g1)
      · simpa [stepRec_nonempty k t ht] using g2
      · simp only [List.cons_append, List.foldl_cons, stepRec_nonempty k t ht] at g3 ⊢
        rw [g3, addRecord_records]; simp

/-! ### double slash -/

structure IsDbl (k : Kw) : Prop where
  st : k.sizeType = .doubleSlash
  fs : k.fixedSize = 0
  fin : k.finished = false

/-- the blocks of a double-record keyword as they stand in the Deck: no two empty records in
a row, and the last record is the empty one that closes the last block (`tf`: the previous
record was empty). -/
def DblOk : Bool → List (List Bytes) → Prop
  | tf, [] => tf = true
  | tf, t :: ts => if t.isEmpty then tf = false ∧ DblOk true ts else DblOk false ts

instance instDecDblOk : (tf : Bool) → (tss : List (List Bytes)) → Decidable (DblOk tf tss)
  | tf, [] => inferInstanceAs (Decidable (tf = true))
  | tf, t :: ts =>
    if h : t.isEmpty = true then
      have : Decidable (DblOk true ts) := instDecDblOk true ts
      decidable_of_iff (tf = false ∧ DblOk true ts) (by simp [DblOk, h])
    else
      have : Decidable (DblOk false ts) := instDecDblOk false ts
      decidable_of_iff (DblOk false ts) (by simp [DblOk, h])

theorem runOk_dbl : ∀ (tss : List (List Bytes)) (k : Kw), IsDbl k → DblOk k.tempFinished tss → RunOk k tss true := by
  intro tss
  induction tss with
  | nil =>
    intro k hk hd
    have htf : k.tempFinished = true := hd
    have hfin : k.terminate.finished = true := by unfold Kw.terminate; simp [hk.st, htf]
    have hrec : k.terminate.records = k.records := terminate_records k
    have hs : stepRec k [] = k.terminate := by unfold stepRec; simp [hfin]
    exact ⟨by simp [NoEarly], by simpa [hs] using hfin, by simpa [hs] using hrec⟩
  | cons t ts ih =>
    intro k hk hd
    by_cases ht : t = []
    · subst ht
      have hd' : k.tempFinished = false ∧ DblOk true ts := by simpa [DblOk] using hd
      have hterm : k.terminate = { k with tempFinished := true } := by
        unfold Kw.terminate; simp [hk.st, hd'.1]
      have hnf : k.terminate.finished = false := by rw [hterm]; exact hk.fin
      have hs : stepRec k [] = k.terminate.addRecord [] := by unfold stepRec; simp [hnf]
      have hadd : k.terminate.addRecord [] = { k with tempFinished := true, records := k.records ++ [[]] } := by
        rw [hterm]; unfold Kw.addRecord; simp [hk.st]
      have hk' : IsDbl (k.terminate.addRecord []) := by
        rw [hadd]; exact ⟨hk.st, hk.fs, hk.fin⟩
      obtain ⟨g1, g2, g3⟩ := ih (k.terminate.addRecord []) hk' (by rw [hadd]; exact hd'.2)
      refine ⟨?_, ?_, ?_⟩
      · simp only [List.cons_append, ↓reduceIte] at g1 ⊢
        exact noEarly_cons k [] _ (by simp) (by rw [hs]; exact hk'.fin) (by rw [hs]; exact g1)
      · simpa [hs] using g2
      · simp only [List.cons_append, List.foldl_cons, hs] at g3 ⊢
        rw [g3, hadd]; simp
    · have hd' : DblOk false ts := by
        cases t with
        | nil => exact absurd rfl ht
        | cons _ _ => simpa [DblOk] using hd
      have hlen : t.length > 0 := by cases t with
        | nil => exact absurd rfl ht
        | cons _ _ => simp
      have hadd : k.addRecord t = { k with tempFinished := false, records := k.records ++ [t] } := by
        unfold Kw.addRecord; simp [hlen, hk.st]
      have hk' : IsDbl (k.addRecord t) := by rw [hadd]; exact ⟨hk.st, hk.fs, hk.fin⟩
      obtain ⟨g1, g2, g3⟩ := ih (k.addRecord t) hk' (by rw [hadd]; exact hd')
      refine ⟨?_, ?_, ?_⟩
      · simp only [List.cons_append, ↓reduceIte] at g1 ⊢
        exact noEarly_cons k t _ (by simp) (by rw [stepRec_nonempty k t ht]; exact hk'.fin)
          (by rw [stepRec_nonempty k t ht]; exact g1)
      · simpa [stepRec_nonempty k t ht] using g2
      · simp only [List.cons_append, List.foldl_cons, stepRec_nonempty k t ht] at g3 ⊢
        rw [g3, hadd]; simp

/-! ### the keyword-level statement at line level -/

/-- **the written records of a keyword are assembled into exactly those records**: for any
size class whose run on the token lists is `RunOk` (see `runOk_slash`, `runOk_fixed`,
`runOk_table`, `runOk_dbl`), with or without the 7-column split, ordinary or raw-string
keyword: the cleaned lines of the written records (and of the closing `/` if the keyword is
written with one) are consumed, the raw keyword is finished and holds the token lists that
were written, and the lines that follow are left for the next keyword. -/
theorem feedLines_written_kw (recog : Bytes → Bool) (k : Kw) (split closing : Bool) (tss : List (List Bytes))
    (rest : List Bytes) (hne : tss ≠ [] ∨ closing = true)
    (hrun : RunOk k tss closing)
    (hok : ∀ ts ∈ tss, RecOk recog k.raw (chunksOf split ts))
    (hslash : closing = true → recog [47] = false) :
    ∃ kf, feedLines recog k [] [] (((tss ++ if closing then [[]] else []).map (chunksOf split)).flatMap recLines ++ rest) =
        some (kf, rest) ∧ kf.finished = true ∧ kf.records = k.records ++ tss := by
  have hmap : ((tss ++ if closing then [[]] else []).map (chunksOf split)).map List.flatten =
      tss ++ if closing then [[]] else [] := by
    rw [List.map_map]
    have : (List.flatten ∘ chunksOf split) = id := by
      funext ts; exact chunksOf_flatten split ts
    rw [this, List.map_id]
  have hrec := feedLines_records recog rest ((tss ++ if closing then [[]] else []).map (chunksOf split)) k
    (by
      intro cs hcs raw hraw
      subst hraw
      obtain ⟨ts, hts, rfl⟩ := List.mem_map.mp hcs
      rcases List.mem_append.mp hts with h | h
      · exact hok ts h
      · cases closing with
        | false => simp at h
        | true =>
          simp at h; subst h
          refine ⟨by simp [chunksOf], by simp [chunksOf], by simp [chunksOf], ?_⟩
          intro l hl
          simp [chunksOf, recLines] at hl
          subst hl
          have hdn : makeDeckName [47] = [47] := by decide
          rw [hdn]; exact hslash rfl)
    (by rw [hmap]; exact hrun.noEarly)
    stepRec_raw
  rw [hmap] at hrec
  refine ⟨(tss ++ if closing then [[]] else []).foldl stepRec k, ?_, hrun.fin, hrun.recs⟩
  rw [hrec]
  cases hcss : (tss ++ if closing then [[]] else []).map (chunksOf split) with
  | nil =>
    exfalso
    have : tss ++ (if closing then [[]] else []) = [] := by simpa using hcss
    rcases hne with h | h
    · exact h (List.append_eq_nil_iff.mp this).1
    · subst h; simp at this
  | cons c cs => simp only [hrun.fin, ↓reduceIte]

end OpmVerif.RawKw
