/-
  Keyword level round trip for slash-terminated keywords (WELSPECS, COMPDAT, …):
  the lines `DeckKeyword::write` produces — one line per record, then `/` — are assembled
  by `tryParseKeyword`'s line loop into a raw keyword whose records are exactly the token
  lists the writer emitted, and the keyword is finished.
-/
import OpmVerif.Proofs.RawKw
import OpmVerif.Proofs.Relayout
import OpmVerif.Proofs.DeckWrite

namespace OpmVerif.RawKw
open OpmVerif.Lex OpmVerif.Tok OpmVerif.Scan OpmVerif.DeckWrite

/-- a token that is safe inside a record line: the tokeniser returns it as it stands, it
has an even number of `'`, and the quote-aware scans of `find_terminator` pass over it
without meeting `/` or `--` and end outside quotes. -/
def LineSafe (t : Bytes) : Prop :=
  Atomic t ∧ evenQuotes t = true ∧ endState isSlashAt none t = some none ∧
    endState isCommentAt none t = some none

/-- the cleaned line of one written record: tokens joined by blanks, ` /`. -/
def recordLine (toks : List Bytes) : Bytes := joinBlank toks ++ [32, 47]

/-- the quote-aware scan passes over a blank-joined list of safe tokens. -/
theorem endState_joinBlank {isT : Bytes → Bool} (hloc : Local2 isT)
    (hblank : ∀ c m, isT [c] = false → isT (c :: 32 :: m) = false) (hT32 : ∀ m, isT (32 :: m) = false) :
    ∀ (toks : List Bytes), (∀ t ∈ toks, endState isT none t = some none) →
      endState isT none (joinBlank toks) = some none := by
  intro toks
  induction toks with
  | nil => intro _; rfl
  | cons t ts ih =>
    intro h
    cases ts with
    | nil => simpa [joinBlank] using h t (by simp)
    | cons u us =>
      have ht := h t (by simp)
      have e : joinBlank (t :: u :: us) = t ++ 32 :: joinBlank (u :: us) := by simp [joinBlank]
      rw [e, endState_append hloc _ t none none ht (by intro c _ hc; exact hblank c _ hc)]
      simp only [endState, hT32, Bool.false_eq_true, ↓reduceIte, stepQ]
      have : isQuote 32 = false := by decide
      simp only [this, Bool.false_eq_true, ↓reduceIte]
      exact ih (fun x hx => h x (by simp [hx]))

theorem evenQuotes_joinBlank : ∀ (toks : List Bytes), (∀ t ∈ toks, evenQuotes t = true) →
    evenQuotes (joinBlank toks) = true := by
  intro toks
  induction toks with
  | nil => intro _; rfl
  | cons t ts ih =>
    intro h
    cases ts with
    | nil => simpa [joinBlank] using h t (by simp)
    | cons u us =>
      have e : joinBlank (t :: u :: us) = t ++ ([32] ++ joinBlank (u :: us)) := by simp [joinBlank]
      rw [e]
      exact evenQuotes_append _ _ (h t (by simp))
        (evenQuotes_append _ _ (by decide) (ih (fun x hx => h x (by simp [hx]))))

theorem joinBlank_ne_nil : ∀ (toks : List Bytes), toks ≠ [] → (∀ t ∈ toks, t ≠ []) → joinBlank toks ≠ [] := by
  intro toks hne h
  cases toks with
  | nil => exact absurd rfl hne
  | cons t ts =>
    have ht := h t (by simp)
    cases ts with
    | nil => simpa [joinBlank] using ht
    | cons u us =>
      simp only [joinBlank]
      cases t with
      | nil => exact absurd rfl ht
      | cons _ _ => simp

theorem atomic_ne_nil {t : Bytes} (h : Atomic t) : t ≠ [] := by
  rcases h with h | ⟨body, rfl, _⟩
  · exact h.1
  · simp

/-- a slash-terminated keyword that is still open. -/
structure OpenSlashKw (k : Kw) : Prop where
  st : k.sizeType = .slashTerminated
  raw : k.raw = false
  fs : k.fixedSize = 0
  fin : k.finished = false

theorem openSlash_addRecord {k : Kw} (h : OpenSlashKw k) (toks : List Bytes) : OpenSlashKw (k.addRecord toks) := by
  obtain ⟨hst, hraw, hfs, hfin⟩ := h
  unfold Kw.addRecord
  by_cases ht : toks.length > 0
  · simp only [ht, ↓reduceIte, hst]
    constructor <;> simp [hst, hraw, hfs, hfin]
  · simp only [ht, ↓reduceIte, hst]
    constructor <;> simp [hst, hraw, hfs, hfin]

theorem openSlash_canComplete {k : Kw} (h : OpenSlashKw k) : k.canComplete = false := by
  unfold Kw.canComplete
  simp [h.st, h.fs]

theorem recordLine_eq (toks : List Bytes) : recordLine toks = (joinBlank toks ++ [32]) ++ [47] := by
  simp [recordLine]

theorem noSlash_prefix (toks : List Bytes) (hsafe : ∀ t ∈ toks, LineSafe t) :
    BalancedNoSlash (joinBlank toks ++ [32]) := by
  unfold BalancedNoSlash
  have h1 := endState_joinBlank local2_slash (isT := isSlashAt)
    (by intro c m h; simpa [isSlashAt] using h) (by intro m; simp [isSlashAt])
    toks (fun t ht => (hsafe t ht).2.2.1)
  rw [endState_append local2_slash [32] _ none none h1 (by intro c _ h; simpa [isSlashAt] using h)]
  decide

/-- one written record line fed to the line loop of a slash-terminated keyword adds exactly
its tokens as a record and leaves the record buffer empty. -/
theorem feedLine_recordLine (recog : Bytes → Bool) (k : Kw) (hk : OpenSlashKw k)
    (toks : List Bytes) (hne : toks ≠ []) (hsafe : ∀ t ∈ toks, LineSafe t) :
    feedLine recog k [] [] (recordLine toks) = .cont (k.addRecord toks) [] [] := by
  have hjb : joinBlank toks ≠ [] :=
    joinBlank_ne_nil toks hne (fun t ht => atomic_ne_nil (hsafe t ht).1)
  have hlne : (recordLine toks).isEmpty = false := by
    unfold recordLine; cases joinBlank toks <;> simp
  have hcut : delAfterFirstSlash (recordLine toks) = recordLine toks := by
    rw [recordLine_eq]
    exact delAfterFirstSlash_append (joinBlank toks ++ [32]) [] (noSlash_prefix toks hsafe)
  have hnt : isTerminator (recordLine toks) = false := by
    unfold recordLine isTerminator
    cases hj : joinBlank toks with
    | nil => exact absurd hj hjb
    | cons c r => cases r <;> simp
  have hrec : isTerminatedRecordString (recordLine toks) = true := by
    unfold isTerminatedRecordString
    rw [recordLine_eq, List.getLast?_append]; simp
  have hdl : (recordLine toks).dropLast = joinBlank toks ++ [32] := by
    rw [recordLine_eq, List.dropLast_concat]
  have hraw : rawRecord (joinBlank toks ++ [32]) = some toks := by
    unfold rawRecord
    have he : evenQuotes (joinBlank toks ++ [32]) = true :=
      evenQuotes_append _ _ (evenQuotes_joinBlank toks (fun t ht => (hsafe t ht).2.1)) (by decide)
    have ht := tok_joinBlank toks [32] (fun t ht => (hsafe t ht).1)
      (Or.inr ⟨32, [], rfl, by decide⟩) hne
    have h32 : tok .gap [32] = [] := by decide
    simp only [he, ↓reduceIte, tokenize, ht, h32, List.append_nil]
  have hfin : (k.addRecord toks).finished = false := (openSlash_addRecord hk toks).fin
  simp only [feedLine, hlne, Bool.false_eq_true, ↓reduceIte, openSlash_canComplete hk, Bool.false_and,
    delAfterSlash, hk.raw, hcut, extendBuf, List.isEmpty_nil]
  rw [afterExtend_rec_some k _ toks hnt hrec (by rw [hdl]; exact hraw)]
  simp [hfin]

theorem recordLine_ne_eofMark (toks : List Bytes) : recordLine toks ≠ eofMark := by
  intro e
  have := congrArg List.length e
  simp [recordLine, eofMark] at this

/-- the closing `/` of the keyword. -/
theorem feedLine_terminator (recog : Bytes → Bool) (k : Kw) (hk : OpenSlashKw k) :
    feedLine recog k [] [] [47] = .done k.terminate false := by
  have hcut : delAfterFirstSlash [47] = [47] := by decide
  have hfin : k.terminate.finished = true := by
    unfold Kw.terminate; simp [hk.st]
  simp only [feedLine, List.isEmpty_cons, Bool.false_eq_true, ↓reduceIte, openSlash_canComplete hk,
    Bool.false_and, delAfterSlash, hk.raw, hcut, extendBuf, List.isEmpty_nil]
  unfold afterExtend
  have ht : isTerminator [47] = true := by decide
  simp [ht, hfin]

/-- **The lines of a written slash-terminated keyword are assembled into the records that
were written**: one cleaned line per record (`t1 t2 … /`), then `/`; whatever follows is
left for the next keyword. -/
theorem feedLines_written (recog : Bytes → Bool) : ∀ (tss : List (List Bytes)) (k : Kw), OpenSlashKw k →
    (∀ toks ∈ tss, toks ≠ [] ∧ ∀ t ∈ toks, LineSafe t) → ∀ (rest : List Bytes),
    feedLines recog k [] [] (tss.map recordLine ++ [47] :: rest) =
      some ((tss.foldl Kw.addRecord k).terminate, rest) := by
  intro tss
  induction tss with
  | nil =>
    intro k hk _ rest
    simp only [List.map_nil, List.nil_append, List.foldl_nil]
    rw [feedLines_cons recog k [] [] [47] rest (by decide), feedLine_terminator recog k hk]
    simp
  | cons toks tss ih =>
    intro k hk h rest
    obtain ⟨hne, hsafe⟩ := h toks (by simp)
    simp only [List.map_cons, List.cons_append, List.foldl_cons]
    rw [feedLines_cons recog k [] [] _ _ (recordLine_ne_eofMark toks), feedLine_recordLine recog k hk toks hne hsafe]
    exact ih (k.addRecord toks) (openSlash_addRecord hk toks) (fun x hx => h x (by simp [hx])) rest

theorem foldl_addRecord_records : ∀ (tss : List (List Bytes)) (k : Kw),
    (tss.foldl Kw.addRecord k).records = k.records ++ tss := by
  intro tss
  induction tss with
  | nil => intro k; simp
  | cons t ts ih =>
    intro k
    rw [List.foldl_cons, ih]
    have : (k.addRecord t).records = k.records ++ [t] := by
      unfold Kw.addRecord
      by_cases ht : t.length > 0 <;> simp only [ht, ↓reduceIte] <;> split <;> simp
    rw [this]; simp

theorem terminate_records (k : Kw) : k.terminate.records = k.records := by
  unfold Kw.terminate
  cases k.sizeType <;> simp <;> split <;> rfl

/-! ### from the written bytes to the cleaned lines -/

theorem layout_nosplit : ∀ (toks : List Bytes) (rc : Nat), toks ≠ [] →
    layout false rc toks = 32 :: joinBlank toks := by
  intro toks
  induction toks with
  | nil => intro rc h; exact absurd rfl h
  | cons t ts ih =>
    intro rc _
    have hs : sepBefore false rc = [32] := by simp [sepBefore]
    cases ts with
    | nil => simp [layout, hs, joinBlank]
    | cons u us =>
      simp only [layout, hs] at ih ⊢
      rw [ih (rowAfter false rc) (by simp)]
      simp [joinBlank]

theorem trim_id (l : Bytes) (hh : ∀ c r, l = c :: r → isSep c = false)
    (hl : ∀ c, l.getLast? = some c → isSep c = false) : trim l = l := by
  unfold trim
  have h1 : trimLeft l = l := by
    unfold trimLeft
    cases l with
    | nil => rfl
    | cons c r => simp [List.dropWhile_cons, hh c r rfl]
  rw [h1]
  unfold trimRight
  cases hr : l.reverse with
  | nil =>
    have : l = [] := by simpa using hr
    subst this; rfl
  | cons c r =>
    have hc : l.getLast? = some c := by
      have := congrArg List.head? hr
      simpa [List.head?_reverse] using this
    simp only [List.dropWhile_cons, hl c hc, Bool.false_eq_true, ↓reduceIte]
    rw [← hr, List.reverse_reverse]

theorem atomic_head_not_sep {t : Bytes} (h : Atomic t) : ∀ c r, t = c :: r → isSep c = false := by
  intro c r e
  rcases h with ⟨_, hs, _⟩ | ⟨body, rfl, _⟩
  · exact hs c (by rw [e]; simp)
  · simp only [List.cons_append, List.cons.injEq] at e
    rw [← e.1]; decide

theorem joinBlank_head (t : Bytes) (ts : List Bytes) (c : UInt8) (r : Bytes) (h : t = c :: r) :
    ∃ r', joinBlank (t :: ts) = c :: r' := by
  subst h
  cases ts with
  | nil => exact ⟨r, rfl⟩
  | cons u us => exact ⟨r ++ 32 :: joinBlank (u :: us), by simp [joinBlank]⟩

/-- the source line `DeckRecord::write` produces cleans to `recordLine`. -/
theorem cleanLine_written (toks : List Bytes) (hne : toks ≠ []) (hsafe : ∀ t ∈ toks, LineSafe t) :
    cleanLine (layout false 0 toks ++ [32, 47]) = recordLine toks := by
  rw [layout_nosplit toks 0 hne]
  have e : (32 :: joinBlank toks ++ [32, 47]) = [32] ++ recordLine toks ++ [] := by simp [recordLine]
  rw [e, cleanLine_sep [32] (recordLine toks) [] (by decide) (by simp)]
  -- nothing to strip
  have hc1 := endState_joinBlank local2_comment (isT := isCommentAt)
    (by intro c m _; simp [isCommentAt]) (by intro m; cases m <;> simp [isCommentAt])
    toks (fun t ht => (hsafe t ht).2.2.2)
  have hcs : endState isCommentAt none (recordLine toks) = some none := by
    unfold recordLine
    rw [endState_append local2_comment [32, 47] _ none none hc1 (by intro c _ _; simp [isCommentAt])]
    decide
  unfold cleanLine stripComments
  rw [cutAt_of_endState _ none none hcs]
  -- nothing to trim
  apply trim_id
  · intro c r hcr
    cases toks with
    | nil => exact absurd rfl hne
    | cons t ts =>
      have hat := (hsafe t (by simp)).1
      cases ht : t with
      | nil => exact absurd ht (atomic_ne_nil hat)
      | cons c0 r0 =>
        obtain ⟨r', hr'⟩ := joinBlank_head t ts c0 r0 ht
        unfold recordLine at hcr
        rw [hr'] at hcr
        simp only [List.cons_append, List.cons.injEq] at hcr
        rw [← hcr.1]
        exact atomic_head_not_sep hat c0 r0 ht
  · intro c hc
    have : (recordLine toks).getLast? = some 47 := by
      rw [recordLine_eq, List.getLast?_append]; simp
    rw [this] at hc
    cases hc
    decide

/-- a safe token holds no newline, so a written record stays on one line. -/
def NoNL (t : Bytes) : Prop := ∀ b ∈ t, b ≠ 10

instance (t : Bytes) : Decidable (NoNL t) := by unfold NoNL; infer_instance

theorem joinBlank_noNL : ∀ (toks : List Bytes), (∀ t ∈ toks, NoNL t) → ∀ b ∈ joinBlank toks, b ≠ 10 := by
  intro toks
  induction toks with
  | nil => intro _ b hb; cases hb
  | cons t ts ih =>
    intro h b hb
    cases ts with
    | nil => exact h t (by simp) b (by simpa [joinBlank] using hb)
    | cons u us =>
      simp only [joinBlank, List.mem_append, List.mem_cons] at hb
      rcases hb with hb | rfl | hb
      · exact h t (by simp) b hb
      · decide
      · exact ih (fun x hx => h x (by simp [hx])) b hb

/-- bytes of the records of a keyword as `DeckKeyword::write_data` writes them (no line
split), followed by the keyword's `/`. -/
def writtenBody (tss : List (List Bytes)) : Bytes :=
  (tss.flatMap fun toks => layout false 0 toks ++ [32, 47, 10]) ++ [47, 10]

/-- cleaning the written keyword body gives one `recordLine` per record and the final `/`. -/
theorem cleanLines_writtenBody : ∀ (tss : List (List Bytes)),
    (∀ toks ∈ tss, toks ≠ [] ∧ (∀ t ∈ toks, LineSafe t) ∧ (∀ t ∈ toks, NoNL t)) →
    splitLines (fastClean (writtenBody tss)) = tss.map recordLine ++ [[47]] := by
  intro tss
  induction tss with
  | nil => intro _; decide
  | cons toks tss ih =>
    intro h
    obtain ⟨hne, hsafe, hnl⟩ := h toks (by simp)
    have hline : ∀ b ∈ layout false 0 toks ++ [32, 47], b ≠ 10 := by
      rw [layout_nosplit toks 0 hne]
      intro b hb
      simp only [List.cons_append, List.mem_cons, List.mem_append, List.mem_nil_iff, or_false] at hb
      rcases hb with rfl | hb | rfl | rfl
      · decide
      · exact joinBlank_noNL toks hnl b hb
      · decide
      · decide
    have e : writtenBody (toks :: tss) = (layout false 0 toks ++ [32, 47]) ++ 10 :: writtenBody tss := by
      simp [writtenBody, List.append_assoc]
    rw [e, fastClean_line _ _ hline, cleanLine_written toks hne hsafe]
    have hrl : ∀ b ∈ recordLine toks, b ≠ 10 := by
      intro b hb
      unfold recordLine at hb
      simp only [List.mem_append, List.mem_cons, List.mem_nil_iff, or_false] at hb
      rcases hb with hb | rfl | rfl
      · exact joinBlank_noNL toks hnl b hb
      · decide
      · decide
    rw [splitLines_line _ _ hrl, ih (fun x hx => h x (by simp [hx]))]
    rfl

/-! ### the keyword-level round trip -/

theorem parseRecords_written (cv : Conv) (schemas : List (List Item)) (alt : Bool)
    (E : List Vals → List Bytes) (N : List Vals → List Vals) :
    ∀ (rs : List (List Vals)) (i : Nat),
      (∀ j r, rs[j]? = some r → ∃ items, schemaOf schemas alt (i + j) = some items ∧
        parseItems cv items (E r) = some (N r)) →
      parseRecords cv schemas alt i (rs.map E) = some (rs.map N) := by
  intro rs
  induction rs with
  | nil => intro i _; rfl
  | cons r rs ih =>
    intro i h
    obtain ⟨items, hs, hp⟩ := h 0 r (by simp)
    have hs' : schemaOf schemas alt i = some items := by simpa using hs
    have htail := ih (i + 1) (by
      intro j r' hj
      have := h (j + 1) r' (by simpa using hj)
      have e : i + (j + 1) = i + 1 + j := by omega
      rw [e] at this; exact this)
    simp only [List.map_cons, parseRecords, hs', hp, htail]

/-- the open slash-terminated keyword `newRawKeyword` creates. -/
def slashKw : Kw := { sizeType := .slashTerminated, raw := false, records := [], minSize := 0, fixedSize := 0,
                      numTables := 0, curTables := 0, tempFinished := false, finished := false }

theorem slashKw_mk : mkKw .slashTerminated false none 0 = some slashKw := by decide

theorem slashKw_open : OpenSlashKw slashKw := ⟨rfl, rfl, rfl, rfl⟩

/-- what `DeckKeyword::write_data` + `end_keyword(true)` put on the stream (no line split). -/
def writeKeywordBody (fmt : Bytes → Bytes) (flush : Bool) (rs : List (List Vals)) : Bytes :=
  (rs.flatMap fun r => writeRecord fmt flush false r) ++ [47, 10]

theorem writeKeywordBody_eq (fmt : Bytes → Bytes) (flush : Bool) (rs : List (List Vals)) :
    writeKeywordBody fmt flush rs = writtenBody (rs.map fun r => emitToks fmt flush false 0 r.flatten) := by
  unfold writeKeywordBody writtenBody
  congr 1
  induction rs with
  | nil => rfl
  | cons r rs ih =>
    simp only [List.flatMap_cons, List.map_cons, ih]
    simp [writeRecord, writtenRecordText, List.append_assoc]

/-- **`parse_write_keyword` for slash-terminated keywords** (WELSPECS, COMPDAT, WCONPROD, …):
parsing the text `DeckKeyword::write` produces for the records — cleaning, line splitting,
keyword assembly, tokenising, `ParserKeyword::parse` — returns exactly the records that
were written, values and default flags, and consumes the whole text.  Besides the
record-level conditions (`Conf`, `htrail`) each record must emit at least one token
(`≠ []`: a record of defaults only is written as a bare `/` and ends the keyword — the
finding `C19.alldefault_record`) and its tokens must be `LineSafe` without newline. -/
theorem parse_write_keyword_slash (cv : Conv) (fmt : Bytes → Bytes) (flush : Bool) (recog : Bytes → Bool)
    (schemas : List (List Item)) (alt : Bool) (rs : List (List Vals))
    (hrec : ∀ j r, rs[j]? = some r → ∃ items, schemaOf schemas alt j = some items ∧
      Conf cv fmt items r ∧ r.flatten.length ≤ 2147483647 ∧
      (pend flush false 0 r.flatten = 0 ∨ r.flatten.length ≤ singlePrefix items))
    (htok : ∀ r ∈ rs, emitToks fmt flush false 0 r.flatten ≠ [] ∧
      ∀ t ∈ emitToks fmt flush false 0 r.flatten, LineSafe t ∧ NoNL t) :
    parseKeywordText cv recog slashKw schemas alt false (writeKeywordBody fmt flush rs) =
      some (rs.map (·.map (·.map (normP fmt))), []) := by
  unfold parseKeywordText
  rw [writeKeywordBody_eq]
  have hcl := cleanLines_writtenBody (rs.map fun r => emitToks fmt flush false 0 r.flatten) (by
    intro toks ht
    obtain ⟨r, hr, rfl⟩ := List.mem_map.mp ht
    exact ⟨(htok r hr).1, fun t h => ((htok r hr).2 t h).1, fun t h => ((htok r hr).2 t h).2⟩)
  have hfl := feedLines_written recog (rs.map fun r => emitToks fmt flush false 0 r.flatten) slashKw slashKw_open (by
    intro toks ht
    obtain ⟨r, hr, rfl⟩ := List.mem_map.mp ht
    exact ⟨(htok r hr).1, fun t h => ((htok r hr).2 t h).1⟩) []
  simp only [hcl]
  have hnf : slashKw.finished = false := rfl
  simp only [hnf, Bool.false_eq_true, ↓reduceIte, hfl]
  have hfin : ((List.foldl Kw.addRecord slashKw (rs.map fun r => emitToks fmt flush false 0 r.flatten)).terminate).finished = true := by
    have hst : (List.foldl Kw.addRecord slashKw (rs.map fun r => emitToks fmt flush false 0 r.flatten)).sizeType = .slashTerminated := by
      generalize (rs.map fun r => emitToks fmt flush false 0 r.flatten) = tss
      have : ∀ (tss : List (List Bytes)) (k : Kw), OpenSlashKw k → OpenSlashKw (tss.foldl Kw.addRecord k) := by
        intro tss
        induction tss with
        | nil => intro k hk; exact hk
        | cons t ts ih => intro k hk; exact ih _ (openSlash_addRecord hk t)
      exact (this tss slashKw slashKw_open).st
    unfold Kw.terminate
    simp [hst]
  have hrecs : ((List.foldl Kw.addRecord slashKw (rs.map fun r => emitToks fmt flush false 0 r.flatten)).terminate).records =
      rs.map fun r => emitToks fmt flush false 0 r.flatten := by
    rw [terminate_records, foldl_addRecord_records]; rfl
  simp only [hfin, Bool.not_true, Bool.false_eq_true, ↓reduceIte, hrecs]
  have hp := parseRecords_written cv schemas alt (fun r => emitToks fmt flush false 0 r.flatten)
    (fun r => r.map (·.map (normP fmt))) rs 0 (by
      intro j r hj
      obtain ⟨items, hs, hc, hl, ht⟩ := hrec j r hj
      exact ⟨items, by simpa using hs, parse_write_tokens cv fmt flush items r hc hl ht⟩)
  rw [hp]

end OpmVerif.RawKw
