/-
  Lemmas about record parsing (`Model/Scan.lean`): star expansion/contraction and
  trailing defaults give the same values and the same status flags.
-/
import OpmVerif.Model.Scan
import OpmVerif.Proofs.Tok

namespace OpmVerif.Scan
open OpmVerif.Lex OpmVerif.Tok

theorem classify_rep_pos {t : Bytes} {n : Nat} {v : Bytes} (h : classify t = .rep n v) : 1 ≤ n := by
  unfold classify at h
  split at h
  · cases h
  · next c v' _ =>
    split at h
    · cases h
    · next m hm =>
      cases h
      unfold starCount at hm
      split at hm
      · split at hm
        · cases hm; exact Nat.le_refl 1
        · cases hm
      · simp only at hm
        split at hm
        · cases hm
        · next hn => cases hm; omega

/-- a repeat count the model accepts is a positive `int`: `std::stoi` rejects anything above
`INT_MAX` (`out_of_range`), `StarToken::init_` rejects zero. -/
theorem classify_rep_range {t : Bytes} {n : Nat} {v : Bytes} (h : classify t = .rep n v) :
    1 ≤ n ∧ n ≤ 2147483647 := by
  refine ⟨classify_rep_pos h, ?_⟩
  unfold classify at h
  split at h
  · cases h
  · next c v' _ =>
    split at h
    · cases h
    · next m hm =>
      cases h
      unfold starCount at hm
      split at hm
      · split at hm
        · cases hm; omega
        · cases hm
      · simp only at hm
        split at hm
        · cases hm
        · next hn => cases hm; omega

theorem classify_oneStar : classify oneStar = .rep 1 [] := by decide

/-! ## star expansion -/

/-- `StarExp t ex`: `t` is a repeat token `n*v` with a plain value `v` and `ex` is
`v` written `n` times, or `t` is `n*` and `ex` is `1*` written `n` times. -/
def StarExp (t : Bytes) (ex : List Bytes) : Prop :=
  ∃ n v, classify t = .rep n v ∧
    ((v ≠ [] ∧ classify v = .plain ∧ ex = List.replicate n v) ∨
     (v = [] ∧ ex = List.replicate n oneStar))

theorem starExp_ne_nil {t : Bytes} {ex : List Bytes} (h : StarExp t ex) : ex ≠ [] := by
  obtain ⟨n, v, hc, h⟩ := h
  have hn := classify_rep_pos hc
  rcases h with ⟨_, _, rfl⟩ | ⟨_, rfl⟩ <;>
    (intro e; have := congrArg List.length e; simp at this; omega)

theorem scanAll_append (cv : Conv) (it : Item) (a b : List Bytes) :
    scanAll cv it (a ++ b) =
      match scanAll cv it a with
      | none => none
      | some va => match scanAll cv it b with
        | none => none
        | some vb => some (va ++ vb) := by
  induction a with
  | nil => simp only [List.nil_append, scanAll]; cases scanAll cv it b <;> simp
  | cons t a ih =>
    simp only [List.cons_append, scanAll]
    cases allTok cv it t with
    | none => rfl
    | some v =>
      simp only [ih]
      cases scanAll cv it a with
      | none => rfl
      | some va =>
        cases scanAll cv it b with
        | none => rfl
        | some vb => simp

theorem scanAll_replicate_plain (cv : Conv) (it : Item) (v : Bytes) (hraw : it.raw = false)
    (hv : classify v = .plain) (n : Nat) :
    scanAll cv it (List.replicate n v) =
      if n = 0 then some [] else
        match readVal cv it.ty v with
        | some x => some (List.replicate n (x, .deck))
        | none => none := by
  induction n with
  | zero => simp [scanAll]
  | succ n ih =>
    simp only [List.replicate_succ, scanAll, allTok, hraw, hv, ih]
    cases hr : readVal cv it.ty v with
    | none => simp
    | some x =>
      by_cases hn : n = 0
      · subst hn; simp
      · simp [hn]

theorem defaultVals_replicate (it : Item) (n : Nat) :
    defaultVals it n = (List.replicate n (defaultVals it 1)).flatten := by
  unfold defaultVals
  cases it.dflt <;> simp [List.flatten_replicate_singleton]

theorem scanAll_replicate_oneStar (cv : Conv) (it : Item) (hraw : it.raw = false) (n : Nat) :
    scanAll cv it (List.replicate n oneStar) = some (defaultVals it n) := by
  induction n with
  | zero => simp [scanAll, defaultVals]; cases it.dflt <;> simp
  | succ n ih =>
    simp only [List.replicate_succ, scanAll, allTok, hraw, classify_oneStar, ih]
    simp only [Bool.false_eq_true, ↓reduceIte, List.isEmpty_nil, Option.some.injEq]
    unfold defaultVals
    cases it.dflt <;> simp [List.replicate_succ]

/-- an item of size ALL reads a repeat token exactly as it reads its expansion. -/
theorem scanAll_starExp (cv : Conv) (it : Item) (hraw : it.raw = false) (t : Bytes)
    (ex : List Bytes) (h : StarExp t ex) : scanAll cv it [t] = scanAll cv it ex := by
  obtain ⟨n, v, hc, h⟩ := h
  have hn := classify_rep_pos hc
  rcases h with ⟨hv, hp, rfl⟩ | ⟨rfl, rfl⟩
  · rw [scanAll_replicate_plain cv it v hraw hp n]
    have hne : n ≠ 0 := by omega
    have hve : v.isEmpty = false := by cases v <;> simp_all
    simp only [scanAll, allTok, hraw, hc, hve, hne]
    cases readVal cv it.ty v <;> simp
  · rw [scanAll_replicate_oneStar cv it hraw n]
    simp [scanAll, allTok, hraw, hc]

theorem scanAll_starExp_mid (cv : Conv) (it : Item) (hraw : it.raw = false) (t : Bytes)
    (ex : List Bytes) (h : StarExp t ex) (pre post : List Bytes) :
    scanAll cv it (pre ++ t :: post) = scanAll cv it (pre ++ ex ++ post) := by
  have e1 : pre ++ t :: post = pre ++ ([t] ++ post) := by simp
  rw [e1, List.append_assoc, scanAll_append, scanAll_append cv it pre (ex ++ post),
    scanAll_append cv it [t] post, scanAll_append cv it ex post, scanAll_starExp cv it hraw t ex h]

/-- an item of size SINGLE that meets a repeat token leaves exactly the record it would
leave after meeting the expansion (`push_front`). -/
theorem scanSingle_starExp (cv : Conv) (it : Item) (hraw : it.raw = false) (t : Bytes)
    (ex : List Bytes) (h : StarExp t ex) (post : List Bytes) :
    scanSingle cv it (t :: post) = scanSingle cv it (ex ++ post) := by
  obtain ⟨n, v, hc, h⟩ := h
  have hn := classify_rep_pos hc
  obtain ⟨m, rfl⟩ : ∃ m, n = m + 1 := ⟨n - 1, by omega⟩
  rcases h with ⟨hv, hp, rfl⟩ | ⟨rfl, rfl⟩
  · have hve : v.isEmpty = false := by cases v <;> simp_all
    simp only [List.replicate_succ, List.cons_append, scanSingle, singleTok, hraw, hc, hp, hve]
    cases readVal cv it.ty v <;> simp
  · simp [List.replicate_succ, scanSingle, singleTok, hraw, hc, classify_oneStar]

/-- **`scan_star_expand`** (one rewrite step, anywhere in the record): writing `n*v`
or writing `v` `n` times, writing `n*` or writing `1*` `n` times, gives the same
items, values **and status flags** — or the same error.  Raw-string items take their
tokens verbatim and are excluded. -/
theorem parseItems_starExp (cv : Conv) (t : Bytes) (ex : List Bytes) (h : StarExp t ex)
    (post : List Bytes) :
    ∀ (items : List Item), (∀ it ∈ items, it.raw = false) → ∀ (pre : List Bytes),
      parseItems cv items (pre ++ t :: post) = parseItems cv items (pre ++ ex ++ post) := by
  intro items
  induction items with
  | nil =>
    intro _ pre
    have h1 : (pre ++ t :: post).isEmpty = false := by cases pre <;> simp
    have h2 : (pre ++ ex ++ post).isEmpty = false := by
      have := starExp_ne_nil h
      cases pre <;> cases ex <;> simp_all
    simp only [parseItems, h1, h2]
  | cons it its ih =>
    intro hraw pre
    have hr : it.raw = false := hraw it (by simp)
    have hrs : ∀ i ∈ its, i.raw = false := fun i hi => hraw i (by simp [hi])
    simp only [parseItems, scanItem]
    by_cases hall : it.all = true
    · simp only [hall, ↓reduceIte, scanAll_starExp_mid cv it hr t ex h pre post]
    · simp only [hall, Bool.false_eq_true, ↓reduceIte]
      cases pre with
      | nil =>
        simp only [List.nil_append]
        rw [scanSingle_starExp cv it hr t ex h post]
      | cons p pre' =>
        simp only [List.cons_append, scanSingle]
        cases singleTok cv it p with
        | none => rfl
        | some r =>
          obtain ⟨v, pushed⟩ := r
          simp only
          have := ih hrs (pushed ++ pre')
          simp only [List.append_assoc] at this ⊢
          rw [this]

/-! ## trailing defaults -/

/-- tokens whose repeat value (if any) is not itself a repeat token. -/
def Simple (t : Bytes) : Prop :=
  match classify t with
  | .plain => True
  | .bad => True
  | .rep _ v => v = [] ∨ classify v = .plain

instance (t : Bytes) : Decidable (Simple t) := by
  unfold Simple
  cases classify t with
  | plain => exact isTrue trivial
  | bad => exact isTrue trivial
  | rep n v => exact inferInstanceAs (Decidable (v = [] ∨ classify v = .plain))

/-- number of items a token stands for. -/
def weight (t : Bytes) : Nat :=
  match classify t with
  | .rep n _ => n
  | _ => 1

def totalWeight (ts : List Bytes) : Nat := (ts.map weight).sum

/-- number of leading items of size SINGLE. -/
def singlePrefix : List Item → Nat
  | [] => 0
  | it :: its => if it.all then 0 else singlePrefix its + 1

theorem weight_pos (t : Bytes) : 1 ≤ weight t := by
  unfold weight
  split
  · next n v h => exact classify_rep_pos h
  · exact Nat.le_refl 1

theorem simple_oneStar : Simple oneStar := by
  unfold Simple; rw [classify_oneStar]; exact Or.inl rfl

theorem weight_oneStar : weight oneStar = 1 := by
  unfold weight; rw [classify_oneStar]

theorem totalWeight_replicate (n : Nat) (t : Bytes) (h : weight t = 1) :
    totalWeight (List.replicate n t) = n := by
  unfold totalWeight
  induction n with
  | zero => rfl
  | succ n ih => simp [List.replicate_succ, h, ih]; omega

theorem totalWeight_append (a b : List Bytes) : totalWeight (a ++ b) = totalWeight a + totalWeight b := by
  unfold totalWeight; simp

/-- tokens pushed back by a SINGLE item are simple and stand for one item less. -/
theorem singleTok_pushed (cv : Conv) (it : Item) (hraw : it.raw = false) (t : Bytes) (hs : Simple t)
    (v : Vals) (pushed : List Bytes) (h : singleTok cv it t = some (v, pushed)) :
    (∀ p ∈ pushed, Simple p) ∧ totalWeight pushed + 1 = weight t := by
  unfold singleTok at h
  simp only [hraw, Bool.false_eq_true, ↓reduceIte] at h
  unfold Simple at hs
  unfold weight
  split at h
  · next hc =>
    split at h
    · cases h; simp [hc, totalWeight]
    · cases h
  · cases h
  · next n w hc =>
    have hn := classify_rep_pos hc
    rw [hc] at hs
    simp only [hc]
    split at h
    · cases h
      refine ⟨?_, ?_⟩
      · intro p hp; rw [(List.mem_replicate.mp hp).2]; exact simple_oneStar
      · rw [totalWeight_replicate _ _ weight_oneStar]; omega
    · next hw =>
      split at h
      · cases h
        have hplain : classify w = .plain := by
          rcases hs with h0 | h0
          · subst h0; simp at hw
          · exact h0
        have hw1 : weight w = 1 := by unfold weight; rw [hplain]
        refine ⟨?_, ?_⟩
        · intro p hp; rw [(List.mem_replicate.mp hp).2]; unfold Simple; rw [hplain]; trivial
        · rw [totalWeight_replicate _ _ hw1]; omega
      · cases h

/-- **`scan_trailing_default`**: appending `1*` for (some of) the SINGLE items the
record does not reach — or, read from right to left, ending the record early —
gives the same values and the same status flags. -/
theorem parseItems_trailing_default (cv : Conv) :
    ∀ (items : List Item), (∀ it ∈ items, it.raw = false) → ∀ (ts : List Bytes) (k : Nat),
      (∀ t ∈ ts, Simple t) → totalWeight ts + k ≤ singlePrefix items →
      parseItems cv items (ts ++ List.replicate k oneStar) = parseItems cv items ts := by
  intro items
  induction items with
  | nil =>
    intro _ ts k _ hw
    simp only [singlePrefix] at hw
    have hk : k = 0 := by omega
    subst hk; simp
  | cons it its ih =>
    intro hraw ts k hs hw
    have hr : it.raw = false := hraw it (by simp)
    have hrs : ∀ i ∈ its, i.raw = false := fun i hi => hraw i (by simp [hi])
    by_cases hall : it.all = true
    · simp only [singlePrefix, hall, ↓reduceIte] at hw
      have hk : k = 0 := by omega
      subst hk; simp
    · simp only [singlePrefix, hall, Bool.false_eq_true, ↓reduceIte] at hw
      simp only [parseItems, scanItem, hall, Bool.false_eq_true, ↓reduceIte]
      cases ts with
      | nil =>
        cases k with
        | zero => simp
        | succ k' =>
          simp only [List.nil_append, List.replicate_succ, scanSingle, singleTok, hr,
            classify_oneStar, Bool.false_eq_true, ↓reduceIte, List.isEmpty_nil]
          have := ih hrs [] k' (by simp) (by simp [totalWeight] at hw ⊢; omega)
          simp only [List.nil_append] at this
          simp [this]
      | cons t ts' =>
        simp only [List.cons_append, scanSingle]
        cases hst : singleTok cv it t with
        | none => rfl
        | some r =>
          obtain ⟨v, pushed⟩ := r
          simp only
          have hp := singleTok_pushed cv it hr t (hs t (by simp)) v pushed hst
          have hw' : totalWeight (pushed ++ ts') + k ≤ singlePrefix its := by
            rw [totalWeight_append]
            have : totalWeight (t :: ts') = weight t + totalWeight ts' := by simp [totalWeight]
            omega
          have := ih hrs (pushed ++ ts') k
            (by intro x hx; rcases List.mem_append.mp hx with h | h
                · exact hp.1 x h
                · exact hs x (by simp [h])) hw'
          simp only [List.append_assoc] at this
          rw [this]

end OpmVerif.Scan
