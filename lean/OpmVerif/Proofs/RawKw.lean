/-
  Keyword assembly (`Model/RawKw.lean`): a record may be broken over lines at any
  separator run outside quotes — the resulting RawKeyword (token lists of its records,
  termination state) and the lines left over are the same.
-/
import OpmVerif.Model.RawKw
import OpmVerif.Proofs.Tok

namespace OpmVerif.RawKw
open OpmVerif.Lex OpmVerif.Tok OpmVerif.Scan

/-- two record buffers that differ in one separator run outside (tokeniser) quotes. -/
def SepEq (x y : Bytes) : Prop :=
  ∃ p s s' q, x = p ++ s ++ q ∧ y = p ++ s' ++ q ∧ p ≠ [] ∧ s ≠ [] ∧ s' ≠ [] ∧
    (∀ c ∈ s, isSep c = true) ∧ (∀ c ∈ s', isSep c = true) ∧ OutsideP p

theorem sep_ne_quote39 (c : UInt8) (h : isSep c = true) : c ≠ 39 := by
  intro e; subst e; revert h; decide

theorem filter39_sep (s : Bytes) (hs : ∀ c ∈ s, isSep c = true) : s.filter (· == 39) = [] := by
  rw [List.filter_eq_nil_iff]
  intro c hc h
  exact sep_ne_quote39 c (hs c hc) (by simpa using h)

theorem getLast_sep_ne_slash (s : Bytes) (hs : ∀ c ∈ s, isSep c = true) : s.getLast? ≠ some 47 := by
  intro h
  have hm : (47 : UInt8) ∈ s := List.mem_of_getLast? h
  exact sep_ne_slash 47 (hs 47 hm) rfl

theorem afterExtend_cont (k : Kw) (buf : Bytes) (h1 : isTerminator buf = false)
    (h2 : isTerminatedRecordString buf = false) : afterExtend k buf = .cont k buf [] := by
  unfold afterExtend
  simp [h1, h2]

theorem afterExtend_rec_none (k : Kw) (buf : Bytes) (h1 : isTerminator buf = false)
    (h2 : isTerminatedRecordString buf = true) (h3 : rawRecord buf.dropLast = none) :
    afterExtend k buf = .err := by
  unfold afterExtend
  simp [h1, h2, h3]

theorem afterExtend_rec_some (k : Kw) (buf : Bytes) (toks : List Bytes) (h1 : isTerminator buf = false)
    (h2 : isTerminatedRecordString buf = true) (h3 : rawRecord buf.dropLast = some toks) :
    afterExtend k buf = if (k.addRecord toks).finished then .done (k.addRecord toks) false
      else .cont (k.addRecord toks) [] [] := by
  unfold afterExtend
  simp [h1, h2, h3]

/-- `afterExtend` never pushes a line back. -/
theorem afterExtend_unget (k k' : Kw) (buf : Bytes) (u : Bool) (h : afterExtend k buf = .done k' u) : u = false := by
  unfold afterExtend at h
  simp only at h
  by_cases h1 : isTerminator buf = true ∧ (if isTerminator buf = true then k.terminate else k).finished = true
  · rw [if_pos h1] at h
    injection h with _ hu
    exact hu.symm
  · rw [if_neg h1] at h
    by_cases h2 : isTerminatedRecordString buf = true
    · rw [if_pos h2] at h
      cases hr : rawRecord buf.dropLast with
      | none => rw [hr] at h; cases h
      | some toks =>
        rw [hr] at h
        simp only at h
        by_cases h3 : ((if isTerminator buf = true then k.terminate else k).addRecord toks).finished = true
        · rw [if_pos h3] at h
          injection h with _ hu
          exact hu.symm
        · rw [if_neg h3] at h; cases h
    · rw [if_neg h2] at h; cases h

theorem getLast_append_ne_nil (x q : Bytes) (hq : q ≠ []) : (x ++ q).getLast? = q.getLast? := by
  rw [List.getLast?_append]
  cases h : q.getLast? with
  | none => cases q with
    | nil => exact absurd rfl hq
    | cons _ _ => simp at h
  | some v => simp

theorem not_rec_of_sep_end (x s : Bytes) (hs : s ≠ []) (hsep : ∀ c ∈ s, isSep c = true) :
    isTerminatedRecordString (x ++ s) = false := by
  have hne := getLast_sep_ne_slash s hsep
  simp only [isTerminatedRecordString, getLast_append_ne_nil x s hs]
  cases h : s.getLast? with
  | none => rfl
  | some v => simp only [beq_eq_false_iff_ne, ne_eq]; intro e; rw [h] at hne; exact hne e

theorem endState_slash_seps : ∀ (s : Bytes), (∀ c ∈ s, isSep c = true) → endState isSlashAt none s = some none := by
  intro s
  induction s with
  | nil => intro _; rfl
  | cons c s ih =>
    intro hsep
    have hc : isSep c = true := hsep c (by simp)
    have hn : isSlashAt (c :: s) = false := by simp [isSlashAt, sep_ne_slash c hc]
    simp only [endState, hn, Bool.false_eq_true, ↓reduceIte, stepQ, sep_not_quote c hc]
    exact ih (fun x hx => hsep x (by simp [hx]))

/-- two buffers related by `SepEq` behave identically in `afterExtend`, up to `SepEq` of
the buffer that is carried on. -/
theorem afterExtend_sepEq (k : Kw) (x y : Bytes) (h : SepEq x y) :
    (afterExtend k x = afterExtend k y) ∨
    (afterExtend k x = .cont k x [] ∧ afterExtend k y = .cont k y []) := by
  obtain ⟨p, s, s', q, rfl, rfl, hp, hs, hs', hsep, hsep', hout⟩ := h
  have hlen : ∀ (t : Bytes), t ≠ [] → isTerminator (p ++ t ++ q) = false := by
    intro t ht
    cases p with
    | nil => exact absurd rfl hp
    | cons a p' => cases t with
      | nil => exact absurd rfl ht
      | cons b t' => cases p' <;> simp [isTerminator]
  have hx := hlen s hs
  have hy := hlen s' hs'
  by_cases hq : q = []
  · subst hq
    right
    simp only [List.append_nil] at hx hy ⊢
    exact ⟨afterExtend_cont k _ hx (not_rec_of_sep_end p s hs hsep),
           afterExtend_cont k _ hy (not_rec_of_sep_end p s' hs' hsep')⟩
  · have hterm : isTerminatedRecordString (p ++ s ++ q) = isTerminatedRecordString (p ++ s' ++ q) := by
      simp only [isTerminatedRecordString, getLast_append_ne_nil _ q hq]
    by_cases ht : isTerminatedRecordString (p ++ s' ++ q) = true
    · left
      have ht' : isTerminatedRecordString (p ++ s ++ q) = true := by rw [hterm]; exact ht
      have hdl : ∀ (t : Bytes), (p ++ t ++ q).dropLast = p ++ t ++ q.dropLast := by
        intro t
        rw [List.dropLast_append_of_ne_nil hq]
      have hraw : rawRecord (p ++ s ++ q.dropLast) = rawRecord (p ++ s' ++ q.dropLast) := by
        unfold rawRecord
        have he : evenQuotes (p ++ s ++ q.dropLast) = evenQuotes (p ++ s' ++ q.dropLast) := by
          unfold evenQuotes
          simp only [List.filter_append, filter39_sep s hsep, filter39_sep s' hsep', List.append_nil]
        rw [he, split_sep_congr p s s' q.dropLast hs hs' hsep hsep' hout]
      cases hr : rawRecord (p ++ s' ++ q.dropLast) with
      | none =>
        rw [afterExtend_rec_none k _ hx ht' (by rw [hdl, hraw, hr]),
          afterExtend_rec_none k _ hy ht (by rw [hdl, hr])]
      | some toks =>
        rw [afterExtend_rec_some k _ toks hx ht' (by rw [hdl, hraw, hr]),
          afterExtend_rec_some k _ toks hy ht (by rw [hdl, hr])]
    · right
      have ht2 : isTerminatedRecordString (p ++ s' ++ q) = false := by simpa using ht
      have ht' : isTerminatedRecordString (p ++ s ++ q) = false := by rw [hterm]; exact ht2
      exact ⟨afterExtend_cont k _ hx ht', afterExtend_cont k _ hy ht2⟩

theorem sepEq_ne_nil {x y : Bytes} (h : SepEq x y) : x ≠ [] ∧ y ≠ [] := by
  obtain ⟨p, s, s', q, rfl, rfl, hp, _⟩ := h
  cases p with
  | nil => exact absurd rfl hp
  | cons a p' => exact ⟨by simp, by simp⟩

theorem sepEq_extend {x y : Bytes} (h : SepEq x y) (gap l : Bytes) :
    SepEq (extendBuf x gap l) (extendBuf y gap l) := by
  obtain ⟨hx, hy⟩ := sepEq_ne_nil h
  obtain ⟨p, s, s', q, rfl, rfl, hp, hs, hs', hsep, hsep', hout⟩ := h
  have ex : (p ++ s ++ q).isEmpty = false := by cases h : p ++ s ++ q <;> simp_all
  have ey : (p ++ s' ++ q).isEmpty = false := by cases h : p ++ s' ++ q <;> simp_all
  refine ⟨p, s, s', q ++ [10] ++ gap ++ l, ?_, ?_, hp, hs, hs', hsep, hsep', hout⟩
  · unfold extendBuf; rw [ex]; simp only [Bool.false_eq_true, ↓reduceIte, List.append_assoc]
  · unfold extendBuf; rw [ey]; simp only [Bool.false_eq_true, ↓reduceIte, List.append_assoc]

/-! ### unfolding the line loop (the end-of-file marker is tested first) -/

theorem feedLines_cons_mark (recog : Bytes → Bool) (k : Kw) (buf gap : Bytes) (rest : List Bytes) :
    feedLines recog k buf gap (eofMark :: rest) =
      if buf.isEmpty then feedLines recog k buf gap rest else none := by
  simp only [feedLines, ↓reduceIte]

theorem feedLines_cons (recog : Bytes → Bool) (k : Kw) (buf gap line : Bytes) (rest : List Bytes)
    (h : line ≠ eofMark) :
    feedLines recog k buf gap (line :: rest) =
      match feedLine recog k buf gap line with
      | .cont k' buf' gap' => feedLines recog k' buf' gap' rest
      | .done k' unget => some (k', if unget then line :: rest else rest)
      | .err => none := by
  cases hs : feedLine recog k buf gap line <;> simp only [feedLines, h, ↓reduceIte, hs]

theorem nil_ne_eofMark : ([] : Bytes) ≠ eofMark := by decide

/-- the rest of the keyword is assembled identically from two `SepEq` record buffers. -/
theorem feedLines_sepEq (recog : Bytes → Bool) : ∀ (lines : List Bytes) (k : Kw) (x y gap : Bytes),
    SepEq x y → feedLines recog k x gap lines = feedLines recog k y gap lines := by
  intro lines
  induction lines with
  | nil => intro k x y gap _; rfl
  | cons line rest ih =>
    intro k x y gap h
    obtain ⟨hx, hy⟩ := sepEq_ne_nil h
    have ex : x.isEmpty = false := by cases x <;> simp_all
    have ey : y.isEmpty = false := by cases y <;> simp_all
    by_cases hm : line = eofMark
    · subst hm
      simp only [feedLines_cons_mark, ex, ey, Bool.false_eq_true, ↓reduceIte]
    rw [feedLines_cons recog k x gap line rest hm, feedLines_cons recog k y gap line rest hm]
    simp only [feedLine]
    by_cases hl : line.isEmpty = true
    · simp only [hl, ↓reduceIte, ex, ey, Bool.false_eq_true]
      exact ih k x y _ h
    · simp only [hl, Bool.false_eq_true, ↓reduceIte]
      by_cases hr : (k.canComplete && recog (makeDeckName line)) = true
      · simp only [hr, ↓reduceIte]
      · simp only [hr, Bool.false_eq_true, ↓reduceIte]
        have h2 := sepEq_extend h gap (delAfterSlash k.raw line 10)
        rcases afterExtend_sepEq k _ _ h2 with he | ⟨h3, h4⟩
        · rw [he]
        · rw [h3, h4]
          exact ih k _ _ [] h2

/-! ### empty (blank / comment-only) lines inside a keyword -/

theorem feedLines_gap_empty (recog : Bytes → Bool) : ∀ (lines : List Bytes) (k : Kw) (gap gap' : Bytes),
    feedLines recog k [] gap lines = feedLines recog k [] gap' lines := by
  intro lines
  induction lines with
  | nil => intro k gap gap'; rfl
  | cons line rest ih =>
    intro k gap gap'
    by_cases hm : line = eofMark
    · subst hm
      simp only [feedLines_cons_mark, List.isEmpty_nil, ↓reduceIte]
      exact ih k gap gap'
    rw [feedLines_cons recog k [] gap line rest hm, feedLines_cons recog k [] gap' line rest hm]
    simp only [feedLine, extendBuf, List.isEmpty_nil, ↓reduceIte]

theorem feedLines_gap (recog : Bytes → Bool) : ∀ (lines : List Bytes) (k : Kw) (buf gap gap' : Bytes),
    buf ≠ [] → OutsideP buf → (∀ c ∈ gap, isSep c = true) → (∀ c ∈ gap', isSep c = true) →
    feedLines recog k buf gap lines = feedLines recog k buf gap' lines := by
  intro lines
  induction lines with
  | nil => intro k buf gap gap' _ _ _ _; rfl
  | cons line rest ih =>
    intro k buf gap gap' hne hout hg hg'
    have hbe : buf.isEmpty = false := by cases buf <;> simp_all
    by_cases hm : line = eofMark
    · subst hm
      simp only [feedLines_cons_mark, hbe, Bool.false_eq_true, ↓reduceIte]
    rw [feedLines_cons recog k buf gap line rest hm, feedLines_cons recog k buf gap' line rest hm]
    simp only [feedLine]
    by_cases hl : line.isEmpty = true
    · simp only [hl, ↓reduceIte, hbe, Bool.false_eq_true]
      exact ih k buf _ _ hne hout
        (by intro c hc; rcases List.mem_append.mp hc with h | h; exact hg c h; simp at h; subst h; decide)
        (by intro c hc; rcases List.mem_append.mp hc with h | h; exact hg' c h; simp at h; subst h; decide)
    · simp only [hl, Bool.false_eq_true, ↓reduceIte]
      by_cases hr : (k.canComplete && recog (makeDeckName line)) = true
      · simp only [hr, ↓reduceIte]
      · simp only [hr, Bool.false_eq_true, ↓reduceIte]
        have hrel : SepEq (extendBuf buf gap (delAfterSlash k.raw line 10))
            (extendBuf buf gap' (delAfterSlash k.raw line 10)) := by
          refine ⟨buf, [10] ++ gap, [10] ++ gap', delAfterSlash k.raw line 10, ?_, ?_, hne, by simp, by simp, ?_, ?_, hout⟩
          · simp only [extendBuf, hbe, Bool.false_eq_true, ↓reduceIte, List.append_assoc]
          · simp only [extendBuf, hbe, Bool.false_eq_true, ↓reduceIte, List.append_assoc]
          · intro c hc; rcases List.mem_append.mp hc with h | h
            · simp at h; subst h; decide
            · exact hg c h
          · intro c hc; rcases List.mem_append.mp hc with h | h
            · simp at h; subst h; decide
            · exact hg' c h
        rcases afterExtend_sepEq k _ _ hrel with he | ⟨h3, h4⟩
        · rw [he]
        · rw [h3, h4]
          exact feedLines_sepEq recog rest k _ _ [] hrel

/-- **An empty cleaned line (blank, whitespace-only or comment-only in the source) inside
a keyword changes nothing**, provided it does not fall inside a quoted token that spans
lines. -/
theorem feedLines_empty_line (recog : Bytes → Bool) (k : Kw) (buf gap : Bytes) (lines : List Bytes)
    (hgap : ∀ c ∈ gap, isSep c = true) (hout : buf = [] ∨ OutsideP buf) :
    feedLines recog k buf gap ([] :: lines) = feedLines recog k buf gap lines := by
  rw [feedLines_cons recog k buf gap [] lines nil_ne_eofMark]
  simp only [feedLine, List.isEmpty_nil, ↓reduceIte]
  by_cases hb : buf = []
  · subst hb
    simp only [List.isEmpty_nil, ↓reduceIte]
    exact feedLines_gap_empty recog lines k [] gap
  · have hbe : buf.isEmpty = false := by cases buf <;> simp_all
    simp only [hbe, Bool.false_eq_true, ↓reduceIte]
    have hout' : OutsideP buf := by
      rcases hout with h | h
      · exact absurd h hb
      · exact h
    exact feedLines_gap recog lines k buf _ gap hb hout'
      (by intro c hc; rcases List.mem_append.mp hc with h | h; exact hgap c h; simp at h; subst h; decide) hgap

/-! ### the line-break rule -/

theorem takeWhile_append_stop (p : UInt8 → Bool) (a : Bytes) (c : UInt8) (r : Bytes) (hc : p c = false) :
    (a ++ c :: r).takeWhile p = a.takeWhile p := by
  induction a with
  | nil => simp [List.takeWhile_cons, hc]
  | cons x a ih =>
    simp only [List.cons_append, List.takeWhile_cons]
    split
    · rw [ih]
    · rfl

theorem makeDeckName_join (a s b : Bytes) (hs : s ≠ []) (hsep : ∀ c ∈ s, isSep c = true) :
    makeDeckName (a ++ s ++ b) = makeDeckName a := by
  unfold makeDeckName
  cases s with
  | nil => exact absurd rfl hs
  | cons c s' =>
    have hc : isSep c = true := hsep c (by simp)
    rw [List.append_assoc, List.cons_append, takeWhile_append_stop _ a c _ (by simp [hc])]

/-- the scan of a text without open slash ends outside quotes only on a byte that is not
a slash. -/
theorem endState_none_last (a : Bytes) : ∀ (st : Option UInt8), StateOk st →
    endState isSlashAt st a = some none → a ≠ [] → a.getLast? ≠ some 47 := by
  induction a with
  | nil => intro st _ _ h; exact absurd rfl h
  | cons c r ih =>
    intro st hst h _
    cases r with
    | nil =>
      simp only [List.getLast?_singleton, ne_eq, Option.some.injEq]
      intro e
      subst e
      cases st with
      | none => simp [endState, isSlashAt] at h
      | some q =>
        simp only [endState, stepQ] at h
        split at h
        · next hq =>
          have := hst q rfl
          rw [← hq] at this
          revert this; decide
        · simp at h
    | cons d r' =>
      have hl : (c :: d :: r').getLast? = (d :: r').getLast? := by simp
      rw [hl]
      cases st with
      | none =>
        simp only [endState] at h
        split at h
        · cases h
        · exact ih _ (stateOk_stepQ none c stateOk_none) h (by simp)
      | some q =>
        simp only [endState] at h
        exact ih _ (stateOk_stepQ (some q) c hst) h (by simp)

/-- **`assemble_linebreak`** — for an ordinary (not raw-string) keyword, breaking a line of
a record in two at a separator run `s` gives the same raw keyword and the same remaining
lines, provided that: the break is outside quotes (`ha`: for `find_terminator`, which
honours `'` and `"`; `hout`: for the tokeniser, which honours `'` and the quoted part of `n*'…'`), the first part holds no
terminating slash (`ha`), and neither part is taken for the start of the next keyword
while the keyword could already be complete (`hra`, `hrb` — the property's "continuation
does not begin with a keyword-like word"); `hma`, `hmb`: the parts are lines of text, not the
end-of-file marker of the model (true of every cleaned line: it holds no '\n'). -/
theorem assemble_linebreak (recog : Bytes → Bool) (k : Kw) (hraw : k.raw = false)
    (buf gap a s b : Bytes) (rest : List Bytes)
    (hane : a ≠ []) (hbne : b ≠ []) (hs : s ≠ []) (hsep : ∀ c ∈ s, isSep c = true)
    (ha : BalancedNoSlash a)
    (hout : OutsideP (extendBuf buf gap a))
    (hra : (k.canComplete && recog (makeDeckName a)) = false)
    (hrb : (k.canComplete && recog (makeDeckName b)) = false)
    (hma : a ≠ eofMark) (hmb : b ≠ eofMark) :
    feedLines recog k buf gap ((a ++ s ++ b) :: rest) = feedLines recog k buf gap (a :: b :: rest) := by
  have hmJ : a ++ s ++ b ≠ eofMark := by
    intro e
    have := congrArg List.length e
    have h1 : 0 < a.length := List.length_pos_iff.mpr hane
    have h2 : 0 < b.length := List.length_pos_iff.mpr hbne
    simp only [List.length_append, eofMark, List.length_cons, List.length_nil] at this
    omega
  have hJne : (a ++ s ++ b).isEmpty = false := by cases a <;> simp_all
  have hae : a.isEmpty = false := by cases a <;> simp_all
  have hbe : b.isEmpty = false := by cases b <;> simp_all
  have hcutA : delAfterFirstSlash a = a := cutAt_of_endState a none none ha
  -- the scan passes `a` and the separators and then cuts `b`
  have hs_state : endState isSlashAt none (a ++ s) = some none := by
    rw [endState_append local2_slash s a none none ha (by intro c _ h; simpa [isSlashAt] using h)]
    exact endState_slash_seps s hsep
  have hcutJ : delAfterFirstSlash (a ++ s ++ b) = a ++ s ++ delAfterFirstSlash b := by
    unfold delAfterFirstSlash
    rw [cutAt_append_of_endState local2_slash b (a ++ s) none none hs_state
      (by intro c _ h; simpa [isSlashAt] using h)]
  have hE_ne : extendBuf buf gap a ≠ [] := by
    unfold extendBuf; split
    · exact hane
    · cases buf <;> simp_all
  have hEe : (extendBuf buf gap a).isEmpty = false := by
    cases h : extendBuf buf gap a with
    | nil => exact absurd h hE_ne
    | cons _ _ => rfl
  -- line `a` alone neither terminates the keyword nor a record
  have hnotterm : isTerminator (extendBuf buf gap a) = false := by
    unfold extendBuf
    split
    · cases a with
      | nil => exact absurd rfl hane
      | cons c r =>
        cases r with
        | nil =>
          have : c ≠ 47 := by
            intro e; subst e
            simp [BalancedNoSlash, endState, isSlashAt] at ha
          simp [isTerminator, this]
        | cons _ _ => simp [isTerminator]
    · next hb => cases buf with
      | nil => simp at hb
      | cons x buf' => simp [isTerminator]
  have hnotrec : isTerminatedRecordString (extendBuf buf gap a) = false := by
    have hl : (extendBuf buf gap a).getLast? = a.getLast? := by
      unfold extendBuf
      split
      · rfl
      · exact getLast_append_ne_nil _ a hane
    have := endState_none_last a none stateOk_none ha hane
    simp only [isTerminatedRecordString, hl]
    cases h : a.getLast? with
    | none => rfl
    | some v => simp only [beq_eq_false_iff_ne, ne_eq]; intro e; rw [h] at this; exact this e
  have hdnJ : makeDeckName (a ++ s ++ b) = makeDeckName a := makeDeckName_join a s b hs hsep
  -- unfold the first step on both sides
  have stepA : feedLine recog k buf gap a = .cont k (extendBuf buf gap a) [] := by
    simp only [feedLine, hae, Bool.false_eq_true, ↓reduceIte, hra, delAfterSlash, hraw, hcutA]
    exact afterExtend_cont k _ hnotterm hnotrec
  have stepB : feedLine recog k (extendBuf buf gap a) [] b =
      afterExtend k (extendBuf buf gap a ++ [10] ++ delAfterFirstSlash b) := by
    have e : extendBuf (extendBuf buf gap a) [] (delAfterFirstSlash b) =
        extendBuf buf gap a ++ [10] ++ delAfterFirstSlash b := by
      generalize extendBuf buf gap a = E at hEe
      unfold extendBuf
      rw [hEe]
      simp
    simp only [feedLine, hbe, Bool.false_eq_true, ↓reduceIte, hrb, delAfterSlash, hraw, e]
  have stepJ : feedLine recog k buf gap (a ++ s ++ b) =
      afterExtend k (extendBuf buf gap a ++ s ++ delAfterFirstSlash b) := by
    have : extendBuf buf gap (a ++ s ++ delAfterFirstSlash b) = extendBuf buf gap a ++ s ++ delAfterFirstSlash b := by
      unfold extendBuf; split <;> simp only [List.append_assoc]
    simp only [feedLine, hJne, Bool.false_eq_true, ↓reduceIte, hdnJ, hra, delAfterSlash, hraw, hcutJ, this]
  have hrel : SepEq (extendBuf buf gap a ++ s ++ delAfterFirstSlash b)
      (extendBuf buf gap a ++ [10] ++ delAfterFirstSlash b) :=
    ⟨extendBuf buf gap a, s, [10], delAfterFirstSlash b, rfl, rfl, hE_ne, hs, by simp, hsep, by decide, hout⟩
  rw [feedLines_cons recog k buf gap _ rest hmJ, feedLines_cons recog k buf gap a _ hma]
  simp only [stepA, stepJ]
  rw [feedLines_cons recog k _ [] b rest hmb]
  simp only [stepB]
  rcases afterExtend_sepEq k _ _ hrel with he | ⟨h3, h4⟩
  · rw [he]
    cases hstep : afterExtend k (extendBuf buf gap a ++ [10] ++ delAfterFirstSlash b) with
    | cont k' buf' gap' => rfl
    | done k' u =>
      have := afterExtend_unget k k' _ u hstep
      subst this
      rfl
    | err => rfl
  · rw [h3, h4]
    exact feedLines_sepEq recog rest k _ _ [] hrel

end OpmVerif.RawKw
