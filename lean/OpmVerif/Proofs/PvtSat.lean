/-
  The guide points and the saturated 1-D tables of the live-oil model: `fillTable` (repaired
  `appendSamplePoint`, LeftExtreme) leaves in `yPos` the first `y` of every record; the
  saturated tables built in `initEnd` are indexed by the same points.  With
  `Tab2D.eval_meets_saturated` this gives `undersat_meets_sat` for `Pvt.liveOil` itself.
-/
import OpmVerif.Proofs.PvtFill
import OpmVerif.Proofs.Tab2DGuide

namespace OpmVerif.Pvt
open OpmVerif.Tab1D OpmVerif.Tab2D

set_option linter.unusedSectionVars false
set_option linter.unusedSimpArgs false

variable {K : Type} [Field K] [LinearOrder K] [IsStrictOrderedRing K]

/-- first `y` of a record (the saturated pressure of a PVTO record), as `liveOil` reads it -/
def firstY (r : Rec K) : K := (r.rows.head?.map (fun row => row.1)).getD 0

theorem setAt_snocK (base : List K) (q x : K) : setAt (base ++ [q]) base.length x = base ++ [x] := by
  simp [setAt]

/-- The guide point after one append (repaired rule, LeftExtreme): set by the first sample of a
column, untouched afterwards. -/
theorem asp_yPos (t t' : Table K) (i : Nat) (y v : K) (hg : t.guide = .leftExtreme)
    (happ : (col t.colY i).isEmpty = true ∨ nth (col t.colY i) ((col t.colY i).length - 1) < y)
    (h : appendSamplePoint true t i y v = some t') :
    t'.yPos = if (col t.colY i).isEmpty = true then setAt t.yPos i y else t.yPos := by
  unfold appendSamplePoint at h
  rw [if_pos happ] at h
  have := Option.some.inj h
  subst this
  simp [hg]

theorem appendAll_yPos_keep : ∀ (pts : List (K × K)) (t : Table K) (bY bV : List (List K))
    (pY pV : List K), t.colY = bY ++ [pY] → t.colV = bV ++ [pV] → bV.length = bY.length →
    pY ≠ [] → StrictInc (pY ++ pts.map Prod.fst) → t.guide = .leftExtreme →
    ∀ t', appendAll true t bY.length pts = some t' → t'.yPos = t.yPos
  | [], t, _, _, _, _, _, _, _, _, _, _, t', h => by
    have : t = t' := Option.some.inj h
    rw [this]
  | (y, v) :: r, t, bY, bV, pY, pV, hY, hV, hl, hne, hs, hg, t', h => by
    have hs' : StrictInc (pY ++ y :: r.map Prod.fst) := by simpa using hs
    have hstep := strictInc_append_step pY y _ hs'
    obtain ⟨t1, e1, _, g1, y1, v1⟩ := appendSamplePoint_last_col true t bY bV pY pV y v hY hV hl hstep
    have c1 : col t.colY bY.length = pY := by rw [hY]; exact col_snoc bY pY
    have hy1 := asp_yPos t t1 bY.length y v hg (by rw [c1]; exact hstep) e1
    have hemp : ¬ ((col t.colY bY.length).isEmpty = true) := by
      rw [c1]; intro hc; exact hne (List.isEmpty_iff.mp hc)
    rw [if_neg hemp] at hy1
    have h' : appendAll true t1 bY.length r = some t' := by
      have : appendAll true t bY.length ((y, v) :: r) =
          (match appendSamplePoint true t bY.length y v with
            | none => none
            | some t' => appendAll true t' bY.length r) := rfl
      rw [this, e1] at h; exact h
    have hs1 : StrictInc ((pY ++ [y]) ++ r.map Prod.fst) := by simpa using hs'
    have := appendAll_yPos_keep r t1 bY bV (pY ++ [y]) (pV ++ [v]) y1 v1 hl (by simp) hs1 (by rw [g1, hg]) t' h'
    rw [this, hy1]

theorem appendAll_yPos_first (y0 v0 : K) (r : List (K × K)) (t : Table K) (bY bV : List (List K)) (bP : List K) (q : K)
    (hY : t.colY = bY ++ [[]]) (hV : t.colV = bV ++ [[]]) (hP : t.yPos = bP ++ [q])
    (hl : bV.length = bY.length) (hlP : bP.length = bY.length)
    (hs : StrictInc (y0 :: r.map Prod.fst)) (hg : t.guide = .leftExtreme)
    (t' : Table K) (h : appendAll true t bY.length ((y0, v0) :: r) = some t') :
    t'.yPos = bP ++ [y0] := by
  obtain ⟨t1, e1, _, g1, y1, v1⟩ := appendSamplePoint_last_col true t bY bV [] [] y0 v0 hY hV hl (Or.inl rfl)
  have c1 : col t.colY bY.length = [] := by rw [hY]; exact col_snoc bY []
  have hy1 := asp_yPos t t1 bY.length y0 v0 hg (by rw [c1]; exact Or.inl rfl) e1
  rw [c1] at hy1
  simp only [List.isEmpty_nil, if_true] at hy1
  rw [hP, ← hlP, setAt_snocK] at hy1
  have h' : appendAll true t1 bY.length r = some t' := by
    have : appendAll true t bY.length ((y0, v0) :: r) =
        (match appendSamplePoint true t bY.length y0 v0 with
          | none => none
          | some t' => appendAll true t' bY.length r) := rfl
    rw [this, e1] at h; exact h
  have := appendAll_yPos_keep r t1 bY bV ([] ++ [y0]) ([] ++ [v0]) y1 v1 hl (by simp) (by simpa using hs)
    (by rw [g1, hg]) t' h'
  rw [this, hy1]

/-- **Guide points after `fillTable`** (repaired rule, LeftExtreme, rows ascending, every record
non-empty): `yPos` gets the first `y` of every record. -/
theorem fillTable_yPos (c : Consts K) (val : K × K × K → K) :
    ∀ (recs : List (Rec K)) (t : Table K), t.colV.length = t.colY.length → t.yPos.length = t.colY.length →
    t.guide = .leftExtreme →
    (∀ r ∈ recs, StrictInc (r.rows.map (fun row => row.1)) ∧ r.rows ≠ []) →
    ∀ t', fillTable true c val t t.colY.length recs = some t' → t'.yPos = t.yPos ++ recs.map firstY
  | [], t, _, _, _, _, t', h => by
    have : t = t' := Option.some.inj h
    rw [← this]; simp
  | r :: rest, t, hl, hlP, hg, hs, t', h => by
    obtain ⟨hr, hne⟩ := hs r (by simp)
    obtain ⟨row0, rs, hrows⟩ : ∃ row0 rs, r.rows = row0 :: rs := by
      cases hh : r.rows with
      | nil => exact absurd hh hne
      | cons a b => exact ⟨a, b, rfl⟩
    have hasc : StrictInc ([] ++ (r.rows.map fun row => (row.1, val row)).map Prod.fst) := by
      simpa [List.map_map, Function.comp_def] using hr
    obtain ⟨t1, e1, _, g1, y1, v1⟩ := appendAll_last_col true (r.rows.map fun row => (row.1, val row))
      (appendXPos t r.key c.low) t.colY t.colV [] [] rfl rfl hl hasc
    have hpts : (r.rows.map fun row => (row.1, val row)) = (row0.1, val row0) :: rs.map fun row => (row.1, val row) := by
      rw [hrows]; rfl
    have hasc' : StrictInc (row0.1 :: (rs.map fun row => (row.1, val row)).map Prod.fst) := by
      have := hr; rw [hrows] at this
      simpa [List.map_map, Function.comp_def] using this
    have hy1 : t1.yPos = t.yPos ++ [row0.1] := by
      have e1' := e1; rw [hpts] at e1'
      exact appendAll_yPos_first row0.1 (val row0) _ (appendXPos t r.key c.low) t.colY t.colV t.yPos c.low
        rfl rfl rfl hl hlP hasc' hg t1 e1'
    have hl1 : t1.colV.length = t1.colY.length := by rw [y1, v1]; simp [hl]
    have hlen : t1.colY.length = t.colY.length + 1 := by rw [y1]; simp
    have hlP1 : t1.yPos.length = t1.colY.length := by rw [hy1, hlen]; simp [hlP]
    have h' : fillTable true c val t1 t1.colY.length rest = some t' := by
      have : fillTable true c val t t.colY.length (r :: rest) =
          (match appendAll true (appendXPos t r.key c.low) t.colY.length (r.rows.map fun row => (row.1, val row)) with
            | none => none
            | some t' => fillTable true c val t' (t.colY.length + 1) rest) := rfl
      rw [this, e1] at h; rw [hlen]; exact h
    have := fillTable_yPos c val rest t1 hl1 hlP1 (by rw [g1]; exact hg)
      (fun r' hr' => hs r' (List.mem_cons_of_mem _ hr')) t' h'
    rw [this, hy1]
    simp [firstY, hrows]

/-- The extension keeps keys and first rows. -/
theorem extendAll_keys_firstY (c : Consts K) : ∀ (recs ext : List (Rec K)), extendAll c recs = some ext →
    ext.map (fun r => r.key) = recs.map (fun r => r.key) ∧ ext.map firstY = recs.map firstY
  | [], ext, h => by simp [extendAll] at h; subst h; simp
  | r0 :: rest, ext, h => by
    unfold extendAll at h
    cases hrest : extendAll c rest with
    | none => rw [hrest] at h; simp at h
    | some rest' =>
      rw [hrest] at h
      simp only [] at h
      obtain ⟨ik, iy⟩ := extendAll_keys_firstY c rest rest' hrest
      by_cases h1 : 1 < r0.rows.length
      · rw [if_pos h1] at h
        have : ext = r0 :: rest' := (Option.some.inj h).symm
        subst this
        simp [ik, iy]
      · rw [if_neg h1] at h
        cases hrows : r0.rows with
        | nil => rw [hrows] at h; simp at h
        | cons row tl =>
          cases tl with
          | cons a b => rw [hrows] at h1; simp at h1
          | nil =>
            rw [hrows] at h
            cases hm : findMaster rest with
            | none => rw [hm] at h; simp at h
            | some m =>
              rw [hm] at h
              simp only [] at h
              have : ext = { r0 with rows := row :: extendRows c row m.rows } :: rest' := (Option.some.inj h).symm
              subst this
              simp [ik, iy, firstY, hrows]

theorem range_map_eq_map {β : Type} (l : List β) (f : Nat → K) (g : β → K)
    (h : ∀ i (hi : i < l.length), f i = g l[i]) : (List.range l.length).map f = l.map g := by
  apply List.ext_getElem
  · simp
  · intro i h1 h2
    simp at h1
    simp [h i h1]

/-- The fields of `L` as `initEnd` computes them. -/
theorem liveOil_fields (fix g : Bool) (c : Consts K) (recs : List (Rec K)) (L : Live K)
    (h : liveOil fix g c recs = some L) :
    L.rX = recs.map firstY ∧ L.rY = recs.map (fun r => r.key) ∧
    L.satX = (List.range L.muT.xPos.length).map (fun i => nth (col L.muT.colY i) 0) ∧
    L.invSatB = (List.range L.muT.xPos.length).map (fun i => nth (col L.invB.colV i) 0) := by
  unfold liveOil at h
  cases he : extendAll c recs with
  | none => rw [he] at h; simp at h
  | some ext =>
    rw [he] at h
    simp only [] at h
    cases h1 : fillTable fix c (fun row => 1 / row.2.1) (emptyTable .leftExtreme) 0 ext with
    | none => rw [h1] at h; simp at h
    | some invB =>
      cases h2 : fillTable fix c (fun row => row.2.2) (emptyTable .leftExtreme) 0 ext with
      | none => rw [h1, h2] at h; simp at h
      | some mu =>
        rw [h1, h2] at h
        simp only [] at h
        cases h3 : fillBMu fix c invB mu (emptyTable .leftExtreme) 0 mu.xPos.length with
        | none => rw [h3] at h; simp at h
        | some bm =>
          rw [h3] at h
          simp only [] at h
          have := Option.some.inj h
          subst this
          exact ⟨rfl, rfl, rfl, rfl⟩

/-- **undersat_meets_sat for the live-oil model** (code as repaired: the first sample sets the
LeftExtreme guide).  Records after the extension with strictly increasing keys (Rs) and
saturated pressures, every branch with ≥ 2 rows strictly increasing in pressure.  Then for
*every* pressure `p` — at the saturated nodes, between them, beyond the table —
`1/B(p, Rs_sat(p)) = 1/B_sat(p)`: the under-saturated surface meets the saturated curve. -/
theorem liveOil_undersat_meets_sat (g : Bool) (c : Consts K) (recs ext : List (Rec K)) (L : Live K)
    (h : liveOil true g c recs = some L) (he : extendAll c recs = some ext)
    (hk : StrictInc (ext.map fun r => r.key)) (hsat : StrictInc (ext.map firstY)) (hn : 2 ≤ ext.length)
    (hrows : ∀ r ∈ ext, StrictInc (r.rows.map fun row => row.1) ∧ 2 ≤ r.rows.length) (p : K) :
    L.invBAt (L.rsAt p) p = L.satInvBAt p := by
  obtain ⟨ext', he', hB, hM⟩ := liveOil_tables true g c recs L h
  rw [he] at he'
  have : ext' = ext := (Option.some.inj he').symm
  subst this
  obtain ⟨fX, fY, fS, fV⟩ := liveOil_fields true g c recs L h
  obtain ⟨kk, ky⟩ := extendAll_keys_firstY c recs ext' he
  have hasc : ∀ r ∈ ext', StrictInc (r.rows.map fun row => row.1) := fun r hr => (hrows r hr).1
  have hne : ∀ r ∈ ext', StrictInc (r.rows.map fun row => row.1) ∧ r.rows ≠ [] := by
    intro r hr
    refine ⟨(hrows r hr).1, ?_⟩
    intro hnil
    have := (hrows r hr).2
    rw [hnil] at this; simp at this
  -- layout of the 1/B table
  obtain ⟨tB, eB, gB, xB, yB, vB⟩ := fillTable_spec true c (fun row => 1 / row.2.1) ext' (emptyTable .leftExtreme) rfl hasc
  have eB' : fillTable true c (fun row => 1 / row.2.1) (emptyTable .leftExtreme) 0 ext' = some tB := eB
  rw [hB] at eB'
  have : L.invB = tB := Option.some.inj eB'
  subst this
  have pB := fillTable_yPos c (fun row => 1 / row.2.1) ext' (emptyTable .leftExtreme) rfl rfl rfl hne L.invB hB
  -- layout of the mu table (its first column entries index the saturated tables)
  obtain ⟨tM, eM, gM, xM, yM, vM⟩ := fillTable_spec true c (fun row => row.2.2) ext' (emptyTable .leftExtreme) rfl hasc
  have eM' : fillTable true c (fun row => row.2.2) (emptyTable .leftExtreme) 0 ext' = some tM := eM
  rw [hM] at eM'
  have : L.muT = tM := Option.some.inj eM'
  subst this
  have hxB : L.invB.xPos = ext'.map fun r => r.key := by rw [xB]; simp [emptyTable]
  have hyB : L.invB.colY = ext'.map fun r => r.rows.map fun row => row.1 := by rw [yB]; simp [emptyTable]
  have hvB : L.invB.colV = ext'.map fun r => r.rows.map fun row => 1 / row.2.1 := by rw [vB]; simp [emptyTable]
  have hpB : L.invB.yPos = ext'.map firstY := by rw [pB]; simp [emptyTable]
  have hxM : L.muT.xPos = ext'.map fun r => r.key := by rw [xM]; simp [emptyTable]
  have hyM : L.muT.colY = ext'.map fun r => r.rows.map fun row => row.1 := by rw [yM]; simp [emptyTable]
  have hlenM : L.muT.xPos.length = ext'.length := by rw [hxM]; simp
  -- first entry of a mapped non-empty row list
  have first_eq : ∀ (r : Rec K) (f : K × K × K → K), r ∈ ext' →
      nth (r.rows.map f) 0 = (r.rows.head?.map f).getD 0 := by
    intro r f hr
    cases hh : r.rows with
    | nil => simp [nth]
    | cons a b => simp [nth]
  have hsatX : L.satX = ext'.map firstY := by
    rw [fS, hlenM]
    apply range_map_eq_map
    intro i hi
    rw [hyM]
    simp only [col, List.getD_eq_getElem?_getD, List.getElem?_map, List.getElem?_eq_getElem hi, Option.map_some,
      Option.getD_some]
    exact first_eq _ _ (List.getElem_mem _)
  have hg : L.invB.guide = .leftExtreme := by rw [gB]; rfl
  unfold Live.invBAt Live.rsAt Live.satInvBAt
  rw [fX, fY, hsatX, ← ky, ← kk, ← hpB, ← hxB]
  refine eval_meets_saturated L.invB hg (by rw [hxB]; exact hk) (by rw [hpB]; exact hsat)
    (by rw [hxB]; simpa using hn) (by rw [hpB, hxB]; simp) L.invSatB ?_ p
  intro k hk'
  have hk2 : k < ext'.length := by rw [hxB] at hk'; simpa using hk'
  have hr := hrows ext'[k] (List.getElem_mem _)
  have cy : col L.invB.colY k = ext'[k].rows.map fun row => row.1 := by
    rw [hyB]; simp [col, List.getD_eq_getElem?_getD, List.getElem?_eq_getElem hk2]
  have cv : col L.invB.colV k = ext'[k].rows.map fun row => 1 / row.2.1 := by
    rw [hvB]; simp [col, List.getD_eq_getElem?_getD, List.getElem?_eq_getElem hk2]
  have yk : nth L.invB.yPos k = nth (col L.invB.colY k) 0 := by
    rw [hpB, cy, first_eq _ _ (List.getElem_mem _)]
    simp [nth, List.getD_eq_getElem?_getD, List.getElem?_eq_getElem hk2, firstY]
  rw [colEval_eq_evalX, yk]
  rw [evalX_node _ (by rw [cy]; exact hr.1) (by rw [cy]; simpa using hr.2) 0 (by rw [cy]; simp; omega)]
  rw [fV, hlenM]
  simp [nth, List.getD_eq_getElem?_getD, hk2]

end OpmVerif.Pvt
