/-
  Heap frame lemma for the copy-on-write snapshots: safe effect traces do not change what
  earlier snapshots denote.
-/
import OpmVerif.Model.SchedHeap

namespace OpmVerif.SchedHeap

theorem alloc_frame (reads : Nat → Bool) (σ : St) (hwf : WF σ) (sl : Slot) (v : Nat) :
    WF (alloc σ sl v) ∧ (alloc σ sl v).past = σ.past ∧
    ∀ s ∈ σ.past, denote reads (alloc σ sl v) s = denote reads σ s := by
  refine ⟨⟨?_, ?_⟩, rfl, ?_⟩
  · intro s hs sl' p hp
    have h := hwf.1 s hs sl' p hp
    show p < σ.next + 1
    exact Nat.lt_succ_of_lt h
  · intro sl' p hp
    show p < σ.next + 1
    have hp' : (if sl' = sl then some σ.next else σ.cur sl') = some p := hp
    split at hp'
    · cases hp'; exact Nat.lt_succ_self _
    · exact Nat.lt_succ_of_lt (hwf.2 sl' p hp')
  · intro s hs
    simp only [denote, alloc, Prod.mk.injEq, and_true]
    funext sl'
    cases hsl : s sl' with
    | none => rfl
    | some p =>
      have hlt : p < σ.next := hwf.1 s hs sl' p hsl
      simp only [Option.bind]
      rw [if_neg (Nat.ne_of_lt hlt)]

theorem step_frame (reads : Nat → Bool) (σ : St) (hwf : WF σ) (e : Eff) (hs : safe reads σ e) :
    WF (step σ e) ∧ (step σ e).past = σ.past ∧
    ∀ s ∈ σ.past, denote reads (step σ e) s = denote reads σ s := by
  cases e with
  | readCopy m k => exact ⟨hwf, rfl, fun _ _ => rfl⟩
  | update m v => exact alloc_frame reads σ hwf (m, 0) v
  | mapUpdate m k v => exact alloc_frame reads σ hwf (m, k) v
  | mutateInPlace m k f =>
    simp only [step]
    cases hc : σ.cur (m, k) with
    | none => exact ⟨hwf, rfl, fun _ _ => rfl⟩
    | some p =>
      refine ⟨⟨hwf.1, hwf.2⟩, rfl, ?_⟩
      intro s hsm
      simp only [denote, Prod.mk.injEq, and_true]
      funext sl
      cases hsl : s sl with
      | none => rfl
      | some q =>
        have hne : q ≠ p := by
          intro heq
          exact hs p hc s hsm sl (by rw [hsl, heq])
        simp only [Option.bind]
        rw [if_neg hne]
  | global g f =>
    refine ⟨⟨hwf.1, hwf.2⟩, rfl, ?_⟩
    intro s _
    simp only [denote, step, Prod.mk.injEq, true_and]
    funext x
    by_cases hx : x = g
    · subst hx
      have : reads x = false := hs
      simp [this]
    · simp [hx]

theorem exec_frame (reads : Nat → Bool) (effs : List Eff) (σ : St) (hwf : WF σ)
    (hs : SafeTrace reads σ effs) :
    WF (exec σ effs) ∧ (exec σ effs).past = σ.past ∧
    ∀ s ∈ σ.past, denote reads (exec σ effs) s = denote reads σ s := by
  induction effs generalizing σ with
  | nil => exact ⟨hwf, rfl, fun _ _ => rfl⟩
  | cons e r ih =>
    obtain ⟨h1, h2, h3⟩ := step_frame reads σ hwf e hs.1
    obtain ⟨i1, i2, i3⟩ := ih (step σ e) h1 hs.2
    refine ⟨i1, by rw [exec, i2, h2], ?_⟩
    intro s hsm
    rw [exec, i3 s (by rw [h2]; exact hsm), h3 s hsm]

theorem createNext_wf (σ : St) (hwf : WF σ) : WF (createNext σ) := by
  refine ⟨?_, hwf.2⟩
  intro s hs sl p hp
  simp only [createNext, List.mem_append, List.mem_singleton] at hs
  rcases hs with hs | hs
  · exact hwf.1 s hs sl p hp
  · subst hs; exact hwf.2 sl p hp

theorem createNext_denote (reads : Nat → Bool) (σ : St) (s : Snap) :
    denote reads (createNext σ) s = denote reads σ s := rfl

/-- Processing one block leaves every earlier snapshot — including the one that was current —
denoting what it denoted before. -/
theorem block_frame (reads : Nat → Bool) (σ : St) (hwf : WF σ) (effs : List Eff)
    (hs : SafeTrace reads (createNext σ) effs) :
    WF (processBlock σ effs) ∧ (processBlock σ effs).past = σ.past ++ [σ.cur] ∧
    ∀ s ∈ σ.past ++ [σ.cur], denote reads (processBlock σ effs) s = denote reads σ s := by
  obtain ⟨h1, h2, h3⟩ := exec_frame reads effs (createNext σ) (createNext_wf σ hwf) hs
  exact ⟨h1, h2, fun s hsm => by rw [processBlock, h3 s hsm, createNext_denote]⟩

theorem blocks_frame (reads : Nat → Bool) (bs : List (List Eff)) (σ : St) (hwf : WF σ)
    (hs : SafeBlocks reads σ bs) :
    ∃ more, (runBlocks σ bs).past = σ.past ++ more ∧
    ∀ s ∈ σ.past, denote reads (runBlocks σ bs) s = denote reads σ s := by
  induction bs generalizing σ with
  | nil => exact ⟨[], by simp [runBlocks], fun _ _ => rfl⟩
  | cons b r ih =>
    obtain ⟨h1, h2, h3⟩ := block_frame reads σ hwf b hs.1
    obtain ⟨more, i2, i3⟩ := ih (processBlock σ b) h1 hs.2
    refine ⟨σ.cur :: more, by rw [runBlocks, i2, h2]; simp, ?_⟩
    intro s hsm
    have hmem : s ∈ (processBlock σ b).past := by rw [h2]; exact List.mem_append_left _ hsm
    rw [runBlocks, i3 s hmem, h3 s (List.mem_append_left _ hsm)]

end OpmVerif.SchedHeap
