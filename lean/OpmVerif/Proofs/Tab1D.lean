/-
  Lemmas about the piecewise-linear table model (`Model/Tab1D.lean`) over an arbitrary
  linearly ordered field `K`.
-/
import Mathlib.Tactic.Ring
import Mathlib.Tactic.Linarith
import Mathlib.Tactic.FieldSimp
import Mathlib.Algebra.Order.Field.Basic
import OpmVerif.Model.Tab1D

namespace OpmVerif.Tab1D

set_option linter.unusedSectionVars false
set_option linter.unusedSimpArgs false

variable {K : Type} [Field K] [LinearOrder K] [IsStrictOrderedRing K]

/-- Sample positions are strictly increasing (what `sortInput_` establishes for distinct x). -/
def StrictInc (xs : List K) : Prop :=
  ∀ i j, i < j → j < xs.length → nth xs i < nth xs j

/-- Sample values are non-decreasing. -/
def MonoInc (ys : List K) : Prop :=
  ∀ i j, i ≤ j → j < ys.length → nth ys i ≤ nth ys j

theorem StrictInc.le {xs : List K} (h : StrictInc xs) {i j : Nat} (hij : i ≤ j) (hj : j < xs.length) :
    nth xs i ≤ nth xs j := by
  rcases Nat.lt_or_eq_of_le hij with h1 | h1
  · exact le_of_lt (h i j h1 hj)
  · subst h1; exact le_refl _

theorem StrictInc.lt_iff {xs : List K} (h : StrictInc xs) {i j : Nat} (hi : i < xs.length)
    (hj : j < xs.length) : nth xs i < nth xs j ↔ i < j := by
  constructor
  · intro hlt
    by_contra hn
    have : j ≤ i := Nat.le_of_not_lt hn
    exact absurd (h.le this hi) (not_le.mpr hlt)
  · intro hij; exact h i j hij hj

/-! ### The bisection loop -/

/-- Loop invariant of the bisection: starting from `xs[lo] ≤ x < xs[hi]`, `lo < hi`, with at
least `hi - lo` units of fuel, the loop ends on an *adjacent* pair bracketing `x`.
No ordering of `xs` is needed for this. -/
theorem bisect_spec (xs : List K) (x : K) :
    ∀ fuel lo hi, lo < hi → hi - lo ≤ fuel → nth xs lo ≤ x → x < nth xs hi →
      lo ≤ bisect xs x fuel lo hi ∧ bisect xs x fuel lo hi + 1 ≤ hi ∧
      nth xs (bisect xs x fuel lo hi) ≤ x ∧ x < nth xs (bisect xs x fuel lo hi + 1) := by
  intro fuel
  induction fuel with
  | zero => intro lo hi h1 h2; omega
  | succ f ih =>
    intro lo hi hlt hf hlo hhi
    unfold bisect
    by_cases hc : lo + 1 < hi
    · simp only [hc, if_true]
      have hp1 : lo < (lo + hi) / 2 := by omega
      have hp2 : (lo + hi) / 2 < hi := by omega
      by_cases hx : x < nth xs ((lo + hi) / 2)
      · simp only [hx, if_true]
        have := ih lo ((lo + hi) / 2) hp1 (by omega) hlo hx
        refine ⟨this.1, by omega, this.2.2.1, this.2.2.2⟩
      · simp only [hx, if_false]
        have := ih ((lo + hi) / 2) hi hp2 (by omega) (not_lt.mp hx) hhi
        refine ⟨by omega, this.2.1, this.2.2.1, this.2.2.2⟩
    · simp only [hc, if_false]
      have : hi = lo + 1 := by omega
      subst this
      exact ⟨le_refl _, le_refl _, hlo, hhi⟩

/-- Specification of the index search (end shortcuts + bisection) for every `x`, in range
or not: the index is a valid segment; unless it is the first segment `x` is not left of it,
unless it is the last segment `x` is not right of it. -/
theorem segIdx_spec {xs : List K} (hs : StrictInc xs) (hn : 2 ≤ xs.length) (x : K) :
    segIdx xs x + 2 ≤ xs.length ∧
    (0 < segIdx xs x → nth xs (segIdx xs x) ≤ x) ∧
    (segIdx xs x + 2 < xs.length → x ≤ nth xs (segIdx xs x + 1)) := by
  unfold segIdx
  by_cases h1 : x ≤ nth xs 1
  · rw [if_pos h1]
    refine ⟨by omega, by omega, fun _ => h1⟩
  · rw [if_neg h1]
    by_cases h2 : nth xs (xs.length - 2) ≤ x
    · rw [if_pos h2]
      refine ⟨by omega, fun _ => h2, by omega⟩
    · rw [if_neg h2]
      have h1' : nth xs 1 < x := not_le.mp h1
      have h2' : x < nth xs (xs.length - 2) := not_le.mp h2
      have hlt : nth xs 1 < nth xs (xs.length - 2) := lt_trans h1' h2'
      have h12 : 1 < xs.length - 2 := (hs.lt_iff (by omega) (by omega)).mp hlt
      have := bisect_spec xs x xs.length 1 (xs.length - 2) h12 (by omega) (le_of_lt h1') h2'
      refine ⟨by omega, fun _ => this.2.2.1, fun _ => le_of_lt this.2.2.2⟩

/-- `fuel = length` is enough: more fuel does not change the result. -/
theorem bisect_fuel (xs : List K) (x : K) :
    ∀ fuel lo hi, hi - lo ≤ fuel → ∀ extra, bisect xs x (fuel + extra) lo hi = bisect xs x fuel lo hi := by
  intro fuel
  induction fuel with
  | zero =>
    intro lo hi h extra
    cases extra with
    | zero => rfl
    | succ e =>
      have : ¬ lo + 1 < hi := by omega
      simp [bisect, this]
  | succ f ih =>
    intro lo hi h extra
    have e : f + 1 + extra = (f + extra) + 1 := by omega
    rw [e]
    unfold bisect
    by_cases hc : lo + 1 < hi
    · simp only [hc, if_true]
      by_cases hx : x < nth xs ((lo + hi) / 2)
      · simp only [hx, if_true]; exact ih _ _ (by omega) extra
      · simp only [hx, if_false]; exact ih _ _ (by omega) extra
    · simp only [hc, if_false]

/-- With `extrapolate = true` the run-time checks of `findSegmentIndex` never fire on a
table of at least two strictly increasing samples: neither "too few sampling points" nor the
"Problematic interpolation/extrapolation segment" throw is reachable. -/
theorem findSegmentIndex_extrap {xs : List K} (hs : StrictInc xs) (hn : 2 ≤ xs.length) (x : K) :
    findSegmentIndex xs x true = .ok (segIdx xs x) := by
  unfold findSegmentIndex segIdx
  have hn' : ¬ xs.length < 2 := by omega
  simp only [Bool.true_eq_false, false_and, if_false, hn']
  by_cases h1 : x ≤ nth xs 1
  · simp only [h1, if_true]
  · simp only [h1, if_false]
    by_cases h2 : nth xs (xs.length - 2) ≤ x
    · simp only [h2, if_true]
    · simp only [h2, if_false]
      have h1' : nth xs 1 < x := not_le.mp h1
      have h2' : x < nth xs (xs.length - 2) := not_le.mp h2
      have h12 : 1 < xs.length - 2 := (hs.lt_iff (by omega) (by omega)).mp (lt_trans h1' h2')
      have := bisect_spec xs x xs.length 1 (xs.length - 2) h12 (by omega) (le_of_lt h1') h2'
      have hc : ¬ (x < nth xs (bisect xs x xs.length 1 (xs.length - 2)) ∨
          nth xs (bisect xs x xs.length 1 (xs.length - 2) + 1) < x) := by
        intro h
        rcases h with h | h
        · exact absurd this.2.2.1 (not_le.mpr h)
        · exact absurd this.2.2.2 (not_lt.mpr (le_of_lt h))
      simp only [hc, if_false]

/-- In range, the `extrapolate` flag is irrelevant. -/
theorem findSegmentIndex_inrange {xs : List K} (hs : StrictInc xs) (hn : 2 ≤ xs.length) (x : K)
    (hlo : nth xs 0 ≤ x) (hhi : x ≤ nth xs (xs.length - 1)) (ex : Bool) :
    findSegmentIndex xs x ex = .ok (segIdx xs x) := by
  rw [← findSegmentIndex_extrap hs hn x]
  unfold findSegmentIndex
  have : ¬ (ex = false ∧ ¬ (nth xs 0 ≤ x ∧ x ≤ nth xs (xs.length - 1))) := by
    intro h; exact h.2 ⟨hlo, hhi⟩
  simp only [this, if_false, Bool.true_eq_false, false_and]

/-- Outside the range and without extrapolation the call throws. -/
theorem findSegmentIndex_outside (xs : List K) (x : K)
    (h : ¬ (nth xs 0 ≤ x ∧ x ≤ nth xs (xs.length - 1))) :
    findSegmentIndex xs x false = .error .outOfRange := by
  unfold findSegmentIndex
  have : (false = false ∧ ¬ (nth xs 0 ≤ x ∧ x ≤ nth xs (xs.length - 1))) := ⟨rfl, h⟩
  rw [if_pos this]

/-- **bisect_correct.** For strictly increasing `xs` of any length ≥ 2 and
`xs[0] ≤ x ≤ xs.last`, `findSegmentIndex` succeeds and the returned index `i` satisfies
`xs[i] ≤ x ≤ xs[i+1]`. -/
theorem bisect_correct {xs : List K} (hs : StrictInc xs) (hn : 2 ≤ xs.length) (x : K)
    (hlo : nth xs 0 ≤ x) (hhi : x ≤ nth xs (xs.length - 1)) (ex : Bool) :
    ∃ i, findSegmentIndex xs x ex = .ok i ∧ i + 1 < xs.length ∧ nth xs i ≤ x ∧ x ≤ nth xs (i + 1) := by
  refine ⟨segIdx xs x, findSegmentIndex_inrange hs hn x hlo hhi ex, ?_⟩
  obtain ⟨h1, h2, h3⟩ := segIdx_spec hs hn x
  refine ⟨by omega, ?_, ?_⟩
  · rcases Nat.eq_zero_or_pos (segIdx xs x) with h0 | h0
    · rw [h0]; exact hlo
    · exact h2 h0
  · by_cases hl : segIdx xs x + 2 < xs.length
    · exact h3 hl
    · have : segIdx xs x + 1 = xs.length - 1 := by omega
      rw [this]; exact hhi

/-- The segment containing `x` strictly inside is unique, hence `segIdx` returns it. -/
theorem segIdx_of_mem_open {xs : List K} (hs : StrictInc xs) (hn : 2 ≤ xs.length) (x : K) (i : Nat)
    (hi : i + 1 < xs.length) (h1 : nth xs i < x) (h2 : x < nth xs (i + 1)) : segIdx xs x = i := by
  obtain ⟨a, b, c⟩ := segIdx_spec hs hn x
  by_contra hne
  rcases Nat.lt_or_gt_of_ne hne with hlt | hgt
  · -- segIdx < i : then x ≤ xs[seg+1] ≤ xs[i] < x
    have h3 := c (by omega)
    have h4 : nth xs (segIdx xs x + 1) ≤ nth xs i := hs.le (by omega) (by omega)
    exact absurd (lt_of_le_of_lt (le_trans h3 h4) h1) (lt_irrefl _)
  · have h3 := b (by omega)
    have h4 : nth xs (i + 1) ≤ nth xs (segIdx xs x) := hs.le (by omega) (by omega)
    exact absurd (lt_of_lt_of_le h2 (le_trans h4 h3)) (lt_irrefl _)

/-- At a sample position the index is that sample's left or right segment. -/
theorem segIdx_node {xs : List K} (hs : StrictInc xs) (hn : 2 ≤ xs.length) (k : Nat) (hk : k < xs.length) :
    segIdx xs (nth xs k) = k ∨ segIdx xs (nth xs k) + 1 = k := by
  obtain ⟨a, b, c⟩ := segIdx_spec hs hn (nth xs k)
  by_contra hne
  have hne' : segIdx xs (nth xs k) ≠ k ∧ segIdx xs (nth xs k) + 1 ≠ k := by
    constructor
    · intro h; exact hne (Or.inl h)
    · intro h; exact hne (Or.inr h)
  rcases Nat.lt_or_ge k (segIdx xs (nth xs k)) with hlt | hge
  · have := b (by omega)
    exact absurd (hs k _ hlt (by omega)) (not_lt.mpr this)
  · have hgt : segIdx xs (nth xs k) + 1 < k := by omega
    have := c (by omega)
    exact absurd (hs _ k hgt hk) (not_lt.mpr this)

/-- The index search is monotone in `x`. -/
theorem segIdx_mono {xs : List K} (hs : StrictInc xs) (hn : 2 ≤ xs.length) {x x' : K} (h : x ≤ x') :
    segIdx xs x ≤ segIdx xs x' := by
  obtain ⟨a, b, c⟩ := segIdx_spec hs hn x
  obtain ⟨a', b', c'⟩ := segIdx_spec hs hn x'
  by_contra hlt
  have hlt : segIdx xs x' < segIdx xs x := Nat.lt_of_not_le hlt
  have h1 := b (by omega)
  have h2 := c' (by omega)
  have h3 : nth xs (segIdx xs x' + 1) ≤ nth xs (segIdx xs x) := hs.le (by omega) (by omega)
  -- x' ≤ xs[i'+1] ≤ xs[i] ≤ x ≤ x'
  have e1 : x = x' := le_antisymm h (le_trans h2 (le_trans h3 h1))
  rw [e1] at hlt
  exact lt_irrefl _ hlt

/-! ### One segment: algebra of `evalSeg` / `derivSeg` -/

theorem evalSeg_left (xs ys : List K) (i : Nat) : evalSeg xs ys i (nth xs i) = nth ys i := by
  simp [evalSeg]

theorem evalSeg_right (xs ys : List K) (i : Nat) (h : nth xs i ≠ nth xs (i + 1)) :
    evalSeg xs ys i (nth xs (i + 1)) = nth ys (i + 1) := by
  have hd : nth xs (i + 1) - nth xs i ≠ 0 := sub_ne_zero.mpr (Ne.symm h)
  unfold evalSeg
  rw [mul_div_assoc, div_self hd]
  ring

/-- The value returned by `evalDerivative` is the slope of `eval` on the segment:
`eval x' − eval x = evalDerivative · (x' − x)` for any two arguments evaluated on segment `i`. -/
theorem evalSeg_sub (xs ys : List K) (i : Nat) (x x' : K) :
    evalSeg xs ys i x' - evalSeg xs ys i x = derivSeg xs ys i * (x' - x) := by
  unfold evalSeg derivSeg
  simp only [div_eq_mul_inv]
  ring

theorem evalSeg_affine (xs ys : List K) (i : Nat) (x : K) :
    evalSeg xs ys i x = nth ys i + derivSeg xs ys i * (x - nth xs i) := by
  unfold evalSeg derivSeg
  simp only [div_eq_mul_inv]
  ring

theorem derivSeg_nonneg (xs ys : List K) (i : Nat) (hx : nth xs i < nth xs (i + 1))
    (hy : nth ys i ≤ nth ys (i + 1)) : 0 ≤ derivSeg xs ys i := by
  unfold derivSeg
  exact div_nonneg (sub_nonneg.mpr hy) (le_of_lt (sub_pos.mpr hx))

theorem derivSeg_pos (xs ys : List K) (i : Nat) (hx : nth xs i < nth xs (i + 1))
    (hy : nth ys i < nth ys (i + 1)) : 0 < derivSeg xs ys i := by
  unfold derivSeg
  exact div_pos (sub_pos.mpr hy) (sub_pos.mpr hx)

theorem evalSeg_between (xs ys : List K) (i : Nat) (x : K) (hx : nth xs i < nth xs (i + 1))
    (h1 : nth xs i ≤ x) (h2 : x ≤ nth xs (i + 1)) :
    min (nth ys i) (nth ys (i + 1)) ≤ evalSeg xs ys i x ∧
    evalSeg xs ys i x ≤ max (nth ys i) (nth ys (i + 1)) := by
  have hd : 0 < nth xs (i + 1) - nth xs i := sub_pos.mpr hx
  have ht0 : 0 ≤ (x - nth xs i) / (nth xs (i + 1) - nth xs i) :=
    div_nonneg (sub_nonneg.mpr h1) (le_of_lt hd)
  have ht1 : (x - nth xs i) / (nth xs (i + 1) - nth xs i) ≤ 1 := by
    rw [div_le_one hd]; linarith
  have he : evalSeg xs ys i x =
      nth ys i + (nth ys (i + 1) - nth ys i) * ((x - nth xs i) / (nth xs (i + 1) - nth xs i)) := by
    unfold evalSeg; rw [mul_div_assoc]
  rw [he]
  generalize (x - nth xs i) / (nth xs (i + 1) - nth xs i) = t at ht0 ht1
  rcases le_total (nth ys i) (nth ys (i + 1)) with h | h
  · rw [min_eq_left h, max_eq_right h]
    constructor
    · nlinarith [mul_nonneg (sub_nonneg.mpr h) ht0]
    · nlinarith [mul_nonneg (sub_nonneg.mpr h) (sub_nonneg.mpr ht1)]
  · rw [min_eq_right h, max_eq_left h]
    constructor
    · nlinarith [mul_nonneg (sub_nonneg.mpr h) (sub_nonneg.mpr ht1)]
    · nlinarith [mul_nonneg (sub_nonneg.mpr h) ht0]

theorem evalSeg_mono (xs ys : List K) (i : Nat) (hx : nth xs i < nth xs (i + 1))
    (hy : nth ys i ≤ nth ys (i + 1)) {x x' : K} (h : x ≤ x') :
    evalSeg xs ys i x ≤ evalSeg xs ys i x' := by
  have := evalSeg_sub xs ys i x x'
  have h2 : 0 ≤ derivSeg xs ys i * (x' - x) :=
    mul_nonneg (derivSeg_nonneg xs ys i hx hy) (sub_nonneg.mpr h)
  linarith

theorem evalSeg_strictMono (xs ys : List K) (i : Nat) (hx : nth xs i < nth xs (i + 1))
    (hy : nth ys i < nth ys (i + 1)) {x x' : K} (h : x < x') :
    evalSeg xs ys i x < evalSeg xs ys i x' := by
  have := evalSeg_sub xs ys i x x'
  have h2 : 0 < derivSeg xs ys i * (x' - x) :=
    mul_pos (derivSeg_pos xs ys i hx hy) (sub_pos.mpr h)
  linarith

/-! ### The whole function -/

/-- **eval_node.** The interpolant reproduces every sample exactly. -/
theorem evalX_node {xs : List K} (ys : List K) (hs : StrictInc xs) (hn : 2 ≤ xs.length)
    (k : Nat) (hk : k < xs.length) : evalX xs ys (nth xs k) = nth ys k := by
  unfold evalX
  obtain ⟨a, _, _⟩ := segIdx_spec hs hn (nth xs k)
  rcases segIdx_node hs hn k hk with h | h
  · rw [h]; exact evalSeg_left xs ys k
  · have e : k = segIdx xs (nth xs k) + 1 := h.symm
    have hne : nth xs (segIdx xs (nth xs k)) ≠ nth xs (segIdx xs (nth xs k) + 1) :=
      ne_of_lt (hs _ _ (Nat.lt_succ_self _) (by omega))
    have := evalSeg_right xs ys (segIdx xs (nth xs k)) hne
    rw [← e] at this
    rw [this]

/-- Continuity at the nodes: the segment left of sample `i+1` and the segment right of it
give the same value there, namely `ys[i+1]`. -/
theorem evalSeg_continuous_at_node {xs : List K} (ys : List K) (hs : StrictInc xs) (i : Nat)
    (hi : i + 1 < xs.length) :
    evalSeg xs ys i (nth xs (i + 1)) = nth ys (i + 1) ∧
    evalSeg xs ys (i + 1) (nth xs (i + 1)) = nth ys (i + 1) :=
  ⟨evalSeg_right xs ys i (ne_of_lt (hs _ _ (Nat.lt_succ_self _) hi)), evalSeg_left xs ys (i + 1)⟩

/-- **eval_between.** In range the value lies between the two bracketing sample values. -/
theorem evalX_between {xs : List K} (ys : List K) (hs : StrictInc xs) (hn : 2 ≤ xs.length) (x : K)
    (hlo : nth xs 0 ≤ x) (hhi : x ≤ nth xs (xs.length - 1)) :
    min (nth ys (segIdx xs x)) (nth ys (segIdx xs x + 1)) ≤ evalX xs ys x ∧
    evalX xs ys x ≤ max (nth ys (segIdx xs x)) (nth ys (segIdx xs x + 1)) := by
  obtain ⟨i, hi, hlt, h1, h2⟩ := bisect_correct hs hn x hlo hhi true
  rw [findSegmentIndex_extrap hs hn x] at hi
  injection hi with hi
  unfold evalX
  rw [hi]
  exact evalSeg_between xs ys i x (hs _ _ (Nat.lt_succ_self _) hlt) h1 h2

/-- Range: in range the value lies between the smallest and the largest sample of a
monotone column, i.e. in `[ys[0], ys.last]`. -/
theorem evalX_range {xs ys : List K} (hs : StrictInc xs) (hn : 2 ≤ xs.length)
    (hl : ys.length = xs.length) (hm : MonoInc ys) (x : K)
    (hlo : nth xs 0 ≤ x) (hhi : x ≤ nth xs (xs.length - 1)) :
    nth ys 0 ≤ evalX xs ys x ∧ evalX xs ys x ≤ nth ys (ys.length - 1) := by
  obtain ⟨a, _, _⟩ := segIdx_spec hs hn x
  obtain ⟨b1, b2⟩ := evalX_between ys hs hn x hlo hhi
  have m1 : nth ys (segIdx xs x) ≤ nth ys (segIdx xs x + 1) := hm _ _ (Nat.le_succ _) (by omega)
  rw [min_eq_left m1] at b1
  rw [max_eq_right m1] at b2
  exact ⟨le_trans (hm 0 _ (Nat.zero_le _) (by omega)) b1,
         le_trans b2 (hm _ _ (by omega) (by omega))⟩

/-- **eval_monotone.** For non-decreasing sample values the interpolant (including its
linear extrapolation on both sides) is non-decreasing. -/
theorem evalX_mono {xs ys : List K} (hs : StrictInc xs) (hn : 2 ≤ xs.length)
    (hl : ys.length = xs.length) (hm : MonoInc ys) {x x' : K} (h : x ≤ x') :
    evalX xs ys x ≤ evalX xs ys x' := by
  obtain ⟨a, b, c⟩ := segIdx_spec hs hn x
  obtain ⟨a', b', c'⟩ := segIdx_spec hs hn x'
  have hle := segIdx_mono hs hn h
  unfold evalX
  rcases Nat.lt_or_eq_of_le hle with hlt | heq
  · -- different segments: go through the node values
    have s1 : nth xs (segIdx xs x) < nth xs (segIdx xs x + 1) := hs _ _ (Nat.lt_succ_self _) (by omega)
    have s2 : nth xs (segIdx xs x') < nth xs (segIdx xs x' + 1) := hs _ _ (Nat.lt_succ_self _) (by omega)
    have m1 : nth ys (segIdx xs x) ≤ nth ys (segIdx xs x + 1) := hm _ _ (Nat.le_succ _) (by omega)
    have m2 : nth ys (segIdx xs x') ≤ nth ys (segIdx xs x' + 1) := hm _ _ (Nat.le_succ _) (by omega)
    have hx1 : x ≤ nth xs (segIdx xs x + 1) := c (by omega)
    have hx2 : nth xs (segIdx xs x') ≤ x' := b' (by omega)
    calc evalSeg xs ys (segIdx xs x) x
        ≤ evalSeg xs ys (segIdx xs x) (nth xs (segIdx xs x + 1)) := evalSeg_mono xs ys _ s1 m1 hx1
      _ = nth ys (segIdx xs x + 1) := evalSeg_right xs ys _ (ne_of_lt s1)
      _ ≤ nth ys (segIdx xs x') := hm _ _ (by omega) (by omega)
      _ = evalSeg xs ys (segIdx xs x') (nth xs (segIdx xs x')) := (evalSeg_left xs ys _).symm
      _ ≤ evalSeg xs ys (segIdx xs x') x' := evalSeg_mono xs ys _ s2 m2 hx2
  · rw [← heq]
    exact evalSeg_mono xs ys _ (hs _ _ (Nat.lt_succ_self _) (by omega)) (hm _ _ (Nat.le_succ _) (by omega)) h

/-- Strictly increasing sample values give a strictly increasing interpolant (hence an
injective one: this is what makes the saturated Rs(p) relation invertible). -/
def StrictIncY (ys : List K) : Prop := ∀ i j, i < j → j < ys.length → nth ys i < nth ys j

theorem StrictIncY.mono {ys : List K} (h : StrictIncY ys) : MonoInc ys := by
  intro i j hij hj
  rcases Nat.lt_or_eq_of_le hij with h1 | h1
  · exact le_of_lt (h i j h1 hj)
  · subst h1; exact le_refl _

theorem evalX_strictMono {xs ys : List K} (hs : StrictInc xs) (hn : 2 ≤ xs.length)
    (hl : ys.length = xs.length) (hm : StrictIncY ys) {x x' : K} (h : x < x') :
    evalX xs ys x < evalX xs ys x' := by
  obtain ⟨a, b, c⟩ := segIdx_spec hs hn x
  obtain ⟨a', b', c'⟩ := segIdx_spec hs hn x'
  have hle := segIdx_mono hs hn (le_of_lt h)
  unfold evalX
  rcases Nat.lt_or_eq_of_le hle with hlt | heq
  · have s1 : nth xs (segIdx xs x) < nth xs (segIdx xs x + 1) := hs _ _ (Nat.lt_succ_self _) (by omega)
    have s2 : nth xs (segIdx xs x') < nth xs (segIdx xs x' + 1) := hs _ _ (Nat.lt_succ_self _) (by omega)
    have m1 : nth ys (segIdx xs x) < nth ys (segIdx xs x + 1) := hm _ _ (Nat.lt_succ_self _) (by omega)
    have m2 : nth ys (segIdx xs x') < nth ys (segIdx xs x' + 1) := hm _ _ (Nat.lt_succ_self _) (by omega)
    have hx1 : x ≤ nth xs (segIdx xs x + 1) := c (by omega)
    have hx2 : nth xs (segIdx xs x') ≤ x' := b' (by omega)
    have e1 : evalSeg xs ys (segIdx xs x) x ≤ nth ys (segIdx xs x + 1) := by
      rw [← evalSeg_right xs ys _ (ne_of_lt s1)]
      exact evalSeg_mono xs ys _ s1 (le_of_lt m1) hx1
    have e2 : nth ys (segIdx xs x') ≤ evalSeg xs ys (segIdx xs x') x' := by
      rw [← evalSeg_left xs ys (segIdx xs x')]
      exact evalSeg_mono xs ys _ s2 (le_of_lt m2) hx2
    have e3 : nth ys (segIdx xs x + 1) ≤ nth ys (segIdx xs x') := hm.mono _ _ (by omega) (by omega)
    -- strictness comes from one of the two ends: x < x'
    rcases lt_or_eq_of_le hx1 with hx1' | hx1'
    · have : evalSeg xs ys (segIdx xs x) x < nth ys (segIdx xs x + 1) := by
        rw [← evalSeg_right xs ys _ (ne_of_lt s1)]
        exact evalSeg_strictMono xs ys _ s1 m1 hx1'
      exact lt_of_lt_of_le this (le_trans e3 e2)
    · -- x is the node seg+1; then x' > that node
      have hx' : nth xs (segIdx xs x + 1) < x' := by rw [← hx1']; exact h
      rcases Nat.lt_or_eq_of_le (Nat.succ_le_of_lt hlt) with hlt2 | heq2
      · have : nth ys (segIdx xs x + 1) < nth ys (segIdx xs x') := hm _ _ hlt2 (by omega)
        exact lt_of_le_of_lt e1 (lt_of_lt_of_le this e2)
      · have heq2' : segIdx xs x + 1 = segIdx xs x' := heq2
        have : nth ys (segIdx xs x') < evalSeg xs ys (segIdx xs x') x' := by
          have hh : nth xs (segIdx xs x') < x' := by rw [← heq2']; exact hx'
          have := evalSeg_strictMono xs ys _ s2 m2 hh
          rwa [evalSeg_left] at this
        exact lt_of_le_of_lt (le_trans e1 e3) this
  · rw [← heq]
    exact evalSeg_strictMono xs ys _ (hs _ _ (Nat.lt_succ_self _) (by omega)) (hm _ _ (Nat.lt_succ_self _) (by omega)) h

/-- **evalDerivative_is_slope** (algebraic form): for two arguments falling into the same
segment, the difference quotient of `eval` equals the value returned by `evalDerivative`. -/
theorem derivX_is_slope (xs ys : List K) (x x' : K) (h : segIdx xs x' = segIdx xs x) :
    evalX xs ys x' - evalX xs ys x = derivX xs ys x * (x' - x) := by
  unfold evalX derivX
  rw [h]
  exact evalSeg_sub xs ys _ x x'

/-- … in particular for any two points strictly inside the same table segment. -/
theorem derivX_is_slope_open {xs : List K} (ys : List K) (hs : StrictInc xs) (hn : 2 ≤ xs.length)
    (i : Nat) (hi : i + 1 < xs.length) (x x' : K)
    (h1 : nth xs i < x) (h2 : x < nth xs (i + 1)) (h1' : nth xs i < x') (h2' : x' < nth xs (i + 1)) :
    evalX xs ys x' - evalX xs ys x = derivX xs ys x * (x' - x) ∧
    derivX xs ys x = (nth ys (i + 1) - nth ys i) / (nth xs (i + 1) - nth xs i) := by
  have e1 := segIdx_of_mem_open hs hn x i hi h1 h2
  have e2 := segIdx_of_mem_open hs hn x' i hi h1' h2'
  refine ⟨derivX_is_slope xs ys x x' (by rw [e1, e2]), ?_⟩
  unfold derivX derivSeg
  rw [e1]

/-! ### Link to the `Except`-valued API -/

theorem eval_extrap {xs : List K} (ys : List K) (hs : StrictInc xs) (hn : 2 ≤ xs.length) (x : K) :
    eval xs ys x true = .ok (evalX xs ys x) := by
  unfold eval
  rw [findSegmentIndex_extrap hs hn x]
  rfl

theorem evalDerivative_extrap {xs : List K} (ys : List K) (hs : StrictInc xs) (hn : 2 ≤ xs.length) (x : K) :
    evalDerivative xs ys x true = .ok (derivX xs ys x) := by
  unfold evalDerivative
  rw [findSegmentIndex_extrap hs hn x]
  rfl

/-! ### Small concrete tables (for non-vacuity examples) -/

theorem strictInc_two {a b : K} (h1 : a < b) : StrictInc [a, b] := by
  intro i j hij hj
  have : j = 1 := by simp at hj; omega
  subst this
  have : i = 0 := by omega
  subst this; simpa [nth] using h1

theorem strictInc_three {a b c : K} (h1 : a < b) (h2 : b < c) : StrictInc [a, b, c] := by
  intro i j hij hj
  have : j = 1 ∨ j = 2 := by simp at hj; omega
  rcases this with rfl | rfl
  · have : i = 0 := by omega
    subst this; simpa [nth] using h1
  · have : i = 0 ∨ i = 1 := by omega
    rcases this with rfl | rfl
    · simpa [nth] using lt_trans h1 h2
    · simpa [nth] using h2

theorem monoInc_three {a b c : K} (h1 : a ≤ b) (h2 : b ≤ c) : MonoInc [a, b, c] := by
  intro i j hij hj
  have : j = 0 ∨ j = 1 ∨ j = 2 := by simp at hj; omega
  rcases this with rfl | rfl | rfl
  · have : i = 0 := by omega
    subst this; simp [nth]
  · have : i = 0 ∨ i = 1 := by omega
    rcases this with rfl | rfl
    · simpa [nth] using h1
    · simp [nth]
  · have : i = 0 ∨ i = 1 ∨ i = 2 := by omega
    rcases this with rfl | rfl | rfl
    · simpa [nth] using le_trans h1 h2
    · simpa [nth] using h2
    · simp [nth]

end OpmVerif.Tab1D
