/-
  Lemmas about the UDQ parser model (`Model/UdqParse.lean`): the parser inverts the printer of
  the documented grammar, fuel sufficiency, fuel monotonicity.
-/
import OpmVerif.Model.UdqParse

namespace OpmVerif.Udq
open OpmVerif.Gen.UdqEnums

/-! ### one-step unfoldings (definitional) -/

theorem parseFactor_succ (n ts) : parseFactor (n+1) ts = (match ts with
    | [] => .ok errNode []
    | t :: r =>
      if cls t.ty = .add then parseAtom n false r
      else if cls t.ty = .sub then parseAtom n true r
      else parseAtom n false ts) := rfl

theorem parseAtom_succ (n neg ts) : parseAtom (n+1) neg ts = (match ts with
    | [] => .ok errNode []
    | c :: r =>
      if cls c.ty = .lp then
        match parseSet n r with
        | .fuel => .fuel
        | .ok inner rest => closeParen neg id inner rest
      else if cls c.ty = .func then
        match r with
        | [] => .ok errNode []
        | c2 :: r2 =>
          if cls c2.ty = .lp then
            match parseSet n r2 with
            | .fuel => .fuel
            | .ok arg rest => closeParen neg (Ast.un (opHead c)) arg rest
          else .ok errNode r
      else if c.ty = .number ∨ c.ty = .ecl_expr then .ok (.leaf (leafHead c neg)) r
      else .ok errNode ts) := rfl

theorem parsePow_succ (n ts) : parsePow (n+1) ts = (match parseFactor n ts with
    | .fuel => .fuel
    | .ok left rest =>
      match rest with
      | [] => .ok left []
      | c :: r =>
        if cls c.ty = .pow then
          match r with
          | [] => .ok errNode []
          | _ :: _ =>
            match parsePow n r with
            | .fuel => .fuel
            | .ok right rest2 => .ok (.bin (opHead c) left right) rest2
        else .ok left rest) := rfl

theorem parseMul_succ (n ts) : parseMul (n+1) ts = (match parsePow n ts with
    | .fuel => .fuel
    | .ok a rest => parseMulLoop n a [] rest) := rfl

theorem parseMulLoop_succ (n n0 acc rest) : parseMulLoop (n+1) n0 acc rest = (match rest with
    | [] => .ok (build n0 acc) []
    | c :: r =>
      if cls c.ty = .mul ∨ cls c.ty = .div then
        match r with
        | [] => .ok errNode []
        | _ :: _ =>
          match parsePow n r with
          | .fuel => .fuel
          | .ok b rest2 => parseMulLoop n n0 ((opHead c, b) :: acc) rest2
      else .ok (build n0 acc) rest) := rfl

theorem parseAdd_succ (n ts) : parseAdd (n+1) ts = (match parseMul n ts with
    | .fuel => .fuel
    | .ok a rest => parseAddLoop n a [] rest) := rfl

theorem parseAddLoop_succ (n n0 acc rest) : parseAddLoop (n+1) n0 acc rest = (match rest with
    | [] => .ok (build n0 acc) []
    | c :: r =>
      if cls c.ty = .add ∨ cls c.ty = .sub then
        match r with
        | [] => .ok errNode []
        | _ :: _ =>
          match parseMul n r with
          | .fuel => .fuel
          | .ok b rest2 => parseAddLoop n n0 ((opHead c, b) :: acc) rest2
      else if cls c.ty = .rp ∨ cls c.ty = .cmp ∨ cls c.ty = .set then .ok (build n0 acc) rest
      else .ok errNode rest) := rfl

theorem parseCmp_succ (n ts) : parseCmp (n+1) ts = (match parseAdd n ts with
    | .fuel => .fuel
    | .ok left rest =>
      match rest with
      | [] => .ok left []
      | c :: r =>
        if cls c.ty = .cmp then
          match r with
          | [] => .ok errNode []
          | _ :: _ =>
            match parseCmp n r with
            | .fuel => .fuel
            | .ok right rest2 => .ok (.bin (opHead c) left right) rest2
        else .ok left rest) := rfl

theorem parseSet_succ (n ts) : parseSet (n+1) ts = (match parseCmp n ts with
    | .fuel => .fuel
    | .ok left rest =>
      match rest with
      | [] => .ok left []
      | c :: r =>
        if cls c.ty = .set then
          match r with
          | [] => .ok errNode []
          | _ :: _ =>
            match parseSet n r with
            | .fuel => .fuel
            | .ok right rest2 => .ok (.bin (opHead c) left right) rest2
        else .ok left rest) := rfl

/-! ### "eventually" judgement: from some fuel on the answer is `r` -/

def Ev (g : Nat → Res) (r : Res) : Prop := ∃ f0, ∀ f, f0 ≤ f → g f = r

theorem Ev.const (r : Res) : Ev (fun _ => r) r := ⟨0, fun _ _ => rfl⟩

theorem Ev.step2 {g g1 g2 : Nat → Res} {r1 r : Res} (e1 : Ev g1 r1)
    (h : ∀ n, g1 n = r1 → g (n+1) = g2 n) (e2 : Ev g2 r) : Ev g r := by
  obtain ⟨f1, h1⟩ := e1
  obtain ⟨f2, h2⟩ := e2
  refine ⟨max f1 f2 + 1, fun f hf => ?_⟩
  obtain ⟨k, rfl⟩ : ∃ k, f = k + 1 := ⟨f - 1, by omega⟩
  rw [h k (h1 k (by omega))]
  exact h2 k (by omega)

theorem Ev.step {g g' : Nat → Res} {r : Res} (h : ∀ n, g (n+1) = g' n) (e : Ev g' r) : Ev g r :=
  Ev.step2 (Ev.const .fuel) (fun n _ => h n) e

theorem Ev.step1 {g g1 : Nat → Res} {r1 r : Res} (e1 : Ev g1 r1)
    (h : ∀ n, g1 n = r1 → g (n+1) = r) : Ev g r :=
  Ev.step2 e1 h (Ev.const r)

theorem Ev.step3 {g g1 g2 : Nat → Res} {r1 r2 r : Res} (e1 : Ev g1 r1) (e2 : Ev g2 r2)
    (h : ∀ n, g1 n = r1 → g2 n = r2 → g (n+1) = r) : Ev g r := by
  obtain ⟨f1, h1⟩ := e1
  obtain ⟨f2, h2⟩ := e2
  refine ⟨max f1 f2 + 1, fun f hf => ?_⟩
  obtain ⟨k, rfl⟩ : ∃ k, f = k + 1 := ⟨f - 1, by omega⟩
  exact h k (h1 k (by omega)) (h2 k (by omega))

/-- class of the first remaining token -/
def headCls : List Tok → Option Cls
  | [] => none
  | c :: _ => some (cls c.ty)

/-! ### big-step rules of the parser -/

theorem ev_atom_leaf {c : Tok} {r : List Tok} (neg : Bool) (h1 : cls c.ty ≠ .lp) (h2 : cls c.ty ≠ .func)
    (h3 : c.ty = .number ∨ c.ty = .ecl_expr) :
    Ev (fun f => parseAtom f neg (c :: r)) (.ok (.leaf (leafHead c neg)) r) :=
  Ev.step (g' := fun _ => _) (fun n => by rw [parseAtom_succ]; simp only [h1, h2, if_false, h3, if_true]) (Ev.const _)

theorem cls_leafTy {t : TT} (h : t = .number ∨ t = .ecl_expr) : cls t = .other := by
  rcases h with h | h <;> rw [h] <;> decide

theorem ev_atom_paren {c c2 : Tok} {r r2 : List Tok} {inner : Ast} (neg : Bool)
    (h1 : cls c.ty = .lp) (h2 : cls c2.ty = .rp)
    (e : Ev (fun f => parseSet f r) (.ok inner (c2 :: r2))) :
    Ev (fun f => parseAtom f neg (c :: r)) (.ok (inner.scale neg) r2) :=
  Ev.step1 e (fun n hn => by
    rw [parseAtom_succ]; simp only [h1, if_true, hn, closeParen, h2, id])

theorem ev_atom_func {c c2 c3 : Tok} {r2 r3 : List Tok} {arg : Ast} (neg : Bool)
    (h1 : cls c.ty = .func) (h2 : cls c2.ty = .lp) (h3 : cls c3.ty = .rp)
    (e : Ev (fun f => parseSet f r2) (.ok arg (c3 :: r3))) :
    Ev (fun f => parseAtom f neg (c :: c2 :: r2)) (.ok ((Ast.un (opHead c) arg).scale neg) r3) :=
  Ev.step1 e (fun n hn => by
    rw [parseAtom_succ]
    simp [h1, h2, hn, closeParen, h3])

theorem ev_factor_pos {t : Tok} {r : List Tok} {res : Res} (h1 : cls t.ty ≠ .add) (h2 : cls t.ty ≠ .sub)
    (e : Ev (fun f => parseAtom f false (t :: r)) res) : Ev (fun f => parseFactor f (t :: r)) res :=
  Ev.step (fun n => by rw [parseFactor_succ]; simp only [h1, h2, if_false]) e

theorem ev_factor_neg {t : Tok} {r : List Tok} {res : Res} (h : cls t.ty = .sub)
    (e : Ev (fun f => parseAtom f true r) res) : Ev (fun f => parseFactor f (t :: r)) res :=
  Ev.step (fun n => by
    rw [parseFactor_succ]
    simp [h]) e

theorem ev_pow_none {ts rest : List Tok} {a : Ast} (e : Ev (fun f => parseFactor f ts) (.ok a rest))
    (h : headCls rest ≠ some .pow) : Ev (fun f => parsePow f ts) (.ok a rest) :=
  Ev.step1 e (fun n hn => by
    rw [parsePow_succ]; simp only [hn]
    cases rest with
    | nil => rfl
    | cons c r =>
      have : cls c.ty ≠ .pow := fun hc => h (by simp [headCls, hc])
      simp only [this, if_false])

theorem ev_pow_op {ts r rest2 : List Tok} {c : Tok} {a b : Ast}
    (e1 : Ev (fun f => parseFactor f ts) (.ok a (c :: r))) (hc : cls c.ty = .pow) (hr : r ≠ [])
    (e2 : Ev (fun f => parsePow f r) (.ok b rest2)) :
    Ev (fun f => parsePow f ts) (.ok (.bin (opHead c) a b) rest2) :=
  Ev.step3 e1 e2 (fun n h1 h2 => by
    rw [parsePow_succ]; simp only [h1, hc, if_true]
    cases r with
    | nil => exact absurd rfl hr
    | cons x xs => simp only [h2])

theorem ev_mul {ts rest : List Tok} {a : Ast} {res : Res}
    (e1 : Ev (fun f => parsePow f ts) (.ok a rest))
    (e2 : Ev (fun f => parseMulLoop f a [] rest) res) : Ev (fun f => parseMul f ts) res :=
  Ev.step2 e1 (fun n hn => by rw [parseMul_succ]; simp only [hn]) e2

theorem ev_mulLoop_exit {rest : List Tok} (n0 : Ast) (acc : List (Head × Ast))
    (h1 : headCls rest ≠ some .mul) (h2 : headCls rest ≠ some .div) :
    Ev (fun f => parseMulLoop f n0 acc rest) (.ok (build n0 acc) rest) :=
  Ev.step (g' := fun _ => _) (fun n => by
    rw [parseMulLoop_succ]
    cases rest with
    | nil => rfl
    | cons c r =>
      have a1 : cls c.ty ≠ .mul := fun hc => h1 (by simp [headCls, hc])
      have a2 : cls c.ty ≠ .div := fun hc => h2 (by simp [headCls, hc])
      simp only [a1, a2, or_self, if_false]) (Ev.const _)

theorem ev_mulLoop_step {r rest2 : List Tok} {c : Tok} {n0 b : Ast} {acc : List (Head × Ast)} {res : Res}
    (hc : cls c.ty = .mul ∨ cls c.ty = .div) (hr : r ≠ [])
    (e1 : Ev (fun f => parsePow f r) (.ok b rest2))
    (e2 : Ev (fun f => parseMulLoop f n0 ((opHead c, b) :: acc) rest2) res) :
    Ev (fun f => parseMulLoop f n0 acc (c :: r)) res :=
  Ev.step2 e1 (fun n hn => by
    rw [parseMulLoop_succ]; simp only [hc, if_true]
    cases r with
    | nil => exact absurd rfl hr
    | cons x xs => simp only [hn]) e2

theorem ev_add {ts rest : List Tok} {a : Ast} {res : Res}
    (e1 : Ev (fun f => parseMul f ts) (.ok a rest))
    (e2 : Ev (fun f => parseAddLoop f a [] rest) res) : Ev (fun f => parseAdd f ts) res :=
  Ev.step2 e1 (fun n hn => by rw [parseAdd_succ]; simp only [hn]) e2

/-- `parse_add` leaves its loop without error only in front of `)`, a comparison, a union
operator or the end of input. -/
def addStop : Option Cls → Prop
  | none => True
  | some k => k = .rp ∨ k = .cmp ∨ k = .set

theorem ev_addLoop_exit {rest : List Tok} (n0 : Ast) (acc : List (Head × Ast))
    (h : addStop (headCls rest)) :
    Ev (fun f => parseAddLoop f n0 acc rest) (.ok (build n0 acc) rest) :=
  Ev.step (g' := fun _ => _) (fun n => by
    rw [parseAddLoop_succ]
    cases rest with
    | nil => rfl
    | cons c r =>
      have h' : cls c.ty = .rp ∨ cls c.ty = .cmp ∨ cls c.ty = .set := h
      have a1 : ¬ (cls c.ty = .add ∨ cls c.ty = .sub) := by
        rcases h' with h' | h' | h' <;> rw [h'] <;> decide
      simp only [a1, if_false, h', if_true]) (Ev.const _)

theorem ev_addLoop_step {r rest2 : List Tok} {c : Tok} {n0 b : Ast} {acc : List (Head × Ast)} {res : Res}
    (hc : cls c.ty = .add ∨ cls c.ty = .sub) (hr : r ≠ [])
    (e1 : Ev (fun f => parseMul f r) (.ok b rest2))
    (e2 : Ev (fun f => parseAddLoop f n0 ((opHead c, b) :: acc) rest2) res) :
    Ev (fun f => parseAddLoop f n0 acc (c :: r)) res :=
  Ev.step2 e1 (fun n hn => by
    rw [parseAddLoop_succ]; simp only [hc, if_true]
    cases r with
    | nil => exact absurd rfl hr
    | cons x xs => simp only [hn]) e2

theorem ev_cmp_none {ts rest : List Tok} {a : Ast} (e : Ev (fun f => parseAdd f ts) (.ok a rest))
    (h : headCls rest ≠ some .cmp) : Ev (fun f => parseCmp f ts) (.ok a rest) :=
  Ev.step1 e (fun n hn => by
    rw [parseCmp_succ]; simp only [hn]
    cases rest with
    | nil => rfl
    | cons c r =>
      have : cls c.ty ≠ .cmp := fun hc => h (by simp [headCls, hc])
      simp only [this, if_false])

theorem ev_cmp_op {ts r rest2 : List Tok} {c : Tok} {a b : Ast}
    (e1 : Ev (fun f => parseAdd f ts) (.ok a (c :: r))) (hc : cls c.ty = .cmp) (hr : r ≠ [])
    (e2 : Ev (fun f => parseCmp f r) (.ok b rest2)) :
    Ev (fun f => parseCmp f ts) (.ok (.bin (opHead c) a b) rest2) :=
  Ev.step3 e1 e2 (fun n h1 h2 => by
    rw [parseCmp_succ]; simp only [h1, hc, if_true]
    cases r with
    | nil => exact absurd rfl hr
    | cons x xs => simp only [h2])

theorem ev_set_none {ts rest : List Tok} {a : Ast} (e : Ev (fun f => parseCmp f ts) (.ok a rest))
    (h : headCls rest ≠ some .set) : Ev (fun f => parseSet f ts) (.ok a rest) :=
  Ev.step1 e (fun n hn => by
    rw [parseSet_succ]; simp only [hn]
    cases rest with
    | nil => rfl
    | cons c r =>
      have : cls c.ty ≠ .set := fun hc => h (by simp [headCls, hc])
      simp only [this, if_false])

theorem ev_set_op {ts r rest2 : List Tok} {c : Tok} {a b : Ast}
    (e1 : Ev (fun f => parseCmp f ts) (.ok a (c :: r))) (hc : cls c.ty = .set) (hr : r ≠ [])
    (e2 : Ev (fun f => parseSet f r) (.ok b rest2)) :
    Ev (fun f => parseSet f ts) (.ok (.bin (opHead c) a b) rest2) :=
  Ev.step3 e1 e2 (fun n h1 h2 => by
    rw [parseSet_succ]; simp only [h1, hc, if_true]
    cases r with
    | nil => exact absurd rfl hr
    | cons x xs => simp only [h2])

/-! ### the `nodes` vector can be collapsed into one left operand -/

theorem build_append (n0 : Ast) (new acc : List (Head × Ast)) :
    build n0 (new ++ acc) = build (build n0 acc) new := by
  induction new with
  | nil => rfl
  | cons x xs ih => obtain ⟨h, r⟩ := x; simp only [List.cons_append, build, ih]

theorem parseMulLoop_collapse (f : Nat) : ∀ (n0 : Ast) (acc : List (Head × Ast)) (rest : List Tok),
    parseMulLoop f n0 acc rest = parseMulLoop f (build n0 acc) [] rest := by
  induction f with
  | zero => intros; rfl
  | succ n ih =>
    intro n0 acc rest
    rw [parseMulLoop_succ, parseMulLoop_succ]
    cases rest with
    | nil => rfl
    | cons c r =>
      by_cases hc : cls c.ty = .mul ∨ cls c.ty = .div
      · simp only [hc, if_true]
        cases r with
        | nil => rfl
        | cons x xs =>
          cases hp : parsePow n (x :: xs) with
          | fuel => rfl
          | ok b rest2 =>
            simp only []
            rw [ih n0 ((opHead c, b) :: acc) rest2, ih (build n0 acc) [(opHead c, b)] rest2]
            rfl
      · simp only [hc, if_false]; rfl

theorem parseAddLoop_collapse (f : Nat) : ∀ (n0 : Ast) (acc : List (Head × Ast)) (rest : List Tok),
    parseAddLoop f n0 acc rest = parseAddLoop f (build n0 acc) [] rest := by
  induction f with
  | zero => intros; rfl
  | succ n ih =>
    intro n0 acc rest
    rw [parseAddLoop_succ, parseAddLoop_succ]
    cases rest with
    | nil => rfl
    | cons c r =>
      by_cases hc : cls c.ty = .add ∨ cls c.ty = .sub
      · simp only [hc, if_true]
        cases r with
        | nil => rfl
        | cons x xs =>
          cases hp : parseMul n (x :: xs) with
          | fuel => rfl
          | ok b rest2 =>
            simp only []
            rw [ih n0 ((opHead c, b) :: acc) rest2, ih (build n0 acc) [(opHead c, b)] rest2]
            rfl
      · simp only [hc, if_false]; rfl

/-! ### what may follow an expression printed at rank `lvl` -/

def allowed (lvl : Nat) (k : Cls) : Prop :=
  k = .rp ∨ (1 ≤ lvl ∧ k = .set) ∨ (2 ≤ lvl ∧ k = .cmp) ∨ (3 ≤ lvl ∧ (k = .add ∨ k = .sub))
    ∨ (4 ≤ lvl ∧ (k = .mul ∨ k = .div)) ∨ (5 ≤ lvl ∧ k = .pow)

def okRest (lvl : Nat) : List Tok → Prop
  | [] => True
  | c :: _ => allowed lvl (cls c.ty)

theorem okRest_mono {a b : Nat} (h : a ≤ b) {rest : List Tok} (o : okRest a rest) : okRest b rest := by
  cases rest with
  | nil => trivial
  | cons c r =>
    simp only [okRest, allowed] at o ⊢
    rcases o with o | ⟨h1, o⟩ | ⟨h1, o⟩ | ⟨h1, o⟩ | ⟨h1, o⟩ | ⟨h1, o⟩
    · exact Or.inl o
    · exact Or.inr (Or.inl ⟨by omega, o⟩)
    · exact Or.inr (Or.inr (Or.inl ⟨by omega, o⟩))
    · exact Or.inr (Or.inr (Or.inr (Or.inl ⟨by omega, o⟩)))
    · exact Or.inr (Or.inr (Or.inr (Or.inr (Or.inl ⟨by omega, o⟩))))
    · exact Or.inr (Or.inr (Or.inr (Or.inr (Or.inr ⟨by omega, o⟩))))

theorem okRest_cons {lvl : Nat} {c : Tok} {r : List Tok} (h : allowed lvl (cls c.ty)) : okRest lvl (c :: r) := h

/-- head class of `rest` is not `k` whenever `k` is not allowed at `lvl` -/
theorem okRest_head_ne {lvl : Nat} {rest : List Tok} (o : okRest lvl rest) {k : Cls}
    (hk : ¬ allowed lvl k) : headCls rest ≠ some k := by
  cases rest with
  | nil => simp [headCls]
  | cons c r =>
    intro h
    simp only [headCls, Option.some.injEq] at h
    exact hk (h ▸ o)

def parseAt (lvl : Nat) : Nat → List Tok → Res :=
  match lvl with
  | 0 => parseSet
  | 1 => parseCmp
  | 2 => parseAdd
  | 3 => parseMul
  | 4 => parsePow
  | _ => parseFactor

theorem lift_one {ts rest : List Tok} {a : Ast} : ∀ (j : Nat), j < 5 →
    Ev (fun f => parseAt (j+1) f ts) (.ok a rest) → okRest j rest →
    Ev (fun f => parseAt j f ts) (.ok a rest)
  | 0, _, e, o => ev_set_none e (okRest_head_ne o (by simp [allowed]))
  | 1, _, e, o => ev_cmp_none e (okRest_head_ne o (by simp [allowed]))
  | 2, _, e, o => by
    refine ev_add e ?_
    have : addStop (headCls rest) := by
      cases rest with
      | nil => trivial
      | cons c r =>
        simp only [okRest, allowed] at o
        simp only [headCls, addStop]
        rcases o with o | ⟨_, o⟩ | ⟨_, o⟩ | ⟨h1, _⟩ | ⟨h1, _⟩ | ⟨h1, _⟩
        · exact Or.inl o
        · exact Or.inr (Or.inr o)
        · exact Or.inr (Or.inl o)
        · omega
        · omega
        · omega
    exact ev_addLoop_exit a [] this
  | 3, _, e, o =>
    ev_mul e (ev_mulLoop_exit a [] (okRest_head_ne o (by simp [allowed])) (okRest_head_ne o (by simp [allowed])))
  | 4, _, e, o => ev_pow_none e (okRest_head_ne o (by simp [allowed]))
  | n + 5, h, _, _ => by omega

theorem lift {ts rest : List Tok} {a : Ast} : ∀ (d j : Nat), j + d ≤ 5 →
    Ev (fun f => parseAt (j + d) f ts) (.ok a rest) → okRest j rest →
    Ev (fun f => parseAt j f ts) (.ok a rest)
  | 0, _, _, e, _ => e
  | d + 1, j, h, e, o => by
    have e' : Ev (fun f => parseAt (j + 1 + d) f ts) (.ok a rest) := by
      have : j + 1 + d = j + (d + 1) := by omega
      rw [this]; exact e
    exact lift_one j (by omega) (lift d (j + 1) (by omega) e' (okRest_mono (by omega) o)) o

theorem lift_to {ts rest : List Tok} {a : Ast} {k lvl : Nat} (hk : k ≤ 5) (hl : lvl ≤ k)
    (e : Ev (fun f => parseAt k f ts) (.ok a rest)) (o : okRest lvl rest) :
    Ev (fun f => parseAt lvl f ts) (.ok a rest) := by
  obtain ⟨d, rfl⟩ : ∃ d, k = lvl + d := ⟨k - lvl, by omega⟩
  exact lift d lvl hk e o

/-! ### facts about the printer -/

theorem renderBody_ne_nil (e : Ast) : renderBody e ≠ [] := by
  cases e with
  | leaf h => simp [renderBody]
  | un h a => simp [renderBody]
  | bin h l r => simp [renderBody]

theorem wrap_ne_nil (lvl : Nat) (e : Ast) {body : List Tok} (hb : body ≠ []) : wrap lvl e body ≠ [] := by
  unfold wrap
  split
  · simp
  · split
    · exact hb
    · simp

theorem renderAt_ne_nil (lvl : Nat) (e : Ast) : renderAt lvl e ≠ [] :=
  wrap_ne_nil lvl e (renderBody_ne_nil e)

theorem scale_false (e : Ast) : e.scale false = e := by
  cases e <;> simp [Ast.scale, Head.scale]

theorem head_scale (e : Ast) (b : Bool) : (e.scale b).head = e.head.scale b := by
  cases e <;> rfl

/-- the same tree with sign `+1` at the root -/
def unneg (e : Ast) : Ast := e.scale e.head.neg

theorem unneg_scale (e : Ast) : (unneg e).scale e.head.neg = e := by
  cases e <;> simp [unneg, Ast.scale, Head.scale, Ast.head]

theorem unneg_of_pos {e : Ast} (h : e.head.neg = false) : unneg e = e := by
  rw [unneg, h, scale_false]

theorem opHead_tok {h : Head} (hs : h.sel = []) : opHead h.tok = h.scale h.neg := by
  cases h with
  | mk ty val sel neg => simp only [] at hs; subst hs; simp [opHead, Head.tok, Head.scale]

theorem cls_lp : cls lpTok.ty = .lp := by decide
theorem cls_rp : cls rpTok.ty = .rp := by decide
theorem cls_minus : cls minusTok.ty = .sub := by decide

theorem allowed_rp (lvl : Nat) : allowed lvl .rp := Or.inl rfl

/-! ### the parser inverts the printer -/

/-- rank-`lvl` parser on the rank-`lvl` print-out of `e` returns `e` and stops in front of
anything that may follow a rank-`lvl` expression -/
def P (e : Ast) : Prop := ∀ lvl rest, lvl ≤ 5 → okRest lvl rest →
  Ev (fun f => parseAt lvl f (renderAt lvl e ++ rest)) (.ok e rest)

/-- `parse_mul` on the rank-3 print-out of `e` continues its loop with `e` as left operand -/
def P3 (e : Ast) : Prop := ∀ rest res, okRest 4 rest →
  Ev (fun f => parseMulLoop f e [] rest) res → Ev (fun f => parseMul f (renderAt 3 e ++ rest)) res

def P2 (e : Ast) : Prop := ∀ rest res, okRest 3 rest →
  Ev (fun f => parseAddLoop f e [] rest) res → Ev (fun f => parseAdd f (renderAt 2 e ++ rest)) res

/-- Body of a parenthesis-free binary node parsed at its own rank. -/
def Body (e : Ast) : Prop := ∀ rest, okRest (natLevel e) rest →
  Ev (fun f => parseAt (natLevel e) f (renderBody e ++ rest)) (.ok (unneg e) rest)

/-- leaves and function calls: parsed by `parseAtom` under any sign -/
def BodyAtom (e : Ast) : Prop := ∀ neg rest,
  Ev (fun f => parseAtom f neg (renderBody e ++ rest)) (.ok ((unneg e).scale neg) rest)

theorem natLevel_le (e : Ast) : natLevel e ≤ 5 := by
  cases e with
  | leaf h => simp [natLevel]
  | un h a => simp [natLevel]
  | bin h l r => simp only [natLevel]; split <;> omega

/-- a parenthesised body parsed by `parse_factor` under sign `neg` -/
theorem paren_of_body {e : Ast} (hb : Body e) (neg : Bool) (rest : List Tok) :
    Ev (fun f => parseAtom f neg (lpTok :: (renderBody e ++ rpTok :: rest)))
      (.ok ((unneg e).scale neg) rest) := by
  have o : okRest (natLevel e) (rpTok :: rest) := okRest_cons (by rw [cls_rp]; exact allowed_rp _)
  have e0 := lift_to (natLevel_le e) (Nat.zero_le _) (hb (rpTok :: rest) o)
    (okRest_cons (by rw [cls_rp]; exact allowed_rp _))
  exact ev_atom_paren neg cls_lp cls_rp e0

theorem P_of_atom {e : Ast} (hnb : e.isBin = false) (hc : ∃ t r, renderBody e = t :: r ∧ cls t.ty ≠ .add ∧ cls t.ty ≠ .sub)
    (ha : BodyAtom e) : P e := by
  intro lvl rest hl o
  have hn5 : natLevel e = 5 := by cases e <;> simp_all [natLevel, Ast.isBin]
  obtain ⟨t, r, hr, h1, h2⟩ := hc
  cases hneg : e.head.neg with
  | true =>
    have hw : renderAt lvl e = minusTok :: renderBody e := by simp [renderAt, wrap, hneg, hnb]
    rw [hw]
    have e1 := ha true rest
    have hu : (unneg e).scale true = e := by have := unneg_scale e; rwa [hneg] at this
    rw [hu] at e1
    have e2 : Ev (fun f => parseAt 5 f (minusTok :: renderBody e ++ rest)) (.ok e rest) :=
      ev_factor_neg cls_minus e1
    exact lift_to (Nat.le_refl 5) hl e2 o
  | false =>
    have hw : renderAt lvl e = renderBody e := by simp [renderAt, wrap, hneg, hn5, hl]
    rw [hw]
    have e1 := ha false rest
    rw [scale_false, unneg_of_pos hneg] at e1
    have e2 : Ev (fun f => parseAt 5 f (renderBody e ++ rest)) (.ok e rest) := by
      rw [hr] at e1 ⊢
      exact ev_factor_pos h1 h2 e1
    exact lift_to (Nat.le_refl 5) hl e2 o

theorem P_of_body {e : Ast} (hbin : e.isBin = true) (hb : Body e) : P e := by
  intro lvl rest hl o
  have hlp1 : cls lpTok.ty ≠ .add := by decide
  have hlp2 : cls lpTok.ty ≠ .sub := by decide
  cases hneg : e.head.neg with
  | true =>
    have hw : renderAt lvl e ++ rest = minusTok :: lpTok :: (renderBody e ++ rpTok :: rest) := by
      simp [renderAt, wrap, hneg, hbin]
    rw [hw]
    have e1 := paren_of_body hb true rest
    have hu : (unneg e).scale true = e := by have := unneg_scale e; rwa [hneg] at this
    rw [hu] at e1
    have e2 : Ev (fun f => parseAt 5 f (minusTok :: lpTok :: (renderBody e ++ rpTok :: rest))) (.ok e rest) :=
      ev_factor_neg cls_minus e1
    exact lift_to (Nat.le_refl 5) hl e2 o
  | false =>
    by_cases hlv : lvl ≤ natLevel e
    · have hw : renderAt lvl e = renderBody e := by simp [renderAt, wrap, hneg, hlv]
      rw [hw]
      have e1 := hb rest (okRest_mono hlv o)
      rw [unneg_of_pos hneg] at e1
      exact lift_to (natLevel_le e) hlv e1 o
    · have hw : renderAt lvl e ++ rest = lpTok :: (renderBody e ++ rpTok :: rest) := by
        simp [renderAt, wrap, hneg, hlv]
      rw [hw]
      have e1 := paren_of_body hb false rest
      rw [scale_false, unneg_of_pos hneg] at e1
      have e2 : Ev (fun f => parseAt 5 f (lpTok :: (renderBody e ++ rpTok :: rest))) (.ok e rest) :=
        ev_factor_pos hlp1 hlp2 e1
      exact lift_to (Nat.le_refl 5) hl e2 o

theorem unneg_bin {h : Head} {l r : Ast} (hs : h.sel = []) :
    unneg (.bin h l r) = .bin (opHead h.tok) l r := by
  simp [unneg, Ast.scale, Ast.head, opHead_tok hs]

theorem renderAt_append_cons (lvl : Nat) (l : Ast) (t : Tok) (xs rest : List Tok) :
    (renderAt lvl l ++ t :: xs) ++ rest = renderAt lvl l ++ t :: (xs ++ rest) := by simp

theorem body_leaf {h : Head} (hl : h.ty = .number ∨ h.ty = .ecl_expr) : BodyAtom (.leaf h) := by
  have hw : cls h.ty = .other := cls_leafTy hl
  intro neg rest
  have h1 : cls h.tok.ty ≠ .lp := by show cls h.ty ≠ .lp; rw [hw]; decide
  have h2 : cls h.tok.ty ≠ .func := by show cls h.ty ≠ .func; rw [hw]; decide
  have := ev_atom_leaf (c := h.tok) (r := rest) neg h1 h2 hl
  have hh : Ast.scale neg (unneg (.leaf h)) = .leaf (leafHead h.tok neg) := by
    cases h with
    | mk ty val sel ng => cases ng <;> cases neg <;> simp [unneg, Ast.scale, Ast.head, Head.scale, leafHead, Head.tok]
  rw [hh]
  exact this

theorem body_un {h : Head} {a : Ast} (hw : cls h.ty = .func) (hs : h.sel = []) (pa : P a) :
    BodyAtom (.un h a) := by
  intro neg rest
  have e0 := pa 0 (rpTok :: rest) (by omega) (okRest_cons (by rw [cls_rp]; exact allowed_rp _))
  have e1 := ev_atom_func (c := h.tok) (c2 := lpTok) neg (by exact hw) cls_lp cls_rp e0
  have hh : Ast.scale neg (unneg (.un h a)) = Ast.scale neg (Ast.un (opHead h.tok) a) := by
    simp [unneg, Ast.scale, Ast.head, opHead_tok hs]
  rw [hh]
  have ht : renderBody (.un h a) ++ rest = h.tok :: lpTok :: (renderAt 0 a ++ rpTok :: rest) := by
    simp [renderBody, renderAt]
  rw [ht]
  exact e1

theorem body_pow {h : Head} {l r : Ast} (hw : cls h.ty = .pow) (hs : h.sel = []) (pl : P l) (pr : P r) :
    Body (.bin h l r) := by
  intro rest o
  have hn : natLevel (.bin h l r) = 4 := by simp [natLevel, hw]
  rw [hn] at o ⊢
  rw [unneg_bin hs]
  have ht : renderBody (.bin h l r) ++ rest = renderAt 5 l ++ h.tok :: (renderAt 4 r ++ rest) := by
    simp [renderBody, renderAt, lvlL, lvlR, hw]
  rw [ht]
  have e1 := pl 5 (h.tok :: (renderAt 4 r ++ rest)) (by omega)
    (okRest_cons (by show allowed 5 (cls h.ty); rw [hw]; simp [allowed]))
  have e2 := pr 4 rest (by omega) o
  exact ev_pow_op e1 hw (by simp [renderAt_ne_nil]) e2

theorem body_cmp {h : Head} {l r : Ast} (hw : cls h.ty = .cmp) (hs : h.sel = []) (pl : P l) (pr : P r) :
    Body (.bin h l r) := by
  intro rest o
  have hn : natLevel (.bin h l r) = 1 := by simp [natLevel, hw]
  rw [hn] at o ⊢
  rw [unneg_bin hs]
  have ht : renderBody (.bin h l r) ++ rest = renderAt 2 l ++ h.tok :: (renderAt 1 r ++ rest) := by
    simp [renderBody, renderAt, lvlL, lvlR, hw]
  rw [ht]
  have e1 := pl 2 (h.tok :: (renderAt 1 r ++ rest)) (by omega)
    (okRest_cons (by show allowed 2 (cls h.ty); rw [hw]; simp [allowed]))
  have e2 := pr 1 rest (by omega) o
  exact ev_cmp_op e1 hw (by simp [renderAt_ne_nil]) e2

theorem body_set {h : Head} {l r : Ast} (hw : cls h.ty = .set) (hs : h.sel = []) (pl : P l) (pr : P r) :
    Body (.bin h l r) := by
  intro rest o
  have hn : natLevel (.bin h l r) = 0 := by simp [natLevel, hw]
  rw [hn] at o ⊢
  rw [unneg_bin hs]
  have ht : renderBody (.bin h l r) ++ rest = renderAt 1 l ++ h.tok :: (renderAt 0 r ++ rest) := by
    simp [renderBody, renderAt, lvlL, lvlR, hw]
  rw [ht]
  have e1 := pl 1 (h.tok :: (renderAt 0 r ++ rest)) (by omega)
    (okRest_cons (by show allowed 1 (cls h.ty); rw [hw]; simp [allowed]))
  have e2 := pr 0 rest (by omega) o
  exact ev_set_op e1 hw (by simp [renderAt_ne_nil]) e2

/-- `* /`: the left operand is printed at rank 3 and parsed by the *same* loop -/
theorem mul_chain {h : Head} {l r : Ast} (hw : cls h.ty = .mul ∨ cls h.ty = .div) (hs : h.sel = [])
    (pl3 : P3 l) (pr : P r) (rest : List Tok) (res : Res) (o : okRest 4 rest)
    (e : Ev (fun f => parseMulLoop f (.bin (opHead h.tok) l r) [] rest) res) :
    Ev (fun f => parseMul f (renderBody (.bin h l r) ++ rest)) res := by
  have ht : renderBody (.bin h l r) ++ rest = renderAt 3 l ++ h.tok :: (renderAt 4 r ++ rest) := by
    rcases hw with hw | hw <;> simp [renderBody, renderAt, lvlL, lvlR, hw]
  rw [ht]
  refine pl3 (h.tok :: (renderAt 4 r ++ rest)) res
    (okRest_cons (by show allowed 4 (cls h.ty); rcases hw with hw | hw <;> rw [hw] <;> simp [allowed])) ?_
  have e2 := pr 4 rest (by omega) o
  refine ev_mulLoop_step (c := h.tok) hw (by simp [renderAt_ne_nil]) e2 ?_
  have hc : ∀ f, parseMulLoop f l [(opHead h.tok, r)] rest = parseMulLoop f (.bin (opHead h.tok) l r) [] rest :=
    fun f => parseMulLoop_collapse f l [(opHead h.tok, r)] rest
  simp only [hc]
  exact e

theorem body_mul {h : Head} {l r : Ast} (hw : cls h.ty = .mul ∨ cls h.ty = .div) (hs : h.sel = [])
    (pl3 : P3 l) (pr : P r) : Body (.bin h l r) := by
  intro rest o
  have hn : natLevel (.bin h l r) = 3 := by rcases hw with hw | hw <;> simp [natLevel, hw]
  rw [hn] at o ⊢
  rw [unneg_bin hs]
  refine mul_chain hw hs pl3 pr rest _ (okRest_mono (by omega) o) ?_
  exact ev_mulLoop_exit _ [] (okRest_head_ne o (by simp [allowed])) (okRest_head_ne o (by simp [allowed]))

theorem add_chain {h : Head} {l r : Ast} (hw : cls h.ty = .add ∨ cls h.ty = .sub) (hs : h.sel = [])
    (pl2 : P2 l) (pr : P r) (rest : List Tok) (res : Res) (o : okRest 3 rest)
    (e : Ev (fun f => parseAddLoop f (.bin (opHead h.tok) l r) [] rest) res) :
    Ev (fun f => parseAdd f (renderBody (.bin h l r) ++ rest)) res := by
  have ht : renderBody (.bin h l r) ++ rest = renderAt 2 l ++ h.tok :: (renderAt 3 r ++ rest) := by
    rcases hw with hw | hw <;> simp [renderBody, renderAt, lvlL, lvlR, hw]
  rw [ht]
  refine pl2 (h.tok :: (renderAt 3 r ++ rest)) res
    (okRest_cons (by show allowed 3 (cls h.ty); rcases hw with hw | hw <;> rw [hw] <;> simp [allowed])) ?_
  have e2 := pr 3 rest (by omega) o
  refine ev_addLoop_step (c := h.tok) hw (by simp [renderAt_ne_nil]) e2 ?_
  have hc : ∀ f, parseAddLoop f l [(opHead h.tok, r)] rest = parseAddLoop f (.bin (opHead h.tok) l r) [] rest :=
    fun f => parseAddLoop_collapse f l [(opHead h.tok, r)] rest
  simp only [hc]
  exact e

theorem addStop_of_okRest2 {rest : List Tok} (o : okRest 2 rest) : addStop (headCls rest) := by
  cases rest with
  | nil => trivial
  | cons c r =>
    simp only [okRest, allowed] at o
    simp only [headCls, addStop]
    rcases o with o | ⟨_, o⟩ | ⟨_, o⟩ | ⟨h1, _⟩ | ⟨h1, _⟩ | ⟨h1, _⟩
    · exact Or.inl o
    · exact Or.inr (Or.inr o)
    · exact Or.inr (Or.inl o)
    · omega
    · omega
    · omega

theorem body_add {h : Head} {l r : Ast} (hw : cls h.ty = .add ∨ cls h.ty = .sub) (hs : h.sel = [])
    (pl2 : P2 l) (pr : P r) : Body (.bin h l r) := by
  intro rest o
  have hn : natLevel (.bin h l r) = 2 := by rcases hw with hw | hw <;> simp [natLevel, hw]
  rw [hn] at o ⊢
  rw [unneg_bin hs]
  refine add_chain hw hs pl2 pr rest _ (okRest_mono (by omega) o) ?_
  exact ev_addLoop_exit _ [] (addStop_of_okRest2 o)

/-- Outside a positive `* /` node the rank-3 and rank-4 print-outs coincide. -/
theorem renderAt3_eq4 {e : Ast} (h : ¬ (e.head.neg = false ∧ natLevel e = 3)) : renderAt 3 e = renderAt 4 e := by
  unfold renderAt wrap
  cases hneg : e.head.neg with
  | true => simp
  | false =>
    have : natLevel e ≠ 3 := fun h3 => h ⟨hneg, h3⟩
    by_cases h4 : 4 ≤ natLevel e
    · have : 3 ≤ natLevel e := by omega
      simp [*]
    · have : ¬ 3 ≤ natLevel e := by omega
      simp [*]

theorem renderAt2_eq3 {e : Ast} (h : ¬ (e.head.neg = false ∧ natLevel e = 2)) : renderAt 2 e = renderAt 3 e := by
  unfold renderAt wrap
  cases hneg : e.head.neg with
  | true => simp
  | false =>
    have : natLevel e ≠ 2 := fun h3 => h ⟨hneg, h3⟩
    by_cases h4 : 3 ≤ natLevel e
    · have : 2 ≤ natLevel e := by omega
      simp [*]
    · have : ¬ 2 ≤ natLevel e := by omega
      simp [*]

theorem P3_of_P {e : Ast} (pe : P e) (h : ¬ (e.head.neg = false ∧ natLevel e = 3)) : P3 e := by
  intro rest res o ev
  rw [renderAt3_eq4 h]
  exact ev_mul (pe 4 rest (by omega) o) ev

theorem P2_of_P {e : Ast} (pe : P e) (h : ¬ (e.head.neg = false ∧ natLevel e = 2)) : P2 e := by
  intro rest res o ev
  rw [renderAt2_eq3 h]
  exact ev_add (pe 3 rest (by omega) o) ev

theorem natLevel_bin3 {h : Head} {l r : Ast} (hn : natLevel (.bin h l r) = 3) : cls h.ty = .mul ∨ cls h.ty = .div := by
  simp only [natLevel] at hn
  cases hc : cls h.ty <;> simp_all

theorem natLevel_bin2 {h : Head} {l r : Ast} (hn : natLevel (.bin h l r) = 2) : cls h.ty = .add ∨ cls h.ty = .sub := by
  simp only [natLevel] at hn
  cases hc : cls h.ty <;> simp_all

theorem main_inv : ∀ e : Ast, WF e → P e ∧ P3 e ∧ P2 e := by
  intro e
  induction e with
  | leaf h =>
    intro hl
    have hw : cls h.ty = .other := cls_leafTy hl
    have pe : P (.leaf h) := P_of_atom rfl ⟨h.tok, [], rfl, by show cls h.ty ≠ _; rw [hw]; decide,
      by show cls h.ty ≠ _; rw [hw]; decide⟩ (body_leaf hl)
    exact ⟨pe, P3_of_P pe (by simp [natLevel]), P2_of_P pe (by simp [natLevel])⟩
  | un h a iha =>
    intro hw
    obtain ⟨hf, hs, hwa⟩ := hw
    have pe : P (.un h a) := P_of_atom rfl ⟨h.tok, _, rfl, by show cls h.ty ≠ _; rw [hf]; decide,
      by show cls h.ty ≠ _; rw [hf]; decide⟩ (body_un hf hs (iha hwa).1)
    exact ⟨pe, P3_of_P pe (by simp [natLevel]), P2_of_P pe (by simp [natLevel])⟩
  | bin h l r ihl ihr =>
    intro hw
    obtain ⟨hc, hs, hwl, hwr⟩ := hw
    obtain ⟨pl, pl3, pl2⟩ := ihl hwl
    obtain ⟨pr, _, _⟩ := ihr hwr
    have hb : Body (.bin h l r) := by
      rcases hc with hc | hc | hc | hc | hc | hc | hc
      · exact body_pow hc hs pl pr
      · exact body_mul (Or.inl hc) hs pl3 pr
      · exact body_mul (Or.inr hc) hs pl3 pr
      · exact body_add (Or.inl hc) hs pl2 pr
      · exact body_add (Or.inr hc) hs pl2 pr
      · exact body_cmp hc hs pl pr
      · exact body_set hc hs pl pr
    have pe : P (.bin h l r) := P_of_body rfl hb
    refine ⟨pe, ?_, ?_⟩
    · by_cases h3 : (Ast.bin h l r).head.neg = false ∧ natLevel (.bin h l r) = 3
      · intro rest res o ev
        have hw3 := natLevel_bin3 h3.2
        have hr : renderAt 3 (.bin h l r) = renderBody (.bin h l r) := by
          simp [renderAt, wrap, h3.1, h3.2]
        rw [hr]
        have hu : Ast.bin (opHead h.tok) l r = .bin h l r := by
          rw [← unneg_bin hs]; exact unneg_of_pos h3.1
        exact mul_chain hw3 hs pl3 pr rest res o (by rw [hu]; exact ev)
      · exact P3_of_P pe h3
    · by_cases h2 : (Ast.bin h l r).head.neg = false ∧ natLevel (.bin h l r) = 2
      · intro rest res o ev
        have hw2 := natLevel_bin2 h2.2
        have hr : renderAt 2 (.bin h l r) = renderBody (.bin h l r) := by
          simp [renderAt, wrap, h2.1, h2.2]
        rw [hr]
        have hu : Ast.bin (opHead h.tok) l r = .bin h l r := by
          rw [← unneg_bin hs]; exact unneg_of_pos h2.1
        exact add_chain hw2 hs pl2 pr rest res o (by rw [hu]; exact ev)
      · exact P2_of_P pe h2

/-- For every well-formed tree, from some fuel on `parse_set` of the printed tokens returns the tree. -/
theorem parseSet_render_ev (e : Ast) (hw : WF e) :
    Ev (fun f => parseSet f (render e)) (.ok e []) := by
  have := (main_inv e hw).1 0 [] (by omega) trivial
  simpa [render, parseAt] using this

end OpmVerif.Udq
