/-
  `UDQState::add_define` / `add_assign` (`Model/UdqHist.lean`, `State.add`): after ANY history of
  results the state holds, for every quantity and every well / group, what the LAST result that
  mentions that element says — its value if defined, nothing if undefined.  No stale values survive
  an element becoming undefined.
-/
import OpmVerif.Proofs.UdqEval

namespace OpmVerif.Udq.Hist
variable {α : Type}

/-- value of the last element named `w` in a result vector (`none` = no such element) -/
def lastEntry : List (String × Option α) → String → Option (Option α)
  | [], _ => none
  | (n, v) :: r, w =>
    match lastEntry r w with
    | some x => some x
    | none => if n = w then some v else none

theorem addResults_get (vals : List (String × Option α)) : ∀ (m : Vals α) (w : String),
    getVal (addResults m vals) w = (match lastEntry vals w with | some v => v | none => getVal m w) := by
  induction vals with
  | nil => intro m w; rfl
  | cons p r ih =>
    intro m w
    obtain ⟨n, v⟩ := p
    simp only [addResults, lastEntry]
    rw [ih]
    cases h : lastEntry r w with
    | some x => rfl
    | none =>
      simp only []
      by_cases hn : n = w
      · subst hn; simp [getVal_setVal_self]
      · simp [hn, getVal_setVal_other m n w v (fun h => hn h.symm)]

theorem getElems_set_self (sv : SetVals α) (key : String) (m : Vals α) :
    getElems (setVal sv key (some m)) key = m := by
  unfold getElems; rw [getVal_setVal_self]; rfl

theorem getElems_set_other (sv : SetVals α) (key key' : String) (m : Vals α) (h : key' ≠ key) :
    getElems (setVal sv key (some m)) key' = getElems sv key' := by
  unfold getElems; rw [getVal_setVal_other _ _ _ _ h]

/-- what one `add(key, r)` says about element `w` of quantity `key'` in the `k`-level store -/
def touch (k : Kind) (key' w : String) (e : String × RSet α) : Option (Option α) :=
  if e.1 = key' ∧ e.2.kind = k then lastEntry e.2.vals w else none

theorem add_elem (s s' : State α) (key : String) (r : RSet α) (h : s.add key r = some s')
    (k : Kind) (hk : k ≠ .scalar) (key' w : String) :
    s'.elem k key' w = (match touch k key' w (key, r) with | some v => v | none => s.elem k key' w) := by
  unfold State.add at h
  cases hr : r.kind with
  | well =>
    rw [hr] at h
    simp only [Option.some.injEq] at h
    subst h
    cases k with
    | scalar => exact absurd rfl hk
    | well =>
      by_cases hkey : key' = key
      · subst hkey
        simp only [State.elem, State.setVals, touch, hr, and_self, if_true, getElems_set_self, addResults_get]
      · have : ¬ (key = key') := fun hh => hkey hh.symm
        simp only [State.elem, State.setVals, touch, hr, this, false_and, if_false, getElems_set_other _ _ _ _ hkey]
    | group =>
      have : ¬ (key = key' ∧ Kind.well = Kind.group) := fun hh => Kind.noConfusion hh.2
      simp only [State.elem, State.setVals, touch, hr, this, if_false]
  | group =>
    rw [hr] at h
    simp only [Option.some.injEq] at h
    subst h
    cases k with
    | scalar => exact absurd rfl hk
    | group =>
      by_cases hkey : key' = key
      · subst hkey
        simp only [State.elem, State.setVals, touch, hr, and_self, if_true, getElems_set_self, addResults_get]
      · have : ¬ (key = key') := fun hh => hkey hh.symm
        simp only [State.elem, State.setVals, touch, hr, this, false_and, if_false, getElems_set_other _ _ _ _ hkey]
    | well =>
      have : ¬ (key = key' ∧ Kind.group = Kind.well) := fun hh => Kind.noConfusion hh.2
      simp only [State.elem, State.setVals, touch, hr, this, if_false]
  | scalar =>
    rw [hr] at h
    have hns : ¬ (key = key' ∧ Kind.scalar = k) := fun hh => hk hh.2.symm
    cases hv : r.vals with
    | nil => rw [hv] at h; cases h
    | cons p rest =>
      rw [hv] at h
      obtain ⟨n, v⟩ := p
      simp only [Option.some.injEq] at h
      subst h
      cases k with
      | scalar => exact absurd rfl hk
      | well => simp only [State.elem, State.setVals, touch, hr, hns, if_false]
      | group => simp only [State.elem, State.setVals, touch, hr, hns, if_false]

/-- what a whole history (oldest first) says last about element `w` of `key` -/
def lastTouch (k : Kind) (key w : String) : List (String × RSet α) → Option (Option α)
  | [] => none
  | e :: rest =>
    match lastTouch k key w rest with
    | some x => some x
    | none => touch k key w e

/-- **After any history** the stored element is what the last result mentioning it says; if no
result mentions it, it is what it was before. -/
theorem run_elem : ∀ (evs : List (String × RSet α)) (s s' : State α), s.run evs = some s' →
    ∀ (k : Kind), k ≠ .scalar → ∀ (key w : String),
    s'.elem k key w = (match lastTouch k key w evs with | some v => v | none => s.elem k key w) := by
  intro evs
  induction evs with
  | nil =>
    intro s s' h k _ key w
    simp only [State.run, Option.some.injEq] at h
    subst h; rfl
  | cons e rest ih =>
    intro s s' h k hk key w
    obtain ⟨ekey, r⟩ := e
    simp only [State.run] at h
    cases ha : s.add ekey r with
    | none => rw [ha] at h; cases h
    | some s1 =>
      rw [ha] at h
      simp only [] at h
      rw [ih s1 s' h k hk key w]
      simp only [lastTouch]
      cases hl : lastTouch k key w rest with
      | some x => rfl
      | none => exact add_elem s s1 ekey r ha k hk key w

theorem lastTouch_append (k : Kind) (key w : String) (a b : List (String × RSet α)) :
    lastTouch k key w (a ++ b) = (match lastTouch k key w b with | some x => some x | none => lastTouch k key w a) := by
  induction a with
  | nil =>
    simp only [List.nil_append, lastTouch]
    cases lastTouch k key w b <;> rfl
  | cons e rest ih =>
    simp only [List.cons_append, lastTouch, ih]
    cases lastTouch k key w b <;> rfl

theorem lastTouch_none_of_untouched (k : Kind) (key w : String) (post : List (String × RSet α))
    (h : ∀ e ∈ post, ¬ (e.1 = key ∧ e.2.kind = k)) : lastTouch k key w post = none := by
  induction post with
  | nil => rfl
  | cons e rest ih =>
    have h1 := ih (fun e' he' => h e' (List.mem_cons_of_mem _ he'))
    have h2 := h e List.mem_cons_self
    simp only [lastTouch, h1, touch, h2, if_false]

/-- The state holds the elements of the LAST evaluation of a quantity: whatever came before
(`pre`, initial state), and whatever other quantities are evaluated afterwards (`post`), every
element the last result `r` of `key` mentions is stored with its value if defined and is absent if
undefined. -/
theorem last_evaluation_elem (pre post : List (String × RSet α)) (key : String) (r : RSet α)
    (s0 s : State α) (hk : r.kind ≠ .scalar)
    (hrun : s0.run (pre ++ (key, r) :: post) = some s)
    (hpost : ∀ e ∈ post, ¬ (e.1 = key ∧ e.2.kind = r.kind))
    (w : String) (v : Option α) (hv : lastEntry r.vals w = some v) :
    s.elem r.kind key w = v := by
  rw [run_elem _ s0 s hrun r.kind hk key w, lastTouch_append]
  simp only [lastTouch, lastTouch_none_of_untouched r.kind key w post hpost, touch, and_self, if_true, hv]

theorem lastEntry_none_of_not_mem : ∀ (vals : List (String × Option α)) (w : String),
    w ∉ vals.map (·.1) → lastEntry vals w = none
  | [], _, _ => rfl
  | (n, v) :: r, w, h => by
    simp only [List.map_cons, List.mem_cons, not_or] at h
    simp only [lastEntry, lastEntry_none_of_not_mem r w h.2]
    have hne : ¬ n = w := fun hh => h.1 hh.symm
    simp [hne]

theorem lastEntry_of_mem_nodup : ∀ (vals : List (String × Option α)) (w : String) (v : Option α),
    (vals.map (·.1)).Nodup → (w, v) ∈ vals → lastEntry vals w = some v
  | [], _, _, _, h => by cases h
  | (n, v') :: r, w, v, hnd, h => by
    simp only [List.map_cons, List.nodup_cons] at hnd
    rcases List.mem_cons.mp h with h | h
    · simp only [Prod.mk.injEq] at h
      obtain ⟨rfl, rfl⟩ := h
      simp [lastEntry, lastEntry_none_of_not_mem r w hnd.1]
    · simp [lastEntry, lastEntry_of_mem_nodup r w v hnd.2 h]

/-- **Exactly the defined elements of the last evaluation.**  If the result vector `r` names each
well / group once and nothing outside these names was stored for `key` before, then after the
history the store for `key` contains `(w, x)` iff `r` has the defined element `(w, some x)`. -/
theorem state_is_last_evaluation (pre post : List (String × RSet α)) (key : String) (r : RSet α)
    (s0 s : State α) (hk : r.kind ≠ .scalar)
    (hrun : s0.run (pre ++ (key, r) :: post) = some s)
    (hpost : ∀ e ∈ post, ¬ (e.1 = key ∧ e.2.kind = r.kind))
    (hnd : (r.vals.map (·.1)).Nodup)
    (hold : ∀ w, w ∉ r.vals.map (·.1) → lastTouch r.kind key w pre = none ∧ s0.elem r.kind key w = none)
    (w : String) (x : α) :
    s.elem r.kind key w = some x ↔ (w, some x) ∈ r.vals := by
  by_cases hm : w ∈ r.vals.map (·.1)
  · obtain ⟨p, hp, hpw⟩ := List.mem_map.mp hm
    obtain ⟨n, v⟩ := p
    simp only [] at hpw
    subst hpw
    have hl := lastEntry_of_mem_nodup r.vals n v hnd hp
    rw [last_evaluation_elem pre post key r s0 s hk hrun hpost n v hl]
    constructor
    · intro h; rw [← h]; exact hp
    · intro h
      have := lastEntry_of_mem_nodup r.vals n (some x) hnd h
      rw [hl] at this
      exact Option.some.inj this
  · have hl := lastEntry_none_of_not_mem r.vals w hm
    have hne : s.elem r.kind key w = none := by
      rw [run_elem _ s0 s hrun r.kind hk key w, lastTouch_append]
      simp only [lastTouch, lastTouch_none_of_untouched r.kind key w post hpost, touch, and_self, if_true, hl,
        (hold w hm).1, (hold w hm).2]
    rw [hne]
    constructor
    · intro h; cases h
    · intro h
      exact absurd (List.mem_map.mpr ⟨(w, some x), h, rfl⟩) hm

/-! ### scalars -/

def touchS (key' : String) (e : String × RSet α) : Option (Option α) :=
  if e.1 = key' ∧ e.2.kind = .scalar then e.2.vals.head?.map (·.2) else none

def lastTouchS (key : String) : List (String × RSet α) → Option (Option α)
  | [] => none
  | e :: rest =>
    match lastTouchS key rest with
    | some x => some x
    | none => touchS key e

theorem add_scalar (s s' : State α) (key : String) (r : RSet α) (h : s.add key r = some s') (key' : String) :
    s'.scalar key' = (match touchS key' (key, r) with | some v => v | none => s.scalar key') := by
  unfold State.add at h
  cases hr : r.kind with
  | well =>
    rw [hr] at h; simp only [Option.some.injEq] at h; subst h
    have : ¬ (key = key' ∧ Kind.well = Kind.scalar) := fun hh => Kind.noConfusion hh.2
    simp only [State.scalar, touchS, hr, this, if_false]
  | group =>
    rw [hr] at h; simp only [Option.some.injEq] at h; subst h
    have : ¬ (key = key' ∧ Kind.group = Kind.scalar) := fun hh => Kind.noConfusion hh.2
    simp only [State.scalar, touchS, hr, this, if_false]
  | scalar =>
    rw [hr] at h
    cases hv : r.vals with
    | nil => rw [hv] at h; cases h
    | cons p rest =>
      rw [hv] at h
      obtain ⟨n, v⟩ := p
      simp only [Option.some.injEq] at h
      subst h
      by_cases hkey : key' = key
      · subst hkey
        simp [State.scalar, touchS, hr, hv, getVal_setVal_self]
      · have : ¬ (key = key') := fun hh => hkey hh.symm
        simp only [State.scalar, touchS, hr, this, false_and, if_false, getVal_setVal_other _ _ _ _ hkey]

/-- after any history a scalar (field-level) quantity holds the value of its last result if that
is defined and is absent otherwise -/
theorem run_scalar : ∀ (evs : List (String × RSet α)) (s s' : State α), s.run evs = some s' →
    ∀ (key : String),
    s'.scalar key = (match lastTouchS key evs with | some v => v | none => s.scalar key) := by
  intro evs
  induction evs with
  | nil =>
    intro s s' h key
    simp only [State.run, Option.some.injEq] at h
    subst h; rfl
  | cons e rest ih =>
    intro s s' h key
    obtain ⟨ekey, r⟩ := e
    simp only [State.run] at h
    cases ha : s.add ekey r with
    | none => rw [ha] at h; cases h
    | some s1 =>
      rw [ha] at h
      simp only [] at h
      rw [ih s1 s' h key]
      simp only [lastTouchS]
      cases hl : lastTouchS key rest with
      | some x => rfl
      | none => exact add_scalar s s1 ekey r ha key

end OpmVerif.Udq.Hist
