/-
  The end-of-step closing (`applyGlobalWPIMULT` + `end_report` = `checkIfAllConnectionsIsShut`) as
  an invariant of every snapshot, and apply = inline for bodies WITH connection keywords.

  `Closed s`: no deferred WPIMULT factor is pending and every well all of whose connections are
  shut has status SHUT.  Every snapshot the schedule iteration produces is `Closed`, and so is
  every snapshot from the action step on after `applyAction` — whatever the body contains
  (COMPDAT-only bodies included: the closing does not depend on a well having been reported as
  "affected").

  When the keywords of block n themselves leave the step closed (`Closed s1`: block n has no
  pending all-default WPIMULT record and leaves no unshut well with all connections shut), closing
  step n changed nothing observable, the property's per-step exception is void, and applying ANY
  plain body — COMPDAT, WELOPEN on connections, WPIMULT in both forms — equals inlining it.
-/
import OpmVerif.Proofs.SchedCommute

namespace OpmVerif.Sched

/-- The step is closed: no pending deferred WPIMULT factor, and every well whose connections
are all shut is shut. -/
def Closed (s : State) : Prop :=
  s.c.g = [] ∧ ∀ w, w ∈ names s.p.wells → allShut (connsOf s.c.m w) = true → statusOf s.st w = Status.shut

/-- Decidable form of `Closed`. -/
def closedB (s : State) : Bool :=
  s.c.g.isEmpty && (names s.p.wells).all fun w => !allShut (connsOf s.c.m w) || statusOf s.st w == Status.shut

theorem closed_of_closedB (s : State) (h : closedB s = true) : Closed s := by
  simp only [closedB, Bool.and_eq_true, List.all_eq_true, Bool.or_eq_true, Bool.not_eq_true', beq_iff_eq] at h
  refine ⟨by simpa using h.1, fun w hw hs => ?_⟩
  rcases h.2 w hw with h' | h'
  · rw [hs] at h'; cases h'
  · exact h'

theorem applyGlobal_nil (c : ConnChan) (hg : c.g = []) : applyGlobal c = c := by
  cases c with
  | mk m g =>
    simp only [] at hg
    subst hg
    rfl

/-- Closing always yields a closed step. -/
theorem closeBlock_closed (s : State) : Closed (closeBlock s) := by
  refine ⟨rfl, fun w hw hs => ?_⟩
  rw [statusOf_closeBlock]
  rw [closeBlock_p] at hw
  rw [closeBlock_c] at hs
  simp [hw, hs]

theorem closed_setMark (s : State) (x : List String) (h : Closed s) : Closed { s with mark := x } := h

/-- Closing a closed step changes nothing observable. -/
theorem sim_close_of_closed (s : State) (h : Closed s) : Sim (closeBlock s) s := by
  refine ⟨rfl, ?_, fun w => ?_⟩
  · rw [closeBlock_c, applyGlobal_nil _ h.1]
  · rw [statusOf_closeBlock, applyGlobal_nil _ h.1]
    by_cases hw : w ∈ names s.p.wells ∧ allShut (connsOf s.c.m w) = true
    · simp only [hw, and_self, if_true]; exact (h.2 w hw.1 hw.2).symm
    · simp only [hw, if_false]

theorem runBody_sim (k : Consts) (body : List CKw) (a b : State) (h : Sim a b) :
    ExRel Sim (runBody k a body) (runBody k b body) := by
  induction body generalizing a b with
  | nil => exact h
  | cons kw r ih =>
    simp only [runBody]
    have := handle_sim k [] kw a b h
    cases ha : handle k [] a kw with
    | error e =>
      cases hb : handle k [] b kw with
      | error e' => rw [ha, hb] at this; exact this
      | ok b' => rw [ha, hb] at this; exact this.elim
    | ok a' =>
      cases hb : handle k [] b kw with
      | error e' => rw [ha, hb] at this; exact this.elim
      | ok b' => rw [ha, hb] at this; exact ih a' b' this

/-- When block n leaves the step closed, ANY body transfers: the stored snapshot is `Sim` to the
state before closing, no handler reads the status channel otherwise than through `Sim`. -/
theorem bodyTransfer_closed (k : Consts) (sn s1 : State) (body' : List CKw) (hsn : Sim sn (closeBlock s1))
    (hcl : Closed s1) : BodyTransfer k sn s1 body' := by
  intro t' hb
  have hs : Sim sn s1 := hsn.trans (sim_close_of_closed s1 hcl)
  obtain ⟨t, ht, hrt⟩ := (runBody_sim k body' sn s1 hs).ok_left hb
  exact ⟨t, ht, closeBlock_sim t' t hrt⟩

/-- apply = inline for any plain body (connection keywords included) at a step whose own
keywords left it closed. -/
theorem applyAction_sim_inline_closed (k : Consts) (a : List (List CKw)) (blk : List CKw) (c : List (List CKw))
    (bsA : List (List CKw)) (sa saA : List State) (s1 sn : State) (tail0 : List State)
    (body : List CKw) (W : List String) (bs' : List (List CKw)) (ss' : List State)
    (ha : runFrom k (init k) a = .ok sa)
    (h1 : runKws k none (beginBlock (sa.getLastD (init k)) blk) blk = .ok s1)
    (hlen : saA.length = a.length)
    (hsn : Sim sn (closeBlock s1))
    (hdrop : bsA.drop (a.length + 1) = c)
    (hp : body.all plainKw = true) (hcl : Closed s1)
    (happ : applyAction k bsA (saA ++ sn :: tail0) a.length body W = .ok (bs', ss')) :
    ∃ sn' tail x tail2, ss' = saA ++ sn' :: tail ∧
      run k (a ++ (blk ++ substBody (sortW (names s1.p.wells) W) body) :: c) = .ok (sa ++ x :: tail2) ∧
      Sim sn' x ∧ All2 Sim tail tail2 :=
  applyAction_sim_inline_core k a blk c bsA sa saA s1 sn tail0 body W bs' ss' ha h1 hlen hsn hdrop hp
    (bodyTransfer_closed k sn s1 _ hsn hcl) happ

/-- The full conclusion of `apply_eq_inline` from the core existence statement: markers. -/
theorem applyAction_eq_inline_gen (k : Consts) (a : List (List CKw)) (blk : List CKw) (c : List (List CKw))
    (sa : List State) (s1 : State) (tail0 : List State) (body : List CKw) (W : List String)
    (bs' : List (List CKw)) (ss' : List State)
    (ha : runFrom k (init k) a = .ok sa)
    (h1 : runKws k none (beginBlock (sa.getLastD (init k)) blk) blk = .ok s1)
    (hp : body.all plainKw = true)
    (hbody : BodyTransfer k (closeBlock s1) s1 (substBody (sortW (names s1.p.wells) W) body))
    (happ : applyAction k (a ++ blk :: c) (sa ++ closeBlock s1 :: tail0) a.length body W = .ok (bs', ss')) :
    ∃ sn' tail x tail2, ss' = sa ++ sn' :: tail ∧
      run k (inlineAt (a ++ blk :: c) a.length (substBody (sortW (names s1.p.wells) W) body)) = .ok (sa ++ x :: tail2) ∧
      Sim sn' x ∧ All2 Sim tail tail2 ∧ x.mark = [] ∧ (∀ s ∈ tail, s.mark = []) ∧ (∀ s ∈ tail2, s.mark = []) := by
  have e : inlineAt (a ++ blk :: c) a.length (substBody (sortW (names s1.p.wells) W) body) =
      a ++ (blk ++ substBody (sortW (names s1.p.wells) W) body) :: c := by
    simp [inlineAt, appendAt, modify_at_length]
  rw [e]
  have hlen : sa.length = a.length := runFrom_length ha
  obtain ⟨sn', tail, x, tail2, hss, hrun, hsx, hall⟩ :=
    applyAction_sim_inline_core k a blk c (a ++ blk :: c) sa sa s1 (closeBlock s1) tail0 body W bs' ss' ha h1 hlen
      (Sim.refl _) (by simp) hp hbody happ
  refine ⟨sn', tail, x, tail2, hss, hrun, hsx, hall, ?_, ?_, ?_⟩
  · have := runFrom_marks k _ _ _ hrun x (by simp)
    exact this
  · -- the tail of the apply side is a `runFrom` result
    unfold applyAction at happ
    have hidx : (sa ++ closeBlock s1 :: tail0)[a.length]? = some (closeBlock s1) := by rw [← hlen]; simp
    rw [hidx] at happ; simp only [] at happ
    cases hA : applyAtState k (closeBlock s1) body W with
    | error e => rw [hA] at happ; cases happ
    | ok q =>
      rw [hA] at happ; simp only [] at happ
      cases hT : runFrom k q ((a ++ blk :: c).drop (a.length + 1)) with
      | error e => rw [hT] at happ; cases happ
      | ok tl =>
        rw [hT] at happ
        simp only [Except.ok.injEq, Prod.mk.injEq] at happ
        have htake : (sa ++ closeBlock s1 :: tail0).take a.length = sa := by rw [← hlen]; simp
        rw [htake, hss] at happ
        have := List.append_cancel_left happ.2
        simp only [List.cons.injEq] at this
        rw [← this.2]
        exact runFrom_marks k _ _ _ hT
  · intro s hs
    exact runFrom_marks k _ _ _ hrun s (by simp [hs])

/-! ### every snapshot is closed -/

theorem stepBlock_closed (k : Consts) (s s' : State) (b : List CKw) (h : stepBlock k s b = .ok s') : Closed s' := by
  unfold stepBlock at h
  cases hk : runKws k none (beginBlock s b) b with
  | error e => rw [hk] at h; cases h
  | ok t =>
    rw [hk] at h; simp only [Except.ok.injEq] at h
    rw [← h]; exact closeBlock_closed t

theorem runFrom_closed (k : Consts) (bs : List (List CKw)) (s : State) (ss : List State) (h : runFrom k s bs = .ok ss) :
    ∀ x ∈ ss, Closed x := by
  induction bs generalizing s ss with
  | nil => simp only [runFrom, Except.ok.injEq] at h; subst h; simp
  | cons b r ih =>
    simp only [runFrom] at h
    cases h1 : stepBlock k s b with
    | error e => rw [h1] at h; cases h
    | ok s1 =>
      rw [h1] at h; simp only [] at h
      cases h2 : runFrom k s1 r with
      | error e => rw [h2] at h; cases h
      | ok t =>
        rw [h2] at h; simp only [Except.ok.injEq] at h; subst h
        intro x hx
        simp only [List.mem_cons] at hx
        rcases hx with hx | hx
        · rw [hx]; exact stepBlock_closed k s s1 b h1
        · exact ih s1 t h2 x hx

/-- State n after an action is closed, whatever the body and whether or not any handler reported
an affected well. -/
theorem applyAtState_closed (k : Consts) (sn sn' : State) (body : List CKw) (W : List String)
    (h : applyAtState k sn body W = .ok sn') : Closed sn' := by
  unfold applyAtState at h
  simp only [] at h
  split at h
  · cases h
  · cases hb : runBody k sn (substBody (sortW (names sn.p.wells) W) body) with
    | error e => rw [hb] at h; cases h
    | ok t =>
      rw [hb] at h
      simp only [Except.ok.injEq] at h
      rw [← h]
      exact closeBlock_closed t

/-- After `applyAction` at step n every snapshot from n on is closed. -/
theorem applyAction_closed (k : Consts) (bs : List (List CKw)) (ss : List State) (n : Nat) (body : List CKw)
    (W : List String) (bs' : List (List CKw)) (ss' : List State)
    (h : applyAction k bs ss n body W = .ok (bs', ss')) : ∀ x ∈ ss'.drop n, Closed x := by
  unfold applyAction at h
  cases hn : ss[n]? with
  | none => rw [hn] at h; cases h
  | some sn =>
    rw [hn] at h; simp only [] at h
    cases h1 : applyAtState k sn body W with
    | error e => rw [h1] at h; cases h
    | ok sn' =>
      rw [h1] at h; simp only [] at h
      cases h2 : runFrom k sn' (bs.drop (n + 1)) with
      | error e => rw [h2] at h; cases h
      | ok tail =>
        rw [h2] at h
        simp only [Except.ok.injEq, Prod.mk.injEq] at h
        obtain ⟨_, hss⟩ := h
        subst hss
        have hlt : n < ss.length := by
          rcases Nat.lt_or_ge n ss.length with hl | hl
          · exact hl
          · rw [List.getElem?_eq_none hl] at hn; cases hn
        have hl : (ss.take n).length = n := by rw [List.length_take]; omega
        have e : (ss.take n ++ sn' :: tail).drop n = sn' :: tail := by
          rw [List.drop_append_of_le_length (by omega)]
          rw [List.drop_of_length_le (by omega)]
          simp [hl]
        rw [e]
        intro x hx
        simp only [List.mem_cons] at hx
        rcases hx with hx | hx
        · rw [hx]; exact applyAtState_closed k sn sn' body W h1
        · exact runFrom_closed k _ sn' tail h2 x hx

end OpmVerif.Sched
