/-
  Causality of the core schedule semantics: the snapshots are a scan over the block list, so
  a prefix of the snapshots depends only on the same prefix of the blocks; combined with
  `blocks_prefix_gen` (the partition of the past does not depend on the future).
-/
import OpmVerif.Model.SchedCore
import OpmVerif.Proofs.SchedDeck

namespace OpmVerif.Sched

theorem runFrom_length {k : Consts} {s : State} {bs : List (List CKw)} {ss : List State}
    (h : runFrom k s bs = .ok ss) : ss.length = bs.length := by
  induction bs generalizing s ss with
  | nil => simp only [runFrom, Except.ok.injEq] at h; subst h; rfl
  | cons b r ih =>
    simp only [runFrom] at h
    cases h1 : stepBlock k s b with
    | error e => rw [h1] at h; cases h
    | ok s1 =>
      rw [h1] at h; simp only [] at h
      cases h2 : runFrom k s1 r with
      | error e => rw [h2] at h; cases h
      | ok t =>
        rw [h2] at h; simp only [Except.ok.injEq] at h; subst h
        simp [ih h2]

/-- Scan-prefix lemma: two block lists with a common prefix `a` yield the same first
`a.length` snapshots. -/
theorem runFrom_take {k : Consts} {s : State} {a b b' : List (List CKw)} {ss ss' : List State}
    (h : runFrom k s (a ++ b) = .ok ss) (h' : runFrom k s (a ++ b') = .ok ss') :
    ss.take a.length = ss'.take a.length := by
  induction a generalizing s ss ss' with
  | nil => simp
  | cons x r ih =>
    simp only [List.cons_append, runFrom] at h h'
    cases h1 : stepBlock k s x with
    | error e => rw [h1] at h; cases h
    | ok s1 =>
      rw [h1] at h h'; simp only [] at h h'
      cases h2 : runFrom k s1 (r ++ b) with
      | error e => rw [h2] at h; cases h
      | ok t =>
        cases h2' : runFrom k s1 (r ++ b') with
        | error e => rw [h2'] at h'; cases h'
        | ok t' =>
          rw [h2] at h; rw [h2'] at h'
          simp only [Except.ok.injEq] at h h'
          subst h; subst h'
          simp [ih h2 h2']

/-- A prefix of an accepted block list is accepted and yields the prefix of the snapshots. -/
theorem runFrom_prefix {k : Consts} {s : State} {a b : List (List CKw)} {ss : List State}
    (h : runFrom k s (a ++ b) = .ok ss) : runFrom k s a = .ok (ss.take a.length) := by
  induction a generalizing s ss with
  | nil => simp [runFrom]
  | cons x r ih =>
    simp only [List.cons_append, runFrom] at h ⊢
    cases h1 : stepBlock k s x with
    | error e => rw [h1] at h; cases h
    | ok s1 =>
      rw [h1] at h; simp only [] at h ⊢
      cases h2 : runFrom k s1 (r ++ b) with
      | error e => rw [h2] at h; cases h
      | ok t =>
        rw [h2] at h; simp only [Except.ok.injEq] at h; subst h
        rw [ih h2]; simp

/-- `runFrom` over a concatenation continues from the last snapshot of the first part. -/
theorem runFrom_append {k : Consts} {s : State} {a b : List (List CKw)} {sa : List State}
    (ha : runFrom k s a = .ok sa) :
    runFrom k s (a ++ b) = match runFrom k (sa.getLastD s) b with
      | .error e => .error e
      | .ok sb => .ok (sa ++ sb) := by
  induction a generalizing s sa with
  | nil =>
    simp only [runFrom, Except.ok.injEq] at ha; subst ha
    simp only [List.nil_append, List.getLastD_nil]
    cases runFrom k s b <;> rfl
  | cons x r ih =>
    simp only [runFrom] at ha
    simp only [List.cons_append, runFrom]
    cases h1 : stepBlock k s x with
    | error e => rw [h1] at ha; cases ha
    | ok s1 =>
      rw [h1] at ha; simp only [] at ha ⊢
      cases h2 : runFrom k s1 r with
      | error e => rw [h2] at ha; cases ha
      | ok t =>
        rw [h2] at ha; simp only [Except.ok.injEq] at ha; subst ha
        rw [ih h2]
        have : (s1 :: t).getLastD s = t.getLastD s1 := by
          cases t <;> simp [List.getLastD]
        rw [this]
        cases runFrom k (t.getLastD s1) b <;> simp

theorem causal_blocks {k : Consts} {a b b' : List (List CKw)} {ss ss' : List State}
    (h : run k (a ++ b) = .ok ss) (h' : run k (a ++ b') = .ok ss') :
    ss.take a.length = ss'.take a.length := runFrom_take h h'

/-- Causality of the whole pipeline (partition + iteration). -/
theorem causal_gen {k : Consts} {start : Time} (a b b' : List (Kw CKw)) {ss ss' : List State}
    (h : schedule k start (a ++ b) = .ok ss) (h' : schedule k start (a ++ b') = .ok ss') :
    ss.take (nsteps a) = ss'.take (nsteps a) := by
  unfold schedule at h h'
  cases hb : blocks start (a ++ b) with
  | error e => rw [hb] at h; cases h
  | ok bs =>
    cases hb' : blocks start (a ++ b') with
    | error e => rw [hb'] at h'; cases h'
    | ok bs' =>
      rw [hb] at h; rw [hb'] at h'
      simp only [] at h h'
      have hp := blocks_prefix_gen a b b' hb hb'
      have hl := blocks_length hb
      have hl' := blocks_length hb'
      rw [nsteps_append] at hl hl'
      have e1 : bs.map Block.kws = (bs.take (nsteps a)).map Block.kws ++ (bs.drop (nsteps a)).map Block.kws := by
        rw [← List.map_append, List.take_append_drop]
      have e2 : bs'.map Block.kws = (bs.take (nsteps a)).map Block.kws ++ (bs'.drop (nsteps a)).map Block.kws := by
        rw [hp, ← List.map_append, List.take_append_drop]
      rw [e1] at h; rw [e2] at h'
      have := causal_blocks h h'
      simpa [List.length_take, Nat.min_eq_left (by omega : nsteps a ≤ bs.length)] using this

end OpmVerif.Sched
