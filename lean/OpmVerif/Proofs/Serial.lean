/-
  Lemmas for C11 (serializer combinator algebra).  Core Lean only.
-/
import OpmVerif.Model.Serial

set_option linter.unusedSimpArgs false

namespace OpmVerif.Serial

/-! ### accessors -/

theorem elems_list (vs : List Val) : elems (.list vs) = vs := rfl
theorem podBytes_pod (bs : Bytes) : podBytes (.pod bs) = bs := rfl
theorem strBytes_str (bs : Bytes) : strBytes (.str bs) = bs := rfl
theorem boolsOf_bools (l : List Bool) : boolsOf (.bools l) = l := rfl
theorem optOf_none : optOf .none = Option.none := rfl
theorem optOf_some (v : Val) : optOf (.some v) = Option.some v := rfl
theorem altIdx_alt (i : Nat) (v : Val) : altIdx (.alt i v) = i := rfl
theorem altVal_alt (i : Nat) (v : Val) : altVal (.alt i v) = v := rfl
theorem fstOf_pair (x y : Val) : fstOf (.list [x, y]) = x := rfl
theorem sndOf_pair (x y : Val) : sndOf (.list [x, y]) = y := rfl

/-! ### little-endian integers -/

theorem le_length (k n : Nat) : (le k n).length = k := by
  induction k generalizing n with
  | zero => rfl
  | succ k ih => simp [le, ih]

theorem fromLE_le (k n : Nat) : fromLE (le k n) = n % 256 ^ k := by
  induction k generalizing n with
  | zero => simp [le, fromLE, Nat.mod_one]
  | succ k ih =>
    simp only [le, fromLE, ih]
    have h1 : (UInt8.ofNat (n % 256)).toNat = n % 256 := by
      simp [UInt8.toNat_ofNat']
    rw [h1, Nat.pow_succ, Nat.mul_comm (256 ^ k) 256, Nat.mod_mul]

theorem le_fromLE (bs : Bytes) : le bs.length (fromLE bs) = bs := by
  induction bs with
  | nil => rfl
  | cons b r ih =>
    have hb : b.toNat < 256 := b.toNat_lt
    have h1 : (b.toNat + 256 * fromLE r) % 256 = b.toNat := by omega
    have h2 : (b.toNat + 256 * fromLE r) / 256 = fromLE r := by omega
    simp only [List.length_cons, le, fromLE, h1, h2, ih]
    simp

theorem fromLE_lt (bs : Bytes) : fromLE bs < 256 ^ bs.length := by
  induction bs with
  | nil => simp [fromLE]
  | cons b r ih =>
    have hb : b.toNat < 256 := b.toNat_lt
    simp only [fromLE, List.length_cons, Nat.pow_succ]
    omega

/-! ### reading primitives -/

theorem takeN_append (h r : Bytes) : takeN h.length (h ++ r) = .ok (h, r) := by
  simp [takeN]

theorem takeN_append' (n : Nat) (h r : Bytes) (hl : h.length = n) : takeN n (h ++ r) = .ok (h, r) := by
  subst hl; exact takeN_append h r

theorem rdNat_le (w n : Nat) (r : Bytes) (hn : n < 256 ^ w) : rdNat w (le w n ++ r) = .ok (n, r) := by
  unfold rdNat
  rw [takeN_append' w (le w n) r (le_length w n)]
  simp only [fromLE_le, Nat.mod_eq_of_lt hn]

theorem lenOk_iff (n : Nat) : lenOk n = true ↔ n < 256 ^ szSizeT := by
  unfold lenOk szSizeT
  rw [decide_eq_true_eq]

theorem rdNat_le64 (n : Nat) (r : Bytes) (hn : lenOk n = true) : rdNat szSizeT (le64 n ++ r) = .ok (n, r) :=
  rdNat_le szSizeT n r ((lenOk_iff n).1 hn)

theorem rdBool_boolByte (b : Bool) (r : Bytes) : rdBool (boolByte b :: r) = .ok (b, r) := by
  cases b <;> simp [rdBool, boolByte]

theorem rdBools_map (l : List Bool) (r : Bytes) : rdBools l.length (l.map boolByte ++ r) = .ok (l, r) := by
  induction l with
  | nil => simp [rdBools]
  | cons b l ih =>
    simp only [List.length_cons, List.map_cons, List.cons_append, rdBools, rdBool_boolByte, ih]

/-! ### element loops -/

/-- If `f` reads back what `p` wrote for every element (into any acceptable target), the
loop reads back the whole sequence. -/
theorem unpackN_flatten (f : Val → Bytes → Except Err (Val × Bytes)) (p : Val → Bytes) (d : Val)
    (ok : Val → Prop) (hd : ok d) (vs : List Val)
    (hf : ∀ v ∈ vs, ∀ tg rest, ok tg → f tg (p v ++ rest) = .ok (v, rest)) :
    ∀ (tgs : List Val) (rest : Bytes), (∀ tg ∈ tgs, ok tg) →
      unpackN f d vs.length tgs ((vs.map p).flatten ++ rest) = .ok (vs, rest) := by
  induction vs with
  | nil => intro tgs rest _; simp [unpackN]
  | cons v vs ih =>
    intro tgs rest htg
    have hhead : ok (tgs.headD d) := by
      cases tgs with
      | nil => exact hd
      | cons a as => exact htg a (by simp)
    have htail : ∀ tg ∈ tgs.tail, ok tg := by
      intro tg h; exact htg tg (List.mem_of_mem_tail h)
    simp only [List.length_cons, List.map_cons, List.flatten_cons, List.append_assoc, unpackN]
    rw [hf v (by simp) _ _ hhead]
    simp only []
    rw [ih (fun v hv => hf v (List.mem_cons_of_mem _ hv)) tgs.tail rest htail]

/-! ### associative containers -/

theorem insertBy_append {α : Type} (lt : α → α → Bool) (e : α) (l : List α)
    (h : ∀ x ∈ l, lt x e = true) : insertBy lt e l = l ++ [e] := by
  induction l with
  | nil => rfl
  | cons x xs ih =>
    have hx : lt x e = true := h x (by simp)
    simp only [insertBy, hx, if_true, List.cons_append]
    rw [ih (fun y hy => h y (List.mem_cons_of_mem _ hy))]

theorem sortedBy_cons {α : Type} (lt : α → α → Bool) (x : α) (xs : List α) :
    sortedBy lt (x :: xs) = true ↔ (∀ y ∈ xs, lt x y = true) ∧ sortedBy lt xs = true := by
  simp [sortedBy, List.all_eq_true]

/-- Inserting a sorted sequence, in order, behind entries that all precede it appends it. -/
theorem insertAll_sorted {α : Type} (lt : α → α → Bool) (es : List α) :
    ∀ (pre : List α), sortedBy lt es = true → (∀ x ∈ pre, ∀ y ∈ es, lt x y = true) →
      insertAll lt pre es = pre ++ es := by
  induction es with
  | nil => intro pre _ _; simp [insertAll]
  | cons e es ih =>
    intro pre hs hpre
    rw [sortedBy_cons] at hs
    simp only [insertAll, List.foldl_cons]
    rw [insertBy_append lt e pre (fun x hx => hpre x hx e (by simp))]
    have := ih (pre ++ [e]) hs.2 (by
      intro x hx y hy
      rcases List.mem_append.1 hx with h | h
      · exact hpre x h y (List.mem_cons_of_mem _ hy)
      · simp at h; subst h; exact hs.1 y hy)
    simp only [insertAll] at this
    rw [this]; simp

theorem insertAll_nil_sorted {α : Type} (lt : α → α → Bool) (es : List α) (h : sortedBy lt es = true) :
    insertAll lt [] es = es := by
  have := insertAll_sorted lt es [] h (by intro x hx; cases hx)
  simpa using this

end OpmVerif.Serial

namespace OpmVerif.Serial

theorem sum_map_congr {α} (l : List α) (f g : α → Nat) (h : ∀ x ∈ l, f x = g x) :
    (l.map f).sum = (l.map g).sum := by
  rw [List.map_congr_left h]

theorem entry_shape (k w : Ty) (e : Val)
    (h : (match e with | .list [x, y] => wt k x && wt w y | _ => false) = true) :
    ∃ x y, e = .list [x, y] ∧ wt k x = true ∧ wt w y = true := by
  split at h
  · rename_i x y
    simp only [Bool.and_eq_true] at h
    exact ⟨x, y, rfl, h.1, h.2⟩
  · cases h

/-! ### PACKSIZE agrees with PACK -/

mutual
theorem pack_length : ∀ (t : Ty) (v : Val), wt t v = true → (pack t v).length = size t v
  | .pod n, v, h => by
    cases v <;> simp [wt] at h
    simp [pack, size, podBytes, h]
  | .int n, v, h => by
    cases v <;> simp [wt] at h
    simp [pack, size, podBytes, h]
  | .str, v, _ => by
    simp [pack, size, le64, le_length]
  | .vecBool, v, _ => by
    simp [pack, size, le64, le_length, szBool]
  | .vec t, v, h => by
    cases v <;> simp [wt] at h
    simp only [pack, size, elems, List.length_append, le64, le_length, List.length_flatten, List.map_map]
    congr 1
    exact sum_map_congr _ _ _ (fun x hx => pack_length t x (h.2 x hx))
  | .arr k t, v, h => by
    cases v <;> simp [wt] at h
    simp only [pack, size, elems, List.length_flatten, List.map_map]
    exact sum_map_congr _ _ _ (fun x hx => pack_length t x (h.2 x hx))
  | .opt t, v, h => by
    cases v <;> simp [wt] at h
    · simp [pack, size, optOf, szBool]
    · simp only [pack, size, optOf, List.length_cons, szBool]
      rw [pack_length t _ h]; omega
  | .uptr t, v, h => by
    cases v <;> simp [wt] at h
    · simp [pack, size, optOf, le_length]
    · simp only [pack, size, optOf, List.length_append, le_length]
      rw [pack_length t _ h]
  | .set o t, v, h => by
    cases v <;> simp [wt] at h
    simp only [pack, size, elems, List.length_append, le64, le_length, List.length_flatten, List.map_map]
    congr 1
    exact sum_map_congr _ _ _ (fun x hx => pack_length t x (h.1.2 x hx))
  | .map o k w, v, h => by
    cases v <;> simp [wt] at h
    simp only [pack, size, elems, List.length_append, le64, le_length, List.length_flatten, List.map_map]
    congr 1
    apply sum_map_congr
    intro e he
    obtain ⟨x, y, rfl, hx, hy⟩ := entry_shape k w e (h.1.2 e he)
    simp [fstOf, sndOf, elems, pack_length k x hx, pack_length w y hy]
  | .tup ts, v, h => by
    cases v <;> simp [wt] at h
    simp only [pack, size, elems]
    exact packs_length ts _ h
  | .var ts, v, h => by
    cases v <;> simp [wt] at h
    simp only [pack, size, altIdx, altVal, List.length_append, le64, le_length]
    rw [packAlt_length ts _ _ h.2]
  | .struct ts, v, h => by
    cases v <;> simp [wt] at h
    simp only [pack, size, elems]
    exact packs_length ts _ h
theorem packs_length : ∀ (ts : List Ty) (vs : List Val), wts ts vs = true → (packs ts vs).length = sizes ts vs
  | [], [], _ => by simp [packs, sizes]
  | [], _ :: _, h => by simp [wts] at h
  | _ :: _, [], h => by simp [wts] at h
  | t :: ts, v :: vs, h => by
    simp only [wts, Bool.and_eq_true] at h
    simp only [packs, sizes, List.length_append]
    rw [pack_length t v h.1, packs_length ts vs h.2]
theorem packAlt_length : ∀ (ts : List Ty) (i : Nat) (v : Val), wtAlt ts i v = true →
    (packAlt ts i v).length = sizeAlt ts i v
  | [], _, _, h => by simp [wtAlt] at h
  | t :: _, 0, v, h => by
    simp only [wtAlt] at h
    simp only [packAlt, sizeAlt]
    exact pack_length t v h
  | _ :: ts, i + 1, v, h => by
    simp only [wtAlt] at h
    simp only [packAlt, sizeAlt]
    exact packAlt_length ts i v h
end

end OpmVerif.Serial

namespace OpmVerif.Serial

/-! ### a value-initialised object is a fresh target -/

theorem all_replicate (p : Val → Bool) (k : Nat) (d : Val) (h : p d = true) :
    (List.replicate k d).all p = true := by
  simp [List.all_eq_true]; exact Or.inr h

mutual
theorem fresh_dflt : ∀ (t : Ty), fresh t (dflt t) = true
  | .pod _ => by simp [fresh]
  | .int _ => by simp [fresh]
  | .str => by simp [fresh]
  | .vecBool => by simp [fresh]
  | .vec _ => by simp [fresh, dflt, elems]
  | .arr k t => by
    simp only [fresh, dflt, elems]
    exact all_replicate _ k _ (fresh_dflt t)
  | .opt _ => by simp [fresh]
  | .uptr _ => by simp [fresh, dflt]
  | .set _ _ => by simp [fresh, dflt, elems]
  | .map _ _ _ => by simp [fresh, dflt, elems]
  | .tup ts => by simp only [fresh, dflt, elems]; exact freshs_dflts ts
  | .var _ => by simp [fresh]
  | .struct ts => by simp only [fresh, dflt, elems]; exact freshs_dflts ts
theorem freshs_dflts : ∀ (ts : List Ty), freshs ts (dflts ts) = true
  | [] => by simp [freshs]
  | t :: ts => by
    simp only [freshs, dflts, List.headD_cons, List.tail_cons, Bool.and_eq_true]
    exact ⟨fresh_dflt t, freshs_dflts ts⟩
end

/-! ### UNPACK ∘ PACK = id -/

mutual
theorem unpack_pack : ∀ (t : Ty) (v tgt : Val) (rest : Bytes), wt t v = true → fresh t tgt = true →
    unpack t tgt (pack t v ++ rest) = .ok (v, rest)
  | .pod n, v, tgt, rest, h, _ => by
    cases v <;> simp [wt] at h
    simp only [pack, podBytes_pod, unpack]
    rw [takeN_append' n _ rest h]
  | .int n, v, tgt, rest, h, _ => by
    cases v <;> simp [wt] at h
    simp only [pack, podBytes_pod, unpack]
    rw [takeN_append' n _ rest h]
  | .str, v, tgt, rest, h, _ => by
    cases v <;> simp [wt] at h
    simp only [pack, strBytes_str, unpack, List.append_assoc]
    rw [rdNat_le64 _ _ h]; simp only []
    rw [takeN_append]
  | .vecBool, v, tgt, rest, h, _ => by
    cases v <;> simp [wt] at h
    simp only [pack, boolsOf_bools, unpack, List.append_assoc]
    rw [rdNat_le64 _ _ h]; simp only []
    rw [rdBools_map]
  | .vec t, v, tgt, rest, h, hf => by
    cases v <;> simp [wt] at h
    rename_i vs
    simp only [fresh, List.all_eq_true] at hf
    simp only [pack, elems_list, unpack, List.append_assoc]
    rw [rdNat_le64 _ _ h.1]; simp only []
    rw [unpackN_flatten (unpack t) (pack t) (dflt t) (fun tg => fresh t tg = true) (fresh_dflt t) vs
      (fun x hx tg rest htg => unpack_pack t x tg rest (h.2 x hx) htg) _ rest hf]
  | .arr k t, v, tgt, rest, h, hf => by
    cases v <;> simp [wt] at h
    rename_i vs
    simp only [fresh, List.all_eq_true] at hf
    simp only [pack, elems_list, unpack]
    rw [← h.1]
    rw [unpackN_flatten (unpack t) (pack t) (dflt t) (fun tg => fresh t tg = true) (fresh_dflt t) vs
      (fun x hx tg rest htg => unpack_pack t x tg rest (h.2 x hx) htg) _ rest hf]
  | .opt t, v, tgt, rest, h, _ => by
    cases v <;> simp [wt] at h
    · simp only [pack, optOf_none, optOf_some, unpack, List.cons_append, List.nil_append, rdBool_boolByte]
    · rename_i x
      simp only [pack, optOf_none, optOf_some, unpack, List.cons_append, rdBool_boolByte]
      rw [unpack_pack t x (dflt t) rest h (fresh_dflt t)]
  | .uptr t, v, tgt, rest, h, hf => by
    cases tgt <;> simp [fresh] at hf
    cases v <;> simp [wt] at h
    · simp only [pack, optOf_none, optOf_some, unpack]
      rw [rdNat_le szInt 0 rest (by decide)]
      simp
    · rename_i x
      simp only [pack, optOf_none, optOf_some, unpack, List.append_assoc]
      rw [rdNat_le szInt 1 _ (by decide)]
      simp only [if_true]
      rw [unpack_pack t x (dflt t) rest h (fresh_dflt t)]
  | .set o t, v, tgt, rest, h, hf => by
    cases v <;> simp [wt] at h
    rename_i vs
    simp only [fresh, List.isEmpty_iff] at hf
    simp only [pack, elems_list, unpack, List.append_assoc]
    rw [rdNat_le64 _ _ h.1.1]; simp only []
    rw [unpackN_flatten (unpack t) (pack t) (dflt t) (fun tg => fresh t tg = true) (fresh_dflt t) vs
      (fun x hx tg rest htg => unpack_pack t x tg rest (h.1.2 x hx) htg) [] rest (by intro _ h; cases h)]
    rw [hf]; simp only []
    rw [insertAll_nil_sorted _ _ h.2]
  | .map o k w, v, tgt, rest, h, hf => by
    cases v <;> simp [wt] at h
    rename_i vs
    simp only [fresh, List.isEmpty_iff] at hf
    simp only [pack, elems_list, unpack, List.append_assoc]
    rw [rdNat_le64 _ _ h.1.1]; simp only []
    rw [unpackN_flatten _ (fun e => pack k (fstOf e) ++ pack w (sndOf e)) .none (fun _ => True) trivial vs
      (fun e he tg rest _ => by
        obtain ⟨x, y, rfl, hx, hy⟩ := entry_shape k w e (h.1.2 e he)
        simp only [fstOf_pair, sndOf_pair, List.append_assoc]
        rw [unpack_pack k x (dflt k) _ hx (fresh_dflt k)]
        simp only []
        rw [unpack_pack w y (dflt w) _ hy (fresh_dflt w)]) [] rest (by intro _ h; cases h)]
    rw [hf]; simp only []
    rw [insertAll_nil_sorted _ _ h.2]
  | .tup ts, v, tgt, rest, h, hf => by
    cases v <;> simp [wt] at h
    simp only [fresh] at hf
    simp only [pack, elems_list, unpack]
    rw [unpacks_packs ts _ _ rest h hf]
  | .var ts, v, tgt, rest, h, _ => by
    cases v <;> simp [wt] at h
    simp only [pack, altIdx_alt, altVal_alt, unpack, List.append_assoc]
    rw [rdNat_le64 _ _ h.1]; simp only []
    rw [unpackAlt_packAlt ts _ _ rest h.2]
  | .struct ts, v, tgt, rest, h, hf => by
    cases v <;> simp [wt] at h
    simp only [fresh] at hf
    simp only [pack, elems_list, unpack]
    rw [unpacks_packs ts _ _ rest h hf]
theorem unpacks_packs : ∀ (ts : List Ty) (vs tgs : List Val) (rest : Bytes), wts ts vs = true →
    freshs ts tgs = true → unpacks ts tgs (packs ts vs ++ rest) = .ok (vs, rest)
  | [], [], _, _, _, _ => by simp [packs, unpacks]
  | [], _ :: _, _, _, h, _ => by simp [wts] at h
  | _ :: _, [], _, _, h, _ => by simp [wts] at h
  | t :: ts, v :: vs, tgs, rest, h, hf => by
    simp only [wts, Bool.and_eq_true] at h
    simp only [freshs, Bool.and_eq_true] at hf
    simp only [packs, unpacks, List.append_assoc]
    rw [unpack_pack t v _ _ h.1 hf.1]; simp only []
    rw [unpacks_packs ts vs _ rest h.2 hf.2]
theorem unpackAlt_packAlt : ∀ (ts : List Ty) (i : Nat) (v : Val) (rest : Bytes), wtAlt ts i v = true →
    unpackAlt ts i (packAlt ts i v ++ rest) = .ok (v, rest)
  | [], _, _, _, h => by simp [wtAlt] at h
  | t :: _, 0, v, rest, h => by
    simp only [wtAlt] at h
    simp only [packAlt, unpackAlt]
    exact unpack_pack t v (dflt t) rest h (fresh_dflt t)
  | _ :: ts, i + 1, v, rest, h => by
    simp only [wtAlt] at h
    simp only [packAlt, unpackAlt]
    exact unpackAlt_packAlt ts i v rest h
end

end OpmVerif.Serial

namespace OpmVerif.Serial

/-! ### corollaries -/

theorem unpack_pack_nil (t : Ty) (v tgt : Val) (hv : wt t v = true) (hf : fresh t tgt = true) :
    unpack t tgt (pack t v) = .ok (v, []) := by
  have := unpack_pack t v tgt [] hv hf
  simpa using this

theorem roundTrip_eq (t : Ty) (v : Val) (hv : wt t v = true) : roundTrip t v = .ok (v, size t v) := by
  unfold roundTrip
  rw [unpack_pack_nil t v (dflt t) hv (fresh_dflt t)]
  simp [pack_length t v hv]

theorem repack_of_unpack (t : Ty) (v v' : Val) (rest : Bytes) (hv : wt t v = true)
    (h : unpack t (dflt t) (pack t v) = .ok (v', rest)) : pack t v' = pack t v ∧ rest = [] := by
  rw [unpack_pack_nil t v (dflt t) hv (fresh_dflt t)] at h
  cases h
  exact ⟨rfl, rfl⟩

theorem pack_inj (t : Ty) (v v' : Val) (r r' : Bytes) (hv : wt t v = true) (hv' : wt t v' = true)
    (h : pack t v ++ r = pack t v' ++ r') : v = v' ∧ r = r' := by
  have h1 := unpack_pack t v (dflt t) r hv (fresh_dflt t)
  have h2 := unpack_pack t v' (dflt t) r' hv' (fresh_dflt t)
  rw [h, h2] at h1
  cases h1
  exact ⟨rfl, rfl⟩

end OpmVerif.Serial

namespace OpmVerif.Serial

/-! ### time_point travels as its full int64 millisecond count -/

/-- Every `time_point` (any `int64_t` tick count, before or after the epoch) is read back
exactly, whatever follows in the buffer. -/
theorem unpackTime_packTime (ms : Int) (rest : Bytes) (hlo : -two63 ≤ ms) (hhi : ms < two63) :
    unpackTime (packTime ms ++ rest) = .ok (ms, rest) := by
  unfold two63 at hlo hhi
  unfold unpackTime packTime two64 two63
  have hnn : 0 ≤ ms % 18446744073709551616 := by omega
  have hlt : ms % 18446744073709551616 < 18446744073709551616 := by omega
  have hcast : (((ms % 18446744073709551616).toNat : Nat) : Int) = ms % 18446744073709551616 :=
    Int.toNat_of_nonneg hnn
  have hbound : (ms % 18446744073709551616).toNat < 256 ^ 8 := by
    have h2 : (256 : Nat) ^ 8 = 18446744073709551616 := by decide
    omega
  rw [rdNat_le 8 _ rest hbound]
  simp only [hcast]
  by_cases hneg : ms < 0
  · have h0 : ms % 18446744073709551616 = ms + 18446744073709551616 := by omega
    rw [h0]
    have h1 : ¬ (ms + 18446744073709551616 < 9223372036854775808) := by omega
    rw [if_neg h1]
    congr 2; omega
  · have h0 : ms % 18446744073709551616 = ms := by omega
    rw [h0, if_pos hhi]

end OpmVerif.Serial

/-! ### PACK ∘ UNPACK = id on flat types: every accepted buffer is the image of its value -/

namespace OpmVerif.Serial

theorem takeN_ok {n : Nat} {bs h r : Bytes} (e : takeN n bs = .ok (h, r)) : h ++ r = bs ∧ h.length = n := by
  unfold takeN at e
  split at e
  · injection e with e; injection e with e1 e2
    subst e1; subst e2
    rename_i hle
    exact ⟨List.take_append_drop n bs, by simp [List.length_take]; omega⟩
  · cases e

theorem rdNat_ok {w : Nat} {bs r : Bytes} {n : Nat} (e : rdNat w bs = .ok (n, r)) :
    le w n ++ r = bs ∧ n < 256 ^ w := by
  unfold rdNat at e
  cases hh : takeN w bs with
  | error x => rw [hh] at e; cases e
  | ok p =>
    obtain ⟨h, r'⟩ := p
    rw [hh] at e
    simp only [] at e
    injection e with e; injection e with e1 e2
    subst e2
    have := takeN_ok hh
    rw [← e1, ← this.2, le_fromLE]
    exact ⟨this.1, fromLE_lt h⟩

theorem rdBool_ok {bs r : Bytes} {b : Bool} (e : rdBool bs = .ok (b, r)) : boolByte b :: r = bs := by
  unfold rdBool at e
  cases bs with
  | nil => cases e
  | cons x xs =>
    simp only [] at e
    split at e
    · injection e with e; injection e with e1 e2; subst e1; subst e2; rename_i h; simp [boolByte, h]
    · split at e
      · injection e with e; injection e with e1 e2; subst e1; subst e2; rename_i h; simp [boolByte, h]
      · cases e

theorem rdBools_ok : ∀ (n : Nat) (bs r : Bytes) (l : List Bool), rdBools n bs = .ok (l, r) →
    l.map boolByte ++ r = bs ∧ l.length = n
  | 0, bs, r, l, e => by
    simp only [rdBools] at e
    injection e with e; injection e with e1 e2; subst e1; subst e2; simp
  | n + 1, bs, r, l, e => by
    simp only [rdBools] at e
    cases h1 : rdBool bs with
    | error x => rw [h1] at e; cases e
    | ok p =>
      obtain ⟨b, r1⟩ := p
      rw [h1] at e; simp only [] at e
      cases h2 : rdBools n r1 with
      | error x => rw [h2] at e; cases e
      | ok q =>
        obtain ⟨l', r2⟩ := q
        rw [h2] at e; simp only [] at e
        injection e with e; injection e with e1 e2; subst e1; subst e2
        have ih := rdBools_ok n r1 r2 l' h2
        have hb := rdBool_ok h1
        refine ⟨?_, by simp [ih.2]⟩
        simp only [List.map_cons, List.cons_append]
        rw [ih.1]; exact hb

end OpmVerif.Serial

namespace OpmVerif.Serial

theorem unpackN_ok (f : Val → Bytes → Except Err (Val × Bytes)) (p : Val → Bytes) (P : Val → Prop) (d : Val)
    (hf : ∀ tg bs v r, f tg bs = .ok (v, r) → p v ++ r = bs ∧ P v) :
    ∀ (n : Nat) (tgs : List Val) (bs : Bytes) (vs : List Val) (r : Bytes), unpackN f d n tgs bs = .ok (vs, r) →
      (vs.map p).flatten ++ r = bs ∧ vs.length = n ∧ ∀ v ∈ vs, P v
  | 0, tgs, bs, vs, r, e => by
    simp only [unpackN] at e
    injection e with e; injection e with e1 e2; subst e1; subst e2; simp
  | n + 1, tgs, bs, vs, r, e => by
    simp only [unpackN] at e
    cases h1 : f (tgs.headD d) bs with
    | error x => rw [h1] at e; cases e
    | ok q =>
      obtain ⟨v, r1⟩ := q
      rw [h1] at e; simp only [] at e
      cases h2 : unpackN f d n tgs.tail r1 with
      | error x => rw [h2] at e; cases e
      | ok q2 =>
        obtain ⟨vs', r2⟩ := q2
        rw [h2] at e; simp only [] at e
        injection e with e; injection e with e1 e2; subst e1; subst e2
        have ih := unpackN_ok f p P d hf n tgs.tail r1 vs' r2 h2
        have hv := hf _ _ _ _ h1
        refine ⟨?_, by simp [ih.2.1], ?_⟩
        · simp only [List.map_cons, List.flatten_cons, List.append_assoc]
          rw [ih.1]; exact hv.1
        · intro x hx
          rcases List.mem_cons.1 hx with h | h
          · subst h; exact hv.2
          · exact ih.2.2 x h

theorem lenOk_of_lt {n : Nat} (h : n < 256 ^ szSizeT) : lenOk n = true := (lenOk_iff n).2 h

mutual
theorem pack_unpack : ∀ (t : Ty) (tgt v : Val) (bs rest : Bytes), flat t = true →
    unpack t tgt bs = .ok (v, rest) → pack t v ++ rest = bs ∧ wt t v = true
  | .pod n, tgt, v, bs, rest, _, e => by
    simp only [unpack] at e
    cases h1 : takeN n bs with
    | error x => rw [h1] at e; cases e
    | ok q =>
      obtain ⟨h, r⟩ := q
      rw [h1] at e; simp only [] at e
      injection e with e; injection e with e1 e2; subst e1; subst e2
      have := takeN_ok h1
      simp [pack, podBytes, wt, this.1, this.2]
  | .int n, tgt, v, bs, rest, _, e => by
    simp only [unpack] at e
    cases h1 : takeN n bs with
    | error x => rw [h1] at e; cases e
    | ok q =>
      obtain ⟨h, r⟩ := q
      rw [h1] at e; simp only [] at e
      injection e with e; injection e with e1 e2; subst e1; subst e2
      have := takeN_ok h1
      simp [pack, podBytes, wt, this.1, this.2]
  | .str, tgt, v, bs, rest, _, e => by
    simp only [unpack] at e
    cases h1 : rdNat szSizeT bs with
    | error x => rw [h1] at e; cases e
    | ok q =>
      obtain ⟨n, r⟩ := q
      rw [h1] at e; simp only [] at e
      cases h2 : takeN n r with
      | error x => rw [h2] at e; cases e
      | ok q2 =>
        obtain ⟨h, r2⟩ := q2
        rw [h2] at e; simp only [] at e
        injection e with e; injection e with e1 e2; subst e1; subst e2
        have a := rdNat_ok h1
        have b := takeN_ok h2
        refine ⟨?_, ?_⟩
        · simp only [pack, strBytes_str, le64, List.append_assoc]
          rw [b.2, b.1]; exact a.1
        · simp only [wt]; rw [b.2]; exact lenOk_of_lt a.2
  | .vecBool, tgt, v, bs, rest, _, e => by
    simp only [unpack] at e
    cases h1 : rdNat szSizeT bs with
    | error x => rw [h1] at e; cases e
    | ok q =>
      obtain ⟨n, r⟩ := q
      rw [h1] at e; simp only [] at e
      cases h2 : rdBools n r with
      | error x => rw [h2] at e; cases e
      | ok q2 =>
        obtain ⟨l, r2⟩ := q2
        rw [h2] at e; simp only [] at e
        injection e with e; injection e with e1 e2; subst e1; subst e2
        have a := rdNat_ok h1
        have b := rdBools_ok n r _ l h2
        refine ⟨?_, ?_⟩
        · simp only [pack, boolsOf_bools, le64, List.append_assoc]
          rw [b.2, b.1]; exact a.1
        · simp only [wt]; rw [b.2]; exact lenOk_of_lt a.2
  | .vec t, tgt, v, bs, rest, hfl, e => by
    simp only [flat] at hfl
    simp only [unpack] at e
    cases h1 : rdNat szSizeT bs with
    | error x => rw [h1] at e; cases e
    | ok q =>
      obtain ⟨n, r⟩ := q
      rw [h1] at e; simp only [] at e
      cases h2 : unpackN (unpack t) (dflt t) n (elems tgt) r with
      | error x => rw [h2] at e; cases e
      | ok q2 =>
        obtain ⟨vs, r2⟩ := q2
        rw [h2] at e; simp only [] at e
        injection e with e; injection e with e1 e2; subst e1; subst e2
        have a := rdNat_ok h1
        have b := unpackN_ok (unpack t) (pack t) (fun x => wt t x = true) (dflt t)
          (fun tg bs v r hh => pack_unpack t tg v bs r hfl hh) n _ r vs _ h2
        refine ⟨?_, ?_⟩
        · simp only [pack, elems_list, le64, List.append_assoc]
          rw [b.2.1, b.1]; exact a.1
        · simp only [wt, Bool.and_eq_true, List.all_eq_true]
          exact ⟨by rw [b.2.1]; exact lenOk_of_lt a.2, b.2.2⟩
  | .arr k t, tgt, v, bs, rest, hfl, e => by
    simp only [flat] at hfl
    simp only [unpack] at e
    cases h2 : unpackN (unpack t) (dflt t) k (elems tgt) bs with
    | error x => rw [h2] at e; cases e
    | ok q2 =>
      obtain ⟨vs, r2⟩ := q2
      rw [h2] at e; simp only [] at e
      injection e with e; injection e with e1 e2; subst e1; subst e2
      have b := unpackN_ok (unpack t) (pack t) (fun x => wt t x = true) (dflt t)
        (fun tg bs v r hh => pack_unpack t tg v bs r hfl hh) k _ bs vs _ h2
      refine ⟨?_, ?_⟩
      · simp only [pack, elems_list]; exact b.1
      · simp only [wt, Bool.and_eq_true, List.all_eq_true, decide_eq_true_eq]
        exact ⟨b.2.1, b.2.2⟩
  | .opt t, tgt, v, bs, rest, hfl, e => by
    simp only [flat] at hfl
    simp only [unpack] at e
    cases h1 : rdBool bs with
    | error x => rw [h1] at e; cases e
    | ok q =>
      obtain ⟨b, r⟩ := q
      rw [h1] at e
      have a := rdBool_ok h1
      cases b with
      | false =>
        simp only [] at e
        injection e with e; injection e with e1 e2; subst e1; subst e2
        simp [pack, optOf_none, wt, a]
      | true =>
        simp only [] at e
        cases h2 : unpack t (dflt t) r with
        | error x => rw [h2] at e; cases e
        | ok q2 =>
          obtain ⟨x, r2⟩ := q2
          rw [h2] at e; simp only [] at e
          injection e with e; injection e with e1 e2; subst e1; subst e2
          have ih := pack_unpack t (dflt t) x r _ hfl h2
          refine ⟨?_, by simpa [wt] using ih.2⟩
          simp only [pack, optOf_some, List.cons_append]
          rw [ih.1]; exact a
  | .uptr _, _, _, _, _, hfl, _ => by simp [flat] at hfl
  | .set _ _, _, _, _, _, hfl, _ => by simp [flat] at hfl
  | .map _ _ _, _, _, _, _, hfl, _ => by simp [flat] at hfl
  | .tup ts, tgt, v, bs, rest, hfl, e => by
    simp only [flat] at hfl
    simp only [unpack] at e
    cases h2 : unpacks ts (elems tgt) bs with
    | error x => rw [h2] at e; cases e
    | ok q2 =>
      obtain ⟨vs, r2⟩ := q2
      rw [h2] at e; simp only [] at e
      injection e with e; injection e with e1 e2; subst e1; subst e2
      have ih := packs_unpacks ts _ vs bs _ hfl h2
      exact ⟨by simpa [pack, elems_list] using ih.1, by simpa [wt] using ih.2⟩
  | .var ts, tgt, v, bs, rest, hfl, e => by
    simp only [flat] at hfl
    simp only [unpack] at e
    cases h1 : rdNat szSizeT bs with
    | error x => rw [h1] at e; cases e
    | ok q =>
      obtain ⟨i, r⟩ := q
      rw [h1] at e; simp only [] at e
      cases h2 : unpackAlt ts i r with
      | error x => rw [h2] at e; cases e
      | ok q2 =>
        obtain ⟨x, r2⟩ := q2
        rw [h2] at e; simp only [] at e
        injection e with e; injection e with e1 e2; subst e1; subst e2
        have a := rdNat_ok h1
        have ih := packAlt_unpackAlt ts i x r _ hfl h2
        refine ⟨?_, ?_⟩
        · simp only [pack, altIdx_alt, altVal_alt, le64, List.append_assoc]
          rw [ih.1]; exact a.1
        · simp only [wt, Bool.and_eq_true]; exact ⟨lenOk_of_lt a.2, ih.2⟩
  | .struct ts, tgt, v, bs, rest, hfl, e => by
    simp only [flat] at hfl
    simp only [unpack] at e
    cases h2 : unpacks ts (elems tgt) bs with
    | error x => rw [h2] at e; cases e
    | ok q2 =>
      obtain ⟨vs, r2⟩ := q2
      rw [h2] at e; simp only [] at e
      injection e with e; injection e with e1 e2; subst e1; subst e2
      have ih := packs_unpacks ts _ vs bs _ hfl h2
      exact ⟨by simpa [pack, elems_list] using ih.1, by simpa [wt] using ih.2⟩
theorem packs_unpacks : ∀ (ts : List Ty) (tgs vs : List Val) (bs rest : Bytes), flats ts = true →
    unpacks ts tgs bs = .ok (vs, rest) → packs ts vs ++ rest = bs ∧ wts ts vs = true
  | [], tgs, vs, bs, rest, _, e => by
    simp only [unpacks] at e
    injection e with e; injection e with e1 e2; subst e1; subst e2
    simp [packs, wts]
  | t :: ts, tgs, vs, bs, rest, hfl, e => by
    simp only [flats, Bool.and_eq_true] at hfl
    simp only [unpacks] at e
    cases h1 : unpack t (tgs.headD (dflt t)) bs with
    | error x => rw [h1] at e; cases e
    | ok q =>
      obtain ⟨v, r⟩ := q
      rw [h1] at e; simp only [] at e
      cases h2 : unpacks ts tgs.tail r with
      | error x => rw [h2] at e; cases e
      | ok q2 =>
        obtain ⟨vs', r2⟩ := q2
        rw [h2] at e; simp only [] at e
        injection e with e; injection e with e1 e2; subst e1; subst e2
        have a := pack_unpack t _ v bs r hfl.1 h1
        have b := packs_unpacks ts _ vs' r _ hfl.2 h2
        refine ⟨?_, by simp [wts, a.2, b.2]⟩
        simp only [packs, List.append_assoc]
        rw [b.1]; exact a.1
theorem packAlt_unpackAlt : ∀ (ts : List Ty) (i : Nat) (x : Val) (bs rest : Bytes), flats ts = true →
    unpackAlt ts i bs = .ok (x, rest) → packAlt ts i x ++ rest = bs ∧ wtAlt ts i x = true
  | [], _, _, _, _, _, e => by simp [unpackAlt] at e
  | t :: _, 0, x, bs, rest, hfl, e => by
    simp only [flats, Bool.and_eq_true] at hfl
    simp only [unpackAlt] at e
    have a := pack_unpack t _ x bs rest hfl.1 e
    simpa [packAlt, wtAlt] using a
  | _ :: ts, i + 1, x, bs, rest, hfl, e => by
    simp only [flats, Bool.and_eq_true] at hfl
    simp only [unpackAlt] at e
    have a := packAlt_unpackAlt ts i x bs rest hfl.2 e
    simpa [packAlt, wtAlt] using a
end

end OpmVerif.Serial

namespace OpmVerif.Serial

/-- UNPACK consumed exactly PACKSIZE bytes of whatever buffer it accepted (flat types). -/
theorem unpack_consumed (t : Ty) (tgt v : Val) (bs rest : Bytes) (hfl : flat t = true)
    (e : unpack t tgt bs = .ok (v, rest)) : bs.length = size t v + rest.length := by
  have h := pack_unpack t tgt v bs rest hfl e
  rw [← h.1, List.length_append, pack_length t v h.2]

end OpmVerif.Serial
