/-
  `parse_write_deck` (second round): the text `Deck::write` produces for a whole deck —
  keyword after keyword: name line, records, closing `/` where the keyword has one; TITLE
  with its own layout — parses back, through the keyword loop of `parseState`, to the deck
  that was written; by induction over the keyword list, for decks that `Conforms`.

  The recorded findings are what `Conforms` excludes: a record holding only defaults inside a
  slash-terminated or fixed-size keyword (`C19.alldefault_record`: it is written as a bare
  `/`; `RunOk` fails), code keywords (`C19.code_keyword_end_token`: not in the model), and
  floating point tokens that do not read back (`C19.double_overflow`: `Conf`).
-/
import OpmVerif.Proofs.KwRoundTrip2
import OpmVerif.Proofs.Deck

namespace OpmVerif.Deck
open OpmVerif.Lex OpmVerif.Tok OpmVerif.Scan OpmVerif.RawKw OpmVerif.DeckWrite

/-! ### unknown size: records up to the next keyword or the end of the input -/

structure IsUnknown (k : Kw) : Prop where
  st : k.sizeType = .unknown
  fs : k.fixedSize = 0
  fin : k.finished = false

theorem isUnknown_addRecord {k : Kw} (h : IsUnknown k) (t : List Bytes) : IsUnknown (k.addRecord t) := by
  obtain ⟨hst, hfs, hfin⟩ := h
  unfold Kw.addRecord
  by_cases ht : t.length > 0
  · simp only [ht, ↓reduceIte, hst]; constructor <;> simp [hst, hfs, hfin]
  · simp only [ht, ↓reduceIte, hst]; constructor <;> simp [hst, hfs, hfin]

theorem unknown_run : ∀ (tss : List (List Bytes)) (k : Kw), IsUnknown k → (∀ t ∈ tss, t ≠ []) →
    NoEarly k tss ∧ IsUnknown (tss.foldl stepRec k) ∧ (tss.foldl stepRec k).records = k.records ++ tss := by
  intro tss
  induction tss with
  | nil => intro k hk _; exact ⟨trivial, hk, by simp⟩
  | cons t ts ih =>
    intro k hk h
    have ht : t ≠ [] := h t (by simp)
    have hk' := isUnknown_addRecord hk t
    obtain ⟨h1, h2, h3⟩ := ih (k.addRecord t) hk' (fun x hx => h x (by simp [hx]))
    refine ⟨?_, by simpa [stepRec_nonempty k t ht] using h2, ?_⟩
    · cases ts with
      | nil => trivial
      | cons u us => exact ⟨by rw [stepRec_nonempty k t ht]; exact hk'.fin, by rw [stepRec_nonempty k t ht]; exact h1⟩
    · simp only [List.foldl_cons, stepRec_nonempty k t ht]
      rw [h3, addRecord_records]; simp

/-- **keywords of unknown size** (VFPPROD, …; written without a closing `/`): the written
records are assembled into exactly those records, and the keyword ends at the end of the
input or at the line of the next recognised keyword, which is left in the input. -/
theorem assemble_written_unknown (fmt : Bytes → Bytes) (fl : List Vals → Bool) (split : Bool) (recog : Bytes → Bool) (k0 : Kw)
    (hk : IsUnknown k0) (rs : List (List Vals)) (hne : rs ≠ [])
    (hemit : ∀ r ∈ rs, emitToks fmt (fl r) false 0 r.flatten ≠ [])
    (hbody : BodyOk recog k0.raw split false (rs.map fun r => emitToks fmt (fl r) false 0 r.flatten))
    (R : Bytes) (next : Bytes) (rest : List Bytes)
    (hR : splitLines (fastClean R) = [] ∨ splitLines (fastClean R) = [[]] ∨
      (splitLines (fastClean R) = next :: rest ∧ next ≠ eofMark ∧ next.isEmpty = false ∧
        recog (makeDeckName next) = true)) :
    ∃ kf, feedLines recog k0 [] [] (splitLines (fastClean (bodyText fmt fl split false rs ++ R))) =
        some (kf, if splitLines (fastClean R) = [[]] then [] else splitLines (fastClean R)) ∧ kf.finished = true ∧
      kf.records = k0.records ++ rs.map fun r => emitToks fmt (fl r) false 0 r.flatten := by
  have hnonempty : ∀ t ∈ (rs.map fun r => emitToks fmt (fl r) false 0 r.flatten), t ≠ [] := by
    intro t ht
    obtain ⟨r, hr, rfl⟩ := List.mem_map.mp ht
    exact hemit r hr
  obtain ⟨hno, hku, hrecs⟩ := unknown_run _ k0 hk hnonempty
  rw [lines_body fmt fl split false rs (by
    intro r hr t ht
    have := hbody.safe _ (List.mem_map.mpr ⟨r, hr, rfl⟩) t ht
    exact ⟨cleanSafe_of_tokSafe this.1, this.2⟩) R]
  have hmap : ((rs.map fun r => emitToks fmt (fl r) false 0 r.flatten).map (chunksOf split)).map List.flatten =
      rs.map fun r => emitToks fmt (fl r) false 0 r.flatten := by
    rw [List.map_map]
    have : (List.flatten ∘ chunksOf split) = id := by funext ts; exact chunksOf_flatten split ts
    rw [this, List.map_id]
  have hrec := feedLines_records recog (splitLines (fastClean R))
    ((rs.map fun r => emitToks fmt (fl r) false 0 r.flatten).map (chunksOf split)) k0
    (by
      intro cs hcs raw hraw
      subst hraw
      obtain ⟨ts, hts, rfl⟩ := List.mem_map.mp hcs
      exact recOk_of_bodyOk hbody ts hts)
    (by rw [hmap]; exact hno) stepRec_raw
  rw [hmap] at hrec
  have hbl : bodyLines split false (rs.map fun r => emitToks fmt (fl r) false 0 r.flatten) =
      ((rs.map fun r => emitToks fmt (fl r) false 0 r.flatten).map (chunksOf split)).flatMap recLines := by
    simp [bodyLines]
  rw [hbl, hrec]
  generalize hkf : (rs.map fun r => emitToks fmt (fl r) false 0 r.flatten).foldl stepRec k0 = kf at hku hrecs
  have hcc : kf.canComplete = true := by unfold Kw.canComplete; simp [hku.st]
  have hterm : kf.terminate.finished = true ∧ kf.terminate.records = kf.records := by
    unfold Kw.terminate; simp [hku.st]
  have hcss : (rs.map fun r => emitToks fmt (fl r) false 0 r.flatten).map (chunksOf split) ≠ [] := by
    simpa using hne
  refine ⟨kf.terminate, ?_, hterm.1, by rw [hterm.2, hrecs]⟩
  cases hc : (rs.map fun r => emitToks fmt (fl r) false 0 r.flatten).map (chunksOf split) with
  | nil => exact absurd hc hcss
  | cons c cs =>
    simp only [hku.fin, Bool.false_eq_true, ↓reduceIte]
    rcases hR with h | h | ⟨h, hm, hnz, hrg⟩
    · rw [h]
      simp [feedLines, hcc, hterm.1]
    · rw [h]
      simp only [↓reduceIte]
      rw [feedLines_cons recog kf [] [] [] [] nil_ne_eofMark]
      simp [feedLine, feedLines, hcc, hterm.1]
    · rw [h]
      have hne1 : (next :: rest = [[]]) = False := by
        simp only [eq_iff_iff, iff_false]
        intro e
        have := (List.cons.inj e).1
        subst this
        simp at hnz
      simp only [hne1, ↓reduceIte]
      rw [feedLines_cons recog kf [] [] next rest hm]
      simp [feedLine, hnz, hcc, hrg]

/-! ### TITLE -/

/-- `write_TITLE`: the values written without a record being open (`record_on = false`):
a blank between the entries, and in front of the first one iff `row_count > 0` is left over
from the previous keyword. -/
theorem writeValsM_title (fmt : Bytes → Bytes) : ∀ (vals : Vals) (rc : Nat), (∀ p ∈ vals, p.2 = .deck) →
    (writeValsM fmt false false 0 rc vals).1 =
      (if 0 < rc ∧ vals ≠ [] then [32] else []) ++ joinBlank (vals.map fun p => valTok fmt p.1) ∧
    (writeValsM fmt false false 0 rc vals).2.1 = 0 := by
  intro vals
  induction vals with
  | nil => intro rc _; simp [writeValsM, joinBlank]
  | cons p r ih =>
    intro rc h
    obtain ⟨v, st⟩ := p
    have hst : st = .deck := h (v, st) (by simp)
    subst hst
    obtain ⟨ih1, ih2⟩ := ih (rc + 1) (fun q hq => h q (by simp [hq]))
    simp only [writeValsM, ↓reduceIte, writeSep, Bool.false_eq_true, false_and, and_false]
    refine ⟨?_, ih2⟩
    rw [ih1]
    cases r with
    | nil => by_cases hrc : 0 < rc <;> simp [hrc, joinBlank]
    | cons q qs => by_cases hrc : 0 < rc <;> simp [hrc, joinBlank]

/-- the title line of a written TITLE cleans to its tokens joined by blanks and is taken as
the one record of the keyword. -/
theorem titleRecord_joinBlank (toks : List Bytes) (hne : toks ≠ []) (h : ∀ t ∈ toks, LineSafe t) :
    titleRecord (joinBlank toks) = some toks := by
  have hbal : BalancedNoSlash (joinBlank toks) :=
    endState_joinBlank local2_slash (isT := isSlashAt)
      (by intro x m hx; simpa [isSlashAt] using hx) (by intro m; simp [isSlashAt]) toks (fun t ht => (h t ht).2.2.1)
  have hcut : delAfterFirstSlash (joinBlank toks) = joinBlank toks := cutAt_of_endState _ none none hbal
  have hjne : joinBlank toks ≠ [] := joinBlank_ne_nil toks hne (fun t ht => atomic_ne_nil (h t ht).1)
  have hje : (joinBlank toks).isEmpty = false := by cases hj : joinBlank toks <;> simp_all
  unfold titleRecord
  rw [hcut]
  simp only [hje, Bool.false_eq_true, ↓reduceIte]
  unfold rawRecord
  have he : evenQuotes (joinBlank toks) = true := evenQuotes_joinBlank toks (fun t ht => (h t ht).2.1)
  have ht := tok_joinBlank toks [] (fun t ht => (h t ht).1) (Or.inl rfl) hne
  simp only [List.append_nil] at ht
  simp [he, tokenize, ht, tok]

/-! ### one keyword of the deck -/

/-- a keyword as the writer sees it. -/
structure KwW where
  name : Bytes
  split : Bool
  closing : Bool
  records : List (List Vals)

/-- `DeckKeyword::write` for a keyword other than TITLE. -/
def kwText (fmt : Bytes → Bytes) (fl : List Vals → Bool) (k : KwW) : Bytes :=
  k.name ++ [10] ++ bodyText fmt fl k.split k.closing k.records

/-- what the name line of a written keyword must satisfy to be read as that keyword. -/
structure NameOk (tbl : Table) (name : Bytes) (d : KwDef) : Prop where
  nonempty : name.isEmpty = false
  noNL : ∀ b ∈ name, b ≠ 10
  clean : cleanLine name = name
  deckName : makeDeckName name = name
  valid : validDeckName name = true
  short : name.length ≤ 8
  found : lookup tbl name = some d
  notSkip : isSkipName name = false
  notEndskip : (name == nameENDSKIP) = false
  notTitle : (name == nameTITLE) = false
  notEnd : (name == nameEND) = false
  notEndinc : (name == nameENDINC) = false
  notPaths : (name == namePATHS) = false
  notInclude : (name == nameINCLUDE) = false

theorem name_ne_eofMark {tbl : Table} {name : Bytes} {d : KwDef} (h : NameOk tbl name d) : (name = eofMark) = False := by
  simp only [eq_iff_iff, iff_false]
  intro e
  exact h.noNL 10 (by rw [e]; simp [eofMark]) rfl

/-- conformance of one keyword, given the deck parsed so far (`deck`): the keyword table
knows it, `newRawKeyword` gives the raw keyword `k0` for it, the run of the written records
through `k0` is `RunOk` (size class), the tokens are safe, the records conform to their
schemas. -/
structure KwConf (cv : Conv) (fmt : Bytes → Bytes) (fl : List Vals → Bool) (tbl : Table) (recog : Bytes → Bool)
    (deck : DeckT) (k : KwW) : Prop where
  ex : ∃ d k0, NameOk tbl k.name d ∧ newRaw d deck = some k0 ∧ k0.records = [] ∧ d.dbl = false ∧
    ((k0.finished = true ∧ k.records = [] ∧ k.closing = false) ∨
     (k0.finished = false ∧ (k.records ≠ [] ∨ k.closing = true) ∧
      RunOk k0 (k.records.map fun r => emitToks fmt (fl r) false 0 r.flatten) k.closing ∧
      BodyOk recog k0.raw k.split k.closing (k.records.map fun r => emitToks fmt (fl r) false 0 r.flatten))) ∧
    (∀ j r, k.records[j]? = some r → ∃ items, schemaOf d.schemas d.alt j = some items ∧
      Conf cv fmt items r ∧ r.flatten.length ≤ 2147483647 ∧
      (pend (fl r) false 0 r.flatten = 0 ∨ r.flatten.length ≤ singlePrefix items))

def normRecords (fmt : Bytes → Bytes) (rs : List (List Vals)) : List (List Vals) :=
  rs.map (·.map (·.map (normP fmt)))

/-- the cleaned lines of a written keyword. -/
def kwLines (fmt : Bytes → Bytes) (fl : List Vals → Bool) (k : KwW) : List Bytes :=
  k.name :: bodyLines k.split k.closing (k.records.map fun r => emitToks fmt (fl r) false 0 r.flatten)

/-- one step of the keyword loop on the LINES of a written keyword, in front of any lines
(also the end-of-file marker of an included file). -/
theorem parseLoop_written_kw_lines (cv : Conv) (fmt : Bytes → Bytes) (fl : List Vals → Bool) (tbl : Table) (recog : Bytes → Bool)
    (files : List (Bytes × Bytes) → Bytes → Option Bytes) (fuel : Nat) (al : List (Bytes × Bytes))
    (deck : DeckT) (k : KwW) (rest : List Bytes) (hk : KwConf cv fmt fl tbl recog deck k) :
    parseLoop cv tbl recog files (fuel + 1) al deck (kwLines fmt fl k ++ rest) =
      parseLoop cv tbl recog files fuel al (deck ++ [⟨k.name, normRecords fmt k.records⟩]) rest := by
  obtain ⟨d, k0, hn, hraw, hk0r, hdbl, hcase, hrec⟩ := hk.ex
  have hfind : findKw tbl k.name = some (k.name, d) := by
    unfold findKw
    have : ¬ (k.name.length > 8) := by have := hn.short; omega
    simp only [this, ↓reduceIte, hn.found]
  unfold kwLines
  rcases hcase with ⟨hfin, hrs, hcl⟩ | ⟨hnf, hne, hrun, hbody⟩
  · have hbody0 : bodyLines k.split k.closing (k.records.map fun r => emitToks fmt (fl r) false 0 r.flatten) = [] := by
      simp [bodyLines, hrs, hcl]
    have hpr : parseRecords cv d.schemas d.alt 0 k0.records = some [] := by rw [hk0r]; rfl
    rw [hbody0]
    simp only [List.cons_append, List.nil_append, parseLoop, parseStep, keywordRes, dispatch, hn.nonempty,
      Bool.false_eq_true, ↓reduceIte, name_ne_eofMark hn, hn.deckName, hn.notSkip,
      hn.notEndskip, hn.valid, Bool.not_true, hfind, hraw, hfin, hn.notEnd, hn.notEndinc, hn.notPaths, hn.notInclude,
      hdbl, hpr, hrs, normRecords, List.map_nil]
  · obtain ⟨kf, h1, h2, h3⟩ := parse_write_keyword_linesL cv fmt fl k.split k.closing recog k0 hk0r d.schemas d.alt
      k.records rest hne hrun hbody hrec
    simp only [List.cons_append, parseLoop, parseStep, keywordRes, dispatch, hn.nonempty, Bool.false_eq_true, ↓reduceIte,
      name_ne_eofMark hn, hn.deckName, hn.notSkip,
      hn.notEndskip, hn.valid, Bool.not_true, hfind, hraw, hnf, hn.notTitle, h1, h2, hn.notEnd, hn.notEndinc,
      hn.notPaths, hn.notInclude, hdbl, h3, normRecords]

theorem linesOf_kwText (cv : Conv) (fmt : Bytes → Bytes) (fl : List Vals → Bool) (tbl : Table) (recog : Bytes → Bool)
    (deck : DeckT) (k : KwW) (hk : KwConf cv fmt fl tbl recog deck k) (R : Bytes) :
    splitLines (fastClean (kwText fmt fl k ++ R)) = kwLines fmt fl k ++ splitLines (fastClean R) := by
  obtain ⟨d, k0, hn, hraw, hk0r, hdbl, hcase, hrec⟩ := hk.ex
  unfold kwText kwLines
  have h1 := lines_word k.name hn.noNL hn.clean (bodyText fmt fl k.split k.closing k.records ++ R)
  have e : k.name ++ [10] ++ bodyText fmt fl k.split k.closing k.records ++ R =
      k.name ++ 10 :: (bodyText fmt fl k.split k.closing k.records ++ R) := by simp [List.append_assoc]
  rw [e, h1]
  rcases hcase with ⟨hfin, hrs, hcl⟩ | ⟨hnf, hne, hrun, hbody⟩
  · simp [bodyText, bodyLines, hrs, hcl]
  · rw [lines_body fmt fl k.split k.closing k.records (by
      intro r hr t ht
      have := hbody.safe _ (List.mem_map.mpr ⟨r, hr, rfl⟩) t ht
      exact ⟨cleanSafe_of_tokSafe this.1, this.2⟩) R]
    simp

/-- **one step of the keyword loop on a written keyword**: from any keyword boundary (any
deck parsed so far, any aliases), in front of any following text `R`, the lines of the
written keyword are consumed and the keyword is appended to the deck with the records that
were written. -/
theorem parseLoop_written_kw (cv : Conv) (fmt : Bytes → Bytes) (fl : List Vals → Bool) (tbl : Table) (recog : Bytes → Bool)
    (files : List (Bytes × Bytes) → Bytes → Option Bytes) (fuel : Nat) (al : List (Bytes × Bytes))
    (deck : DeckT) (k : KwW) (R : Bytes) (hk : KwConf cv fmt fl tbl recog deck k) :
    parseLoop cv tbl recog files (fuel + 1) al deck (splitLines (fastClean (kwText fmt fl k ++ R))) =
      parseLoop cv tbl recog files fuel al (deck ++ [⟨k.name, normRecords fmt k.records⟩]) (splitLines (fastClean R)) := by
  obtain ⟨d, k0, hn, hraw, hk0r, hdbl, hcase, hrec⟩ := hk.ex
  have hlines : splitLines (fastClean (kwText fmt fl k ++ R)) =
      k.name :: splitLines (fastClean (bodyText fmt fl k.split k.closing k.records ++ R)) := by
    unfold kwText
    have := lines_word k.name hn.noNL hn.clean (bodyText fmt fl k.split k.closing k.records ++ R)
    simpa [List.append_assoc] using this
  have hfind : findKw tbl k.name = some (k.name, d) := by
    unfold findKw
    have : ¬ (k.name.length > 8) := by have := hn.short; omega
    simp only [this, ↓reduceIte, hn.found]
  rw [hlines]
  rcases hcase with ⟨hfin, hrs, hcl⟩ | ⟨hnf, hne, hrun, hbody⟩
  · -- a keyword without records (size 0): finished when created
    have hbody0 : bodyText fmt fl k.split k.closing k.records = [] := by simp [bodyText, hrs, hcl]
    have hpr : parseRecords cv d.schemas d.alt 0 k0.records = some [] := by rw [hk0r]; rfl
    rw [hbody0, List.nil_append]
    simp only [parseLoop, parseStep, keywordRes, dispatch, hn.nonempty, Bool.false_eq_true, ↓reduceIte, name_ne_eofMark hn, hn.deckName, hn.notSkip,
      hn.notEndskip, hn.valid, Bool.not_true, hfind, hraw, hfin, hn.notEnd, hn.notEndinc, hn.notPaths, hn.notInclude,
      hdbl, hpr, hbody0, List.nil_append, hrs, normRecords, List.map_nil]
  · obtain ⟨kf, h1, h2, h3⟩ := parse_write_keyword_lines cv fmt fl k.split k.closing recog k0 hk0r d.schemas d.alt
      k.records R hne hrun hbody hrec
    simp only [parseLoop, parseStep, keywordRes, dispatch, hn.nonempty, Bool.false_eq_true, ↓reduceIte, name_ne_eofMark hn, hn.deckName, hn.notSkip,
      hn.notEndskip, hn.valid, Bool.not_true, hfind, hraw, hnf, hn.notTitle, h1, h2, hn.notEnd, hn.notEndinc,
      hn.notPaths, hn.notInclude, hdbl, h3, normRecords]

/-! ### TITLE as an element of the deck -/

/-- tokens of a record all of whose values were given in the deck. -/
theorem emitToks_all_deck (fmt : Bytes → Bytes) (flush : Bool) : ∀ (vals : Vals) (any : Bool), (∀ p ∈ vals, p.2 = .deck) →
    emitToks fmt flush any 0 vals = vals.map fun p => valTok fmt p.1 := by
  intro vals
  induction vals with
  | nil => intro any _; simp [emitToks]
  | cons p r ih =>
    intro any h
    obtain ⟨v, st⟩ := p
    have hst : st = .deck := h (v, st) (by simp)
    subst hst
    simp [emitToks, ih true (fun q hq => h q (by simp [hq]))]

/-- conformance of a TITLE keyword: one record, all values given, written as
`TITLE\n  <lead><entries joined by blanks>\n`. -/
structure TitleConf (cv : Conv) (fmt : Bytes → Bytes) (fl : List Vals → Bool) (tbl : Table) (deck : DeckT)
    (lead : Bytes) (r : List Vals) : Prop where
  lead : ∀ c ∈ lead, isSep c = true ∧ c ≠ 10
  deckVals : ∀ p ∈ r.flatten, p.2 = .deck
  nonempty : r.flatten ≠ []
  safe : ∀ p ∈ r.flatten, LineSafe (valTok fmt p.1) ∧ NoNL (valTok fmt p.1)
  notSkip : isSkipName (makeDeckName (joinBlank (r.flatten.map fun p => valTok fmt p.1))) = false
  notEndskip : (makeDeckName (joinBlank (r.flatten.map fun p => valTok fmt p.1)) == nameENDSKIP) = false
  ex : ∃ d k0, lookup tbl nameTITLE = some d ∧ newRaw d deck = some k0 ∧ IsFixed k0 1 ∧ k0.records = [] ∧ d.dbl = false ∧
    ∃ items, schemaOf d.schemas d.alt 0 = some items ∧ Conf cv fmt items r ∧ r.flatten.length ≤ 2147483647 ∧
      (pend (fl r) false 0 r.flatten = 0 ∨ r.flatten.length ≤ singlePrefix items)

theorem mem_blanks {b : UInt8} (h : b ∈ ([32, 32] : Bytes)) : b = 32 := by
  simp at h; exact h

/-- `DeckKeyword::write_TITLE`. -/
def titleText (fmt : Bytes → Bytes) (lead : Bytes) (r : List Vals) : Bytes :=
  nameTITLE ++ [10] ++ ([32, 32] ++ lead ++ joinBlank (r.flatten.map fun p => valTok fmt p.1)) ++ [10]

/-- the cleaned lines of a written TITLE. -/
def titleLines (fmt : Bytes → Bytes) (r : List Vals) : List Bytes :=
  [nameTITLE, joinBlank (r.flatten.map fun p => valTok fmt p.1)]

theorem linesOf_titleText (cv : Conv) (fmt : Bytes → Bytes) (fl : List Vals → Bool) (tbl : Table)
    (deck : DeckT) (lead : Bytes) (r : List Vals) (R : Bytes) (h : TitleConf cv fmt fl tbl deck lead r) :
    splitLines (fastClean (titleText fmt lead r ++ R)) = titleLines fmt r ++ splitLines (fastClean R) := by
  obtain ⟨d, k0, hfound, hraw, hfix, hk0r, hdbl, items, hschema, hconf, hlen, htrail⟩ := h.ex
  have hns := h.notSkip
  have hnes := h.notEndskip
  generalize htoks : (r.flatten.map fun p => valTok fmt p.1) = toks at *
  have hne : toks ≠ [] := by rw [← htoks]; simpa using h.nonempty
  have hsafe : ∀ t ∈ toks, LineSafe t ∧ NoNL t := by
    intro t ht
    rw [← htoks] at ht
    obtain ⟨p, hp, rfl⟩ := List.mem_map.mp ht
    exact h.safe p hp
  have hcs : ∀ t ∈ toks, CleanSafe t := fun t ht => ⟨(hsafe t ht).1.1, (hsafe t ht).1.2.2.2⟩
  -- the two lines
  have hl1 : splitLines (fastClean (titleText fmt lead r ++ R)) =
      nameTITLE :: joinBlank toks :: splitLines (fastClean R) := by
    unfold titleText
    rw [htoks]
    have e : nameTITLE ++ [10] ++ ([32, 32] ++ lead ++ joinBlank toks) ++ [10] ++ R =
        nameTITLE ++ 10 :: (([32, 32] ++ lead ++ joinBlank toks) ++ 10 :: R) := by simp [List.append_assoc]
    rw [e, lines_word nameTITLE (by decide) (by decide)]
    have hnl : ∀ b ∈ [32, 32] ++ lead ++ joinBlank toks, b ≠ 10 := by
      intro b hb
      rcases List.mem_append.mp hb with hb | hb
      · rcases List.mem_append.mp hb with hb | hb
        · rw [mem_blanks hb]; decide
        · exact (h.lead b hb).2
      · exact joinBlank_noNL toks (fun t ht => (hsafe t ht).2) b hb
    rw [fastClean_line _ R hnl, splitLines_line _ _ (by
      -- the cleaned title line has no newline either
      have hc : cleanLine ([32, 32] ++ lead ++ joinBlank toks) = joinBlank toks := by
        have hx := cleanLine_text (joinBlank toks) (joinBlank_commentSafe toks hcs)
          (joinBlank_head_not_sep toks hne (fun t ht => (hcs t ht).1))
          (by
            intro x hx
            obtain ⟨t, ht, hl⟩ := joinBlank_getLast toks hne (fun t ht => atomic_ne_nil (hcs t ht).1)
            rw [hl] at hx
            exact atomic_last_not_sep (hcs t ht).1 x hx)
        have hy := cleanLine_sep ([32, 32] ++ lead) (joinBlank toks) [] (by
          intro x hx
          rcases List.mem_append.mp hx with hx | hx
          · rw [mem_blanks hx]; decide
          · exact (h.lead x hx).1) (by simp)
        have hz := cleanLine_sep [32] (joinBlank toks) [] (by decide) (by simp)
        simp only [List.append_nil] at hx hy hz
        rw [hy, ← hz]; exact hx
      rw [hc]; exact joinBlank_noNL toks (fun t ht => (hsafe t ht).2))]
    congr 2
    have hx := cleanLine_text (joinBlank toks) (joinBlank_commentSafe toks hcs)
      (joinBlank_head_not_sep toks hne (fun t ht => (hcs t ht).1))
      (by
        intro x hx
        obtain ⟨t, ht, hl⟩ := joinBlank_getLast toks hne (fun t ht => atomic_ne_nil (hcs t ht).1)
        rw [hl] at hx
        exact atomic_last_not_sep (hcs t ht).1 x hx)
    have hy := cleanLine_sep ([32, 32] ++ lead) (joinBlank toks) [] (by
      intro x hx
      rcases List.mem_append.mp hx with hx | hx
      · rw [mem_blanks hx]; decide
      · exact (h.lead x hx).1) (by simp)
    have hz := cleanLine_sep [32] (joinBlank toks) [] (by decide) (by simp)
    simp only [List.append_nil] at hx hy hz
    rw [hy, ← hz]; exact hx
  unfold titleLines
  rw [htoks]
  exact hl1

/-- one step of the keyword loop on the LINES of a written TITLE, in front of any lines. -/
theorem parseLoop_written_title_lines (cv : Conv) (fmt : Bytes → Bytes) (fl : List Vals → Bool) (tbl : Table) (recog : Bytes → Bool)
    (files : List (Bytes × Bytes) → Bytes → Option Bytes) (fuel : Nat) (al : List (Bytes × Bytes))
    (deck : DeckT) (lead : Bytes) (r : List Vals) (rest : List Bytes) (h : TitleConf cv fmt fl tbl deck lead r) :
    parseLoop cv tbl recog files (fuel + 1) al deck (titleLines fmt r ++ rest) =
      parseLoop cv tbl recog files fuel al (deck ++ [⟨nameTITLE, normRecords fmt [r]⟩]) rest := by
  obtain ⟨d, k0, hfound, hraw, hfix, hk0r, hdbl, items, hschema, hconf, hlen, htrail⟩ := h.ex
  have hns := h.notSkip
  have hnes := h.notEndskip
  generalize htoks : (r.flatten.map fun p => valTok fmt p.1) = toks at *
  have hne : toks ≠ [] := by rw [← htoks]; simpa using h.nonempty
  have hsafe : ∀ t ∈ toks, LineSafe t ∧ NoNL t := by
    intro t ht
    rw [← htoks] at ht
    obtain ⟨p, hp, rfl⟩ := List.mem_map.mp ht
    exact h.safe p hp
  have hcs : ∀ t ∈ toks, CleanSafe t := fun t ht => ⟨(hsafe t ht).1.1, (hsafe t ht).1.2.2.2⟩
  have hfind : findKw tbl nameTITLE = some (nameTITLE, d) := by
    unfold findKw
    have : ¬ (nameTITLE.length > 8) := by decide
    simp only [this, ↓reduceIte, hfound]
  have hjm : (joinBlank toks = eofMark) = False := by
    simp only [eq_iff_iff, iff_false]
    exact joinBlank_ne_eofMark toks (fun t ht => (hsafe t ht).2)
  have htn : titleNext false (joinBlank toks :: rest) = some (joinBlank toks, rest) := by
    simp only [titleNext, hjm, ↓reduceIte, hns, Bool.false_eq_true, hnes]
  have htr : titleRecord (joinBlank toks) = some toks := titleRecord_joinBlank toks hne (fun t ht => (hsafe t ht).1)
  have hemit : emitToks fmt (fl r) false 0 r.flatten = toks := by
    rw [emitToks_all_deck fmt (fl r) r.flatten false h.deckVals, htoks]
  have hadd : (k0.addRecord toks).finished = true ∧ (k0.addRecord toks).records = [toks] := by
    refine ⟨?_, by rw [addRecord_records, hk0r]; rfl⟩
    unfold Kw.addRecord
    by_cases htl : toks.length > 0
    · simp only [htl, ↓reduceIte]; simp [hfix.st, hfix.fs, hk0r]
    · simp only [htl, ↓reduceIte]; simp [hfix.st, hfix.fs, hk0r]
  have hparse : parseRecords cv d.schemas d.alt 0 [toks] = some [r.map (·.map (normP fmt))] := by
    have hp := parse_write_tokens cv fmt (fl r) items r hconf hlen htrail
    rw [hemit] at hp
    simp only [parseRecords, hschema, hp]
  unfold titleLines
  rw [htoks]
  simp only [List.cons_append, List.nil_append]
  simp only [parseLoop, parseStep, keywordRes, dispatch, show nameTITLE.isEmpty = false from by decide, Bool.false_eq_true, ↓reduceIte,
    show (nameTITLE = eofMark) = False from by decide, show makeDeckName nameTITLE = nameTITLE from by decide,
    show isSkipName nameTITLE = false from by decide, show (nameTITLE == nameENDSKIP) = false from by decide,
    show validDeckName nameTITLE = true from by decide, Bool.not_true, hfind, hraw, hfix.fin, beq_self_eq_true,
    htn, htr, hadd.1, hadd.2, show (nameTITLE == nameEND) = false from by decide,
    show (nameTITLE == nameENDINC) = false from by decide, show (nameTITLE == namePATHS) = false from by decide,
    show (nameTITLE == nameINCLUDE) = false from by decide, hdbl, hparse, normRecords, List.map_cons, List.map_nil]

/-- **one step of the keyword loop on a written TITLE**: the line after `TITLE` is taken as
its record whatever it holds, tokenised, and parsed with the schema of TITLE. -/
theorem parseLoop_written_title (cv : Conv) (fmt : Bytes → Bytes) (fl : List Vals → Bool) (tbl : Table) (recog : Bytes → Bool)
    (files : List (Bytes × Bytes) → Bytes → Option Bytes) (fuel : Nat) (al : List (Bytes × Bytes))
    (deck : DeckT) (lead : Bytes) (r : List Vals) (R : Bytes) (h : TitleConf cv fmt fl tbl deck lead r) :
    parseLoop cv tbl recog files (fuel + 1) al deck (splitLines (fastClean (titleText fmt lead r ++ R))) =
      parseLoop cv tbl recog files fuel al (deck ++ [⟨nameTITLE, normRecords fmt [r]⟩]) (splitLines (fastClean R)) := by
  rw [linesOf_titleText cv fmt fl tbl deck lead r R h]
  exact parseLoop_written_title_lines cv fmt fl tbl recog files fuel al deck lead r _ h

/-! ### the whole deck -/

/-- an element of a written deck. -/
inductive DK where
  | kw (k : KwW)
  | title (lead : Bytes) (r : List Vals)

def DK.text (fmt : Bytes → Bytes) (fl : List Vals → Bool) : DK → Bytes
  | .kw k => kwText fmt fl k
  | .title lead r => titleText fmt lead r

def DK.result (fmt : Bytes → Bytes) : DK → DeckKw
  | .kw k => ⟨k.name, normRecords fmt k.records⟩
  | .title _ r => ⟨nameTITLE, normRecords fmt [r]⟩

def DK.Conf (cv : Conv) (fmt : Bytes → Bytes) (fl : List Vals → Bool) (tbl : Table) (recog : Bytes → Bool) (deck : DeckT) : DK → Prop
  | .kw k => KwConf cv fmt fl tbl recog deck k
  | .title lead r => TitleConf cv fmt fl tbl deck lead r

def deckText (fmt : Bytes → Bytes) (fl : List Vals → Bool) (ks : List DK) : Bytes := ks.flatMap (DK.text fmt fl)

/-- `Conforms`: every keyword conforms, given the keywords before it as they come back from
the parser (sizes read from TABDIMS, EQLDIMS … are those of the deck being rebuilt). -/
def Conforms (cv : Conv) (fmt : Bytes → Bytes) (fl : List Vals → Bool) (tbl : Table) (recog : Bytes → Bool) :
    DeckT → List DK → Prop
  | _, [] => True
  | deck, k :: ks => k.Conf cv fmt fl tbl recog deck ∧ Conforms cv fmt fl tbl recog (deck ++ [k.result fmt]) ks

def DK.lines (fmt : Bytes → Bytes) (fl : List Vals → Bool) : DK → List Bytes
  | .kw k => kwLines fmt fl k
  | .title _ r => titleLines fmt r

theorem linesOf_dkText (cv : Conv) (fmt : Bytes → Bytes) (fl : List Vals → Bool) (tbl : Table) (recog : Bytes → Bool)
    (deck : DeckT) (k : DK) (hk : k.Conf cv fmt fl tbl recog deck) (R : Bytes) :
    splitLines (fastClean (k.text fmt fl ++ R)) = k.lines fmt fl ++ splitLines (fastClean R) := by
  cases k with
  | kw k => exact linesOf_kwText cv fmt fl tbl recog deck k hk R
  | title lead r => exact linesOf_titleText cv fmt fl tbl deck lead r R hk

theorem parseLoop_written_dk_lines (cv : Conv) (fmt : Bytes → Bytes) (fl : List Vals → Bool) (tbl : Table) (recog : Bytes → Bool)
    (files : List (Bytes × Bytes) → Bytes → Option Bytes) (fuel : Nat) (al : List (Bytes × Bytes))
    (deck : DeckT) (k : DK) (rest : List Bytes) (hk : k.Conf cv fmt fl tbl recog deck) :
    parseLoop cv tbl recog files (fuel + 1) al deck (k.lines fmt fl ++ rest) =
      parseLoop cv tbl recog files fuel al (deck ++ [k.result fmt]) rest := by
  cases k with
  | kw k => exact parseLoop_written_kw_lines cv fmt fl tbl recog files fuel al deck k rest hk
  | title lead r => exact parseLoop_written_title_lines cv fmt fl tbl recog files fuel al deck lead r rest hk

/-- the cleaned lines of a written deck. -/
def deckLines (fmt : Bytes → Bytes) (fl : List Vals → Bool) (ks : List DK) : List Bytes := ks.flatMap (DK.lines fmt fl)

theorem linesOf_deckText (cv : Conv) (fmt : Bytes → Bytes) (fl : List Vals → Bool) (tbl : Table) (recog : Bytes → Bool) (R : Bytes) :
    ∀ (ks : List DK) (deck : DeckT), Conforms cv fmt fl tbl recog deck ks →
    splitLines (fastClean (deckText fmt fl ks ++ R)) = deckLines fmt fl ks ++ splitLines (fastClean R) := by
  intro ks
  induction ks with
  | nil => intro deck _; simp [deckText, deckLines]
  | cons k ks ih =>
    intro deck h
    obtain ⟨hk, hks⟩ := h
    have e : deckText fmt fl (k :: ks) ++ R = k.text fmt fl ++ (deckText fmt fl ks ++ R) := by
      simp [deckText, List.append_assoc]
    rw [e, linesOf_dkText cv fmt fl tbl recog deck k hk, ih _ hks]
    simp [deckLines, List.append_assoc]

/-- the keyword loop on the LINES of a written deck, in front of any lines. -/
theorem parseLoop_written_deck_lines (cv : Conv) (fmt : Bytes → Bytes) (fl : List Vals → Bool) (tbl : Table) (recog : Bytes → Bool)
    (files : List (Bytes × Bytes) → Bytes → Option Bytes) (al : List (Bytes × Bytes)) (rest : List Bytes) :
    ∀ (ks : List DK) (fuel : Nat) (deck : DeckT), Conforms cv fmt fl tbl recog deck ks →
    parseLoop cv tbl recog files (fuel + ks.length) al deck (deckLines fmt fl ks ++ rest) =
      parseLoop cv tbl recog files fuel al (deck ++ ks.map (DK.result fmt)) rest := by
  intro ks
  induction ks with
  | nil => intro fuel deck _; simp [deckLines]
  | cons k ks ih =>
    intro fuel deck h
    obtain ⟨hk, hks⟩ := h
    have e : deckLines fmt fl (k :: ks) ++ rest = k.lines fmt fl ++ (deckLines fmt fl ks ++ rest) := by
      simp [deckLines, List.append_assoc]
    have ef : fuel + (k :: ks).length = (fuel + ks.length) + 1 := by simp; omega
    rw [e, ef, parseLoop_written_dk_lines cv fmt fl tbl recog files (fuel + ks.length) al deck k _ hk, ih fuel _ hks]
    simp [List.append_assoc]

theorem parseLoop_written_dk (cv : Conv) (fmt : Bytes → Bytes) (fl : List Vals → Bool) (tbl : Table) (recog : Bytes → Bool)
    (files : List (Bytes × Bytes) → Bytes → Option Bytes) (fuel : Nat) (al : List (Bytes × Bytes))
    (deck : DeckT) (k : DK) (R : Bytes) (hk : k.Conf cv fmt fl tbl recog deck) :
    parseLoop cv tbl recog files (fuel + 1) al deck (splitLines (fastClean (k.text fmt fl ++ R))) =
      parseLoop cv tbl recog files fuel al (deck ++ [k.result fmt]) (splitLines (fastClean R)) := by
  cases k with
  | kw k => exact parseLoop_written_kw cv fmt fl tbl recog files fuel al deck k R hk
  | title lead r => exact parseLoop_written_title cv fmt fl tbl recog files fuel al deck lead r R hk

/-- the keyword loop on a written deck, from any boundary, in front of any text `R`. -/
theorem parseLoop_written_deck (cv : Conv) (fmt : Bytes → Bytes) (fl : List Vals → Bool) (tbl : Table) (recog : Bytes → Bool)
    (files : List (Bytes × Bytes) → Bytes → Option Bytes) (al : List (Bytes × Bytes)) (R : Bytes) :
    ∀ (ks : List DK) (fuel : Nat) (deck : DeckT), Conforms cv fmt fl tbl recog deck ks →
    parseLoop cv tbl recog files (fuel + ks.length) al deck (splitLines (fastClean (deckText fmt fl ks ++ R))) =
      parseLoop cv tbl recog files fuel al (deck ++ ks.map (DK.result fmt)) (splitLines (fastClean R)) := by
  intro ks
  induction ks with
  | nil => intro fuel deck _; simp [deckText]
  | cons k ks ih =>
    intro fuel deck h
    obtain ⟨hk, hks⟩ := h
    have e : deckText fmt fl (k :: ks) ++ R = k.text fmt fl ++ (deckText fmt fl ks ++ R) := by
      simp [deckText, List.append_assoc]
    have ef : fuel + (k :: ks).length = (fuel + ks.length) + 1 := by simp; omega
    rw [e, ef, parseLoop_written_dk cv fmt fl tbl recog files (fuel + ks.length) al deck k _ hk, ih fuel _ hks]
    simp [List.append_assoc]

/-- **`parse_write_deck`**: parsing the written text of a conforming deck gives the deck back
— keyword names in order, records, values and default flags (floating point tokens in
printed form). -/
theorem parse_write_deck (cv : Conv) (fmt : Bytes → Bytes) (fl : List Vals → Bool) (tbl : Table) (recog : Bytes → Bool)
    (files : List (Bytes × Bytes) → Bytes → Option Bytes) (ks : List DK)
    (h : Conforms cv fmt fl tbl recog [] ks) :
    parseDeckText cv tbl recog files (ks.length + 2) (deckText fmt fl ks) = some (ks.map (DK.result fmt)) := by
  unfold parseDeckText
  have := parseLoop_written_deck cv fmt fl tbl recog files [] [10] ks 2 [] h
  have ef : 2 + ks.length = ks.length + 2 := by omega
  rw [ef] at this
  rw [this]
  have hl : splitLines (fastClean [10]) = [[]] := by decide
  rw [hl]
  simp [parseLoop, parseStep]

/-! ### `deckText` is what the literal `DeckOutput` mirror writes -/

def ofKwOut (k : KwOut) : KwW :=
  ⟨k.name, k.dataKw || splitNames.contains k.name, k.slashTerm, k.records⟩

theorem writeRecordM_dc (fmt : Bytes → Bytes) (shape : Nat) (hs : 1 ≤ shape) (split : Bool) (r : List Vals) :
    (writeRecordM fmt shape split r).2.dc = 0 := by
  unfold writeRecordM
  have h0 : ¬ (shape = 0) := by omega
  simp only [h0, ↓reduceIte]
  split
  · split <;> rfl
  · rfl

theorem writeRecordsM_text (fmt : Bytes → Bytes) (shape : Nat) (hs : 1 ≤ shape) (split : Bool) :
    ∀ (rs : List (List Vals)) (st : OutState), (∀ r ∈ rs, shape ≤ 1 ∨ MultiOnlyLast r) →
    (writeRecordsM fmt shape split st rs).1 = rs.flatMap (fun r => writeRecord fmt (flushOf shape r) split r) ∧
    ((writeRecordsM fmt shape split st rs).2.dc = if rs.isEmpty then st.dc else 0) := by
  intro rs
  induction rs with
  | nil => intro st _; simp [writeRecordsM]
  | cons r rs ih =>
    intro st h
    obtain ⟨h1, h2⟩ := ih (writeRecordM fmt shape split r).2 (fun x hx => h x (by simp [hx]))
    have hdc := writeRecordM_dc fmt shape hs split r
    refine ⟨?_, ?_⟩
    · simp only [writeRecordsM, h1, writeRecordM_eq fmt shape split r (h r (by simp)), List.flatMap_cons]
    · simp only [writeRecordsM, h2, hdc, List.isEmpty_cons, Bool.false_eq_true, ↓reduceIte]
      split <;> rfl

/-- a record of explicit values only: nothing is ever pending, the per-item flush does nothing. -/
theorem writeItemsM_title (fmt : Bytes → Bytes) (fl : Bool) : ∀ (r : List Vals) (rc : Nat), (∀ p ∈ r.flatten, p.2 = .deck) →
    writeItemsM fmt false false fl 0 rc r = writeValsM fmt false false 0 rc r.flatten := by
  intro r
  induction r with
  | nil => intro rc _; simp [writeItemsM, writeValsM]
  | cons it rest ih =>
    intro rc h
    have hit : ∀ p ∈ it, p.2 = .deck := fun p hp => h p (by simp [hp])
    have hrest : ∀ p ∈ rest.flatten, p.2 = .deck := fun p hp => h p (by simp only [List.flatten_cons, List.mem_append]; exact Or.inr hp)
    have hdc := (writeValsM_title fmt it rc hit).2
    rw [writeItemsM]
    by_cases hc : fl = true ∧ it.length > 1
    · obtain ⟨hf, hl⟩ := hc
      subst hf
      simp only [hl, and_self, ↓reduceIte, flushDefaultsM, hdc, Nat.lt_irrefl, false_and, List.append_nil,
        ih _ hrest, List.flatten_cons, writeValsM_append]
    · simp only [hc, ↓reduceIte, List.append_nil, hdc, ih _ hrest, List.flatten_cons, writeValsM_append]

/-- the elements `writeDeckM` writes: the blank in front of the first TITLE entry depends on
the `row_count` left by the keyword before. -/
def toDKs (fmt : Bytes → Bytes) (shape : Nat) : OutState → List KwOut → List DK
  | _, [] => []
  | st, k :: ks =>
    (if k.name = titleName then
        DK.title (if 0 < st.rc ∧ (k.records.headD []).flatten ≠ [] then [32] else []) (k.records.headD [])
      else DK.kw (ofKwOut k)) :: toDKs fmt shape (writeKeywordM fmt shape st k).2 ks

/-- **the deck-level writer mirror (`operator<<(std::ostream&, const Deck&)`, compared byte for
byte with the real one in the correspondence) writes `deckText`** with the per-record flush
`flushOf shape` of the code's shape (452487d0e: every record; 14c7867b0: the records whose last
item holds several values), provided every TITLE holds explicit values only (since 452487d0e
nothing else leaks into it: `default_count` is reset by `end_record`) and — for the per-item
flush — only the last item of a record holds several values. -/
theorem writeDeckM_eq_deckText (fmt : Bytes → Bytes) (shape : Nat) (hs : 1 ≤ shape) : ∀ (ks : List KwOut) (st : OutState),
    st.dc = 0 →
    (∀ k ∈ ks, k.name = titleName → ∀ p ∈ (k.records.headD []).flatten, p.2 = .deck) →
    (∀ k ∈ ks, k.name ≠ titleName → ∀ r ∈ k.records, shape ≤ 1 ∨ MultiOnlyLast r) →
    writeDeckM fmt shape st ks = deckText fmt (flushOf shape) (toDKs fmt shape st ks) := by
  intro ks
  induction ks with
  | nil => intro st _ _ _; simp [writeDeckM, toDKs, deckText]
  | cons k ks ih =>
    intro st hdc htitle hmulti
    by_cases hk : k.name = titleName
    · have hall := htitle k (by simp) hk
      obtain ⟨w1, w2⟩ := writeValsM_title fmt (k.records.headD []).flatten st.rc hall
      have hkw : writeKeywordM fmt shape st k =
          (k.name ++ [10] ++ [32, 32] ++ (writeValsM fmt false false st.dc st.rc (k.records.headD []).flatten).1 ++ [10],
            ⟨(writeValsM fmt false false st.dc st.rc (k.records.headD []).flatten).2.1,
             (writeValsM fmt false false st.dc st.rc (k.records.headD []).flatten).2.2⟩) := by
        unfold writeKeywordM
        simp only [hk, ↓reduceIte, hdc, writeItemsM_title fmt _ (k.records.headD []) st.rc hall]
      have hst' : (writeKeywordM fmt shape st k).2.dc = 0 := by rw [hkw, hdc]; exact w2
      have hrec := ih (writeKeywordM fmt shape st k).2 hst' (fun x hx => htitle x (by simp [hx]))
        (fun x hx => hmulti x (by simp [hx]))
      simp only [writeDeckM, toDKs, hk, ↓reduceIte, deckText, List.flatMap_cons, DK.text]
      rw [hrec]
      simp only [deckText]
      congr 1
      rw [hkw, hdc]
      simp only [w1, titleText]
      have : titleName = nameTITLE := by decide
      rw [hk, this]
      simp [List.append_assoc]
    · have hwr := writeRecordsM_text fmt shape hs (k.dataKw || splitNames.contains k.name) k.records st
        (hmulti k (by simp) hk)
      have hst' : (writeKeywordM fmt shape st k).2.dc = 0 := by
        simp only [writeKeywordM, hk, ↓reduceIte, hwr.2]
        split
        · exact hdc
        · rfl
      have hrec := ih (writeKeywordM fmt shape st k).2 hst' (fun x hx => htitle x (by simp [hx]))
        (fun x hx => hmulti x (by simp [hx]))
      simp only [writeDeckM, toDKs, hk, ↓reduceIte, deckText, List.flatMap_cons, DK.text]
      rw [hrec]
      simp only [deckText]
      congr 1
      simp only [writeKeywordM, hk, ↓reduceIte, hwr.1, kwText, bodyText, ofKwOut, List.append_assoc]
      congr 3

end OpmVerif.Deck
