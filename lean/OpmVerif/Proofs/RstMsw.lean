/-
  Theorems about the generated multi-segment-well tables (Gen/RstMsw.lean ← AggregateMSWData.cpp, rst/segment.cpp).
  Kept in a file of its own (slow table proofs are not rebuilt by unrelated changes).
-/
import OpmVerif.Model.RstMswIO

namespace OpmVerif.RstMsw
open OpmVerif.RstSlot OpmVerif.Gen.RstMsw

def senumOf (q : String) : List (String × Int) := (senums.lookup q).getD []

/-- Item names of ISEG / RSEG are injective. -/
theorem msw_index_enums_injective :
    ((senumOf "ISeg.index").map (·.2)).Nodup ∧ ((senumOf "RSeg.index").map (·.2)).Nodup := by decide +kernel

/-- Named writer entries (`<segment base> + Ix::Item`) use the item number of their name; reader items are non-negative. -/
theorem msw_named_slots :
    (∀ e ∈ swriter, e.cls = "named" → e.slot.front ≠ '#' →
      (senumOf (if e.arr = "ISEG" then "ISeg.index" else "RSeg.index")).lookup e.slot = some e.idx) ∧
    (∀ e ∈ sreader, 0 ≤ e.idx → (senumOf (if e.arr = "ISEG" then "ISeg.index" else "RSeg.index")).lookup e.slot = some e.idx) := by
  decide +kernel

/-- Members of RstSegment whose reader shape is not the inverse of the writer shape, with the reason. -/
def sdeclaredExceptions : List (String × String) :=
  [("segment.volume", "written as (length unit)³, read with measure geometric_volume since fix 7808e0fb5: the same factor in every unit system (C02), but not the same *shape* in this table model"),
   ("segment.total_flow", "oil + 0.1·water + gfactor·gas of output-unit rates: not a quantity of one measure; read with measure rate")]

/-- ISEG / RSEG: every (writer entry, reader entry) pair on one item is in a compatible class except the declared
members, and each declared member really is a mismatch. -/
theorem msw_pairs_classified :
    (∀ p ∈ spairs swriter sreader, spairCls p ≠ .mismatch ∨ (sdeclaredExceptions.lookup p.2.field).isSome) ∧
    (∀ x ∈ sdeclaredExceptions, ∃ p ∈ spairs swriter sreader, p.2.field = x.1 ∧ spairCls p = .mismatch) := by
  decide +kernel

/-- Outside the declared members: the classes present (areas as k-fold length-unit factors are `exactScale`). -/
theorem msw_pair_class_histogram :
    ((spairs swriter sreader).filter fun p => spairCls p = .exact).length = 35 ∧
    ((spairs swriter sreader).filter fun p => spairCls p = .exactScale).length = 3 ∧
    ((spairs swriter sreader).filter fun p => spairCls p = .signedSmry).length = 2 ∧
    ((spairs swriter sreader).filter fun p => spairCls p = .mismatch).length = 4 := by decide +kernel

/-- Recognised reader members without a recognised writer entry (the writer computes them from other items). -/
theorem msw_unpaired_reader_fields :
    (sreader.filter fun r => !r.post.isOpaque && decide (0 ≤ r.idx) && (spairs swriter [r]).isEmpty).map (·.field)
      = ["segment.water_flow_fraction", "segment.gas_flow_fraction", "segment.valve_area_fraction"] := by decide +kernel

end OpmVerif.RstMsw
