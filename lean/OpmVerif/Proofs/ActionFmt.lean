/-
  Fifth round: `format_double` (the constant of a restarted ACTIONX condition) — the printed text is a
  number token, its value, and the exact round trip of integer-valued constants.
-/
import OpmVerif.Model.ActionFmt
import OpmVerif.Proofs.ActionGrammarFwd
import OpmVerif.Proofs.ActionNumVal

namespace OpmVerif.Act
open OpmVerif

/-! ### A. digits -/

theorem digitChar_facts : ∀ d, d < 10 →
    (Char.ofNat (48 + d)).toNat - 48 = d ∧ isDig (Char.ofNat (48 + d)) = true := by decide

theorem decDigitsAux_digits : ∀ (fuel n : Nat) (acc : List Char), Digits acc →
    Digits (decDigitsAux fuel n acc)
  | 0, _, acc, h => h
  | fuel + 1, n, acc, h => by
    unfold decDigitsAux
    split
    · rename_i hn
      intro c hc
      rcases List.mem_cons.mp hc with e | e
      · subst e; exact (digitChar_facts n hn).2
      · exact h c e
    · apply decDigitsAux_digits fuel
      intro c hc
      rcases List.mem_cons.mp hc with e | e
      · subst e; exact (digitChar_facts (n % 10) (Nat.mod_lt _ (by decide))).2
      · exact h c e

theorem decDigits_digits (n : Nat) : Digits (decDigits n) :=
  decDigitsAux_digits _ _ [] (fun _ h => absurd h List.not_mem_nil)

theorem decDigitsAux_length_ge : ∀ (fuel n : Nat) (acc : List Char),
    acc.length ≤ (decDigitsAux fuel n acc).length
  | 0, _, acc => Nat.le_refl _
  | fuel + 1, n, acc => by
    unfold decDigitsAux
    split
    · simp
    · have := decDigitsAux_length_ge fuel (n / 10) (Char.ofNat (48 + n % 10) :: acc)
      simp only [List.length_cons] at this
      omega

theorem decDigitsAux_succ_length (fuel n : Nat) (acc : List Char) :
    acc.length < (decDigitsAux (fuel + 1) n acc).length := by
  unfold decDigitsAux
  split
  · simp
  · have := decDigitsAux_length_ge fuel (n / 10) (Char.ofNat (48 + n % 10) :: acc)
    simp only [List.length_cons] at this
    omega

theorem decDigits_length_pos (n : Nat) : 0 < (decDigits n).length := by
  have := decDigitsAux_succ_length n n []
  unfold decDigits; simp only [List.length_nil] at this; exact this

theorem decDigits_ne_nil (n : Nat) : decDigits n ≠ [] := by
  intro h
  have := decDigits_length_pos n
  rw [h] at this
  exact absurd this (by decide)

/-- the number of digits: `n < 10^j` is printed with at most `j` characters -/
theorem decDigitsAux_length_le : ∀ (fuel n j : Nat) (acc : List Char), 1 ≤ j → n < 10 ^ j →
    (decDigitsAux fuel n acc).length ≤ acc.length + j
  | 0, _, _, acc, _, _ => by simp [decDigitsAux]
  | fuel + 1, n, j, acc, hj, hn => by
    unfold decDigitsAux
    split
    · simp only [List.length_cons]; omega
    · rename_i h10
      have hj2 : 2 ≤ j := by
        cases j with
        | zero => omega
        | succ j =>
          cases j with
          | zero => simp at hn; omega
          | succ j => omega
      have hlt : n / 10 < 10 ^ (j - 1) := by
        have e : 10 ^ j = 10 ^ (j - 1) * 10 := by
          rw [← Nat.pow_succ]; congr 1; omega
        rw [e] at hn
        exact Nat.div_lt_of_lt_mul (by rw [Nat.mul_comm]; exact hn)
      have := decDigitsAux_length_le fuel (n / 10) (j - 1) (Char.ofNat (48 + n % 10) :: acc)
        (by omega) hlt
      simp only [List.length_cons] at this
      omega

theorem decDigits_length_le (n j : Nat) (hj : 1 ≤ j) (hn : n < 10 ^ j) : (decDigits n).length ≤ j := by
  have := decDigitsAux_length_le (n + 1) n j [] hj hn
  simpa [decDigits] using this

theorem foldl_dval (ds : List Char) : ∀ init : Nat,
    ds.foldl (fun a c => a * 10 + (c.toNat - 48)) init = init * 10 ^ ds.length + Strtod.dval ds := by
  induction ds with
  | nil => intro init; simp [Strtod.dval]
  | cons c r ih =>
    intro init
    unfold Strtod.dval
    simp only [List.foldl_cons, List.length_cons]
    rw [ih, ih (0 * 10 + (c.toNat - 48))]
    rw [Nat.add_mul, Nat.pow_succ]
    simp only [Nat.zero_mul, Nat.zero_add, Nat.add_assoc]
    congr 1
    ac_rfl

theorem dval_append (a b : List Char) :
    Strtod.dval (a ++ b) = Strtod.dval a * 10 ^ b.length + Strtod.dval b := by
  show (a ++ b).foldl _ 0 = _
  rw [List.foldl_append, foldl_dval]
  rfl

theorem dval_cons (c : Char) (r : List Char) :
    Strtod.dval (c :: r) = (c.toNat - 48) * 10 ^ r.length + Strtod.dval r := by
  have := dval_append [c] r
  simpa [Strtod.dval] using this

theorem dval_decDigitsAux : ∀ (fuel n : Nat) (acc : List Char), n < fuel →
    Strtod.dval (decDigitsAux fuel n acc) = n * 10 ^ acc.length + Strtod.dval acc
  | 0, _, _, h => absurd h (Nat.not_lt_zero _)
  | fuel + 1, n, acc, h => by
    unfold decDigitsAux
    split
    · rename_i hn
      rw [dval_cons, (digitChar_facts n hn).1]
    · rename_i hn
      rw [dval_decDigitsAux fuel (n / 10) _ (by omega), dval_cons,
        (digitChar_facts (n % 10) (Nat.mod_lt _ (by decide))).1]
      simp only [List.length_cons, Nat.pow_succ]
      generalize 10 ^ acc.length = P
      have hn' : n = 10 * (n / 10) + n % 10 := (Nat.div_add_mod n 10).symm
      generalize n / 10 = q at hn' ⊢
      generalize n % 10 = r at hn' ⊢
      subst hn'
      rw [Nat.add_mul, ← Nat.add_assoc]
      congr 2
      ac_rfl

theorem dval_decDigits (n : Nat) : Strtod.dval (decDigits n) = n := by
  unfold decDigits
  rw [dval_decDigitsAux (n + 1) n [] (Nat.lt_succ_self n)]
  simp [Strtod.dval]

theorem padDigits_digits (w k : Nat) : Digits (padDigits w k) := by
  unfold padDigits
  intro c hc
  rcases List.mem_append.mp hc with h | h
  · rw [List.mem_replicate] at h; rw [h.2]; decide
  · exact decDigits_digits k c h

theorem padDigits_ne_nil (w k : Nat) : padDigits w k ≠ [] := by
  unfold padDigits
  intro h
  have := (List.append_eq_nil_iff.mp h).2
  exact decDigits_ne_nil k this

theorem padDigits_length_pos (w k : Nat) : 1 ≤ (padDigits w k).length :=
  List.length_pos_iff.mpr (padDigits_ne_nil w k)

/-! ### B. the printed constant is a number token -/

def sgn (neg : Bool) : List Char := if neg then ['-'] else []

theorem sgn_signG (neg : Bool) : SignG (sgn neg) := by
  cases neg
  · exact SignG.none
  · exact SignG.minus

theorem lowerL_sgn (neg : Bool) : lowerL (sgn neg) = sgn neg := by
  cases neg <;> decide

theorem lowerL_append (a b : List Char) : lowerL (a ++ b) = lowerL a ++ lowerL b := by
  unfold lowerL; exact List.map_append

theorem fmtInt_eq (neg : Bool) (n : Nat) : fmtInt neg n = sgn neg ++ decDigits n := rfl

theorem fmtInt_grammar (neg : Bool) (n : Nat) : NumberGrammar (fmtInt neg n) := by
  unfold NumberGrammar
  rw [fmtInt_eq, lowerL_append, lowerL_sgn, lowerL_digits _ (decDigits_digits n)]
  have := LowerNumG.mk [] (sgn neg) _ (fun _ h => absurd h List.not_mem_nil) (sgn_signG neg)
    (BodyG.dec (decDigits n) [] (MantG.int _ (decDigits_ne_nil n) (decDigits_digits n)) ExpG.none)
  rw [List.append_nil, List.nil_append] at this
  exact this

theorem classify_fmtInt (neg : Bool) (n : Nat) : classify (fmtInt neg n) = .number :=
  classifyLower_of_grammar _ (fmtInt_grammar neg n)

theorem fmtFixed_eq (neg : Bool) (num den : Nat) :
    fmtFixed neg num den =
      sgn neg ++ (decDigits (Strtod.roundHalfEven (num * 10 ^ 6) den / 10 ^ 6) ++
        '.' :: padDigits 6 (Strtod.roundHalfEven (num * 10 ^ 6) den % 10 ^ 6)) := by
  unfold fmtFixed sgn
  simp only [List.append_assoc]

theorem lowerL_dot_digits (ds : List Char) (h : Digits ds) : lowerL ('.' :: ds) = '.' :: ds := by
  have := lowerL_digits ds h
  unfold lowerL at this ⊢
  rw [List.map_cons, this]
  rfl

theorem fmtFixed_grammar (neg : Bool) (num den : Nat) : NumberGrammar (fmtFixed neg num den) := by
  unfold NumberGrammar
  rw [fmtFixed_eq]
  generalize Strtod.roundHalfEven (num * 10 ^ 6) den / 10 ^ 6 = a
  generalize Strtod.roundHalfEven (num * 10 ^ 6) den % 10 ^ 6 = c
  rw [lowerL_append, lowerL_append, lowerL_sgn, lowerL_digits _ (decDigits_digits _),
    lowerL_dot_digits _ (padDigits_digits _ _)]
  have := LowerNumG.mk [] (sgn neg) _ (fun _ h => absurd h List.not_mem_nil) (sgn_signG neg)
    (BodyG.dec _ [] (MantG.frac (decDigits a) (padDigits 6 c)
      (by intro h; exact decDigits_ne_nil _ (List.append_eq_nil_iff.mp h).1)
      (decDigits_digits _) (padDigits_digits _ _)) ExpG.none)
  rw [List.append_nil, List.nil_append] at this
  exact this

theorem classify_fmtFixed (neg : Bool) (num den : Nat) : classify (fmtFixed neg num den) = .number :=
  classifyLower_of_grammar _ (fmtFixed_grammar neg num den)

/-- the part of `fmtDouble` after the decoding of the bits -/
def fmtND (neg : Bool) (num den : Nat) : Option (List Char) :=
  if num % den = 0 then
    if num / den < 2 ^ 31 ∨ (neg = true ∧ num / den = 2 ^ 31) then
      some (fmtInt (neg && decide (num / den ≠ 0)) (num / den)) else none
  else some (fmtFixed neg num den)

theorem fmtDouble_shape (b : Nat) :
    fmtDouble b = none ∨ ∃ neg num den, fmtDouble b = fmtND neg num den := by
  unfold fmtDouble
  dsimp only
  by_cases h : b % 2 ^ 63 / 2 ^ 52 = 2047
  · left; exact if_pos h
  · right; rw [if_neg h]; exact ⟨_, _, _, rfl⟩

theorem fmtND_cases (neg : Bool) (num den : Nat) (s : List Char) (h : fmtND neg num den = some s) :
    (∃ neg n, s = fmtInt neg n) ∨ (∃ neg num den, s = fmtFixed neg num den) := by
  unfold fmtND at h
  by_cases h1 : num % den = 0
  · rw [if_pos h1] at h
    by_cases h2 : num / den < 2 ^ 31 ∨ (neg = true ∧ num / den = 2 ^ 31)
    · rw [if_pos h2] at h
      exact Or.inl ⟨_, _, (Option.some.inj h).symm⟩
    · rw [if_neg h2] at h
      cases h
  · rw [if_neg h1] at h
    exact Or.inr ⟨_, _, _, (Option.some.inj h).symm⟩

/-- what `fmtDouble` prints is `fmtInt` or `fmtFixed` of something -/
theorem fmtDouble_cases (b : Nat) (s : List Char) (h : fmtDouble b = some s) :
    (∃ neg n, s = fmtInt neg n) ∨ (∃ neg num den, s = fmtFixed neg num den) := by
  rcases fmtDouble_shape b with e | ⟨neg, num, den, e⟩
  · rw [e] at h; cases h
  · rw [e] at h; exact fmtND_cases neg num den s h

/-- **the printed constant of a restart file is always a number token** -/
theorem classify_fmtDouble (b : Nat) (s : List Char) (h : fmtDouble b = some s) :
    classify s = .number := by
  rcases fmtDouble_cases b s h with ⟨neg, n, e⟩ | ⟨neg, num, den, e⟩
  · rw [e]; exact classify_fmtInt neg n
  · rw [e]; exact classify_fmtFixed neg num den

theorem grammar_fmtDouble (b : Nat) (s : List Char) (h : fmtDouble b = some s) : NumberGrammar s := by
  rcases fmtDouble_cases b s h with ⟨neg, n, e⟩ | ⟨neg, num, den, e⟩
  · rw [e]; exact fmtInt_grammar neg n
  · rw [e]; exact fmtFixed_grammar neg num den

/-! ### C. the value of the printed integer -/

theorem numBits_fmtInt (neg : Bool) (n : Nat) :
    numBits (fmtInt neg n) =
      resBits (Strtod.ofDec neg n 0 (((decDigits n).dropWhile (· = '0')).length)) := by
  have e : fmtInt neg n = decLit (sgn neg) (decDigits n) none none := by
    simp [decLit, fmtInt_eq]
  have hd : decide (sgn neg = ['-']) = neg := by cases neg <;> decide
  rw [e, numBits_decLit (sgn neg) (decDigits n) none none (sgn_signG neg) (decDigits_digits n)
    (fun _ h => absurd h List.not_mem_nil) (by simpa [fracDigits] using decDigits_ne_nil n) trivial]
  simp only [fracDigits, expVal, List.append_nil, List.length_nil, hd, dval_decDigits]
  rfl

/-! ### D. exactness: the restart round trip of an integer-valued constant -/

theorem log2_of_bounds (k n : Nat) (h1 : 2 ^ k ≤ n) (h2 : n < 2 ^ (k + 1)) : n.log2 = k := by
  have hn : n ≠ 0 := by have := Nat.two_pow_pos k; omega
  have a := Nat.log2_self_le hn
  have b := @Nat.lt_log2_self n
  have c : n.log2 < k + 1 := (Nat.pow_lt_pow_iff_right (by decide : 1 < 2)).mp (Nat.lt_of_le_of_lt a h2)
  have d : k < n.log2 + 1 := (Nat.pow_lt_pow_iff_right (by decide : 1 < 2)).mp (Nat.lt_of_le_of_lt h1 b)
  omega

theorem log2_one : Nat.log2 1 = 0 := log2_of_bounds 0 1 (by decide) (by decide)

theorem pickExp_small_int (k n : Nat) (hk : k ≤ 52) (h1 : 2 ^ k ≤ n) (h2 : n < 2 ^ (k + 1)) :
    Strtod.pickExp n 1 = k + 1022 := by
  have hq : Strtod.quot n 1 (k + 1021) = n * 2 ^ (53 - k) := by
    rw [Strtod.quot_uniform n 1 (k + 1021) (by decide), Nat.one_mul]
    have e : 2 ^ 1074 = 2 ^ (53 - k) * 2 ^ (k + 1021) := by
      rw [← Nat.pow_add, show 53 - k + (k + 1021) = 1074 by omega]
    rw [e, ← Nat.mul_assoc, Nat.mul_div_cancel _ (Nat.two_pow_pos _)]
  have hge : ¬ n * 2 ^ (53 - k) < 2 ^ 53 := by
    have e : 2 ^ 53 = 2 ^ k * 2 ^ (53 - k) := by
      rw [← Nat.pow_add]; congr 1; omega
    rw [e]
    exact Nat.not_lt.mpr (Nat.mul_le_mul_right _ h1)
  have he : ((k : Int) - ((0 : Nat) : Int) - 52 + 1074 - 1).toNat = k + 1021 := by omega
  unfold Strtod.pickExp
  simp only [log2_of_bounds k n h1 h2, log2_one, he, hq, hge, if_false]

theorem scaled_small_int (k n : Nat) (hk : k ≤ 52) :
    Strtod.scaled n 1 (k + 1022) = (n * 2 ^ (52 - k), 1) := by
  unfold Strtod.scaled
  by_cases h : 1074 ≤ k + 1022
  · have hk52 : k = 52 := by omega
    subst hk52
    simp only [h, if_true, Strtod.shl_eq]
    simp
  · simp only [h, if_false, Strtod.shl_eq]
    rw [show 1074 - (k + 1022) = 52 - k by omega]

theorem roundHalfEven_one (x : Nat) : Strtod.roundHalfEven x 1 = x := by
  unfold Strtod.roundHalfEven
  simp only [Nat.mod_one, Nat.div_one]
  rw [if_neg (by omega)]

theorem roundCore_small_int (k n : Nat) (hk : k ≤ 52) (h1 : 2 ^ k ≤ n) (h2 : n < 2 ^ (k + 1)) :
    Strtod.roundCore n 1 = (n * 2 ^ (52 - k), k + 1022) := by
  have hx : n * 2 ^ (52 - k) < 2 ^ 53 := by
    have e : 2 ^ 53 = 2 ^ (k + 1) * 2 ^ (52 - k) := by
      rw [← Nat.pow_add]; congr 1; omega
    rw [e]
    exact Nat.mul_lt_mul_of_pos_right h2 (Nat.two_pow_pos _)
  unfold Strtod.roundCore
  simp only [pickExp_small_int k n hk h1 h2, scaled_small_int k n hk, roundHalfEven_one]
  rw [if_neg (by omega)]

/-- **the double that IS `n`**: reading an integer `n` with at most 53 significant bits gives exactly
sign, exponent `k + 1023` and fraction `n · 2^(52−k) − 2^52` -/
theorem ofDec_small_int (neg : Bool) (k n nd : Nat) (hk : k ≤ 52) (h1 : 2 ^ k ≤ n) (h2 : n < 2 ^ (k + 1))
    (hnd : nd ≤ 400) :
    resBits (Strtod.ofDec neg n 0 nd) =
      some ((if neg then 2 ^ 63 else 0) + (k + 1023) * 2 ^ 52 + (n * 2 ^ (52 - k) - 2 ^ 52)) := by
  have hn : n ≠ 0 := by have := Nat.two_pow_pos k; omega
  rw [ofDec_value neg n 0 nd hn (by omega) (by omega)]
  have e1 : decNum n 0 = n := by simp [decNum]
  have e2 : decDen 0 = 1 := by simp [decDen]
  rw [e1, e2, roundCore_small_int k n hk h1 h2]
  have hx : 2 ^ 52 ≤ n * 2 ^ (52 - k) := by
    have e : 2 ^ 52 = 2 ^ k * 2 ^ (52 - k) := by
      rw [← Nat.pow_add]; congr 1; omega
    rw [e]
    exact Nat.mul_le_mul_right _ h1
  unfold encBits
  dsimp only
  rw [if_neg (by omega), if_neg (show ¬ n * 2 ^ (52 - k) < 2 ^ 52 by omega)]
  generalize (if neg then 2 ^ 63 else 0) = S
  generalize n * 2 ^ (52 - k) - 2 ^ 52 = F
  exact congrArg some (by omega)

/-- **restart round trip of an integer-valued constant**: the text `format_double` prints for `±n`
is read back as exactly the double `±n` -/
theorem fmtInt_roundtrip (neg : Bool) (k n : Nat) (hk : k ≤ 52) (h1 : 2 ^ k ≤ n) (h2 : n < 2 ^ (k + 1)) :
    numBits (fmtInt neg n) =
      some ((if neg then 2 ^ 63 else 0) + (k + 1023) * 2 ^ 52 + (n * 2 ^ (52 - k) - 2 ^ 52)) := by
  rw [numBits_fmtInt]
  apply ofDec_small_int neg k n _ hk h1 h2
  have hlt : n < 10 ^ 16 := by
    have : 2 ^ (k + 1) ≤ 2 ^ 53 := Nat.pow_le_pow_right (by decide) (by omega)
    have : (2 : Nat) ^ 53 < 10 ^ 16 := by decide
    omega
  have a := decDigits_length_le n 16 (by decide) hlt
  have b := (List.dropWhile_sublist (· = '0') (l := decDigits n)).length_le
  omega

/-! ### E. examples -/

example : fmtDouble 0x4024000000000000 = some "10".toList := by decide +kernel
example : fmtDouble 0xC024000000000000 = some "-10".toList := by decide +kernel
example : fmtDouble 0x3FB999999999999A = some "0.100000".toList := by decide +kernel
example : fmtDouble 0x41E65A0BC0000000 = none := by decide +kernel
example : numBits "10".toList = some 0x4024000000000000 := by decide +kernel

end OpmVerif.Act
