/-
  The published formatted layout as an index rule, and both formatted writers against it:
  a line break follows field `i` (0-based, `len` fields in all) exactly when the field is the
  `cols`-th of a line inside its block of `mb` fields, the last field of a block, or the last
  field of the array.
-/
import OpmVerif.Proofs.EclFmtRead

namespace OpmVerif.EclFmt
open OpmVerif.Ecl

/-- the rule. -/
def nlAfter (mb cols len i : Nat) : Prop :=
  (i % mb + 1) % cols = 0 ∨ (i + 1) % mb = 0 ∨ i + 1 = len

instance (mb cols len i : Nat) : Decidable (nlAfter mb cols len i) := by unfold nlAfter; infer_instance

/-- the layout the rule describes, from field index `i` on. -/
def specLayout (mb cols len : Nat) : Nat → List (List Char) → List Char
  | _, [] => []
  | i, f :: fs => f ++ (if nlAfter mb cols len i then ['\n'] else []) ++ specLayout mb cols len (i + 1) fs

theorem succ_mod_eq_zero_iff (i mb : Nat) (hmb : 0 < mb) : (i % mb + 1) % mb = 0 ↔ (i + 1) % mb = 0 := by
  rw [Nat.add_mod i 1 mb]
  by_cases h1 : mb = 1
  · subst h1; simp
  · have : 1 % mb = 1 := Nat.mod_eq_of_lt (by omega)
    rw [this]

theorem next_counter (i mb : Nat) (hmb : 0 < mb) :
    (if (i % mb + 1) % mb = 0 then 0 else i % mb + 1) = (i + 1) % mb := by
  have hlt : i % mb < mb := Nat.mod_lt _ hmb
  by_cases h : i % mb + 1 = mb
  · have h0 : (i % mb + 1) % mb = 0 := by rw [h]; exact Nat.mod_self mb
    rw [if_pos h0]
    exact ((succ_mod_eq_zero_iff i mb hmb).mp h0).symm
  · have hlt2 : i % mb + 1 < mb := by omega
    have hne : (i % mb + 1) % mb ≠ 0 := by rw [Nat.mod_eq_of_lt hlt2]; omega
    rw [if_neg hne, Nat.add_mod i 1 mb]
    by_cases h1 : mb = 1
    · subst h1; omega
    · have : 1 % mb = 1 := Nat.mod_eq_of_lt (by omega)
      rw [this, Nat.mod_eq_of_lt hlt2]

/-- **`writeFormattedArray`** (the counter loop with its reset every `mb` values) lays the
fields out by the rule, for every number of fields. -/
theorem fmtLoop_eq_spec (cols mb : Nat) (hmb : 0 < mb) :
    ∀ (fs : List (List Char)) (f : List Char) (i len : Nat), i + (f :: fs).length = len →
      Smry.fmtLoop cols mb (i % mb) (f :: fs) = specLayout mb cols len i (f :: fs) := by
  intro fs
  induction fs with
  | nil =>
    intro f i len h
    have hl : i + 1 = len := by simpa using h
    have hnl : nlAfter mb cols len i := Or.inr (Or.inr hl)
    have := fmtLoop_last cols mb (i % mb + 1)
    simp only [Smry.fmtLoop] at this
    simp only [Smry.fmtLoop, specLayout, hnl, if_true, List.append_assoc]
    rw [this]; simp
  | cons g fs ih =>
    intro f i len h
    have hl : i + 1 < len := by simp at h; omega
    have hiff : ((i % mb + 1) % cols = 0 ∨ (i % mb + 1) % mb = 0) ↔ nlAfter mb cols len i := by
      unfold nlAfter
      rw [succ_mod_eq_zero_iff i mb hmb]
      constructor
      · rintro (h1 | h1); exact Or.inl h1; exact Or.inr (Or.inl h1)
      · rintro (h1 | h1 | h1); exact Or.inl h1; exact Or.inr h1; omega
    have hstep := ih g (i + 1) len (by simp at h ⊢; omega)
    simp only [Smry.fmtLoop] at hstep ⊢
    rw [next_counter i mb hmb, hstep]
    simp only [specLayout]
    by_cases hn : nlAfter mb cols len i
    · rw [if_pos hn, if_pos (hiff.mpr hn)]
    · have : ¬ ((i % mb + 1) % cols = 0 ∨ (i % mb + 1) % mb = 0) := fun hc => hn (hiff.mp hc)
      rw [if_neg hn, if_neg this]

/-- numeric types: the writer's text is the rule's layout. -/
theorem numericBody_eq_spec (t : ArrType) (hm : t ≠ .mess) (fs : List (List Char)) :
    numericBody t fs = specLayout (fmtParams t).1 (fmtParams t).2.1 fs.length 0 fs := by
  have hpos := fmtParams_pos t hm
  unfold numericBody
  cases fs with
  | nil => simp [Smry.fmtLoop, specLayout]
  | cons f fs =>
    have := fmtLoop_eq_spec (fmtParams t).2.1 (fmtParams t).1 hpos.2 fs f 0 (f :: fs).length (by simp)
    simpa using this


theorem specLayout_append (mb cols len : Nat) : ∀ (a b : List (List Char)) (i : Nat),
    specLayout mb cols len i (a ++ b) = specLayout mb cols len i a ++ specLayout mb cols len (i + a.length) b := by
  intro a
  induction a with
  | nil => intro b i; simp [specLayout]
  | cons f a ih =>
    intro b i
    simp only [List.cons_append, specLayout, ih, List.length_cons, List.append_assoc]
    congr 4; omega

/-- one block of `writeFormattedCharArray`. -/
theorem charBlock_eq_spec (mb cols len : Nat) (hmb : 0 < mb) :
    ∀ (rest : List (List Char)) (f : List Char) (j i : Nat), i % mb = j →
      j + (f :: rest).length ≤ mb → i + (f :: rest).length ≤ len →
      (j + (f :: rest).length = mb ∨ i + (f :: rest).length = len) →
      charBlock cols j (f :: rest) = specLayout mb cols len i (f :: rest) := by
  intro rest
  induction rest with
  | nil =>
    intro f j i hij hle hlen hend
    have hnl : nlAfter mb cols len i := by
      rcases hend with h | h
      · right; left
        rw [← succ_mod_eq_zero_iff i mb hmb, hij]
        simp at h; rw [h]; exact Nat.mod_self mb
      · right; right; simpa using h
    simp only [charBlock, specLayout, hnl, if_true]
    by_cases hc : (j + 1) % cols = 0
    · simp [hc]
    · simp [hc]
  | cons g rest ih =>
    intro f j i hij hle hlen hend
    have hj1 : j + 1 < mb := by simp at hle; omega
    have hi1 : (i + 1) % mb = j + 1 := by
      rw [← next_counter i mb hmb, hij]
      have : (j + 1) % mb ≠ 0 := by rw [Nat.mod_eq_of_lt hj1]; omega
      rw [if_neg this]
    have hiff : nlAfter mb cols len i ↔ (j + 1) % cols = 0 := by
      unfold nlAfter
      rw [hij, hi1]
      constructor
      · rintro (h | h | h)
        · exact h
        · omega
        · simp at hlen; omega
      · intro h; exact Or.inl h
    have hstep := ih g (j + 1) (i + 1) hi1 (by simp at hle ⊢; omega) (by simp at hlen ⊢; omega)
      (by simp at hend ⊢; omega)
    rw [charBlock, hstep]
    simp only [specLayout]
    by_cases hn : (j + 1) % cols = 0
    · rw [if_pos hn, if_pos (hiff.mpr hn)]
    · have : ¬ nlAfter mb cols len i := fun hc => hn (hiff.mp hc)
      rw [if_neg hn, if_neg this]

/-- **`writeFormattedCharArray`** (blocks of `mb` strings, lines of `cols`) lays the fields
out by the same rule. -/
theorem charBody_eq_spec (mb cols : Nat) (hmb : 0 < mb) :
    ∀ (fuel : Nat) (fs : List (List Char)) (i len : Nat), i % mb = 0 → i + fs.length = len →
      fs.length < fuel → charBody mb cols fuel fs = specLayout mb cols len i fs := by
  intro fuel
  induction fuel with
  | zero => intro fs i len _ _ h; omega
  | succ fuel ih =>
    intro fs i len hi hlen hf
    cases fs with
    | nil => simp [charBody, specLayout]
    | cons f rest =>
      have hne : (f :: rest) ≠ [] := by simp
      simp only [charBody, if_neg hne]
      have hsplit : f :: rest = (f :: rest).take mb ++ (f :: rest).drop mb := (List.take_append_drop mb _).symm
      obtain ⟨t, ht⟩ : ∃ t, (f :: rest).take mb = f :: t := by
        cases mb with
        | zero => omega
        | succ m => exact ⟨rest.take m, by simp⟩
      have htl : ((f :: rest).take mb).length = min mb (f :: rest).length := by simp
      conv => rhs; rw [hsplit, specLayout_append]
      congr 1
      · rw [ht]
        have hle : ((f :: t)).length ≤ mb := by rw [← ht, htl]; omega
        have hend : 0 + (f :: t).length = mb ∨ i + (f :: t).length = len := by
          rw [← ht, htl]
          by_cases h : mb ≤ (f :: rest).length
          · left; omega
          · right; omega
        exact charBlock_eq_spec mb cols len hmb t f 0 i hi (by omega) (by rw [← ht, htl]; omega) hend
      · by_cases h : mb ≤ (f :: rest).length
        · have hl : ((f :: rest).take mb).length = mb := by rw [htl]; omega
          rw [hl]
          exact ih _ (i + mb) len (by rw [Nat.add_mod, hi, Nat.mod_self]; simp)
            (by simp only [List.length_drop]; omega) (by simp only [List.length_drop]; omega)
        · have hd : (f :: rest).drop mb = [] := List.drop_of_length_le (by omega)
          rw [hd]
          cases fuel <;> simp [charBody, specLayout]

/-- string types: the writer's text is the rule's layout. -/
theorem stringBody_eq_spec (t : ArrType) (hm : t ≠ .mess) (fs : List (List Char)) :
    stringBody t fs = specLayout (fmtParams t).1 (fmtParams t).2.1 fs.length 0 fs := by
  have hpos := fmtParams_pos t hm
  unfold stringBody
  exact charBody_eq_spec _ _ hpos.2 (fs.length + 1) fs 0 fs.length (by simp) (by simp) (by omega)

end OpmVerif.EclFmt
