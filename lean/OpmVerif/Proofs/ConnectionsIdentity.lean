/-
  C06 — the Peaceman relation as an invariant of whole histories.

  A connection created by COMPDAT satisfies `CF (ln(r0/rw) + S) = 2π Kh`; WPIMULT multiplies CF
  and the accumulated multiplier `wpimult` alike; WELOPEN and the reordering touch neither.
  Hence for every history every connection satisfies

      CF · (ln(r0/rw) + S) = wpimult · 2π · Kh.
-/
import OpmVerif.Proofs.Peaceman
import OpmVerif.Proofs.ConnectionsOrder

namespace OpmVerif.Conns
open OpmVerif.Peaceman

/-- The Peaceman relation up to the accumulated WPIMULT factor. -/
def ScaledIdentity (c : Conn ℝ) : Prop :=
  c.ctf.CF * (Real.log (c.ctf.r0 / c.ctf.rw) + c.ctf.skin) = c.wpimult * (2 * Real.pi * c.ctf.Kh)

/-- A COMPDAT record is regular on a grid when it yields the Peaceman relation in every active
cell (by `identity_of_admissible`: whenever the stored values are admissible and the record
does not give CF, Kh and r0 all three). -/
def RegularRec (grid : Grid ℝ) (r : CompdatRec ℝ) : Prop :=
  ∀ i j k cell depth, grid i j k = some (cell, depth) → Identity (ctfOf realFns r.inp cell)

theorem regular_of_admissible (grid : Grid ℝ) (r : CompdatRec ℝ)
    (hadm : ∀ i j k cell depth, grid i j k = some (cell, depth) → Admissible (ctfOf realFns r.inp cell))
    (hexp : (0 < cfInitial realFns r.inp ∧ 0 < khInitial realFns r.inp) → r0Initial realFns r.inp < 0) :
    RegularRec grid r :=
  fun i j k cell depth h => identity_of_admissible r.inp cell (hadm i j k cell depth h) hexp

theorem mem_replaceFirst {β : Type} (p : β → Bool) (f : β → β) (l : List β) (x : β)
    (h : x ∈ replaceFirst p f l) : x ∈ l ∨ ∃ y ∈ l, x = f y := by
  induction l with
  | nil => simp [replaceFirst] at h
  | cons c cs ih =>
    unfold replaceFirst at h
    split at h
    · rcases List.mem_cons.mp h with rfl | h
      · right; exact ⟨c, List.mem_cons_self, rfl⟩
      · left; exact List.mem_cons_of_mem _ h
    · rcases List.mem_cons.mp h with rfl | h
      · left; exact List.mem_cons_self
      · rcases ih h with h | ⟨y, hy, rfl⟩
        · left; exact List.mem_cons_of_mem _ h
        · right; exact ⟨y, List.mem_cons_of_mem _ hy, rfl⟩

theorem scaled_of_new (n : NewConn ℝ) (h : Identity n.ctf) :
    (∀ size, ScaledIdentity (freshConn 1 n size)) ∧ (∀ prev, ScaledIdentity (replaceWith 1 n prev)) := by
  unfold Identity at h
  constructor
  · intro size
    unfold ScaledIdentity freshConn
    simpa using h
  · intro prev
    unfold ScaledIdentity replaceWith
    simpa using h

theorem upsert_scaled (cs : List (Conn ℝ)) (n : NewConn ℝ) (hn : Identity n.ctf)
    (h : ∀ c ∈ cs, ScaledIdentity c) : ∀ c ∈ upsert 1 cs n, ScaledIdentity c := by
  intro c hc
  unfold upsert at hc
  split at hc
  · rcases mem_replaceFirst _ _ _ _ hc with hc | ⟨y, _, rfl⟩
    · exact h c hc
    · exact (scaled_of_new n hn).2 y
  · rcases List.mem_append.mp hc with hc | hc
    · exact h c hc
    · rw [List.mem_singleton.mp hc]
      exact (scaled_of_new n hn).1 _

theorem compdatLoop_scaled (grid : Grid ℝ) (I J : Int) (st : State) (inp : Input ℝ)
    (hreg : ∀ i j k cell depth, grid i j k = some (cell, depth) → Identity (ctfOf realFns inp cell))
    (ks : List Int) (cs : List (Conn ℝ)) (h : ∀ c ∈ cs, ScaledIdentity c) :
    ∀ c ∈ compdatLoop realFns 1 grid I J st inp ks cs, ScaledIdentity c := by
  induction ks generalizing cs with
  | nil => exact h
  | cons k ks ih =>
    unfold compdatLoop
    split
    · exact ih cs h
    · rename_i cell depth hg
      exact ih _ (upsert_scaled cs _ (hreg I J k cell depth hg) h)

theorem scaleWellPi_scaled (f : ℝ) (c : Conn ℝ) (h : ScaledIdentity c) : ScaledIdentity (scaleWellPi f c) := by
  unfold ScaledIdentity scaleWellPi at *
  simp only
  calc c.ctf.CF * f * (Real.log (c.ctf.r0 / c.ctf.rw) + c.ctf.skin)
      = f * (c.ctf.CF * (Real.log (c.ctf.r0 / c.ctf.rw) + c.ctf.skin)) := by ring
    _ = f * (c.wpimult * (2 * Real.pi * c.ctf.Kh)) := by rw [h]
    _ = c.wpimult * f * (2 * Real.pi * c.ctf.Kh) := by ring

/-- The environment of the real-number reading: `angle = 2π`, multiplier starts at 1. -/
def RealEnv (E : Env ℝ) : Prop := E.F = realFns ∧ E.one = 1

theorem step_scaled (E : Env ℝ) (hE : RealEnv E) (w : WellConns ℝ) (op : Op ℝ)
    (hreg : ∀ r, op = .compdat r → RegularRec E.grid r)
    (h : ∀ c ∈ w.conns, ScaledIdentity c) : ∀ c ∈ (step E w op).conns, ScaledIdentity c := by
  obtain ⟨hF, h1⟩ := hE
  intro c hc
  cases op with
  | compdat r =>
    simp only [step] at hc
    have hc' := (reorder_perm _ _ _ _ _).mem_iff.mp hc
    unfold loadCompdat at hc'
    rw [hF, h1] at hc'
    exact compdatLoop_scaled E.grid _ _ _ _ (hreg r rfl) _ _ h c hc'
  | wpimult f s =>
    simp only [step] at hc
    split at hc
    · exact h c hc
    · have hc' := (reorder_perm _ _ _ _ _).mem_iff.mp hc
      unfold wpimultSel at hc'
      obtain ⟨d, hd, rfl⟩ := List.mem_map.mp hc'
      split
      · exact scaleWellPi_scaled f d (h d hd)
      · exact h d hd
  | welopen st s =>
    simp only [step] at hc
    split at hc
    · exact h c hc
    · have hc' := (reorder_perm _ _ _ _ _).mem_iff.mp hc
      unfold welopenSel at hc'
      obtain ⟨d, hd, rfl⟩ := List.mem_map.mp hc'
      split
      · exact h d hd
      · exact h d hd
  | complump n s =>
    simp only [step] at hc
    have hc' := (reorder_perm _ _ _ _ _).mem_iff.mp hc
    unfold complumpSel at hc'
    obtain ⟨d, hd, rfl⟩ := List.mem_map.mp hc'
    split
    · exact h d hd
    · exact h d hd
  | endStep =>
    simp only [step] at hc
    split at hc
    · exact h c hc
    · have hc' := (reorder_perm _ _ _ _ _).mem_iff.mp hc
      unfold wpimultAll at hc'
      obtain ⟨d, hd, rfl⟩ := List.mem_map.mp hc'
      exact scaleWellPi_scaled _ d (h d hd)

/-- **The Peaceman relation is an invariant of every history** (any COMPORD, any number of
connections, any sequence of regular COMPDAT records, WPIMULT, WELOPEN, COMPLUMP records and
report-step ends): at every time every connection satisfies
`CF (ln(r0/rw) + S) = wpimult · 2π Kh`. -/
theorem run_scaled (E : Env ℝ) (hE : RealEnv E) (ops : List (Op ℝ)) (w : WellConns ℝ)
    (hreg : ∀ r, Op.compdat r ∈ ops → RegularRec E.grid r)
    (h : ∀ c ∈ w.conns, ScaledIdentity c) : ∀ c ∈ (run E ops w).conns, ScaledIdentity c := by
  induction ops generalizing w with
  | nil => exact h
  | cons op ops ih =>
    unfold run
    apply ih
    · intro r hr
      exact hreg r (List.mem_cons_of_mem _ hr)
    · exact step_scaled E hE w op (fun r hr => hreg r (by rw [hr]; exact List.mem_cons_self)) h

end OpmVerif.Conns
