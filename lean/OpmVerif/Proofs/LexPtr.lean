/-
  The pointer arithmetic of the lexer (`Model/LexPtr.lean`) never leaves its buffer:

  * `getlineP_ok`, `fastCleanP_ok`   — on a buffer that ends in '\n' (what `loadString` /
    `loadFile` build, and what `fast_clean` returns) `end + 1` stays inside the input and no
    write passes `dst.size()`; the views are the lines of the list-level model;
  * `dalsP_ok`                       — `del_after_last_slash` reads the byte behind its view;
    for a view inside a `std::string` that byte exists (at worst the NUL terminator), the loop
    never goes below `begin`, and the result is the prefix `delAfterLastSlash` computes;
  * `isTerminatedRecordStringP_ok`   — `back()` on a non-empty view;
  * `splitRecordP_safe`              — the tokeniser (as of fb4827176) terminates and every
    token view is non-empty and inside the record; the code before the fix is `ub` on an
    unterminated quote (`example`).
-/
import OpmVerif.Model.LexPtr
import OpmVerif.Proofs.LexSafe
import OpmVerif.Model.RawKw

namespace OpmVerif.LexPtr
open OpmVerif.Lex OpmVerif.Tok

/-! ### views and decompositions -/

theorem bytes_decomp (A M C : Bytes) :
    (⟨A.length, A.length + M.length⟩ : View).bytes (A ++ M ++ C) = M := by
  simp [View.bytes, List.append_assoc]

theorem valid_decomp (A M C : Bytes) : (⟨A.length, A.length + M.length⟩ : View).Valid (A ++ M ++ C) := by
  simp [View.Valid]

/-- every valid view splits its buffer. -/
theorem decomp_of_valid (buf : Bytes) (v : View) (h : v.Valid buf) :
    ∃ A M C, buf = A ++ M ++ C ∧ v = ⟨A.length, A.length + M.length⟩ ∧ M = v.bytes buf := by
  obtain ⟨h1, h2⟩ := h
  refine ⟨buf.take v.b, v.bytes buf, buf.drop v.e, ?_, ?_, rfl⟩
  · unfold View.bytes
    have e1 : buf = buf.take v.b ++ buf.drop v.b := (List.take_append_drop _ _).symm
    have e2 : buf.drop v.b = (buf.drop v.b).take (v.e - v.b) ++ (buf.drop v.b).drop (v.e - v.b) :=
      (List.take_append_drop _ _).symm
    have e3 : (buf.drop v.b).drop (v.e - v.b) = buf.drop v.e := by
      rw [List.drop_drop]; congr 1; omega
    rw [e3] at e2
    calc buf = buf.take v.b ++ buf.drop v.b := e1
      _ = buf.take v.b ++ ((buf.drop v.b).take (v.e - v.b) ++ buf.drop v.e) := by rw [← e2]
      _ = _ := by simp [List.append_assoc]
  · have hl : (buf.take v.b).length = v.b := by rw [List.length_take]; omega
    have hm : (v.bytes buf).length = v.e - v.b := by
      unfold View.bytes; rw [List.length_take, List.length_drop]; omega
    cases v with
    | mk b e =>
      simp only at hl hm h1 h2
      have : b + (e - b) = e := by omega
      rw [hl, hm, this]

theorem getElem?_decomp_mid (A M C : Bytes) (j : Nat) (hj : j < M.length) :
    (A ++ M ++ C)[A.length + j]? = M[j]? := by
  rw [List.append_assoc, List.getElem?_append_right (by omega)]
  simp [List.getElem?_append_left hj]

theorem findIdx_pos (p : UInt8 → Bool) (c : UInt8) (r : Bytes) (h : p c = false) : 1 ≤ findIdx p (c :: r) := by
  simp [findIdx, h]

theorem findR_spec (p : UInt8 → Bool) (buf : Bytes) (first last : Nat) (h1 : first ≤ last) (h2 : last ≤ buf.length) :
    ∃ k, findR p buf first last = .ok k ∧ first ≤ k ∧ k ≤ last := by
  refine ⟨first + findIdx p ((buf.drop first).take (last - first)), ?_, by omega, ?_⟩
  · simp [findR, h1, h2]
  · have := findIdx_le p ((buf.drop first).take (last - first))
    have hl : ((buf.drop first).take (last - first)).length = last - first := by simp; omega
    omega

theorem rdIn_ok (buf : Bytes) (i : Nat) (h : i < buf.length) : rdIn buf i = .ok buf[i] := by
  simp [rdIn, List.getElem?_eq_getElem h]

/-! ### getline -/

theorem findIdx_append_stop (p : UInt8 → Bool) : ∀ (a : Bytes) (c : UInt8) (r : Bytes),
    (∀ x ∈ a, p x = false) → p c = true → findIdx p (a ++ c :: r) = a.length := by
  intro a
  induction a with
  | nil => intro c r _ hc; simp [findIdx, hc]
  | cons x a ih =>
    intro c r ha hc
    have hx : p x = false := ha x (by simp)
    simp only [List.cons_append, findIdx, hx, Bool.false_eq_true, ↓reduceIte, List.length_cons]
    rw [ih c r (fun y hy => ha y (by simp [hy])) hc]

/-- `getline` on the view `line ++ '\n' :: rest` of a buffer: `end + 1` is inside the input. -/
theorem getlineP_decomp (A line rest C : Bytes) (hl : ∀ b ∈ line, b ≠ 10) :
    getlineP (A ++ (line ++ 10 :: rest) ++ C) ⟨A.length, A.length + (line ++ 10 :: rest).length⟩ =
      .ok (some (⟨A.length, A.length + line.length⟩, ⟨A.length + line.length + 1, A.length + (line ++ 10 :: rest).length⟩)) := by
  have hne : ¬ (A.length = A.length + (line ++ 10 :: rest).length) := by simp
  have hb : (⟨A.length, A.length + (line ++ 10 :: rest).length⟩ : View).bytes (A ++ (line ++ 10 :: rest) ++ C) =
      line ++ 10 :: rest := bytes_decomp A _ C
  have hfi : findIdx (· == 10) (line ++ 10 :: rest) = line.length :=
    findIdx_append_stop _ line 10 rest (by intro x hx; simpa using hl x hx) (by simp)
  unfold getlineP
  simp only [hne, ↓reduceIte]
  have hf : findR (· == 10) (A ++ (line ++ 10 :: rest) ++ C) A.length (A.length + (line ++ 10 :: rest).length) =
      .ok (A.length + line.length) := by
    unfold findR
    have : A.length ≤ A.length + (line ++ 10 :: rest).length ∧
        A.length + (line ++ 10 :: rest).length ≤ (A ++ (line ++ 10 :: rest) ++ C).length := by
      simp only [List.length_append]; omega
    simp only [this, and_self, ↓reduceIte]
    have hb' : (List.drop A.length (A ++ (line ++ 10 :: rest) ++ C)).take (A.length + (line ++ 10 :: rest).length - A.length) =
        line ++ 10 :: rest := hb
    rw [hb', hfi]
  rw [hf]
  have : A.length + line.length + 1 ≤ A.length + (line ++ 10 :: rest).length := by simp; omega
  simp only [this, ↓reduceIte]

/-- **`getline` stays inside its input**: for a valid input view whose text is empty or ends
in '\n', `getlineP` is never `ub`; it returns the line and the rest that `getline` of the
list-level model returns, both valid views, the byte behind the line view is the '\n', and
the rest again is empty or ends in '\n'. -/
theorem getlineP_ok (buf : Bytes) (inp : View) (hv : inp.Valid buf)
    (hnl : inp.bytes buf = [] ∨ EndsNL (inp.bytes buf)) :
    (getlineP buf inp = .ok none ∧ getline (inp.bytes buf) = none) ∨
    ∃ line rest, getlineP buf inp = .ok (some (line, rest)) ∧ line.Valid buf ∧ rest.Valid buf ∧
      getline (inp.bytes buf) = some (line.bytes buf, rest.bytes buf) ∧
      (rest.bytes buf = [] ∨ EndsNL (rest.bytes buf)) ∧ rd buf line.e = .ok 10 := by
  obtain ⟨A, M, C, hbuf, hview, hM⟩ := decomp_of_valid buf inp hv
  rw [← hM] at hnl ⊢
  rcases hnl with h0 | hnl
  · left
    subst h0
    subst hview
    simp [getlineP, getline]
  · right
    obtain ⟨line, rest, hg, heq, hline, hrest⟩ := getline_endsNL M hnl
    subst heq
    subst hview
    subst hbuf
    refine ⟨⟨A.length, A.length + line.length⟩, ⟨A.length + line.length + 1, A.length + (line ++ 10 :: rest).length⟩,
      getlineP_decomp A line rest C hline, ?_, ?_, ?_, ?_, ?_⟩
    · simp [View.Valid]
    · simp [View.Valid]; omega
    · have e1 : (⟨A.length, A.length + line.length⟩ : View).bytes (A ++ (line ++ 10 :: rest) ++ C) = line := by
        have := bytes_decomp A line (10 :: rest ++ C)
        simpa [List.append_assoc] using this
      have e2 : (⟨A.length + line.length + 1, A.length + (line ++ 10 :: rest).length⟩ : View).bytes
          (A ++ (line ++ 10 :: rest) ++ C) = rest := by
        have := bytes_decomp (A ++ line ++ [10]) rest C
        simp only [List.length_append, List.length_cons, List.length_nil, List.append_assoc,
          List.cons_append, List.nil_append] at this ⊢
        have e : A.length + (line.length + (0 + 1)) + rest.length = A.length + (line.length + (rest.length + 1)) := by omega
        rw [e] at this
        have e' : A.length + (line.length + (0 + 1)) = A.length + line.length + 1 := by omega
        rw [e'] at this
        exact this
      rw [e1, e2]; exact hg
    · have e2 : (⟨A.length + line.length + 1, A.length + (line ++ 10 :: rest).length⟩ : View).bytes
          (A ++ (line ++ 10 :: rest) ++ C) = rest := by
        have := bytes_decomp (A ++ line ++ [10]) rest C
        simp only [List.length_append, List.length_cons, List.length_nil, List.append_assoc,
          List.cons_append, List.nil_append] at this ⊢
        have e : A.length + (line.length + (0 + 1)) + rest.length = A.length + (line.length + (rest.length + 1)) := by omega
        rw [e] at this
        have e' : A.length + (line.length + (0 + 1)) = A.length + line.length + 1 := by omega
        rw [e'] at this
        exact this
      rw [e2]; exact hrest
    · have : (A ++ (line ++ 10 :: rest) ++ C)[A.length + line.length]? = some 10 := by
        have := getElem?_decomp_mid A (line ++ 10 :: rest) C line.length (by simp)
        rw [this]; simp
      simp [rd, this]

/-- without the final newline `end + 1` leaves the input (non-vacuity of the hypothesis). -/
example : getlineP [65, 66] ⟨0, 2⟩ = .ub := by decide

/-! ### fast_clean -/

/-- **`fast_clean` never writes outside `dst`** and copies exactly the cleaned lines: the
pointer-level loop — `getline` with its `end + 1`, the copy through `dsti`, `*dsti++ = '\n'`
— on any text that is empty or ends in '\n' is never `ub` and returns `fastClean`. -/
theorem fastCleanP_aux : ∀ (fuel : Nat) (A l out : Bytes), (l = [] ∨ EndsNL l) → out.length ≤ A.length →
    l.length < fuel →
    fastCleanP (A ++ l) fuel ⟨A.length, A.length + l.length⟩ out = .ok (out ++ fastClean l) := by
  intro fuel
  induction fuel with
  | zero => intro A l out _ _ h; omega
  | succ fuel ih =>
    intro A l out hl hout hf
    rcases hl with h0 | hnl
    · subst h0
      simp [fastCleanP, getlineP, fastClean, splitLines]
    · obtain ⟨line, rest, _, heq, hline, hrest⟩ := getline_endsNL l hnl
      subst heq
      have hg := getlineP_decomp A line rest [] hline
      simp only [List.append_nil] at hg
      simp only [fastCleanP, hg]
      have e1 : (⟨A.length, A.length + line.length⟩ : View).bytes (A ++ (line ++ 10 :: rest)) = line := by
        have := bytes_decomp A line (10 :: rest)
        simpa [List.append_assoc] using this
      rw [e1]
      have hcl := cleanLine_length_le line
      have hfit : out.length + (cleanLine line).length + 1 ≤ (A ++ (line ++ 10 :: rest)).length := by
        simp only [List.length_append, List.length_cons]; omega
      simp only [hfit, ↓reduceIte]
      have hbuf : A ++ (line ++ 10 :: rest) = (A ++ line ++ [10]) ++ rest := by simp [List.append_assoc]
      have hv : (⟨A.length + line.length + 1, A.length + (line ++ 10 :: rest).length⟩ : View) =
          ⟨(A ++ line ++ [10]).length, (A ++ line ++ [10]).length + rest.length⟩ := by
        have e1 : (A ++ line ++ [10]).length = A.length + line.length + 1 := by
          simp only [List.length_append, List.length_cons, List.length_nil]
        have e2 : (line ++ 10 :: rest).length = line.length + 1 + rest.length := by simp; omega
        rw [e1, e2]; congr 1; omega
      rw [hv, hbuf, ih (A ++ line ++ [10]) rest (out ++ cleanLine line ++ [10]) hrest
        (by simp only [List.length_append, List.length_cons, List.length_nil]; omega)
        (by simp only [List.length_append, List.length_cons] at hf; omega)]
      rw [fastClean_line line rest hline]
      simp [List.append_assoc]

theorem fastCleanP_ok (buf : Bytes) (h : buf = [] ∨ EndsNL buf) :
    fastCleanP buf (buf.length + 1) ⟨0, buf.length⟩ [] = .ok (fastClean buf) := by
  have := fastCleanP_aux (buf.length + 1) [] buf [] h (by simp) (by omega)
  simpa using this

/-- without the final newline the loop is undefined: `end + 1` passes the end of the input
(and the '\n' written for that line would be the byte behind `dst`). -/
example : fastCleanP [65] 2 ⟨0, 1⟩ [] = .ub := by decide

/-! ### del_after_last_slash -/

/-- the backward loop in offsets relative to `begin`: the last index in `1 … j` holding a
slash, or `0`. -/
def scanDown (arr : Bytes) : Nat → Nat
  | 0 => 0
  | j + 1 => if arr[j + 1]? = some 47 then j + 1 else scanDown arr j

theorem rd_decomp (A l C : Bytes) (j : Nat) (hj : j ≤ l.length) :
    rd (A ++ l ++ C) (A.length + j) = .ok ((l ++ [C.head?.getD 0])[j]?.getD 0) := by
  by_cases hlt : j < l.length
  · have h1 := getElem?_decomp_mid A l C j hlt
    have h2 : (l ++ [C.head?.getD 0])[j]? = l[j]? := List.getElem?_append_left hlt
    rw [h2]
    simp only [rd, h1, List.getElem?_eq_getElem hlt, Option.getD_some]
  · have hj' : j = l.length := by omega
    subst hj'
    have h2 : (l ++ [C.head?.getD 0])[l.length]? = some (C.head?.getD 0) := by simp
    rw [h2]
    cases C with
    | nil =>
      have : (A ++ l ++ [])[A.length + l.length]? = none := by simp
      simp [rd, this]
    | cons c r =>
      have : (A ++ l ++ c :: r)[A.length + l.length]? = some c := by
        rw [List.getElem?_append_right (by simp)]
        simp
      simp [rd, this]

theorem dalsLoop_eq (A l C : Bytes) : ∀ (j fuel : Nat), j ≤ l.length → j < fuel →
    dalsLoop (A ++ l ++ C) A.length fuel (A.length + j) =
      .ok (A.length + scanDown (l ++ [C.head?.getD 0]) j) := by
  intro j
  induction j with
  | zero =>
    intro fuel _ hf
    cases fuel with
    | zero => omega
    | succ f => simp [dalsLoop, scanDown]
  | succ j ih =>
    intro fuel hj hf
    cases fuel with
    | zero => omega
    | succ f =>
      have hne : ¬ (A.length + (j + 1) = A.length) := by omega
      simp only [dalsLoop, hne, ↓reduceIte, rd_decomp A l C (j + 1) hj, scanDown]
      have hidx : ∃ c, (l ++ [C.head?.getD 0])[j + 1]? = some c := by
        have : j + 1 < (l ++ [C.head?.getD 0]).length := by simp; omega
        exact ⟨_, List.getElem?_eq_getElem this⟩
      obtain ⟨c, hc⟩ := hidx
      simp only [hc, Option.getD_some, Option.some.injEq]
      by_cases h47 : c = 47
      · simp [h47]
      · simp only [h47, ↓reduceIte]
        have : A.length + (j + 1) - 1 = A.length + j := by omega
        rw [this]
        exact ih f (by omega) (by omega)

theorem upToLastSlash_snoc : ∀ (l : Bytes) (c : UInt8),
    upToLastSlash (l ++ [c]) = if c = 47 then some (l ++ [c]) else upToLastSlash l := by
  intro l
  induction l with
  | nil => intro c; simp [upToLastSlash]
  | cons x l ih =>
    intro c
    simp only [List.cons_append, upToLastSlash, ih]
    by_cases hc : c = 47
    · simp [hc]
    · simp only [hc, ↓reduceIte]

theorem scanDown_congr (a b : Bytes) : ∀ (j : Nat), (∀ i, i ≤ j → a[i]? = b[i]?) → scanDown a j = scanDown b j := by
  intro j
  induction j with
  | zero => intro _; rfl
  | succ j ih =>
    intro h
    simp only [scanDown, h (j + 1) (Nat.le_refl _)]
    rw [ih (fun i hi => h i (by omega))]

/-- what the backward loop finds, against `upToLastSlash` (snoc induction). -/
theorem scanDown_spec : ∀ (n : Nat) (l : Bytes) (X : Bytes), l.length = n + 1 →
    (∀ p, upToLastSlash l = some p →
      p.length = (if scanDown (l ++ X) n = 0 then 1 else scanDown (l ++ X) n + 1) ∧
      (scanDown (l ++ X) n = 0 → l[0]? = some 47)) ∧
    (upToLastSlash l = none → scanDown (l ++ X) n = 0 ∧ l[0]? ≠ some 47) := by
  intro n
  induction n with
  | zero =>
    intro l X hl
    match l, hl with
    | [c], _ =>
      simp only [upToLastSlash, scanDown]
      by_cases hc : c = 47
      · simp [hc]
      · simp [hc]
  | succ n ih =>
    intro l X hl
    have hne : l ≠ [] := by intro h; rw [h] at hl; simp at hl
    obtain ⟨init, c, rfl⟩ : ∃ init c, l = init ++ [c] := ⟨l.dropLast, l.getLast hne, (List.dropLast_concat_getLast hne).symm⟩
    have hil : init.length = n + 1 := by simpa using hl
    have hidx : (init ++ [c] ++ X)[n + 1]? = some c := by
      rw [List.append_assoc, List.getElem?_append_right (by omega)]
      simp [hil]
    have h0 : (init ++ [c])[0]? = init[0]? := List.getElem?_append_left (by omega)
    rw [upToLastSlash_snoc]
    simp only [scanDown, hidx, Option.some.injEq]
    by_cases hc : c = 47
    · subst hc
      simp only [↓reduceIte, Option.some.injEq, reduceCtorEq, false_implies, and_true]
      intro p hp
      subst hp
      simp [hil]
    · simp only [hc, ↓reduceIte]
      have hcg : scanDown (init ++ [c] ++ X) n = scanDown (init ++ ([c] ++ X)) n := by
        rw [List.append_assoc]
      rw [hcg, h0]
      exact ih init ([c] ++ X) hil

/-- **`del_after_last_slash` and the byte behind the view.**  For every view inside a
buffer, `nx` being the byte that follows it (the NUL of the `std::string` if the view ends
the buffer): the loop reads only positions `begin + 1 … end` — all inside the string —
never steps below `begin`, and returns the prefix of the view that the list-level model
`delAfterLastSlash view nx` denotes. -/
theorem dalsP_decomp (A l C : Bytes) :
    dalsP (A ++ l ++ C) ⟨A.length, A.length + l.length⟩ =
      .ok ⟨A.length, A.length + (delAfterLastSlash l (C.head?.getD 0)).length⟩ := by
  have hloop := dalsLoop_eq A l C l.length (l.length + 1) (Nat.le_refl _) (by omega)
  have hfuel : A.length + l.length - A.length + 1 = l.length + 1 := by omega
  unfold dalsP
  simp only [hfuel, hloop]
  generalize hnx : C.head?.getD 0 = nx
  cases hl : l with
  | nil =>
    -- empty view: begin = end, the byte read is the one behind the view
    have hr := rd_decomp A [] C 0 (by simp)
    simp only [List.append_nil, Nat.add_zero, List.nil_append, hnx] at hr
    simp only [scanDown, List.length_nil, Nat.add_zero, ↓reduceIte, List.append_nil, hr]
    simp only [List.getElem?_cons_zero, Option.getD_some]
    by_cases h47 : nx = 47
    · simp [h47, delAfterLastSlash]
    · simp [h47, delAfterLastSlash, upToLastSlash]
  | cons x r =>
    rw [← hl]
    have hlen : l.length = r.length + 1 := by rw [hl]; simp
    have hlast : (l ++ [nx])[l.length]? = some nx := by simp
    by_cases h47 : nx = 47
    · -- the byte behind the view is a slash: the loop stops at `end`
      have hs : scanDown (l ++ [nx]) l.length = l.length := by
        rw [hlen, scanDown, ← hlen, hlast, h47]; simp
      have hne : ¬ (A.length + l.length = A.length) := by omega
      have hne0 : ¬ (l.length = 0) := by omega
      subst h47
      simp [hs, hne, hne0, delAfterLastSlash]
    · have hs : scanDown (l ++ [nx]) l.length = scanDown (l ++ [nx]) r.length := by
        rw [hlen, scanDown, ← hlen, hlast]
        simp [h47]
      rw [hs]
      have hspec := scanDown_spec r.length l [nx] hlen
      have hr0 := rd_decomp A l C 0 (by omega)
      simp only [Nat.add_zero, hnx] at hr0
      have hl0 : (l ++ [nx])[0]? = l[0]? := List.getElem?_append_left (by omega)
      simp only [delAfterLastSlash, h47, ↓reduceIte]
      cases hu : upToLastSlash l with
      | none =>
        obtain ⟨hz, hnot⟩ := hspec.2 hu
        simp only [hz, Nat.add_zero, ↓reduceIte, hr0, hl0]
        have hx : l[0]? = some x := by rw [hl]; rfl
        rw [hx] at hnot ⊢
        have hx47 : x ≠ 47 := by intro h; exact hnot (by rw [h])
        simp [hx47]
      | some p =>
        obtain ⟨hlenp, hzero⟩ := hspec.1 p hu
        have hple : p.length ≤ l.length := (upToLastSlash_prefix l p hu).1.length_le
        by_cases hz : scanDown (l ++ [nx]) r.length = 0
        · have h00 := hzero hz
          simp only [hz, ↓reduceIte] at hlenp
          simp only [hz, Nat.add_zero, ↓reduceIte, hr0, hl0, h00, Option.getD_some, ne_eq,
            not_true_eq_false]
          have : ¬ (A.length = A.length + l.length) := by omega
          have hlne : l ≠ [] := by rw [hl]; simp
          simp [this, hlenp, hlne]
        · simp only [hz, ↓reduceIte] at hlenp
          have hne : ¬ (A.length + scanDown (l ++ [nx]) r.length = A.length) := by omega
          simp only [hne, ↓reduceIte]
          have hne2 : A.length + scanDown (l ++ [nx]) r.length ≠ A.length + l.length := by omega
          simp only [ne_eq, hne2, not_false_eq_true, ↓reduceIte, hlenp]
          congr 1

theorem dalsP_ok (buf : Bytes) (v : View) (hv : v.Valid buf) :
    ∃ w, dalsP buf v = .ok w ∧ w.Valid buf ∧ w.b = v.b ∧ w.e ≤ v.e ∧
      w.bytes buf = delAfterLastSlash (v.bytes buf) ((buf[v.e]?).getD 0) := by
  obtain ⟨A, M, C, hbuf, hview, hM⟩ := decomp_of_valid buf v hv
  subst hbuf
  subst hview
  have hnx : (A ++ M ++ C)[A.length + M.length]? = C.head? := by
    rw [List.getElem?_append_right (by simp)]
    cases C <;> simp
  have hpre := delAfterLastSlash_prefix M (C.head?.getD 0)
  obtain ⟨t, ht⟩ := hpre
  refine ⟨_, dalsP_decomp A M C, ?_, rfl, ?_, ?_⟩
  · have := hpre_len M (C.head?.getD 0)
    simp only [View.Valid, List.length_append]; omega
  · have := hpre_len M (C.head?.getD 0)
    simp only; omega
  · simp only [hnx]
    rw [← hM]
    have e : A ++ M ++ C = A ++ delAfterLastSlash M (C.head?.getD 0) ++ (t ++ C) := by
      have e0 := congrArg (fun z => A ++ z ++ C) ht.symm
      simpa [List.append_assoc] using e0
    conv => lhs; rw [e]
    exact bytes_decomp A _ (t ++ C)
where
  hpre_len (M : Bytes) (nx : UInt8) : (delAfterLastSlash M nx).length ≤ M.length :=
    (delAfterLastSlash_prefix M nx).length_le

/-- In the parser the view is a line `getline` cut out of the cleaned buffer: the byte
behind it is the '\n' (`getlineP_ok`, last conjunct), which is why the keyword assembly
model calls `delAfterSlash raw line 10`. -/
theorem dalsP_line (buf : Bytes) (line : View) (hv : line.Valid buf) (hnx : rd buf line.e = .ok 10)
    (hlt : line.e < buf.length) :
    ∃ w, dalsP buf line = .ok w ∧ w.Valid buf ∧ w.bytes buf = delAfterLastSlash (line.bytes buf) 10 := by
  obtain ⟨w, h1, h2, _, _, h5⟩ := dalsP_ok buf line hv
  refine ⟨w, h1, h2, ?_⟩
  have : buf[line.e]? = some 10 := by
    have hh : buf[line.e]? = some buf[line.e] := List.getElem?_eq_getElem hlt
    simp only [rd, hh] at hnx
    rw [hh, R.ok.inj hnx]
  rw [h5, this]; rfl


/-! ### the line loop over a whole cleaned buffer -/

/-- iterating `getline` until the input is empty (`ParserState::getline` over one file). -/
def linesP (buf : Bytes) : Nat → View → R (List View)
  | 0, _ => .ub
  | fuel + 1, inp =>
    match getlineP buf inp with
    | .ub => .ub
    | .ok none => .ok []
    | .ok (some (line, rest)) =>
      match linesP buf fuel rest with
      | .ub => .ub
      | .ok ls => .ok (line :: ls)

theorem linesP_aux : ∀ (fuel : Nat) (A l : Bytes), (l = [] ∨ EndsNL l) → l.length < fuel →
    ∃ vs, linesP (A ++ l) fuel ⟨A.length, A.length + l.length⟩ = .ok vs ∧
      vs.map (·.bytes (A ++ l)) = splitLines l ∧
      ∀ v ∈ vs, v.Valid (A ++ l) ∧ v.e < (A ++ l).length ∧ rd (A ++ l) v.e = .ok 10 := by
  intro fuel
  induction fuel with
  | zero => intro A l _ h; omega
  | succ fuel ih =>
    intro A l hl hf
    rcases hl with h0 | hnl
    · subst h0
      exact ⟨[], by simp [linesP, getlineP], by simp [splitLines], by intro v hv; cases hv⟩
    · obtain ⟨line, rest, _, heq, hline, hrest⟩ := getline_endsNL l hnl
      subst heq
      have hg := getlineP_decomp A line rest [] hline
      simp only [List.append_nil] at hg
      have hbuf : A ++ (line ++ 10 :: rest) = (A ++ line ++ [10]) ++ rest := by simp [List.append_assoc]
      have hv : (⟨A.length + line.length + 1, A.length + (line ++ 10 :: rest).length⟩ : View) =
          ⟨(A ++ line ++ [10]).length, (A ++ line ++ [10]).length + rest.length⟩ := by
        have e1 : (A ++ line ++ [10]).length = A.length + line.length + 1 := by
          simp only [List.length_append, List.length_cons, List.length_nil]
        have e2 : (line ++ 10 :: rest).length = line.length + 1 + rest.length := by simp; omega
        rw [e1, e2]; congr 1; omega
      obtain ⟨vs, hvs, hmap, hall⟩ := ih (A ++ line ++ [10]) rest hrest
        (by simp only [List.length_append, List.length_cons] at hf; omega)
      rw [← hbuf] at hvs hmap hall
      refine ⟨⟨A.length, A.length + line.length⟩ :: vs, ?_, ?_, ?_⟩
      · simp only [linesP, hg, hv, hvs]
      · have e1 : (⟨A.length, A.length + line.length⟩ : View).bytes (A ++ (line ++ 10 :: rest)) = line := by
          have := bytes_decomp A line (10 :: rest)
          simpa [List.append_assoc] using this
        rw [List.map_cons, hmap, e1, splitLines_line line rest hline]
      · intro v hv'
        rcases List.mem_cons.mp hv' with rfl | hv'
        · refine ⟨by simp [View.Valid], by simp, ?_⟩
          have : (A ++ (line ++ 10 :: rest))[A.length + line.length]? = some 10 := by
            have := getElem?_decomp_mid A (line ++ 10 :: rest) [] line.length (by simp)
            simp only [List.append_nil] at this
            rw [this]; simp
          simp [rd, this]
        · exact hall v hv'

/-- **every line view of a loaded file is inside the cleaned buffer and is followed by its
'\n'**: so `del_after_last_slash` (which reads that byte), `ungetline` (`line.end() + 1`)
and `update_record_buffer` (`std::distance(record_buffer.begin(), line.end())`) stay inside
the buffer.  The views hold the lines `splitLines` of the list-level model returns. -/
theorem linesP_ok (buf : Bytes) (h : buf = [] ∨ EndsNL buf) :
    ∃ vs, linesP buf (buf.length + 1) ⟨0, buf.length⟩ = .ok vs ∧
      vs.map (·.bytes buf) = splitLines buf ∧
      ∀ v ∈ vs, v.Valid buf ∧ v.e < buf.length ∧ rd buf v.e = .ok 10 := by
  have := linesP_aux (buf.length + 1) [] buf h (by omega)
  simpa using this

/-- `update_record_buffer(record_buffer, line)` = the view from `record_buffer.begin()` to
`line.end()`: inside one buffer it holds the record so far, the '\n', the skipped lines and
the new line — the `extendBuf` of the keyword assembly model. -/
theorem update_record_buffer_view (A rb gap line C : Bytes) (hrb : rb ≠ []) :
    (⟨A.length, A.length + (rb ++ [10] ++ gap ++ line).length⟩ : View).bytes (A ++ (rb ++ [10] ++ gap ++ line) ++ C) =
      OpmVerif.RawKw.extendBuf rb gap line := by
  rw [bytes_decomp]
  unfold OpmVerif.RawKw.extendBuf
  cases rb with
  | nil => exact absurd rfl hrb
  | cons c r => simp

/-! ### back() -/

theorem isTerminatedRecordStringP_ok (buf : Bytes) (v : View) (hv : v.Valid buf) (hne : v.bytes buf ≠ []) :
    isTerminatedRecordStringP buf v = .ok (isTerminatedRecordString (v.bytes buf)) := by
  obtain ⟨A, M, C, hbuf, hview, hM⟩ := decomp_of_valid buf v hv
  rw [← hM] at hne ⊢
  subst hbuf
  subst hview
  have hpos : 0 < M.length := List.length_pos_iff.mpr hne
  have hne' : ¬ (A.length = A.length + M.length) := by omega
  have hidx : (A ++ M ++ C)[A.length + M.length - 1]? = M[M.length - 1]? := by
    have : A.length + M.length - 1 = A.length + (M.length - 1) := by omega
    rw [this]
    exact getElem?_decomp_mid A M C (M.length - 1) (by omega)
  have hlast : M[M.length - 1]? = M.getLast? := by
    rw [List.getLast?_eq_getElem?]
  unfold isTerminatedRecordStringP isTerminatedRecordString
  simp only [hne', ↓reduceIte, rdIn, hidx, hlast]
  cases hg : M.getLast? with
  | none =>
    exfalso
    rw [List.getLast?_eq_none_iff] at hg
    exact hne hg
  | some c => simp

/-- `back()` of an empty view is undefined; `delAfterSlash_ne_nil` (LexSafe) shows the
parser never gets there. -/
example : isTerminatedRecordStringP [47] ⟨0, 0⟩ = .ub := by decide

/-! ### splitSingleRecordString -/

theorem findIdx_drop_pos (p : UInt8 → Bool) (rec : Bytes) (cur last : Nat) (hc : cur < last) (hl : last ≤ rec.length)
    (hp : ∀ c, rec[cur]? = some c → p c = false) :
    1 ≤ findIdx p ((rec.drop cur).take (last - cur)) := by
  have hlt : cur < rec.length := by omega
  have hd : rec.drop cur = rec[cur] :: rec.drop (cur + 1) := List.drop_eq_getElem_cons hlt
  have ht : last - cur = (last - cur - 1) + 1 := by omega
  rw [hd, ht, List.take_succ_cons]
  exact findIdx_pos p _ _ (hp _ (List.getElem?_eq_getElem hlt))

/-- one token: defined, non-empty, inside the record. -/
theorem tokenEndP_ok (rec : Bytes) (cur : Nat) (hcur : cur < rec.length)
    (hns : ∀ c, rec[cur]? = some c → isSep c = false) :
    ∃ e, tokenEndP true rec cur = .ok e ∧ cur < e ∧ e ≤ rec.length := by
  unfold tokenEndP
  rw [rdIn_ok rec cur hcur]
  simp only
  by_cases hq : rec[cur] = 39
  · simp only [hq, ↓reduceIte]
    obtain ⟨q, hf, h1, h2⟩ := findR_spec (· == 39) rec (cur + 1) rec.length (by omega) (Nat.le_refl _)
    rw [hf]
    by_cases hqe : q = rec.length
    · exact ⟨q, by simp [hqe], by omega, by omega⟩
    · exact ⟨q + 1, by simp [hqe], by omega, by omega⟩
  · simp only [hq, ↓reduceIte]
    obtain ⟨te, hf, h1, h2⟩ := findR_spec isSep rec cur rec.length (by omega) (Nat.le_refl _)
    have hte : cur < te := by
      have hpos := findIdx_drop_pos isSep rec cur rec.length hcur (Nat.le_refl _) hns
      have : findR isSep rec cur rec.length = .ok (cur + findIdx isSep ((rec.drop cur).take (rec.length - cur))) := by
        simp [findR]; omega
      rw [this] at hf
      cases hf
      omega
    rw [hf]
    simp only
    obtain ⟨star, hfs, hs1, hs2⟩ := findR_spec (fun c => !isDigit c) rec cur te (by omega) h2
    rw [hfs]
    simp only
    by_cases hcond : star ≠ cur ∧ star ≠ te
    · simp only [hcond, ne_eq, not_false_eq_true, and_self, ↓reduceIte]
      have hslt : star < rec.length := by omega
      rw [rdIn_ok rec star hslt]
      simp only
      by_cases hc2 : rec[star] = 42 ∧ star + 1 ≠ te
      · simp only [hc2, ne_eq, not_false_eq_true, and_self, ↓reduceIte]
        have hs1lt : star + 1 < rec.length := by omega
        rw [rdIn_ok rec (star + 1) hs1lt]
        simp only
        by_cases hc3 : rec[star + 1] = 39
        · simp only [hc3, ↓reduceIte]
          obtain ⟨close, hfc, hcl1, hcl2⟩ := findR_spec (· == 39) rec (star + 2) rec.length (by omega) (Nat.le_refl _)
          rw [hfc]
          simp only
          by_cases hc4 : close ≠ rec.length ∧ close ≥ te
          · simp only [hc4, ne_eq, not_false_eq_true, ge_iff_le, and_self, ↓reduceIte]
            obtain ⟨e, hfe, he1, he2⟩ := findR_spec isSep rec (close + 1) rec.length (by omega) (Nat.le_refl _)
            exact ⟨e, hfe, by omega, he2⟩
          · simp only [hc4, ↓reduceIte]
            exact ⟨te, rfl, hte, h2⟩
        · simp only [hc3, ↓reduceIte]
          exact ⟨te, rfl, hte, h2⟩
      · simp only [hc2, ↓reduceIte]
        exact ⟨te, rfl, hte, h2⟩
    · simp only [hcond, ↓reduceIte]
      exact ⟨te, rfl, hte, h2⟩

theorem findIdx_stop (p : UInt8 → Bool) : ∀ (l : Bytes) (h : findIdx p l < l.length), p l[findIdx p l] = true := by
  intro l
  induction l with
  | nil => intro h; simp at h
  | cons c r ih =>
    intro h
    by_cases hc : p c = true
    · simp [findIdx, hc]
    · have hlt : findIdx p r < r.length := by simpa [findIdx, hc] using h
      simp only [findIdx, hc, Bool.false_eq_true, ↓reduceIte, List.getElem_cons_succ]
      exact ih hlt

theorem splitP_safe (rec : Bytes) : ∀ (fuel cur : Nat) (acc : List View), cur ≤ rec.length →
    rec.length - cur < fuel → (∀ t ∈ acc, t.b < t.e ∧ t.e ≤ rec.length) →
    ∃ toks, splitP true rec fuel cur acc = .ok toks ∧ ∀ t ∈ toks, t.b < t.e ∧ t.e ≤ rec.length := by
  intro fuel
  induction fuel with
  | zero => intro cur acc _ h _; omega
  | succ fuel ih =>
    intro cur acc hcur hf hacc
    obtain ⟨c1, hf1, h1, h2⟩ := findR_spec (fun c => !isSep c) rec cur rec.length hcur (Nat.le_refl _)
    simp only [splitP, hf1]
    by_cases hend : c1 = rec.length
    · simp only [hend, ↓reduceIte]
      exact ⟨acc.reverse, rfl, fun t ht => hacc t (List.mem_reverse.mp ht)⟩
    · simp only [hend, ↓reduceIte]
      have hc1 : c1 < rec.length := by omega
      -- the byte at `c1` is not a separator: `find_if_not` stopped there
      have hns : ∀ c, rec[c1]? = some c → isSep c = false := by
        intro c hc
        have hfe : findR (fun c => !isSep c) rec cur rec.length =
            .ok (cur + findIdx (fun c => !isSep c) ((rec.drop cur).take (rec.length - cur))) := by
          simp [findR]; omega
        rw [hfe] at hf1
        cases hf1
        have htk : (rec.drop cur).take (rec.length - cur) = rec.drop cur := by
          apply List.take_of_length_le; simp
        rw [htk] at hc hc1
        have hlt : findIdx (fun c => !isSep c) (rec.drop cur) < (rec.drop cur).length := by simp; omega
        have hst := findIdx_stop (fun c => !isSep c) (rec.drop cur) hlt
        have hget : (rec.drop cur)[findIdx (fun c => !isSep c) (rec.drop cur)] = c := by
          have : (rec.drop cur)[findIdx (fun c => !isSep c) (rec.drop cur)]? = some c := by
            rw [List.getElem?_drop]; exact hc
          rw [List.getElem?_eq_getElem hlt] at this
          exact Option.some.inj this
        rw [hget] at hst
        simpa using hst
      obtain ⟨e, hte, he1, he2⟩ := tokenEndP_ok rec c1 hc1 hns
      rw [hte]
      simp only
      exact ih e (⟨c1, e⟩ :: acc) he2 (by omega) (by
        intro t ht
        rcases List.mem_cons.mp ht with rfl | ht
        · exact ⟨he1, he2⟩
        · exact hacc t ht)

/-- **The tokeniser stays inside the record** (code as of fb4827176): for every record text
the loop terminates within `length + 1` rounds, no iterator or range it forms is invalid,
and every token is a non-empty view inside the record. -/
theorem splitRecordP_safe (rec : Bytes) :
    ∃ toks, splitRecordP rec = .ok toks ∧ ∀ t ∈ toks, t.b < t.e ∧ t.e ≤ rec.length :=
  splitP_safe rec (rec.length + 1) 0 [] (by omega) (by omega) (by intro t ht; cases ht)

/-- before fb4827176 (`quote_end + 1` also when no closing quote was found) an unterminated
quote made the next `find_if_not(end + 1, end)` a call on an invalid range; `even_quotes`
does not exclude the input (`ab'c 'd`: two quotes). -/
example : splitP false [97, 98, 39, 99, 32, 39, 100] 8 0 [] = .ub ∧
    evenQuotes [97, 98, 39, 99, 32, 39, 100] = true ∧
    splitRecordP [97, 98, 39, 99, 32, 39, 100] = .ok [⟨0, 4⟩, ⟨5, 7⟩] := by decide

end OpmVerif.LexPtr
