/-
  The WELL_STATUS_CHANGE events (`State.ev`) in the apply-equals-inline argument.

  `SimE a b` = `Sim a b` and the same status-change events.  The events of a list of status writes
  depend on the status channel only through `statusOf`, so `SimE` states step to `SimE` states
  through every handler, the end-of-step closing, `create_next` and whole blocks.  At a step whose
  own keywords left it closed (`Closed s1`) the closing emitted no event, so the stored snapshot is
  `SimE` to the state before closing, and applying ANY plain body equals inlining it also in the
  events: at state n (up to the action marker) and at every later state.
-/
import OpmVerif.Proofs.SchedClosed
import OpmVerif.Proofs.SchedObs

namespace OpmVerif.Sched

structure SimE (a b : State) : Prop where
  sim : Sim a b
  ev : a.ev = b.ev

theorem SimE.refl (a : State) : SimE a a := ⟨Sim.refl a, rfl⟩
theorem SimE.symm {a b : State} (h : SimE a b) : SimE b a := ⟨h.sim.symm, h.ev.symm⟩
theorem SimE.trans {a b c : State} (h : SimE a b) (h' : SimE b c) : SimE a c := ⟨h.sim.trans h'.sim, h.ev.trans h'.ev⟩

/-- The events of a list of writes depend on the old map only through `statusOf`. -/
theorem evWrites_congr (a b : StatMap) (ws : List (String × Status)) (h : ∀ w, statusOf a w = statusOf b w) :
    evWrites a ws = evWrites b ws := by
  induction ws generalizing a b with
  | nil => rfl
  | cons x r ih =>
    simp only [evWrites]
    rw [h x.1]
    congr 1
    apply ih
    intro w
    rw [statusOf_setKey, statusOf_setKey, h w]

/-- Writes of the status a well already has emit no event. -/
theorem evWrites_nil_of_same (st : StatMap) (ws : List (String × Status)) (h : ∀ x ∈ ws, statusOf st x.1 = x.2) :
    evWrites st ws = [] := by
  induction ws generalizing st with
  | nil => rfl
  | cons x r ih =>
    simp only [evWrites]
    rw [if_pos (h x (List.mem_cons_self ..))]
    simp only [List.nil_append]
    apply ih
    intro y hy
    rw [statusOf_setKey]
    by_cases hk : y.1 = x.1
    · simp only [hk, if_true]
      have := h y (List.mem_cons_of_mem _ hy)
      rw [hk] at this
      rw [← this]; exact (h x (List.mem_cons_self ..)).symm
    · simp only [hk, if_false]; exact h y (List.mem_cons_of_mem _ hy)

theorem stepR_simE (k : Consts) (m : List String) (a b : State) (r : ROp) (h : SimE a b) :
    ExRel SimE (stepR k m a r) (stepR k m b r) := by
  have hs := h.sim
  unfold stepR
  rw [hs.p, hs.c]
  by_cases hc : r.isConn = true
  · simp only [hc, if_true]
    cases stepC k m b.p b.c r with
    | error e => exact rfl
    | ok c' => exact ⟨⟨rfl, rfl, hs.st⟩, h.ev⟩
  · simp only [hc]
    cases hP : stepP k m (emp b.c) b.p r with
    | error e => exact rfl
    | ok v =>
      obtain ⟨p', ws⟩ := v
      refine ⟨⟨rfl, rfl, fun w => statusOf_applyWrites_congr _ _ _ _ (hs.st w)⟩, ?_⟩
      show a.ev ++ evWrites a.st ws = b.ev ++ evWrites b.st ws
      rw [h.ev, evWrites_congr a.st b.st ws hs.st]

theorem runOps_simE (k : Consts) (m : List String) (rs : List ROp) (a b : State) (h : SimE a b) :
    ExRel SimE (runOps k m a rs) (runOps k m b rs) := by
  induction rs generalizing a b with
  | nil => exact h
  | cons r rs ih =>
    simp only [runOps]
    have := stepR_simE k m a b r h
    cases ha : stepR k m a r with
    | error e =>
      cases hb : stepR k m b r with
      | error e' => rw [ha, hb] at this; exact this
      | ok b' => rw [ha, hb] at this; exact this.elim
    | ok a' =>
      cases hb : stepR k m b r with
      | error e' => rw [ha, hb] at this; exact this.elim
      | ok b' => rw [ha, hb] at this; exact ih a' b' this

theorem handle_simE (k : Consts) (m : List String) (kw : CKw) (a b : State) (h : SimE a b) :
    ExRel SimE (handle k m a kw) (handle k m b kw) := by
  cases kw with
  | ops n rs => exact runOps_simE k m rs a b h
  | actionx x => exact h
  | endactio => exact h
  | compord c => exact h
  | msw o =>
    simp only [handle]
    rw [h.sim.p]
    cases segStep b.p o with
    | error e => exact rfl
    | ok sm => exact ⟨⟨rfl, h.sim.c, h.sim.st⟩, h.ev⟩

theorem runBody_simE (k : Consts) (body : List CKw) (a b : State) (h : SimE a b) :
    ExRel SimE (runBody k a body) (runBody k b body) := by
  induction body generalizing a b with
  | nil => exact h
  | cons kw r ih =>
    simp only [runBody]
    have := handle_simE k [] kw a b h
    cases ha : handle k [] a kw with
    | error e =>
      cases hb : handle k [] b kw with
      | error e' => rw [ha, hb] at this; exact this
      | ok b' => rw [ha, hb] at this; exact this.elim
    | ok a' =>
      cases hb : handle k [] b kw with
      | error e' => rw [ha, hb] at this; exact this.elim
      | ok b' => rw [ha, hb] at this; exact ih a' b' this

theorem addAction_simE (a b : State) (n : String) (body : List CKw) (h : SimE a b) :
    SimE (addAction a n body) (addAction b n body) := ⟨addAction_sim a b n body h.sim, h.ev⟩

theorem runKws_simE (k : Consts) (kws : List CKw) (acc : Option (String × List CKw)) (a b : State) (h : SimE a b) :
    ExRel SimE (runKws k acc a kws) (runKws k acc b kws) := by
  induction kws generalizing acc a b with
  | nil =>
    cases acc with
    | none => exact h
    | some v => exact rfl
  | cons kw r ih =>
    cases acc with
    | none =>
      cases kw with
      | actionx n => simp only [runKws]; exact ih _ a b h
      | ops n rs =>
        simp only [runKws]
        have := handle_simE k [] (.ops n rs) a b h
        cases ha : handle k [] a (.ops n rs) with
        | error e =>
          cases hb : handle k [] b (.ops n rs) with
          | error e' => rw [ha, hb] at this; exact this
          | ok b' => rw [ha, hb] at this; exact this.elim
        | ok a' =>
          cases hb : handle k [] b (.ops n rs) with
          | error e' => rw [ha, hb] at this; exact this.elim
          | ok b' => rw [ha, hb] at this; exact ih _ a' b' this
      | endactio => simp only [runKws, handle]; exact ih _ a b h
      | compord c => simp only [runKws, handle]; exact ih _ a b h
      | msw o =>
        simp only [runKws]
        have := handle_simE k [] (.msw o) a b h
        cases ha : handle k [] a (.msw o) with
        | error e =>
          cases hb : handle k [] b (.msw o) with
          | error e' => rw [ha, hb] at this; exact this
          | ok b' => rw [ha, hb] at this; exact this.elim
        | ok a' =>
          cases hb : handle k [] b (.msw o) with
          | error e' => rw [ha, hb] at this; exact this.elim
          | ok b' => rw [ha, hb] at this; exact ih _ a' b' this
    | some v =>
      obtain ⟨n, ac⟩ := v
      cases kw with
      | endactio => simp only [runKws]; exact ih _ _ _ (addAction_simE a b n ac h)
      | ops n' rs => simp only [runKws]; exact ih _ a b h
      | actionx n' => simp only [runKws]; exact ih _ a b h
      | compord c => simp only [runKws]; exact rfl
      | msw o => simp only [runKws]; exact ih _ a b h

theorem endReport_simE (a b : State) (h : SimE a b) : SimE (endReport a) (endReport b) := by
  refine ⟨endReport_sim a b h.sim, ?_⟩
  show a.ev ++ evWrites a.st (endReportWrites a.p a.c.m) = b.ev ++ evWrites b.st (endReportWrites b.p b.c.m)
  rw [h.ev, h.sim.p, h.sim.c, evWrites_congr a.st b.st _ h.sim.st]

theorem closeBlock_simE (a b : State) (h : SimE a b) : SimE (closeBlock a) (closeBlock b) := by
  unfold closeBlock
  apply endReport_simE
  exact ⟨⟨h.sim.p, by simp only [h.sim.c], h.sim.st⟩, h.ev⟩

/-- `create_next` resets the events: `Sim` is enough. -/
theorem beginBlock_simE (a b : State) (blk : List CKw) (h : Sim a b) : SimE (beginBlock a blk) (beginBlock b blk) :=
  ⟨beginBlock_sim a b blk h, rfl⟩

theorem stepBlock_simE (k : Consts) (blk : List CKw) (a b : State) (h : Sim a b) :
    ExRel SimE (stepBlock k a blk) (stepBlock k b blk) := by
  unfold stepBlock
  have := runKws_simE k blk none _ _ (beginBlock_simE a b blk h)
  cases ha : runKws k none (beginBlock a blk) blk with
  | error e =>
    cases hb : runKws k none (beginBlock b blk) blk with
    | error e' => rw [ha, hb] at this; exact this
    | ok b' => rw [ha, hb] at this; exact this.elim
  | ok a' =>
    cases hb : runKws k none (beginBlock b blk) blk with
    | error e' => rw [ha, hb] at this; exact this.elim
    | ok b' => rw [ha, hb] at this; exact closeBlock_simE a' b' this

/-- Later report steps: `Sim` start states give `SimE` snapshots (each step starts with fresh events). -/
theorem runFrom_simE (k : Consts) (bs : List (List CKw)) (a b : State) (h : Sim a b) :
    ExRel (All2 SimE) (runFrom k a bs) (runFrom k b bs) := by
  induction bs generalizing a b with
  | nil => exact All2.nil
  | cons blk r ih =>
    simp only [runFrom]
    have := stepBlock_simE k blk a b h
    cases ha : stepBlock k a blk with
    | error e =>
      cases hb : stepBlock k b blk with
      | error e' => rw [ha, hb] at this; exact this
      | ok b' => rw [ha, hb] at this; exact this.elim
    | ok a' =>
      cases hb : stepBlock k b blk with
      | error e' => rw [ha, hb] at this; exact this.elim
      | ok b' =>
        rw [ha, hb] at this
        have h1 : SimE a' b' := this
        have ih' := ih a' b' h1.sim
        simp only []
        cases hra : runFrom k a' r with
        | error e =>
          cases hrb : runFrom k b' r with
          | error e' => rw [hra, hrb] at ih'; exact ih'
          | ok tb => rw [hra, hrb] at ih'; exact ih'.elim
        | ok ta =>
          cases hrb : runFrom k b' r with
          | error e' => rw [hra, hrb] at ih'; exact ih'.elim
          | ok tb =>
            rw [hra, hrb] at ih'
            have h2 : All2 SimE ta tb := ih'
            exact All2.cons h1 h2

/-- Closing a closed step emits no event and changes nothing observable. -/
theorem simE_close_of_closed (s : State) (h : Closed s) : SimE (closeBlock s) s := by
  refine ⟨sim_close_of_closed s h, ?_⟩
  show s.ev ++ evWrites s.st (endReportWrites s.p (applyGlobal s.c).m) = s.ev
  rw [evWrites_nil_of_same]
  · simp
  · intro x hx
    rw [endReportWrites_shut _ _ x hx]
    have hk : x.1 ∈ (endReportWrites s.p (applyGlobal s.c).m).map Prod.fst := List.mem_map_of_mem hx
    have := (mem_keys_endReportWrites _ _ _).1 hk
    rw [applyGlobal_nil _ h.1] at this
    exact h.2 x.1 this.1 this.2

/-- apply = inline including the status-change events, for any plain body at a step whose own
keywords left it closed. -/
theorem applyAction_simE_inline_closed (k : Consts) (a : List (List CKw)) (blk : List CKw) (c : List (List CKw))
    (sa : List State) (s1 : State) (tail0 : List State) (body : List CKw) (W : List String)
    (bs' : List (List CKw)) (ss' : List State)
    (ha : runFrom k (init k) a = .ok sa)
    (h1 : runKws k none (beginBlock (sa.getLastD (init k)) blk) blk = .ok s1)
    (hp : body.all plainKw = true) (hcl : Closed s1)
    (happ : applyAction k (a ++ blk :: c) (sa ++ closeBlock s1 :: tail0) a.length body W = .ok (bs', ss')) :
    ∃ sn' tail x tail2, ss' = sa ++ sn' :: tail ∧
      run k (inlineAt (a ++ blk :: c) a.length (substBody (sortW (names s1.p.wells) W) body)) = .ok (sa ++ x :: tail2) ∧
      SimE sn' x ∧ All2 SimE tail tail2 := by
  have e : inlineAt (a ++ blk :: c) a.length (substBody (sortW (names s1.p.wells) W) body) =
      a ++ (blk ++ substBody (sortW (names s1.p.wells) W) body) :: c := by
    simp [inlineAt, appendAt, modify_at_length]
  rw [e]
  have hlen : sa.length = a.length := runFrom_length ha
  unfold applyAction at happ
  have hidx : (sa ++ closeBlock s1 :: tail0)[a.length]? = some (closeBlock s1) := by rw [← hlen]; simp
  rw [hidx] at happ; simp only [] at happ
  cases hA : applyAtState k (closeBlock s1) body W with
  | error e => rw [hA] at happ; cases happ
  | ok sn' =>
    rw [hA] at happ; simp only [] at happ
    have hdrop : (a ++ blk :: c).drop (a.length + 1) = c := by simp
    rw [hdrop] at happ
    cases hT : runFrom k sn' c with
    | error e => rw [hT] at happ; cases happ
    | ok tail =>
      rw [hT] at happ
      simp only [Except.ok.injEq, Prod.mk.injEq] at happ
      obtain ⟨_, hss⟩ := happ
      have htake : (sa ++ closeBlock s1 :: tail0).take a.length = sa := by rw [← hlen]; simp
      rw [htake] at hss
      have hord : names (closeBlock s1).p.wells = names s1.p.wells := rfl
      unfold applyAtState at hA
      simp only [hord] at hA
      split at hA
      · cases hA
      · cases hb : runBody k (closeBlock s1) (substBody (sortW (names s1.p.wells) W) body) with
        | error e => rw [hb] at hA; cases hA
        | ok t' =>
          rw [hb] at hA
          simp only [Except.ok.injEq] at hA
          obtain ⟨t, ht, hrt⟩ := (runBody_simE k _ (closeBlock s1) s1 (simE_close_of_closed s1 hcl)).ok_left hb
          have hsim : SimE sn' (closeBlock t) := by
            have h0 : SimE sn' (closeBlock t') := by rw [← hA]; exact ⟨⟨rfl, rfl, fun _ => rfl⟩, rfl⟩
            exact h0.trans (closeBlock_simE t' t hrt)
          obtain ⟨tail2, hT2, hall⟩ := (runFrom_simE k c sn' (closeBlock t) hsim.sim).ok_left hT
          refine ⟨sn', tail, closeBlock t, tail2, hss.symm, ?_, hsim, hall⟩
          unfold run
          rw [runFrom_append ha]
          have hk : runKws k none (beginBlock (sa.getLastD (init k)) (blk ++ substBody (sortW (names s1.p.wells) W) body))
              (blk ++ substBody (sortW (names s1.p.wells) W) body) = .ok t := by
            rw [beginBlock_append_plain _ blk _ (substBody_plain _ body hp),
              runKws_append k blk _ none _ s1 h1, runKws_plain k s1 _ (substBody_plain _ body hp), ht]
          simp only [runFrom, stepBlock, hk, hT2]

/-- `SimE` states with equal markers print the same full observation record. -/
theorem showFull_congr (a b : State) (h : SimE a b) (hm : a.mark = b.mark) : showFull a = showFull b := by
  unfold showFull showEv showSegs
  rw [showState_congr a b h.sim hm, h.sim.p, h.ev]

end OpmVerif.Sched
