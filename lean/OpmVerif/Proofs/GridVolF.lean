/-
  The generated trilinear (Ponting) volume equals, for arbitrary trilinear coefficients, the
  divergence-theorem ("face") formula: 1/12 of the sum, over the six faces, of the four
  tetrahedron determinants of the two triangulations of the face.  For a cell with planar faces
  this is the exact polyhedron volume.  Coefficient level; separate file for parallel checking.
-/
import Mathlib.Tactic.Ring
import Mathlib.Tactic.FieldSimp
import Mathlib.Tactic.NormNum
import Mathlib.Algebra.Order.Field.Basic
import OpmVerif.Gen.CellVol
namespace OpmVerif.Grid
open OpmVerif.Gen.CellVol
variable {K : Type} [Field K] [CharZero K]

/-- Corner `n` recovered from the trilinear coefficients (`r_n = Σ_{(a,b,g) ≤ bits n} c a b g`). -/
def cornerOf (c : Nat → Nat → Nat → K) (n : Nat) : K :=
  match n with
  | 0 => c 0 0 0
  | 1 => c 0 0 0 + c 1 0 0
  | 2 => c 0 0 0 + c 0 1 0
  | 3 => c 0 0 0 + c 1 0 0 + c 0 1 0 + c 1 1 0
  | 4 => c 0 0 0 + c 0 0 1
  | 5 => c 0 0 0 + c 1 0 0 + c 0 0 1 + c 1 0 1
  | 6 => c 0 0 0 + c 0 1 0 + c 0 0 1 + c 0 1 1
  | _ => c 0 0 0 + c 1 0 0 + c 0 1 0 + c 1 1 0 + c 0 0 1 + c 1 0 1 + c 0 1 1 + c 1 1 1

/-- `det [P_a P_b P_c]` of three corners. -/
def det3 (X Y Z : Nat → K) (a b c : Nat) : K :=
  X a * (Y b * Z c - Z b * Y c) - Y a * (X b * Z c - Z b * X c) + Z a * (X b * Y c - Y b * X c)

/-- The four tetrahedra (apex at the origin) of the two triangulations of the quad `p q r s`. -/
def quad (X Y Z : Nat → K) (p q r s : Nat) : K :=
  det3 X Y Z p q r + det3 X Y Z p r s + det3 X Y Z q r s + det3 X Y Z q s p

/-- Faces in outward orientation for the reference cube (corner `n`: i = n%2, j = n/2%2, k = n/4). -/
def faceVol (X Y Z : Nat → K) : K :=
  (quad X Y Z 0 2 3 1 + quad X Y Z 4 5 7 6 + quad X Y Z 0 1 5 4 + quad X Y Z 2 6 7 3 +
   quad X Y Z 0 4 6 2 + quad X Y Z 1 3 7 5) / 12

set_option maxHeartbeats 400000000 in
set_option maxRecDepth 1000000 in
theorem signedVolOf_eq_faceVol (cX cY cZ : Nat → Nat → Nat → K) :
    signedVolOf cX cY cZ = faceVol (cornerOf cX) (cornerOf cY) (cornerOf cZ) := by
  simp only [signedVolOf, innerLoop, permutation, pqrArray, cprodOf, denom, faceVol, quad, det3, cornerOf,
    List.foldl_cons, List.foldl_nil]
  norm_num
  ring

end OpmVerif.Grid
