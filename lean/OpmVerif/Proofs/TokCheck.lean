/-
  Boolean checkers for the token side conditions of the round-trip theorems, with their
  soundness lemmas: the hypotheses (`TokSafe`, `BodyOk`) can be discharged by evaluation on
  concrete decks (non-vacuity examples in `Props/C19.lean`, `Props/C01.lean`).
-/
import OpmVerif.Proofs.KwRoundTrip2

namespace OpmVerif.RawKw
open OpmVerif.Lex OpmVerif.Tok OpmVerif.Scan OpmVerif.DeckWrite

def bareWordB (t : Bytes) : Bool := !t.isEmpty && t.all (fun x => !isSep x && x != 39)

def quotedB (t : Bytes) : Bool :=
  match t with
  | 39 :: r => r.getLast? == some 39 && r.dropLast.all (· != 39)
  | _ => false

theorem bareWord_of_B {t : Bytes} (h : bareWordB t = true) : BareWord t := by
  simp only [bareWordB, Bool.and_eq_true, Bool.not_eq_eq_eq_not, Bool.not_true, List.all_eq_true, bne_iff_ne, ne_eq] at h
  refine ⟨?_, fun x hx => (h.2 x hx).1, fun x hx => (h.2 x hx).2⟩
  intro e; rw [e] at h; simp at h

theorem quoted_of_B {t : Bytes} (h : quotedB t = true) : QuotedTok t := by
  unfold quotedB at h
  split at h
  · next r =>
    simp only [Bool.and_eq_true, beq_iff_eq, List.all_eq_true, bne_iff_ne, ne_eq] at h
    obtain ⟨hl, hb⟩ := h
    have hr : r = r.dropLast ++ [39] := by
      have hne : r ≠ [] := by intro e; rw [e] at hl; simp at hl
      have := (List.dropLast_concat_getLast hne).symm
      have hg : r.getLast hne = 39 := by
        have := List.getLast?_eq_getLast hne
        rw [this] at hl
        exact Option.some.inj hl
      rw [hg] at this
      exact this
    exact ⟨r.dropLast, by simpa using congrArg (fun z => (39 : UInt8) :: z) hr, hb⟩
  · cases h

def atomicB (t : Bytes) : Bool := bareWordB t || quotedB t

theorem atomic_of_B {t : Bytes} (h : atomicB t = true) : Atomic t := by
  simp only [atomicB, Bool.or_eq_true] at h
  rcases h with h | h
  · exact Or.inl (bareWord_of_B h)
  · exact Or.inr (quoted_of_B h)

def tokSafeB (raw : Bool) (t : Bytes) : Bool :=
  atomicB t && evenQuotes t && (endState isCommentAt none t == some none) &&
    (raw || (endState isSlashAt none t == some none)) && t.all (· != 10)

theorem tokSafe_of_B {raw : Bool} {t : Bytes} (h : tokSafeB raw t = true) : TokSafe raw t ∧ NoNL t := by
  simp only [tokSafeB, Bool.and_eq_true, Bool.or_eq_true, beq_iff_eq, List.all_eq_true, bne_iff_ne, ne_eq] at h
  obtain ⟨⟨⟨⟨h1, h2⟩, h3⟩, h4⟩, h5⟩ := h
  refine ⟨⟨atomic_of_B h1, h2, h3, ?_⟩, fun b hb => h5 b hb⟩
  intro hr
  rcases h4 with h4 | h4
  · rw [hr] at h4; cases h4
  · exact h4

/-- `BodyOk` by evaluation. -/
def bodyOkB (recog : Bytes → Bool) (raw split closing : Bool) (tss : List (List Bytes)) : Bool :=
  tss.all (fun ts => ts.all (tokSafeB raw)) && (!split || !raw) &&
    tss.all (fun ts => (recLines (chunksOf split ts)).all (fun l => !recog (makeDeckName l))) &&
    (!closing || !recog [47])

theorem bodyOk_of_B {recog : Bytes → Bool} {raw split closing : Bool} {tss : List (List Bytes)}
    (h : bodyOkB recog raw split closing tss = true) : BodyOk recog raw split closing tss := by
  simp only [bodyOkB, Bool.and_eq_true, List.all_eq_true, Bool.or_eq_true, Bool.not_eq_eq_eq_not, Bool.not_true] at h
  obtain ⟨⟨⟨h1, h2⟩, h3⟩, h4⟩ := h
  refine ⟨fun ts hts t ht => tokSafe_of_B (h1 ts hts t ht), ?_, fun ts hts l hl => h3 ts hts l hl, ?_⟩
  · intro hs
    rcases h2 with h2 | h2
    · rw [hs] at h2; cases h2
    · exact h2
  · intro hc
    rcases h4 with h4 | h4
    · rw [hc] at h4; cases h4
    · exact h4

theorem lineSafe_of_B {t : Bytes} (h : tokSafeB false t = true) : LineSafe t ∧ NoNL t :=
  ⟨lineSafe_of_tokSafe (tokSafe_of_B h).1, (tokSafe_of_B h).2⟩

end OpmVerif.RawKw
