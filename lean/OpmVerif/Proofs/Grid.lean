/-
  Lemmas for C13, corner level and geometry level.  The heavy polynomial identities about the
  generated double loop live in `Proofs/GridVol.lean` (coefficient level); this file transports
  them to corner arrays and proves that the COORD/ZCORN arrays generated from DX/DY/DZ/TOPS and
  from DXV/DYV/DZV/DEPTHZ describe the expected boxes / pillar cells.
-/
import OpmVerif.Proofs.GridVol
import OpmVerif.Proofs.GridVolI
import OpmVerif.Proofs.GridVolJ
import OpmVerif.Proofs.GridVolF
import OpmVerif.Model.Grid
import OpmVerif.Proofs.GridIndex

namespace OpmVerif.Grid
open OpmVerif.Gen.CellVol

/-! ## Corner level -/

section Vol
variable {K : Type} [Field K]

theorem bin_cases {a : Nat} (h : a ≤ 1) : a = 0 ∨ a = 1 := by omega

/-- `C` reads `r[0..7]` only. -/
theorem C_congr8 {r r' : Nat → K} (h : ∀ n, n < 8 → r n = r' n) (a b g : Nat) :
    C r a b g = C r' a b g := by
  unfold C
  split <;> simp only [h 0 (by decide), h 1 (by decide), h 2 (by decide), h 3 (by decide),
    h 4 (by decide), h 5 (by decide), h 6 (by decide), h 7 (by decide)]

/-- `calculateCellVol` reads the first 8 entries of each array only. -/
theorem signedVol_congr8 {X Y Z X' Y' Z' : Nat → K} (hX : ∀ n, n < 8 → X n = X' n)
    (hY : ∀ n, n < 8 → Y n = Y' n) (hZ : ∀ n, n < 8 → Z n = Z' n) :
    signedVol X Y Z = signedVol X' Y' Z' := by
  unfold signedVol
  have e1 : C X = C X' := by funext a b g; exact C_congr8 hX a b g
  have e2 : C Y = C Y' := by funext a b g; exact C_congr8 hY a b g
  have e3 : C Z = C Z' := by funext a b g; exact C_congr8 hZ a b g
  rw [e1, e2, e3]

/-- The non-constant trilinear coefficients do not see a translation. -/
theorem C_translate (r : Nat → K) (t : K) {a b g : Nat} (ha : a ≤ 1) (hb : b ≤ 1) (hg : g ≤ 1)
    (h : (a, b, g) ≠ (0, 0, 0)) : C (fun n => r n + t) a b g = C r a b g := by
  rcases bin_cases ha with rfl | rfl <;> rcases bin_cases hb with rfl | rfl <;>
    rcases bin_cases hg with rfl | rfl <;> simp [C] at h ⊢ <;> ring

/-- Translation invariance of the signed volume. -/
theorem signedVol_translate (X Y Z : Nat → K) (tx ty tz : K) :
    signedVol (fun n => X n + tx) (fun n => Y n + ty) (fun n => Z n + tz) = signedVol X Y Z :=
  signedVolOf_congr (fun _ _ _ ha hb hg h => C_translate X tx ha hb hg h)
    (fun _ _ _ ha hb hg h => C_translate Y ty ha hb hg h)
    (fun _ _ _ ha hb hg h => C_translate Z tz ha hb hg h)

/-- Coefficients are homogeneous of degree 1. -/
theorem C_scale (r : Nat → K) (s : K) (a b g : Nat) : C (fun n => s * r n) a b g = s * C r a b g := by
  unfold C; split <;> ring

set_option maxHeartbeats 4000000 in
set_option maxRecDepth 100000 in
/-- A cell whose four pillars are vertical and stand on a rectangle (coefficient level). -/
theorem signedVolOf_pillar (cZ : Nat → Nat → Nat → K) (dx dy : K) :
    signedVolOf (fun a b g => if a = 1 ∧ b = 0 ∧ g = 0 then dx else 0)
                (fun a b g => if a = 0 ∧ b = 1 ∧ g = 0 then dy else 0) cZ
      = dx * dy * (cZ 0 0 1 + cZ 1 0 1 / 2 + cZ 0 1 1 / 2 + cZ 1 1 1 / 4) := by
  simp [signedVolOf, innerLoop, permutation, pqrArray, cprodOf, denom]
  ring

/-- `X` array of a cell over the rectangle `[x0, x0+dx] × [y0, y0+dy]` (corner `n` has
`i`-bit `n % 2`, `j`-bit `n / 2 % 2`, `k`-bit `n / 4`). -/
def rectX (x0 dx : K) : Nat → K := fun n => if n % 2 = 0 then x0 else x0 + dx
def rectY (y0 dy : K) : Nat → K := fun n => if n / 2 % 2 = 0 then y0 else y0 + dy
def boxZ (z0 dz : K) : Nat → K := fun n => if n / 4 = 0 then z0 else z0 + dz

theorem C_rectX (x0 dx : K) {a b g : Nat} (ha : a ≤ 1) (hb : b ≤ 1) (hg : g ≤ 1)
    (h : (a, b, g) ≠ (0, 0, 0)) :
    C (rectX x0 dx) a b g = if a = 1 ∧ b = 0 ∧ g = 0 then dx else 0 := by
  rcases bin_cases ha with rfl | rfl <;> rcases bin_cases hb with rfl | rfl <;>
    rcases bin_cases hg with rfl | rfl <;> simp [C, rectX] at h ⊢ <;> ring

theorem C_rectY (y0 dy : K) {a b g : Nat} (ha : a ≤ 1) (hb : b ≤ 1) (hg : g ≤ 1)
    (h : (a, b, g) ≠ (0, 0, 0)) :
    C (rectY y0 dy) a b g = if a = 0 ∧ b = 1 ∧ g = 0 then dy else 0 := by
  rcases bin_cases ha with rfl | rfl <;> rcases bin_cases hb with rfl | rfl <;>
    rcases bin_cases hg with rfl | rfl <;> simp [C, rectY] at h ⊢ <;> ring

/-- Coordinate array of a parallelepiped: corner `n` = `o + (n%2)·a + (n/2%2)·b + (n/4)·c`. -/
def paraCoord (o a b c : K) : Nat → K := fun n =>
  o + (if n % 2 = 1 then a else 0) + (if n / 2 % 2 = 1 then b else 0) + (if n / 4 = 1 then c else 0)

theorem C_paraCoord (o a b c : K) {i1 i2 i3 : Nat} (h1 : i1 ≤ 1) (h2 : i2 ≤ 1) (h3 : i3 ≤ 1)
    (h : (i1, i2, i3) ≠ (0, 0, 0)) :
    C (paraCoord o a b c) i1 i2 i3 =
      if i1 = 1 ∧ i2 = 0 ∧ i3 = 0 then a else if i1 = 0 ∧ i2 = 1 ∧ i3 = 0 then b
      else if i1 = 0 ∧ i2 = 0 ∧ i3 = 1 then c else 0 := by
  rcases bin_cases h1 with rfl | rfl <;> rcases bin_cases h2 with rfl | rfl <;>
    rcases bin_cases h3 with rfl | rfl <;> simp [C, paraCoord] at h ⊢ <;> ring

set_option maxHeartbeats 4000000 in
set_option maxRecDepth 100000 in
/-- Parallelepiped at coefficient level: all six permutations contribute, with alternating
sign — the determinant. -/
theorem signedVolOf_para (ax bx cx ay «by» cy az bz cz : K) :
    signedVolOf
      (fun i1 i2 i3 => if i1 = 1 ∧ i2 = 0 ∧ i3 = 0 then ax else if i1 = 0 ∧ i2 = 1 ∧ i3 = 0 then bx
        else if i1 = 0 ∧ i2 = 0 ∧ i3 = 1 then cx else 0)
      (fun i1 i2 i3 => if i1 = 1 ∧ i2 = 0 ∧ i3 = 0 then ay else if i1 = 0 ∧ i2 = 1 ∧ i3 = 0 then «by»
        else if i1 = 0 ∧ i2 = 0 ∧ i3 = 1 then cy else 0)
      (fun i1 i2 i3 => if i1 = 1 ∧ i2 = 0 ∧ i3 = 0 then az else if i1 = 0 ∧ i2 = 1 ∧ i3 = 0 then bz
        else if i1 = 0 ∧ i2 = 0 ∧ i3 = 1 then cz else 0)
      = ax * («by» * cz - bz * cy) - bx * (ay * cz - az * cy) + cx * (ay * bz - az * «by») := by
  simp [signedVolOf, innerLoop, permutation, pqrArray, cprodOf, denom]
  ring

/-- Sheared box (parallelepiped spanned by `a, b, c` at `o`): `signedVol = det [a b c]`. -/
theorem signedVol_parallelepiped (ox ax bx cx oy ay «by» cy oz az bz cz : K) :
    signedVol (paraCoord ox ax bx cx) (paraCoord oy ay «by» cy) (paraCoord oz az bz cz)
      = ax * («by» * cz - bz * cy) - bx * (ay * cz - az * cy) + cx * (ay * bz - az * «by») := by
  unfold signedVol
  rw [← signedVolOf_para]
  exact signedVolOf_congr (fun _ _ _ h1 h2 h3 h => C_paraCoord ox ax bx cx h1 h2 h3 h)
    (fun _ _ _ h1 h2 h3 h => C_paraCoord oy ay «by» cy h1 h2 h3 h)
    (fun _ _ _ h1 h2 h3 h => C_paraCoord oz az bz cz h1 h2 h3 h)

variable [CharZero K]

/-- Vertical pillars over a rectangle, arbitrary (also non-planar) top and bottom corner
depths: volume = `dx·dy·`(mean of the four edge lengths). -/
theorem signedVol_pillar (x0 dx y0 dy : K) (Z : Nat → K) :
    signedVol (rectX x0 dx) (rectY y0 dy) Z
      = dx * dy * (((Z 4 - Z 0) + (Z 5 - Z 1) + (Z 6 - Z 2) + (Z 7 - Z 3)) / 4) := by
  unfold signedVol
  rw [signedVolOf_congr (cX' := fun a b g => if a = 1 ∧ b = 0 ∧ g = 0 then dx else 0)
      (cY' := fun a b g => if a = 0 ∧ b = 1 ∧ g = 0 then dy else 0) (cZ' := C Z)
      (fun _ _ _ ha hb hg h => C_rectX x0 dx ha hb hg h)
      (fun _ _ _ ha hb hg h => C_rectY y0 dy ha hb hg h) (fun _ _ _ _ _ _ _ => rfl),
    signedVolOf_pillar]
  simp only [C]
  ring

/-- Axis-aligned box: `signedVol = dx·dy·dz`. -/
theorem signedVol_box (x0 dx y0 dy z0 dz : K) :
    signedVol (rectX x0 dx) (rectY y0 dy) (boxZ z0 dz) = dx * dy * dz := by
  have h0 : boxZ z0 dz 0 = z0 := by simp [boxZ]
  have h1 : boxZ z0 dz 1 = z0 := by simp [boxZ]
  have h2 : boxZ z0 dz 2 = z0 := by simp [boxZ]
  have h3 : boxZ z0 dz 3 = z0 := by simp [boxZ]
  have h4 : boxZ z0 dz 4 = z0 + dz := by simp [boxZ]
  have h5 : boxZ z0 dz 5 = z0 + dz := by simp [boxZ]
  have h6 : boxZ z0 dz 6 = z0 + dz := by simp [boxZ]
  have h7 : boxZ z0 dz 7 = z0 + dz := by simp [boxZ]
  rw [signedVol_pillar, h0, h1, h2, h3, h4, h5, h6, h7]; ring

theorem C_lower (r : Nat → K) {a b g : Nat} (ha : a ≤ 1) (hb : b ≤ 1) (hg : g ≤ 1) :
    C (fun n => if n < 4 then r n else midCorner r n) a b g = lowerC (C r) a b g := by
  rcases bin_cases ha with rfl | rfl <;> rcases bin_cases hb with rfl | rfl <;>
    rcases bin_cases hg with rfl | rfl <;> simp [C, lowerC, midCorner] <;> ring

theorem C_upper (r : Nat → K) {a b g : Nat} (ha : a ≤ 1) (hb : b ≤ 1) (hg : g ≤ 1) :
    C (fun n => if n < 4 then midCorner r n else r n) a b g = upperC (C r) a b g := by
  rcases bin_cases ha with rfl | rfl <;> rcases bin_cases hb with rfl | rfl <;>
    rcases bin_cases hg with rfl | rfl <;> simp [C, upperC, midCorner] <;> ring

/-- Additivity under k-subdivision for **arbitrary** corner positions (24 free coordinates):
the two cells obtained by cutting at the four vertical-edge midpoints have signed volumes that
add up to the signed volume of the original cell. -/
theorem signedVolume_split (c : Corners K) :
    signedVolume (splitLower c) + signedVolume (splitUpper c) = signedVolume c := by
  have hL : signedVolume (splitLower c) =
      signedVolOf (lowerC (C c.X)) (lowerC (C c.Y)) (lowerC (C c.Z)) :=
    signedVolOf_congr (fun _ _ _ ha hb hg _ => C_lower c.X ha hb hg)
      (fun _ _ _ ha hb hg _ => C_lower c.Y ha hb hg) (fun _ _ _ ha hb hg _ => C_lower c.Z ha hb hg)
  have hU : signedVolume (splitUpper c) =
      signedVolOf (upperC (C c.X)) (upperC (C c.Y)) (upperC (C c.Z)) :=
    signedVolOf_congr (fun _ _ _ ha hb hg _ => C_upper c.X ha hb hg)
      (fun _ _ _ ha hb hg _ => C_upper c.Y ha hb hg) (fun _ _ _ ha hb hg _ => C_upper c.Z ha hb hg)
  rw [hL, hU]
  exact signedVolOf_split (C c.X) (C c.Y) (C c.Z)

theorem cornerOf_C (r : Nat → K) {n : Nat} (hn : n < 8) : cornerOf (C r) n = r n := by
  have : n = 0 ∨ n = 1 ∨ n = 2 ∨ n = 3 ∨ n = 4 ∨ n = 5 ∨ n = 6 ∨ n = 7 := by omega
  rcases this with rfl | rfl | rfl | rfl | rfl | rfl | rfl | rfl <;> simp [cornerOf, C] <;> ring

/-- **Complete characterisation of the generated formula**: for arbitrary corner positions the
value computed by `calculateCellVol` (before `fabs`) is the divergence-theorem volume
`1/12 Σ_faces (two triangulations)`; exact polyhedron volume when the faces are planar. -/
theorem signedVol_eq_faceVol (X Y Z : Nat → K) : signedVol X Y Z = faceVol X Y Z := by
  unfold signedVol
  rw [signedVolOf_eq_faceVol]
  simp only [faceVol, quad, det3, cornerOf_C X (by decide : 0 < 8), cornerOf_C X (by decide : 1 < 8),
    cornerOf_C X (by decide : 2 < 8), cornerOf_C X (by decide : 3 < 8), cornerOf_C X (by decide : 4 < 8),
    cornerOf_C X (by decide : 5 < 8), cornerOf_C X (by decide : 6 < 8), cornerOf_C X (by decide : 7 < 8),
    cornerOf_C Y (by decide : 0 < 8), cornerOf_C Y (by decide : 1 < 8),
    cornerOf_C Y (by decide : 2 < 8), cornerOf_C Y (by decide : 3 < 8), cornerOf_C Y (by decide : 4 < 8),
    cornerOf_C Y (by decide : 5 < 8), cornerOf_C Y (by decide : 6 < 8), cornerOf_C Y (by decide : 7 < 8),
    cornerOf_C Z (by decide : 0 < 8), cornerOf_C Z (by decide : 1 < 8),
    cornerOf_C Z (by decide : 2 < 8), cornerOf_C Z (by decide : 3 < 8), cornerOf_C Z (by decide : 4 < 8),
    cornerOf_C Z (by decide : 5 < 8), cornerOf_C Z (by decide : 6 < 8), cornerOf_C Z (by decide : 7 < 8)]

theorem C_lowerI (r : Nat → K) {a b g : Nat} (ha : a ≤ 1) (hb : b ≤ 1) (hg : g ≤ 1) :
    C (fun n => if n % 2 = 0 then r n else midCornerI r n) a b g = lowerCI (C r) a b g := by
  rcases bin_cases ha with rfl | rfl <;> rcases bin_cases hb with rfl | rfl <;>
    rcases bin_cases hg with rfl | rfl <;> simp [C, lowerCI, midCornerI] <;> ring

theorem C_upperI (r : Nat → K) {a b g : Nat} (ha : a ≤ 1) (hb : b ≤ 1) (hg : g ≤ 1) :
    C (fun n => if n % 2 = 0 then midCornerI r n else r n) a b g = upperCI (C r) a b g := by
  rcases bin_cases ha with rfl | rfl <;> rcases bin_cases hb with rfl | rfl <;>
    rcases bin_cases hg with rfl | rfl <;> simp [C, upperCI, midCornerI] <;> ring

theorem C_lowerJ (r : Nat → K) {a b g : Nat} (ha : a ≤ 1) (hb : b ≤ 1) (hg : g ≤ 1) :
    C (fun n => if n / 2 % 2 = 0 then r n else midCornerJ r n) a b g = lowerCJ (C r) a b g := by
  rcases bin_cases ha with rfl | rfl <;> rcases bin_cases hb with rfl | rfl <;>
    rcases bin_cases hg with rfl | rfl <;> simp [C, lowerCJ, midCornerJ] <;> ring

theorem C_upperJ (r : Nat → K) {a b g : Nat} (ha : a ≤ 1) (hb : b ≤ 1) (hg : g ≤ 1) :
    C (fun n => if n / 2 % 2 = 0 then midCornerJ r n else r n) a b g = upperCJ (C r) a b g := by
  rcases bin_cases ha with rfl | rfl <;> rcases bin_cases hb with rfl | rfl <;>
    rcases bin_cases hg with rfl | rfl <;> simp [C, upperCJ, midCornerJ] <;> ring

/-- Additivity under i-subdivision, arbitrary corners. -/
theorem signedVolume_splitI (c : Corners K) :
    signedVolume (splitLowerI c) + signedVolume (splitUpperI c) = signedVolume c := by
  have hL : signedVolume (splitLowerI c) =
      signedVolOf (lowerCI (C c.X)) (lowerCI (C c.Y)) (lowerCI (C c.Z)) :=
    signedVolOf_congr (fun _ _ _ ha hb hg _ => C_lowerI c.X ha hb hg)
      (fun _ _ _ ha hb hg _ => C_lowerI c.Y ha hb hg) (fun _ _ _ ha hb hg _ => C_lowerI c.Z ha hb hg)
  have hU : signedVolume (splitUpperI c) =
      signedVolOf (upperCI (C c.X)) (upperCI (C c.Y)) (upperCI (C c.Z)) :=
    signedVolOf_congr (fun _ _ _ ha hb hg _ => C_upperI c.X ha hb hg)
      (fun _ _ _ ha hb hg _ => C_upperI c.Y ha hb hg) (fun _ _ _ ha hb hg _ => C_upperI c.Z ha hb hg)
  rw [hL, hU]
  exact signedVolOf_splitI (C c.X) (C c.Y) (C c.Z)

/-- Additivity under j-subdivision, arbitrary corners. -/
theorem signedVolume_splitJ (c : Corners K) :
    signedVolume (splitLowerJ c) + signedVolume (splitUpperJ c) = signedVolume c := by
  have hL : signedVolume (splitLowerJ c) =
      signedVolOf (lowerCJ (C c.X)) (lowerCJ (C c.Y)) (lowerCJ (C c.Z)) :=
    signedVolOf_congr (fun _ _ _ ha hb hg _ => C_lowerJ c.X ha hb hg)
      (fun _ _ _ ha hb hg _ => C_lowerJ c.Y ha hb hg) (fun _ _ _ ha hb hg _ => C_lowerJ c.Z ha hb hg)
  have hU : signedVolume (splitUpperJ c) =
      signedVolOf (upperCJ (C c.X)) (upperCJ (C c.Y)) (upperCJ (C c.Z)) :=
    signedVolOf_congr (fun _ _ _ ha hb hg _ => C_upperJ c.X ha hb hg)
      (fun _ _ _ ha hb hg _ => C_upperJ c.Y ha hb hg) (fun _ _ _ ha hb hg _ => C_upperJ c.Z ha hb hg)
  rw [hL, hU]
  exact signedVolOf_splitJ (C c.X) (C c.Y) (C c.Z)

end Vol

section Ordered
variable {K : Type} [Field K] [LinearOrder K] [IsStrictOrderedRing K]

/-- Positivity for boxes with positive extents: `getCellVolume = dx·dy·dz > 0`. -/
theorem cellVolume_box_pos (x0 dx y0 dy z0 dz : K) (hx : 0 < dx) (hy : 0 < dy) (hz : 0 < dz) :
    cellVolume (fun v => |v|) ⟨rectX x0 dx, rectY y0 dy, boxZ z0 dz⟩ = dx * dy * dz ∧
      0 < cellVolume (fun v => |v|) ⟨rectX x0 dx, rectY y0 dy, boxZ z0 dz⟩ := by
  have hp : 0 < dx * dy * dz := mul_pos (mul_pos hx hy) hz
  simp only [cellVolume, signedVolume, signedVol_box, abs_of_pos hp]
  exact ⟨trivial, hp⟩

/-- Positivity for vertical-pillar cells: positive footprint, no edge inverted, one edge of
positive length. -/
theorem signedVol_pillar_pos (x0 dx y0 dy : K) (Z : Nat → K) (hx : 0 < dx) (hy : 0 < dy)
    (h0 : Z 0 ≤ Z 4) (h1 : Z 1 ≤ Z 5) (h2 : Z 2 ≤ Z 6) (h3 : Z 3 ≤ Z 7)
    (hs : Z 0 < Z 4 ∨ Z 1 < Z 5 ∨ Z 2 < Z 6 ∨ Z 3 < Z 7) :
    0 < signedVol (rectX x0 dx) (rectY y0 dy) Z := by
  rw [signedVol_pillar]
  have : 0 < ((Z 4 - Z 0) + (Z 5 - Z 1) + (Z 6 - Z 2) + (Z 7 - Z 3)) / 4 := by
    apply div_pos _ (by norm_num)
    rcases hs with h | h | h | h <;> linarith
  exact mul_pos (mul_pos hx hy) this

end Ordered

/-! ## Index arithmetic of COORD and ZCORN -/

/-- The mixed-radix form of `ZcornMapper::index`. -/
theorem zcornIdx_eq (d : Dims) (i j k c : Nat) (hc : c < 8) :
    zcornIdx d i j k c = c % 2 + 2 * (i + d.nx * (c / 2 % 2 + 2 * (j + d.ny * (c / 4 + 2 * k)))) := by
  unfold zcornIdx cellShift
  have : c = 0 ∨ c = 1 ∨ c = 2 ∨ c = 3 ∨ c = 4 ∨ c = 5 ∨ c = 6 ∨ c = 7 := by omega
  rcases this with rfl | rfl | rfl | rfl | rfl | rfl | rfl | rfl <;> simp <;> ring

/-- `zcornDecode` inverts `ZcornMapper::index` on the index box: every ZCORN position belongs
to exactly one (cell, corner) pair. -/
theorem zcornDecode_zcornIdx (d : Dims) {i j k c : Nat} (hi : i < d.nx) (hj : j < d.ny) (hc : c < 8) :
    zcornDecode d (zcornIdx d i j k c) = (i, j, k, c) := by
  rw [zcornIdx_eq d i j k c hc]
  unfold zcornDecode
  have h0 : c % 2 < 2 := Nat.mod_lt _ (by decide)
  have h1 : c / 2 % 2 < 2 := Nat.mod_lt _ (by decide)
  have h2 : c / 4 < 2 := by omega
  obtain ⟨a1, a2⟩ := div_mod_decode (b := i + d.nx * (c / 2 % 2 + 2 * (j + d.ny * (c / 4 + 2 * k)))) h0
  obtain ⟨b1, b2⟩ := div_mod_decode (b := c / 2 % 2 + 2 * (j + d.ny * (c / 4 + 2 * k))) hi
  obtain ⟨c1, c2⟩ := div_mod_decode (b := j + d.ny * (c / 4 + 2 * k)) h1
  obtain ⟨d1, d2⟩ := div_mod_decode (b := c / 4 + 2 * k) hj
  obtain ⟨e1, e2⟩ := div_mod_decode (b := k) h2
  simp only [a1, a2, b1, b2, c1, c2, d1, d2, e1, e2]
  have : c % 2 + 2 * (c / 2 % 2) + 4 * (c / 4) = c := by omega
  rw [this]

/-- `zcornIdx` is injective on the index box (no two (cell, corner) pairs share a slot). -/
theorem zcornIdx_inj (d : Dims) {i j k c i' j' k' c' : Nat} (hi : i < d.nx) (hj : j < d.ny)
    (hc : c < 8) (hi' : i' < d.nx) (hj' : j' < d.ny) (hc' : c' < 8)
    (h : zcornIdx d i j k c = zcornIdx d i' j' k' c') : (i, j, k, c) = (i', j', k', c') := by
  rw [← zcornDecode_zcornIdx d hi hj hc, ← zcornDecode_zcornIdx d hi' hj' hc', h]

/-- `zcornIdx` stays below `8·nx·ny·nz`. -/
theorem zcornIdx_lt (d : Dims) {i j k c : Nat} (hi : i < d.nx) (hj : j < d.ny) (hk : k < d.nz)
    (hc : c < 8) : zcornIdx d i j k c < 8 * d.size := by
  rw [zcornIdx_eq d i j k c hc]
  have h2 : c / 4 < 2 := by omega
  have h1 : c / 2 % 2 < 2 := Nat.mod_lt _ (by decide)
  have h0 : c % 2 < 2 := Nat.mod_lt _ (by decide)
  have s1 : c / 4 + 2 * k + 1 ≤ 2 * d.nz := by omega
  have s2 : d.ny * (c / 4 + 2 * k + 1) ≤ d.ny * (2 * d.nz) := Nat.mul_le_mul_left _ s1
  have s3 : j + d.ny * (c / 4 + 2 * k) + 1 ≤ d.ny * (2 * d.nz) := by
    rw [Nat.mul_add, Nat.mul_one] at s2; omega
  have s4 : c / 2 % 2 + 2 * (j + d.ny * (c / 4 + 2 * k)) + 1 ≤ 2 * (d.ny * (2 * d.nz)) := by omega
  have s5 : d.nx * (c / 2 % 2 + 2 * (j + d.ny * (c / 4 + 2 * k)) + 1) ≤ d.nx * (2 * (d.ny * (2 * d.nz))) :=
    Nat.mul_le_mul_left _ s4
  rw [Nat.mul_add, Nat.mul_one] at s5
  have s6 : 8 * d.size = 2 * (d.nx * (2 * (d.ny * (2 * d.nz)))) := by unfold Dims.size; ring
  omega

/-- The index arithmetic inlined in `getCellCorners` is that of `ZcornMapper::index`. -/
theorem cornerZind_eq (d : Dims) (i j k n : Nat) (hn : n < 8) :
    cornerZind d i j k n = zcornIdx d i j k n := by
  unfold cornerZind zcornIdx cellShift
  have : n = 0 ∨ n = 1 ∨ n = 2 ∨ n = 3 ∨ n = 4 ∨ n = 5 ∨ n = 6 ∨ n = 7 := by omega
  rcases this with rfl | rfl | rfl | rfl | rfl | rfl | rfl | rfl <;> simp <;> ring

/-- `ZcornMapper::index(g, c)` agrees with `index(i,j,k,c)` through `getIJK`. -/
theorem zcornIndexG_eq (d : Dims) {g : Nat} (c : Nat) (hg : g < d.size) :
    zcornIndexG d g c = zcornIndex d (getIJK d g).1 (getIJK d g).2.1 (getIJK d g).2.2 c := by
  have hx : 0 < d.nx := by
    rcases Nat.eq_zero_or_pos d.nx with h | h
    · simp [Dims.size, h] at hg
    · exact h
  unfold zcornIndexG getIJK
  simp only
  have e1 : g / (d.nx * d.ny) = g / d.nx / d.ny := (Nat.div_div_eq_div_mul _ _ _).symm
  have e2 : g - g / d.nx / d.ny * d.nx * d.ny = g % (d.nx * d.ny) := by
    have := Nat.div_add_mod g (d.nx * d.ny)
    rw [← e1]
    have e : g / (d.nx * d.ny) * d.nx * d.ny = d.nx * d.ny * (g / (d.nx * d.ny)) := by ring
    omega
  have e3 : g % (d.nx * d.ny) / d.nx = g / d.nx % d.ny := Nat.mod_mul_right_div_self _ _ _
  have e4 : g % (d.nx * d.ny) - g / d.nx % d.ny * d.nx = g % d.nx := by
    have h1 := Nat.div_add_mod (g % (d.nx * d.ny)) d.nx
    rw [e3] at h1
    have h2 : g % (d.nx * d.ny) % d.nx = g % d.nx := Nat.mod_mul_right_mod _ _ _
    rw [h2] at h1
    have : g / d.nx % d.ny * d.nx = d.nx * (g / d.nx % d.ny) := Nat.mul_comm _ _
    omega
  rw [e1, e2, e3, e4]

/-- COORD entry `c` of pillar `(pi, pj)`. -/
theorem coordOfPillars_at {α : Type} (d : Dims) (p : Nat → Nat → Pillar α) {pi c : Nat} (pj : Nat)
    (hpi : pi ≤ d.nx) (hc : c < 6) :
    coordOfPillars d p (6 * (pi + pj * (d.nx + 1)) + c) = (p pi pj).get c := by
  unfold coordOfPillars
  have e1 : (6 * (pi + pj * (d.nx + 1)) + c) / 6 = pi + pj * (d.nx + 1) := by omega
  have e2 : (6 * (pi + pj * (d.nx + 1)) + c) % 6 = c := by omega
  have hlt : pi < d.nx + 1 := by omega
  obtain ⟨f1, f2⟩ := div_mod_decode (b := pj) hlt
  rw [Nat.mul_comm] at f1 f2
  simp only [e1, e2, f1, f2]

/-- `pind[n]` of `getCellCorners` addresses pillar `(i + n%2, j + n/2)`. -/
theorem pillarOffset_eq (d : Dims) (i j n : Nat) (hn : n < 4) :
    pillarOffset d i j n = 6 * ((i + n % 2) + (j + n / 2) * (d.nx + 1)) := by
  unfold pillarOffset
  have : n = 0 ∨ n = 1 ∨ n = 2 ∨ n = 3 := by omega
  rcases this with rfl | rfl | rfl | rfl <;> simp <;> ring

/-! ## Geometry: generated COORD/ZCORN describe the expected cells -/

section Geo
variable {K : Type} [Field K] [DecidableEq K]

theorem onPillar_vertical (t zt zb z : K) : onPillar t t zt zb z = t := by
  unfold onPillar; split
  · rfl
  · simp

theorem runSum_congr {f g : Nat → K} {m : Nat} (h : ∀ n, n < m → f n = g n) :
    runSum f m = runSum g m := by
  induction m with
  | zero => rfl
  | succ m ih =>
    simp only [runSum]
    rw [ih (fun n hn => h n (by omega)), h m (by omega)]

/-- `std::partial_sum` and the running `sum +=` loop agree over a field. -/
theorem partialSum_eq_runSum (f : Nat → K) (n : Nat) : partialSum f n = runSum f n := by
  induction n using Nat.strongRecOn with
  | _ n ih =>
    match n with
    | 0 => rfl
    | 1 => simp [partialSum, runSum]
    | n + 2 => simp only [partialSum, runSum]; rw [ih (n + 1) (by omega)]; simp [runSum]

/-- Corners of a cell of a grid whose pillars are all vertical at `(xs pi, ys pj)` and whose
ZCORN is given cell-wise by `zc`. -/
theorem cellCorners_vertical (d : Dims) (p : Nat → Nat → Pillar K) (zc : Nat → Nat → Nat → Nat → K)
    (xs ys : Nat → K)
    (hp : ∀ pi pj, pi ≤ d.nx → pj ≤ d.ny →
      (p pi pj).xt = xs pi ∧ (p pi pj).xb = xs pi ∧ (p pi pj).yt = ys pj ∧ (p pi pj).yb = ys pj)
    {i j k n : Nat} (hi : i < d.nx) (hj : j < d.ny) (hn : n < 8) :
    let c := cellCorners d (coordOfPillars d p) (zcornOfCells d zc) i j k
    c.X n = xs (i + n % 2) ∧ c.Y n = ys (j + n / 2 % 2) ∧ c.Z n = zc i j k n := by
  have hn4 : n % 4 < 4 := Nat.mod_lt _ (by decide)
  have hpi : i + n % 4 % 2 ≤ d.nx := by omega
  have hpj : j + n % 4 / 2 ≤ d.ny := by omega
  obtain ⟨h1, h2, h3, h4⟩ := hp _ _ hpi hpj
  have e0 := coordOfPillars_at d p (pi := i + n % 4 % 2) (c := 0) (j + n % 4 / 2) hpi (by decide)
  have e1 := coordOfPillars_at d p (pi := i + n % 4 % 2) (c := 1) (j + n % 4 / 2) hpi (by decide)
  have e3 := coordOfPillars_at d p (pi := i + n % 4 % 2) (c := 3) (j + n % 4 / 2) hpi (by decide)
  have e4 := coordOfPillars_at d p (pi := i + n % 4 % 2) (c := 4) (j + n % 4 / 2) hpi (by decide)
  simp only [Pillar.get, Nat.add_zero] at e0 e1 e3 e4
  have m1 : n % 4 % 2 = n % 2 := by omega
  have m2 : n % 4 / 2 = n / 2 % 2 := by omega
  simp only [cellCorners, pillarOffset_eq d i j (n % 4) hn4, Nat.add_zero]
  rw [e0, e1, e3, e4, h1, h2, h3, h4, onPillar_vertical, onPillar_vertical, m1, m2]
  refine ⟨rfl, rfl, ?_⟩
  rw [cornerZind_eq d i j k n hn]
  unfold zcornOfCells
  simp only [zcornDecode_zcornIdx d hi hj hn]

/-- Hypothesis "DX depends on `i` only" (as produced by DXV or a layer-constant DX). -/
def DependsOnI (d : Dims) (dx dxv : Nat → K) : Prop :=
  ∀ i j k, i < d.nx → j < d.ny → k < d.nz → dx (i + j * d.nx + k * d.nx * d.ny) = dxv i

def DependsOnJ (d : Dims) (dy dyv : Nat → K) : Prop :=
  ∀ i j k, i < d.nx → j < d.ny → k < d.nz → dy (i + j * d.nx + k * d.nx * d.ny) = dyv j

theorem sumIdir_of_dependsOnI (d : Dims) {dx dxv : Nat → K} (h : DependsOnI d dx dxv)
    {k i j : Nat} (hi : i < d.nx) (hj : j < d.ny) (hk : k < d.nz) :
    sumIdir d dx k i j = runSum dxv (i + 1) :=
  runSum_congr (fun n hn => h n j k (by omega) hj hk)

theorem sumJdir_of_dependsOnJ (d : Dims) {dy dyv : Nat → K} (h : DependsOnJ d dy dyv)
    {k i j : Nat} (hi : i < d.nx) (hj : j < d.ny) (hk : k < d.nz) :
    sumJdir d dy k i j = runSum dyv (j + 1) :=
  runSum_congr (fun n hn => h i n k hi (by omega) hk)

/-- The pillars written by `makeCoordDxDyDzTops` are vertical at the cumulative DX / DY
positions when DX depends on `i` only and DY on `j` only. -/
theorem pillarDTops_vertical (d : Dims) {dx dy dxv dyv : Nat → K} (dz tops : Nat → K)
    (hx : 0 < d.nx) (hy : 0 < d.ny) (hz : 0 < d.nz) (hdx : DependsOnI d dx dxv)
    (hdy : DependsOnJ d dy dyv) (pi pj : Nat) (hpi : pi ≤ d.nx) (hpj : pj ≤ d.ny) :
    let p := pillarDTops d dx dy dz tops pi pj
    p.xt = runSum dxv pi ∧ p.xb = runSum dxv pi ∧ p.yt = runSum dyv pj ∧ p.yb = runSum dyv pj := by
  have hk0 : 0 < d.nz := hz
  have hk1 : d.nz - 1 < d.nz := by omega
  match pj, pi with
  | 0, 0 => simp [pillarDTops, runSum]
  | 0, i + 1 =>
    simp only [pillarDTops]
    rw [sumIdir_of_dependsOnI d hdx (by omega) hy hk0, sumIdir_of_dependsOnI d hdx (by omega) hy hk1]
    simp [runSum]
  | j + 1, 0 =>
    have hj : j < d.ny := by omega
    simp only [pillarDTops]
    rw [sumJdir_of_dependsOnJ d hdy hx hj hk0, sumJdir_of_dependsOnJ d hdy hx hj hk1]
    simp [runSum]
  | j + 1, i + 1 =>
    have hi : i < d.nx := by omega
    have hj : j < d.ny := by omega
    have hjj : (if j = d.ny - 1 then j else j + 1) < d.ny := by split <;> omega
    have hii : (if i = d.nx - 1 then i else i + 1) < d.nx := by split <;> omega
    simp only [pillarDTops]
    rw [sumIdir_of_dependsOnI d hdx hi hjj hk0, sumIdir_of_dependsOnI d hdx hi hjj hk1,
      sumJdir_of_dependsOnJ d hdy hii hj hk0, sumJdir_of_dependsOnJ d hdy hii hj hk1]
    simp

/-- **DX/DY/DZ/TOPS → COORD/ZCORN.**  Corner `n` of cell `(i,j,k)` read back (with the real
`getCellCorners` index arithmetic) from the arrays generated by `makeCoordDxDyDzTops` and
`makeZcornDzTops`. -/
theorem dtops_corners (d : Dims) {dx dy dxv dyv : Nat → K} (dz tops : Nat → K)
    (hx : 0 < d.nx) (hy : 0 < d.ny) (hz : 0 < d.nz) (hdx : DependsOnI d dx dxv)
    (hdy : DependsOnJ d dy dyv) {i j k n : Nat} (hi : i < d.nx) (hj : j < d.ny) (hn : n < 8) :
    let c := cellCorners d (coordDTops d dx dy dz tops) (zcornDTops d dz tops) i j k
    c.X n = runSum dxv (i + n % 2) ∧ c.Y n = runSum dyv (j + n / 2 % 2) ∧
      c.Z n = zTopsAt d dz tops i j (k + n / 4) := by
  have h := cellCorners_vertical d (pillarDTops d dx dy dz tops) (zcornCellDTops d dz tops)
    (runSum dxv) (runSum dyv)
    (fun pi pj h1 h2 => pillarDTops_vertical d dz tops hx hy hz hdx hdy pi pj h1 h2) (k := k) hi hj hn
  refine ⟨h.1, h.2.1, ?_⟩
  have h3 := h.2.2
  simp only [zcornCellDTops] at h3
  have e : (if n < 4 then k else k + 1) = k + n / 4 := by split <;> omega
  rw [e] at h3
  exact h3

/-- Box form of `dtops_corners`: the cell is the axis-aligned box
`[Σ_{i'<i} dxv, +dxv i] × [Σ_{j'<j} dyv, +dyv j] × [T, T + dz]`, `T = tops[i,j] + Σ_{k'<k} dz`. -/
theorem dtops_cell_is_box (d : Dims) {dx dy dxv dyv : Nat → K} (dz tops : Nat → K)
    (hx : 0 < d.nx) (hy : 0 < d.ny) (hz : 0 < d.nz) (hdx : DependsOnI d dx dxv)
    (hdy : DependsOnJ d dy dyv) {i j k n : Nat} (hi : i < d.nx) (hj : j < d.ny) (hn : n < 8) :
    let c := cellCorners d (coordDTops d dx dy dz tops) (zcornDTops d dz tops) i j k
    c.X n = rectX (runSum dxv i) (dxv i) n ∧ c.Y n = rectY (runSum dyv j) (dyv j) n ∧
      c.Z n = boxZ (zTopsAt d dz tops i j k) (dz (i + j * d.nx + k * d.nx * d.ny)) n := by
  obtain ⟨h1, h2, h3⟩ := dtops_corners d dz tops hx hy hz hdx hdy (k := k) hi hj hn
  refine ⟨?_, ?_, ?_⟩
  · rw [h1]; unfold rectX
    rcases Nat.mod_two_eq_zero_or_one n with e | e <;> simp [e, runSum]
  · rw [h2]; unfold rectY
    rcases Nat.mod_two_eq_zero_or_one (n / 2) with e | e <;> simp [e, runSum]
  · rw [h3]; unfold boxZ
    have : n / 4 = 0 ∨ n / 4 = 1 := by omega
    rcases this with e | e <;> simp [e, zTopsAt]

theorem pillarDepthz_vertical (d : Dims) (dxv dyv dzv depthz : Nat → K) (pi pj : Nat) :
    let p := pillarDepthz d dxv dyv dzv depthz pi pj
    p.xt = runSum dxv pi ∧ p.xb = runSum dxv pi ∧ p.yt = runSum dyv pj ∧ p.yb = runSum dyv pj := by
  simp [pillarDepthz, partialSum_eq_runSum]

/-- **DXV/DYV/DZV/DEPTHZ → COORD/ZCORN.**  Vertical pillars at the cumulative DXV/DYV
positions; corner depths `DEPTHZ(pillar) + Σ_{k'<k} dzv (+ dzv k)`. -/
theorem depthz_corners (d : Dims) (dxv dyv dzv depthz : Nat → K)
    {i j k n : Nat} (hi : i < d.nx) (hj : j < d.ny) (hn : n < 8) :
    let c := cellCorners d (coordDepthz d dxv dyv dzv depthz) (zcornDepthz d dzv depthz) i j k
    c.X n = rectX (runSum dxv i) (dxv i) n ∧ c.Y n = rectY (runSum dyv j) (dyv j) n ∧
      c.Z n = depthz ((i + n % 2) + (j + n / 2 % 2) * (d.nx + 1)) + runSum dzv (k + n / 4) := by
  have h := cellCorners_vertical d (pillarDepthz d dxv dyv dzv depthz) (zcornCellDepthz d dzv depthz)
    (runSum dxv) (runSum dyv)
    (fun pi pj _ _ => pillarDepthz_vertical d dxv dyv dzv depthz pi pj) (k := k) hi hj hn
  obtain ⟨h1, h2, h3⟩ := h
  unfold coordDepthz zcornDepthz
  refine ⟨?_, ?_, ?_⟩
  · rw [h1]; unfold rectX
    rcases Nat.mod_two_eq_zero_or_one n with e | e <;> simp [e, runSum]
  · rw [h2]; unfold rectY
    rcases Nat.mod_two_eq_zero_or_one (n / 2) with e | e <;> simp [e, runSum]
  · rw [h3]; simp only [zcornCellDepthz, partialSum_eq_runSum]
    have : n / 4 = 0 ∨ n / 4 = 1 := by omega
    rcases this with e | e
    · have : n < 4 := by omega
      simp [this, e]
    · have : ¬ n < 4 := by omega
      simp [this, e, runSum, add_assoc]

theorem zTopsAt_const_layers (d : Dims) (dzv : Nat → K) (top : K) {i j : Nat}
    (hi : i < d.nx) (hj : j < d.ny) (k : Nat) (hk : k ≤ d.nz) :
    zTopsAt d (scatterDim d 2 dzv) (fun _ => top) i j k = top + runSum dzv k := by
  induction k with
  | zero => simp [zTopsAt, runSum]
  | succ k ih =>
    simp only [zTopsAt, runSum, ih (by omega)]
    have e : i + j * d.nx + k * d.nx * d.ny = getGlobalIndex d i j k := by
      unfold getGlobalIndex; ring
    have := getIJK_getGlobalIndex d (k := k) hi hj
    simp only [getIJK, Prod.mk.injEq] at this
    simp only [scatterDim, e, this.2.2]
    ring

theorem scatterDim_dependsOnI (d : Dims) (dxv : Nat → K) : DependsOnI d (scatterDim d 0 dxv) dxv := by
  intro i j k hi hj _
  have e : i + j * d.nx + k * d.nx * d.ny = getGlobalIndex d i j k := by
    unfold getGlobalIndex; ring
  have := getIJK_getGlobalIndex d (k := k) hi hj
  simp only [getIJK, Prod.mk.injEq] at this
  simp only [scatterDim, e, this.1]

theorem scatterDim_dependsOnJ (d : Dims) (dyv : Nat → K) : DependsOnJ d (scatterDim d 1 dyv) dyv := by
  intro i j k hi hj _
  have e : i + j * d.nx + k * d.nx * d.ny = getGlobalIndex d i j k := by
    unfold getGlobalIndex; ring
  have := getIJK_getGlobalIndex d (k := k) hi hj
  simp only [getIJK, Prod.mk.injEq] at this
  simp only [scatterDim, e, this.2.1]

/-- The three input forms give the same 8 corners for every cell:
DXV/DYV/DZV + TOPS (flat top `top`, through `scatterDim` and `initDTOPSGrid`) and
DXV/DYV/DZV + DEPTHZ (constant `top`, through `initDVDEPTHZGrid`). -/
theorem dxv_tops_eq_dxv_depthz (d : Dims) (dxv dyv dzv : Nat → K) (top : K)
    (hx : 0 < d.nx) (hy : 0 < d.ny) (hz : 0 < d.nz)
    {i j k n : Nat} (hi : i < d.nx) (hj : j < d.ny) (hk : k < d.nz) (hn : n < 8) :
    let c1 := cellCorners d
      (coordDTops d (scatterDim d 0 dxv) (scatterDim d 1 dyv) (scatterDim d 2 dzv) (fun _ => top))
      (zcornDTops d (scatterDim d 2 dzv) (fun _ => top)) i j k
    let c2 := cellCorners d (coordDepthz d dxv dyv dzv (fun _ => top))
      (zcornDepthz d dzv (fun _ => top)) i j k
    c1.X n = c2.X n ∧ c1.Y n = c2.Y n ∧ c1.Z n = c2.Z n := by
  obtain ⟨a1, a2, a3⟩ := dtops_corners d (scatterDim d 2 dzv) (fun _ => top) hx hy hz
    (scatterDim_dependsOnI d dxv) (scatterDim_dependsOnJ d dyv) (k := k) hi hj hn
  obtain ⟨b1, b2, b3⟩ := depthz_corners d dxv dyv dzv (fun _ => top) (k := k) hi hj hn
  refine ⟨?_, ?_, ?_⟩
  · rw [a1, b1]; unfold rectX
    rcases Nat.mod_two_eq_zero_or_one n with e | e <;> simp [e, runSum]
  · rw [a2, b2]; unfold rectY
    rcases Nat.mod_two_eq_zero_or_one (n / 2) with e | e <;> simp [e, runSum]
  · rw [a3, b3, zTopsAt_const_layers d dzv top hi hj _ (by omega)]

/-! ### Cell queries on a box -/

/-- A corner set that coincides with an axis-aligned box on its 8 corners. -/
def IsBox (c : Corners K) (x0 dx y0 dy z0 dz : K) : Prop :=
  ∀ n, n < 8 → c.X n = rectX x0 dx n ∧ c.Y n = rectY y0 dy n ∧ c.Z n = boxZ z0 dz n

variable [CharZero K]

theorem box_signedVolume {c : Corners K} {x0 dx y0 dy z0 dz : K} (h : IsBox c x0 dx y0 dy z0 dz) :
    signedVolume c = dx * dy * dz := by
  unfold signedVolume
  rw [signedVol_congr8 (fun n hn => (h n hn).1) (fun n hn => (h n hn).2.1) (fun n hn => (h n hn).2.2),
    signedVol_box]

theorem box_center {c : Corners K} {x0 dx y0 dy z0 dz : K} (h : IsBox c x0 dx y0 dy z0 dz) :
    cellCenter c = (x0 + dx / 2, y0 + dy / 2, z0 + dz / 2) := by
  unfold cellCenter sum8
  simp only [(h 0 (by decide)).1, (h 1 (by decide)).1, (h 2 (by decide)).1, (h 3 (by decide)).1,
    (h 4 (by decide)).1, (h 5 (by decide)).1, (h 6 (by decide)).1, (h 7 (by decide)).1,
    (h 0 (by decide)).2.1, (h 1 (by decide)).2.1, (h 2 (by decide)).2.1, (h 3 (by decide)).2.1,
    (h 4 (by decide)).2.1, (h 5 (by decide)).2.1, (h 6 (by decide)).2.1, (h 7 (by decide)).2.1,
    (h 0 (by decide)).2.2, (h 1 (by decide)).2.2, (h 2 (by decide)).2.2, (h 3 (by decide)).2.2,
    (h 4 (by decide)).2.2, (h 5 (by decide)).2.2, (h 6 (by decide)).2.2, (h 7 (by decide)).2.2]
  simp only [rectX, rectY, boxZ]
  norm_num
  refine ⟨?_, ?_, ?_⟩ <;> ring

theorem box_depth_thickness {c : Corners K} {x0 dx y0 dy z0 dz : K} (h : IsBox c x0 dx y0 dy z0 dz) :
    cellDepth c = z0 + dz / 2 ∧ cellThickness c = dz := by
  unfold cellDepth cellThickness
  simp only [(h 0 (by decide)).2.2, (h 1 (by decide)).2.2, (h 2 (by decide)).2.2, (h 3 (by decide)).2.2,
    (h 4 (by decide)).2.2, (h 5 (by decide)).2.2, (h 6 (by decide)).2.2, (h 7 (by decide)).2.2]
  simp only [boxZ]
  norm_num
  constructor <;> ring

theorem box_dims {c : Corners K} {x0 dx y0 dy z0 dz : K} (sqrt : K → K)
    (h : IsBox c x0 dx y0 dy z0 dz) :
    cellDims sqrt c = (sqrt (dx * dx), sqrt (dy * dy), dz) := by
  have ht := (box_depth_thickness h).2
  unfold cellDims
  rw [ht]
  simp only [(h 0 (by decide)).1, (h 1 (by decide)).1, (h 2 (by decide)).1, (h 3 (by decide)).1,
    (h 4 (by decide)).1, (h 5 (by decide)).1, (h 6 (by decide)).1, (h 7 (by decide)).1,
    (h 0 (by decide)).2.1, (h 1 (by decide)).2.1, (h 2 (by decide)).2.1, (h 3 (by decide)).2.1,
    (h 4 (by decide)).2.1, (h 5 (by decide)).2.1, (h 6 (by decide)).2.1, (h 7 (by decide)).2.1]
  simp only [rectX, rectY]
  norm_num
  constructor <;> congr 1 <;> ring

end Geo

end OpmVerif.Grid
