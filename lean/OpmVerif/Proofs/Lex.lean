/-
  Lemmas about the lexical layer (`Model/Lex.lean`).
-/
import OpmVerif.Model.Lex

namespace OpmVerif.Lex

/-! ## separators, quotes, case -/

/-- ASCII lower-casing (`a`–`z` ← `A`–`Z`), used to state case invariance. -/
def lower (b : UInt8) : UInt8 := if 65 ≤ b.toNat ∧ b.toNat ≤ 90 then b + 32 else b

def upperN (n : Nat) : Nat := if 97 ≤ n ∧ n ≤ 122 then n - 32 else n
def lowerN (n : Nat) : Nat := if 65 ≤ n ∧ n ≤ 90 then n + 32 else n

theorem upper_toNat (b : UInt8) : (upper b).toNat = upperN b.toNat := by
  unfold upper upperN
  split
  · next h =>
    have : (32 : UInt8) ≤ b := by
      rw [UInt8.le_iff_toNat_le]; simp; omega
    rw [UInt8.toNat_sub_of_le _ _ this]; simp
  · rfl

theorem lower_toNat (b : UInt8) : (lower b).toNat = lowerN b.toNat := by
  have hb := b.toNat_lt
  unfold lower lowerN
  split
  · rw [UInt8.toNat_add]; simp; omega
  · rfl

theorem isSep_upper (b : UInt8) : isSep (upper b) = isSep b := by
  unfold isSep
  rw [upper_toNat]
  have key : ∀ n, n < 256 → sepCode (upperN n % 128) = sepCode (n % 128) := by decide +kernel
  exact key _ b.toNat_lt

theorem upper_idem (b : UInt8) : upper (upper b) = upper b := by
  apply UInt8.toNat_inj.mp
  rw [upper_toNat, upper_toNat]
  have key : ∀ n, n < 256 → upperN (upperN n) = upperN n := by decide +kernel
  exact key _ b.toNat_lt

theorem upper_lower (b : UInt8) : upper (lower b) = upper b := by
  apply UInt8.toNat_inj.mp
  rw [upper_toNat, upper_toNat, lower_toNat]
  have key : ∀ n, n < 256 → upperN (lowerN n) = upperN n := by decide +kernel
  exact key _ b.toNat_lt

/-! ## `cutAt`: prefix, idempotence, behaviour on appended text -/

theorem cutAt_prefix (isT : Bytes → Bool) (keep : Nat) :
    ∀ (l : Bytes) (st : Option UInt8), cutAt isT keep st l <+: l := by
  intro l
  induction l with
  | nil => intro st; cases st <;> simp [cutAt]
  | cons c r ih =>
    intro st
    cases st with
    | none =>
      simp only [cutAt]
      split
      · exact List.take_prefix _ _
      · exact List.prefix_cons_inj c |>.mpr (ih _)
    | some q =>
      simp only [cutAt]
      exact List.prefix_cons_inj c |>.mpr (ih _)

/-- final state of the scan, `none` when a terminator was found. -/
def endState (isT : Bytes → Bool) : Option UInt8 → Bytes → Option (Option UInt8)
  | st, [] => some st
  | none, c :: r => if isT (c :: r) then none else endState isT (stepQ none c) r
  | some q, c :: r => endState isT (stepQ (some q) c) r

/-- the terminator test looks at no more than the next two bytes. -/
def Local2 (isT : Bytes → Bool) : Prop :=
  ∀ c d r r', isT (c :: d :: r) = isT (c :: d :: r')

theorem local2_comment : Local2 isCommentAt := by
  intro c d r r'; simp [isCommentAt]

theorem local2_slash : Local2 isSlashAt := by
  intro c d r r'; simp [isSlashAt]

/-- No terminator found in `l`: the scan continues into the appended text in the state
reached at the end of `l` (`hb`: the last byte of `l` does not combine with the head of
`m` into a terminator). -/
theorem cutAt_append_of_endState {isT : Bytes → Bool} {keep : Nat} (hloc : Local2 isT) (m : Bytes) :
    ∀ (l : Bytes) (st st' : Option UInt8), endState isT st l = some st' →
      (∀ c, l.getLast? = some c → isT [c] = false → isT (c :: m) = false) →
      cutAt isT keep st (l ++ m) = l ++ cutAt isT keep st' m := by
  intro l
  induction l with
  | nil => intro st st' h _; simp [endState] at h; cases st <;> simp [h]
  | cons c r ih =>
    intro st st' h hb
    cases st with
    | some q =>
      simp only [endState] at h
      simp only [List.cons_append, cutAt]
      rw [ih _ _ h]
      intro c' hc'
      apply hb
      cases r with
      | nil => simp at hc'
      | cons d r2 => simpa using hc'
    | none =>
      simp only [endState] at h
      split at h
      · cases h
      · next hT =>
        simp only [List.cons_append, cutAt]
        have hT' : isT (c :: (r ++ m)) = false := by
          cases r with
          | nil =>
            simp only [List.nil_append]
            exact hb c (by simp) (by simpa using hT)
          | cons d r2 =>
            rw [List.cons_append, hloc c d (r2 ++ m) r2]; simpa using hT
        simp only [hT']
        simp only [Bool.false_eq_true, ↓reduceIte, List.cons.injEq, true_and]
        cases r with
        | nil =>
          simp [endState] at h
          simp [h]
        | cons d r2 =>
          rw [ih _ _ h]
          intro c' hc'
          apply hb
          simpa using hc'

/-- A terminator found in `l`: whatever follows is ignored. -/
theorem cutAt_append_of_found {isT : Bytes → Bool} {keep : Nat} (hloc : Local2 isT) (m : Bytes) :
    ∀ (l : Bytes) (st : Option UInt8), endState isT st l = none →
      (∀ c d r, isT (c :: d :: r) = true → ((c :: d :: r) ++ m).take keep = (c :: d :: r).take keep) →
      (∀ c, isT [c] = true → isT (c :: m) = true ∧ (c :: m).take keep = [c].take keep) →
      cutAt isT keep st (l ++ m) = cutAt isT keep st l := by
  intro l
  induction l with
  | nil => intro st h; simp [endState] at h
  | cons c r ih =>
    intro st h hk h1
    cases st with
    | some q =>
      simp only [endState] at h
      simp only [List.cons_append, cutAt]
      rw [ih _ h hk h1]
    | none =>
      simp only [endState] at h
      simp only [List.cons_append, cutAt]
      split at h
      · next hT =>
        cases r with
        | nil =>
          have := h1 c hT
          simp only [List.nil_append, this.1, hT, ↓reduceIte]
          exact this.2
        | cons d r2 =>
          have e : isT (c :: (d :: r2 ++ m)) = true := by
            rw [List.cons_append, hloc c d (r2 ++ m) r2]; exact hT
          simp only [e, hT, ↓reduceIte]
          exact hk c d r2 hT
      · next hT =>
        cases r with
        | nil => simp [endState] at h
        | cons d r2 =>
          have e : isT (c :: (d :: r2 ++ m)) = false := by
            rw [List.cons_append, hloc c d (r2 ++ m) r2]; simpa using hT
          simp only [e, hT]
          simp only [Bool.false_eq_true, ↓reduceIte, List.cons.injEq, true_and]
          exact ih _ h hk h1

/-- without a terminator the text is kept whole. -/
theorem cutAt_of_endState {isT : Bytes → Bool} {keep : Nat} :
    ∀ (l : Bytes) (st st' : Option UInt8), endState isT st l = some st' → cutAt isT keep st l = l := by
  intro l
  induction l with
  | nil => intro st st' _; cases st <;> simp [cutAt]
  | cons c r ih =>
    intro st st' h
    cases st with
    | some q => simp only [endState] at h; simp only [cutAt]; rw [ih _ _ h]
    | none =>
      simp only [endState] at h
      split at h
      · cases h
      · next hT => simp only [cutAt, hT]; simp [ih _ _ h]

/-- the kept text of a comment cut contains no terminator any more. -/
theorem endState_cutAt_comment :
    ∀ (l : Bytes) (st : Option UInt8), ∃ st', endState isCommentAt st (cutAt isCommentAt 0 st l) = some st' := by
  intro l
  induction l with
  | nil => intro st; cases st <;> simp [cutAt, endState]
  | cons c r ih =>
    intro st
    cases st with
    | some q => simp only [cutAt, endState]; exact ih _
    | none =>
      simp only [cutAt]
      split
      · simp [endState]
      · next hT =>
        simp only [endState]
        have hpre := cutAt_prefix isCommentAt 0 r (stepQ none c)
        have : isCommentAt (c :: cutAt isCommentAt 0 (stepQ none c) r) = false := by
          generalize cutAt isCommentAt 0 (stepQ none c) r = r' at hpre
          cases r' with
          | nil => simp [isCommentAt]
          | cons d r2 =>
            obtain ⟨t, ht⟩ := hpre
            subst ht
            rw [local2_comment c d r2 (r2 ++ t)]
            simpa using hT
        simp only [this]
        exact ih _

theorem stripComments_idem (l : Bytes) : stripComments (stripComments l) = stripComments l := by
  unfold stripComments
  obtain ⟨st', h⟩ := endState_cutAt_comment l none
  exact cutAt_of_endState _ _ _ h

/-- `BalancedNoComment l`: the quote-aware scan of `l` reaches the end outside any
quotation and without meeting `--`. -/
def BalancedNoComment (l : Bytes) : Prop := endState isCommentAt none l = some none

instance (l : Bytes) : Decidable (BalancedNoComment l) := by unfold BalancedNoComment; infer_instance

theorem stripComments_append_comment (l c : Bytes) (hb : BalancedNoComment l)
    (hlast : l.getLast? ≠ some 45) :
    stripComments (l ++ 45 :: 45 :: c) = stripComments l := by
  unfold stripComments
  rw [cutAt_append_of_endState local2_comment _ l none none hb]
  · rw [cutAt_of_endState l none none hb]; simp [cutAt, isCommentAt]
  · intro ch hch _
    have : ch ≠ 45 := by intro h; subst h; exact hlast hch
    simp [isCommentAt, this]

/-- once a comment starts, nothing appended to the line matters. -/
theorem stripComments_append_of_comment (l m : Bytes) (h : endState isCommentAt none l = none) :
    stripComments (l ++ m) = stripComments l := by
  unfold stripComments
  apply cutAt_append_of_found local2_comment m l none h
  · intros; simp
  · intro c hc; simp [isCommentAt] at hc

/-! ## trim -/

theorem dropWhile_sep_append_left (s l : Bytes) (hs : ∀ x ∈ s, isSep x = true) :
    (s ++ l).dropWhile isSep = l.dropWhile isSep := by
  induction s with
  | nil => rfl
  | cons a s ih =>
    simp only [List.cons_append, List.dropWhile_cons, hs a (by simp), ↓reduceIte]
    exact ih (fun x hx => hs x (by simp [hx]))

theorem dropWhile_nil_all (p : UInt8 → Bool) (l : Bytes) (h : l.dropWhile p = []) :
    ∀ x ∈ l, p x = true := by
  induction l with
  | nil => intro x hx; cases hx
  | cons a l ih =>
    simp only [List.dropWhile_cons] at h
    split at h
    · next ha =>
      intro x hx
      rcases List.mem_cons.mp hx with rfl | hx
      · exact ha
      · exact ih h x hx
    · cases h

theorem trimLeft_sep_append (s l : Bytes) (hs : ∀ x ∈ s, isSep x = true) :
    trimLeft (s ++ l) = trimLeft l := dropWhile_sep_append_left s l hs

theorem trimRight_append_sep (l s : Bytes) (hs : ∀ x ∈ s, isSep x = true) :
    trimRight (l ++ s) = trimRight l := by
  unfold trimRight
  rw [List.reverse_append, dropWhile_sep_append_left]
  intro x hx; exact hs x (by simpa using hx)

theorem trimLeft_all_sep (s : Bytes) (hs : ∀ x ∈ s, isSep x = true) : trimLeft s = [] := by
  have := trimLeft_sep_append s [] hs
  simpa [trimLeft] using this

theorem trimLeft_append_of_ne_nil (l s : Bytes) (h : trimLeft l ≠ []) :
    trimLeft (l ++ s) = trimLeft l ++ s := by
  unfold trimLeft at *
  rw [List.dropWhile_append]
  simp [h]

/-- Leading and trailing separators (blanks, tabs, commas, `\r`, …) never change the
trimmed content. -/
theorem trim_sep_append (s1 l s2 : Bytes) (h1 : ∀ x ∈ s1, isSep x = true)
    (h2 : ∀ x ∈ s2, isSep x = true) : trim (s1 ++ l ++ s2) = trim l := by
  unfold trim
  rw [List.append_assoc, trimLeft_sep_append _ _ h1]
  by_cases hl : trimLeft l = []
  · have hall : ∀ x ∈ l, isSep x = true := by
      unfold trimLeft at hl
      intro x hx
      exact dropWhile_nil_all _ _ hl x hx
    have : trimLeft (l ++ s2) = [] :=
      trimLeft_all_sep _ (by intro x hx; rcases List.mem_append.mp hx with h | h; exact hall x h; exact h2 x h)
    rw [this, hl]
  · rw [trimLeft_append_of_ne_nil _ _ hl, trimRight_append_sep _ _ h2]

theorem trimLeft_idem (l : Bytes) : trimLeft (trimLeft l) = trimLeft l := by
  unfold trimLeft
  induction l with
  | nil => rfl
  | cons a l ih =>
    simp only [List.dropWhile_cons]
    split
    · exact ih
    · next h => simp [List.dropWhile_cons, h]

theorem trimRight_idem (l : Bytes) : trimRight (trimRight l) = trimRight l := by
  unfold trimRight
  rw [List.reverse_reverse]
  have := trimLeft_idem l.reverse
  unfold trimLeft at this
  rw [this]

/-- the left-trimmed text does not start with a separator. -/
theorem trimLeft_head (l : Bytes) : ∀ c r, trimLeft l = c :: r → isSep c = false := by
  intro c r h
  unfold trimLeft at h
  have := List.head_dropWhile_not isSep (l := l) (by rw [h]; simp)
  simpa [h] using this

theorem trimLeft_trimRight_comm_nonempty (l : Bytes) : trimLeft (trimRight (trimLeft l)) = trimRight (trimLeft l) := by
  generalize hl : trimLeft l = t
  cases t with
  | nil => simp [trimRight, trimLeft]
  | cons c r =>
    have hc := trimLeft_head l c r hl
    -- trimRight (c :: r) still starts with c, since c is not a separator
    have : ∃ r', trimRight (c :: r) = c :: r' := by
      unfold trimRight
      rw [List.reverse_cons]
      rw [List.dropWhile_append]
      split
      · simp [List.dropWhile_cons, hc]
      · next hne =>
        generalize List.dropWhile isSep r.reverse = u at *
        refine ⟨u.reverse, ?_⟩
        simp
    obtain ⟨r', hr'⟩ := this
    rw [hr']
    simp [trimLeft, List.dropWhile_cons, hc]

theorem trim_idem (l : Bytes) : trim (trim l) = trim l := by
  unfold trim
  rw [trimLeft_trimRight_comm_nonempty, trimRight_idem]

/-! ## keyword names -/

theorem makeDeckName_eq (l : Bytes) :
    makeDeckName l = (l.map upper).takeWhile (fun b => !isSep b) := by
  unfold makeDeckName
  rw [List.takeWhile_map]
  congr 1
  induction l with
  | nil => rfl
  | cons a l ih => simp only [List.takeWhile_cons, Function.comp, isSep_upper, ih]

/-- `make_deck_name` does not depend on letter case. -/
theorem makeDeckName_case (l l' : Bytes) (h : l.map upper = l'.map upper) :
    makeDeckName l = makeDeckName l' := by
  rw [makeDeckName_eq, makeDeckName_eq, h]

theorem makeDeckName_lower (l : Bytes) : makeDeckName (l.map lower) = makeDeckName l := by
  apply makeDeckName_case
  simp [List.map_map, Function.comp_def, upper_lower]

/-- text after the first separator never reaches the keyword name. -/
theorem makeDeckName_append (w : Bytes) (s : UInt8) (rest : Bytes)
    (hw : ∀ x ∈ w, isSep x = false) (hs : isSep s = true) :
    makeDeckName (w ++ s :: rest) = w.map upper := by
  unfold makeDeckName
  congr 1
  induction w with
  | nil => simp [List.takeWhile_cons, hs]
  | cons a w ih =>
    simp only [List.cons_append, List.takeWhile_cons, hw a (by simp)]
    simp only [Bool.not_false, ↓reduceIte, List.cons.injEq, true_and]
    exact ih (fun x hx => hw x (by simp [hx]))

/-! ## slashes -/

/-- `NoOpenSlash p`: the quote-aware scan of `p` reaches its end outside any quotation
without meeting a `/`. -/
def BalancedNoSlash (p : Bytes) : Prop := endState isSlashAt none p = some none

instance (p : Bytes) : Decidable (BalancedNoSlash p) := by unfold BalancedNoSlash; infer_instance

/-- Everything after the first slash outside quotes is ignored. -/
theorem delAfterFirstSlash_append (p x : Bytes) (hp : BalancedNoSlash p) :
    delAfterFirstSlash (p ++ 47 :: x) = p ++ [47] := by
  unfold delAfterFirstSlash
  rw [cutAt_append_of_endState local2_slash _ p none none hp]
  · simp [cutAt, isSlashAt]
  · intro c _ h
    simpa [isSlashAt] using h

theorem delAfterFirstSlash_idem (l : Bytes) : delAfterFirstSlash (delAfterFirstSlash l) = delAfterFirstSlash l := by
  unfold delAfterFirstSlash
  suffices h : ∀ (l : Bytes) (st : Option UInt8),
      cutAt isSlashAt 1 st (cutAt isSlashAt 1 st l) = cutAt isSlashAt 1 st l from h l none
  intro l
  induction l with
  | nil => intro st; cases st <;> simp [cutAt]
  | cons c r ih =>
    intro st
    cases st with
    | some q => simp only [cutAt]; rw [ih]
    | none =>
      by_cases hc : isSlashAt (c :: r) = true
      · have h1 : isSlashAt [c] = true := by simpa [isSlashAt] using hc
        simp [cutAt, hc, h1]
      · have hc' : isSlashAt (c :: r) = false := by simpa using hc
        have h1 : isSlashAt (c :: cutAt isSlashAt 1 (stepQ none c) r) = false := by
          simpa [isSlashAt] using hc'
        have e : cutAt isSlashAt 1 none (c :: r) = c :: cutAt isSlashAt 1 (stepQ none c) r := by
          simp [cutAt, hc']
        rw [e]
        have e2 : ∀ X, cutAt isSlashAt 1 none (c :: X) = c :: cutAt isSlashAt 1 (stepQ none c) X := by
          intro X
          have : isSlashAt (c :: X) = false := by simpa [isSlashAt] using hc'
          simp [cutAt, this]
        rw [e2, ih]

theorem upToLastSlash_none (x : Bytes) (hx : ∀ b ∈ x, b ≠ 47) : upToLastSlash x = none := by
  induction x with
  | nil => rfl
  | cons a x ih =>
    simp only [upToLastSlash, ih (fun b hb => hx b (by simp [hb]))]
    simp [hx a (by simp)]

theorem upToLastSlash_append (p x : Bytes) (hx : ∀ b ∈ x, b ≠ 47) :
    upToLastSlash (p ++ 47 :: x) = some (p ++ [47]) := by
  induction p with
  | nil => simp [upToLastSlash, upToLastSlash_none x hx]
  | cons a p ih => simp [upToLastSlash, ih]

/-- Raw-string keywords: everything after the *last* slash is ignored (as long as the
byte behind the view is not itself a slash — in the parser it is the line's `'\n'`). -/
theorem delAfterLastSlash_append (p x : Bytes) (next : UInt8) (hx : ∀ b ∈ x, b ≠ 47)
    (hn : next ≠ 47) : delAfterLastSlash (p ++ 47 :: x) next = p ++ [47] := by
  simp [delAfterLastSlash, hn, upToLastSlash_append p x hx]

/-! ## separators are neither quotes nor dashes: whitespace never changes the scan state -/

theorem sep_not_quote (b : UInt8) (h : isSep b = true) : isQuote b = false := by
  unfold isSep at h; unfold isQuote
  have key : ∀ n, n < 256 → sepCode (n % 128) = true → quoteCode (n % 128) = false := by decide +kernel
  exact key _ b.toNat_lt h

theorem sep_ne_dash (b : UInt8) (h : isSep b = true) : b ≠ 45 := by
  intro hb; subst hb; revert h; decide

theorem sep_ne_slash (b : UInt8) (h : isSep b = true) : b ≠ 47 := by
  intro hb; subst hb; revert h; decide

theorem quote_not_sep (q : UInt8) (h : isQuote q = true) : isSep q = false := by
  cases hs : isSep q with
  | false => rfl
  | true => rw [sep_not_quote q hs] at h; cases h

theorem stepQ_sep (st : Option UInt8) (b : UInt8) (h : isSep b = true)
    (hst : ∀ q, st = some q → isQuote q = true) : stepQ st b = st := by
  cases st with
  | none => simp [stepQ, sep_not_quote b h]
  | some q =>
    have : b ≠ q := by
      intro e; subst e
      have := hst b rfl
      rw [sep_not_quote b h] at this; cases this
    simp [stepQ, this]

/-- the open-quote byte recorded in a state is always a quote byte. -/
def StateOk (st : Option UInt8) : Prop := ∀ q, st = some q → isQuote q = true

theorem stateOk_none : StateOk none := by intro q h; cases h

theorem stateOk_stepQ (st : Option UInt8) (c : UInt8) (h : StateOk st) : StateOk (stepQ st c) := by
  cases st with
  | none =>
    by_cases hq : isQuote c = true
    · simp only [stepQ, hq, ↓reduceIte]; intro q hq'; cases hq'; exact hq
    · simp only [stepQ, hq]; exact stateOk_none
  | some q =>
    by_cases hq : c = q
    · simp only [stepQ, hq, ↓reduceIte]; exact stateOk_none
    · simp only [stepQ, hq, ↓reduceIte]; exact h

theorem endState_stateOk (isT : Bytes → Bool) :
    ∀ (l : Bytes) (st st' : Option UInt8), StateOk st → endState isT st l = some st' → StateOk st' := by
  intro l
  induction l with
  | nil => intro st st' h e; simp [endState] at e; subst e; exact h
  | cons c r ih =>
    intro st st' h e
    cases st with
    | some q => simp only [endState] at e; exact ih _ _ (stateOk_stepQ _ c h) e
    | none =>
      simp only [endState] at e
      split at e
      · cases e
      · exact ih _ _ (stateOk_stepQ _ c h) e

/-- a run of separators is passed unchanged and leaves the state alone. -/
theorem cutAt_comment_sep_prefix (s : Bytes) (hs : ∀ x ∈ s, isSep x = true) (l : Bytes)
    (st : Option UInt8) (hst : StateOk st) :
    cutAt isCommentAt 0 st (s ++ l) = s ++ cutAt isCommentAt 0 st l := by
  induction s with
  | nil => rfl
  | cons a s ih =>
    have ha := hs a (by simp)
    have hstep : stepQ st a = st := stepQ_sep st a ha hst
    have hnc : isCommentAt (a :: (s ++ l)) = false := by
      cases h : s ++ l with
      | nil => simp [isCommentAt]
      | cons d t => simp [isCommentAt, sep_ne_dash a ha]
    cases st with
    | none =>
      simp only [List.cons_append, cutAt, hnc, hstep]
      simp only [Bool.false_eq_true, ↓reduceIte, List.cons.injEq, true_and]
      exact ih (fun x hx => hs x (by simp [hx]))
    | some q =>
      simp only [List.cons_append, cutAt, hstep]
      simp only [List.cons.injEq, true_and]
      exact ih (fun x hx => hs x (by simp [hx]))

theorem endState_comment_total (l : Bytes) (st : Option UInt8) :
    endState isCommentAt st l = none ∨ ∃ st', endState isCommentAt st l = some st' := by
  cases h : endState isCommentAt st l with
  | none => exact Or.inl rfl
  | some st' => exact Or.inr ⟨st', rfl⟩

/-- all-separator text never contains a terminator. -/
theorem cutAt_comment_all_sep (s : Bytes) (hs : ∀ x ∈ s, isSep x = true) (st : Option UInt8)
    (hst : StateOk st) : cutAt isCommentAt 0 st s = s := by
  have := cutAt_comment_sep_prefix s hs [] st hst
  simp only [List.append_nil] at this
  rw [this]; cases st <;> simp [cutAt]

/-- **Whitespace at either end of a line is irrelevant** to the cleaned line, for every
line (also inside unbalanced quotes or comments). -/
theorem cleanLine_sep (s1 l s2 : Bytes) (h1 : ∀ x ∈ s1, isSep x = true)
    (h2 : ∀ x ∈ s2, isSep x = true) : cleanLine (s1 ++ l ++ s2) = cleanLine l := by
  unfold cleanLine stripComments
  rw [List.append_assoc, cutAt_comment_sep_prefix s1 h1 _ none stateOk_none]
  rcases endState_comment_total l none with hnone | ⟨st', hsome⟩
  · rw [cutAt_append_of_found local2_comment s2 l none hnone (by intros; simp)
        (by intro c hc; simp [isCommentAt] at hc)]
    have := trim_sep_append s1 (cutAt isCommentAt 0 none l) [] h1 (by simp)
    simpa using this
  · have hb : ∀ c, l.getLast? = some c → isCommentAt [c] = false → isCommentAt (c :: s2) = false := by
      intro c _ _
      cases s2 with
      | nil => simp [isCommentAt]
      | cons d t => simp [isCommentAt, sep_ne_dash d (h2 d (by simp))]
    rw [cutAt_append_of_endState local2_comment s2 l none st' hsome hb,
      cutAt_of_endState l none st' hsome,
      cutAt_comment_all_sep s2 h2 st' (endState_stateOk _ l none st' stateOk_none hsome)]
    have := trim_sep_append s1 l s2 h1 h2
    rw [List.append_assoc] at this
    exact this

theorem endState_append {isT : Bytes → Bool} (hloc : Local2 isT) (m : Bytes) :
    ∀ (l : Bytes) (st st' : Option UInt8), endState isT st l = some st' →
      (∀ c, l.getLast? = some c → isT [c] = false → isT (c :: m) = false) →
      endState isT st (l ++ m) = endState isT st' m := by
  intro l
  induction l with
  | nil => intro st st' h _; simp [endState] at h; subst h; simp
  | cons c r ih =>
    intro st st' h hb
    have hb' : ∀ c', r.getLast? = some c' → isT [c'] = false → isT (c' :: m) = false := by
      intro c' hc'
      apply hb
      cases r with
      | nil => simp at hc'
      | cons d r2 => simpa using hc'
    cases st with
    | some q =>
      simp only [endState] at h
      simp only [List.cons_append, endState]
      exact ih _ _ h hb'
    | none =>
      simp only [endState] at h
      split at h
      · cases h
      · next hT =>
        have hT' : isT (c :: (r ++ m)) = false := by
          cases r with
          | nil => exact hb c (by simp) (by simpa using hT)
          | cons d r2 => rw [List.cons_append, hloc c d (r2 ++ m) r2]; simpa using hT
        simp only [List.cons_append, endState, hT']
        simp only [Bool.false_eq_true, ↓reduceIte]
        exact ih _ _ h hb'

/-- `ClosedQuotes l`: at the end of `l` the scanner is not inside a quotation (it is
outside, or it has already met a comment). -/
def ClosedQuotes (l : Bytes) : Prop := ∀ q, endState isCommentAt none l ≠ some (some q)

instance (l : Bytes) : Decidable (ClosedQuotes l) := by
  unfold ClosedQuotes
  cases h : endState isCommentAt none l with
  | none => exact isTrue (by intro q; simp)
  | some st =>
    cases st with
    | none => exact isTrue (by intro q; simp)
    | some q => exact isFalse (by intro hh; exact hh q rfl)

/-- **Appending a comment** (`<separator>-- anything`) to a line whose quotes are closed
does not change the cleaned line. -/
theorem cleanLine_append_comment (l c : Bytes) (s : UInt8) (hs : isSep s = true)
    (hq : ClosedQuotes l) : cleanLine (l ++ s :: 45 :: 45 :: c) = cleanLine l := by
  rcases endState_comment_total l none with hnone | ⟨st', hsome⟩
  · unfold cleanLine; rw [stripComments_append_of_comment l _ hnone]
  · cases st' with
    | some q => exact absurd hsome (hq q)
    | none =>
      have hbal : BalancedNoComment (l ++ [s]) := by
        unfold BalancedNoComment
        rw [endState_append local2_comment [s] l none none hsome]
        · simp [endState, isCommentAt, stepQ, sep_not_quote s hs]
        · intro ch _ _; simp [isCommentAt]; intro _; exact sep_ne_dash s hs
      have hlast : (l ++ [s]).getLast? ≠ some 45 := by
        simp; exact sep_ne_dash s hs
      have e : l ++ s :: 45 :: 45 :: c = (l ++ [s]) ++ 45 :: 45 :: c := by simp
      unfold cleanLine
      rw [e, stripComments_append_comment _ c hbal hlast]
      have := cleanLine_sep [] l [s] (by simp) (by simpa using hs)
      simpa [cleanLine] using this

/-! ## lines -/

theorem splitLines_line (l rest : Bytes) (hl : ∀ b ∈ l, b ≠ 10) :
    splitLines (l ++ 10 :: rest) = l :: splitLines rest := by
  induction l with
  | nil => simp [splitLines]
  | cons c l ih =>
    have hc : c ≠ 10 := hl c (by simp)
    simp only [List.cons_append, splitLines, hc, ↓reduceIte, ih (fun b hb => hl b (by simp [hb]))]

/-- the cleaned lines, before they are joined again. -/
def cleanLines (input : Bytes) : List Bytes := (splitLines input).map cleanLine

theorem fastClean_eq (input : Bytes) :
    fastClean input = (cleanLines input).flatMap (· ++ [10]) := by
  unfold fastClean cleanLines
  rw [List.flatMap_map]

theorem fastClean_line (l rest : Bytes) (hl : ∀ b ∈ l, b ≠ 10) :
    fastClean (l ++ 10 :: rest) = cleanLine l ++ 10 :: fastClean rest := by
  unfold fastClean
  rw [splitLines_line l rest hl]
  simp

/-- Replacing one line by another with the same cleaned content (comment added or
removed, blanks/tabs at either end) does not change the cleaned text. -/
theorem fastClean_line_congr (l l' rest : Bytes) (hl : ∀ b ∈ l, b ≠ 10) (hl' : ∀ b ∈ l', b ≠ 10)
    (h : cleanLine l = cleanLine l') : fastClean (l ++ 10 :: rest) = fastClean (l' ++ 10 :: rest) := by
  rw [fastClean_line l rest hl, fastClean_line l' rest hl', h]

theorem splitLines_cons_nl (r : Bytes) : splitLines (10 :: r) = [] :: splitLines r := by
  simp [splitLines]

theorem splitLines_cons_ne (c : UInt8) (r : Bytes) (hc : c ≠ 10) :
    splitLines (c :: r) = match splitLines r with
      | [] => [[c]]
      | l :: ls => (c :: l) :: ls := by
  simp only [splitLines, hc, ↓reduceIte]
  cases splitLines r <;> rfl

theorem splitLines_ne_nil (c : UInt8) (r : Bytes) : splitLines (c :: r) ≠ [] := by
  by_cases hc : c = 10
  · subst hc; rw [splitLines_cons_nl]; simp
  · rw [splitLines_cons_ne c r hc]; split <;> simp

/-- the line structure of a text that ends in a newline is independent of what follows. -/
theorem splitLines_append_of_endsNL (a b : Bytes) (ha : a.getLast? = some 10) :
    splitLines (a ++ b) = splitLines a ++ splitLines b := by
  induction a with
  | nil => simp at ha
  | cons c a ih =>
    cases a with
    | nil =>
      have hc : c = 10 := by simpa using ha
      subst hc
      rw [List.cons_append, List.nil_append, splitLines_cons_nl, splitLines_cons_nl]
      simp [splitLines]
    | cons d a2 =>
      have ha' : (d :: a2).getLast? = some 10 := by simpa using ha
      have ih' := ih ha'
      by_cases hc : c = 10
      · subst hc
        rw [List.cons_append, splitLines_cons_nl, splitLines_cons_nl, ih']
        simp
      · rw [List.cons_append, splitLines_cons_ne c _ hc, splitLines_cons_ne c _ hc, ih']
        cases hsp : splitLines (d :: a2) with
        | nil => exact absurd hsp (splitLines_ne_nil d a2)
        | cons x xs => simp

theorem splitLines_append_line (a l rest : Bytes) (ha : a = [] ∨ a.getLast? = some 10)
    (hl : ∀ b ∈ l, b ≠ 10) :
    splitLines (a ++ l ++ 10 :: rest) = splitLines a ++ l :: splitLines rest := by
  rcases ha with ha | ha
  · subst ha; simp [splitLines, splitLines_line l rest hl]
  · rw [List.append_assoc, splitLines_append_of_endsNL a _ ha, splitLines_line l rest hl]

/-- the non-empty cleaned lines: what `tryParseKeyword` looks at (it skips empty lines
outside a TITLE). -/
def contentLines (input : Bytes) : List Bytes := (cleanLines input).filter (· ≠ [])

/-- **Blank lines, whitespace-only lines and comment-only lines** inserted at a line
boundary do not change the sequence of non-empty cleaned lines. -/
theorem contentLines_insert_blank (a s b : Bytes) (ha : a = [] ∨ a.getLast? = some 10)
    (hs : ∀ x ∈ s, x ≠ 10) (hblank : cleanLine s = []) :
    contentLines (a ++ s ++ 10 :: b) = contentLines (a ++ b) := by
  unfold contentLines cleanLines
  rw [splitLines_append_line a s b ha hs]
  have hab : splitLines (a ++ b) = splitLines a ++ splitLines b := by
    rcases ha with ha | ha
    · subst ha; simp [splitLines]
    · exact splitLines_append_of_endsNL a b ha
  rw [hab]
  simp [hblank]

end OpmVerif.Lex
