/-
  Lemmas about the unformatted codec model (`Model/EclBin.lean`).
  Property statements live in `Props/C07.lean`.
-/
import OpmVerif.Model.EclBin

namespace OpmVerif.Ecl
open ArrType

/-! ### 32-bit big-endian words -/

@[simp] theorem be32_length (n : Nat) : (be32 n).length = 4 := rfl

theorem rd32_be32 {n : Nat} (h : n < 4294967296) : rd32 (be32 n) = n := by
  simp only [be32, rd32, UInt8.toNat_ofNat']
  omega

theorem toI32_small {n : Nat} (h : n < 2147483648) : toI32 n = n := by
  simp [toI32, h]

/-! ### Stream reads -/

theorem readN_append (a r : Bytes) : readN a.length (a ++ r) = .ok (a, r) := by
  simp [readN]

theorem readN_append' {k : Nat} (a r : Bytes) (h : a.length = k) :
    readN k (a ++ r) = .ok (a, r) := by
  subst h; exact readN_append a r

theorem readElems_flatten (w : Nat) (es : List Bytes) (r : Bytes)
    (hw : ∀ e ∈ es, e.length = w) :
    readElems w es.length (es.flatten ++ r) = .ok (es, r) := by
  induction es with
  | nil => simp [readElems]
  | cons e es ih =>
    have he : e.length = w := hw e (by simp)
    have hes : ∀ x ∈ es, x.length = w := fun x hx => hw x (by simp [hx])
    simp only [List.length_cons, readElems, List.flatten_cons, List.append_assoc]
    rw [readN_append' e _ he]
    simp only []
    rw [ih hes]

/-! ### Valid element types: the facts about the generated constants the
codec relies on.  If `EclIOdata.hpp` changes so that one of these fails, the
proofs below stop checking. -/

/-- Types that the writer can produce (C0nn sizes as `setw(3)` can print). -/
def ValidTy : ArrType → Prop
  | c0nn n => 1 ≤ n ∧ n ≤ 999
  | _ => True

theorem elemSize_pos {t : ArrType} (hm : t ≠ mess) (hv : ValidTy t) : 1 ≤ elemSize t := by
  cases t <;> simp_all [elemSize, ValidTy, Gen.EclIO.sizeOfInte, Gen.EclIO.sizeOfReal,
    Gen.EclIO.sizeOfDoub, Gen.EclIO.sizeOfChar, Gen.EclIO.sizeOfLogi]

theorem maxBlock_eq {t : ArrType} (hm : t ≠ mess) (hv : ValidTy t) :
    maxBlock t = maxNum t * elemSize t := by
  cases t <;> simp_all [maxNum, maxBlock, elemSize, ValidTy, Gen.EclIO.sizeOfInte,
    Gen.EclIO.sizeOfReal, Gen.EclIO.sizeOfDoub, Gen.EclIO.sizeOfChar, Gen.EclIO.sizeOfLogi,
    Gen.EclIO.MaxBlockSizeInte, Gen.EclIO.MaxBlockSizeReal, Gen.EclIO.MaxBlockSizeDoub,
    Gen.EclIO.MaxBlockSizeChar, Gen.EclIO.MaxBlockSizeLogi]
  case c0nn n =>
    have : 105 * n / n = 105 := Nat.mul_div_cancel 105 (by omega)
    rw [this]

theorem maxNum_pos {t : ArrType} (hm : t ≠ mess) (hv : ValidTy t) : 1 ≤ maxNum t := by
  cases t <;> simp_all [maxNum, maxBlock, elemSize, ValidTy, Gen.EclIO.sizeOfInte,
    Gen.EclIO.sizeOfReal, Gen.EclIO.sizeOfDoub, Gen.EclIO.sizeOfChar, Gen.EclIO.sizeOfLogi,
    Gen.EclIO.MaxBlockSizeInte, Gen.EclIO.MaxBlockSizeReal, Gen.EclIO.MaxBlockSizeDoub,
    Gen.EclIO.MaxBlockSizeChar, Gen.EclIO.MaxBlockSizeLogi]
  case c0nn n =>
    have : 105 * n / n = 105 := Nat.mul_div_cancel 105 (by omega)
    omega

theorem maxBlock_lt {t : ArrType} (hv : ValidTy t) : maxBlock t < 2147483648 := by
  cases t <;> simp_all [maxBlock, ValidTy, Gen.EclIO.sizeOfChar,
    Gen.EclIO.MaxBlockSizeInte, Gen.EclIO.MaxBlockSizeReal, Gen.EclIO.MaxBlockSizeDoub,
    Gen.EclIO.MaxBlockSizeChar, Gen.EclIO.MaxBlockSizeLogi]
  omega

/-- The published record limits coincide with the writer's block arithmetic. -/
theorem maxNum_eq_spec {t : ArrType} (hm : t ≠ mess) (hv : ValidTy t) :
    maxNum t = specPerRecord t := by
  cases t <;> simp_all [maxNum, maxBlock, elemSize, specPerRecord, ValidTy,
    Gen.EclIO.sizeOfInte,
    Gen.EclIO.sizeOfReal, Gen.EclIO.sizeOfDoub, Gen.EclIO.sizeOfChar, Gen.EclIO.sizeOfLogi,
    Gen.EclIO.MaxBlockSizeInte, Gen.EclIO.MaxBlockSizeReal, Gen.EclIO.MaxBlockSizeDoub,
    Gen.EclIO.MaxBlockSizeChar, Gen.EclIO.MaxBlockSizeLogi]
  case c0nn n => exact Nat.mul_div_cancel 105 (by omega)


/-! ### Block loop: reader ∘ writer = id -/

theorem tdiv_mul_self (num w : Nat) (hw : 1 ≤ w) :
    Int.tdiv ((num * w : Nat) : Int) (w : Int) = (num : Int) := by
  rw [Int.tdiv_eq_ediv_of_nonneg (by omega)]
  have : ((num * w : Nat) : Int) = (num : Int) * (w : Int) := by simp
  rw [this, Int.mul_ediv_cancel _ (by omega)]



/-! ### Block loop: reader ∘ writer = id -/

theorem blockNum (w mx len : Nat) (hw : 1 ≤ w) :
    (if len * w > mx * w then mx * w / w else len * w / w) = min len mx := by
  rw [Nat.mul_div_cancel _ (by omega : 0 < w), Nat.mul_div_cancel _ (by omega : 0 < w)]
  by_cases h : len * w > mx * w
  · have : mx < len := Nat.lt_of_mul_lt_mul_right h
    simp [h]; omega
  · have : len ≤ mx := by
      apply Nat.le_of_mul_le_mul_right _ (by omega : 0 < w)
      omega
    simp [h]; omega

theorem readBlocks_encodeBlocks (w mx : Nat) (hw : 1 ≤ w) (hmx : 1 ≤ mx)
    (hlt : mx * w < 2147483648) :
    ∀ (fe fr : Nat) (es : List Bytes) (r : Bytes),
      (∀ e ∈ es, e.length = w) → es.length < fe → es.length < fr →
      readBlocks w mx fr (es.length : Int) (encodeBlocks w (mx * w) fe es ++ r) = .ok (es, r) := by
  intro fe
  induction fe with
  | zero => intro fr es r _ h; omega
  | succ fe ih =>
    intro fr es r hes hfe hfr
    obtain ⟨fr, rfl⟩ : ∃ k, fr = k + 1 := ⟨fr - 1, by omega⟩
    by_cases hnil : es.length = 0
    · have : es = [] := List.eq_nil_of_length_eq_zero hnil
      subst this
      simp [encodeBlocks, readBlocks]
    · have hlen : 1 ≤ es.length := by omega
      have hrest : es.length * w ≠ 0 := by
        have : 1 ≤ es.length * w := Nat.mul_le_mul hlen hw
        omega
      obtain ⟨num, hnum⟩ : ∃ num, num = min es.length mx := ⟨_, rfl⟩
      have hnum1 : 1 ≤ num := by omega
      have hnumle : num ≤ es.length := by omega
      have hnummx : num ≤ mx := by omega
      have hnw : num * w < 2147483648 := by
        have : num * w ≤ mx * w := Nat.mul_le_mul_right w hnummx
        omega
      have htake : (es.take num).length = num := by simp; omega
      have hdrop : (es.drop num).length = es.length - num := by simp
      have htw : ∀ e ∈ es.take num, e.length = w := fun e he => hes e (List.mem_of_mem_take he)
      have hdw : ∀ e ∈ es.drop num, e.length = w := fun e he => hes e (List.mem_of_mem_drop he)
      have ihr := ih fr (es.drop num) r hdw (by omega) (by omega)
      rw [hdrop] at ihr
      have hpos : ((es.length : Nat) : Int) > 0 := by omega
      unfold encodeBlocks readBlocks
      simp only [hrest, if_false, hpos, if_true, List.append_assoc, blockNum w mx es.length hw, ← hnum]
      rw [readN_append' (be32 _) _ (be32_length _)]
      simp only []
      rw [rd32_be32 (by show num * w < 4294967296; omega), toI32_small hnw, tdiv_mul_self num w hw]
      have hc1 : ¬ ((num : Int) > (mx : Int) ∨ (num : Int) < 0) := by omega
      simp only [hc1, if_false, Int.toNat_natCast]
      have := readElems_flatten w (es.take num) (be32 (num * w) ++ (encodeBlocks w (mx * w) fe (es.drop num) ++ r)) htw
      rw [htake] at this
      rw [this]
      simp only []
      have hc2 : ¬ (((num : Int) < (mx : Int) ∧ (es.length : Int) - (num : Int) ≠ 0) ∨
          ((num : Int) = (mx : Int) ∧ (es.length : Int) - (num : Int) < 0)) := by omega
      simp only [hc2, if_false]
      rw [readN_append' (be32 _) _ (be32_length _)]
      simp only [rd32_be32 (show num * w < 4294967296 by omega), toI32_small hnw, ne_eq,
        not_true_eq_false, if_false]
      have hcast : ((es.length : Int) - (num : Int)) = ((es.length - num : Nat) : Int) := by omega
      rw [hcast, ihr]
      simp only [List.take_append_drop]

/-! ### Headers -/

theorem parseTag_c0nn_fin : ∀ n : Fin 1000, 1 ≤ n.val → parseTag (tag (c0nn n.val)) = .ok (c0nn n.val) := by
  decide +kernel

theorem parseTag_tag {t : ArrType} (hv : ValidTy t) : parseTag (tag t) = .ok t := by
  cases t with
  | c0nn n =>
    obtain ⟨h1, h2⟩ := hv
    exact parseTag_c0nn_fin ⟨n, by omega⟩ h1
  | _ => decide

theorem tag_length (t : ArrType) : (tag t).length = 4 := by cases t <;> rfl

theorem tag_ne_x231_fin : ∀ n : Fin 1000, tag (c0nn n.val) ≠ tagX231 := by decide +kernel

theorem tag_ne_x231 {t : ArrType} (hv : ValidTy t) : tag t ≠ tagX231 := by
  cases t with
  | c0nn n => exact tag_ne_x231_fin ⟨n, by have := hv.2; omega⟩
  | _ => decide

theorem readRawHeader_enc (name tg r : Bytes) (n : Nat) (hn : name.length = 8) (ht : tg.length = 4)
    (hlt : n < 4294967296) :
    readRawHeader (be32 16 ++ name ++ be32 n ++ tg ++ be32 16 ++ r) = .ok ((name, n, tg), r) := by
  unfold readRawHeader
  simp only [List.append_assoc]
  rw [readN_append' (be32 16) _ (be32_length _)]
  simp only [rd32_be32 (show 16 < 4294967296 by omega), ne_eq, not_true_eq_false, if_false]
  rw [readN_append' name _ hn]
  simp only []
  rw [readN_append' (be32 n) _ (be32_length _)]
  simp only []
  rw [readN_append' tg _ ht]
  simp only []
  rw [readN_append' (be32 16) _ (be32_length _)]
  simp only [rd32_be32 (show 16 < 4294967296 by omega), rd32_be32 hlt, not_true_eq_false, if_false]

theorem readHeader_encodeHeader (name r : Bytes) (n : Nat) (t : ArrType) (hn : name.length = 8)
    (hv : ValidTy t) (hlt : n < 2147483648) :
    readHeader (encodeHeader name n t ++ r) = .ok ({ name := name, num := n, ty := t }, r) := by
  unfold readHeader encodeHeader
  rw [readRawHeader_enc name (tag t) r n hn (tag_length t) (by omega)]
  simp only [tag_ne_x231 hv, if_false, parseTag_tag hv, toI32_small hlt]

/-! ### Size arithmetic -/

/-- Closed form of the number of bytes the block loop writes. -/
def blocksSize (w mx L : Nat) : Nat :=
  (L / mx) * (mx * w + 8) + (if L % mx > 0 then (L % mx) * w + 8 else 0)

theorem length_flatten_of_all {w : Nat} (es : List Bytes) (h : ∀ e ∈ es, e.length = w) :
    es.flatten.length = es.length * w := by
  induction es with
  | nil => simp
  | cons e es ih =>
    have he : e.length = w := h e (by simp)
    have := ih (fun x hx => h x (by simp [hx]))
    simp only [List.flatten_cons, List.length_append, List.length_cons, he, this]
    rw [Nat.add_mul]; omega

theorem length_encodeBlocks (w mx : Nat) (hw : 1 ≤ w) (hmx : 1 ≤ mx) :
    ∀ (fe : Nat) (es : List Bytes), (∀ e ∈ es, e.length = w) → es.length < fe →
      (encodeBlocks w (mx * w) fe es).length = blocksSize w mx es.length := by
  intro fe
  induction fe with
  | zero => intro es _ h; omega
  | succ fe ih =>
    intro es hes hfe
    by_cases hnil : es.length = 0
    · have : es = [] := List.eq_nil_of_length_eq_zero hnil
      subst this
      simp [encodeBlocks, blocksSize]
    · have hlen : 1 ≤ es.length := by omega
      have hrest : es.length * w ≠ 0 := by
        have : 1 ≤ es.length * w := Nat.mul_le_mul hlen hw
        omega
      obtain ⟨num, hnum⟩ : ∃ num, num = min es.length mx := ⟨_, rfl⟩
      have htake : (es.take num).length = num := by simp; omega
      have hdrop : (es.drop num).length = es.length - num := by simp
      have htw : ∀ e ∈ es.take num, e.length = w := fun e he => hes e (List.mem_of_mem_take he)
      have hdw : ∀ e ∈ es.drop num, e.length = w := fun e he => hes e (List.mem_of_mem_drop he)
      have ihr := ih (es.drop num) hdw (by omega)
      rw [hdrop] at ihr
      unfold encodeBlocks
      simp only [hrest, if_false, blockNum w mx es.length hw, ← hnum, List.length_append,
        be32_length, ihr, length_flatten_of_all _ htw, htake]
      unfold blocksSize
      by_cases hgt : es.length > mx
      · have hn : num = mx := by omega
        rw [hn]
        have h1 : es.length / mx = (es.length - mx) / mx + 1 := Nat.div_eq_sub_div (by omega) (by omega)
        have h2 : es.length % mx = (es.length - mx) % mx := Nat.mod_eq_sub_mod (by omega)
        rw [h1, h2, Nat.add_mul]
        omega
      · have hn : num = es.length := by omega
        rw [hn]
        by_cases heq : es.length = mx
        · rw [heq]; simp [Nat.div_self (by omega : 0 < mx)]; omega
        · have hlt : es.length < mx := by omega
          have hpos : 0 < es.length := by omega
          simp [Nat.div_eq_of_lt hlt, Nat.mod_eq_of_lt hlt, hpos]
          omega

theorem sizeOnDiskBinary_nonmess {t : ArrType} (hm : t ≠ mess) (num : Int) :
    sizeOnDiskBinary num t =
      if num > 0 then
        some (num.toNat / (maxBlock t / elemSize t) * (maxBlock t + 2 * Gen.EclIO.sizeOfInte) +
          (if num.toNat - num.toNat / (maxBlock t / elemSize t) * (maxBlock t / elemSize t) > 0 then
            (num.toNat - num.toNat / (maxBlock t / elemSize t) * (maxBlock t / elemSize t)) * elemSize t
              + 2 * Gen.EclIO.sizeOfInte else 0))
      else some 0 := by
  cases t <;> first | rfl | exact absurd rfl hm

theorem encodeData_length {t : ArrType} (hm : t ≠ mess) (hv : ValidTy t) (es : List Bytes)
    (hes : ∀ e ∈ es, e.length = elemSize t) :
    (encodeData t es).length = blocksSize (elemSize t) (maxNum t) es.length := by
  unfold encodeData
  rw [maxBlock_eq hm hv]
  exact length_encodeBlocks _ _ (elemSize_pos hm hv) (maxNum_pos hm hv) _ es hes (by omega)

/-- The seek arithmetic of `EclFile::load` agrees with what the writer emits. -/
theorem sizeOnDisk_eq {t : ArrType} (hm : t ≠ mess) (hv : ValidTy t) (es : List Bytes)
    (hes : ∀ e ∈ es, e.length = elemSize t) :
    sizeOnDiskBinary (es.length : Int) t = some (encodeData t es).length := by
  rw [encodeData_length hm hv es hes, sizeOnDiskBinary_nonmess hm]
  have hmx := maxNum_pos hm hv
  have hmb := maxBlock_eq hm hv
  by_cases h0 : es.length = 0
  · simp [h0, blocksSize]
  · have hp : ((es.length : Nat) : Int) > 0 := by omega
    simp only [hp, if_true, Int.toNat_natCast]
    show some _ = some _
    congr 1
    unfold blocksSize
    have hmod : es.length - es.length / maxNum t * maxNum t = es.length % maxNum t := by
      have := Nat.div_add_mod es.length (maxNum t)
      rw [Nat.mul_comm] at this
      omega
    show es.length / maxNum t * (maxBlock t + 2 * Gen.EclIO.sizeOfInte) +
      (if es.length - es.length / maxNum t * maxNum t > 0 then
        (es.length - es.length / maxNum t * maxNum t) * elemSize t + 2 * Gen.EclIO.sizeOfInte else 0) = _
    rw [hmod, hmb]
    simp [Gen.EclIO.sizeOfInte]

/-- Well-formed arrays: what `EclOutput::write` can be asked to write. -/
def Arr.WFcore (a : Arr) : Prop :=
  a.name.length = 8 ∧ ValidTy a.ty ∧ (∀ e ∈ a.elems, e.length = elemSize a.ty) ∧
  a.elems.length < 2147483648 ∧ (a.ty = mess → a.elems = [])

/-- ... and LOGI elements are one of the patterns the writer produces. -/
def Arr.WF (a : Arr) : Prop := a.WFcore ∧ elemsOk a.ty a.elems = true

theorem encodeArr_eq (a : Arr) :
    encodeArr a = encodeHeader a.name a.elems.length a.ty ++
      (if a.ty = mess then [] else encodeData a.ty a.elems) := by
  unfold encodeArr
  cases h : a.ty <;> simp

theorem encodeHeader_length (name : Bytes) (n : Nat) (t : ArrType) (hn : name.length = 8) :
    (encodeHeader name n t).length = 24 := by
  simp [encodeHeader, hn, tag_length]

theorem readData_enc (a : Arr) (h : a.WFcore) (r : Bytes) :
    readData a.ty (a.elems.length : Int)
      ((if a.ty = mess then [] else encodeData a.ty a.elems) ++ r) = .ok (a.elems, r) := by
  obtain ⟨_, hv, hes, _, hmess⟩ := h
  by_cases hm : a.ty = mess
  · simp [hm, readData, hmess hm]
  · simp only [hm, if_false]
    have : readData a.ty (a.elems.length : Int) (encodeData a.ty a.elems ++ r) =
        readBlocks (elemSize a.ty) (maxNum a.ty) ((a.elems.length : Int).toNat + 1) a.elems.length
          (encodeData a.ty a.elems ++ r) := by
      have hneg : ¬ ((a.elems.length : Int) < 0) := by omega
      unfold readData
      cases h : a.ty <;> first | exact absurd h hm | simp only [hneg, if_false]
    rw [this]
    unfold encodeData
    rw [maxBlock_eq hm hv]
    have hlt : maxNum a.ty * elemSize a.ty < 2147483648 := by
      rw [← maxBlock_eq hm hv]; exact maxBlock_lt hv
    exact readBlocks_encodeBlocks _ _ (elemSize_pos hm hv) (maxNum_pos hm hv) hlt _ _ _ r hes
      (by omega) (by simp)

/-! ### Index and whole file -/

/-- The index the loader must compute for a file made of `as` after a prefix
of `pos` bytes. -/
def expectedIndex : Nat → List Arr → List Entry
  | _, [] => []
  | pos, a :: as =>
    { hdr := { name := a.name, num := a.elems.length, ty := a.ty }, pos := pos + 24 } ::
      expectedIndex (pos + (encodeArr a).length) as

theorem sizeOnDisk_arr (a : Arr) (h : a.WFcore) :
    sizeOnDiskBinary (a.elems.length : Int) a.ty =
      some (if a.ty = mess then [] else encodeData a.ty a.elems).length := by
  obtain ⟨_, hv, hes, _, hmess⟩ := h
  by_cases hm : a.ty = mess
  · simp [hm, hmess hm, sizeOnDiskBinary]
  · simp only [hm, if_false]
    exact sizeOnDisk_eq hm hv _ hes

theorem indexFile_encodeFile :
    ∀ (as : List Arr) (pre : Bytes) (fuel : Nat), (∀ a ∈ as, a.WF) → as.length < fuel →
      indexFile (pre ++ encodeFile as) fuel pre.length = .ok (expectedIndex pre.length as) := by
  intro as
  induction as with
  | nil =>
    intro pre fuel _ hf
    obtain ⟨fuel, rfl⟩ : ∃ k, fuel = k + 1 := ⟨fuel - 1, by omega⟩
    simp [indexFile, encodeFile, expectedIndex]
  | cons a as ih =>
    intro pre fuel hwf hf
    obtain ⟨fuel, rfl⟩ : ∃ k, fuel = k + 1 := ⟨fuel - 1, by simp at hf; omega⟩
    have ha : a.WF := hwf a (by simp)
    have has : ∀ x ∈ as, x.WF := fun x hx => hwf x (by simp [hx])
    obtain ⟨⟨hn, hv, hes, hlt, hmess⟩, _⟩ := ha
    have hfile : encodeFile (a :: as) = encodeArr a ++ encodeFile as := by
      simp [encodeFile]
    unfold indexFile
    simp only [hfile, List.drop_left']
    have hdrop : List.drop pre.length (pre ++ (encodeArr a ++ encodeFile as)) =
        encodeArr a ++ encodeFile as := by simp
    rw [encodeArr_eq]
    simp only [List.append_assoc]
    have hlen4 : ¬ (encodeHeader a.name a.elems.length a.ty ++
        ((if a.ty = mess then [] else encodeData a.ty a.elems) ++ encodeFile as)).length < 4 := by
      simp [encodeHeader_length _ _ _ hn]; omega
    rw [if_neg hlen4]
    rw [readHeader_encodeHeader a.name _ _ a.ty hn hv hlt]
    simp only [sizeOnDisk_arr a ⟨hn, hv, hes, hlt, hmess⟩]
    -- position bookkeeping
    have hdpos : (pre ++ (encodeHeader a.name a.elems.length a.ty ++
        ((if a.ty = mess then [] else encodeData a.ty a.elems) ++ encodeFile as))).length -
        ((if a.ty = mess then [] else encodeData a.ty a.elems) ++ encodeFile as).length =
        pre.length + 24 := by
      simp [encodeHeader_length _ _ _ hn]; omega
    rw [hdpos]
    have hskip : (pre.length + 24 + if ((a.elems.length : Nat) : Int) > 0 then
        (if a.ty = mess then [] else encodeData a.ty a.elems).length else 0) =
        (pre ++ encodeArr a).length := by
      rw [encodeArr_eq]
      simp only [List.length_append, encodeHeader_length _ _ _ hn]
      by_cases h0 : a.elems.length = 0
      · have : a.elems = [] := List.eq_nil_of_length_eq_zero h0
        simp [this, encodeData, encodeBlocks]
      · have h0' : 0 < a.elems.length := by omega
        simp [h0']; omega
    rw [hskip]
    have hre : pre ++ (encodeHeader a.name a.elems.length a.ty ++
        ((if a.ty = mess then [] else encodeData a.ty a.elems) ++ encodeFile as)) =
        (pre ++ encodeArr a) ++ encodeFile as := by
      rw [encodeArr_eq]; simp
    rw [hre, ih (pre ++ encodeArr a) fuel has (by simp at hf; omega)]
    simp [expectedIndex]

theorem loadAll_expectedIndex :
    ∀ (as : List Arr) (pre post : Bytes), (∀ a ∈ as, a.WF) →
      loadAll (pre ++ encodeFile as ++ post) (expectedIndex pre.length as) = .ok as := by
  intro as
  induction as with
  | nil => intro pre post _; simp [expectedIndex, loadAll]
  | cons a as ih =>
    intro pre post hwf
    have ha : a.WF := hwf a (by simp)
    have has : ∀ x ∈ as, x.WF := fun x hx => hwf x (by simp [hx])
    have hn := ha.1.1
    have hfile : encodeFile (a :: as) = encodeArr a ++ encodeFile as := by simp [encodeFile]
    simp only [expectedIndex, loadAll, loadEntry]
    have hdrop : List.drop (pre.length + 24) (pre ++ encodeFile (a :: as) ++ post) =
        (if a.ty = mess then [] else encodeData a.ty a.elems) ++ (encodeFile as ++ post) := by
      rw [hfile, encodeArr_eq]
      have : pre ++ (encodeHeader a.name a.elems.length a.ty ++
          (if a.ty = mess then [] else encodeData a.ty a.elems) ++ encodeFile as) ++ post =
          (pre ++ encodeHeader a.name a.elems.length a.ty) ++
          ((if a.ty = mess then [] else encodeData a.ty a.elems) ++ (encodeFile as ++ post)) := by simp
      rw [this]
      exact List.drop_left' (by simp [encodeHeader_length _ _ _ hn])
    rw [hdrop, readData_enc a ha.1]
    simp only [ha.2, if_true]
    have hre : pre ++ encodeFile (a :: as) ++ post = (pre ++ encodeArr a) ++ encodeFile as ++ post := by
      rw [hfile]; simp
    have hl : pre.length + (encodeArr a).length = (pre ++ encodeArr a).length := by simp
    rw [hre, hl, ih (pre ++ encodeArr a) post has]

/-- Reading back a file written by the model writer returns exactly the arrays
written: names, types, lengths and every element byte. -/
theorem decodeFile_encodeFile (as : List Arr) (hwf : ∀ a ∈ as, a.WF) :
    decodeFile (encodeFile as) = .ok as := by
  unfold decodeFile
  have hidx := indexFile_encodeFile as [] ((encodeFile as).length + 1) hwf (by
    have : as.length ≤ (encodeFile as).length := by
      clear hwf
      induction as with
      | nil => simp
      | cons a as ih =>
        have : 1 ≤ (encodeArr a).length := by
          rw [encodeArr_eq]; simp [encodeHeader]; omega
        simp [encodeFile] at ih ⊢; omega
    omega)
  simp only [List.nil_append, List.length_nil] at hidx
  rw [hidx]
  have := loadAll_expectedIndex as [] [] hwf
  simpa using this

/-! ### Layout -/

theorem encodeBlocks_eq_chunks (w mx : Nat) (hw : 1 ≤ w) (hmx : 1 ≤ mx) :
    ∀ (fe : Nat) (es : List Bytes), (∀ e ∈ es, e.length = w) → es.length < fe →
      encodeBlocks w (mx * w) fe es =
        ((chunks mx fe es).map (fun c => fortranRecord c.flatten)).flatten := by
  intro fe
  induction fe with
  | zero => intro es _ h; omega
  | succ fe ih =>
    intro es hes hfe
    by_cases hnil : es.length = 0
    · have : es = [] := List.eq_nil_of_length_eq_zero hnil
      subst this
      simp [encodeBlocks, chunks]
    · have hne : es ≠ [] := by intro h; simp [h] at hnil
      have hlen : 1 ≤ es.length := by omega
      have hrest : es.length * w ≠ 0 := by
        have : 1 ≤ es.length * w := Nat.mul_le_mul hlen hw
        omega
      have htk : es.take (min es.length mx) = es.take mx := by
        rw [List.take_eq_take_iff]; omega
      have hdr : es.drop (min es.length mx) = es.drop mx := by
        by_cases h : es.length ≤ mx
        · rw [Nat.min_eq_left h, List.drop_of_length_le (Nat.le_refl _), List.drop_of_length_le h]
        · rw [Nat.min_eq_right (by omega)]
      have htw : ∀ e ∈ es.take mx, e.length = w := fun e he => hes e (List.mem_of_mem_take he)
      have hdw : ∀ e ∈ es.drop mx, e.length = w := fun e he => hes e (List.mem_of_mem_drop he)
      have ihr := ih (es.drop mx) hdw (by simp; omega)
      unfold encodeBlocks chunks
      simp only [hrest, if_false, hne, blockNum w mx es.length hw, htk, hdr, ihr, List.map_cons,
        List.flatten_cons, fortranRecord, length_flatten_of_all _ htw, List.append_assoc]
      have : (es.take mx).length = min es.length mx := by simp; omega
      rw [this]

theorem encodeArr_eq_spec (a : Arr) (h : a.WF) : encodeArr a = specLayout a (specPerRecord a.ty) := by
  obtain ⟨⟨hn, hv, hes, _, hmess⟩, _⟩ := h
  rw [encodeArr_eq]
  unfold specLayout
  have hh : encodeHeader a.name a.elems.length a.ty =
      fortranRecord (a.name ++ be32 a.elems.length ++ tag a.ty) := by
    simp [encodeHeader, fortranRecord, hn, tag_length]
  rw [hh]
  congr 1
  by_cases hm : a.ty = mess
  · simp [hm, hmess hm, chunks]
  · simp only [hm, if_false]
    unfold encodeData
    rw [maxBlock_eq hm hv, ← maxNum_eq_spec hm hv]
    exact encodeBlocks_eq_chunks _ _ (elemSize_pos hm hv) (maxNum_pos hm hv) _ _ hes (by omega)

end OpmVerif.Ecl
