/-
  C12 — the implementation loop, cell by cell (each listed cell gets exactly one kernel application,
  no other cell is written), and what that means for RE-ENTERING an array with a data keyword whose
  entries are defaulted (`n*`): initialised cells keep value and status, uninitialised ones take the
  keyword default, cells outside the box are not touched.
-/
import OpmVerif.Proofs.FieldPropsIndep

set_option linter.unusedSectionVars false

namespace OpmVerif.FieldProps

section Reentry
variable {α : Type} [Scalar α]

theorem implApply_eq (K : Kernel α) (L : List Idx) (src tgt y : Arr α) (h : implApply K L src tgt = some y) :
    y = L.foldl (fun t e => t.set e.a (K.upd e.d (cellAt src e.a) (cellAt t e.a))) tgt := by
  unfold implApply at h
  split at h
  · cases h
  · exact (Option.some.inj h).symm

/-- the implementation loop never writes a cell that is not in its index list -/
theorem implApply_outside (K : Kernel α) (L : List Idx) (src tgt y : Arr α) (h : implApply K L src tgt = some y)
    (a : Nat) (ha : ∀ e ∈ L, e.a ≠ a) : cellAt y a = cellAt tgt a := by
  rw [implApply_eq K L src tgt y h]
  have key := foldl_set_get_not_mem (fun e c => K.upd e.d (cellAt src e.a) c) L tgt a ha
  generalize L.foldl (fun t e => t.set e.a (K.upd e.d (cellAt src e.a) (cellAt t e.a))) tgt = Y at key
  simp only [cellAt, List.getD_eq_getElem?_getD, key]

/-- … and applies the kernel exactly once to every listed cell (no active index twice) -/
theorem implApply_inside (K : Kernel α) (L : List Idx) (hnd : (L.map (·.a)).Nodup) (src tgt y : Arr α)
    (h : implApply K L src tgt = some y) (e : Idx) (he : e ∈ L) (hl : e.a < tgt.length) :
    cellAt y e.a = K.upd e.d (cellAt src e.a) (cellAt tgt e.a) := by
  rw [implApply_eq K L src tgt y h]
  have key := foldl_set_get_mem (fun e c => K.upd e.d (cellAt src e.a) c) L tgt hnd e he
  generalize L.foldl (fun t e => t.set e.a (K.upd e.d (cellAt src e.a) (cellAt t e.a))) tgt = Y at key
  rw [List.getElem?_eq_getElem hl, Option.map_some] at key
  have c1 : cellAt tgt e.a = tgt[e.a] := by simp [cellAt, List.getD_eq_getElem?_getD, List.getElem?_eq_getElem hl]
  have c2 : cellAt Y e.a = (Y[e.a]?).getD blank := by simp [cellAt, List.getD_eq_getElem?_getD]
  rw [c1, c2, key]
  rfl

theorem cellAt_st_ne_deck (deck : Arr α) (hd : ∀ c ∈ deck, c.st ≠ .deckValue) (d : Nat) :
    (cellAt deck d).st ≠ .deckValue := by
  simp only [cellAt, List.getD_eq_getElem?_getD]
  cases h : deck[d]? with
  | none => simp [blank]
  | some c => exact hd c (List.mem_of_getElem? h)

/-- a defaulted deck entry never changes an initialised cell -/
theorem assign_default_keeps (deck : Arr α) (d : Nat) (s t : Cell α) (hd : (cellAt deck d).st ≠ .deckValue)
    (ht : t.st ≠ .uninit) : (assignKernel deck).upd d s t = t := by
  simp only [assignKernel]
  split
  · rw [if_neg (fun h => h.elim hd ht)]
  · rfl

/-- **re-entering an array with an all-defaulted data keyword** (any box, any ACTNUM): every cell that
was initialised keeps value and status; the others take the deck entry if it carries a keyword default -/
theorem reentry_defaults (deck : Arr α) (hd : ∀ c ∈ deck, c.st ≠ .deckValue) (L : List Idx)
    (hnd : (L.map (·.a)).Nodup) (tgt y : Arr α) (hL : ∀ e ∈ L, e.a < tgt.length)
    (h : implApply (assignKernel deck) L tgt tgt = some y) :
    (∀ a, (cellAt tgt a).st ≠ .uninit → cellAt y a = cellAt tgt a) ∧
    (∀ e ∈ L, (cellAt tgt e.a).st = .uninit → (cellAt deck e.d).st = .validDefault → cellAt y e.a = cellAt deck e.d) := by
  constructor
  · intro a ht
    by_cases hm : ∃ e ∈ L, e.a = a
    · obtain ⟨e, he, rfl⟩ := hm
      rw [implApply_inside _ L hnd tgt tgt y h e he (hL e he)]
      exact assign_default_keeps deck e.d _ _ (cellAt_st_ne_deck deck hd e.d) ht
    · exact implApply_outside _ L tgt tgt y h a (fun e he hea => hm ⟨e, he, hea⟩)
  · intro e he hu hv
    rw [implApply_inside _ L hnd tgt tgt y h e he (hL e he)]
    simp [assignKernel, hv, hu, Status.hasValue]

end Reentry

end OpmVerif.FieldProps
