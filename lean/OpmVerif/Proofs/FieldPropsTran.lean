/-
  C12, transmissibility calculators: lemmas about `Model/FieldPropsTran.lean`.
-/
import OpmVerif.Model.FieldPropsTran

namespace OpmVerif.FieldProps.Tran
open OpmVerif.FieldProps

section
variable {α : Type} [Scalar α]

theorem applyTran_nil (x : List α) : applyTran ([] : List (Action α)) x = x := rfl

theorem applyTran_append (a b : List (Action α)) (x : List α) :
    applyTran (a ++ b) x = applyTran b (applyTran a x) := by
  simp [applyTran, List.foldl_append]

theorem calcOf_append (a b : Rec α) (d : Nat) : calcOf (a ++ b) d = calcOf a d ++ calcOf b d := by
  simp [calcOf, List.filter_append]

theorem calcOf_nil (d : Nat) : calcOf ([] : Rec α) d = [] := rfl

theorem zipAction_nil (op : ScalarOp) (x : List α) : zipAction op ([] : Arr α) x = x := by
  cases x <;> rfl

theorem zipAction_cons_nil (op : ScalarOp) (c : Cell α) (cs : Arr α) : zipAction op (c :: cs) ([] : List α) = [] := rfl

theorem zipAction_cons_cons (op : ScalarOp) (c : Cell α) (cs : Arr α) (d : α) (ds : List α) :
    zipAction op (c :: cs) (d :: ds) = cellAction op c d :: zipAction op cs ds := rfl

theorem zipAction_length (op : ScalarOp) (f : Arr α) (x : List α) : (zipAction op f x).length = x.length := by
  induction f generalizing x with
  | nil => rw [zipAction_nil]
  | cons c cs ih =>
    cases x with
    | nil => rfl
    | cons d ds => simp [zipAction_cons_cons, ih]

/-- what one action does to the value `v` of cell `i` -/
def cellStep (a : Action α) (i : Nat) (v : α) : α :=
  match a.field[i]? with
  | some c => cellAction a.op c v
  | none => v

theorem zipAction_getElem? (op : ScalarOp) (f : Arr α) (x : List α) (i : Nat) :
    (zipAction op f x)[i]? = (x[i]?).map fun v => match f[i]? with
      | some c => cellAction op c v
      | none => v := by
  induction f generalizing x i with
  | nil => rw [zipAction_nil]; cases h : x[i]? <;> simp
  | cons c cs ih =>
    cases x with
    | nil => simp [zipAction_cons_nil]
    | cons d ds =>
      rw [zipAction_cons_cons]
      cases i with
      | zero => simp
      | succ j => simp [ih]

theorem applyAction_getElem? (a : Action α) (x : List α) (i : Nat) :
    (applyAction a x)[i]? = (x[i]?).map (cellStep a i) := by
  unfold applyAction cellStep
  exact zipAction_getElem? a.op a.field x i

/-- **cell by cell, in recording order**: cell `i` of the result of `apply_tran` is the value handed in
for cell `i`, taken through the actions in recording order, each seeing only ITS scratch cell `i` -/
theorem applyTran_getElem? (acts : List (Action α)) (x : List α) (i : Nat) :
    (applyTran acts x)[i]? = (x[i]?).map fun v => acts.foldl (fun v a => cellStep a i v) v := by
  induction acts generalizing x with
  | nil => simp [applyTran]
  | cons a as ih =>
    have : applyTran (a :: as) x = applyTran as (applyAction a x) := rfl
    rw [this, ih, applyAction_getElem?]
    cases x[i]? <;> simp

theorem applyTran_length (acts : List (Action α)) (x : List α) : (applyTran acts x).length = x.length := by
  induction acts generalizing x with
  | nil => rfl
  | cons a as ih =>
    have : applyTran (a :: as) x = applyTran as (applyAction a x) := rfl
    rw [this, ih]; exact zipAction_length a.op a.field x

/-! ### the recorded list only grows, in input order -/

theorem tkwStep_appends (m : Mode) (D : Dims) (A : List Bool) (C : Consts α) (sb sb' : Rec α × Box) (k : TKw α)
    (h : tkwStep m D A C sb k = some sb') : sb'.1 = sb.1 ++ sb'.1.drop sb.1.length := by
  cases k with
  | box r =>
    simp only [tkwStep] at h
    split at h
    · exact absurd h (by simp)
    · cases h; simp
  | endbox => simp only [tkwStep] at h; cases h; simp
  | data dir vals =>
    simp only [tkwStep] at h
    split at h
    · exact absurd h (by simp)
    · split at h
      · exact absurd h (by simp)
      · cases h; simp
  | oper op recs =>
    simp only [tkwStep] at h
    split at h
    · exact absurd h (by simp)
    · cases h; simp [register]

/-- the effect of a keyword list on the array handed in for direction `d`: keyword by keyword, in input
order, each keyword applying the actions IT recorded -/
def effect (m : Mode) (D : Dims) (A : List Bool) (C : Consts α) (d : Nat) :
    Rec α × Box → List (TKw α) → List α → List α
  | _, [], x => x
  | sb, k :: ks, x =>
    match tkwStep m D A C sb k with
    | none => x
    | some sb' => effect m D A C d sb' ks (applyTran (calcOf (sb'.1.drop sb.1.length) d) x)

theorem scan_is_fold (m : Mode) (D : Dims) (A : List Bool) (C : Consts α) (d : Nat) (ks : List (TKw α))
    (sb sb' : Rec α × Box) (h : foldRecs (tkwStep m D A C) sb ks = some sb') (x : List α) :
    applyTran (calcOf sb'.1 d) x = effect m D A C d sb ks (applyTran (calcOf sb.1 d) x) := by
  induction ks generalizing sb x with
  | nil => simp only [foldRecs] at h; cases h; rfl
  | cons k ks ih =>
    simp only [foldRecs] at h
    cases hk : tkwStep m D A C sb k with
    | none => rw [hk] at h; exact absurd h (by simp)
    | some s1 =>
      rw [hk] at h
      simp only [effect, hk]
      rw [ih s1 h x]
      congr 1
      have := tkwStep_appends m D A C sb s1 k hk
      conv => lhs; rw [this]
      rw [calcOf_append, applyTran_append]

/-! ### keywords that name no TRAN array record nothing -/

def TKw.namesTran : TKw α → Bool
  | .box _ => false
  | .endbox => false
  | .data _ _ => true
  | .oper _ recs => recs.any fun r => decide (r.dir < 3)

theorem recStep_ordinary (m : Mode) (D : Dims) (A : List Bool) (C : Consts α) (op : ScalarOp)
    (recs : List (TRec α)) (hr : ∀ r ∈ recs, 3 ≤ r.dir) (st st' : List (Nat × Arr α) × Box)
    (h : foldRecs (recStep m D A C op) st recs = some st') : st'.1 = st.1 := by
  induction recs generalizing st with
  | nil => simp only [foldRecs] at h; cases h; rfl
  | cons r rs ih =>
    simp only [foldRecs] at h
    cases hk : recStep m D A C op st r with
    | none => rw [hk] at h; exact absurd h (by simp)
    | some s1 =>
      rw [hk] at h
      have h1 : s1.1 = st.1 := by
        unfold recStep at hk
        split at hk
        · exact absurd hk (by simp)
        · rw [if_pos (hr r (List.mem_cons_self ..))] at hk; cases hk; rfl
      rw [ih (fun r' hr' => hr r' (List.mem_cons_of_mem _ hr')) s1 h, h1]

theorem no_tran_keyword_records_nothing (m : Mode) (D : Dims) (A : List Bool) (C : Consts α) (ks : List (TKw α))
    (hk : ∀ k ∈ ks, k.namesTran = false) (sb sb' : Rec α × Box)
    (h : foldRecs (tkwStep m D A C) sb ks = some sb') : sb'.1 = sb.1 := by
  induction ks generalizing sb with
  | nil => simp only [foldRecs] at h; cases h; rfl
  | cons k ks ih =>
    simp only [foldRecs] at h
    cases hs : tkwStep m D A C sb k with
    | none => rw [hs] at h; exact absurd h (by simp)
    | some s1 =>
      rw [hs] at h
      have h1 : s1.1 = sb.1 := by
        have hn := hk k (List.mem_cons_self ..)
        cases k with
        | box r =>
          simp only [tkwStep] at hs
          split at hs
          · exact absurd hs (by simp)
          · cases hs; rfl
        | endbox => simp only [tkwStep] at hs; cases hs; rfl
        | data dir vals => simp [TKw.namesTran] at hn
        | oper op recs =>
          simp only [tkwStep] at hs
          split at hs
          · exact absurd hs (by simp)
          · rename_i r hf
            cases hs
            have hall : ∀ r ∈ recs, 3 ≤ r.dir := by
              intro r hr
              simp only [TKw.namesTran, List.any_eq_false] at hn
              have := hn r hr
              simp at this
              exact this
            have := recStep_ordinary m D A C op recs hall _ _ hf
            simp only [register, this]
            simp
      rw [ih (fun k' hk' => hk k' (List.mem_cons_of_mem _ hk')) s1 h, h1]

end

end OpmVerif.FieldProps.Tran
