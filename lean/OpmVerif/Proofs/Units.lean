/-
  C02 — lemmas about the unit model (`Model/Units.lean`) and the generated tables
  (`Gen/Units.lean`).  Table facts are closed by `decide +kernel` over core `Rat`; everything
  quantified (all values, all token lists, all call sequences) is proved by algebra/induction.
-/
import OpmVerif.Proofs.UnitsSpec
import Mathlib.Tactic.Ring
import Mathlib.Tactic.LinearCombination
import Mathlib.Tactic.FieldSimp

namespace OpmVerif.Units
open OpmVerif.Gen.Units

/-! ### the `Num Rat` operations are the field operations of `Rat` -/

@[simp] theorem num_mul (a b : Rat) : @HMul.hMul Rat Rat Rat (@instHMul Rat numMul) a b = a * b := rfl
@[simp] theorem num_div (a b : Rat) : @HDiv.hDiv Rat Rat Rat (@instHDiv Rat numDiv) a b = a / b := rfl
@[simp] theorem num_add (a b : Rat) : @HAdd.hAdd Rat Rat Rat (@instHAdd Rat numAdd) a b = a + b := rfl
@[simp] theorem num_sub (a b : Rat) : @HSub.hSub Rat Rat Rat (@instHSub Rat numSub) a b = a - b := rfl
@[simp] theorem num_zero : (zero : Rat) = 0 := by decide +kernel
@[simp] theorem num_one : (one : Rat) = 1 := by decide +kernel
@[simp] theorem num_isZero (a : Rat) : Num.isZero a = decide (a = 0) := rfl

/-! ### algebra: a scale/offset conversion and its inverse, over any field -/

theorem affine_roundtrip {K : Type} [Field K] (t f o x : K) (h : t * f = 1) :
    t * (f * (x - o)) + o = x := by
  linear_combination (x - o) * h

theorem affine_roundtrip' {K : Type} [Field K] (t f o x : K) (h : t * f = 1) :
    f * ((t * x + o) - o) = x := by
  linear_combination x * h

/-! ### measure tables -/

def nMeasure : Nat := measureNames.length

theorem tables_length :
    ∀ s ∈ systems Rat, s.toSI.length = nMeasure ∧ s.fromSI.length = nMeasure ∧
      s.toSIOffset.length = nMeasure ∧ s.unitNames.length = nMeasure := by
  decide +kernel

theorem to_from_table_bool :
    (systems Rat).all (fun s => (List.range nMeasure).all
      (fun m => decide (s.toSI.getD m zero * s.fromSI.getD m zero = 1))) = true := by
  decide +kernel

theorem to_from_table (s : SysDef Rat) (hs : s ∈ systems Rat) (m : Nat) (hm : m < nMeasure) :
    s.toSI.getD m zero * s.fromSI.getD m zero = 1 := by
  have h := to_from_table_bool
  rw [List.all_eq_true] at h
  have h1 := h s hs
  rw [List.all_eq_true] at h1
  have h2 := h1 m (List.mem_range.mpr hm)
  exact of_decide_eq_true h2

theorem toSI_fromSI (s : SysDef Rat) (hs : s ∈ systems Rat) (m : Nat) (hm : m < nMeasure) (x : Rat) :
    toSI s m (fromSI s m x) = x := by
  have h := to_from_table s hs m hm
  simp only [toSI, fromSI, num_mul, num_add, num_sub] at *
  exact affine_roundtrip _ _ _ _ h

theorem fromSI_toSI (s : SysDef Rat) (hs : s ∈ systems Rat) (m : Nat) (hm : m < nMeasure) (x : Rat) :
    fromSI s m (toSI s m x) = x := by
  have h := to_from_table s hs m hm
  simp only [toSI, fromSI, num_mul, num_add, num_sub] at *
  exact affine_roundtrip' _ _ _ _ h

/-- the same over any field `K` of characteristic zero: the table entries are rationals, the
value converted is arbitrary -/
theorem toSI_fromSI_field {K : Type} [Field K] [CharZero K] (s : SysDef Rat) (hs : s ∈ systems Rat)
    (m : Nat) (hm : m < nMeasure) (x : K) :
    ((s.toSI.getD m zero : Rat) : K) * (((s.fromSI.getD m zero : Rat) : K) * (x - ((s.toSIOffset.getD m zero : Rat) : K)))
      + ((s.toSIOffset.getD m zero : Rat) : K) = x := by
  apply affine_roundtrip
  have h := to_from_table s hs m hm
  rw [← Rat.cast_mul, h, Rat.cast_one]

theorem fromSI_toSI_field {K : Type} [Field K] [CharZero K] (s : SysDef Rat) (hs : s ∈ systems Rat)
    (m : Nat) (hm : m < nMeasure) (x : K) :
    ((s.fromSI.getD m zero : Rat) : K) * ((((s.toSI.getD m zero : Rat) : K) * x + ((s.toSIOffset.getD m zero : Rat) : K))
      - ((s.toSIOffset.getD m zero : Rat) : K)) = x := by
  apply affine_roundtrip'
  have h := to_from_table s hs m hm
  rw [← Rat.cast_mul, h, Rat.cast_one]

/-! ### the tables meet the hand-written specification (`Proofs/UnitsSpec.lean`) -/

theorem consts_physical : Spec.constSpec.all Spec.constOk = true := by decide +kernel
theorem dims_physical : Spec.dimSpec.all Spec.dimOk = true := by decide +kernel
theorem dims_covered :
    Spec.deckSystems.all (fun s => s.dims.all (fun e => e.1 == "ContextDependent" ||
      Spec.dimSpec.any (fun d => some d.deck == s.deckName && d.dim == e.1))) = true := by
  decide +kernel
theorem measures_composite : Spec.deckSystems.all (fun s => Spec.measureSpec.all (Spec.measureOk s)) = true := by
  decide +kernel
theorem measures_parse : Spec.deckSystems.all (fun s => Spec.measureSpec.all (Spec.measureParseOk s)) = true := by
  decide +kernel
theorem measures_covered : measureNames.all (fun n => Spec.measureSpec.any (·.measure == n)) = true := by
  decide +kernel
theorem deckSystems_names : Spec.deckSystems.map (·.deckName) = [some "METRIC", some "FIELD", some "LAB", some "PVT-M"] := by
  decide +kernel

/-! ### `split` (std::getline semantics) -/

theorem split_eq_nil (d : Char) (cs : List Char) : split d cs = [] ↔ cs = [] := by
  cases cs with
  | nil => simp [split]
  | cons c cs =>
    simp only [split]
    split
    · simp
    · split <;> simp

/-- no delimiter inside: one piece -/
theorem split_single (d : Char) (a : List Char) (ha : d ∉ a) (hne : a ≠ []) : split d a = [a] := by
  induction a with
  | nil => exact absurd rfl hne
  | cons c cs ih =>
    have hc : c ≠ d := fun h => ha (by simp [h])
    have hcs : d ∉ cs := fun h => ha (by simp [h])
    simp only [split, if_neg hc]
    cases cs with
    | nil => simp [split]
    | cons c' cs' =>
      rw [ih hcs (by simp)]

/-- a piece without delimiter, then the delimiter -/
theorem split_cons_piece (d : Char) (a b : List Char) (ha : d ∉ a) :
    split d (a ++ d :: b) = a :: split d b := by
  induction a with
  | nil => simp [split]
  | cons c cs ih =>
    have hc : c ≠ d := fun h => ha (by simp [h])
    have hcs : d ∉ cs := fun h => ha (by simp [h])
    simp only [List.cons_append, split, if_neg hc]
    rw [ih hcs]

/-- general append law: the left part must be non-empty and must not end in the delimiter
(`"a*"` loses its trailing empty piece, `"a**b"` does not). -/
theorem split_append (d : Char) (a b : List Char) (hne : a ≠ []) (hlast : a.getLast? ≠ some d) :
    split d (a ++ d :: b) = split d a ++ split d b := by
  induction a with
  | nil => exact absurd rfl hne
  | cons c cs ih =>
    cases cs with
    | nil =>
      have hc : c ≠ d := by
        intro h; apply hlast; simp [h]
      simp [split, if_neg hc]
    | cons c' cs' =>
      have hlast' : (c' :: cs').getLast? ≠ some d := by
        intro h; apply hlast; simpa [List.getLast?_cons_cons] using h
      have ih' := ih (by simp) hlast'
      by_cases hc : c = d
      · simp only [List.cons_append, split, if_pos hc] at *
        rw [ih']
      · have hne' : split d (c' :: cs') ≠ [] := by
          rw [Ne, split_eq_nil]; simp
        simp only [List.cons_append] at ih' ⊢
        rw [split, if_neg hc, ih']
        conv => rhs; rw [split, if_neg hc]
        cases hsp : split d (c' :: cs') with
        | nil => exact absurd hsp hne'
        | cons t ts => simp


/-! ### `parseFactor` / `parse` on composite strings -/

/-- token `t` names an offset-free dimension with finite factor `f` -/
def TokOk (s : SysDef Rat) (t : List Char) (f : Rat) : Prop :=
  getDimension s (String.ofList t) = some ⟨some f, 0⟩

def prodQ (fs : List Rat) : Rat := fs.foldl (· * ·) 1

theorem foldl_mul_acc (fs : List Rat) (acc : Rat) : fs.foldl (· * ·) acc = acc * prodQ fs := by
  induction fs generalizing acc with
  | nil => simp [prodQ]
  | cons f fs ih =>
    simp only [List.foldl_cons, prodQ]
    rw [ih, ih (1 * f)]
    ring

theorem prodQ_append (xs ys : List Rat) : prodQ (xs ++ ys) = prodQ xs * prodQ ys := by
  simp only [prodQ, List.foldl_append]
  rw [foldl_mul_acc ys]
  rfl

theorem loop_ok (s : SysDef Rat) (n : Nat) (toks : List (List Char)) (fs : List Rat)
    (h : List.Forall₂ (TokOk s) toks fs) (acc : Rat) :
    parseFactorLoop s n toks acc = some ⟨some (acc * prodQ fs), 0⟩ := by
  induction h generalizing acc with
  | nil => simp [parseFactorLoop, prodQ]
  | @cons t f ts fs' hx _ ih =>
    unfold TokOk at hx
    simp only [parseFactorLoop, hx, Dim.compositable, num_isZero, decide_true, if_true, num_mul]
    rw [ih]
    simp only [prodQ, List.foldl_cons]
    rw [foldl_mul_acc fs' (1 * f)]
    simp only [prodQ]
    ring_nf

theorem loop_inv (s : SysDef Rat) (n : Nat) (toks : List (List Char)) (acc r : Rat)
    (h : parseFactorLoop s n toks acc = some ⟨some r, 0⟩) :
    ∃ fs, List.Forall₂ (TokOk s) toks fs ∧ r = acc * prodQ fs := by
  induction toks generalizing acc with
  | nil =>
    refine ⟨[], List.Forall₂.nil, ?_⟩
    simp only [parseFactorLoop, num_zero, Option.some.injEq, Dim.mk.injEq] at h
    simp [prodQ, ← h.1]
  | cons t ts ih =>
    simp only [parseFactorLoop] at h
    cases hd : getDimension s (String.ofList t) with
    | none => simp [hd] at h
    | some dim =>
      obtain ⟨sc, off⟩ := dim
      simp only [hd, Dim.compositable, num_isZero] at h
      by_cases hoff : off = 0
      · subst hoff
        simp only [decide_true, if_true] at h
        cases sc with
        | none => simp at h
        | some f =>
          simp only [num_mul] at h
          obtain ⟨fs, hfs, hr⟩ := ih (acc * f) h
          refine ⟨f :: fs, List.Forall₂.cons hd hfs, ?_⟩
          rw [hr]
          simp only [prodQ, List.foldl_cons]
          rw [foldl_mul_acc fs (1 * f)]
          simp only [prodQ]
          ring_nf
      · simp only [hoff, decide_false, Bool.false_eq_true, if_false] at h
        split at h
        · simp at h
        · simp only [Option.some.injEq, Dim.mk.injEq] at h
          exact absurd h.2 hoff

theorem parseChars_noDiv (s : SysDef Rat) (a : List Char) (ha : '/' ∉ a) :
    parseChars s a = parseFactorToks s (split '*' a) := by
  have hc : a.count '/' = 0 := List.count_eq_zero.mpr ha
  simp [parseChars, hc, parseFactor]

/-- `parse (a ++ "*" ++ b) = parse a * parse b` for offset-free operands. -/
theorem parseChars_mul (s : SysDef Rat) (a b : List Char) (fa fb : Rat)
    (ha : '/' ∉ a) (hb : '/' ∉ b) (hne : a ≠ []) (hlast : a.getLast? ≠ some '*')
    (pa : parseChars s a = some ⟨some fa, 0⟩) (pb : parseChars s b = some ⟨some fb, 0⟩) :
    parseChars s (a ++ '*' :: b) = some ⟨some (fa * fb), 0⟩ := by
  rw [parseChars_noDiv s a ha] at pa
  rw [parseChars_noDiv s b hb] at pb
  have hab : '/' ∉ a ++ '*' :: b := by
    simp only [List.mem_append, List.mem_cons, not_or]
    exact ⟨ha, by decide, hb⟩
  rw [parseChars_noDiv s _ hab, split_append '*' a b hne hlast]
  unfold parseFactorToks at *
  simp only [num_one] at *
  obtain ⟨fsa, hfa, ra⟩ := loop_inv s _ _ _ _ pa
  obtain ⟨fsb, hfb, rb⟩ := loop_inv s _ _ _ _ pb
  have hall : List.Forall₂ (TokOk s) (split '*' a ++ split '*' b) (fsa ++ fsb) :=
    List.rel_append hfa hfb
  rw [loop_ok s _ _ _ hall, prodQ_append, ra, rb]
  ring_nf

/-- `parse (a ++ "/" ++ b) = parse a / parse b` for offset-free operands. -/
theorem parseChars_div (s : SysDef Rat) (a b : List Char) (fa fb : Rat)
    (ha : '/' ∉ a) (hb : '/' ∉ b) (hne : b ≠ [])
    (pa : parseChars s a = some ⟨some fa, 0⟩) (pb : parseChars s b = some ⟨some fb, 0⟩) :
    parseChars s (a ++ '/' :: b) = some ⟨some (fa / fb), 0⟩ := by
  rw [parseChars_noDiv s a ha] at pa
  rw [parseChars_noDiv s b hb] at pb
  have hc : (a ++ '/' :: b).count '/' = 1 := by
    rw [List.count_append, List.count_cons_self, List.count_eq_zero.mpr ha, List.count_eq_zero.mpr hb]
  have hsp : split '/' (a ++ '/' :: b) = [a, b] := by
    rw [split_cons_piece '/' a b ha, split_single '/' b hb hne]
  simp only [parseChars, hc, hsp, parseFactor, pa, pb, Dim.compositable, num_isZero, num_div, num_zero]
  simp

/-! ### strings -/

theorem parse_mul (s : SysDef Rat) (a b : String) (fa fb : Rat)
    (ha : '/' ∉ a.toList) (hb : '/' ∉ b.toList) (hne : a.toList ≠ []) (hlast : a.toList.getLast? ≠ some '*')
    (pa : parse s a = some ⟨some fa, 0⟩) (pb : parse s b = some ⟨some fb, 0⟩) :
    parse s (a ++ "*" ++ b) = some ⟨some (fa * fb), 0⟩ := by
  unfold parse at *
  have : (a ++ "*" ++ b).toList = a.toList ++ '*' :: b.toList := by
    simp [String.toList_append]
  rw [this]
  exact parseChars_mul s _ _ fa fb ha hb hne hlast pa pb

theorem parse_div (s : SysDef Rat) (a b : String) (fa fb : Rat)
    (ha : '/' ∉ a.toList) (hb : '/' ∉ b.toList) (hne : b.toList ≠ [])
    (pa : parse s a = some ⟨some fa, 0⟩) (pb : parse s b = some ⟨some fb, 0⟩) :
    parse s (a ++ "/" ++ b) = some ⟨some (fa / fb), 0⟩ := by
  unfold parse at *
  have : (a ++ "/" ++ b).toList = a.toList ++ '/' :: b.toList := by
    simp [String.toList_append]
  rw [this]
  exact parseChars_div s _ _ fa fb ha hb hne pa pb

/-- every dimension string of the keyword JSON resolves (as `ParserItem::scan` resolves it, via
`getNewDimension`) in each of the four deck unit systems, to a finite factor — except the
deliberately factor-less "ContextDependent" -/
theorem keyword_strings_resolve :
    Spec.deckSystems.all (fun s => keywordDimStrings.all (fun str =>
      match getNewDimension s str with
      | some d => d.scale.isSome || str == "ContextDependent"
      | none => false)) = true := by
  decide +kernel

/-! ### `DeckItem`: the lazy in-place conversion refines a one-bit state machine -/

/-- finite, non-zero scale factor -/
def DimOk (d : Dim Rat) : Prop := ∃ f, d.scale = some f ∧ f ≠ 0

structure Item.WF (it : Item Rat) : Prop where
  lenS : it.status.length = it.dval.length
  lenD : it.dflt.length = it.active.length
  ne : it.active ≠ []
  actOk : ∀ d ∈ it.active, DimOk d
  dfltOk : ∀ d ∈ it.dflt, DimOk d

/-- the dimension the loops use for element `i` with status `st` -/
def dimFor (act dfl : List (Dim Rat)) (i : Nat) (st : Status) : Option (Dim Rat) :=
  (if st.defaulted then dfl else act)[i % act.length]?

theorem dimFor_ok {act dfl : List (Dim Rat)} (hl : dfl.length = act.length) (hne : act ≠ [])
    (ha : ∀ d ∈ act, DimOk d) (hd : ∀ d ∈ dfl, DimOk d) (i : Nat) (st : Status) :
    ∃ d, dimFor act dfl i st = some d ∧ DimOk d := by
  have hpos : 0 < act.length := List.length_pos_iff.mpr hne
  have hlt : i % act.length < act.length := Nat.mod_lt _ hpos
  unfold dimFor
  by_cases hdf : st.defaulted = true
  · simp only [hdf, if_true]
    have hlt' : i % act.length < dfl.length := by omega
    refine ⟨dfl[i % act.length], ?_, hd _ (List.getElem_mem hlt')⟩
    exact List.getElem?_eq_getElem hlt'
  · simp only [hdf, Bool.false_eq_true, if_false]
    refine ⟨act[i % act.length], ?_, ha _ (List.getElem_mem hlt)⟩
    exact List.getElem?_eq_getElem hlt

theorem elem_roundtrip (d : Dim Rat) (hd : DimOk d) (x : Rat) :
    ∃ y, d.rawToSi x = some y ∧ d.siToRaw y = some x := by
  obtain ⟨f, hf, hf0⟩ := hd
  refine ⟨x * f + d.offset, ?_, ?_⟩
  · simp [Dim.rawToSi, hf]
  · simp only [Dim.siToRaw, hf, num_sub, num_div, Option.some.injEq]
    field_simp
    ring

/-- the SI image of a raw vector: what `getSIDoubleData` leaves in `dval` -/
def siOf (act dfl : List (Dim Rat)) (i : Nat) (xs : List Rat) (sts : List Status) : List Rat :=
  (convLoop Dim.rawToSi act dfl i xs sts).1

section loops
variable {act dfl : List (Dim Rat)} (hl : dfl.length = act.length) (hne : act ≠ [])
  (ha : ∀ d ∈ act, DimOk d) (hd : ∀ d ∈ dfl, DimOk d)
include hl hne ha hd

theorem toSi_total (i : Nat) (xs : List Rat) (sts : List Status) :
    (convLoop Dim.rawToSi act dfl i xs sts).2 = true := by
  induction xs generalizing i sts with
  | nil => simp [convLoop]
  | cons x xs ih =>
    obtain ⟨d, hd1, hd2⟩ := dimFor_ok hl hne ha hd i (sts.headD .uninitialized)
    obtain ⟨y, hy, _⟩ := elem_roundtrip d hd2 x
    unfold dimFor at hd1
    simp only [convLoop, hd1, hy]
    exact ih (i + 1) sts.tail

theorem toRaw_toSi (i : Nat) (xs : List Rat) (sts : List Status) :
    convLoop Dim.siToRaw act dfl i (siOf act dfl i xs sts) sts = (xs, true) := by
  induction xs generalizing i sts with
  | nil => simp [siOf, convLoop]
  | cons x xs ih =>
    obtain ⟨d, hd1, hd2⟩ := dimFor_ok hl hne ha hd i (sts.headD .uninitialized)
    obtain ⟨y, hy, hy'⟩ := elem_roundtrip d hd2 x
    unfold dimFor at hd1
    have := ih (i + 1) sts.tail
    simp only [siOf] at this ⊢
    simp only [convLoop, hd1, hy, hy', this]

theorem siOf_length (i : Nat) (xs : List Rat) (sts : List Status) :
    (siOf act dfl i xs sts).length = xs.length := by
  induction xs generalizing i sts with
  | nil => simp [siOf, convLoop]
  | cons x xs ih =>
    obtain ⟨d, hd1, hd2⟩ := dimFor_ok hl hne ha hd i (sts.headD .uninitialized)
    obtain ⟨y, hy, _⟩ := elem_roundtrip d hd2 x
    unfold dimFor at hd1
    have := ih (i + 1) sts.tail
    simp only [siOf] at this ⊢
    simp only [convLoop, hd1, hy, List.length_cons, this]

/-- element `j` of the SI image is the conversion of element `j` with the dimension chosen by
its own status, and converts back to the raw element -/
theorem siOf_getElem (i : Nat) (xs : List Rat) (sts : List Status) (j : Nat) (x : Rat)
    (hx : xs[j]? = some x) :
    ∃ d y, dimFor act dfl (i + j) (sts.getD j .uninitialized) = some d ∧ d.rawToSi x = some y ∧
      (siOf act dfl i xs sts)[j]? = some y ∧ d.siToRaw y = some x := by
  induction xs generalizing i sts j with
  | nil => simp at hx
  | cons x0 xs ih =>
    obtain ⟨d, hd1, hd2⟩ := dimFor_ok hl hne ha hd i (sts.headD .uninitialized)
    obtain ⟨y, hy, hy'⟩ := elem_roundtrip d hd2 x0
    have hd1' := hd1
    unfold dimFor at hd1'
    cases j with
    | zero =>
      simp only [List.getElem?_cons_zero, Option.some.injEq] at hx
      subst hx
      refine ⟨d, y, ?_, hy, ?_, hy'⟩
      · cases sts <;> simpa using hd1
      · simp only [siOf, convLoop, hd1', hy, List.getElem?_cons_zero]
    | succ j =>
      simp only [List.getElem?_cons_succ] at hx
      obtain ⟨d', y', h1, h2, h3, h4⟩ := ih (i + 1) sts.tail j hx
      refine ⟨d', y', ?_, h2, ?_, h4⟩
      · have : i + (j + 1) = i + 1 + j := by omega
        rw [this]
        cases sts with
        | nil => simpa using h1
        | cons s0 ss => simpa using h1
      · simp only [siOf] at h3 ⊢
        simp only [convLoop, hd1', hy, List.getElem?_cons_succ, h3]

end loops

/-- The abstract machine: ONE bit (is the vector currently raw?) plus the two constant vectors
`raw` (deck values) and `si` (their SI image).  `honour` as in `Item.step`. -/
def specStep (honour : Bool) (raw si : List Rat) (sts : List Status) (isRaw : Bool) :
    Call → Bool × Obs Rat
  | .getData => (true, .vec raw)
  | .getSIData => (false, .vec si)
  | .getSI i => (false, match si[i]? with | some x => .val x | none => .err)
  | .get i => (isRaw,
      match sts[i]? with
      | none => .err
      | some st =>
        if st.hasValue then
          match (if isRaw || honour then raw else si)[i]? with
          | some x => .val x
          | none => .err
        else .err)

def specRun (honour : Bool) (raw si : List Rat) (sts : List Status) : Bool → List Call → List (Obs Rat)
  | _, [] => []
  | b, c :: cs =>
    let r := specStep honour raw si sts b c
    r.2 :: specRun honour raw si sts r.1 cs

/-- concrete item `st` represents abstract state `isRaw` of the machine started from `it0` -/
structure Rel (it0 st : Item Rat) (isRaw : Bool) : Prop where
  status : st.status = it0.status
  active : st.active = it0.active
  dflt : st.dflt = it0.dflt
  flag : st.rawData = isRaw
  data : st.dval = if isRaw then it0.dval else siOf it0.active it0.dflt 0 it0.dval it0.status

theorem step_refines (h : Bool) (it0 : Item Rat) (wf : it0.WF) (st : Item Rat) (b : Bool)
    (rel : Rel it0 st b) (c : Call) :
    Rel it0 (st.step h c).1
        (specStep h it0.dval (siOf it0.active it0.dflt 0 it0.dval it0.status) it0.status b c).1 ∧
      (st.step h c).2 =
        (specStep h it0.dval (siOf it0.active it0.dflt 0 it0.dval it0.status) it0.status b c).2 := by
  obtain ⟨hs, hact, hdf, hflag, hdata⟩ := rel
  have hne : it0.active.isEmpty = false := by
    cases hh : it0.active with
    | nil => exact absurd hh wf.ne
    | cons _ _ => rfl
  have htot := toSi_total wf.lenD wf.ne wf.actOk wf.dfltOk 0 it0.dval it0.status
  have hback := toRaw_toSi wf.lenD wf.ne wf.actOk wf.dfltOk 0 it0.dval it0.status
  -- the two converting accessors
  have hSI : st.siData = ({ st with dval := siOf it0.active it0.dflt 0 it0.dval it0.status, rawData := false },
      some (siOf it0.active it0.dflt 0 it0.dval it0.status)) := by
    cases b with
    | true =>
      simp only [if_true] at hdata
      simp only [Item.siData, hflag, hact, hdf, hs, hdata, hne, Bool.not_true, Bool.false_eq_true, if_false, htot, if_true, siOf]
    | false =>
      simp only [Bool.false_eq_true, if_false] at hdata
      simp only [Item.siData, hflag, Bool.not_false, if_true, hdata]
      cases st; simp_all
  have hRaw : st.rawDataVec = ({ st with dval := it0.dval, rawData := true }, some it0.dval) := by
    cases b with
    | true =>
      simp only [if_true] at hdata
      simp only [Item.rawDataVec, hflag, if_true, hdata]
      cases st; simp_all
    | false =>
      simp only [Bool.false_eq_true, if_false] at hdata
      simp only [Item.rawDataVec, hflag, Bool.false_eq_true, if_false, hact, hdf, hs, hdata, hback, if_true]
  cases c with
  | getData =>
    simp only [Item.step, hRaw, specStep]
    exact ⟨⟨hs, hact, hdf, rfl, by simp⟩, trivial⟩
  | getSIData =>
    simp only [Item.step, hSI, specStep]
    exact ⟨⟨hs, hact, hdf, rfl, by simp⟩, trivial⟩
  | getSI i =>
    simp only [Item.step, hSI, specStep]
    cases (siOf it0.active it0.dflt 0 it0.dval it0.status)[i]? with
    | none => exact ⟨⟨hs, hact, hdf, rfl, by simp⟩, rfl⟩
    | some x => exact ⟨⟨hs, hact, hdf, rfl, by simp⟩, rfl⟩
  | get i =>
    have keep : Rel it0 st b := ⟨hs, hact, hdf, hflag, hdata⟩
    simp only [Item.step, specStep, hs]
    cases hst : it0.status[i]? with
    | none => exact ⟨keep, rfl⟩
    | some s0 =>
      simp only []
      by_cases hv : s0.hasValue = true
      · simp only [hv, if_true]
        have hi : i < it0.dval.length := by
          have := (List.getElem?_eq_some_iff.mp hst).1
          rw [wf.lenS] at this; exact this
        have hraw : it0.dval[i]? = some it0.dval[i] := List.getElem?_eq_getElem hi
        obtain ⟨d, y, h1, h2, h3, h4⟩ :=
          siOf_getElem wf.lenD wf.ne wf.actOk wf.dfltOk 0 it0.dval it0.status i _ hraw
        have hsd : it0.status.getD i .uninitialized = s0 := by
          simp [List.getD, hst]
        rw [hsd, Nat.zero_add] at h1
        cases b with
        | true =>
          simp only [if_true] at hdata
          simp only [hdata, hraw, hflag, Bool.true_or, if_true]
          exact ⟨keep, trivial⟩
        | false =>
          simp only [Bool.false_eq_true, if_false] at hdata
          cases h with
          | false =>
            simp only [hdata, h3, hflag, Bool.false_or, Bool.not_false, if_true, Bool.false_eq_true, if_false]
            exact ⟨keep, trivial⟩
          | true =>
            unfold dimFor at h1
            simp only [hdata, h3, hflag, Bool.false_or, Bool.not_true, Bool.false_eq_true, if_false, hact, hdf, h1, h4,
              Bool.or_true, if_true, hraw]
            exact ⟨keep, trivial⟩
      · simp only [hv, Bool.false_eq_true, if_false]
        exact ⟨keep, trivial⟩

theorem run_refines (h : Bool) (it0 : Item Rat) (wf : it0.WF) (cs : List Call) (st : Item Rat) (b : Bool)
    (rel : Rel it0 st b) :
    (st.run h cs).2 =
      specRun h it0.dval (siOf it0.active it0.dflt 0 it0.dval it0.status) it0.status b cs := by
  induction cs generalizing st b with
  | nil => rfl
  | cons c cs ih =>
    obtain ⟨r1, r2⟩ := step_refines h it0 wf st b rel c
    simp only [Item.run, specRun]
    rw [r2, ih _ _ r1]

theorem rel_init (it0 : Item Rat) (h0 : it0.rawData = true) : Rel it0 it0 true :=
  ⟨rfl, rfl, rfl, h0, by simp⟩

/-- what an accessor shows when the item is in its pristine (raw) state — the history-free
meaning of the call: `getData` the deck values, `getSIData`/`getSI` their SI image,
`get i` the deck value -/
def idealObs (it0 : Item Rat) (c : Call) : Obs Rat :=
  (specStep true it0.dval (siOf it0.active it0.dflt 0 it0.dval it0.status) it0.status true c).2

theorem specStep_nonget (h : Bool) (raw si : List Rat) (sts : List Status) (b : Bool) (c : Call)
    (hc : ∀ i, c ≠ .get i) :
    (specStep h raw si sts b c).2 = (specStep true raw si sts true c).2 := by
  cases c with
  | get i => exact absurd rfl (hc i)
  | _ => rfl

theorem specStep_honour (raw si : List Rat) (sts : List Status) (b : Bool) (c : Call) :
    (specStep true raw si sts b c).2 = (specStep true raw si sts true c).2 := by
  cases c <;> simp [specStep]

theorem specRun_nonget (h : Bool) (raw si : List Rat) (sts : List Status) (b : Bool) (cs : List Call)
    (k : Nat) (c : Call) (hk : cs[k]? = some c) (hc : ∀ i, c ≠ .get i) :
    (specRun h raw si sts b cs)[k]? = some (specStep true raw si sts true c).2 := by
  induction cs generalizing b k with
  | nil => simp at hk
  | cons c0 cs ih =>
    cases k with
    | zero =>
      simp only [List.getElem?_cons_zero, Option.some.injEq] at hk
      subst hk
      simp only [specRun, List.getElem?_cons_zero, Option.some.injEq]
      exact specStep_nonget h raw si sts b _ hc
    | succ k =>
      simp only [List.getElem?_cons_succ] at hk
      simp only [specRun, List.getElem?_cons_succ]
      exact ih _ k hk

theorem specRun_honour (raw si : List Rat) (sts : List Status) (b : Bool) (cs : List Call) :
    specRun true raw si sts b cs = cs.map (fun c => (specStep true raw si sts true c).2) := by
  induction cs generalizing b with
  | nil => rfl
  | cons c cs ih =>
    simp only [specRun, List.map_cons]
    rw [ih, specStep_honour]

/-- Whatever was called before (any accessor, any number of times, in any order): `getData`,
`getSIDoubleData` and `getSIDouble(i)` show the pristine raw vector / its SI image. -/
theorem converting_accessors_history_free (h : Bool) (it0 : Item Rat) (wf : it0.WF) (h0 : it0.rawData = true)
    (cs : List Call) (k : Nat) (c : Call) (hk : cs[k]? = some c) (hc : ∀ i, c ≠ .get i) :
    (it0.run h cs).2[k]? = some (idealObs it0 c) := by
  rw [run_refines h it0 wf cs it0 true (rel_init it0 h0)]
  exact specRun_nonget h _ _ _ true cs k c hk hc

/-- If `get<double>` honours `raw_data`, EVERY accessor is history free. -/
theorem all_accessors_history_free (it0 : Item Rat) (wf : it0.WF) (h0 : it0.rawData = true) (cs : List Call) :
    (it0.run true cs).2 = cs.map (idealObs it0) := by
  rw [run_refines true it0 wf cs it0 true (rel_init it0 h0)]
  exact specRun_honour _ _ _ true cs

/-! ### one physical model written in two unit systems -/

/-- re-express the deck values of an item whose active dimensions change from `act1` to `act2`
(`v ↦ from_si₂(to_si₁ v)`); defaulted values keep their value (they are converted with the
default dimensions in both decks) -/
def reexpress (act1 act2 : List (Dim Rat)) : Nat → List Rat → List Status → List Rat
  | _, [], _ => []
  | i, x :: xs, sts =>
    (if (sts.headD .uninitialized).defaulted then x
     else
      match act1[i % act1.length]?, act2[i % act1.length]? with
      | some d1, some d2 =>
        match d1.rawToSi x with
        | some y => (d2.siToRaw y).getD x
        | none => x
      | _, _ => x) :: reexpress act1 act2 (i + 1) xs sts.tail

theorem elem_reexpress (d1 d2 : Dim Rat) (h1 : DimOk d1) (h2 : DimOk d2) (x : Rat) :
    ∃ y z, d1.rawToSi x = some y ∧ d2.siToRaw y = some z ∧ d2.rawToSi z = some y := by
  obtain ⟨f1, hf1, _⟩ := h1
  obtain ⟨f2, hf2, hf20⟩ := h2
  refine ⟨x * f1 + d1.offset, (x * f1 + d1.offset - d2.offset) / f2, ?_, ?_, ?_⟩
  · simp [Dim.rawToSi, hf1]
  · simp [Dim.siToRaw, hf2]
  · simp only [Dim.rawToSi, hf2, num_mul, num_add, Option.some.injEq]
    field_simp
    ring

theorem siOf_reexpress {act1 act2 dfl : List (Dim Rat)} (hl1 : dfl.length = act1.length)
    (hl2 : act2.length = act1.length) (hne : act1 ≠ [])
    (ha1 : ∀ d ∈ act1, DimOk d) (ha2 : ∀ d ∈ act2, DimOk d) (hd : ∀ d ∈ dfl, DimOk d)
    (i : Nat) (xs : List Rat) (sts : List Status) :
    siOf act2 dfl i (reexpress act1 act2 i xs sts) sts = siOf act1 dfl i xs sts := by
  induction xs generalizing i sts with
  | nil => simp [siOf, reexpress, convLoop]
  | cons x xs ih =>
    have hne2 : act2 ≠ [] := by
      intro h; rw [h] at hl2; exact hne (List.length_eq_zero_iff.mp hl2.symm)
    have ih' := ih (i + 1) sts.tail
    simp only [siOf] at ih' ⊢
    by_cases hdf : (sts.headD .uninitialized).defaulted = true
    · -- defaulted: same default dimension, same value
      obtain ⟨d, hd1, hd2⟩ := dimFor_ok hl1 hne ha1 hd i (sts.headD .uninitialized)
      obtain ⟨y, hy, _⟩ := elem_roundtrip d hd2 x
      unfold dimFor at hd1
      simp only [hdf, if_true] at hd1
      simp only [reexpress, hdf, if_true, convLoop, hl2, hd1, hy, ih']
    · obtain ⟨d1, hd1, hok1⟩ := dimFor_ok hl1 hne ha1 hd i (sts.headD .uninitialized)
      obtain ⟨d2, hd2, hok2⟩ := dimFor_ok (hl1.trans hl2.symm) hne2 ha2 hd i (sts.headD .uninitialized)
      unfold dimFor at hd1 hd2
      simp only [hdf, Bool.false_eq_true, if_false] at hd1 hd2
      rw [hl2] at hd2
      obtain ⟨y, z, e1, e2, e3⟩ := elem_reexpress d1 d2 hok1 hok2 x
      simp only [reexpress, hdf, Bool.false_eq_true, if_false, convLoop, hl2, hd1, hd2, e1, e2, e3,
        Option.getD_some, ih']


theorem reexpress_length (act1 act2 : List (Dim Rat)) (i : Nat) (xs : List Rat) (sts : List Status) :
    (reexpress act1 act2 i xs sts).length = xs.length := by
  induction xs generalizing i sts with
  | nil => simp [reexpress]
  | cons x xs ih => simp [reexpress, ih]

/-- the same item as it appears in a deck written in another unit system -/
def Item.inSystem (it : Item Rat) (act2 : List (Dim Rat)) : Item Rat :=
  { it with active := act2, dval := reexpress it.active act2 0 it.dval it.status }

theorem inSystem_wf (it : Item Rat) (wf : it.WF) (act2 : List (Dim Rat))
    (hl : act2.length = it.active.length) (ha2 : ∀ d ∈ act2, DimOk d) : (it.inSystem act2).WF := by
  refine ⟨?_, ?_, ?_, ha2, wf.dfltOk⟩
  · simp only [Item.inSystem, reexpress_length]; exact wf.lenS
  · simp only [Item.inSystem]; rw [hl]; exact wf.lenD
  · simp only [Item.inSystem]
    intro h; rw [h] at hl; exact wf.ne (List.length_eq_zero_iff.mp hl.symm)

theorem si_after_any_history (h : Bool) (it : Item Rat) (wf : it.WF) (h0 : it.rawData = true) (cs : List Call) :
    (it.run h (cs ++ [.getSIData])).2[cs.length]? =
      some (.vec (siOf it.active it.dflt 0 it.dval it.status)) := by
  have := converting_accessors_history_free h it wf h0 (cs ++ [.getSIData]) cs.length .getSIData
    (by simp) (by intro i; simp)
  rw [this]
  rfl

theorem unit_independence_obs (h : Bool) (it1 : Item Rat) (wf : it1.WF) (h0 : it1.rawData = true)
    (act2 : List (Dim Rat)) (hl : act2.length = it1.active.length) (ha2 : ∀ d ∈ act2, DimOk d)
    (cs1 cs2 : List Call) :
    ((it1.inSystem act2).run h (cs2 ++ [.getSIData])).2[cs2.length]? =
      (it1.run h (cs1 ++ [.getSIData])).2[cs1.length]? := by
  rw [si_after_any_history h it1 wf h0 cs1,
      si_after_any_history h _ (inSystem_wf it1 wf act2 hl ha2) (by simpa [Item.inSystem] using h0) cs2]
  simp only [Item.inSystem]
  rw [siOf_reexpress wf.lenD hl wf.ne wf.actOk ha2 wf.dfltOk]


/-! ### the accessor `get<double>` -/

/-- 100 ft, default dimension metres -/
def witnessItem : Item Rat :=
  { dval := [100], status := [.deckValue], rawData := true,
    active := [⟨some (Spec.dec 3048 4), 0⟩], dflt := [⟨some 1, 0⟩] }

theorem witnessItem_wf : witnessItem.WF := by
  refine ⟨rfl, rfl, by simp [witnessItem], ?_, ?_⟩
  · intro d hd
    simp only [witnessItem, List.mem_cons, List.mem_nil_iff, or_false] at hd
    subst hd
    exact ⟨_, rfl, by decide +kernel⟩
  · intro d hd
    simp only [witnessItem, List.mem_cons, List.mem_nil_iff, or_false] at hd
    subst hd
    exact ⟨_, rfl, by decide +kernel⟩

/-- without the `raw_data` test, `get<double>(0)` after `getSIDouble(0)` shows the SI value -/
theorem witness_get_after_si :
    (witnessItem.run false [.getSI 0, .get 0]).2 = [.val (Spec.dec 3048 2), .val (Spec.dec 3048 2)] ∧
      idealObs witnessItem (.get 0) = .val 100 := by
  decide +kernel

/-- all accessors are history free exactly when `get<double>` honours `raw_data` -/
theorem get_history_free_iff (h : Bool) :
    (∀ it0 : Item Rat, it0.WF → it0.rawData = true → ∀ cs : List Call,
        (it0.run h cs).2 = cs.map (idealObs it0)) ↔ h = true := by
  constructor
  · intro hall
    cases h with
    | true => rfl
    | false =>
      exfalso
      have h1 := hall witnessItem witnessItem_wf rfl [.getSI 0, .get 0]
      have h2 := witness_get_after_si
      rw [h2.1] at h1
      simp only [List.map_cons, List.map_nil, List.cons.injEq, and_true] at h1
      rw [h2.2] at h1
      revert h1
      decide +kernel
  · intro hh it0 wf h0 cs
    subst hh
    exact all_accessors_history_free it0 wf h0 cs

/-! ### `data::Solution` -/

theorem vec_roundtrip (s : SysDef Rat) (hs : s ∈ systems Rat) (m : Nat) (hm : m < nMeasure) (xs : List Rat) :
    toSIVec s m (fromSIVec s m xs) = xs := by
  have h := to_from_table s hs m hm
  simp only [toSIVec, fromSIVec, List.map_map]
  conv => rhs; rw [← List.map_id xs]
  apply List.map_congr_left
  intro x _
  simp only [Function.comp, num_mul, num_add, num_sub, id]
  linear_combination (x - s.toSIOffset.getD m zero) * h

theorem vec_roundtrip' (s : SysDef Rat) (hs : s ∈ systems Rat) (m : Nat) (hm : m < nMeasure) (xs : List Rat) :
    fromSIVec s m (toSIVec s m xs) = xs := by
  have h := to_from_table s hs m hm
  simp only [toSIVec, fromSIVec, List.map_map]
  conv => rhs; rw [← List.map_id xs]
  apply List.map_congr_left
  intro x _
  simp only [Function.comp, num_mul, num_add, num_sub, id]
  linear_combination x * h

/-- `convertToSI ∘ convertFromSI` gives back every vector of an SI-state solution -/
theorem solution_roundtrip (s : SysDef Rat) (hs : s ∈ systems Rat) (sol : Sol Rat) (hsi : sol.si = true)
    (hm : ∀ c ∈ sol.cells, c.1 < nMeasure) :
    (sol.convertFromSI s).convertToSI s = sol := by
  obtain ⟨si, cells⟩ := sol
  simp only at hsi hm
  subst hsi
  simp only [Sol.convertFromSI, Sol.convertToSI, Bool.not_true, Bool.false_eq_true, if_false, List.map_map,
    Sol.mk.injEq, true_and]
  conv => rhs; rw [← List.map_id cells]
  apply List.map_congr_left
  intro c hc
  obtain ⟨m, xs⟩ := c
  simp only [Function.comp, id]
  by_cases hid : m = identityIdx
  · simp [hid]
  · simp only [hid, if_false, Prod.mk.injEq, true_and]
    exact vec_roundtrip s hs m (hm _ hc) xs

/-- … and `convertFromSI ∘ convertToSI` on a solution in output units -/
theorem solution_roundtrip' (s : SysDef Rat) (hs : s ∈ systems Rat) (sol : Sol Rat) (hsi : sol.si = false)
    (hm : ∀ c ∈ sol.cells, c.1 < nMeasure) :
    (sol.convertToSI s).convertFromSI s = sol := by
  obtain ⟨si, cells⟩ := sol
  simp only at hsi hm
  subst hsi
  simp only [Sol.convertFromSI, Sol.convertToSI, Bool.not_true, Bool.false_eq_true, if_false, List.map_map,
    Sol.mk.injEq, true_and]
  conv => rhs; rw [← List.map_id cells]
  apply List.map_congr_left
  intro c hc
  obtain ⟨m, xs⟩ := c
  simp only [Function.comp, id]
  by_cases hid : m = identityIdx
  · simp [hid]
  · simp only [hid, if_false, Prod.mk.injEq, true_and]
    exact vec_roundtrip' s hs m (hm _ hc) xs

/-- converting twice in the same direction converts once (the `si` flag) -/
theorem solution_idempotent (s : SysDef Rat) (sol : Sol Rat) :
    (sol.convertFromSI s).convertFromSI s = sol.convertFromSI s ∧
      (sol.convertToSI s).convertToSI s = sol.convertToSI s := by
  obtain ⟨si, cells⟩ := sol
  cases si <;> simp [Sol.convertFromSI, Sol.convertToSI]

/-! ### UDA items -/

/-- A UDA value that came from the deck converts exactly like element `i` of a double item
(active dimension `i mod n`): `get<UDAValue>(i).getSI()` is element `i` of the SI image. -/
theorem uda_deck_value (it : Item Rat) (wf : it.WF) (i : Nat) (x : Rat) (hx : it.dval[i]? = some x)
    (hst : (it.status.getD i .uninitialized).defaulted = false) :
    ∃ y, (siOf it.active it.dflt 0 it.dval it.status)[i]? = some y ∧
      (match it.uda i with | .si z => z = y | _ => False) := by
  obtain ⟨d, y, h1, h2, h3, _⟩ := siOf_getElem wf.lenD wf.ne wf.actOk wf.dfltOk 0 it.dval it.status i x hx
  refine ⟨y, h3, ?_⟩
  have hne : it.active.isEmpty = false := by
    cases hh : it.active with
    | nil => exact absurd hh wf.ne
    | cons _ _ => rfl
  unfold dimFor at h1
  simp only [hst, Bool.false_eq_true, if_false, Nat.zero_add] at h1
  simp only [Item.uda, hx, hne, Bool.false_eq_true, if_false, hst, h1, h2]

/-- A defaulted UDA value carries no number, only the DEFAULT dimension. -/
theorem uda_defaulted (it : Item Rat) (wf : it.WF) (i : Nat) (x : Rat) (hx : it.dval[i]? = some x)
    (hst : (it.status.getD i .uninitialized).defaulted = true) :
    ∃ d, it.dflt[i % it.active.length]? = some d ∧
      (match it.uda i with | .undefined d' => d' = d | _ => False) := by
  have hne : it.active.isEmpty = false := by
    cases hh : it.active with
    | nil => exact absurd hh wf.ne
    | cons _ _ => rfl
  obtain ⟨d, hd1, _⟩ := dimFor_ok wf.lenD wf.ne wf.actOk wf.dfltOk i (it.status.getD i .uninitialized)
  unfold dimFor at hd1
  simp only [hst, if_true] at hd1
  refine ⟨d, hd1, ?_⟩
  simp only [Item.uda, hx, hne, Bool.false_eq_true, if_false, hst, if_true, hd1]

end OpmVerif.Units
