/-
  Proofs about the input stack model: a layout over INCLUDE files gives the keyword sequence of
  the one-piece text (soundness, every file system), and — for an include graph without cycles
  along the statements that are read — every layout that has a one-piece text is accepted: the
  recursion check never fires, however often a file is read, closed by its end or by ENDINC.
-/
import OpmVerif.Model.IncStack

namespace OpmVerif.IncStack

/-! ### soundness -/

theorem run_sound (files : Files) :
    ∀ (fuel : Nat) (st : Stack) (deck ks : List Nat), run files fuel st deck = some ks →
      ∃ rest, ExpandsStack files st rest ∧ ks = deck ++ rest
  | 0, _, _, _, h => by simp [run] at h
  | _ + 1, [], deck, ks, h => by
    simp only [run, Option.some.injEq] at h
    exact ⟨[], .nil, by simp [h]⟩
  | n + 1, (p, []) :: st, deck, ks, h => by
    simp only [run] at h
    obtain ⟨rest, hs, hk⟩ := run_sound files n st deck ks h
    exact ⟨[] ++ rest, .cons .nil hs, by simpa using hk⟩
  | n + 1, (p, .kw k :: r) :: st, deck, ks, h => by
    simp only [run] at h
    obtain ⟨rest, hs, hk⟩ := run_sound files n ((p, r) :: st) (deck ++ [k]) ks h
    cases hs with
    | cons ha hb => exact ⟨_, .cons (.kw ha) hb, by simp [hk]⟩
  | n + 1, (p, .endinc :: r) :: st, deck, ks, h => by
    simp only [run] at h
    obtain ⟨rest, hs, hk⟩ := run_sound files n st deck ks h
    exact ⟨[] ++ rest, .cons .endinc hs, by simpa using hk⟩
  | n + 1, (p, .inc f :: r) :: st, deck, ks, h => by
    simp only [run] at h
    split at h
    · exact absurd h (by simp)
    · split at h
      · exact absurd h (by simp)
      · rename_i c hf
        obtain ⟨rest, hs, hk⟩ := run_sound files n ((f, c) :: (p, r) :: st) deck ks h
        cases hs with
        | cons ha hs' =>
          cases hs' with
          | cons hr hb => exact ⟨_, .cons (.inc hf ha hr) hb, by simp [hk, List.append_assoc]⟩

theorem expandsStack_single {files : Files} {p : Nat} {r : List Item} {rest : List Nat}
    (h : ExpandsStack files [(p, r)] rest) : Expands files r rest := by
  cases h with
  | cons ha hb => cases hb; simpa using ha

/-! ### completeness for include graphs without cycles -/

/-- every INCLUDE that is read of `r` names a file of smaller rank than `p`. -/
def IncsBelow (rank : Nat → Nat) (p : Nat) (r : List Item) : Prop :=
  ∀ g, Item.inc g ∈ live r → rank g < rank p

/-- the include graph has no cycle along the statements that are read: a rank that decreases
along every INCLUDE in front of the first ENDINC of a file that has a one-piece text. -/
def Acyclic (files : Files) (rank : Nat → Nat) : Prop :=
  ∀ f c, files f = some c → (∃ ks, Expands files c ks) → IncsBelow rank f c

/-- the file `p` has smaller rank than every open file. -/
def Above (rank : Nat → Nat) (p : Nat) (st : Stack) : Prop := ∀ q ∈ st, rank p < rank q.1

theorem isOpen_false {st : Stack} {f : Nat} (h : ∀ q ∈ st, q.1 ≠ f) : isOpen st f = false := by
  simp only [isOpen, List.any_eq_false, beq_iff_eq]
  intro q hq; exact h q hq

theorem incsBelow_tail_kw {rank : Nat → Nat} {p k : Nat} {r : List Item}
    (h : IncsBelow rank p (.kw k :: r)) : IncsBelow rank p r :=
  fun g hg => h g (by simp [live, hg])

theorem incsBelow_tail_inc {rank : Nat → Nat} {p f : Nat} {r : List Item}
    (h : IncsBelow rank p (.inc f :: r)) : IncsBelow rank p r :=
  fun g hg => h g (by simp [live, hg])

/-- reading one frame to its end (its own end or ENDINC) adds the keywords of its one-piece
text and leaves the frames below untouched; the recursion check does not fire on the way. -/
theorem frame_run (files : Files) (rank : Nat → Nat) (hac : Acyclic files rank) :
    ∀ {r : List Item} {ks : List Nat}, Expands files r ks → ∀ (p : Nat) (st : Stack) (deck : List Nat),
      IncsBelow rank p r → Above rank p st →
      ∃ k, ∀ m, run files (k + m) ((p, r) :: st) deck = run files m st (deck ++ ks) := by
  intro r ks h
  induction h with
  | nil =>
    intro p st deck _ _
    refine ⟨1, fun m => ?_⟩
    rw [Nat.add_comm]; simp [run]
  | @kw k r ks _ ih =>
    intro p st deck hb ha
    obtain ⟨k0, hk0⟩ := ih p st (deck ++ [k]) (incsBelow_tail_kw hb) ha
    refine ⟨k0 + 1, fun m => ?_⟩
    have e : k0 + 1 + m = (k0 + m) + 1 := by omega
    rw [e]; simp only [run]; rw [hk0 m]; simp
  | endinc =>
    intro p st deck _ _
    refine ⟨1, fun m => ?_⟩
    rw [Nat.add_comm]; simp [run]
  | @inc f c r a b hf hc _ ihc ihr =>
    intro p st deck hb ha
    have hfp : rank f < rank p := hb f (by simp [live])
    have hopen : isOpen ((p, r) :: st) f = false := by
      apply isOpen_false
      intro q hq
      rcases List.mem_cons.mp hq with rfl | hq
      · intro e; simp at e; subst e; omega
      · intro e; have := ha q hq; rw [e] at this; omega
    have habove : Above rank f ((p, r) :: st) := by
      intro q hq
      rcases List.mem_cons.mp hq with rfl | hq
      · exact hfp
      · exact Nat.lt_trans hfp (ha q hq)
    obtain ⟨k1, hk1⟩ := ihc f ((p, r) :: st) deck (hac f c hf ⟨a, hc⟩) habove
    obtain ⟨k2, hk2⟩ := ihr p st (deck ++ a) (incsBelow_tail_inc hb) ha
    refine ⟨k1 + k2 + 1, fun m => ?_⟩
    have e : k1 + k2 + 1 + m = (k1 + (k2 + m)) + 1 := by omega
    rw [e]; simp only [run, hopen, hf]
    rw [hk1 (k2 + m), hk2 m]; simp [List.append_assoc]

theorem run_complete (files : Files) (rank : Nat → Nat) (hac : Acyclic files rank)
    (root : Nat) (items : List Item) (ks : List Nat)
    (hroot : IncsBelow rank root items) (h : Expands files items ks) :
    ∃ fuel, run files fuel [(root, items)] [] = some ks := by
  obtain ⟨k, hk⟩ := frame_run files rank hac h root [] [] hroot (by intro q hq; cases hq)
  exact ⟨k + 1, by rw [hk 1]; simp [run]⟩

/-- more fuel never changes a result. -/
theorem run_mono (files : Files) :
    ∀ (fuel : Nat) (st : Stack) (deck ks : List Nat), run files fuel st deck = some ks →
      run files (fuel + 1) st deck = some ks
  | 0, _, _, _, h => by simp [run] at h
  | _ + 1, [], deck, ks, h => by simpa [run] using h
  | n + 1, (p, []) :: st, deck, ks, h => by
    simp only [run] at h ⊢; exact run_mono files n st deck ks h
  | n + 1, (p, .kw k :: r) :: st, deck, ks, h => by
    simp only [run] at h ⊢; exact run_mono files n _ _ ks h
  | n + 1, (p, .endinc :: r) :: st, deck, ks, h => by
    simp only [run] at h ⊢; exact run_mono files n st deck ks h
  | n + 1, (p, .inc f :: r) :: st, deck, ks, h => by
    simp only [run] at h ⊢
    split at h
    · exact absurd h (by simp)
    · rename_i ho
      rw [if_neg ho]
      split at h
      · exact absurd h (by simp)
      · rename_i c hf
        exact run_mono files n _ _ ks h

/-! ### the rank exists: the INCLUDE depth of a file's one-piece text -/

/-- `Expands` with the INCLUDE depth of the one-piece text. -/
inductive ExpandsD (files : Files) : Nat → List Item → List Nat → Prop
  | nil : ExpandsD files 0 [] []
  | kw {d k : Nat} {r : List Item} {ks : List Nat} : ExpandsD files d r ks → ExpandsD files d (.kw k :: r) (k :: ks)
  | endinc {r : List Item} : ExpandsD files 0 (.endinc :: r) []
  | inc {dc dr f : Nat} {c r : List Item} {a b : List Nat} :
      files f = some c → ExpandsD files dc c a → ExpandsD files dr r b →
      ExpandsD files (max (dc + 1) dr) (.inc f :: r) (a ++ b)

theorem expandsD_of_expands {files : Files} {l : List Item} {ks : List Nat} (h : Expands files l ks) :
    ∃ d, ExpandsD files d l ks := by
  induction h with
  | nil => exact ⟨0, .nil⟩
  | kw _ ih => obtain ⟨d, hd⟩ := ih; exact ⟨d, .kw hd⟩
  | endinc => exact ⟨0, .endinc⟩
  | inc hf _ _ ihc ihr => obtain ⟨dc, hc⟩ := ihc; obtain ⟨dr, hr⟩ := ihr; exact ⟨_, .inc hf hc hr⟩

theorem expandsD_depth_unique {files : Files} {d : Nat} {l : List Item} {ks : List Nat} (h : ExpandsD files d l ks) :
    ∀ {d' : Nat} {ks' : List Nat}, ExpandsD files d' l ks' → d = d' := by
  induction h with
  | nil => intro d' ks' h'; cases h'; rfl
  | kw _ ih => intro d' ks' h'; cases h' with | kw h'' => exact ih h''
  | endinc => intro d' ks' h'; cases h'; rfl
  | inc hf _ _ ihc ihr =>
    intro d' ks' h'
    cases h' with
    | inc hf' hc' hr' =>
      rw [hf] at hf'; cases hf'
      rw [ihc hc', ihr hr']

theorem expandsD_inc_live {files : Files} {d : Nat} {l : List Item} {ks : List Nat} (h : ExpandsD files d l ks) :
    ∀ g, Item.inc g ∈ live l → ∃ c dg a, files g = some c ∧ ExpandsD files dg c a ∧ dg < d := by
  induction h with
  | nil => intro g hg; simp [live] at hg
  | kw _ ih => intro g hg; simp [live] at hg; exact ih g hg
  | endinc => intro g hg; simp [live] at hg
  | @inc dc dr f c r a b hf hc _ _ ihr =>
    intro g hg
    simp [live] at hg
    rcases hg with rfl | hg
    · exact ⟨c, dc, a, hf, hc, by omega⟩
    · obtain ⟨c', dg, a', h1, h2, h3⟩ := ihr g hg
      exact ⟨c', dg, a', h1, h2, by omega⟩

open Classical in
/-- the INCLUDE depth of the one-piece text of file `f` (0 when there is none). -/
noncomputable def depthOf (files : Files) (f : Nat) : Nat :=
  if h : ∃ d, ∃ c ks, files f = some c ∧ ExpandsD files d c ks then Classical.choose h else 0

theorem depthOf_eq {files : Files} {f d : Nat} {c : List Item} {ks : List Nat}
    (hf : files f = some c) (hd : ExpandsD files d c ks) : depthOf files f = d := by
  have hex : ∃ d, ∃ c ks, files f = some c ∧ ExpandsD files d c ks := ⟨d, c, ks, hf, hd⟩
  unfold depthOf
  rw [dif_pos hex]
  obtain ⟨c', ks', hf', hd'⟩ := Classical.choose_spec hex
  rw [hf] at hf'; cases hf'
  exact expandsD_depth_unique hd' hd

theorem acyclic_depthOf (files : Files) : Acyclic files (depthOf files) := by
  intro f c hf ⟨ks, hks⟩ g hg
  obtain ⟨d, hd⟩ := expandsD_of_expands hks
  obtain ⟨cg, dg, a, hfg, hdg, hlt⟩ := expandsD_inc_live hd g hg
  rw [depthOf_eq hf hd, depthOf_eq hfg hdg]; exact hlt

theorem run_complete_full (files : Files) (root : Nat) (items : List Item) (ks : List Nat)
    (hroot : files root = some items) (h : Expands files items ks) :
    ∃ fuel, run files fuel [(root, items)] [] = some ks :=
  run_complete files (depthOf files) (acyclic_depthOf files) root items ks
    (acyclic_depthOf files root items hroot ⟨ks, h⟩) h

end OpmVerif.IncStack
