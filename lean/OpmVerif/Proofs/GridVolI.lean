/-
  Additivity of the generated volume formula under i-subdivision, at coefficient level
  (separate file so that Lake checks the three heavy `ring` identities in parallel).
-/
import Mathlib.Tactic.Ring
import Mathlib.Tactic.FieldSimp
import Mathlib.Tactic.NormNum
import Mathlib.Algebra.Order.Field.Basic
import OpmVerif.Gen.CellVol

namespace OpmVerif.Grid
open OpmVerif.Gen.CellVol

variable {K : Type} [Field K] [CharZero K]

/-- Coefficients of the half cell keeping the `i = 0` face. -/
def lowerCI (c : Nat → Nat → Nat → K) : Nat → Nat → Nat → K :=
  fun a b g => if a = 0 then c 0 b g else c 1 b g / 2

/-- Coefficients of the half cell keeping the `i = 1` face. -/
def upperCI (c : Nat → Nat → Nat → K) : Nat → Nat → Nat → K :=
  fun a b g => if a = 0 then c 0 b g + c 1 b g / 2 else c 1 b g / 2

set_option maxHeartbeats 40000000 in
set_option maxRecDepth 100000 in
theorem signedVolOf_splitI (cX cY cZ : Nat → Nat → Nat → K) :
    signedVolOf (lowerCI cX) (lowerCI cY) (lowerCI cZ) + signedVolOf (upperCI cX) (upperCI cY) (upperCI cZ)
      = signedVolOf cX cY cZ := by
  simp only [signedVolOf, innerLoop, permutation, pqrArray, cprodOf, denom, lowerCI, upperCI,
    List.foldl_cons, List.foldl_nil]
  norm_num
  ring

end OpmVerif.Grid
