/-
  C02 — hand-written specification for the users of the unit machinery (definitions only).
  Nothing here is generated: it says what a composite dimension string DENOTES (its own small
  reading of `a*b/c*d`, independent of the model's `split`/`parseFactor`), which deck item each
  UDA control belongs to, and which entries are known to be open findings on the real code.
-/
import OpmVerif.Proofs.UnitsSpec
import OpmVerif.Model.UnitsUse

namespace OpmVerif.Units.Spec
open OpmVerif.Gen.Units OpmVerif.Gen.UnitsUse

/-- plain splitting at `d` (keeps every piece, also empty ones) -/
def pieces (d : Char) : List Char → List (List Char)
  | [] => [[]]
  | c :: cs =>
    match pieces d cs with
    | [] => [[c]]                                  -- unreachable
    | p :: ps => if c = d then [] :: p :: ps else (c :: p) :: ps

def names (cs : List Char) : List String := (pieces '*' cs).map String.ofList

/-- what a composite string denotes in system `s`: (product of the numerator's named dimensions) /
(product of the denominator's), all offset-free and finite -/
def compositeValue (s : SysDef Rat) (cs : List Char) : Option Rat :=
  match pieces '/' cs with
  | [n] => dimProd s (names n)
  | [n, d] =>
    match dimProd s (names n), dimProd s (names d) with
    | some p, some q => some (p / q)
    | _, _ => none
  | _ => none

/-- a keyword item dimension is in order in `s`: it resolves as `ParserItem::scan` resolves it; a
registered name gives the table entry itself (scale and offset; "ContextDependent" its factor-less
entry), a composite gives offset 0 and the product/quotient of its parts' table factors; and the
string is not one of those on which `parse` has undefined behaviour -/
def itemDimOk (s : SysDef Rat) (str : String) : Bool :=
  !parseUB str.toList &&
  match getNewDimension s str with
  | none => false
  | some d =>
    match getDimension s str with
    | some t => d == t
    | none => d.offset == 0 && d.scale.isSome && d.scale == compositeValue s str.toList

/-- a string the string overloads `to_si/from_si(string, x)` accept with the same meaning -/
def parseOk (s : SysDef Rat) (str : String) : Bool :=
  !parseUB str.toList &&
  match parse s str with
  | none => false
  | some d =>
    match getDimension s str with
    | some t => d == t && d.scale.isSome
    | none => d.offset == 0 && d.scale.isSome && d.scale == compositeValue s str.toList

/-- names the INPUT pseudo system does not register (`initINPUT` has no "Ymodule") -/
def inputLacks : List String := ["Ymodule"]

/-- FieldProps keywords whose `unit_string` does not parse: none (YMODULE's "Giga*Pascal" was fixed
in 0d2fae2e6) -/
def fieldPropsOpen : List String := []

/-- FieldProps keywords whose `unit_string` differs from the dimension of the keyword's own JSON item:
none (YMODULE, THELCOEF, HEATCR, HEATCRT were fixed in 0d2fae2e6) -/
def fieldPropsMismatchOpen : List String := []

/-- UDA controls whose `uda_dim` differs from the dimension of the deck item (OPEN FINDINGS, only
visible when a run is restarted with such a UDA active):
* the RESV limits get `geometric_volume_rate` (FIELD: ft³/day) while the items WCONPROD/WCONINJE/GCONINJE
  RESV carry rb/day (factor 5.6146 in FIELD, equal in METRIC/LAB/PVT-M).  A repair (ee5075475) was taken
  back in dc1eee513 because tests/parser/UnitTests.cpp (UDA_Dimensions/Field) pins FT3/DAY;
* the ALQ item of WCONPROD has no dimension (factor 1) but `uda_dim(WCONPROD_LIFT)` says
  `gas_surface_rate` (marked @TODO in the source; depends on the VFP table's ALQ type).
(`WELTARG_RESV` has no fixed deck item — WELTARG's NEW_VALUE is context dependent — so it is outside
the comparison.) -/
def udaOpen : List String := ["WCONINJE_RESV", "WCONPROD_RESV", "GCONINJE_RESV_MAX_RATE", "WCONPROD_LIFT"]

/-- the (first) dimensioned item of keyword `kw` in the keyword JSON -/
def itemDimsOfKw (kw : String) : Option (List String) :=
  (keywordItemDims.find? (fun e => e.1.startsWith (kw ++ ".0."))).map (·.2)

/-- the FieldProps unit string means the same as the keyword's own item dimension -/
def fieldPropsMatch (s : SysDef Rat) (e : String × String × String) : Bool :=
  match itemDimsOfKw e.2.1 with
  | some [str] => parse s e.2.2 == getNewDimension s str && (parse s e.2.2).isSome
  | _ => false

/-- the deck item a UDA control limits: `KEYWORD.record.ITEM` of the keyword JSON -/
def udaItem : List (String × String) := [
  ("WCONPROD_ORAT", "WCONPROD.0.ORAT"), ("WCONPROD_WRAT", "WCONPROD.0.WRAT"), ("WCONPROD_GRAT", "WCONPROD.0.GRAT"),
  ("WCONPROD_LRAT", "WCONPROD.0.LRAT"), ("WCONPROD_RESV", "WCONPROD.0.RESV"), ("WCONPROD_BHP", "WCONPROD.0.BHP"),
  ("WCONPROD_THP", "WCONPROD.0.THP"), ("WCONPROD_LIFT", "WCONPROD.0.ALQ"),
  ("WCONINJE_RATE", "WCONINJE.0.RATE"), ("WCONINJE_RESV", "WCONINJE.0.RESV"), ("WCONINJE_BHP", "WCONINJE.0.BHP"),
  ("WCONINJE_THP", "WCONINJE.0.THP"),
  ("GCONPROD_OIL_TARGET", "GCONPROD.0.OIL_TARGET"), ("GCONPROD_WATER_TARGET", "GCONPROD.0.WATER_TARGET"),
  ("GCONPROD_GAS_TARGET", "GCONPROD.0.GAS_TARGET"), ("GCONPROD_LIQUID_TARGET", "GCONPROD.0.LIQUID_TARGET"),
  ("GCONINJE_SURFACE_MAX_RATE", "GCONINJE.0.SURFACE_TARGET"), ("GCONINJE_RESV_MAX_RATE", "GCONINJE.0.RESV_TARGET"),
  ("GCONINJE_TARGET_REINJ_FRACTION", "GCONINJE.0.REINJ_TARGET"), ("GCONINJE_TARGET_VOID_FRACTION", "GCONINJE.0.VOIDAGE_TARGET")]

def itemDimsOf (key : String) : Option (List String) := (keywordItemDims.find? (·.1 == key)).map (·.2)

/-- does `uda_dim(control)` equal the dimension the parser attaches to the control's deck item?
(items without a dimension: `1`; "ContextDependent" items: the consumer converts, `uda_dim` must
be `identity`) -/
def udaOk (s : SysDef Rat) (e : String × String) : Bool :=
  match udaItem.find? (·.1 == e.1) with
  | none => e.1.startsWith "WELTARG_"      -- WELTARG's NEW_VALUE is context dependent by construction
  | some (_, key) =>
    let want : Option (Dim Rat) :=
      match itemDimsOf key with
      | none => some ⟨some 1, 0⟩
      | some ["ContextDependent"] => some ⟨some 1, 0⟩
      | some [str] => getNewDimension s str
      | some _ => none
    want == some (measureDim s (measureIdx e.2))

end OpmVerif.Units.Spec
