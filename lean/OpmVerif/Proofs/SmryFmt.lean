import OpmVerif.Proofs.EclFmtFile
import OpmVerif.Model.SmryFmt

namespace OpmVerif.SmryFmt
open OpmVerif.Ecl OpmVerif.EclFmt

def MiniStep.WF (m : MiniStep) : Prop :=
  m.seq < 2147483648 ∧ m.id < 2147483648 ∧ m.fields.length < 2147483648 ∧
    ∀ f ∈ m.fields, GoodField f ∧ f.length = Gen.EclIO.columnWidthReal

theorem inteArr_WF (name : List Char) (hn : NameOk name) (n : Nat) (h : n < 2147483648) :
    FArr.WF { name := name, t := .inte, ints := [(n : Int)] } := by
  refine ⟨hn, by simp [FArr.size], ?_, ?_, ?_, ?_⟩
  · intro k hk; simp at hk
  · intro _ x hx; simp at hx; subst hx; unfold InInt32; omega
  · rintro (h | ⟨k, h⟩) <;> simp at h
  · rintro (h | h) <;> simp at h

theorem paramsArr_WF (fs : List (List Char)) (hl : fs.length < 2147483648)
    (hf : ∀ f ∈ fs, GoodField f ∧ f.length = Gen.EclIO.columnWidthReal) : (paramsArr fs).WF := by
  have hn : NameOk paramsName := ⟨rfl, by decide⟩
  refine ⟨hn, by simpa [FArr.size, paramsArr] using hl, ?_, ?_, ?_, ?_⟩
  · intro k hk; simp [paramsArr] at hk
  · intro h; simp [paramsArr] at h
  · rintro (h | ⟨k, h⟩) <;> simp [paramsArr] at h
  · intro _ f hfm; exact hf f hfm

theorem writeSteps_WF : ∀ (steps : List MiniStep) (prev : Int), (∀ m ∈ steps, m.WF) →
    ∀ a ∈ writeSteps prev steps, a.WF := by
  intro steps
  induction steps with
  | nil => intro _ _ a ha; simp [writeSteps] at ha
  | cons m rest ih =>
    intro prev hw a ha
    obtain ⟨h1, h2, h3, h4⟩ := hw m (by simp)
    simp only [writeSteps, List.mem_append, List.mem_cons, List.mem_nil_iff, or_false] at ha
    rcases ha with (ha | ha | ha) | ha
    · split at ha
      · simp at ha; subst ha; exact inteArr_WF _ ⟨rfl, by decide⟩ _ h1
      · simp at ha
    · subst ha; exact inteArr_WF _ ⟨rfl, by decide⟩ _ h2
    · subst ha; exact paramsArr_WF _ h3 h4
    · exact ih _ (fun x hx => hw x (by simp [hx])) a ha

/-- the PARAMS token lists of the reader's result are, array by array and vector by vector,
the rendered fields. -/
theorem paramsOf_rel : ∀ (steps : List MiniStep) (prev : Int) (ds : List (List Char × ArrType × FData)),
    All2 EntryRel (writeSteps prev steps) ds →
    All2 (fun (m : MiniStep) (ts : List (List Char)) => All2 TokRel m.fields ts) steps (paramsOf ds) := by
  intro steps
  induction steps with
  | nil => intro prev ds h; cases h; exact All2.nil
  | cons m rest ih =>
    intro prev ds h
    have key : ∀ (q : Int) ds', All2 EntryRel (ministepArr m.id :: paramsArr m.fields ::
        writeSteps q rest) ds' →
        All2 (fun (m : MiniStep) (ts : List (List Char)) => All2 TokRel m.fields ts) (m :: rest) (paramsOf ds') := by
      intro q ds' h'
      cases h' with
      | cons hr1 h'' =>
        cases h'' with
        | cons hr2 h''' =>
          obtain ⟨hn1, _, _⟩ := hr1
          obtain ⟨hn2, _, hd2⟩ := hr2
          obtain ⟨toks, hdt, hrel⟩ : ∃ toks, _ = FData.toks toks ∧ All2 TokRel m.fields toks := by
            simpa [DataRel, paramsArr] using hd2
          have hne : ¬ (ministepName = paramsName) := by decide
          simp only [paramsOf, List.filterMap_cons, hn1, ministepArr, hne, if_false, hn2, paramsArr, if_true, hdt]
          exact All2.cons hrel (ih q _ h''')
    by_cases hp : prev < (m.seq : Int)
    · simp only [writeSteps, hp, if_true, List.cons_append, List.nil_append] at h
      cases h with
      | cons hr0 h' =>
        obtain ⟨hn0, _, _⟩ := hr0
        have hne : ¬ (seqhdrName = paramsName) := by decide
        have := key _ _ h'
        simpa [paramsOf, List.filterMap_cons, hn0, seqhdrArr, hne] using this
    · simp only [writeSteps, hp, if_false, List.cons_append, List.nil_append] at h
      exact key _ _ h

/-- **Formatted summary data**: every (vector, ministep) value of a formatted unified summary
file is delivered to the reader as the field that was written for it. -/
theorem series_roundtrip (steps : List MiniStep) (hwf : ∀ m ∈ steps, m.WF) (prev : Int) :
    ∃ ds, decodeFmtFile (encodeFmtFile (writeSteps prev steps)) = some ds ∧
      All2 (fun (m : MiniStep) (ts : List (List Char)) => All2 TokRel m.fields ts) steps (paramsOf ds) := by
  obtain ⟨ds, hd, hrel⟩ := formatted_roundtrip (writeSteps prev steps) (writeSteps_WF steps prev hwf)
  exact ⟨ds, hd, paramsOf_rel steps prev ds hrel⟩

end OpmVerif.SmryFmt
