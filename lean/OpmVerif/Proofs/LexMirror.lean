/-
  `find_terminator` as written in Parser.cpp (recursion over positions, `std::find`,
  `std::find_if`) computes exactly what the one-pass state machine `cutAt` of the model
  computes — for every byte string, with fuel `length + 1` (so the C++ recursion
  terminates, and every `find` is called on a valid sub-range).
-/
import OpmVerif.Proofs.Lex

namespace OpmVerif.Lex

/-- index of the first position where the terminator test succeeds, or the length. -/
def findPos (isT : Bytes → Bool) : Bytes → Nat
  | [] => 0
  | c :: r => if isT (c :: r) then 0 else findPos isT r + 1

theorem findCommentPos_eq (l : Bytes) : findCommentPos l = findPos isCommentAt l := by
  induction l with
  | nil => rfl
  | cons c r ih => simp only [findCommentPos, findPos, ih]

theorem findSlashPos_eq (l : Bytes) : findSlashPos l = findPos isSlashAt l := by
  unfold findSlashPos
  induction l with
  | nil => rfl
  | cons c r ih =>
    simp only [findIdx, findPos, isSlashAt, ih]
    by_cases h : (c == 47) = true <;> simp [h]

theorem findPos_le (isT : Bytes → Bool) (l : Bytes) : findPos isT l ≤ l.length := by
  induction l with
  | nil => exact Nat.le_refl 0
  | cons c r ih => simp only [findPos]; split <;> simp <;> omega

theorem findIdx_le (p : UInt8 → Bool) (l : Bytes) : findIdx p l ≤ l.length := by
  induction l with
  | nil => exact Nat.le_refl 0
  | cons c r ih => simp only [findIdx]; split <;> simp <;> omega

/-- no terminator anywhere: everything is kept, whatever the quotes. -/
theorem cutAt_len_noterm (isT : Bytes → Bool) : ∀ (l : Bytes) (st : Option UInt8),
    findPos isT l = l.length → (cutAt isT 0 st l).length = l.length := by
  intro l
  induction l with
  | nil => intro st _; cases st <;> rfl
  | cons c r ih =>
    intro st h
    simp only [findPos] at h
    split at h
    · simp at h
    · next hT =>
      have hr : findPos isT r = r.length := by simpa using h
      cases st with
      | none => simp only [cutAt, hT, Bool.false_eq_true, ↓reduceIte, List.length_cons, ih _ hr]
      | some q => simp only [cutAt, List.length_cons, ih _ hr]

/-- terminator before the first quote: cut there. -/
theorem cutAt_len_noquote (isT : Bytes → Bool) : ∀ (l : Bytes),
    findPos isT l ≤ findIdx isQuote l → (cutAt isT 0 none l).length = findPos isT l := by
  intro l
  induction l with
  | nil => intro _; rfl
  | cons c r ih =>
    intro h
    simp only [findPos, findIdx] at h ⊢
    by_cases hT : isT (c :: r) = true
    · simp [cutAt, hT]
    · simp only [hT, Bool.false_eq_true, ↓reduceIte] at h ⊢
      have hq : isQuote c = false := by
        cases hc : isQuote c with
        | false => rfl
        | true => rw [hc] at h; simp at h
      simp only [hq, Bool.false_eq_true, ↓reduceIte] at h
      simp only [cutAt, hT, Bool.false_eq_true, ↓reduceIte, stepQ, hq, List.length_cons]
      rw [ih (by omega)]

/-- inside a quotation opened by `q`: up to the closing `q`, or to the end. -/
theorem cutAt_len_inquote (isT : Bytes → Bool) (q : UInt8) : ∀ (a : Bytes),
    (cutAt isT 0 (some q) a).length =
      if findIdx (· == q) a = a.length then a.length
      else findIdx (· == q) a + 1 + (cutAt isT 0 none (a.drop (findIdx (· == q) a + 1))).length := by
  intro a
  induction a with
  | nil => rfl
  | cons c r ih =>
    simp only [cutAt, findIdx, List.length_cons]
    by_cases hc : c = q
    · subst hc
      simp [stepQ]
      omega
    · have hb : (c == q) = false := by simpa using hc
      simp only [hb, Bool.false_eq_true, ↓reduceIte, stepQ, hc, ih, List.drop_succ_cons]
      split
      · next h => simp [h]
      · next h =>
        have : ¬ (findIdx (fun x => x == q) r + 1 = r.length + 1) := by omega
        simp only [this, ↓reduceIte]
        omega

/-- first quote before the terminator: pass the text before it, enter the quotation. -/
theorem cutAt_len_toquote (isT : Bytes → Bool) : ∀ (l : Bytes) (q : UInt8) (a : Bytes),
    findIdx isQuote l < findPos isT l → l.drop (findIdx isQuote l) = q :: a →
      (cutAt isT 0 none l).length = findIdx isQuote l + 1 + (cutAt isT 0 (some q) a).length := by
  intro l
  induction l with
  | nil => intro q a h; simp [findIdx, findPos] at h
  | cons c r ih =>
    intro q a h hd
    simp only [findPos, findIdx] at h hd ⊢
    by_cases hT : isT (c :: r) = true
    · simp [hT] at h
    · simp only [hT, Bool.false_eq_true, ↓reduceIte] at h
      by_cases hq : isQuote c = true
      · simp only [hq, ↓reduceIte, List.drop_zero, List.cons.injEq] at hd ⊢
        obtain ⟨rfl, rfl⟩ := hd
        simp only [cutAt, hT, Bool.false_eq_true, ↓reduceIte, stepQ, hq, List.length_cons]
        omega
      · simp only [hq, Bool.false_eq_true, ↓reduceIte, List.drop_succ_cons] at h hd ⊢
        simp only [cutAt, hT, Bool.false_eq_true, ↓reduceIte, stepQ, hq, List.length_cons]
        rw [ih q a (by omega) hd]
        omega

theorem drop_findPos (isT : Bytes → Bool) : ∀ (l : Bytes), findPos isT l < l.length →
    ∃ c r, l.drop (findPos isT l) = c :: r ∧ isT (c :: r) = true := by
  intro l
  induction l with
  | nil => intro h; simp at h
  | cons c r ih =>
    intro h
    simp only [findPos] at h ⊢
    by_cases hT : isT (c :: r) = true
    · exact ⟨c, r, by simp [hT], hT⟩
    · simp only [hT, Bool.false_eq_true, ↓reduceIte, List.length_cons, List.drop_succ_cons] at h ⊢
      exact ih (by omega)

theorem drop_findIdx (p : UInt8 → Bool) : ∀ (l : Bytes), findIdx p l < l.length →
    ∃ c r, l.drop (findIdx p l) = c :: r ∧ p c = true := by
  intro l
  induction l with
  | nil => intro h; simp at h
  | cons c r ih =>
    intro h
    simp only [findIdx] at h ⊢
    by_cases hp : p c = true
    · exact ⟨c, r, by simp [hp], hp⟩
    · simp only [hp, Bool.false_eq_true, ↓reduceIte, List.length_cons, List.drop_succ_cons] at h ⊢
      exact ih (by omega)

/-- **The C++ `find_terminator` equals the state machine** (given that a terminator never
starts with a quote character — true of `--` and `/`). -/
theorem findTerminatorM_eq (isT : Bytes → Bool) (hTq : ∀ c r, isT (c :: r) = true → isQuote c = false) :
    ∀ (fuel : Nat) (l : Bytes), l.length < fuel →
      findTerminatorM (findPos isT) fuel l = (cutAt isT 0 none l).length := by
  intro fuel
  induction fuel with
  | zero => intro l h; omega
  | succ fuel ih =>
    intro l hl
    simp only [findTerminatorM]
    by_cases h0 : findPos isT l = 0 ∨ findPos isT l = l.length
    · simp only [h0, ↓reduceIte]
      rcases h0 with h0 | h0
      · rw [cutAt_len_noquote isT l (by omega)]
      · rw [cutAt_len_noterm isT l none h0, h0]
    · simp only [h0, ↓reduceIte]
      have hpos : findPos isT l < l.length := by
        have := findPos_le isT l; omega
      by_cases h1 : findIdx isQuote l = l.length ∨ findPos isT l < findIdx isQuote l
      · simp only [h1, ↓reduceIte]
        rw [cutAt_len_noquote isT l (by rcases h1 with h | h <;> omega)]
      · simp only [h1, ↓reduceIte]
        have hqb : findIdx isQuote l < l.length := by
          have := findIdx_le isQuote l; omega
        obtain ⟨q, a, hd, hq⟩ := drop_findIdx isQuote l hqb
        obtain ⟨c, r, hdp, hT⟩ := drop_findPos isT l hpos
        have hne : findIdx isQuote l ≠ findPos isT l := by
          intro e
          rw [e, hdp] at hd
          cases hd
          rw [hTq q a hT] at hq; cases hq
        have hlt : findIdx isQuote l < findPos isT l := by omega
        have hlen : l.length = findIdx isQuote l + (a.length + 1) := by
          have := congrArg List.length hd
          simp only [List.length_drop, List.length_cons] at this
          omega
        rw [hd]
        simp only
        rw [cutAt_len_toquote isT l q a hlt hd, cutAt_len_inquote isT q a]
        by_cases hk : findIdx (· == q) a = a.length
        · simp only [hk, ↓reduceIte]; omega
        · simp only [hk, ↓reduceIte]
          rw [ih _ (by
            have := findIdx_le (· == q) a
            simp only [List.length_drop]; omega)]
          omega

/-- `strip_comments` as written = `stripComments` of the model. -/
theorem stripCommentsM_eq (l : Bytes) : stripCommentsM l = stripComments l := by
  unfold stripCommentsM stripComments
  have hf : findTerminatorM findCommentPos (l.length + 1) l = (cutAt isCommentAt 0 none l).length := by
    have : findCommentPos = findPos isCommentAt := funext findCommentPos_eq
    rw [this]
    exact findTerminatorM_eq isCommentAt (by
      intro c r h
      cases r with
      | nil => simp [isCommentAt] at h
      | cons d r' =>
        simp only [isCommentAt, Bool.and_eq_true, beq_iff_eq] at h
        rw [h.1]; decide) _ l (by omega)
  rw [hf]
  exact (List.prefix_iff_eq_take.mp (cutAt_prefix isCommentAt 0 l none)).symm

/-- keeping the slash = cutting one byte later (when a slash was found). -/
theorem cutAt_keep1 : ∀ (l : Bytes) (st : Option UInt8),
    cutAt isSlashAt 1 st l =
      l.take (if (cutAt isSlashAt 0 st l).length = l.length then l.length
              else (cutAt isSlashAt 0 st l).length + 1) := by
  intro l
  induction l with
  | nil => intro st; cases st <;> simp [cutAt]
  | cons c r ih =>
    intro st
    have hstep : ∀ st', cutAt isSlashAt 1 st' r = r.take (if (cutAt isSlashAt 0 st' r).length = r.length
        then r.length else (cutAt isSlashAt 0 st' r).length + 1) := ih
    cases st with
    | some q =>
      simp only [cutAt, List.length_cons, hstep]
      split
      · next h => simp [h]
      · next h =>
        have : ¬ ((cutAt isSlashAt 0 (stepQ (some q) c) r).length + 1 = r.length + 1) := by omega
        simp only [this, ↓reduceIte, List.take_succ_cons]
    | none =>
      by_cases hT : isSlashAt (c :: r) = true
      · simp [cutAt, hT]
      · simp only [cutAt, hT, Bool.false_eq_true, ↓reduceIte, List.length_cons, hstep]
        split
        · next h => simp [h]
        · next h =>
          have : ¬ ((cutAt isSlashAt 0 (stepQ none c) r).length + 1 = r.length + 1) := by omega
          simp only [this, ↓reduceIte, List.take_succ_cons]

/-- `del_after_first_slash` as written = `delAfterFirstSlash` of the model. -/
theorem delAfterFirstSlashM_eq (l : Bytes) : delAfterFirstSlashM l = delAfterFirstSlash l := by
  unfold delAfterFirstSlashM delAfterFirstSlash
  have hf : findTerminatorM findSlashPos (l.length + 1) l = (cutAt isSlashAt 0 none l).length := by
    have : findSlashPos = findPos isSlashAt := funext findSlashPos_eq
    rw [this]
    exact findTerminatorM_eq isSlashAt (by
      intro c r h
      simp only [isSlashAt, beq_iff_eq] at h
      rw [h]; decide) _ l (by omega)
  simp only [hf]
  rw [cutAt_keep1 l none]
  split
  · next h => rw [h]
  · rfl

end OpmVerif.Lex
