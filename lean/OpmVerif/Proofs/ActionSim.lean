/-
  Third round: several actions over report steps (`Actions::pending` + `State::add_run`) refine the
  single-action `drive`; `Actions::add`; token classification; `fnmatch` patterns.
-/
import OpmVerif.Proofs.Action
import OpmVerif.Model.ActionTok

namespace OpmVerif.Act

/-! ### the state map -/

theorem AState.set_same (s : AState) (k : Key) (v : RunState) : (s.set k v) k = v := by
  simp [AState.set]

theorem AState.set_other (s : AState) (k k' : Key) (v : RunState) (h : k' ≠ k) : (s.set k v) k' = s k' := by
  simp [AState.set, h]

theorem runsOf_append (k : Key) (a b : List (Key × Int)) : runsOf k (a ++ b) = runsOf k a ++ runsOf k b := by
  simp [runsOf, List.filterMap_append]

/-- one report step over a list of actions with pairwise distinct identities: exactly the listed
actions whose condition holds get one run at `t`, every other entry of the state is untouched -/
theorem runStep_proj (t : Int) (oc : Key → Bool) : ∀ (l : List ActDef) (s : AState) (k : Key),
    (l.map (·.key)).Nodup →
    ((k ∈ l.map (·.key) ∧ oc k = true) →
      (runStep t oc s l).1 k = addRun (s k) t ∧ runsOf k (runStep t oc s l).2 = [t]) ∧
    (¬ (k ∈ l.map (·.key) ∧ oc k = true) →
      (runStep t oc s l).1 k = s k ∧ runsOf k (runStep t oc s l).2 = [])
  | [], s, k, _ => by simp [runStep, runsOf]
  | a :: r, s, k, hnd => by
    simp only [List.map_cons, List.nodup_cons] at hnd
    obtain ⟨hnot, hnd'⟩ := hnd
    by_cases hoc : oc a.key = true
    · -- a runs
      have ih := runStep_proj t oc r (s.set a.key (addRun (s a.key) t)) k hnd'
      simp only [runStep, hoc, if_true]
      by_cases hk : k = a.key
      · subst hk
        have h2 := ih.2 (by intro h; exact hnot h.1)
        rw [AState.set_same] at h2
        constructor
        · intro _
          refine ⟨h2.1, ?_⟩
          have : runsOf a.key ((a.key, t) :: (runStep t oc (s.set a.key (addRun (s a.key) t)) r).2) =
              t :: runsOf a.key (runStep t oc (s.set a.key (addRun (s a.key) t)) r).2 := by
            simp [runsOf]
          rw [this, h2.2]
        · intro h; exact absurd ⟨by simp, hoc⟩ h
      · have hs : (s.set a.key (addRun (s a.key) t)) k = s k := AState.set_other _ _ _ _ hk
        have hlog : runsOf k ((a.key, t) :: (runStep t oc (s.set a.key (addRun (s a.key) t)) r).2) =
            runsOf k (runStep t oc (s.set a.key (addRun (s a.key) t)) r).2 := by
          simp [runsOf, Ne.symm hk]
        rw [hlog]
        rw [hs] at ih
        constructor
        · intro h
          have hm : k ∈ r.map (·.key) := by
            rcases List.mem_cons.mp h.1 with h' | h'
            · exact absurd h' hk
            · exact h'
          exact ih.1 ⟨hm, h.2⟩
        · intro h
          exact ih.2 (by intro h'; exact h ⟨List.mem_cons_of_mem _ h'.1, h'.2⟩)
    · have ih := runStep_proj t oc r s k hnd'
      simp only [runStep, hoc]
      constructor
      · intro h
        have hm : k ∈ r.map (·.key) := by
          rcases List.mem_cons.mp h.1 with h' | h'
          · rw [h'] at h; exact absurd h.2 hoc
          · exact h'
        exact ih.1 ⟨hm, h.2⟩
      · intro h
        by_cases hm : k ∈ r.map (·.key) ∧ oc k = true
        · exact absurd ⟨List.mem_cons_of_mem _ hm.1, hm.2⟩ h
        · exact ih.2 hm

theorem inj_of_nodup_map {α β : Type} (f : α → β) : ∀ {l : List α}, (l.map f).Nodup →
    ∀ {a b : α}, a ∈ l → b ∈ l → f a = f b → a = b
  | [], _, _, _, ha, _, _ => by cases ha
  | x :: xs, h, a, b, ha, hb, hab => by
    simp only [List.map_cons, List.nodup_cons] at h
    rcases List.mem_cons.mp ha with rfl | ha' <;> rcases List.mem_cons.mp hb with rfl | hb'
    · rfl
    · exact absurd (List.mem_map.mpr ⟨b, hb', hab.symm⟩) h.1
    · exact absurd (List.mem_map.mpr ⟨a, ha', hab⟩) h.1
    · exact inj_of_nodup_map f h.2 ha' hb' hab

theorem nodup_of_map {α β : Type} (g : α → β) : ∀ {l : List α}, (l.map g).Nodup → l.Nodup
  | [], _ => List.nodup_nil
  | x :: xs, h => by
    simp only [List.map_cons, List.nodup_cons] at h ⊢
    exact ⟨fun hx => h.1 (List.mem_map.mpr ⟨x, hx, rfl⟩), nodup_of_map g h.2⟩

theorem key_inj {acts : List ActDef} (hnd : (acts.map (·.key)).Nodup) {a b : ActDef}
    (ha : a ∈ acts) (hb : b ∈ acts) (h : a.key = b.key) : a = b :=
  inj_of_nodup_map (·.key) hnd ha hb h

theorem pending_nodup (acts : List ActDef) (s : AState) (t : Int) (hnd : (acts.map (·.key)).Nodup) :
    ((pendingA acts s t).map (·.key)).Nodup :=
  List.Nodup.sublist (List.Sublist.map _ List.filter_sublist) hnd

theorem mem_pending_keys (acts : List ActDef) (s : AState) (t : Int) (hnd : (acts.map (·.key)).Nodup)
    (a : ActDef) (ha : a ∈ acts) :
    a.key ∈ (pendingA acts s t).map (·.key) ↔ ready a.lim (s a.key) t = true := by
  simp only [pendingA, List.mem_map, List.mem_filter]
  constructor
  · rintro ⟨b, ⟨hb, hr⟩, hk⟩
    have : b = a := key_inj hnd hb ha hk
    subst this; exact hr
  · intro hr; exact ⟨a, ⟨ha, hr⟩, rfl⟩

/-- **refinement**: in a simulation with any number of actions, the runs of one action are exactly
what the single-action machine `drive` produces from that action's own condition outcomes -/
theorem sim_proj (acts : List ActDef) (hnd : (acts.map (·.key)).Nodup) (a : ActDef) (ha : a ∈ acts) :
    ∀ (evs : List (Int × (Key → Bool))) (s : AState),
      runsOf a.key (sim acts s evs) = drive a.lim (s a.key) (evs.map fun e => (e.1, e.2 a.key)) ∧
      (simState acts s evs) a.key = finalState a.lim (s a.key) (evs.map fun e => (e.1, e.2 a.key))
  | [], s => by simp [sim, simState, drive, finalState, runsOf]
  | (t, oc) :: rest, s => by
    have hp := runStep_proj t oc (pendingA acts s t) s a.key (pending_nodup acts s t hnd)
    have ih := sim_proj acts hnd a ha rest (runStep t oc s (pendingA acts s t)).1
    simp only [sim, simState, List.map_cons, drive, finalState, runsOf_append]
    by_cases hr : (ready a.lim (s a.key) t && oc a.key) = true
    · have hr' : ready a.lim (s a.key) t = true ∧ oc a.key = true := by simpa using hr
      obtain ⟨h1, h2⟩ := hp.1 ⟨(mem_pending_keys acts s t hnd a ha).mpr hr'.1, hr'.2⟩
      rw [h2, ih.1, ih.2, h1]
      simp [hr]
    · have hno : ¬ (a.key ∈ (pendingA acts s t).map (·.key) ∧ oc a.key = true) := by
        intro h
        apply hr
        have := (mem_pending_keys acts s t hnd a ha).mp h.1
        simp [this, h.2]
      obtain ⟨h1, h2⟩ := hp.2 hno
      rw [h2, ih.1, ih.2, h1]
      simp [hr]

theorem limits_transfer (L : Limits) (s0 : RunState) (evs : List (Int × Bool))
    (hmono : ∀ i (h : i + 1 < evs.length), (evs[i]'(by omega)).1 ≤ (evs[i+1]'h).1)
    (hlast : s0.count > 0 → ∀ e ∈ evs, s0.last ≤ e.1) (runs : List Int) (e : runs = drive L s0 evs) :
    runs.length ≤ L.maxRun - s0.count ∧
    (∀ t ∈ runs, L.start ≤ t) ∧
    (∀ t ∈ runs, s0.count > 0 → 0 < L.minWait → L.minWait ≤ t - s0.last) ∧
    (0 < L.minWait → ∀ i (h : i + 1 < runs.length), L.minWait ≤ (runs[i+1]'h) - (runs[i]'(by omega))) := by
  subst e
  exact drive_invariant L evs s0 hmono hlast

/-- **run limits in a simulation with several actions**: for every action of the set, over any
history of report steps with non-decreasing times and any condition outcomes of all actions, its runs
respect its own `max_run`, `start` and `min_wait` -/
theorem sim_run_limits (acts : List ActDef) (hnd : (acts.map (·.key)).Nodup) (a : ActDef) (ha : a ∈ acts)
    (evs : List (Int × (Key → Bool))) (s : AState)
    (hmono : ∀ i (h : i + 1 < evs.length), (evs[i]'(by omega)).1 ≤ (evs[i+1]'h).1)
    (hlast : (s a.key).count > 0 → ∀ e ∈ evs, (s a.key).last ≤ e.1) :
    let runs := runsOf a.key (sim acts s evs)
    runs.length ≤ a.lim.maxRun - (s a.key).count ∧
    (∀ t ∈ runs, a.lim.start ≤ t) ∧
    (∀ t ∈ runs, (s a.key).count > 0 → 0 < a.lim.minWait → a.lim.minWait ≤ t - (s a.key).last) ∧
    (0 < a.lim.minWait → ∀ i (h : i + 1 < runs.length), a.lim.minWait ≤ (runs[i+1]'h) - (runs[i]'(by omega))) := by
  intro runs
  apply limits_transfer a.lim (s a.key) (evs.map fun e => (e.1, e.2 a.key)) ?_ ?_ runs (sim_proj acts hnd a ha evs s).1
  · intro i h
    simp only [List.length_map] at h
    simpa using hmono i h
  · intro hc e' he'
    obtain ⟨x, hx, rfl⟩ := List.mem_map.mp he'
    exact hlast hc x hx

/-- an action that is not pending at a report step does not run at it -/
theorem not_pending_no_run (acts : List ActDef) (hnd : (acts.map (·.key)).Nodup) (a : ActDef) (ha : a ∈ acts)
    (s : AState) (t : Int) (oc : Key → Bool) (h : a ∉ pendingA acts s t) :
    runsOf a.key (sim acts s [(t, oc)]) = [] := by
  have := (sim_proj acts hnd a ha [(t, oc)] s).1
  rw [this]
  have hr : ready a.lim (s a.key) t = false := by
    cases hh : ready a.lim (s a.key) t with
    | false => rfl
    | true => exact absurd (by simp [pendingA, ha, hh]) h
  simp [drive, hr]

/-! ### `Actions::add` -/

/-- names stay pairwise distinct -/
theorem addAction_names (acts : List ActDef) (name : String) (lim : Limits)
    (h : (acts.map (·.key.1)).Nodup) : ((addAction acts name lim).map (·.key.1)).Nodup := by
  unfold addAction
  by_cases hany : acts.any (fun a => a.key.1 = name) = true
  · simp only [hany, if_true, List.map_map]
    have : (acts.map ((fun a => a.key.1) ∘ fun a => if a.key.1 = name then (⟨(name, a.key.2 + 1), lim⟩ : ActDef) else a)) =
        acts.map (·.key.1) := by
      apply List.map_congr_left
      intro a _
      by_cases hn : a.key.1 = name <;> simp [hn]
    rw [this]; exact h
  · simp only [hany]
    simp only [List.any_eq_true, decide_eq_true_eq, not_exists, not_and] at hany
    simp only [Bool.false_eq_true, if_false, List.map_append, List.map_cons, List.map_nil]
    rw [List.nodup_append]
    refine ⟨h, by simp, ?_⟩
    intro x hx y hy
    simp only [List.mem_singleton] at hy
    subst hy
    obtain ⟨a, ha, rfl⟩ := List.mem_map.mp hx
    exact hany a ha

/-- distinct names give distinct (name, id) identities -/
theorem keys_nodup_of_names (acts : List ActDef) (h : (acts.map (·.key.1)).Nodup) : (acts.map (·.key)).Nodup := by
  have : acts.map (·.key.1) = (acts.map (·.key)).map (·.1) := by simp
  rw [this] at h
  exact nodup_of_map _ h

/-- `Touched acts s`: only identities (name, id) with id up to the current id of that name have runs
recorded.  Holds initially and is kept by report steps and by `Actions::add`. -/
def Touched (acts : List ActDef) (s : AState) : Prop :=
  ∀ k, (s k).count > 0 → ∃ a ∈ acts, a.key.1 = k.1 ∧ k.2 ≤ a.key.2

theorem touched_empty (acts : List ActDef) : Touched acts AState.empty := by
  intro k h; simp [AState.empty] at h

theorem touched_runStep (acts : List ActDef) (t : Int) (oc : Key → Bool) : ∀ (l : List ActDef) (s : AState),
    (∀ a ∈ l, a ∈ acts) → Touched acts s → Touched acts (runStep t oc s l).1
  | [], s, _, h => by simpa [runStep] using h
  | a :: r, s, hl, h => by
    by_cases hoc : oc a.key = true
    · simp only [runStep, hoc, if_true]
      apply touched_runStep acts t oc r _ (fun b hb => hl b (List.mem_cons_of_mem _ hb))
      intro k hk
      by_cases hka : k = a.key
      · subst hka; exact ⟨a, hl a List.mem_cons_self, rfl, Nat.le_refl _⟩
      · rw [AState.set_other _ _ _ _ hka] at hk; exact h k hk
    · simp only [runStep, hoc]
      exact touched_runStep acts t oc r s (fun b hb => hl b (List.mem_cons_of_mem _ hb)) h

theorem touched_sim (acts : List ActDef) : ∀ (evs : List (Int × (Key → Bool))) (s : AState),
    Touched acts s → Touched acts (simState acts s evs)
  | [], _, h => by simpa [simState] using h
  | (t, oc) :: rest, s, h => by
    simp only [simState]
    apply touched_sim acts rest
    exact touched_runStep acts t oc _ s (fun a ha => (List.mem_filter.mp ha).1) h

theorem touched_addAction (acts : List ActDef) (s : AState) (name : String) (lim : Limits)
    (h : Touched acts s) : Touched (addAction acts name lim) s := by
  intro k hk
  obtain ⟨a, ha, hn, hid⟩ := h k hk
  unfold addAction
  by_cases hany : acts.any (fun a => a.key.1 = name) = true
  · simp only [hany, if_true]
    by_cases han : a.key.1 = name
    · refine ⟨⟨(name, a.key.2 + 1), lim⟩, ?_, ?_, ?_⟩
      · exact List.mem_map.mpr ⟨a, ha, by simp [han]⟩
      · simp [← hn, han]
      · simp; omega
    · exact ⟨a, List.mem_map.mpr ⟨a, ha, by simp [han]⟩, hn, hid⟩
  · simp only [hany]
    exact ⟨a, by simp [ha], hn, hid⟩

/-- **a redefined action starts from run count 0**: after `Actions::add` of an existing name the
action carries an identity no run has been recorded for -/
theorem addAction_redefine_fresh (acts : List ActDef) (s : AState) (name : String) (lim : Limits)
    (hn : (acts.map (·.key.1)).Nodup) (h : Touched acts s)
    (a : ActDef) (ha : a ∈ acts) (han : a.key.1 = name) :
    (⟨(name, a.key.2 + 1), lim⟩ : ActDef) ∈ addAction acts name lim ∧ (s (name, a.key.2 + 1)).count = 0 := by
  constructor
  · unfold addAction
    have hany : acts.any (fun a => a.key.1 = name) = true := by
      simp only [List.any_eq_true, decide_eq_true_eq]; exact ⟨a, ha, han⟩
    simp only [hany, if_true]
    exact List.mem_map.mpr ⟨a, ha, by simp [han]⟩
  · cases hc : (s (name, a.key.2 + 1)).count with
    | zero => rfl
    | succ n =>
      exfalso
      obtain ⟨b, hb, hbn, hid⟩ := h (name, a.key.2 + 1) (by omega)
      simp only at hbn hid
      have hab : b = a := by
        exact inj_of_nodup_map (·.key.1) hn hb ha (by simp [hbn, han])
      subst hab
      omega

/-- `State::load_rst` of an action that has not run leaves it with the restart file's run count and
last run time -/
theorem loadRst_fresh (s : AState) (k : Key) (count : Nat) (last : Int) (h0 : (s k).count = 0) (hc : count > 0) :
    (loadRst s k count last) k = ⟨count, last⟩ := by
  have gen : ∀ (n : Nat) (st : AState),
      (loadRstN k last n st) k = if n = 0 then st k else ⟨(st k).count + n, last⟩ := by
    intro n
    induction n with
    | zero => intro st; simp [loadRstN]
    | succ m ih =>
      intro st
      simp only [loadRstN]
      rw [ih]
      by_cases hm : m = 0
      · subst hm; simp [AState.set_same, addRun]
      · simp only [hm, if_false, AState.set_same, addRun, Nat.succ_ne_zero]
        congr 1; omega
  unfold loadRst
  rw [gen count s]
  have : count ≠ 0 := by omega
  simp [this, h0]

/-! ### `Parser::get_type` -/

/-- every spelling of the operator table, in ANY letter case, is classified as its operator -/
theorem classify_op_any_case (s : List Char) (sp : String) (t : TT) (hmem : (sp, t) ∈ opTable)
    (hl : lowerL s = sp.toList) : classify s = t := by
  unfold classify
  rw [hl]
  simp only [opTable, List.mem_cons, Prod.mk.injEq, List.mem_nil_iff, or_false] at hmem
  rcases hmem with h | h | h | h | h | h | h | h | h | h | h | h | h | h | h | h <;>
    (obtain ⟨rfl, rfl⟩ := h; decide +kernel)

theorem spanLen_zero {p : Char → Bool} {c : Char} {r : List Char} (h : p c = false) : spanLen p (c :: r) = 0 := by
  simp [spanLen, h]

/-- a token whose lower-cased form is none of the 16 operator spellings and starts with a character
that cannot start a `strtod` subject (no blank, sign, digit, `.`, `i`, `n`) is an expression -/
theorem classify_ident (s : List Char) (c : Char) (r : List Char) (hl : lowerL s = c :: r)
    (htab : opTable.lookup (String.ofList (c :: r)) = none)
    (h1 : isSpaceC c = false) (h2 : isDig c = false) (h3 : c ≠ '+') (h4 : c ≠ '-') (h5 : c ≠ '.')
    (h6 : c ≠ 'i') (h7 : c ≠ 'n') : classify s = .expr := by
  unfold classify classifyLower
  rw [hl, htab]
  have hd : c ≠ '0' := by intro h; subst h; simp [isDig] at h2
  have hb : bodyLen (c :: r) = 0 := by
    unfold bodyLen
    have e1 : startsWith "infinity".toList (c :: r) = false := by
      simp [startsWith, List.isPrefixOf, Ne.symm h6]
    have e2 : startsWith "inf".toList (c :: r) = false := by
      simp [startsWith, List.isPrefixOf, Ne.symm h6]
    have e3 : startsWith "nan".toList (c :: r) = false := by
      simp [startsWith, List.isPrefixOf, Ne.symm h7]
    have e4 : startsWith "0x".toList (c :: r) = false := by
      simp [startsWith, List.isPrefixOf, Ne.symm hd]
    simp only [e1, e2, e3, e4, Bool.false_eq_true, if_false]
    have : mantLen isDig (c :: r) = 0 := by
      unfold mantLen
      rw [spanLen_zero h2]
      simp only [List.drop_zero]
      split
      · rename_i r' heq
        simp only [List.cons.injEq] at heq
        exact absurd heq.1 h5
      · rfl
    simp [this]
  have hs : strtodLen (c :: r) = 0 := by
    unfold strtodLen
    rw [spanLen_zero h1]
    simp only [List.drop_zero]
    split
    · rename_i heq; simp only [List.cons.injEq] at heq; exact absurd heq.1 h3
    · rename_i heq; simp only [List.cons.injEq] at heq; exact absurd heq.1 h4
    · simp [hb]
  rw [hs]
  simp

/-! ### `fnmatch` patterns -/

theorem globK_nil : globK 0 [] = fun x => x.isEmpty := by
  funext x; simp [globK]

/-- `*` matches every name -/
theorem globMatch_star (s : List Char) : globMatch ['*'] s = true := by
  have h : ∀ s : List Char, anySuffix (fun x => x.isEmpty) s = true := by
    intro s
    induction s with
    | nil => simp [anySuffix]
    | cons d t ih => simp [anySuffix, ih]
  simp [globMatch, globK, h]

/-- no meta character of `fnmatch` (fourth round: `[` opens a bracket expression) -/
def Literal (p : List Char) : Prop := ∀ c ∈ p, c ≠ '*' ∧ c ≠ '?' ∧ c ≠ '\\' ∧ c ≠ '['

theorem globK_cons_literal (c : Char) (p s : List Char) (h1 : c ≠ '*') (h2 : c ≠ '?') (h3 : c ≠ '\\')
    (h4 : c ≠ '[') :
    globK 0 (c :: p) s = (match s with
      | [] => false
      | d :: t => c = d && globK 0 p t) := by
  rw [globK.eq_def]
  simp only [h1, h2, h3, h4, if_false]
  cases s <;> rfl

/-- a pattern without meta characters matches exactly itself -/
theorem globK_literal : ∀ (p s : List Char), Literal p → (globK 0 p s = true ↔ s = p)
  | [], s, _ => by cases s <;> simp [globK]
  | c :: p, s, h => by
    obtain ⟨h1, h2, h3, h4⟩ := h c List.mem_cons_self
    have hp : Literal p := fun d hd => h d (List.mem_cons_of_mem _ hd)
    rw [globK_cons_literal c p s h1 h2 h3 h4]
    cases s with
    | nil => simp
    | cons d t =>
      simp only [Bool.and_eq_true, decide_eq_true_eq, List.cons.injEq]
      rw [globK_literal p t hp]
      constructor
      · rintro ⟨rfl, rfl⟩; exact ⟨rfl, rfl⟩
      · rintro ⟨rfl, rfl⟩; exact ⟨rfl, rfl⟩

theorem globMatch_literal (p s : List Char) (h : Literal p) : globMatch p s = true ↔ s = p :=
  globK_literal p s h

/-- `PREFIX*` matches exactly the names that start with `PREFIX` -/
theorem globK_prefix_star : ∀ (p s : List Char), Literal p → (globK 0 (p ++ ['*']) s = true ↔ p <+: s)
  | [], s, _ => by simpa [globMatch] using globMatch_star s
  | c :: p, s, h => by
    obtain ⟨h1, h2, h3, h4⟩ := h c List.mem_cons_self
    have hp : Literal p := fun d hd => h d (List.mem_cons_of_mem _ hd)
    rw [List.cons_append, globK_cons_literal c _ s h1 h2 h3 h4]
    cases s with
    | nil => simp
    | cons d t =>
      simp only [Bool.and_eq_true, decide_eq_true_eq]
      rw [globK_prefix_star p t hp, List.cons_prefix_cons]

theorem globMatch_prefix_star (p s : List Char) (h : Literal p) : globMatch (p ++ ['*']) s = true ↔ p <+: s :=
  globK_prefix_star p s h

end OpmVerif.Act
